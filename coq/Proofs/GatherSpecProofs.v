(* Lemmas about Model/GatherSpec.v (C18). *)
From Coq Require Import ZArith Bool String List Lia.
From Ice Require Import Model.PrioSpec Model.GatherSpec Gen.Names Gen.Prio.
Import ListNotations.
Local Open Scope Z_scope.

Ltac Zify.zify_post_hook ::= Z.div_mod_to_equations.

(* ------------------------------------------------------------------ generic list facts *)

Lemma in_filter_map {A B} (f : A -> option B) l y :
  In y (filter_map f l) <-> exists x, In x l /\ f x = Some y.
Proof.
  induction l as [|a l IH]; simpl.
  - split; [tauto | intros [x [[] _]]].
  - destruct (f a) eqn:E; simpl; rewrite IH; split.
    + intros [H | [x [Hx Hf]]]; [exists a; subst; auto | exists x; auto].
    + intros [x [[Hx | Hx] Hf]]; [subst; rewrite E in Hf; inversion Hf; auto | right; exists x; auto].
    + intros [x [Hx Hf]]; exists x; auto.
    + intros [x [[Hx | Hx] Hf]]; [subst; congruence | exists x; auto].
Qed.

Lemma mem_In x l : mem x l = true <-> In x l.
Proof.
  unfold mem. rewrite existsb_exists. split.
  - intros [y [Hy He]]. apply Z.eqb_eq in He. subst. exact Hy.
  - intros H. exists x. split; [exact H | apply Z.eqb_refl].
Qed.

Lemma In_zrange p lo n : In p (zrange lo n) <-> lo <= p < lo + Z.of_nat n.
Proof.
  revert lo. induction n as [|n IH]; intros lo; simpl zrange.
  - simpl. lia.
  - simpl In. rewrite IH. lia.
Qed.

(* ------------------------------------------------------------------ addresses *)

Lemma bytes_eqb_eq x y : bytes_eqb x y = true <-> x = y.
Proof.
  revert y. induction x as [|a x IH]; destruct y as [|b y]; simpl; try (split; congruence).
  rewrite andb_true_iff, Z.eqb_eq, IH. split; [intros [-> ->]; reflexivity | intros H; inversion H; auto].
Qed.

Lemma addr_eqb_eq a b : addr_eqb a b = true <-> a = b.
Proof.
  destruct a as [x xs], b as [y ys]. unfold addr_eqb. simpl.
  rewrite andb_true_iff, bytes_eqb_eq. split.
  - intros [H ->]. apply eqb_prop in H. subst. reflexivity.
  - intros H. inversion H. split; [apply eqb_reflx | reflexivity].
Qed.

Lemma addr_eqb_refl a : addr_eqb a a = true.
Proof. apply addr_eqb_eq. reflexivity. Qed.

Definition byte_ok (x : Z) : Prop := 0 <= x <= 255.
Definition bytes_ok (b : bytes) : Prop := forall x, In x b -> byte_ok x.

(* 0xc0 mask = "at least 192", 0x80 = "128..191": checked on all 256 byte values *)
Lemma land192_table :
  forallb (fun b => Bool.eqb (Z.land b 192 =? 192) (192 <=? b)
                    && Bool.eqb (Z.land b 192 =? 128) ((128 <=? b) && (b <=? 191))) (zrange 0 256) = true.
Proof. vm_compute. reflexivity. Qed.

Lemma land192 b : byte_ok b ->
  (Z.land b 192 =? 192) = (192 <=? b) /\ (Z.land b 192 =? 128) = ((128 <=? b) && (b <=? 191)).
Proof.
  intros Hb. pose proof land192_table as T. rewrite forallb_forall in T.
  specialize (T b). rewrite In_zrange in T. unfold byte_ok in Hb.
  assert (H : 0 <= b < 0 + Z.of_nat 256) by (simpl; lia). specialize (T H).
  apply andb_true_iff in T. destruct T as [T1 T2].
  apply eqb_prop in T1. apply eqb_prop in T2. auto.
Qed.

Lemma nth_In_or_default (b : bytes) i : byte_ok (nth i b 0) \/ ~ bytes_ok b.
Proof.
  destruct (nth_in_or_default i b 0) as [H | H].
  - destruct (Z_le_dec 0 (nth i b 0)), (Z_le_dec (nth i b 0) 255);
      try (left; unfold byte_ok; lia); right; intros Hb; specialize (Hb _ H); unfold byte_ok in Hb; lia.
  - left. rewrite H. unfold byte_ok. lia.
Qed.

Lemma byte_at_ok b i : bytes_ok b -> byte_ok (byte_at b i).
Proof. intros H. unfold byte_at. destruct (nth_In_or_default b i); tauto. Qed.

(* isSupportedIPv6Partial = "16 bytes, not IPv4-compatible, not site-local" *)
Lemma supported_v6_classes a :
  a6 a = true -> length (ab a) = 16%nat -> bytes_ok (ab a) ->
  supported_v6_partial (ab a) = negb (v6_sitelocal a) && negb (v6_v4compatible a).
Proof.
  intros H6 Hl Hb. unfold supported_v6_partial, v6_sitelocal, v6_v4compatible.
  rewrite H6, Hl.
  destruct (land192 (byte_at (ab a) 1) (byte_at_ok _ 1%nat Hb)) as [E _]. rewrite E.
  change (Nat.eqb 16 16) with true.
  generalize (all_zero (firstn 12 (ab a))) (byte_at (ab a) 0 =? 254) (192 <=? byte_at (ab a) 1).
  intros [] [] []; reflexivity.
Qed.

Lemma parse_ip_shape raw a : parse_ip raw = Some a ->
  (a6 a = false /\ length (ab a) = 4%nat) \/ (a6 a = true /\ length (ab a) = 16%nat /\ ab a = raw).
Proof.
  unfold parse_ip. destruct (Nat.eqb (length raw) 4) eqn:E4.
  - intros H. inversion H. subst. left. simpl. apply Nat.eqb_eq in E4. auto.
  - destruct (Nat.eqb (length raw) 16) eqn:E16; [|discriminate].
    apply Nat.eqb_eq in E16.
    destruct (is_v4mapped raw); intros H.
    + assert (Ha : a = mkAddr false (skipn 12 raw)) by congruence. subst a. cbn [a6 ab].
      left. split; [reflexivity|]. rewrite skipn_length. lia.
    + assert (Ha : a = mkAddr true raw) by congruence. subst a. cbn [a6 ab].
      right. auto.
Qed.

Lemma parse_ip_bytes_ok raw a : parse_ip raw = Some a -> bytes_ok raw -> bytes_ok (ab a).
Proof.
  unfold parse_ip. destruct (Nat.eqb (length raw) 4).
  - intros H. inversion H. auto.
  - destruct (Nat.eqb (length raw) 16); [|discriminate].
    destruct (is_v4mapped raw); intros H Hb;
      [assert (Ha : a = mkAddr false (skipn 12 raw)) by congruence
      |assert (Ha : a = mkAddr true raw) by congruence]; subst a; cbn [a6 ab]; auto.
    intros x Hx. apply Hb. clear - Hx. revert Hx. generalize 12%nat. intros n. revert raw.
    induction n as [|n IH]; intros raw Hx; [exact Hx|].
    destruct raw as [|r raw]; [destruct Hx|]. simpl in Hx. right. apply (IH raw Hx).
Qed.

(* ------------------------------------------------------------------ localInterfaces *)

Lemma local_addrs_iff c nts ifs a n :
  In (a, n) (local_addrs c nts ifs) <->
  exists i raw, In i ifs /\ In raw (if_addrs i) /\ if_name i = n /\
                iface_accept c i = true /\ addr_accept c nts raw = Some a.
Proof.
  unfold local_addrs. rewrite in_flat_map. split.
  - intros [i [Hi H]]. destruct (iface_accept c i) eqn:E; [|destruct H].
    apply in_filter_map in H. destruct H as [raw [Hr Hf]].
    destruct (addr_accept c nts raw) eqn:Ea; simpl in Hf; [|discriminate].
    inversion Hf; subst. exists i, raw. auto.
  - intros [i [raw [Hi [Hr [Hn [Hacc Ha]]]]]]. exists i. split; [exact Hi|].
    rewrite Hacc. apply in_filter_map. exists raw. split; [exact Hr|]. rewrite Ha. simpl. subst. reflexivity.
Qed.

Definition fam_ok (nts : list Z) (a : addr) : bool :=
  if a6 a then snd (fam_requested nts) else fst (fam_requested nts).

Lemma addr_accept_iff c nts raw a :
  addr_accept c nts raw = Some a <->
  parse_ip raw = Some a /\ (is_loopback a = true -> c_lo c = true) /\ fam_ok nts a = true /\
  (a6 a = true -> supported_v6_partial (ab a) = true) /\ opt_filter (c_ipf c) a = true.
Proof.
  unfold addr_accept, fam_ok.
  destruct (parse_ip raw) as [a'|]; [|split; [discriminate | intros [H _]; discriminate]].
  destruct (fam_requested nts) as [r4 r6]. cbn [fst snd].
  split.
  - destruct (is_loopback a') eqn:El; destruct (c_lo c) eqn:Elo; cbn [andb negb];
      destruct (a6 a') eqn:E6;
      try discriminate;
      destruct r6, r4; cbn [negb]; try discriminate;
      try (destruct (supported_v6_partial (ab a')) eqn:Es; cbn [negb]; try discriminate);
      destruct (opt_filter (c_ipf c) a') eqn:Ef; try discriminate;
      intros H; inversion H; subst a'; rewrite ?E6, ?El; repeat split; auto; intros; congruence.
  - intros [Hp [Hlo [Hf [Hs Hipf]]]]. inversion Hp; subst a'. clear Hp.
    destruct (is_loopback a) eqn:El.
    + rewrite (Hlo eq_refl). cbn [andb negb]. destruct (a6 a) eqn:E6.
      * rewrite Hf, (Hs eq_refl), Hipf. reflexivity.
      * rewrite Hf, Hipf. reflexivity.
    + cbn [andb]. destruct (a6 a) eqn:E6.
      * rewrite Hf, (Hs eq_refl), Hipf. reflexivity.
      * rewrite Hf, Hipf. reflexivity.
Qed.

(* soundness of the pipeline w.r.t. the declarative acceptance *)
Lemma local_addrs_accepted c nts ifs a n :
  In (a, n) (local_addrs c nts ifs) -> accepted_addr c ifs a = true.
Proof.
  rewrite local_addrs_iff. intros [i [raw [Hi [Hr [Hn [Hacc Ha]]]]]].
  apply addr_accept_iff in Ha. destruct Ha as [Hp [Hlo [Hf [Hs Hipf]]]].
  unfold accepted_addr. rewrite Hipf, andb_true_r. apply andb_true_iff. split.
  - unfold on_accepted_iface. apply existsb_exists. exists i. split; [exact Hi|].
    unfold iface_accept in Hacc. apply andb_true_iff in Hacc. destruct Hacc as [Hacc Hff].
    apply andb_true_iff in Hacc. destruct Hacc as [Hup Hl].
    rewrite Hup, Hff. simpl. rewrite andb_true_r. apply andb_true_iff. split.
    + destruct (if_lo i), (c_lo c); simpl in *; congruence.
    + apply existsb_exists. exists raw. split; [exact Hr|]. rewrite Hp. apply addr_eqb_refl.
  - destruct (is_loopback a); simpl; [apply Hlo; reflexivity | reflexivity].
Qed.

Lemma local_addrs_family c nts ifs a n : In (a, n) (local_addrs c nts ifs) -> fam_ok nts a = true.
Proof.
  rewrite local_addrs_iff. intros [i [raw [_ [_ [_ [_ Ha]]]]]]. apply addr_accept_iff in Ha. tauto.
Qed.

Definition ifs_bytes_ok (ifs : list iface) : Prop :=
  forall i raw, In i ifs -> In raw (if_addrs i) -> bytes_ok raw.

Lemma local_addrs_class c nts ifs a n : ifs_bytes_ok ifs ->
  In (a, n) (local_addrs c nts ifs) -> v6_sitelocal a = false /\ v6_v4compatible a = false.
Proof.
  intros Hok. rewrite local_addrs_iff. intros [i [raw [Hi [Hr [_ [_ Ha]]]]]].
  apply addr_accept_iff in Ha. destruct Ha as [Hp [_ [_ [Hs _]]]].
  destruct (a6 a) eqn:E6.
  - specialize (Hs eq_refl). destruct (parse_ip_shape _ _ Hp) as [[H _] | [_ [Hl _]]]; [congruence|].
    rewrite (supported_v6_classes a E6 Hl (parse_ip_bytes_ok _ _ Hp (Hok _ _ Hi Hr))) in Hs.
    apply andb_true_iff in Hs. destruct Hs as [H1 H2].
    apply negb_true_iff in H1. apply negb_true_iff in H2. auto.
  - unfold v6_sitelocal, v6_v4compatible. rewrite E6. auto.
Qed.

(* completeness of the pipeline: an accepted address of a requested family and a supported class
   is in the list *)
Lemma accepted_in_local_addrs c nts ifs a :
  accepted_addr c ifs a = true -> fam_ok nts a = true ->
  (a6 a = true -> supported_v6_partial (ab a) = true) ->
  exists n, In (a, n) (local_addrs c nts ifs).
Proof.
  intros Hacc Hfam Hsup. unfold accepted_addr in Hacc.
  apply andb_true_iff in Hacc. destruct Hacc as [Hacc Hipf].
  apply andb_true_iff in Hacc. destruct Hacc as [Hon Hlo].
  unfold on_accepted_iface in Hon. apply existsb_exists in Hon. destruct Hon as [i [Hi Hb]].
  apply andb_true_iff in Hb. destruct Hb as [Hb Hex].
  apply andb_true_iff in Hb. destruct Hb as [Hb Hff].
  apply andb_true_iff in Hb. destruct Hb as [Hup Hl].
  apply existsb_exists in Hex. destruct Hex as [raw [Hr Hm]].
  destruct (parse_ip raw) as [a'|] eqn:Hp; [|discriminate]. apply addr_eqb_eq in Hm. subst a'.
  exists (if_name i). apply local_addrs_iff. exists i, raw. repeat split; auto.
  - unfold iface_accept. rewrite Hup, Hff. simpl. rewrite andb_true_r.
    destruct (if_lo i), (c_lo c); simpl in *; congruence.
  - apply addr_accept_iff. repeat split; auto.
    intros Hloop. rewrite Hloop in Hlo. simpl in Hlo. exact Hlo.
Qed.

(* ------------------------------------------------------------------ the port scan *)

Lemma scan_sound look lo hi start : forall fuel cur p,
  lo <= cur <= hi -> snd (scan fuel look lo hi cur start) = Some p ->
  look p = VOk /\ lo <= p <= hi.
Proof.
  induction fuel as [|f IH]; intros cur p Hc; simpl; [discriminate|].
  destruct (look cur) eqn:El; simpl.
  - intros H. inversion H. subst. auto.
  - destruct (cur + 1 >? hi) eqn:Eg.
    + destruct (lo =? start); simpl; [discriminate|].
      destruct (scan f look lo hi lo start) as [tr r] eqn:Es. simpl. intros H. subst r.
      apply (IH lo p); [lia | rewrite Es; reflexivity].
    + destruct (cur + 1 =? start); simpl; [discriminate|].
      destruct (scan f look lo hi (cur + 1) start) as [tr r] eqn:Es. simpl. intros H. subst r.
      apply (IH (cur + 1) p); [lia | rewrite Es; reflexivity].
  - discriminate.
Qed.

Definition never_unavail (look : Z -> verdict) : Prop := forall p, look p <> VUnavail.

(* second leg of the cyclic scan: from lo up to start-1 *)
Lemma scan_none_leg2 look lo hi start : never_unavail look -> forall fuel cur,
  lo <= cur < start -> start <= hi -> start - cur <= Z.of_nat fuel ->
  snd (scan fuel look lo hi cur start) = None ->
  forall p, cur <= p < start -> look p = VBusy.
Proof.
  intros Hnu. induction fuel as [|f IH]; intros cur Hc Hs Hf; simpl; [lia|].
  destruct (look cur) eqn:El; simpl; [discriminate | | destruct (Hnu cur El)].
  assert (Eg : (cur + 1 >? hi) = false) by lia. rewrite Eg.
  destruct (cur + 1 =? start) eqn:Ee; simpl.
  - intros _ p Hp. assert (p = cur) by lia. subst. exact El.
  - destruct (scan f look lo hi (cur + 1) start) as [tr r] eqn:Es. simpl. intros H p Hp. subst r.
    destruct (Z.eq_dec p cur) as [->|Hne]; [exact El|].
    apply (IH (cur + 1)); try lia. rewrite Es. reflexivity.
Qed.

(* first leg: from start up to hi, then wrap *)
Lemma scan_none_leg1 look lo hi start : never_unavail look -> forall fuel cur,
  lo <= start -> start <= cur <= hi -> (hi - cur + 1) + (start - lo) <= Z.of_nat fuel ->
  snd (scan fuel look lo hi cur start) = None ->
  forall p, (cur <= p <= hi \/ lo <= p < start) -> look p = VBusy.
Proof.
  intros Hnu. induction fuel as [|f IH]; intros cur Hl Hc Hf; simpl; [lia|].
  destruct (look cur) eqn:El; simpl; [discriminate | | destruct (Hnu cur El)].
  destruct (cur + 1 >? hi) eqn:Eg.
  - assert (cur = hi) by lia. subst cur.
    destruct (lo =? start) eqn:Ee; simpl.
    + intros _ p Hp. assert (p = hi) by lia. subst. exact El.
    + destruct (scan f look lo hi lo start) as [tr r] eqn:Es. simpl. intros H p Hp. subst r.
      destruct Hp as [Hp | Hp]; [assert (p = hi) by lia; subst; exact El|].
      apply (scan_none_leg2 look lo hi start Hnu f lo); try lia. rewrite Es. reflexivity.
  - assert (Ee : (cur + 1 =? start) = false) by lia. rewrite Ee.
    destruct (scan f look lo hi (cur + 1) start) as [tr r] eqn:Es. simpl. intros H p Hp. subst r.
    destruct (Z.eq_dec p cur) as [->|Hne]; [exact El|].
    apply (IH (cur + 1)); try lia. rewrite Es. reflexivity.
Qed.

Lemma scan_complete look lo hi start :
  never_unavail look -> lo <= start <= hi ->
  snd (scan (Z.to_nat (hi - lo + 1)) look lo hi start start) = None ->
  forall p, lo <= p <= hi -> look p = VBusy.
Proof.
  intros Hnu Hs H p Hp.
  apply (scan_none_leg1 look lo hi start Hnu (Z.to_nat (hi - lo + 1)) start); try lia. exact H.
Qed.

(* listenUDPInPortRange against its abstraction, for every random starting port of the range *)
Lemma zrange_exists_free e b lo hi :
  existsb (fun p => negb (e_busy e b p)) (zrange lo (Z.to_nat (hi - lo + 1))) = true <->
  exists p, lo <= p <= hi /\ e_busy e b p = false.
Proof.
  rewrite existsb_exists. split.
  - intros [p [Hp Hb]]. apply In_zrange in Hp. apply negb_true_iff in Hb. exists p. split; [lia | exact Hb].
  - intros [p [Hp Hb]]. exists p. split; [apply In_zrange; lia | rewrite Hb; reflexivity].
Qed.

Lemma listen_refines e b pmin pmax start :
  (let '(lo, hi) := eff_range pmin pmax in lo <= start <= hi) ->
  match snd (listen_in_range (look_of e b) pmin pmax start), listen_spec e b pmin pmax with
  | LEphemeral, Some PAny => True
  | LPort p, Some ps => port_ok ps p = true /\ e_busy e b p = false /\ ps = PRange (fst (eff_range pmin pmax)) (snd (eff_range pmin pmax))
  | LFail, None => True
  | _, _ => False
  end.
Proof.
  unfold listen_in_range, listen_spec.
  destruct (eff_range pmin pmax) as [lo hi] eqn:Er. cbn [fst snd].
  intros Hs.
  destruct (e_unavail e b) eqn:Eu.
  - (* unavailable address: every attempt fails at once *)
    destruct ((pmin =? 0) && (pmax =? 0)).
    + cbn [snd]. unfold look_of. rewrite Eu. exact I.
    + destruct (lo >? hi) eqn:Eg; [exact I|].
      destruct (Z.to_nat (hi - lo + 1)) eqn:En; [exact I|].
      cbn [scan]. unfold look_of at 1. rewrite Eu. exact I.
  - destruct ((pmin =? 0) && (pmax =? 0)).
    + cbn [snd]. unfold look_of. rewrite Eu. destruct (e_busy e b 0); exact I.
    + destruct (lo >? hi) eqn:Eg; [exact I|].
      destruct (scan (Z.to_nat (hi - lo + 1)) (look_of e b) lo hi start start) as [tr r] eqn:Es. cbn [snd].
      assert (Hnu : never_unavail (look_of e b)).
      { intros p. unfold look_of. rewrite Eu. destruct (e_busy e b p); discriminate. }
      destruct r as [p|].
      * destruct (scan_sound (look_of e b) lo hi start (Z.to_nat (hi - lo + 1)) start p) as [Hok Hr];
          [lia | rewrite Es; reflexivity |].
        assert (Hb : e_busy e b p = false).
        { unfold look_of in Hok. rewrite Eu in Hok. destruct (e_busy e b p); [discriminate | reflexivity]. }
        assert (Hex : existsb (fun p => negb (e_busy e b p)) (zrange lo (Z.to_nat (hi - lo + 1))) = true).
        { apply zrange_exists_free. exists p. auto. }
        rewrite Hex. repeat split; auto. cbn [port_ok]. lia.
      * destruct (existsb (fun p => negb (e_busy e b p)) (zrange lo (Z.to_nat (hi - lo + 1)))) eqn:Hex; [|exact I].
        apply zrange_exists_free in Hex. destruct Hex as [p [Hp Hb]].
        assert (Hbusy : look_of e b p = VBusy).
        { apply (scan_complete (look_of e b) lo hi start Hnu); [lia | rewrite Es; reflexivity | lia]. }
        unfold look_of in Hbusy. rewrite Eu, Hb in Hbusy. discriminate.
Qed.

(* ------------------------------------------------------------------ the gatherers *)

Definition nts_ok (c : cfg) : Prop := forall t, In t (c_ntypes c) -> In t all_nts.
Definition env_ok (e : env) : Prop :=
  (forall is6 m, e_reply e is6 = Some m -> a6 m = is6 /\ bad_class m = false) /\
  (forall r, e_relayed e = Some r -> bad_class r = false).

Lemma eff_nts_ok c : nts_ok c -> forall t, In t (eff_nts (c_ntypes c)) -> In t all_nts.
Proof. intros H t. unfold eff_nts. destruct (c_ntypes c) eqn:E; [auto | intros Ht; apply H; rewrite E; exact Ht]. Qed.

Lemma in_eff_nts nts t : In t nts -> In t (eff_nts nts).
Proof. destruct nts; [intros [] | auto]. Qed.

Lemma gather_nts_sub v c t : In t (gather_nts v c) -> In t (eff_nts (c_ntypes c)).
Proof. unfold gather_nts. destruct (v_eff v); [auto | apply in_eff_nts]. Qed.

Lemma listen_spec_range c e b ps p :
  listen_spec e b (c_pmin c) (c_pmax c) = Some ps -> port_ok ps p = true -> in_cfg_range c p = true.
Proof.
  unfold listen_spec, in_cfg_range. destruct (e_unavail e b); [discriminate|].
  destruct ((c_pmin c =? 0) && (c_pmax c =? 0)); [reflexivity|].
  destruct (eff_range (c_pmin c) (c_pmax c)) as [lo hi].
  destruct (lo >? hi); [discriminate|].
  destruct (existsb _ _); [|discriminate]. intros H. inversion H. subst. simpl. auto.
Qed.

Lemma host_one_inv v c e nts a t d : In d (host_one v c e nts a t) ->
  d_type d = 1 /\ d_nt d = nt_of t (a6 a) /\ d_disp d = host_disp c a /\ d_pub d = host_pub c a /\
  d_base d = None /\
  (v_famgate v = true -> mem (nt_of t (a6 a)) nts = true) /\
  match t with
  | TTcp => c_tcpmux c = true /\ d_sock d = None
  | TUdp => listen_spec e a (c_pmin c) (c_pmax c) = Some (d_port d) /\ d_sock d = Some a
  end.
Proof.
  unfold host_one. destruct (v_famgate v) eqn:Ev; simpl.
  - destruct (mem (nt_of t (a6 a)) nts) eqn:Em; simpl; [|intros []].
    destruct t.
    + destruct (listen_spec e a (c_pmin c) (c_pmax c)) eqn:El; [|intros []].
      intros [H | []]. subst d. simpl. repeat split; auto.
    + destruct (c_tcpmux c) eqn:Et; [|intros []]. intros [H | []]. subst d. simpl. repeat split; auto.
  - destruct t.
    + destruct (listen_spec e a (c_pmin c) (c_pmax c)) eqn:El; [|intros []].
      intros [H | []]. subst d. simpl. repeat split; auto; discriminate.
    + destruct (c_tcpmux c) eqn:Et; [|intros []]. intros [H | []]. subst d. simpl. repeat split; auto; discriminate.
Qed.

Lemma host_model_inv v c ifs e d : In d (host_model v c ifs e) ->
  exists a n t, In (a, n) (local_addrs c (gather_nts v c) ifs) /\ In t (host_transports (gather_nts v c)) /\
                In d (host_one v c e (gather_nts v c) a t).
Proof.
  unfold host_model. rewrite in_flat_map. intros [[a n] [Ha H]]. apply in_flat_map in H.
  destruct H as [t [Ht Hd]]. exists a, n, t. auto.
Qed.

Lemma host_transports_iff nts t :
  In t (host_transports nts) <->
  exists x, In x nts /\ NetworkType_IsTCP x = match t with TTcp => true | TUdp => false end.
Proof.
  unfold host_transports. rewrite in_app_iff. split.
  - intros [H | H].
    + destruct (existsb (fun t0 => negb (NetworkType_IsTCP t0)) nts) eqn:E; [|destruct H].
      destruct H as [<- | []]. apply existsb_exists in E. destruct E as [x [Hx Hn]].
      exists x. split; [exact Hx|]. apply negb_true_iff in Hn. exact Hn.
    + destruct (existsb NetworkType_IsTCP nts) eqn:E; [|destruct H].
      destruct H as [<- | []]. apply existsb_exists in E. exact E.
  - intros [x [Hx Hn]]. destruct t.
    + left. assert (E : existsb (fun t0 => negb (NetworkType_IsTCP t0)) nts = true).
      { apply existsb_exists. exists x. split; [exact Hx | rewrite Hn; reflexivity]. }
      rewrite E. left. reflexivity.
    + right. assert (E : existsb NetworkType_IsTCP nts = true).
      { apply existsb_exists. exists x. auto. }
      rewrite E. left. reflexivity.
Qed.

Lemma all_nts_cases t : In t all_nts -> t = 1 \/ t = 2 \/ t = 3 \/ t = 4.
Proof. unfold all_nts. simpl. intuition. Qed.

Lemma srflx_one_inv c e nt b d : In d (srflx_one c e nt b) ->
  exists srv ps m, e_server e (NetworkType_IsIPv6 nt) = Some srv /\
    listen_spec e b (c_pmin c) (c_pmax c) = Some ps /\ e_reply e (NetworkType_IsIPv6 nt) = Some m /\
    d = mkCdesc 2 (nt_of TUdp (a6 m)) (DIP m) PAny (Some (b, ps)) true (Some b).
Proof.
  unfold srflx_one. destruct (e_server e (NetworkType_IsIPv6 nt)) as [srv|]; [|intros []].
  destruct (location_tracked srv); [intros []|].
  destruct (listen_spec e b (c_pmin c) (c_pmax c)) as [ps|]; [|intros []].
  destruct (e_reply e (NetworkType_IsIPv6 nt)) as [m|]; [|intros []].
  intros [H | []]. exists srv, ps, m. auto.
Qed.

Lemma srflx_model_inv v c ifs e d : In d (srflx_model v c ifs e) ->
  exists nt b, In nt (gather_nts v c) /\ NetworkType_IsTCP nt = false /\
    In b (srflx_binds c (gather_nts v c) ifs nt) /\ In d (srflx_one c e nt b).
Proof.
  unfold srflx_model. rewrite in_flat_map. intros [nt [Hnt H]].
  destruct (NetworkType_IsTCP nt) eqn:Et; [destruct H|].
  apply in_flat_map in H. destruct H as [k [_ H]]. destruct (url_srflx k); [|destruct H].
  apply in_flat_map in H. destruct H as [b [Hb Hd]]. exists nt, b. auto.
Qed.

Lemma srflx_binds_ok c nts ifs nt b : In b (srflx_binds c nts ifs nt) ->
  accepted_addr c ifs b = true \/ (is_unspec b = true /\ has_filters c = false).
Proof.
  unfold srflx_binds. destruct (has_filters c).
  - intros H. apply filter_In in H. destruct H as [H _]. apply in_map_iff in H.
    destruct H as [[a n] [<- Ha]]. left. eapply local_addrs_accepted; eauto.
  - intros [<- | []]. right. split; [|reflexivity]. unfold wild, is_unspec.
    destruct (NetworkType_IsIPv6 nt); reflexivity.
Qed.

Lemma relay_model_inv v c ifs e d : In d (relay_model v c ifs e) ->
  exists b r, e_relayed e = Some r /\ location_tracked r = false /\
    (v_relaygate v = true -> mem (nt_of TUdp (a6 r)) (eff_nts (c_ntypes c)) = true) /\
    d = mkCdesc 4 (nt_of TUdp (a6 r)) (DIP r) PAny (Some (b, PAny)) true (Some b).
Proof.
  unfold relay_model. destruct (_ && _); [intros []|]. destruct (negb _); [intros []|].
  rewrite in_flat_map. intros [k [_ H]]. destruct (k =? 2); [|destruct H].
  apply in_flat_map in H. destruct H as [b [_ H]]. unfold relay_one in H.
  destruct (_ || _); [destruct H|]. destruct (e_relayed e) as [r|]; [|destruct H].
  destruct (location_tracked r) eqn:El; [destruct H|].
  destruct (v_relaygate v) eqn:Ev; cbn [andb] in H.
  - destruct (mem (nt_of TUdp (a6 r)) (eff_nts (c_ntypes c))) eqn:Em; cbn [negb] in H; [|destruct H].
    destruct H as [H | []]. exists b, r. auto.
  - destruct H as [H | []]. exists b, r. repeat split; auto. discriminate.
Qed.

Lemma gather_model_inv v c ifs e d : In d (gather_model v c ifs e) ->
  (In 1 (c_ctypes c) /\ In d (host_model v c ifs e)) \/
  (In 2 (c_ctypes c) /\ In d (srflx_model v c ifs e)) \/
  (In 4 (c_ctypes c) /\ In d (relay_model v c ifs e)).
Proof.
  unfold gather_model. rewrite in_flat_map. intros [t [Ht H]].
  destruct (t =? 1) eqn:E1; [apply Z.eqb_eq in E1; subst; auto|].
  destruct (t =? 2) eqn:E2; [apply Z.eqb_eq in E2; subst; auto|].
  destruct (t =? 4) eqn:E4; [apply Z.eqb_eq in E4; subst; auto|]. destruct H.
Qed.

Lemma gather_model_host v c ifs e d : In 1 (c_ctypes c) -> In d (host_model v c ifs e) -> In d (gather_model v c ifs e).
Proof. intros H1 Hd. unfold gather_model. apply in_flat_map. exists 1. split; [exact H1 | exact Hd]. Qed.

(* --- every described candidate has an enabled candidate type *)
Lemma model_type_enabled v c ifs e d : In d (gather_model v c ifs e) -> In (d_type d) (c_ctypes c).
Proof.
  intros H. destruct (gather_model_inv _ _ _ _ _ H) as [[Hc Hd] | [[Hc Hd] | [Hc Hd]]].
  - destruct (host_model_inv _ _ _ _ _ Hd) as [a [n [t [_ [_ Ho]]]]].
    destruct (host_one_inv _ _ _ _ _ _ _ Ho) as [-> _]. exact Hc.
  - destruct (srflx_model_inv _ _ _ _ _ Hd) as [nt [b [_ [_ [_ Ho]]]]].
    destruct (srflx_one_inv _ _ _ _ _ Ho) as [srv [ps [m [_ [_ [_ ->]]]]]]. exact Hc.
  - destruct (relay_model_inv _ _ _ _ _ Hd) as [b [r [_ [_ [_ ->]]]]]. exact Hc.
Qed.

(* --- network types.  A product configuration pairs every requested family with every
       requested transport. *)
Definition product_nts (nts : list Z) : Prop :=
  forall t1 t2, In t1 nts -> In t2 nts ->
    In (nt_of (if NetworkType_IsTCP t1 then TTcp else TUdp) (NetworkType_IsIPv6 t2)) nts.

Lemma fam_ok_witness nts a : (forall t, In t nts -> In t all_nts) -> nts <> [] -> fam_ok nts a = true ->
  exists t2, In t2 nts /\ NetworkType_IsIPv6 t2 = a6 a.
Proof.
  intros Hok Hne. unfold fam_ok, fam_requested. destruct nts as [|x l]; [congruence|].
  destruct (a6 a); cbn [fst snd]; intros H; apply existsb_exists in H; destruct H as [t [Ht Hf]]; exists t; split; auto.
  destruct (all_nts_cases t (Hok t Ht)) as [-> | [-> | [-> | ->]]]; vm_compute in Hf |- *; congruence.
Qed.

Lemma host_nettype v c ifs e d :
  nts_ok c -> (v_famgate v = true \/ product_nts (c_ntypes c)) ->
  In d (host_model v c ifs e) -> In (d_nt d) (eff_nts (c_ntypes c)).
Proof.
  intros Hok Hv Hd. destruct (host_model_inv _ _ _ _ _ Hd) as [a [n [t [Ha [Ht Ho]]]]].
  destruct (host_one_inv _ _ _ _ _ _ _ Ho) as [_ [-> [_ [_ [_ [Hg _]]]]]].
  destruct (v_famgate v) eqn:Ev.
  - apply gather_nts_sub with (v := v). apply mem_In. apply Hg. reflexivity.
  - destruct Hv as [Hv | Hp]; [discriminate|].
    apply host_transports_iff in Ht. destruct Ht as [t1 [Ht1 Htcp]].
    assert (Hsub : forall x, In x (gather_nts v c) -> In x all_nts).
    { intros x Hx. apply (eff_nts_ok c Hok). apply gather_nts_sub with (v := v). exact Hx. }
    assert (Hne : gather_nts v c <> []) by (intros E; rewrite E in Ht1; destruct Ht1).
    destruct (fam_ok_witness _ a Hsub Hne (local_addrs_family _ _ _ _ _ Ha)) as [t2 [Ht2 Hf]].
    unfold gather_nts in *. destruct (v_eff v).
    + (* effective list *)
      unfold eff_nts in *. destruct (c_ntypes c) eqn:En.
      * (* all four types: every combination is there *)
        destruct t, (a6 a); simpl; auto.
      * specialize (Hp t1 t2 Ht1 Ht2). rewrite Hf in Hp. destruct t; rewrite Htcp in Hp; exact Hp.
    + apply in_eff_nts. specialize (Hp t1 t2 Ht1 Ht2). rewrite Hf in Hp.
      destruct t; rewrite Htcp in Hp; exact Hp.
Qed.

Lemma srflx_nettype v c ifs e d : nts_ok c -> env_ok e ->
  In d (srflx_model v c ifs e) -> In (d_nt d) (eff_nts (c_ntypes c)).
Proof.
  intros Hok [Hrep _] Hd. destruct (srflx_model_inv _ _ _ _ _ Hd) as [nt [b [Hnt [Htcp [_ Ho]]]]].
  destruct (srflx_one_inv _ _ _ _ _ Ho) as [srv [ps [m [_ [_ [Hm ->]]]]]]. simpl.
  destruct (Hrep _ _ Hm) as [H6 _]. rewrite H6.
  pose proof (gather_nts_sub _ _ _ Hnt) as Hin.
  destruct (all_nts_cases nt (eff_nts_ok c Hok nt Hin)) as [-> | [-> | [-> | ->]]];
    try (vm_compute in Htcp; discriminate); exact Hin.
Qed.

Lemma model_nettype_enabled v c ifs e d :
  nts_ok c -> env_ok e ->
  (v_famgate v = true \/ product_nts (c_ntypes c)) ->
  (v_relaygate v = true \/ forall r, e_relayed e = Some r -> In (nt_of TUdp (a6 r)) (eff_nts (c_ntypes c))) ->
  In d (gather_model v c ifs e) -> In (d_nt d) (eff_nts (c_ntypes c)).
Proof.
  intros Hok He Hf Hr H. destruct (gather_model_inv _ _ _ _ _ H) as [[_ Hd] | [[_ Hd] | [_ Hd]]].
  - eapply host_nettype; eauto.
  - eapply srflx_nettype; eauto.
  - destruct (relay_model_inv _ _ _ _ _ Hd) as [b [r [Hre [_ [Hg ->]]]]]. simpl.
    destruct Hr as [Hr | Hr]; [apply mem_In; apply Hg; exact Hr | apply Hr; exact Hre].
Qed.

(* --- address classes of published candidates *)
Lemma model_addr_class v c ifs e d a :
  ifs_bytes_ok ifs -> env_ok e ->
  In d (gather_model v c ifs e) -> d_pub d = true -> d_disp d = DIP a -> bad_class a = false.
Proof.
  intros Hb [Hrep Hrel] H Hpub Hdisp. destruct (gather_model_inv _ _ _ _ _ H) as [[_ Hd] | [[_ Hd] | [_ Hd]]].
  - destruct (host_model_inv _ _ _ _ _ Hd) as [a' [n [t [Ha [_ Ho]]]]].
    destruct (host_one_inv _ _ _ _ _ _ _ Ho) as [_ [_ [Hdi [Hp _]]]].
    rewrite Hdi in Hdisp. rewrite Hp in Hpub. unfold host_disp in Hdisp. unfold host_pub in Hpub.
    destruct (c_mdns c); [discriminate|]. inversion Hdisp; subst a'.
    destruct (local_addrs_class _ _ _ _ _ Hb Ha) as [Hs Hc].
    unfold bad_class. rewrite Hs, Hc. unfold location_tracked in Hpub. apply negb_true_iff in Hpub.
    rewrite Hpub. reflexivity.
  - destruct (srflx_model_inv _ _ _ _ _ Hd) as [nt [b [_ [_ [_ Ho]]]]].
    destruct (srflx_one_inv _ _ _ _ _ Ho) as [srv [ps [m [_ [_ [Hm ->]]]]]]. simpl in Hdisp.
    inversion Hdisp; subst. apply (Hrep _ _ Hm).
  - destruct (relay_model_inv _ _ _ _ _ Hd) as [b [r [Hre [_ [_ ->]]]]]. simpl in Hdisp.
    inversion Hdisp; subst. apply (Hrel _ Hre).
Qed.

(* --- mDNS gather mode *)
Lemma model_mdns v c ifs e d :
  In d (gather_model v c ifs e) -> d_type d = 1 ->
  if c_mdns c then d_disp d = DName (c_mdns_name c) else exists a, d_disp d = DIP a.
Proof.
  intros H Ht. destruct (gather_model_inv _ _ _ _ _ H) as [[_ Hd] | [[_ Hd] | [_ Hd]]].
  - destruct (host_model_inv _ _ _ _ _ Hd) as [a' [n [t [_ [_ Ho]]]]].
    destruct (host_one_inv _ _ _ _ _ _ _ Ho) as [_ [_ [Hdi _]]]. rewrite Hdi. unfold host_disp.
    destruct (c_mdns c); [reflexivity | eexists; reflexivity].
  - destruct (srflx_model_inv _ _ _ _ _ Hd) as [nt [b [_ [_ [_ Ho]]]]].
    destruct (srflx_one_inv _ _ _ _ _ Ho) as [srv [ps [m [_ [_ [_ ->]]]]]]. discriminate.
  - destruct (relay_model_inv _ _ _ _ _ Hd) as [b [r [_ [_ [_ ->]]]]]. discriminate.
Qed.

(* --- own sockets: accepted address, port in range *)
Lemma nt_is6_nt_of t b : nt_is6 (nt_of t b) = b.
Proof. destruct t, b; reflexivity. Qed.

Lemma model_host_socket v c ifs e d :
  In d (gather_model v c ifs e) -> d_type d = 1 -> is_udp_nt (d_nt d) = true ->
  exists a, d_sock d = Some a /\ d_base d = None /\ accepted_addr c ifs a = true /\ a6 a = nt_is6 (d_nt d) /\
            (forall p, port_ok (d_port d) p = true -> in_cfg_range c p = true) /\
            (forall a', d_disp d = DIP a' -> a' = a).
Proof.
  intros H Ht Hu. destruct (gather_model_inv _ _ _ _ _ H) as [[_ Hd] | [[_ Hd] | [_ Hd]]].
  - destruct (host_model_inv _ _ _ _ _ Hd) as [a [n [t [Ha [_ Ho]]]]].
    destruct (host_one_inv _ _ _ _ _ _ _ Ho) as [_ [Hnt [Hdi [_ [Hb [_ Hm]]]]]].
    destruct t.
    + destruct Hm as [Hl Hs]. exists a. repeat split; auto.
      * eapply local_addrs_accepted; eauto.
      * rewrite Hnt. symmetry. apply nt_is6_nt_of.
      * intros p. eapply listen_spec_range; eauto.
      * intros a' Hd'. rewrite Hdi in Hd'. unfold host_disp in Hd'. destruct (c_mdns c); congruence.
    + rewrite Hnt in Hu. destruct (a6 a); discriminate.
  - destruct (srflx_model_inv _ _ _ _ _ Hd) as [nt [b [_ [_ [_ Ho]]]]].
    destruct (srflx_one_inv _ _ _ _ _ Ho) as [srv [ps [m [_ [_ [_ ->]]]]]]. discriminate.
  - destruct (relay_model_inv _ _ _ _ _ Hd) as [b [r [_ [_ [_ ->]]]]]. discriminate.
Qed.

Lemma model_srflx_base v c ifs e d :
  In d (gather_model v c ifs e) -> d_type d = 2 ->
  exists b ps, d_base d = Some (b, ps) /\ d_sock d = Some b /\
    (accepted_addr c ifs b = true \/ (is_unspec b = true /\ has_filters c = false)) /\
    (forall p, port_ok ps p = true -> in_cfg_range c p = true).
Proof.
  intros H Ht. destruct (gather_model_inv _ _ _ _ _ H) as [[_ Hd] | [[_ Hd] | [_ Hd]]].
  - destruct (host_model_inv _ _ _ _ _ Hd) as [a [n [t [_ [_ Ho]]]]].
    destruct (host_one_inv _ _ _ _ _ _ _ Ho) as [Hty _]. congruence.
  - destruct (srflx_model_inv _ _ _ _ _ Hd) as [nt [b [_ [_ [Hb Ho]]]]].
    destruct (srflx_one_inv _ _ _ _ _ Ho) as [srv [ps [m [_ [Hl [_ ->]]]]]]. simpl.
    exists b, ps. repeat split; auto.
    + eapply srflx_binds_ok; eauto.
    + intros p. eapply listen_spec_range; eauto.
  - destruct (relay_model_inv _ _ _ _ _ Hd) as [b [r [_ [_ [_ ->]]]]]. discriminate.
Qed.

(* --- completeness: every eligible interface address yields a host candidate for each enabled
       transport that has a listener *)
Lemma all_addrs_iff ifs a : In a (all_addrs ifs) <-> exists i raw, In i ifs /\ In raw (if_addrs i) /\ parse_ip raw = Some a.
Proof.
  unfold all_addrs. rewrite in_flat_map. split.
  - intros [i [Hi H]]. apply in_filter_map in H. destruct H as [raw [Hr Hp]]. exists i, raw. auto.
  - intros [i [raw [Hi [Hr Hp]]]]. exists i. split; [exact Hi|]. apply in_filter_map. exists raw. auto.
Qed.

Lemma nt_of_props t b : In (nt_of t b) all_nts /\ NetworkType_IsIPv6 (nt_of t b) = b /\
  NetworkType_IsIPv4 (nt_of t b) = negb b /\
  NetworkType_IsTCP (nt_of t b) = match t with TTcp => true | TUdp => false end.
Proof. destruct t, b; vm_compute; intuition. Qed.

Lemma model_complete v c ifs e a t :
  ifs_bytes_ok ifs ->
  (v_eff v = true \/ c_ntypes c <> []) ->
  In 1 (c_ctypes c) -> In a (all_addrs ifs) -> eligible c ifs a = true ->
  In (nt_of t (a6 a)) (eff_nts (c_ntypes c)) -> has_listener c e a t = true ->
  exists d, In d (gather_model v c ifs e) /\ d_type d = 1 /\ d_nt d = nt_of t (a6 a) /\
            d_disp d = host_disp c a /\ d_pub d = true.
Proof.
  intros Hb Hv Hc Ha He Hnt Hl.
  assert (Hg : gather_nts v c = eff_nts (c_ntypes c)).
  { unfold gather_nts. destruct (v_eff v); [reflexivity|]. destruct Hv as [Hv | Hv]; [discriminate|].
    unfold eff_nts. destruct (c_ntypes c); [congruence | reflexivity]. }
  apply all_addrs_iff in Ha. destruct Ha as [i [raw [Hi [Hr Hp]]]].
  unfold eligible in He. apply andb_true_iff in He. destruct He as [Hacc Hcls].
  destruct (nt_of_props t (a6 a)) as [_ [H6 [H4 Htcp]]].
  assert (Hfam : fam_ok (gather_nts v c) a = true).
  { rewrite Hg. unfold fam_ok, fam_requested. destruct (eff_nts (c_ntypes c)) as [|z l] eqn:En; [destruct Hnt|].
    rewrite <- En in *.
    destruct (a6 a) eqn:E6; cbn [fst snd]; apply existsb_exists; eexists; (split; [exact Hnt|]); assumption. }
  assert (Hsup : a6 a = true -> supported_v6_partial (ab a) = true).
  { intros E6. destruct (parse_ip_shape _ _ Hp) as [[H _] | [_ [Hlen _]]]; [congruence|].
    rewrite (supported_v6_classes a E6 Hlen (parse_ip_bytes_ok _ _ Hp (Hb _ _ Hi Hr))).
    rewrite E6 in Hcls. cbn [negb orb] in Hcls. apply andb_true_iff in Hcls. destruct Hcls as [Hcls _].
    exact Hcls. }
  destruct (accepted_in_local_addrs c (gather_nts v c) ifs a Hacc Hfam Hsup) as [n Hin].
  assert (Ht : In t (host_transports (gather_nts v c))).
  { apply host_transports_iff. exists (nt_of t (a6 a)). rewrite Hg. auto. }
  assert (Hone : exists d, In d (host_one v c e (gather_nts v c) a t) /\ d_type d = 1 /\ d_nt d = nt_of t (a6 a)
                           /\ d_disp d = host_disp c a /\ d_pub d = host_pub c a).
  { unfold host_one. rewrite Hg. assert (Em : mem (nt_of t (a6 a)) (eff_nts (c_ntypes c)) = true) by (apply mem_In; exact Hnt).
    rewrite Em. rewrite andb_false_r. unfold has_listener in Hl. destruct t.
    - destruct (listen_spec e a (c_pmin c) (c_pmax c)); [|discriminate]. eexists. split; [left; reflexivity|]. simpl. auto.
    - rewrite Hl. eexists. split; [left; reflexivity|]. simpl. auto. }
  destruct Hone as [d [Hd [H1 [H2 [H3 H4']]]]]. exists d. repeat split; auto.
  - apply gather_model_host; [exact Hc|]. unfold host_model. apply in_flat_map. exists (a, n). split; [exact Hin|].
    apply in_flat_map. exists t. auto.
  - rewrite H4'. unfold host_pub, location_tracked. destruct (c_mdns c); [reflexivity|].
    destruct (a6 a) eqn:E6.
    + cbn [negb orb] in Hcls. apply andb_true_iff in Hcls. destruct Hcls as [_ Hll]. simpl in Hll. exact Hll.
    + unfold v6_linklocal. rewrite E6. reflexivity.
Qed.

(* ------------------------------------------------------------------ monitor soundness *)

Lemma disp_eqb_eq x y : disp_eqb x y = true <-> x = y.
Proof.
  destruct x, y; simpl; try (split; congruence).
  - rewrite addr_eqb_eq. split; congruence.
  - rewrite String.eqb_eq. split; congruence.
Qed.

Lemma match_cand_inv o d : match_cand o d = true ->
  o_type o = d_type d /\ o_nt o = d_nt d /\ o_disp o = d_disp d /\ port_ok (d_port d) (o_port o) = true /\
  match_base (o_base o) (d_base d) = true.
Proof.
  unfold match_cand. rewrite !andb_true_iff, !Z.eqb_eq, disp_eqb_eq. tauto.
Qed.

Lemma corresponds_inv descs pub socks : corresponds descs pub socks = true ->
  (forall o, In o pub -> exists d, In d descs /\ d_pub d = true /\ match_cand o d = true /\ sock_seen socks o d = true) /\
  (forall d, In d descs -> d_pub d = true -> exists o, In o pub /\ match_cand o d = true).
Proof.
  unfold corresponds. rewrite andb_true_iff, !forallb_forall. intros [H1 H2]. split.
  - intros o Ho. specialize (H1 o Ho). apply existsb_exists in H1. destruct H1 as [d [Hd H]].
    rewrite !andb_true_iff in H. exists d. tauto.
  - intros d Hd Hp. specialize (H2 d Hd). rewrite Hp in H2. simpl in H2. apply existsb_exists in H2. exact H2.
Qed.

Theorem gather_monitor_sound c ifs e pub socks :
  nts_ok c -> env_ok e -> ifs_bytes_ok ifs ->
  corresponds (gather_model repaired c ifs e) pub socks = true ->
  all_ok (C18_gather_checks c ifs e pub socks) = true.
Proof.
  intros Hok He Hb Hcorr. apply corresponds_inv in Hcorr. destruct Hcorr as [Hfwd Hbwd].
  assert (Hnt : forall o, In o pub -> mem (o_nt o) (eff_nts (c_ntypes c)) = true).
  { intros o Ho. destruct (Hfwd o Ho) as [d [Hd [_ [Hm _]]]]. apply match_cand_inv in Hm.
    destruct Hm as [_ [-> _]]. apply mem_In.
    apply (model_nettype_enabled repaired c ifs e d Hok He); auto. }
  unfold C18_gather_checks, all_ok. cbn [forallb snd]. rewrite !andb_true_iff. repeat split.
  - (* type_enabled *) apply forallb_forall. intros o Ho. destruct (Hfwd o Ho) as [d [Hd [_ [Hm _]]]].
    apply match_cand_inv in Hm. destruct Hm as [-> _]. apply mem_In. eapply model_type_enabled; eauto.
  - apply forallb_forall. intros o Ho. rewrite (Hnt o Ho). apply orb_true_r.
  - apply forallb_forall. intros o Ho. rewrite (Hnt o Ho). apply orb_true_r.
  - apply forallb_forall. intros o Ho. rewrite (Hnt o Ho). rewrite !orb_true_r. reflexivity.
  - (* addr_class *) apply forallb_forall. intros o Ho. destruct (Hfwd o Ho) as [d [Hd [Hp [Hm _]]]].
    apply match_cand_inv in Hm. destruct Hm as [_ [_ [Hdi _]]].
    destruct (o_disp o) as [a|] eqn:Eo; [|reflexivity].
    rewrite (model_addr_class repaired c ifs e d a Hb He Hd Hp); [reflexivity | congruence].
  - (* mdns_name *) apply forallb_forall. intros o Ho. destruct (Hfwd o Ho) as [d [Hd [_ [Hm _]]]].
    apply match_cand_inv in Hm. destruct Hm as [Hty [_ [Hdi _]]].
    destruct (o_type o =? 1) eqn:E1; [|reflexivity]. apply Z.eqb_eq in E1. cbn [negb orb].
    pose proof (model_mdns repaired c ifs e d Hd) as Hmd. rewrite <- Hty in Hmd. specialize (Hmd E1).
    destruct (c_mdns c).
    + apply disp_eqb_eq. congruence.
    + destruct Hmd as [a Ha]. rewrite Hdi, Ha. reflexivity.
  - (* own_socket_accepted *) apply forallb_forall. intros o Ho.
    destruct (Hfwd o Ho) as [d [Hd [_ [Hm Hs]]]].
    apply match_cand_inv in Hm. destruct Hm as [Hty [Hn [Hdi [Hpo Hba]]]].
    destruct ((o_type o =? 1) && is_udp_nt (o_nt o)) eqn:E1.
    + apply andb_true_iff in E1. destruct E1 as [E1 Eu]. apply Z.eqb_eq in E1.
      rewrite Hty in E1. rewrite Hn in Eu.
      destruct (model_host_socket repaired c ifs e d Hd E1 Eu) as [a [Hsock [Hbase [Hacc [H6 [_ Hd']]]]]].
      unfold sock_seen in Hs. rewrite Hsock in Hs. apply existsb_exists in Hs. destruct Hs as [s [Hin Hs]].
      apply andb_true_iff in Hs. destruct Hs as [Hsa Hsp]. apply addr_eqb_eq in Hsa.
      unfold host_socket_ok. apply existsb_exists. exists s. split; [exact Hin|].
      rewrite Hbase in Hba. unfold match_base in Hba. destruct (o_base o) as [[? ?]|] eqn:Eb; [discriminate|].
      unfold sock_port in Hsp. rewrite Eb in Hsp. rewrite Hsp, Hsa, Hacc, Hn, H6. rewrite eqb_reflx. simpl.
      destruct (o_disp o) as [a'|] eqn:Eo; [|reflexivity]. apply addr_eqb_eq. apply Hd'. congruence.
    + destruct (o_type o =? 2) eqn:E2; [|reflexivity]. apply Z.eqb_eq in E2. rewrite Hty in E2.
      destruct (model_srflx_base repaired c ifs e d Hd E2) as [b [ps [Hbase [_ [Hacc _]]]]].
      unfold base_ok. rewrite Hbase in Hba. unfold match_base in Hba.
      destruct (o_base o) as [[b' p]|]; [|discriminate]. apply andb_true_iff in Hba. destruct Hba as [Hbb _].
      apply addr_eqb_eq in Hbb. subst b'. destruct Hacc as [Hacc | [Hu Hf]].
      * rewrite Hacc. reflexivity.
      * rewrite Hu, Hf. apply orb_true_r.
  - (* port_in_range *) apply forallb_forall. intros o Ho.
    destruct (Hfwd o Ho) as [d [Hd [_ [Hm _]]]].
    apply match_cand_inv in Hm. destruct Hm as [Hty [Hn [_ [Hpo Hba]]]].
    destruct ((o_type o =? 1) && is_udp_nt (o_nt o)) eqn:E1.
    + apply andb_true_iff in E1. destruct E1 as [E1 Eu]. apply Z.eqb_eq in E1.
      rewrite Hty in E1. rewrite Hn in Eu.
      destruct (model_host_socket repaired c ifs e d Hd E1 Eu) as [a [_ [_ [_ [_ [Hr _]]]]]]. apply Hr. exact Hpo.
    + destruct (o_type o =? 2) eqn:E2; [|reflexivity]. apply Z.eqb_eq in E2. rewrite Hty in E2.
      destruct (model_srflx_base repaired c ifs e d Hd E2) as [b [ps [Hbase [_ [_ Hr]]]]].
      rewrite Hbase in Hba. unfold match_base in Hba.
      destruct (o_base o) as [[b' p]|]; [|discriminate]. apply andb_true_iff in Hba. destruct Hba as [_ Hpp].
      apply Hr. exact Hpp.
  - (* complete *) unfold complete_for. destruct (mem 1 (c_ctypes c)) eqn:E1; [|reflexivity]. cbn [negb orb].
    apply mem_In in E1. apply forallb_forall. intros a Ha.
    destruct (eligible c ifs a) eqn:Ee; [|reflexivity]. cbn [negb orb].
    apply forallb_forall. intros t _.
    destruct (mem (nt_of t (a6 a)) (eff_nts (c_ntypes c))) eqn:Em; [|reflexivity].
    destruct (has_listener c e a t) eqn:El; [|reflexivity]. cbn [negb orb].
    apply mem_In in Em.
    destruct (model_complete repaired c ifs e a t Hb (or_introl eq_refl) E1 Ha Ee Em El)
      as [d [Hd [Hty [Hn [Hdi Hp]]]]].
    destruct (Hbwd d Hd Hp) as [o [Ho Hm]]. apply match_cand_inv in Hm.
    destruct Hm as [Hty' [Hn' [Hdi' _]]].
    apply existsb_exists. exists o. split; [exact Ho|].
    rewrite Hty', Hty, Hn', Hn, Hdi', Hdi. rewrite !Z.eqb_refl. simpl. apply disp_eqb_eq. reflexivity.
Qed.

(* hypotheses are satisfiable and the checks are not vacuous: a concrete configuration *)
Definition ex_ifs : list iface :=
  [mkIface "lo" true true [[127;0;0;1]; v6_loopback];
   mkIface "eth0" true false [[10;0;0;5]; [32;1;13;184;0;0;0;0;0;0;0;0;0;0;0;5];
                              [254;128;0;0;0;0;0;0;0;0;0;0;0;0;0;5]; [254;192;0;0;0;0;0;0;0;0;0;0;0;0;0;9]];
   mkIface "tun0" false false [[10;8;0;1]]].
Definition ex_cfg : cfg := mkCfg [1] [] 5000 5003 false false "x.local" None None false [].
Definition ex_env : env := mkEnv (fun _ => false) (fun _ p => p =? 5000) (fun _ => None) (fun _ => None) None 0.
Lemma example_repaired :
  map (fun d => (d_nt d, d_pub d)) (gather_model repaired ex_cfg ex_ifs ex_env) = [(1, true); (2, true); (2, false)]
  /\ gather_model pinned ex_cfg ex_ifs ex_env = [].
Proof. split; vm_compute; reflexivity. Qed.
