(* C08: the places where the close protocol DOES block forever, exhibited in the model.
   (1) a Close issued from inside a task body (application code running on the loop goroutine:
       BindingRequestHandler) never returns and no closer ever returns after it;
   (2) a GracefulClose issued synchronously from inside a notifier callback never returns;
   (3) (as a computed example only, at the end) for the code as it is and under the Go
       specification's select semantics: a candidate registered after the closer's snapshot whose
       socket blocks writes wedges the loop (not reachable with the gc runtime, see checks/C08.json).
   (1) and (2) are reproduced on the real agent by suite "close" (known findings). *)
From Coq Require Import Arith Bool List Lia.
Import ListNotations.
From Ice Require Import Model.PrioSpec Model.CloseProto Proofs.CloseProtoMeasure Proofs.CloseProtoMeasure2
     Proofs.CloseProtoFrames Proofs.CloseProtoInv Proofs.CloseProtoInvStep.

Section D.
Variable NC : nat.
Variable wfree : nat -> bool.
Variable fix_reg : bool.
Notation lstep := (lstep NC wfree fix_reg).
Notation step := (step NC wfree fix_reg).
Notation steps := (steps NC wfree fix_reg).
Notation Inv := (Inv NC fix_reg).

(* ---- (1) Close inside a task body ------------------------------------------------------------ *)
Definition in_task (k i : nat) (s : state) : Prop :=
  cactive (cp s k) = true /\ chost s k = HTask i /\ past_tld (cp s k) = false.

Lemma in_task_step k i s s' : Inv s -> step s s' -> in_task k i s -> in_task k i s'.
Proof.
  intros I H [Hc [Hh Hp]].
  destruct (e_lhost _ _ _ I k i Hc Hh) as [Hl _].
  assert (Ht : tld s = false).
  { destruct (tld s) eqn:E; [|reflexivity]. pose proof (b_tld1 _ _ _ I E). congruence. }
  step_cases H; unfold in_task; simp_goal; open_hosts; unfold upd;
    repeat match goal with |- context [Nat.eqb ?a ?b] => destruct (Nat.eqb_spec a b); subst end;
    try (split; [assumption|split; assumption]);
    try congruence;
    repeat match goal with
    | E : cp _ _ = _ |- _ => rewrite E in *
    end; cbn [cactive past_tld] in *; try discriminate; try congruence;
    try (split; [reflexivity|split; [assumption|reflexivity]]).
Qed.

Theorem close_in_task_never_returns k i s s' :
  Inv s -> in_task k i s -> steps s s' ->
  cp s' k <> CRet /\ tld s' = false /\ (forall k', cp s' k' <> CRet).
Proof.
  intros I HT H.
  assert (G : Inv s' /\ in_task k i s').
  { induction H; [split; assumption|]. destruct IHsteps as [I' T']; [assumption|assumption|].
    split; [eapply inv_step; eassumption|eapply in_task_step; eassumption]. }
  destruct G as [I' [Hc [Hh Hp]]].
  destruct (e_lhost _ _ _ I' k i Hc Hh) as [Hl _].
  assert (Ht : tld s' = false).
  { destruct (tld s') eqn:E; [|reflexivity]. pose proof (b_tld1 _ _ _ I' E). congruence. }
  split; [|split].
  - intros E. rewrite E in Hc. discriminate Hc.
  - exact Ht.
  - intros k' E. assert (X : tld s' = true) by (apply (c_ptld _ _ _ I' k'); rewrite E; reflexivity). congruence.
Qed.

Theorem reach_close_in_task_never_returns g0 k i s s' :
  reach NC wfree fix_reg g0 s -> in_task k i s -> steps s s' ->
  cp s' k <> CRet /\ tld s' = false /\ (forall k', cp s' k' <> CRet).
Proof. intros H. apply close_in_task_never_returns. apply (inv_reach _ _ _ _ _ H). Qed.

(* ---- (2) GracefulClose inside a notifier callback ---------------------------------------------- *)
Definition in_callback (k : nat) (s : state) : Prop :=
  cactive (cp s k) = true /\ chost s k = HHandler /\ cgr s k = true /\ cp s k <> CDone.

Lemma in_callback_step k s s' : Inv s -> step s s' -> in_callback k s -> in_callback k s'.
Proof.
  intros I H [Hc [Hh [Hg Hd]]].
  destruct (e_dhost_c _ _ _ I k Hc Hh) as [Hn _].
  step_cases H; unfold in_callback; simp_goal; open_hosts; unfold upd;
    repeat match goal with |- context [Nat.eqb ?a ?b] => destruct (Nat.eqb_spec a b); subst end;
    try (split; [assumption|split; [assumption|split; assumption]]);
    try congruence;
    repeat match goal with
    | E : cp _ _ = _ |- _ => rewrite E in *
    | E : cgr _ _ = _ |- _ => rewrite E in *
    end; cbn [cactive] in *; try discriminate; try congruence;
    try (split; [reflexivity|split; [assumption|split; [assumption|discriminate]]]).
Qed.

Theorem graceful_in_callback_never_returns k s s' :
  Inv s -> in_callback k s -> steps s s' -> cp s' k <> CRet /\ ndr s' = DBusy.
Proof.
  intros I HT H.
  assert (G : Inv s' /\ in_callback k s').
  { induction H; [split; assumption|]. destruct IHsteps as [I' T']; [assumption|assumption|].
    split; [eapply inv_step; eassumption|eapply in_callback_step; eassumption]. }
  destruct G as [I' [Hc [Hh [Hg Hd]]]].
  split.
  - intros E. rewrite E in Hc. discriminate Hc.
  - apply (e_dhost_c _ _ _ I' k Hc Hh).
Qed.

Theorem reach_graceful_in_callback_never_returns g0 k s s' :
  reach NC wfree fix_reg g0 s -> in_callback k s -> steps s s' -> cp s' k <> CRet /\ ndr s' = DBusy.
Proof. intros H. apply graceful_in_callback_never_returns. apply (inv_reach _ _ _ _ _ H). Qed.

End D.

(* ---- (3) a late-registered candidate with a blocking socket: a computed run ------------------- *)
Definition late_run : list label :=
 [ECall 0 (KRun HApi (BStart 0)); TErrOk 0;
  ECall 1 (KRun HApi (BWrite 0)); TErrOk 1;
  ECall 9 (KRun HApi BPlain); TErrOk 9; TSend 9;
  ECloseCall 0 false HApi; TOnceEnter 0; TCloseDone 0; TSnapshot 0; TAbortSkip 0; TAbortEnd 0; TOnceLeave 0;
  TBody 9; TTaskDone; ERet 9 ROk; TSend 0; TBody 0; TTaskDone; ERet 0 ROk].

(* With the code as it is ([fix_reg] = false) the run below ends with the loop inside a socket write
   that nobody will abort (the closer is past its snapshot, onClose has not started); with the
   repair the same run leaves the write enabled.  The hand-overs TSend 0 and TSend 1 after
   l.done was closed are possible only under the specification's select semantics. *)
Definition wf_block (c : nat) : bool := false.

Lemma late_run_wedges :
  match run 1 wf_block false (late_run ++ [TSend 1; EWriteStart 1]) (init 0) with
  | Some s => cp s 0 = CWaitTLD /\ lp s = LWrite 1 /\ late s 0 = true /\ ioab s 0 = false /\
              lstep 1 wf_block false (EWriteEnd 1) s = None
  | None => False
  end.
Proof. vm_compute. repeat split. Qed.

Lemma late_run_repaired :
  match run 1 wf_block true (late_run ++ [TSend 1; EWriteStart 1]) (init 0) with
  | Some s => ioab s 0 = true /\ lstep 1 wf_block true (EWriteEnd 1) s <> None
  | None => False
  end.
Proof. vm_compute. split; [reflexivity|discriminate]. Qed.
