(* C08: frame lemmas of the close-protocol model: which fields the helper functions
   host_take / host_release / enqueue leave alone.  Generated (mechanical). *)
From Coq Require Import Arith Bool List.
From Ice Require Import Model.PrioSpec Model.CloseProto.

Lemma fr_done_release s h : done (host_release s h) = done s.
Proof. destruct h; reflexivity. Qed.
Lemma fr_done_take s h o b : done (host_take s h o b) = done s.
Proof. destruct h; reflexivity. Qed.
Lemma fr_done_enqueue s : done (enqueue s) = done s.
Proof. unfold enqueue. destruct (hdone s) eqn:E; cbn; first [reflexivity | exact E]. Qed.
Lemma fr_tld_release s h : tld (host_release s h) = tld s.
Proof. destruct h; reflexivity. Qed.
Lemma fr_tld_take s h o b : tld (host_take s h o b) = tld s.
Proof. destruct h; reflexivity. Qed.
Lemma fr_tld_enqueue s : tld (enqueue s) = tld s.
Proof. unfold enqueue. destruct (hdone s) eqn:E; cbn; first [reflexivity | exact E]. Qed.
Lemma fr_once_release s h : once (host_release s h) = once s.
Proof. destruct h; reflexivity. Qed.
Lemma fr_once_take s h o b : once (host_take s h o b) = once s.
Proof. destruct h; reflexivity. Qed.
Lemma fr_once_enqueue s : once (enqueue s) = once s.
Proof. unfold enqueue. destruct (hdone s) eqn:E; cbn; first [reflexivity | exact E]. Qed.
Lemma fr_oowner_release s h : oowner (host_release s h) = oowner s.
Proof. destruct h; reflexivity. Qed.
Lemma fr_oowner_take s h o b : oowner (host_take s h o b) = oowner s.
Proof. destruct h; reflexivity. Qed.
Lemma fr_oowner_enqueue s : oowner (enqueue s) = oowner s.
Proof. unfold enqueue. destruct (hdone s) eqn:E; cbn; first [reflexivity | exact E]. Qed.
Lemma fr_lp_enqueue s : lp (enqueue s) = lp s.
Proof. unfold enqueue. destruct (hdone s) eqn:E; cbn; first [reflexivity | exact E]. Qed.
Lemma fr_lown_release s h : lown (host_release s h) = lown s.
Proof. destruct h; reflexivity. Qed.
Lemma fr_lown_enqueue s : lown (enqueue s) = lown s.
Proof. unfold enqueue. destruct (hdone s) eqn:E; cbn; first [reflexivity | exact E]. Qed.
Lemma fr_ap_release s h : ap (host_release s h) = ap s.
Proof. destruct h; reflexivity. Qed.
Lemma fr_ap_take s h o b : ap (host_take s h o b) = ap s.
Proof. destruct h; reflexivity. Qed.
Lemma fr_ap_enqueue s : ap (enqueue s) = ap s.
Proof. unfold enqueue. destruct (hdone s) eqn:E; cbn; first [reflexivity | exact E]. Qed.
Lemma fr_akind_release s h : akind (host_release s h) = akind s.
Proof. destruct h; reflexivity. Qed.
Lemma fr_akind_take s h o b : akind (host_take s h o b) = akind s.
Proof. destruct h; reflexivity. Qed.
Lemma fr_akind_enqueue s : akind (enqueue s) = akind s.
Proof. unfold enqueue. destruct (hdone s) eqn:E; cbn; first [reflexivity | exact E]. Qed.
Lemma fr_tdone_release s h : tdone (host_release s h) = tdone s.
Proof. destruct h; reflexivity. Qed.
Lemma fr_tdone_take s h o b : tdone (host_take s h o b) = tdone s.
Proof. destruct h; reflexivity. Qed.
Lemma fr_tdone_enqueue s : tdone (enqueue s) = tdone s.
Proof. unfold enqueue. destruct (hdone s) eqn:E; cbn; first [reflexivity | exact E]. Qed.
Lemma fr_cp_release s h : cp (host_release s h) = cp s.
Proof. destruct h; reflexivity. Qed.
Lemma fr_cp_take s h o b : cp (host_take s h o b) = cp s.
Proof. destruct h; reflexivity. Qed.
Lemma fr_cp_enqueue s : cp (enqueue s) = cp s.
Proof. unfold enqueue. destruct (hdone s) eqn:E; cbn; first [reflexivity | exact E]. Qed.
Lemma fr_cgr_release s h : cgr (host_release s h) = cgr s.
Proof. destruct h; reflexivity. Qed.
Lemma fr_cgr_take s h o b : cgr (host_take s h o b) = cgr s.
Proof. destruct h; reflexivity. Qed.
Lemma fr_cgr_enqueue s : cgr (enqueue s) = cgr s.
Proof. unfold enqueue. destruct (hdone s) eqn:E; cbn; first [reflexivity | exact E]. Qed.
Lemma fr_chost_release s h : chost (host_release s h) = chost s.
Proof. destruct h; reflexivity. Qed.
Lemma fr_chost_take s h o b : chost (host_take s h o b) = chost s.
Proof. destruct h; reflexivity. Qed.
Lemma fr_chost_enqueue s : chost (enqueue s) = chost s.
Proof. unfold enqueue. destruct (hdone s) eqn:E; cbn; first [reflexivity | exact E]. Qed.
Lemma fr_snap_release s h : snap (host_release s h) = snap s.
Proof. destruct h; reflexivity. Qed.
Lemma fr_snap_take s h o b : snap (host_take s h o b) = snap s.
Proof. destruct h; reflexivity. Qed.
Lemma fr_snap_enqueue s : snap (enqueue s) = snap s.
Proof. unfold enqueue. destruct (hdone s) eqn:E; cbn; first [reflexivity | exact E]. Qed.
Lemma fr_rp_enqueue s : rp (enqueue s) = rp s.
Proof. unfold enqueue. destruct (hdone s) eqn:E; cbn; first [reflexivity | exact E]. Qed.
Lemma fr_rown_release s h : rown (host_release s h) = rown s.
Proof. destruct h; reflexivity. Qed.
Lemma fr_rown_enqueue s : rown (enqueue s) = rown s.
Proof. unfold enqueue. destruct (hdone s) eqn:E; cbn; first [reflexivity | exact E]. Qed.
Lemma fr_ioab_release s h : ioab (host_release s h) = ioab s.
Proof. destruct h; reflexivity. Qed.
Lemma fr_ioab_take s h o b : ioab (host_take s h o b) = ioab s.
Proof. destruct h; reflexivity. Qed.
Lemma fr_ioab_enqueue s : ioab (enqueue s) = ioab s.
Proof. unfold enqueue. destruct (hdone s) eqn:E; cbn; first [reflexivity | exact E]. Qed.
Lemma fr_reg_release s h : reg (host_release s h) = reg s.
Proof. destruct h; reflexivity. Qed.
Lemma fr_reg_take s h o b : reg (host_take s h o b) = reg s.
Proof. destruct h; reflexivity. Qed.
Lemma fr_reg_enqueue s : reg (enqueue s) = reg s.
Proof. unfold enqueue. destruct (hdone s) eqn:E; cbn; first [reflexivity | exact E]. Qed.
Lemma fr_late_release s h : late (host_release s h) = late s.
Proof. destruct h; reflexivity. Qed.
Lemma fr_late_take s h o b : late (host_take s h o b) = late s.
Proof. destruct h; reflexivity. Qed.
Lemma fr_late_enqueue s : late (enqueue s) = late s.
Proof. unfold enqueue. destruct (hdone s) eqn:E; cbn; first [reflexivity | exact E]. Qed.
Lemma fr_bufclosed_release s h : bufclosed (host_release s h) = bufclosed s.
Proof. destruct h; reflexivity. Qed.
Lemma fr_bufclosed_take s h o b : bufclosed (host_take s h o b) = bufclosed s.
Proof. destruct h; reflexivity. Qed.
Lemma fr_bufclosed_enqueue s : bufclosed (enqueue s) = bufclosed s.
Proof. unfold enqueue. destruct (hdone s) eqn:E; cbn; first [reflexivity | exact E]. Qed.
Lemma fr_hdone_release s h : hdone (host_release s h) = hdone s.
Proof. destruct h; reflexivity. Qed.
Lemma fr_hdone_take s h o b : hdone (host_take s h o b) = hdone s.
Proof. destruct h; reflexivity. Qed.
Lemma fr_hdone_enqueue s : hdone (enqueue s) = hdone s.
Proof. unfold enqueue. destruct (hdone s) eqn:E; cbn; first [reflexivity | exact E]. Qed.
Lemma fr_nq_release s h : nq (host_release s h) = nq s.
Proof. destruct h; reflexivity. Qed.
Lemma fr_nq_take s h o b : nq (host_take s h o b) = nq s.
Proof. destruct h; reflexivity. Qed.
Lemma fr_down_release s h : down (host_release s h) = down s.
Proof. destruct h; reflexivity. Qed.
Lemma fr_down_enqueue s : down (enqueue s) = down s.
Proof. unfold enqueue. destruct (hdone s) eqn:E; cbn; first [reflexivity | exact E]. Qed.
Lemma fr_dclo_release s h : dclo (host_release s h) = dclo s.
Proof. destruct h; reflexivity. Qed.
Lemma fr_dclo_enqueue s : dclo (enqueue s) = dclo s.
Proof. unfold enqueue. destruct (hdone s) eqn:E; cbn; first [reflexivity | exact E]. Qed.
Lemma fr_closedq_release s h : closedq (host_release s h) = closedq s.
Proof. destruct h; reflexivity. Qed.
Lemma fr_closedq_take s h o b : closedq (host_take s h o b) = closedq s.
Proof. destruct h; reflexivity. Qed.
Lemma fr_closedq_enqueue s : closedq (enqueue s) = closedq s.
Proof. unfold enqueue. destruct (hdone s) eqn:E; cbn; first [reflexivity | exact E]. Qed.
Lemma fr_gp_enqueue s : gp (enqueue s) = gp s.
Proof. unfold enqueue. destruct (hdone s) eqn:E; cbn; first [reflexivity | exact E]. Qed.
Lemma fr_gown_release s h : gown (host_release s h) = gown s.
Proof. destruct h; reflexivity. Qed.
Lemma fr_gown_enqueue s : gown (enqueue s) = gown s.
Proof. unfold enqueue. destruct (hdone s) eqn:E; cbn; first [reflexivity | exact E]. Qed.
Lemma fr_gcancel_release s h : gcancel (host_release s h) = gcancel s.
Proof. destruct h; reflexivity. Qed.
Lemma fr_gcancel_take s h o b : gcancel (host_take s h o b) = gcancel s.
Proof. destruct h; reflexivity. Qed.
Lemma fr_gcancel_enqueue s : gcancel (enqueue s) = gcancel s.
Proof. unfold enqueue. destruct (hdone s) eqn:E; cbn; first [reflexivity | exact E]. Qed.
Lemma fr_gfuel_release s h : gfuel (host_release s h) = gfuel s.
Proof. destruct h; reflexivity. Qed.
Lemma fr_gfuel_take s h o b : gfuel (host_take s h o b) = gfuel s.
Proof. destruct h; reflexivity. Qed.
Lemma fr_gfuel_enqueue s : gfuel (enqueue s) = gfuel s.
Proof. unfold enqueue. destruct (hdone s) eqn:E; cbn; first [reflexivity | exact E]. Qed.
Lemma fr_oncloses_release s h : oncloses (host_release s h) = oncloses s.
Proof. destruct h; reflexivity. Qed.
Lemma fr_oncloses_take s h o b : oncloses (host_take s h o b) = oncloses s.
Proof. destruct h; reflexivity. Qed.
Lemma fr_oncloses_enqueue s : oncloses (enqueue s) = oncloses s.
Proof. unfold enqueue. destruct (hdone s) eqn:E; cbn; first [reflexivity | exact E]. Qed.
Lemma fr_ntasks_release s h : ntasks (host_release s h) = ntasks s.
Proof. destruct h; reflexivity. Qed.
Lemma fr_ntasks_take s h o b : ntasks (host_take s h o b) = ntasks s.
Proof. destruct h; reflexivity. Qed.
Lemma fr_ntasks_enqueue s : ntasks (enqueue s) = ntasks s.
Proof. unfold enqueue. destruct (hdone s) eqn:E; cbn; first [reflexivity | exact E]. Qed.
#[export] Hint Rewrite fr_done_release fr_done_take fr_done_enqueue fr_tld_release fr_tld_take fr_tld_enqueue fr_once_release fr_once_take fr_once_enqueue fr_oowner_release fr_oowner_take fr_oowner_enqueue fr_lp_enqueue fr_lown_release fr_lown_enqueue fr_ap_release fr_ap_take fr_ap_enqueue fr_akind_release fr_akind_take fr_akind_enqueue fr_tdone_release fr_tdone_take fr_tdone_enqueue fr_cp_release fr_cp_take fr_cp_enqueue fr_cgr_release fr_cgr_take fr_cgr_enqueue fr_chost_release fr_chost_take fr_chost_enqueue fr_snap_release fr_snap_take fr_snap_enqueue fr_rp_enqueue fr_rown_release fr_rown_enqueue fr_ioab_release fr_ioab_take fr_ioab_enqueue fr_reg_release fr_reg_take fr_reg_enqueue fr_late_release fr_late_take fr_late_enqueue fr_bufclosed_release fr_bufclosed_take fr_bufclosed_enqueue fr_hdone_release fr_hdone_take fr_hdone_enqueue fr_nq_release fr_nq_take fr_down_release fr_down_enqueue fr_dclo_release fr_dclo_enqueue fr_closedq_release fr_closedq_take fr_closedq_enqueue fr_gp_enqueue fr_gown_release fr_gown_enqueue fr_gcancel_release fr_gcancel_take fr_gcancel_enqueue fr_gfuel_release fr_gfuel_take fr_gfuel_enqueue fr_oncloses_release fr_oncloses_take fr_oncloses_enqueue fr_ntasks_release fr_ntasks_take fr_ntasks_enqueue : frames.
