(* C08: preservation of group D of the invariant of the close-protocol model.
   Lemma statements generated from the record Inv (tools: mechanical). *)
From Coq Require Import Arith Bool List Lia.
Import ListNotations.
From Ice Require Import Model.PrioSpec Model.CloseProto Proofs.CloseProtoMeasure Proofs.CloseProtoMeasure2
     Proofs.CloseProtoFrames Proofs.CloseProtoInv.

Section G.
Variable NC : nat.
Variable wfree : nat -> bool.
Variable fix_reg : bool.
Notation step := (step NC wfree fix_reg).
Notation Inv := (Inv NC fix_reg).

Ltac depsD I := pose proof (d_reg _ _ _ I); pose proof (d_bound _ _ _ I); pose proof (d_exit _ _ _ I); pose proof (d_unreg _ _ _ I); pose proof (d_ioab _ _ _ I); pose proof (d_wait _ _ _ I); pose proof (d_del _ _ _ I); pose proof (d_delb _ _ _ I); pose proof (d_alldel _ _ _ I); pose proof (d_cover _ _ _ I); pose proof (d_abort _ _ _ I); pose proof (d_snap _ _ _ I); pose proof (d_late _ _ _ I); pose proof (d_fix _ _ _ I); pose proof (c_doneby _ _ _ I); pose proof (c_odone _ _ _ I); pose proof (c_once_in _ _ _ I); pose proof (c_past _ _ _ I); pose proof (a_task _ _ _ I); pose proof (a_hostok _ _ _ I); pose proof (c_hostok _ _ _ I); pose proof (e_lhost _ _ _ I); pose proof (e_lbusy _ _ _ I); pose proof (e_rhost _ _ _ I); idtac.

Lemma p_d_reg s s' (I : Inv s) (H : step s s') :
  forall c, reg s' c = true -> rp s' c <> RNone.
Proof. pres H ltac:(exact (d_reg _ _ _ I)) ltac:(depsD I). Qed.

Lemma p_d_bound s s' (I : Inv s) (H : step s s') :
  forall c, rp s' c <> RNone -> c < NC.
Proof. pres H ltac:(exact (d_bound _ _ _ I)) ltac:(depsD I). Qed.

Lemma p_d_exit s s' (I : Inv s) (H : step s s') :
  forall c, rp s' c = RExited -> ioab s' c = true.
Proof. pres H ltac:(exact (d_exit _ _ _ I)) ltac:(depsD I). Qed.

Lemma p_d_unreg s s' (I : Inv s) (H : step s s') :
  forall c, rp s' c <> RNone -> reg s' c = false -> rp s' c = RExited.
Proof. pres H ltac:(exact (d_unreg _ _ _ I)) ltac:(depsD I). Qed.

Lemma p_d_ioab s s' (I : Inv s) (H : step s s') :
  forall c, ioab s' c = true -> rp s' c <> RNone.
Proof. pres H ltac:(exact (d_ioab _ _ _ I)) ltac:(depsD I). Qed.

Lemma p_d_wait s s' (I : Inv s) (H : step s s') :
  match lp s' with LDelWait _ j => ioab s' j = true /\ reg s' j = true | _ => True end.
Proof. pres H ltac:(exact (d_wait _ _ _ I)) ltac:(depsD I). Qed.


End G.
