(* C02 over histories: datagrams that fail authentication (or are of a class / method the agent does not handle) can
   be erased from ANY history, wherever they occur, without changing the final state or anything the agent emitted. *)
From Coq Require Import ZArith Bool List.
From Ice Require Import Model.AgentTypes Model.AgentCore Gen.Consts Proofs.AgentC02.
Import ListNotations.
Local Open Scope Z_scope.

(* the datagram is rejected in state s: a request whose USERNAME / MESSAGE-INTEGRITY do not verify, a success
   response whose MESSAGE-INTEGRITY does not verify under the remote password, an error response, a non-Binding method *)
Definition rejected_in (s : state) (o : op) : bool :=
  match o with
  | InStun _ _ m =>
    ((m_class m =? 0) && negb (request_authentic s m)) || ((m_class m =? 2) && negb (response_authentic s m))
    || (m_class m =? 3) || negb (m_method m =? 1)
  | _ => false
  end.

Lemma rejected_step cfg s o : rejected_in s o = true -> step cfg s o = (s, []).
Proof.
  destruct o; cbn [rejected_in]; try discriminate. intros H. apply step_instun_inert. intros l.
  apply orb_prop in H. destruct H as [H|H]; [apply orb_prop in H; destruct H as [H|H]; [apply orb_prop in H; destruct H as [H|H]|]|].
  - apply andb_prop in H. destruct H as [H1 H2]. apply Z.eqb_eq in H1. apply negb_true_iff in H2. apply handle_inbound_bad_request; assumption.
  - apply andb_prop in H. destruct H as [H1 H2]. apply Z.eqb_eq in H1. apply negb_true_iff in H2. apply handle_inbound_bad_response; [assumption|left; assumption].
  - apply Z.eqb_eq in H. apply handle_inbound_unhandled. left. exact H.
  - apply negb_true_iff in H. apply Z.eqb_neq in H. apply handle_inbound_unhandled. right. exact H.
Qed.

(* the history with the datagrams rejected at their point of arrival removed *)
Fixpoint erase (cfg : config) (s : state) (ops : list op) : list op :=
  match ops with
  | [] => []
  | o :: t => if rejected_in s o then erase cfg s t else o :: erase cfg (fst (step cfg s o)) t
  end.

(* final state and everything emitted, in order *)
Fixpoint exec (cfg : config) (s : state) (ops : list op) : state * list out :=
  match ops with
  | [] => (s, [])
  | o :: t => let '(s1, o1) := step cfg s o in let '(s2, o2) := exec cfg s1 t in (s2, o1 ++ o2)
  end.

Theorem rejected_datagrams_can_be_erased cfg ops : forall s, exec cfg s (erase cfg s ops) = exec cfg s ops.
Proof.
  induction ops as [|o t IH]; intros s; cbn [erase exec]; [reflexivity|].
  destruct (rejected_in s o) eqn:E.
  - rewrite (rejected_step cfg s o E). rewrite IH. destruct (exec cfg s t). reflexivity.
  - cbn [exec]. destruct (step cfg s o) as [s1 o1]. cbn [fst]. rewrite IH. reflexivity.
Qed.
