(* C04 (part 1): the states delivered to the connection-state callback are exactly the agent's
   transitions, in order, without consecutive repeats -- for every operation from every state. *)
From Coq Require Import ZArith Bool List Lia.
From Ice Require Import Model.AgentTypes Model.AgentCore Model.AgentObs Model.AgentMonitors Gen.Consts Proofs.AgentFrame.
Import ListNotations.
Local Open Scope Z_scope.

(* [walk a l b]: starting in state a, the notifications l are successive changes ending in b *)
Fixpoint walk (a : Z) (l : list Z) (b : Z) : Prop :=
  match l with
  | [] => a = b
  | x :: t => a <> x /\ walk x t b
  end.

Lemma walk_app a l1 m l2 b : walk a l1 m -> walk m l2 b -> walk a (l1 ++ l2) b.
Proof.
  revert a. induction l1 as [|x t IH]; cbn; intros a H1 H2.
  - subst. exact H2.
  - destruct H1 as [Hne H1]. split; [exact Hne|]. apply IH; assumption.
Qed.

Lemma outs_states_app o1 o2 : outs_states (o1 ++ o2) = outs_states o1 ++ outs_states o2.
Proof. unfold outs_states. apply flat_map_app. Qed.

Definition tracks : mprop.
Proof.
  refine (MProp (fun s o s' => walk (s_conn s) (outs_states o) (s_conn s')) _ _).
  - intros s. reflexivity.
  - intros s o1 s1 o2 s2 H1 H2. rewrite outs_states_app. eapply walk_app; eassumption.
Defined.

Lemma tracks_update_conn st : sat tracks (update_conn st).
Proof.
  intros s. unfold update_conn. cbn.
  destruct (Z.eqb_spec (s_conn s) st) as [E|NE]; cbn; [reflexivity|].
  split; [exact NE|]. destruct (st =? ConnectionStateFailed); reflexivity.
Qed.

Ltac tracks_tac := cbn; destruct_matches; reflexivity.

Lemma tracks_step cfg o : sat tracks (step_m cfg o).
Proof.
  destruct o; sat_decompose;
    try (sat_base tracks_tac); try apply tracks_update_conn.
Qed.

Lemma last_cons {A} (x : A) t a : last (x :: t) a = last t x.
Proof.
  revert x a. induction t as [|y t IH]; intros x a; [reflexivity|].
  change (last (x :: y :: t) a) with (last (y :: t) a). rewrite (IH y a), (IH y x). reflexivity.
Qed.

(* walk and the monitor's boolean formulation agree *)
Lemma walk_chain a l b :
  walk a l b <-> (chain_ok (fun x y => negb (x =? y)) a l = true /\ last l a = b).
Proof.
  revert a. induction l as [|x t IH]; intros a; cbn [walk chain_ok].
  - cbn. split; [intros H; split; [reflexivity|exact H]|intros [_ H]; exact H].
  - rewrite IH. split.
    + intros [Hne [H1 H2]]. split.
      * apply andb_true_intro. split; [apply negb_true_iff, Z.eqb_neq; exact Hne|exact H1].
      * rewrite last_cons. exact H2.
    + intros [H1 H2]. apply andb_prop in H1. destruct H1 as [H1 H3].
      apply negb_true_iff, Z.eqb_neq in H1. split; [exact H1|]. split; [exact H3|].
      rewrite last_cons in H2. exact H2.
Qed.

Theorem notifications_are_transitions cfg s o :
  let '(s', outs) := step cfg s o in
  chain_ok (fun x y => negb (x =? y)) (s_conn s) (outs_states outs) = true
  /\ last (outs_states outs) (s_conn s) = s_conn s'.
Proof.
  pose proof (tracks_step cfg o s) as H. unfold step.
  destruct (step_m cfg o s) as [s' outs]. cbn [fst snd] in H. apply walk_chain. exact H.
Qed.

(* ---- timing ------------------------------------------------------------------------------- *)

(* the generated silence->state function is the documented rule *)
Lemma silence_state_spec td tf cur d :
  0 <= td -> 0 <= tf ->
  Gen.Lifecycle.connectionStateForDisconnection td cur d (if tf =? 0 then 0 else tf + td)
  = spec_silence_state td tf cur d.
Proof.
  intros Htd Htf. unfold Gen.Lifecycle.connectionStateForDisconnection, spec_silence_state.
  unfold ConnectionStateDisconnected, ConnectionStateFailed, ConnectionStateConnected. cbv zeta.
  (* independent of the shape of the translated expression: decide every comparison, then compute *)
  destruct (Z.eqb_spec tf 0) as [E|NE]; [subst tf|].
  all: repeat match goal with
  | |- context [Z.eqb ?a ?b] => lazymatch a with 0 => fail | _ => destruct (Z.eqb_spec a b) end
  | |- context [Z.ltb ?a ?b] => destruct (Z.ltb_spec a b)
  end.
  all: cbn [negb andb orb Z.eqb]; first [reflexivity | exfalso; lia].
Qed.

Lemma frame_conn_ping cfg l r : sat (frame s_conn) (ping_candidate cfg l r).
Proof. sat_decompose; sat_base frame_tac. Qed.

Lemma frame_conn_keepalive cfg : sat (frame s_conn) (check_keepalive cfg).
Proof. sat_decompose; sat_base frame_tac. Qed.

Definition silence (cfg : config) (s : state) (sp : pair) : Z :=
  match assoc_get (c_h (p_rem sp)) (s_lastrecv s) with
  | Some t => since cfg s t
  | None => max_duration
  end.

Lemma conn_after_update st s : s_conn (fst (update_conn st s)) = st.
Proof.
  unfold update_conn. destruct (Z.eqb_spec (s_conn s) st); cbn; [assumption|].
  destruct (st =? ConnectionStateFailed); reflexivity.
Qed.

Lemma validate_selected_conn cfg k s sp :
  selected_pair s = Some sp -> (forall ok, sat (frame s_conn) (k ok)) ->
  s_conn (fst (validate_selected cfg k s)) =
  Gen.Lifecycle.connectionStateForDisconnection (cf_disc_timeout cfg) (s_conn s) (silence cfg s sp)
    (if cf_failed_timeout cfg =? 0 then 0 else cf_failed_timeout cfg + cf_disc_timeout cfg).
Proof.
  intros Hsel Hk. unfold validate_selected, with_state. rewrite Hsel. unfold seq.
  destruct (update_conn _ s) as [s1 o1] eqn:E.
  pose proof (Hk true s1) as Hf. cbn in Hf.
  destruct (k true s1) as [s2 o2]. cbn [fst snd] in *. rewrite Hf.
  pose proof (conn_after_update
    (Gen.Lifecycle.connectionStateForDisconnection (cf_disc_timeout cfg) (s_conn s) (silence cfg s sp)
       (if cf_failed_timeout cfg =? 0 then 0 else cf_failed_timeout cfg + cf_disc_timeout cfg)) s) as Hu.
  unfold silence in Hu. rewrite E in Hu. exact Hu.
Qed.

Lemma contact_candidates_conn cfg s sp :
  selected_pair s = Some sp ->
  s_conn (fst (contact_candidates cfg s)) =
  Gen.Lifecycle.connectionStateForDisconnection (cf_disc_timeout cfg) (s_conn s) (silence cfg s sp)
    (if cf_failed_timeout cfg =? 0 then 0 else cf_failed_timeout cfg + cf_disc_timeout cfg).
Proof.
  intros Hsel. unfold contact_candidates, with_state.
  destruct (s_ctl s).
  - unfold contact_controlling, with_state. rewrite Hsel.
    apply validate_selected_conn; [exact Hsel|].
    intros []; [apply frame_conn_keepalive|apply sat_nop].
  - destruct (cf_lite cfg).
    + apply validate_selected_conn; [exact Hsel|]. intros ok. apply sat_nop.
    + unfold contact_controlled, with_state. rewrite Hsel.
      apply validate_selected_conn; [exact Hsel|].
      intros []; [apply frame_conn_keepalive|apply sat_nop].
Qed.

(* After each check tick the state is determined by how long the selected remote has been silent. *)
Theorem tick_selected_silence cfg s sp :
  s_started s = true -> s_closed s = false ->
  selected_pair s = Some sp ->
  (s_conn s = ConnectionStateConnected \/ s_conn s = ConnectionStateDisconnected) ->
  0 <= cf_disc_timeout cfg -> 0 <= cf_failed_timeout cfg ->
  s_conn (fst (step cfg s Tick)) =
  spec_silence_state (cf_disc_timeout cfg) (cf_failed_timeout cfg) (s_conn s) (silence cfg s sp).
Proof.
  intros Hst Hcl Hsel Hconn Htd Htf.
  rewrite <- silence_state_spec by assumption.
  unfold step, step_m, tick, with_state. rewrite Hcl, Hst. cbn [negb orb].
  assert (Hnf : (s_conn s =? ConnectionStateFailed) = false) by (destruct Hconn as [-> | ->]; reflexivity).
  assert (Hnc : (s_conn s =? ConnectionStateChecking) = false) by (destruct Hconn as [-> | ->]; reflexivity).
  rewrite Hnf, Hnc. unfold seq.
  pose proof (contact_candidates_conn cfg s sp Hsel) as H.
  destruct (contact_candidates cfg s) as [s1 o1]. cbn [fst snd] in *. exact H.
Qed.

(* An agent that has no selected pair fails at the first tick later than the initial checking deadline
   (measured from the first tick of the checking phase), and stays Checking before that. *)
Lemma frame_conn_ping_all cfg : sat (frame s_conn) (ping_all cfg).
Proof. sat_decompose; sat_base frame_tac. Qed.

Lemma frame_conn_nominate cfg p : sat (frame s_conn) (nominate_pair cfg p).
Proof. sat_decompose; sat_base frame_tac. Qed.

Lemma contact_candidates_no_selection cfg s :
  selected_pair s = None -> s_conn (fst (contact_candidates cfg s)) = s_conn s.
Proof.
  intros Hsel. unfold contact_candidates, with_state.
  destruct (s_ctl s).
  - unfold contact_controlling, with_state. rewrite Hsel.
    destruct (s_nominated s) as [np|].
    + apply (frame_conn_nominate cfg np s).
    + destruct (best_valid s) as [p|]; [|apply (frame_conn_ping_all cfg s)].
      destruct (is_nominatable cfg s (p_loc p) && is_nominatable cfg s (p_rem p)); [|apply (frame_conn_ping_all cfg s)].
      assert (Hs : sat (frame s_conn) (upd_pair (p_id p) (set_p_nominated true) ;;
                      modify (set_s_nominated (Some (set_p_nominated true p))) ;; nominate_pair cfg p)).
      { apply sat_seq; [sat_base frame_tac|]. apply sat_seq; [sat_base frame_tac|apply frame_conn_nominate]. }
      apply (Hs s).
  - destruct (cf_lite cfg).
    + unfold validate_selected, with_state. rewrite Hsel. reflexivity.
    + unfold contact_controlled, with_state. rewrite Hsel. apply (frame_conn_ping_all cfg s).
Qed.

Theorem tick_initial_deadline cfg s :
  s_started s = true -> s_closed s = false ->
  selected_pair s = None -> s_conn s = ConnectionStateChecking ->
  let since_first_tick :=
      since cfg s (if s_tick_last s =? ConnectionStateChecking then s_tick_start s else s_now s) in
  s_conn (fst (step cfg s Tick)) =
  if negb (s_tick_timeout s =? 0) && (s_tick_timeout s <? since_first_tick)
  then ConnectionStateFailed else ConnectionStateChecking.
Proof.
  intros Hst Hcl Hsel Hconn since1.
  unfold step, step_m, tick, with_state. rewrite Hcl, Hst, Hconn. cbn [negb orb].
  change (ConnectionStateChecking =? ConnectionStateFailed) with false.
  change (ConnectionStateChecking =? ConnectionStateChecking) with true. cbv iota.
  set (s1 := if negb (s_tick_last s =? s_conn s) then set_s_tick_start (s_now s) s else s).
  assert (E1 : s_tick_timeout s1 = s_tick_timeout s) by (subst s1; destruct (negb _); reflexivity).
  assert (E2 : since cfg s1 (s_tick_start s1) = since1).
  { subst s1 since1. rewrite Hconn. unfold since. destruct (s_tick_last s =? ConnectionStateChecking); reflexivity. }
  assert (E3 : s_conn s1 = ConnectionStateChecking) by (subst s1; destruct (negb _); assumption).
  assert (E4 : selected_pair s1 = None) by (subst s1; destruct (negb _); assumption).
  unfold seq, modify. fold s1. cbn [fst snd].
  rewrite E1, E2.
  destruct (negb (s_tick_timeout s =? 0) && (s_tick_timeout s <? since1)).
  - pose proof (conn_after_update ConnectionStateFailed s1) as Hu.
    destruct (update_conn ConnectionStateFailed s1) as [s2 o2]. cbn [fst snd] in *. exact Hu.
  - pose proof (contact_candidates_no_selection cfg s1 E4) as Hu.
    destruct (contact_candidates cfg s1) as [s2 o2]. cbn [fst snd] in *.
    change (s_conn (set_s_tick_last (s_conn s2) s2)) with (s_conn s2). rewrite Hu. exact E3.
Qed.

(* the deadline installed at Start is the documented one *)
Lemma checking_deadline_spec cfg :
  initial_checking_timeout cfg = spec_checking_deadline cfg.
Proof.
  unfold initial_checking_timeout, Gen.Lifecycle.initialCheckingTimeout, spec_checking_deadline, defaultDisconnectedTimeout.
  cbv zeta. destruct (Z.eqb_spec (cf_failed_timeout cfg) 0), (cf_lite cfg), (cf_disc_explicit cfg); cbn [andb negb]; first [reflexivity | lia].
Qed.

(* ---- lifecycle graph --------------------------------------------------------------------------- *)

(* which states an operation can notify at all (no invariant needed) *)
Definition notifiable (o : op) (st : Z) : Prop :=
  match o with
  | Tick => st = ConnectionStateConnected \/ st = ConnectionStateDisconnected \/ st = ConnectionStateFailed
  | InStun _ _ _ | AddRemote _ => st = ConnectionStateConnected
  | Start _ _ _ | Restart _ _ => st = ConnectionStateChecking
  | Close => st = ConnectionStateClosed
  | _ => False
  end.

Definition notifies_only (Q : Z -> Prop) : mprop.
Proof.
  refine (MProp (fun _ o _ => Forall Q (outs_states o)) _ _).
  - intros; constructor.
  - intros. rewrite outs_states_app. apply Forall_app; split; assumption.
Defined.

Lemma notifies_update_conn (Q : Z -> Prop) st : Q st -> sat (notifies_only Q) (update_conn st).
Proof.
  intros H s. unfold update_conn. cbn. destruct (s_conn s =? st); cbn; [constructor|].
  constructor; [exact H|constructor].
Qed.

Lemma silence_state_range td cur d tot :
  let r := Gen.Lifecycle.connectionStateForDisconnection td cur d tot in
  r = ConnectionStateConnected \/ r = ConnectionStateDisconnected \/ r = ConnectionStateFailed.
Proof.
  unfold Gen.Lifecycle.connectionStateForDisconnection. cbv zeta.
  repeat match goal with |- context [if ?c then _ else _] => destruct c end; auto.
Qed.

Ltac notif_tac := cbn; destruct_matches; constructor.

Lemma notifies_step cfg o : sat (notifies_only (notifiable o)) (step_m cfg o).
Proof.
  destruct o; sat_decompose; try (sat_base notif_tac);
    try (apply notifies_update_conn; cbn; auto; fail);
    try (apply notifies_update_conn; cbn; apply silence_state_range).
Qed.

(* ---- lifecycle invariant ------------------------------------------------------------------------- *)
Definition InvL (s : state) : Prop :=
  (s_conn s = ConnectionStateFailed -> s_locals s = []) /\
  (s_closed s = false -> s_selected s <> None ->
     s_conn s = ConnectionStateConnected \/ s_conn s = ConnectionStateDisconnected) /\
  (s_conn s = ConnectionStateClosed -> s_closed s = true) /\
  (s_started s = false -> s_selected s = None /\ (s_conn s = ConnectionStateNew \/ s_conn s = ConnectionStateClosed)) /\
  (s_started s = true -> s_conn s <> ConnectionStateNew).

Lemma InvL_init lu lp : InvL (init lu lp).
Proof. unfold InvL, init. cbn. repeat split; intros; try discriminate; auto; try congruence. Qed.

Definition life_view (s : state) := (s_conn s, s_closed s, s_started s, s_selected s, s_locals s).

Lemma InvL_view s s' : life_view s' = life_view s -> InvL s -> InvL s'.
Proof.
  unfold life_view, InvL. intros E. injection E as E1 E2 E3 E4 E5. rewrite E1, E2, E3, E4, E5. auto.
Qed.

(* operations that do not touch the lifecycle at all *)
Lemma frame_life_update_conn_never : forall (P : mprop), True. Proof. auto. Qed.

Ltac life_frame := sat_decompose; try (sat_base frame_tac).

Lemma life_frame_data l src p : sat (frame life_view) (inbound_data l src p).
Proof. life_frame. Qed.
Lemma life_frame_write p : sat (frame life_view) (conn_write p).
Proof. life_frame. Qed.
Lemma life_frame_write_to id p : sat (frame life_view) (conn_write_to_pair id p).
Proof. life_frame. Qed.
Lemma life_frame_read : sat (frame life_view) conn_read.
Proof. life_frame. Qed.
Lemma life_frame_creds ru rp : sat (frame life_view) (do_set_remote_creds ru rp).
Proof. life_frame. Qed.
Lemma life_frame_renominate cfg l r v : sat (frame life_view) (renominate_op cfg l r v).
Proof. life_frame. Qed.

(* AddLocal: only the local list may grow, and never while Failed *)
Lemma add_local_life c s :
  let s' := fst (add_local c s) in
  s_conn s' = s_conn s /\ s_closed s' = s_closed s /\ s_started s' = s_started s /\ s_selected s' = s_selected s /\
  (s_conn s = ConnectionStateFailed -> s_locals s' = s_locals s).
Proof.
  unfold add_local, with_state.
  destruct (s_conn s =? ConnectionStateFailed) eqn:Hf.
  - cbn. repeat split.
  - cbn [orb]. destruct (existsb _ _).
    + cbn. repeat split.
    + assert (Hs : sat (frame (fun s => (s_conn s, s_closed s, s_started s, s_selected s)))
                     (modify (fun s0 => set_s_locals (s_locals s0 ++ [c]) s0) ;;
                      with_state (fun s0 => filter (fun r => c_net r =? c_net c) (s_remotes s0))
                        (fun remotes => for_each remotes (fun r => add_pair c r)) ;;
                      emit (OCand (c_h c)) ;; emit (ORet ROk))) by life_frame.
      specialize (Hs s). cbn in Hs. injection Hs as H1 H2 H3 H4.
      repeat split; try assumption. intros Hc. apply Z.eqb_neq in Hf. contradiction.
Qed.

(* ---- preservation of the lifecycle invariant ------------------------------------------------------ *)
Definition InvS (s : state) : Prop := InvL s /\ s_started s = true.

Lemma InvS_view s s' : life_view s' = life_view s -> InvS s -> InvS s'.
Proof.
  intros E [H1 H2]. split; [eapply InvL_view; eassumption|].
  unfold life_view in E. injection E as _ _ E3 _ _. congruence.
Qed.

Lemma presS_update_conn st :
  (st = ConnectionStateConnected \/ st = ConnectionStateDisconnected \/ st = ConnectionStateFailed) ->
  sat (preserves InvS) (update_conn st).
Proof.
  intros Hst s. cbn. unfold update_conn.
  destruct (Z.eqb_spec (s_conn s) st) as [E|NE]; cbn; [auto|].
  intros [[I1 [I2 [I3 [I4 I5]]]] Hs]. unfold InvS, InvL.
  destruct Hst as [-> | [-> | ->]]; cbn; (split; [|exact Hs]); repeat split; intros; try discriminate; auto; try congruence.
Qed.

Lemma conn_neq_cases s :
  s_conn s <> ConnectionStateConnected -> True.
Proof. auto. Qed.

Lemma presS_set_selected id : sat (preserves InvS) (set_selected id).
Proof.
  intros s. cbn. intros [[I1 [I2 [I3 [I4 I5]]]] Hs].
  unfold set_selected, seq, upd_pair, modify, update_conn, emit. cbn.
  destruct (Z.eqb_spec (s_conn s) ConnectionStateConnected) as [E|NE]; cbn; unfold InvS, InvL; cbn.
  - split; [|exact Hs]. rewrite E. repeat split; intros; auto; try discriminate; try congruence.
  - split; [|exact Hs]. repeat split; intros; auto; try discriminate; try congruence.
Qed.

Lemma presL_reselect pid : sat (preserves InvL) (reselect pid).
Proof.
  intros s. cbn. intros HI. unfold reselect, with_state.
  destruct (s_selected s) as [id|] eqn:Hsel; [|exact HI].
  destruct (id =? pid); [|exact HI].
  destruct HI as [I1 [I2 [I3 [I4 I5]]]].
  assert (Hst : s_started s = true).
  { destruct (s_started s) eqn:E; [reflexivity|]. destruct (I4 eq_refl) as [H _]. congruence. }
  assert (HS : InvS s) by (split; [exact (conj I1 (conj I2 (conj I3 (conj I4 I5))))|exact Hst]).
  exact (proj1 (presS_set_selected id s HS)).
Qed.

Ltac presS_tac := cbn; let H := fresh "HInv" in intros H; eapply InvS_view; [|exact H]; cbn; destruct_matches; reflexivity.
Ltac presL_tac := cbn; let H := fresh "HInv" in intros H; eapply InvL_view; [|exact H]; cbn; destruct_matches; reflexivity.

Lemma presS_handle_inbound cfg l src m : sat (preserves InvS) (handle_inbound cfg l src m).
Proof.
  sat_decompose_sel; try (sat_base presS_tac); try apply presS_set_selected.
  all: try (unfold reselect; sat_split; try apply presS_set_selected; try apply sat_nop).
Qed.

Lemma presL_add_remote cfg c k : (forall ok, sat (preserves InvL) (k ok)) -> sat (preserves InvL) (add_remote cfg c k).
Proof.
  intros Hk. sat_decompose_sel; try (sat_base presL_tac); try apply presL_reselect; try apply Hk.
Qed.

Lemma presS_tick_body cfg : sat (preserves InvS) (contact_candidates cfg).
Proof.
  sat_decompose_sel; try (sat_base presS_tac);
    try (apply presS_update_conn; apply silence_state_range).
Qed.

Definition wf_op (s : state) (o : op) : Prop :=
  match o with
  | InStun _ _ _ | InData _ _ _ => s_started s = true   (* sockets are not read before Start *)
  | _ => True
  end.

Lemma presL_of_frame f s : sat (frame life_view) f -> InvL s -> InvL (fst (f s)).
Proof. intros Hf HI. eapply InvL_view; [apply Hf|exact HI]. Qed.

Lemma presS_tick cfg s : InvS s -> InvS (fst (tick cfg s)).
Proof.
  intros HS. unfold tick. unfold with_state at 1.
  destruct (s_closed s || negb (s_started s)); [exact HS|].
  assert (Hlast : forall f, sat (preserves InvS) f ->
            sat (preserves InvS) (f ;; modify (fun s => set_s_tick_last (s_conn s) s))).
  { intros f Hf. apply sat_seq; [exact Hf|]. sat_base presS_tac. }
  destruct (s_conn s =? ConnectionStateFailed); [apply (Hlast nop (sat_nop _) s HS)|].
  destruct (s_conn s =? ConnectionStateChecking).
  - apply (Hlast _) ; [|exact HS].
    apply sat_seq; [sat_base presS_tac|]. apply sat_with_state_val. intros s0.
    destruct (_ && _); [apply presS_update_conn; auto|apply presS_tick_body].
  - apply (Hlast _ (presS_tick_body cfg) s HS).
Qed.

Lemma InvL_restart lu lp s : InvL s -> InvL (fst (do_restart lu lp s)).
Proof.
  intros HI. unfold do_restart, with_state.
  destruct (s_closed s) eqn:Hc; [exact HI|]. destruct HI as [I1 [I2 [I3 [I4 I5]]]].
  unfold seq, modify, set_selector, with_state, update_conn, emit, nop. cbn.
  destruct (Z.eqb_spec (s_conn s) ConnectionStateNew) as [E|NE]; cbn.
  - unfold InvL; cbn. rewrite E, Hc. repeat split; intros; auto; try discriminate; try congruence.
    destruct (s_started s) eqn:Hs; [exfalso; apply (I5 eq_refl E)|auto; congruence].
  - destruct (Z.eqb_spec (s_conn s) ConnectionStateChecking) as [E2|NE2]; cbn; unfold InvL; cbn; rewrite ?Hc.
    + rewrite E2. repeat split; intros; auto; try discriminate; try congruence.
      destruct (I4 H) as [_ [H1|H1]]; rewrite E2 in H1; discriminate.
    + repeat split; intros; auto; try discriminate; try congruence.
      destruct (I4 H) as [_ [H1|H1]]; [contradiction|]. specialize (I3 H1). congruence.
Qed.

Lemma InvL_start cfg ctl ru rp s : InvL s -> InvL (fst (do_start cfg ctl ru rp s)).
Proof.
  intros HI. unfold do_start, with_state.
  destruct (s_closed s) eqn:Hc; [exact HI|].
  destruct (s_started s) eqn:Hs; [exact HI|].
  destruct ((ru =? 0) || (rp =? 0)); [exact HI|]. destruct HI as [I1 [I2 [I3 [I4 I5]]]].
  destruct (I4 Hs) as [Hsel Hconn].
  assert (Hnew : s_conn s = ConnectionStateNew) by (destruct Hconn as [H|H]; [exact H|specialize (I3 H); congruence]).
  destruct s; cbn in *; subst.
  unfold seq, modify, set_selector, with_state, update_conn, emit. cbn.
  unfold InvL; cbn. repeat split; intros; auto; try discriminate; try congruence.
Qed.

Lemma InvL_close s : InvL s -> InvL (fst (do_close s)).
Proof.
  intros HI. unfold do_close, with_state.
  destruct (s_closed s) eqn:Hc; [exact HI|]. destruct HI as [I1 [I2 [I3 [I4 I5]]]].
  unfold seq, modify, update_conn, emit. cbn.
  destruct (Z.eqb_spec (s_conn s) ConnectionStateClosed) as [E|NE]; cbn; unfold InvL; cbn.
  - specialize (I3 E). congruence.
  - repeat split; intros; auto; try discriminate; try congruence.
    destruct (I4 H) as [H1 _]. exact H1.
Qed.

Theorem step_preserves_InvL cfg s o : InvL s -> wf_op s o -> InvL (fst (step cfg s o)).
Proof.
  intros HI Hwf. unfold step. destruct o; cbn [step_m].
  - (* AddLocal *) unfold with_state. destruct (s_closed s); [exact HI|].
    pose proof (add_local_life c s) as [H1 [H2 [H3 [H4 H5]]]].
    destruct HI as [I1 [I2 [I3 [I4 I5]]]]. unfold InvL. rewrite H1, H2, H3, H4.
    split; [intros Hf; rewrite (H5 Hf); auto|]. split; [exact I2|]. split; [exact I3|]. split; [exact I4|exact I5].
  - (* AddRemote *) unfold with_state.
    destruct (c_tcp c =? TCPTypeActive); [exact HI|]. destruct (s_closed s); [exact HI|].
    apply presL_add_remote; [|exact HI]. intros ok s0 H0. exact H0.
  - apply InvL_start; exact HI.
  - apply presL_of_frame; [apply life_frame_creds|exact HI].
  - (* Advance *) eapply InvL_view; [|exact HI]. reflexivity.
  - (* Tick *)
    destruct (s_started s) eqn:Hs.
    + apply presS_tick. split; assumption.
    + unfold tick, with_state. rewrite Hs. rewrite Bool.orb_true_r. exact HI.
  - (* InStun *) unfold with_state. destruct (s_closed s); [exact HI|].
    destruct (find_local lh s); [|exact HI].
    apply (presS_handle_inbound cfg c src m s). split; [exact HI|exact Hwf].
  - (* InData *) unfold with_state. destruct (s_closed s); [exact HI|].
    destruct (find_local lh s); [|exact HI]. apply presL_of_frame; [apply life_frame_data|exact HI].
  - apply presL_of_frame; [apply life_frame_write|exact HI].
  - apply presL_of_frame; [apply life_frame_write_to|exact HI].
  - apply presL_of_frame; [apply life_frame_read|exact HI].
  - apply InvL_restart; exact HI.
  - apply presL_of_frame; [apply life_frame_renominate|exact HI].
  - apply InvL_close; exact HI.
Qed.

(* ---- the lifecycle graph ----------------------------------------------------------------------------- *)
Definition valid_conn (c : Z) : Prop :=
  c = ConnectionStateNew \/ c = ConnectionStateChecking \/ c = ConnectionStateConnected \/
  c = ConnectionStateDisconnected \/ c = ConnectionStateFailed \/ c = ConnectionStateClosed.

Lemma notifiable_valid o st : notifiable o st -> valid_conn st.
Proof. unfold valid_conn. destruct o; cbn; intuition. Qed.

Lemma walk_last a l b : walk a l b -> b = last l a.
Proof.
  revert a. induction l as [|x t IH]; cbn [walk]; intros a H; [symmetry; exact H|].
  destruct H as [_ H]. rewrite last_cons. apply IH. exact H.
Qed.

Lemma step_valid_conn cfg s o : valid_conn (s_conn s) -> valid_conn (s_conn (fst (step cfg s o))).
Proof.
  intros Hv. pose proof (tracks_step cfg o s) as Hw. pose proof (notifies_step cfg o s) as Hn.
  cbn in Hw, Hn. unfold step. destruct (step_m cfg o s) as [s' outs]. cbn [fst snd] in *.
  apply walk_last in Hw. rewrite Hw.
  destruct (outs_states outs) as [|x t] eqn:E; [exact Hv|].
  assert (Hin : In (last (x :: t) (s_conn s)) (x :: t)).
  { clear. revert x. induction t as [|y t IH]; intros x; [left; reflexivity|].
    change (last (x :: y :: t) (s_conn s)) with (last (y :: t) (s_conn s)). right. apply IH. }
  rewrite Forall_forall in Hn. apply (notifiable_valid o). apply Hn. exact Hin.
Qed.

(* a walk whose notifications are all the same state has at most one step *)
Lemma walk_single a l b x : walk a l b -> Forall (fun y => y = x) l -> l = [] \/ (l = [x] /\ a <> x).
Proof.
  destruct l as [|y t]; [auto|]. cbn [walk]. intros [Hne Hw] HF. right.
  inversion HF as [|? ? Hy HF']; subst. destruct t as [|z t]; [auto|].
  cbn [walk] in Hw. destruct Hw as [Hne2 _]. inversion HF' as [|? ? Hz _]; subst. congruence.
Qed.

(* the silence rule never takes Connected straight to Failed unless the disconnected timeout is disabled *)
Lemma connected_to_failed_needs_td0 td tf d :
  0 <= td -> 0 <= tf ->
  Gen.Lifecycle.connectionStateForDisconnection td ConnectionStateConnected d (if tf =? 0 then 0 else tf + td)
    = ConnectionStateFailed -> td = 0.
Proof.
  intros Htd Htf. rewrite silence_state_spec by assumption. unfold spec_silence_state.
  change (ConnectionStateConnected =? ConnectionStateDisconnected) with false.
  change (ConnectionStateConnected =? ConnectionStateFailed) with false. cbn [negb andb].
  destruct (Z.eqb_spec td 0) as [E|NE]; [auto|]. cbn [negb andb].
  destruct (Z.ltb_spec td d), (Z.eqb_spec tf 0), (Z.ltb_spec (td + tf) d); cbn; intros HH; try discriminate; lia.
Qed.

Definition no_notification : mprop := notifies_only (fun _ => False).

Lemma no_notification_nil (f : M) s : sat no_notification f -> outs_states (snd (f s)) = [].
Proof. intros H. specialize (H s). cbn in H. destruct (outs_states (snd (f s))); [reflexivity|inversion H; contradiction]. Qed.

Lemma quiet_ping_all cfg : sat no_notification (ping_all cfg).
Proof. sat_decompose; sat_base notif_tac. Qed.
Lemma quiet_nominate cfg p : sat no_notification (nominate_pair cfg p).
Proof. sat_decompose; sat_base notif_tac. Qed.
Lemma quiet_keepalive cfg : sat no_notification (check_keepalive cfg).
Proof. sat_decompose; sat_base notif_tac. Qed.

Lemma contact_no_selection_quiet cfg s :
  selected_pair s = None -> outs_states (snd (contact_candidates cfg s)) = [].
Proof.
  intros Hsel. unfold contact_candidates, with_state. destruct (s_ctl s).
  - unfold contact_controlling, with_state. rewrite Hsel. destruct (s_nominated s) as [np|].
    + apply (no_notification_nil _ s (quiet_nominate cfg np)).
    + destruct (best_valid s) as [p|]; [|apply (no_notification_nil _ s (quiet_ping_all cfg))].
      destruct (_ && _); [|apply (no_notification_nil _ s (quiet_ping_all cfg))].
      apply no_notification_nil. apply sat_seq; [sat_base notif_tac|].
      apply sat_seq; [sat_base notif_tac|apply quiet_nominate].
  - destruct (cf_lite cfg).
    + unfold validate_selected, with_state. rewrite Hsel. reflexivity.
    + unfold contact_controlled, with_state. rewrite Hsel. apply (no_notification_nil _ s (quiet_ping_all cfg)).
Qed.

(* with a selected pair a tick notifies at most the state the silence rule yields *)
Lemma validate_selected_outs cfg k s sp :
  selected_pair s = Some sp -> (forall ok, sat no_notification (k ok)) ->
  let st := Gen.Lifecycle.connectionStateForDisconnection (cf_disc_timeout cfg) (s_conn s) (silence cfg s sp)
              (if cf_failed_timeout cfg =? 0 then 0 else cf_failed_timeout cfg + cf_disc_timeout cfg) in
  outs_states (snd (validate_selected cfg k s)) = if s_conn s =? st then [] else [st].
Proof.
  intros Hsel Hk st. unfold validate_selected, with_state. rewrite Hsel. unfold seq.
  fold (silence cfg s sp). fold st.
  destruct (update_conn st s) as [s1 o1] eqn:E.
  pose proof (no_notification_nil _ s1 (Hk true)) as Hq.
  destruct (k true s1) as [s2 o2]. cbn [fst snd] in *. rewrite outs_states_app, Hq, app_nil_r.
  unfold update_conn in E. destruct (s_conn s =? st); injection E as _ E; subst o1; reflexivity.
Qed.

Lemma contact_selected_outs cfg s sp :
  selected_pair s = Some sp ->
  let st := Gen.Lifecycle.connectionStateForDisconnection (cf_disc_timeout cfg) (s_conn s) (silence cfg s sp)
              (if cf_failed_timeout cfg =? 0 then 0 else cf_failed_timeout cfg + cf_disc_timeout cfg) in
  outs_states (snd (contact_candidates cfg s)) = if s_conn s =? st then [] else [st].
Proof.
  intros Hsel st. unfold contact_candidates, with_state. destruct (s_ctl s).
  - unfold contact_controlling, with_state. rewrite Hsel.
    apply validate_selected_outs; [exact Hsel|]. intros []; [apply quiet_keepalive|apply sat_nop].
  - destruct (cf_lite cfg).
    + apply validate_selected_outs; [exact Hsel|]. intros ok. apply sat_nop.
    + unfold contact_controlled, with_state. rewrite Hsel.
      apply validate_selected_outs; [exact Hsel|]. intros []; [apply quiet_keepalive|apply sat_nop].
Qed.

(* without a selected pair, adding a remote candidate notifies nothing and selects nothing *)
Definition quiet_unless_selected : mprop.
Proof.
  refine (MProp (fun s o s' => s_selected s = None -> outs_states o = [] /\ s_selected s' = None) _ _).
  - intros s H. split; [reflexivity|exact H].
  - intros s o1 s1 o2 s2 H1 H2 H. destruct (H1 H) as [E1 S1]. destruct (H2 S1) as [E2 S2].
    split; [rewrite outs_states_app, E1, E2; reflexivity|exact S2].
Defined.

Ltac qus_tac := cbn; intros ?Hn; split; [destruct_matches; reflexivity|destruct_matches; exact Hn].

Lemma qus_reselect pid : sat quiet_unless_selected (reselect pid).
Proof. intros s. cbn. intros H. unfold reselect, with_state. rewrite H. cbn. auto. Qed.

Lemma qus_add_remote cfg c k : (forall ok, sat quiet_unless_selected (k ok)) -> sat quiet_unless_selected (add_remote cfg c k).
Proof.
  intros Hk. sat_decompose_sel; try (sat_base qus_tac); try apply qus_reselect; try apply Hk.
Qed.

Lemma edge_to_closed cfg o a : a <> ConnectionStateClosed -> edge_ok cfg o a ConnectionStateClosed = true.
Proof. intros H. unfold edge_ok. apply Z.eqb_neq in H. rewrite H. reflexivity. Qed.

Theorem lifecycle_edges cfg s o :
  InvL s -> valid_conn (s_conn s) -> wf_op s o ->
  0 <= cf_disc_timeout cfg -> 0 <= cf_failed_timeout cfg ->
  chain_ok (edge_ok cfg o) (s_conn s) (outs_states (snd (step cfg s o))) = true.
Proof.
  intros HI Hv Hwf Htd Htf.
  pose proof (tracks_step cfg o s) as Hw. pose proof (notifies_step cfg o s) as Hn. cbn in Hw, Hn.
  destruct HI as [I1 [I2 [I3 [I4 I5]]]].
  unfold step in *.
  (* operations that cannot notify *)
  assert (Hnone : (forall st, ~ notifiable o st) -> chain_ok (edge_ok cfg o) (s_conn s) (outs_states (snd (step_m cfg o s))) = true).
  { intros Hno. destruct (outs_states (snd (step_m cfg o s))) as [|x t]; [reflexivity|].
    inversion Hn as [|? ? Hx _]. exfalso. exact (Hno x Hx). }
  destruct o; try (apply Hnone; intros st; cbn; tauto).
  - (* AddRemote: notifies Connected only when a pair is selected, hence from Disconnected *)
    assert (HF : Forall (fun y => y = ConnectionStateConnected) (outs_states (snd (step_m cfg (AddRemote c) s)))) by exact Hn.
    destruct (walk_single _ _ _ _ Hw HF) as [E|[E Hne]]; rewrite E; [reflexivity|].
    cbn [chain_ok]. rewrite Bool.andb_true_r.
    cbn [step_m] in E. unfold with_state in E.
    destruct (c_tcp c =? TCPTypeActive); [discriminate|].
    destruct (s_closed s) eqn:Hc; [discriminate|].
    destruct (s_selected s) as [id|] eqn:Hsel.
    + destruct (I2 eq_refl ltac:(congruence)) as [H|H]; [contradiction|]. rewrite H. reflexivity.
    + assert (Hq : sat quiet_unless_selected (add_remote cfg c (fun ok => emit (ORet (if ok then ROk else RIgnored))))).
      { apply qus_add_remote. intros ok s0 H0. split; [reflexivity|exact H0]. }
      exfalso. destruct (Hq s Hsel) as [Hq1 _]. rewrite Hq1 in E. discriminate.
  - (* Start *)
    assert (HF : Forall (fun y => y = ConnectionStateChecking) (outs_states (snd (step_m cfg (Start ctl rufrag rpwd) s)))) by exact Hn.
    destruct (walk_single _ _ _ _ Hw HF) as [E|[E Hne]]; rewrite E; [reflexivity|].
    cbn [chain_ok]. rewrite Bool.andb_true_r.
    cbn [step_m] in E. unfold do_start, with_state in E.
    destruct (s_closed s) eqn:Hc; [discriminate|]. destruct (s_started s) eqn:Hs; [discriminate|].
    destruct (I4 eq_refl) as [_ [H|H]]; [rewrite H; reflexivity|]. specialize (I3 H). congruence.
  - (* Tick *)
    cbn [step_m] in *. unfold tick in *. unfold with_state at 1 in Hw. unfold with_state at 1 in Hn. unfold with_state at 1.
    destruct (s_closed s || negb (s_started s)) eqn:Hidle; [reflexivity|].
    apply Bool.orb_false_iff in Hidle. destruct Hidle as [Hc Hs]. apply Bool.negb_false_iff in Hs.
    assert (Hseq : forall f, outs_states (snd ((f ;; modify (fun s0 => set_s_tick_last (s_conn s0) s0)) s)) = outs_states (snd (f s))).
    { intros f. unfold seq, modify. destruct (f s) as [s1 o1]. cbn. rewrite app_nil_r. reflexivity. }
    destruct (Z.eqb_spec (s_conn s) ConnectionStateFailed) as [Ef|Nf]; [rewrite Hseq; reflexivity|].
    destruct (Z.eqb_spec (s_conn s) ConnectionStateChecking) as [Ec|Nc].
    + rewrite Hseq. unfold seq at 1. unfold modify at 1. cbn [fst snd app].
      set (s1 := if negb (s_tick_last s =? s_conn s) then set_s_tick_start (s_now s) s else s).
      assert (E1 : s_conn s1 = s_conn s) by (subst s1; destruct (negb _); reflexivity).
      assert (E2 : s_selected s1 = s_selected s) by (subst s1; destruct (negb _); reflexivity).
      assert (E3 : s_checklist s1 = s_checklist s) by (subst s1; destruct (negb _); reflexivity).
      unfold with_state.
      destruct (_ && _).
      * unfold update_conn. rewrite E1, Ec. cbn. reflexivity.
      * assert (Hnosel : selected_pair s1 = None).
        { unfold selected_pair. rewrite E2. destruct (s_selected s) as [id|] eqn:Hsel; [|reflexivity].
          exfalso. destruct (I2 Hc ltac:(congruence)) as [H|H]; rewrite Ec in H; discriminate. }
        pose proof (contact_no_selection_quiet cfg s1 Hnosel) as Hq.
        destruct (contact_candidates cfg s1) as [s2 o2]. cbn [snd] in *. rewrite Hq. reflexivity.
    + rewrite Hseq.
      destruct (selected_pair s) as [sp|] eqn:Hsp; [|rewrite (contact_no_selection_quiet cfg s Hsp); reflexivity].
      rewrite (contact_selected_outs cfg s sp Hsp).
      set (st := Gen.Lifecycle.connectionStateForDisconnection _ _ _ _).
      destruct (Z.eqb_spec (s_conn s) st) as [E|NE]; [reflexivity|].
      cbn [chain_ok]. rewrite Bool.andb_true_r.
      assert (Hsel : s_selected s <> None) by (unfold selected_pair in Hsp; destruct (s_selected s); [discriminate|discriminate]).
      pose proof (silence_state_range (cf_disc_timeout cfg) (s_conn s) (silence cfg s sp)
                    (if cf_failed_timeout cfg =? 0 then 0 else cf_failed_timeout cfg + cf_disc_timeout cfg)) as Hr.
      fold st in Hr. cbv zeta in Hr.
      destruct (I2 Hc Hsel) as [Ha|Ha].
      * destruct Hr as [Hr|[Hr|Hr]]; rewrite Hr in *.
        -- rewrite Ha in NE. contradiction.
        -- rewrite Ha. reflexivity.
        -- subst st. rewrite Ha in Hr. apply connected_to_failed_needs_td0 in Hr; [|assumption|assumption].
           rewrite Ha. unfold edge_ok. rewrite Hr. reflexivity.
      * destruct Hr as [Hr|[Hr|Hr]]; rewrite Hr in *.
        -- rewrite Ha. reflexivity.
        -- rewrite Ha in NE. contradiction.
        -- rewrite Ha. reflexivity.
  - (* InStun: notifies Connected, from Checking or Disconnected only *)
    assert (HF : Forall (fun y => y = ConnectionStateConnected) (outs_states (snd (step_m cfg (InStun lh src m) s)))) by exact Hn.
    destruct (walk_single _ _ _ _ Hw HF) as [E|[E Hne]]; rewrite E; [reflexivity|].
    cbn [chain_ok]. rewrite Bool.andb_true_r.
    cbn [step_m] in E. unfold with_state in E. cbn in Hwf.
    destruct (s_closed s) eqn:Hc; [discriminate|].
    destruct (find_local lh s) as [l|] eqn:Hl; [|discriminate].
    destruct Hv as [H|[H|[H|[H|[H|H]]]]].
    + exfalso. exact (I5 Hwf H).
    + rewrite H. reflexivity.
    + contradiction.
    + rewrite H. reflexivity.
    + exfalso. unfold find_local in Hl. rewrite (I1 H) in Hl. discriminate.
    + specialize (I3 H). congruence.
  - (* Restart *)
    assert (HF : Forall (fun y => y = ConnectionStateChecking) (outs_states (snd (step_m cfg (Restart lufrag lpwd) s)))) by exact Hn.
    destruct (walk_single _ _ _ _ Hw HF) as [E|[E Hne]]; rewrite E; [reflexivity|].
    cbn [chain_ok]. rewrite Bool.andb_true_r.
    cbn [step_m] in E. unfold do_restart, with_state in E.
    destruct (s_closed s) eqn:Hc; [discriminate|].
    assert (Hnn : s_conn s <> ConnectionStateNew).
    { intros H. clear - E H. destruct s. cbn in H. subst.
      unfold seq, modify, set_selector, with_state, update_conn, emit, nop in E. cbn in E. discriminate E. }
    destruct Hv as [H|[H|[H|[H|[H|H]]]]].
    + contradiction.
    + contradiction.
    + rewrite H. reflexivity.
    + rewrite H. reflexivity.
    + rewrite H. reflexivity.
    + specialize (I3 H). congruence.
  - (* Close *)
    assert (HF : Forall (fun y => y = ConnectionStateClosed) (outs_states (snd (step_m cfg Close s)))) by exact Hn.
    destruct (walk_single _ _ _ _ Hw HF) as [E|[E Hne]]; rewrite E; [reflexivity|].
    cbn [chain_ok]. rewrite Bool.andb_true_r. apply edge_to_closed. exact Hne.
Qed.

(* ---- all histories ---------------------------------------------------------------------------------- *)
Fixpoint run_wf (cfg : config) (s : state) (ops : list op) : Prop :=
  match ops with
  | [] => True
  | o :: t => wf_op s o /\ run_wf cfg (fst (step cfg s o)) t
  end.

Fixpoint lifecycle_ok (cfg : config) (s : state) (ops : list op) : Prop :=
  match ops with
  | [] => True
  | o :: t => chain_ok (edge_ok cfg o) (s_conn s) (outs_states (snd (step cfg s o))) = true
              /\ lifecycle_ok cfg (fst (step cfg s o)) t
  end.

Theorem lifecycle_all_histories cfg ops :
  0 <= cf_disc_timeout cfg -> 0 <= cf_failed_timeout cfg ->
  forall s, InvL s -> valid_conn (s_conn s) -> run_wf cfg s ops -> lifecycle_ok cfg s ops.
Proof.
  intros Htd Htf. induction ops as [|o t IH]; intros s HI Hv Hwf; cbn [lifecycle_ok]; [exact I|].
  destruct Hwf as [Hw Ht]. split.
  - apply lifecycle_edges; assumption.
  - apply IH; [apply step_preserves_InvL; assumption|apply step_valid_conn; assumption|exact Ht].
Qed.

Lemma init_valid lu lp : valid_conn (s_conn (init lu lp)).
Proof. left. reflexivity. Qed.

(* ---- Failed is reported only after everything was released ------------------------------------------- *)
Definition released (s : state) : Prop :=
  s_checklist s = [] /\ s_pending s = [] /\ s_selected s = None /\ s_locals s = [] /\ s_remotes s = [].

Lemma released_after_failed s :
  s_conn s <> ConnectionStateFailed -> released (fst (update_conn ConnectionStateFailed s)).
Proof.
  intros H. unfold update_conn. apply Z.eqb_neq in H. rewrite H. cbn. repeat split.
Qed.

Lemma keepalive_released cfg s : released s -> check_keepalive cfg s = (s, []).
Proof.
  intros [_ [_ [Hs _]]]. unfold check_keepalive, with_state, selected_pair. rewrite Hs. reflexivity.
Qed.

Lemma contact_failed_released cfg s1 :
  In ConnectionStateFailed (outs_states (snd (contact_candidates cfg s1))) ->
  released (fst (contact_candidates cfg s1)).
Proof.
  destruct (selected_pair s1) as [sp|] eqn:Hsp.
  - rewrite (contact_selected_outs cfg s1 sp Hsp).
    set (st := Gen.Lifecycle.connectionStateForDisconnection _ _ _ _).
    destruct (Z.eqb_spec (s_conn s1) st) as [E|NE]; [cbn; tauto|]. cbn. intros [H|[]].
    assert (Hv : forall k, (forall s2, released s2 -> k true s2 = (s2, [])) ->
              released (fst (validate_selected cfg k s1))).
    { intros k Hk. unfold validate_selected, with_state. rewrite Hsp. unfold seq.
      fold (silence cfg s1 sp). fold st. rewrite H.
      pose proof (released_after_failed s1 ltac:(congruence)) as Hr.
      destruct (update_conn ConnectionStateFailed s1) as [s2 o2]. cbn [fst] in Hr.
      rewrite (Hk s2 Hr). exact Hr. }
    unfold contact_candidates, with_state. destruct (s_ctl s1).
    + unfold contact_controlling, with_state. rewrite Hsp. apply Hv. intros s2 Hr. apply keepalive_released. exact Hr.
    + destruct (cf_lite cfg); [apply Hv; reflexivity|].
      unfold contact_controlled, with_state. rewrite Hsp. apply Hv. intros s2 Hr. apply keepalive_released. exact Hr.
  - rewrite (contact_no_selection_quiet cfg s1 Hsp). cbn. tauto.
Qed.

Theorem failed_after_release cfg s :
  In ConnectionStateFailed (outs_states (snd (step cfg s Tick))) -> released (fst (step cfg s Tick)).
Proof.
  destruct (step cfg s Tick) as [s' o] eqn:E. cbn [fst snd]. revert E.
  unfold step, step_m, tick. unfold with_state at 1.
  destruct (s_closed s || negb (s_started s)); [intros E; injection E as <- <-; cbn; tauto|].
  assert (Hlast : forall f, (In ConnectionStateFailed (outs_states (snd (f s))) -> released (fst (f s))) ->
            (f ;; modify (fun s0 => set_s_tick_last (s_conn s0) s0)) s = (s', o) ->
            In ConnectionStateFailed (outs_states o) -> released s').
  { intros f Hf. unfold seq, modify. destruct (f s) as [s1 o1]. cbn [fst snd] in *. rewrite app_nil_r.
    intros E H. injection E as <- <-. specialize (Hf H). unfold released in *. cbn. exact Hf. }
  destruct (s_conn s =? ConnectionStateFailed); [apply (Hlast nop); cbn; tauto|].
  destruct (s_conn s =? ConnectionStateChecking) eqn:Ec.
  - lazymatch goal with |- (?f ;; modify _) s = _ -> _ => apply (Hlast f) end.
    unfold seq, modify. cbn [fst snd app].
    set (s1 := if negb (s_tick_last s =? s_conn s) then set_s_tick_start (s_now s) s else s).
    unfold with_state. destruct (_ && _).
    + intros _. assert (Hn : s_conn s1 <> ConnectionStateFailed).
      { subst s1. apply Z.eqb_eq in Ec. destruct (negb _); cbn; rewrite Ec; discriminate. }
      pose proof (released_after_failed s1 Hn) as Hr.
      destruct (update_conn ConnectionStateFailed s1) as [s2 o2]. exact Hr.
    + intros H. pose proof (contact_failed_released cfg s1) as Hc.
      destruct (contact_candidates cfg s1) as [s2 o2]. apply Hc. exact H.
  - apply (Hlast (contact_candidates cfg)). apply contact_failed_released.
Qed.

(* ---- Connected / Disconnected only while a selected pair exists ---------------------------------------- *)
Definition InvSel (s : state) : Prop :=
  s_closed s = false ->
  (s_conn s = ConnectionStateConnected \/ s_conn s = ConnectionStateDisconnected) -> s_selected s <> None.

Definition sel_view (s : state) := (s_closed s, s_conn s, s_selected s).

Lemma InvSel_view s s' : sel_view s' = sel_view s -> InvSel s -> InvSel s'.
Proof. unfold sel_view, InvSel. intros E. injection E as E1 E2 E3. rewrite E1, E2, E3. auto. Qed.

Ltac presSel_tac := cbn; let H := fresh "HInv" in intros H; eapply InvSel_view; [|exact H]; cbn; destruct_matches; reflexivity.

Lemma presSel_set_selected id : sat (preserves InvSel) (set_selected id).
Proof.
  intros s. cbn. intros _. unfold set_selected, seq, upd_pair, modify, update_conn, emit. cbn.
  destruct (s_conn s =? ConnectionStateConnected); cbn; unfold InvSel; cbn; intros; discriminate.
Qed.

Lemma presSel_reselect pid : sat (preserves InvSel) (reselect pid).
Proof.
  intros s. cbn. intros HI. unfold reselect, with_state.
  destruct (s_selected s) as [id|]; [|exact HI]. destruct (id =? pid); [|exact HI].
  apply (presSel_set_selected id s HI).
Qed.

Lemma presSel_update_conn_not_live st :
  st <> ConnectionStateConnected -> st <> ConnectionStateDisconnected -> sat (preserves InvSel) (update_conn st).
Proof.
  intros H1 H2 s. cbn. intros HI. unfold update_conn.
  destruct (s_conn s =? st); [exact HI|]. cbn.
  destruct (st =? ConnectionStateFailed); unfold InvSel; cbn; intros _ [H|H]; exfalso; [exact (H1 H)|exact (H2 H)|exact (H1 H)|exact (H2 H)].
Qed.

Lemma presSel_validate cfg k :
  (forall ok, sat (preserves InvSel) (k ok)) -> sat (preserves InvSel) (validate_selected cfg k).
Proof.
  intros Hk s. cbn. intros HI. unfold validate_selected, with_state.
  destruct (selected_pair s) as [sp|] eqn:Hsp; [|apply (Hk false s HI)].
  assert (Hsel : s_selected s <> None) by (unfold selected_pair in Hsp; destruct (s_selected s); discriminate).
  unfold seq.
  set (st := Gen.Lifecycle.connectionStateForDisconnection _ _ _ _).
  assert (H1 : InvSel (fst (update_conn st s))).
  { unfold update_conn. destruct (s_conn s =? st); [exact HI|]. cbn.
    destruct (st =? ConnectionStateFailed) eqn:Ef; unfold InvSel; cbn.
    - apply Z.eqb_eq in Ef. intros _ [H|H]; rewrite Ef in H; discriminate H.
    - intros _ _. exact Hsel. }
  destruct (update_conn st s) as [s1 o1]. cbn [fst] in H1.
  pose proof (Hk true s1 H1) as H2. destruct (k true s1) as [s2 o2]. exact H2.
Qed.

Lemma presSel_handle_inbound cfg l src m : sat (preserves InvSel) (handle_inbound cfg l src m).
Proof.
  sat_decompose_val; try (sat_base presSel_tac); try apply presSel_set_selected; try apply presSel_reselect.
Qed.

Lemma presSel_add_remote cfg c k : (forall ok, sat (preserves InvSel) (k ok)) -> sat (preserves InvSel) (add_remote cfg c k).
Proof.
  intros Hk. sat_decompose_val; try (sat_base presSel_tac); try apply presSel_reselect; try apply Hk.
Qed.

Lemma presSel_tick cfg : sat (preserves InvSel) (tick cfg).
Proof.
  sat_decompose_val; try (sat_base presSel_tac);
    try (apply presSel_update_conn_not_live; discriminate);
    try (apply presSel_validate; intros []; sat_decompose_val; try (sat_base presSel_tac)).
Qed.

Lemma InvSel_of_frame f s : sat (frame life_view) f -> InvSel s -> InvSel (fst (f s)).
Proof.
  intros Hf HI. eapply InvSel_view; [|exact HI]. specialize (Hf s). cbn in Hf.
  unfold life_view in Hf. unfold sel_view. injection Hf as E1 E2 E3 E4 E5. congruence.
Qed.

Theorem step_preserves_InvSel cfg s o : InvSel s -> InvSel (fst (step cfg s o)).
Proof.
  intros HI. unfold step. destruct o; cbn [step_m].
  - (* AddLocal *) unfold with_state. destruct (s_closed s); [exact HI|].
    pose proof (add_local_life c s) as [H1 [H2 [H3 [H4 H5]]]].
    unfold InvSel. rewrite H1, H2, H4. exact HI.
  - unfold with_state. destruct (c_tcp c =? TCPTypeActive); [exact HI|]. destruct (s_closed s); [exact HI|].
    apply presSel_add_remote; [|exact HI]. intros ok s0 H0. exact H0.
  - (* Start *) unfold do_start, with_state.
    destruct (s_closed s); [exact HI|]. destruct (s_started s); [exact HI|].
    destruct ((rufrag =? 0) || (rpwd =? 0)); [exact HI|].
    assert (Hs : sat (preserves InvSel) (modify (fun s0 => set_s_tick_timeout (initial_checking_timeout cfg)
                         (set_s_tick_start 0 (set_s_tick_last 0
                         (set_s_started true (set_s_rpwd rpwd (set_s_rufrag rufrag (set_s_ctl ctl s0))))))) ;;
                      set_selector ;; update_conn ConnectionStateChecking ;; emit (ORet ROk))).
    { sat_decompose_val; try (sat_base presSel_tac). apply presSel_update_conn_not_live; discriminate. }
    apply (Hs s HI).
  - apply InvSel_of_frame; [apply life_frame_creds|exact HI].
  - eapply InvSel_view; [|exact HI]. reflexivity.
  - apply (presSel_tick cfg s HI).
  - unfold with_state. destruct (s_closed s); [exact HI|]. destruct (find_local lh s); [|exact HI].
    apply (presSel_handle_inbound cfg c src m s HI).
  - unfold with_state. destruct (s_closed s); [exact HI|]. destruct (find_local lh s); [|exact HI].
    apply InvSel_of_frame; [apply life_frame_data|exact HI].
  - apply InvSel_of_frame; [apply life_frame_write|exact HI].
  - apply InvSel_of_frame; [apply life_frame_write_to|exact HI].
  - apply InvSel_of_frame; [apply life_frame_read|exact HI].
  - (* Restart *) unfold do_restart, with_state. destruct (s_closed s) eqn:Hc; [exact HI|].
    unfold seq, modify, set_selector, with_state, update_conn, emit, nop. cbn.
    destruct (Z.eqb_spec (s_conn s) ConnectionStateNew) as [E|NE]; cbn; unfold InvSel; cbn.
    + rewrite E. intros _ [H|H]; discriminate.
    + destruct (s_conn s =? ConnectionStateChecking) eqn:E2; cbn.
      * apply Z.eqb_eq in E2. rewrite E2. intros _ [H|H]; discriminate.
      * intros _ [H|H]; discriminate.
  - apply InvSel_of_frame; [apply life_frame_renominate|exact HI].
  - (* Close *) unfold do_close, with_state. destruct (s_closed s); [exact HI|].
    unfold seq, modify, update_conn, emit. cbn.
    destruct (s_conn s =? ConnectionStateClosed); cbn; unfold InvSel; cbn; intros; discriminate.
Qed.

Lemma InvSel_init lu lp : InvSel (init lu lp).
Proof. unfold InvSel, init. cbn. intros _ [H|H]; discriminate. Qed.
