(* C08: preservation of group C of the invariant of the close-protocol model.
   Lemma statements generated from the record Inv (tools: mechanical). *)
From Coq Require Import Arith Bool List Lia.
Import ListNotations.
From Ice Require Import Model.PrioSpec Model.CloseProto Proofs.CloseProtoMeasure Proofs.CloseProtoMeasure2
     Proofs.CloseProtoFrames Proofs.CloseProtoInv.

Section G.
Variable NC : nat.
Variable wfree : nat -> bool.
Variable fix_reg : bool.
Notation step := (step NC wfree fix_reg).
Notation Inv := (Inv NC fix_reg).

Ltac depsC I := pose proof (c_once_in _ _ _ I); pose proof (c_once_run _ _ _ I); pose proof (c_once_not _ _ _ I); pose proof (c_once1 _ _ _ I); pose proof (c_doneby _ _ _ I); pose proof (c_past _ _ _ I); pose proof (c_odone _ _ _ I); pose proof (c_ptld _ _ _ I); pose proof (c_hostok _ _ _ I); pose proof (c_grace _ _ _ I); pose proof (c_abound _ _ _ I); pose proof (b_tld1 _ _ _ I); pose proof (b_tld2 _ _ _ I); pose proof (b_hdone _ _ _ I);  idtac.

Lemma p_c_once_in s s' (I : Inv s) (H : step s s') :
  forall k, in_once (cp s' k) = true -> once s' = ORunning /\ oowner s' = k.
Proof. pres H ltac:(exact (c_once_in _ _ _ I)) ltac:(depsC I). Qed.

Lemma p_c_once_run s s' (I : Inv s) (H : step s s') :
  once s' = ORunning -> in_once (cp s' (oowner s')) = true.
Proof. pres H ltac:(exact (c_once_run _ _ _ I)) ltac:(depsC I). Qed.

Lemma p_c_once_not s s' (I : Inv s) (H : step s s') :
  once s' = ONot -> done s' = false.
Proof. pres H ltac:(exact (c_once_not _ _ _ I)) ltac:(depsC I). Qed.

Lemma p_c_once1 s s' (I : Inv s) (H : step s s') :
  forall k, cp s' k = COnce1 -> done s' = false.
Proof. pres H ltac:(exact (c_once1 _ _ _ I)) ltac:(depsC I). Qed.

Lemma p_c_doneby s s' (I : Inv s) (H : step s s') :
  forall k, done_by (cp s' k) = true -> done s' = true.
Proof. pres H ltac:(exact (c_doneby _ _ _ I)) ltac:(depsC I). Qed.

Lemma p_c_past s s' (I : Inv s) (H : step s s') :
  forall k, past_once (cp s' k) = true -> once s' = ODone.
Proof. pres H ltac:(exact (c_past _ _ _ I)) ltac:(depsC I). Qed.

Lemma p_c_odone s s' (I : Inv s) (H : step s s') :
  once s' = ODone -> done s' = true.
Proof. pres H ltac:(exact (c_odone _ _ _ I)) ltac:(depsC I). Qed.

Lemma p_c_ptld s s' (I : Inv s) (H : step s s') :
  forall k, past_tld (cp s' k) = true -> tld s' = true.
Proof. pres H ltac:(exact (c_ptld _ _ _ I)) ltac:(depsC I). Qed.

Lemma p_c_hostok s s' (I : Inv s) (H : step s s') :
  forall k, cp s' k <> CIdle -> closer_host_ok (chost s' k) = true.
Proof. pres H ltac:(exact (c_hostok _ _ _ I)) ltac:(depsC I). Qed.

Lemma p_c_grace s s' (I : Inv s) (H : step s s') :
  forall k, cp s' k = CNotifWait -> cgr s' k = true.
Proof. pres H ltac:(exact (c_grace _ _ _ I)) ltac:(depsC I). Qed.

Lemma p_c_abound s s' (I : Inv s) (H : step s s') :
  forall k, match cp s' k with CAbort j => j <= NC | _ => True end.
Proof. pres H ltac:(exact (c_abound _ _ _ I)) ltac:(depsC I). Qed.

(* clauses: c_once_in c_once_run c_once_not c_once1 c_doneby c_past c_odone c_ptld c_hostok c_grace c_abound *)

End G.
