(* C20 over histories: the value of the last accepted nomination only ever moves UP, to a value carried by a Binding
   request that was just delivered, unless the selector was (re)started (Start, Restart, a role switch). *)
From Coq Require Import ZArith Bool List Lia.
From Ice Require Import Model.AgentTypes Model.AgentCore Gen.Consts Gen.Lifecycle Proofs.AgentFrame Proofs.AgentC20 Proofs.AgentC02 Proofs.AgentC03Sel Proofs.AgentEnds.
Import ListNotations.
Local Open Scope Z_scope.

Definition nom_rel (R : Prop) (C : Z -> Prop) (s s' : state) : Prop :=
  (s_last_nom s' = s_last_nom s \/ exists v, s_last_nom s' = Some v /\ nomination_fresh s v = true /\ C v) \/ R.

Lemma fresh_ext s s' v : s_last_nom s' = s_last_nom s -> nomination_fresh s' v = nomination_fresh s v.
Proof. unfold nomination_fresh. intros ->. reflexivity. Qed.

Lemma fresh_trans s s1 v1 v2 :
  s_last_nom s1 = Some v1 -> nomination_fresh s v1 = true -> nomination_fresh s1 v2 = true -> nomination_fresh s v2 = true.
Proof.
  unfold nomination_fresh. intros ->. destruct (s_last_nom s) as [c|]; [|reflexivity].
  intros H1 H2. apply Z.ltb_lt in H1. apply Z.ltb_lt in H2. apply Z.ltb_lt. lia.
Qed.

Definition nom_prov (R : Prop) (C : Z -> Prop) : mprop.
Proof.
  refine (MProp (fun s _ s' => nom_rel R C s s') _ _).
  - intros s. left. left. reflexivity.
  - intros s o1 s1 o2 s2 H1 H2. unfold nom_rel in *.
    destruct H1 as [H1|HR]; [|right; exact HR]. destruct H2 as [H2|HR]; [|right; exact HR]. left.
    destruct H1 as [E1|[v1 [E1 [F1 C1]]]].
    + destruct H2 as [E2|[v2 [E2 [F2 C2]]]]; [left; congruence|].
      right. exists v2. split; [exact E2|]. split; [rewrite <- (fresh_ext s s1 v2 E1); exact F2|exact C2].
    + destruct H2 as [E2|[v2 [E2 [F2 C2]]]].
      * right. exists v1. split; [congruence|]. split; assumption.
      * right. exists v2. split; [exact E2|]. split; [exact (fresh_trans s s1 v1 v2 E1 F1 F2)|exact C2].
Defined.

Definition Gc (c0 : bool) (R : Prop) (s : state) : Prop := s_ctl s = c0 \/ R.

(* accept_nomination: the one place a value is stored *)
Lemma nom_accept c0 R (C : Z -> Prop) nv k :
  (forall v, nv = Some v -> C v) ->
  (forall b, satG (Gc c0 R) (nom_prov R C) (k b)) -> satG (Gc c0 R) (nom_prov R C) (accept_nomination nv k).
Proof.
  intros HC Hk s Hg. destruct nv as [v|].
  - rewrite accept_nomination_spec. destruct (nomination_fresh s v) eqn:Ef; [|exact (Hk false s Hg)].
    assert (Hg1 : Gc c0 R (set_s_last_nom (Some v) s)) by exact Hg.
    destruct (Hk true _ Hg1) as [H1 H2]. unfold seq, modify. cbn [fst snd].
    destruct (k true (set_s_last_nom (Some v) s)) as [s2 o2]. cbn [fst snd] in *. split; [|exact H2].
    apply (mp_trans (nom_prov R C) s [] (set_s_last_nom (Some v) s) o2 s2); [|exact H1].
    cbn. left. right. exists v. split; [reflexivity|]. split; [exact Ef|apply HC; reflexivity].
  - rewrite accept_plain_nomination. exact (Hk true s Hg).
Qed.

Create HintDb agentcore_nq.
#[export] Hint Unfold seen fresh_tx invalidate_pending send_binding_request ping_candidate
  nominate_pair send_binding_success add_pair replace_remote_in_pairs retarget_cache copy_activity
  add_remote_body add_remote add_local set_selector ping_all check_keepalive contact_controlling
  contact_controlled contact_candidates tick accept_data inbound_data do_write conn_write
  conn_write_to_pair conn_read do_start do_set_remote_creds do_restart do_renominate renominate_op do_close step_m
  validate_selected set_selected reselect
  handle_inbound handle_inbound_request dispatch_request dispatch_success handle_request_controlling
  handle_request_controlled handle_success_controlling handle_success_controlled handle_role_conflict : agentcore_nq.

Definition Rm (c0 : bool) (m : msg) : Prop := exists tb, m_ctl m = Some (c0, tb).
Definition Cm (c0 : bool) (m : msg) (v : Z) : Prop := m_nom m = Some v /\ m_class m = 0 /\ c0 = false.

Lemma satG_R c0 (R : Prop) C f : R -> satG (Gc c0 R) (nom_prov R C) f.
Proof. intros HR s _. split; right; exact HR. Qed.

Ltac solve_R :=
  match goal with
  | HR : Rm _ _ |- _ => exact HR
  | Hm : m_ctl ?m = Some (?tc, ?tb), He : Bool.eqb ?tc (s_ctl ?s1) = true, Hc : s_ctl ?s1 = ?c0 |- Rm ?c0 ?m =>
    exists tb; apply eqb_prop in He; congruence
  end.

Lemma nom_update_conn c0 R C st : satG (Gc c0 R) (nom_prov R C) (update_conn st).
Proof.
  intros s Hg. unfold update_conn. destruct (s_conn s =? st); cbn [fst snd]; [split; [left; left; reflexivity|exact Hg]|].
  destruct (st =? ConnectionStateFailed); cbn; (split; [left; left; reflexivity|exact Hg]).
Qed.

Ltac nq_leaf :=
  match goal with
  | |- satG (Gc _ _) (nom_prov _ _) (update_conn _) => apply nom_update_conn
  | |- satG (Gc _ _) (nom_prov _ _) (emit _) => apply satG_emit; intros ?s ?Hg; cbn; left; left; reflexivity
  | |- satG (Gc _ _) (nom_prov _ _) (upd_pair _ _) => apply satG_upd_pair; intros ?s ?Hg; cbn; split; [left; left; reflexivity|exact Hg]
  | |- satG (Gc _ _) (nom_prov _ _) (modify _) =>
    apply satG_modify; intros ?s ?Hg;
    first [ split; [cbn; left; left; destruct_matches; reflexivity
                   |destruct Hg as [?Hc|?HR]; [left; cbn; destruct_matches; exact Hc|right; exact HR]]
          | match goal with
            | Hm : m_ctl ?m = Some (?tc, ?tb), He : Bool.eqb ?tc (s_ctl ?s1) = true, Hx : Gc ?c0 _ ?s1 |- _ =>
              assert (HR : Rm c0 m) by (destruct Hx as [?Hc|?HR0]; [exists tb; apply eqb_prop in He; congruence|exact HR0]);
              split; right; exact HR
            end ]
  end.

Lemma handle_inbound_nom cfg l src m c0 :
  satG (Gc c0 (Rm c0 m)) (nom_prov (Rm c0 m) (Cm c0 m)) (handle_inbound cfg l src m).
Proof.
  autounfold with agentcore_nq.
  repeat (satG_split_eq; try nq_leaf;
          try (match goal with
               | |- satG _ _ (accept_nomination _ _) =>
                 match goal with
                 | Hc : s_ctl ?sx = false, Hx : Gc _ _ ?sx |- _ =>
                   destruct Hx as [?Hc0|?HR]; [|apply satG_R; exact HR];
                   apply nom_accept; [intros ?v ?Hv; split; [exact Hv|split; [apply Z.eqb_eq; assumption|congruence]]|intros ?b]
                 end
               end)).
Qed.

(* ---- every operation ---------------------------------------------------------------------------------------- *)
Definition restarts_selector (s : state) (o : op) : Prop :=
  match o with
  | Start _ _ _ | Restart _ _ => True
  | InStun _ _ m => exists tb, m_ctl m = Some (s_ctl s, tb)   (* a request carrying the receiver's own role *)
  | _ => False
  end.

(* an authentic Binding request carrying the value, delivered to a controlled agent *)
Definition accepted_value (s : state) (o : op) (v : Z) : Prop :=
  match o with
  | InStun _ _ m => m_nom m = Some v /\ m_class m = 0 /\ s_ctl s = false /\ request_authentic s m = true
  | _ => False
  end.

Lemma other_ops_nom cfg o c0 :
  (match o with InStun _ _ _ | Start _ _ _ | Restart _ _ => False | _ => True end) ->
  satG (Gc c0 False) (nom_prov False (fun _ => False)) (step_m cfg o).
Proof.
  intros Ho. destruct o; try contradiction; cbn [step_m]; autounfold with agentcore_nq;
    repeat (satG_split_eq; try nq_leaf).
Qed.

Theorem step_nomination_value cfg s o :
  nom_rel (restarts_selector s o) (accepted_value s o) s (fst (step cfg s o)).
Proof.
  destruct o; try (right; exact I);
    try (match goal with |- nom_rel _ _ _ (fst (step _ _ ?o)) =>
           destruct (proj1 (other_ops_nom cfg o (s_ctl s) I s (or_introl eq_refl))) as [H|[]]; left;
           destruct H as [H|[? [_ [_ []]]]]; left; exact H end).
  unfold step. cbn [step_m]. rewrite with_state_eq.
  destruct (s_closed s); [left; left; reflexivity|]. destruct (find_local lh s) as [l|]; [|left; left; reflexivity].
  destruct (proj1 (handle_inbound_nom cfg l src m (s_ctl s) s (or_introl eq_refl))) as [[H|[v [E [F [Hv [Hc Hctl]]]]]]|HR];
    [left; left; exact H| |right; exact HR].
  destruct (request_authentic s m) eqn:Ea.
  - left. right. exists v. cbn. repeat split; assumption.
  - rewrite (handle_inbound_bad_request cfg s l src m Hc Ea). left. left. reflexivity.
Qed.

(* ---- histories --------------------------------------------------------------------------------------------------- *)
(* no operation of the stretch (re)starts the selector: no Start, no Restart, no request that makes the agent
   change role (a request carrying the receiver's own role) *)
Fixpoint no_restart (cfg : config) (s : state) (ops : list op) : Prop :=
  match ops with
  | [] => True
  | o :: t => ~ restarts_selector s o /\ no_restart cfg (fst (step cfg s o)) t
  end.

Lemma no_restart_app cfg a : forall s b, no_restart cfg s (a ++ b) -> no_restart cfg s a /\ no_restart cfg (runs cfg s a) b.
Proof.
  induction a as [|o t IH]; intros s b; cbn; [auto|]. intros [H1 H2]. destruct (IH _ _ H2) as [H3 H4]. auto.
Qed.

Definition value_of_request_in (ops : list op) (v : Z) : Prop :=
  exists lh src m, In (InStun lh src m) ops /\ m_nom m = Some v /\ m_class m = 0.

(* over any stretch of any history without a selector restart, in whatever order the requests arrive: the last
   accepted nomination value is what it was, or a strictly greater value that one of the delivered Binding requests
   carried *)
Theorem accepted_values_only_increase cfg ops : forall s, no_restart cfg s ops ->
  s_last_nom (runs cfg s ops) = s_last_nom s \/
  exists v, s_last_nom (runs cfg s ops) = Some v /\ nomination_fresh s v = true /\ value_of_request_in ops v.
Proof.
  induction ops as [|o t IH]; intros s Hn; [left; reflexivity|]. destruct Hn as [Hr Hn]. cbn [runs fold_left].
  fold (runs cfg (fst (step cfg s o)) t).
  assert (Hw : forall v, value_of_request_in t v -> value_of_request_in (o :: t) v).
  { intros v [lh [src [m [Hin H]]]]. exists lh, src, m. split; [right; exact Hin|exact H]. }
  destruct (step_nomination_value cfg s o) as [H1|HR]; [|contradiction].
  specialize (IH _ Hn). set (s1 := fst (step cfg s o)) in *.
  destruct H1 as [E1|[v1 [E1 [F1 C1]]]].
  - destruct IH as [E2|[v2 [E2 [F2 C2]]]]; [left; congruence|].
    right. exists v2. split; [exact E2|]. split; [rewrite <- (fresh_ext s s1 v2 E1); exact F2|apply Hw; exact C2].
  - assert (C1' : value_of_request_in (o :: t) v1).
    { destruct o; try contradiction. destruct C1 as [Hv [Hc _]]. exists lh, src, m. split; [left; reflexivity|auto]. }
    destruct IH as [E2|[v2 [E2 [F2 C2]]]].
    + right. exists v1. split; [congruence|]. split; assumption.
    + right. exists v2. split; [exact E2|]. split; [exact (fresh_trans s s1 v1 v2 E1 F1 F2)|apply Hw; exact C2].
Qed.

Definition nom_le (a b : option Z) : Prop :=
  match a, b with
  | None, _ => True
  | Some _, None => False
  | Some x, Some y => x <= y
  end.

(* monotone along the history: a later state never remembers a smaller value than an earlier one *)
Corollary last_nomination_monotone cfg a b s :
  no_restart cfg s (a ++ b) -> nom_le (s_last_nom (runs cfg s a)) (s_last_nom (runs cfg s (a ++ b))).
Proof.
  intros Hn. destruct (no_restart_app cfg a s b Hn) as [_ Hb].
  unfold runs at 2. rewrite fold_left_app. fold (runs cfg s a). fold (runs cfg (runs cfg s a) b).
  destruct (accepted_values_only_increase cfg b _ Hb) as [E|[v [E [F _]]]]; rewrite E.
  - unfold nom_le. destruct (s_last_nom (runs cfg s a)); [lia|exact I].
  - unfold nom_le, nomination_fresh in *. destruct (s_last_nom (runs cfg s a)); [apply Z.ltb_lt in F; lia|exact I].
Qed.
