(* C08: preservation of group A of the invariant (the loop, the tasks and their callers). *)
From Coq Require Import Arith Bool List Lia.
Import ListNotations.
From Ice Require Import Model.PrioSpec Model.CloseProto Proofs.CloseProtoMeasure Proofs.CloseProtoMeasure2
     Proofs.CloseProtoFrames Proofs.CloseProtoInv.

Section G.
Variable NC : nat.
Variable wfree : nat -> bool.
Variable fix_reg : bool.
Notation step := (step NC wfree fix_reg).
Notation Inv := (Inv NC fix_reg).

Ltac depsA I :=
  pose proof (a_task _ _ _ I); pose proof (a_write _ _ _ I); pose proof (a_host _ _ _ I); pose proof (a_del _ _ _ I);
  pose proof (a_wait _ _ _ I); pose proof (a_tdone _ _ _ I); pose proof (a_sel _ _ _ I); pose proof (a_park _ _ _ I);
  pose proof (a_hostok _ _ _ I); pose proof (a_wtarget _ _ _ I); pose proof (a_wloop _ _ _ I); pose proof (a_kindok _ _ _ I); pose proof (d_reg _ _ _ I); pose proof (d_bound _ _ _ I); pose proof (d_ioab _ _ _ I); pose proof (d_exit _ _ _ I); pose proof (d_unreg _ _ _ I); pose proof (e_rhost _ _ _ I); pose proof (e_lhost _ _ _ I); pose proof (e_lbusy _ _ _ I).

(* the clause below matches on [write_target]: unfold the call guard before splitting on it *)
Ltac norm_wt :=
  norm; repeat match goal with H : write_target _ = _ |- _ => rewrite H in * | H : api_only _ = _ |- _ => rewrite H in * end;
  repeat match goal with H : match khost ?k with _ => _ end = true |- _ => destruct (khost k) eqn:?; try discriminate H end;
  norm;
  repeat match goal with b : body |- _ => destruct b; try discriminate end;
  repeat match goal with k : ckind |- _ => destruct k; try discriminate end; norm.
Ltac slow_wt :=
  intros; unfold upd, kind_ok in *; classes; upd_cases; goal_match; upd_cases; goal_match; split_ors; norm_wt;
  first [ close
        | goal_bools; inst_all; norm_wt; mp; norm_wt; mp1; norm_wt; split_solve 4 ].
Ltac pres_wt H fast deps :=
  step_cases H; simp_goal; try fast; open_hosts; try fast; deps; slow_wt.

Lemma p_a_wtarget s s' (I : Inv s) (H : step s s') :
  forall i, ap s' i <> AIdle ->
              match akind s' i with KWriteOff c => rp s' c <> RNone | _ => True end.
Proof. pres_wt H ltac:(exact (a_wtarget _ _ _ I)) ltac:(depsA I). Qed.

Lemma p_a_wloop s s' (I : Inv s) (H : step s s') :
  forall i, lp s' = LWrite i ->
            match write_target (akind s' i) with Some c => rp s' c <> RNone | None => True end.
Proof. pres_wt H ltac:(exact (a_wloop _ _ _ I)) ltac:(depsA I). Qed.

Lemma p_a_kindok s s' (I : Inv s) (H : step s s') :
  forall i, ap s' i <> AIdle -> api_only (akind s' i) = true -> khost (akind s' i) = HApi.
Proof. pres_wt H ltac:(exact (a_kindok _ _ _ I)) ltac:(depsA I). Qed.

(* clauses: a_task a_write a_host a_del a_wait a_tdone a_sel a_park a_hostok a_wtarget a_wloop a_kindok *)

End G.
