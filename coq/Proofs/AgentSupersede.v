(* C06: when a signalled candidate supersedes peer-reflexive ones with the same transport address, every
   listed pair keeps its place, ID, local candidate, state, priority, counters and statistics, its remote
   candidate is unchanged or (if it was a superseded peer-reflexive one) the new candidate, the selection is
   unchanged, and new pairs are only appended. *)
From Coq Require Import ZArith Bool List Lia.
From Ice Require Import Model.AgentTypes Model.AgentCore Gen.Consts Gen.Prio Proofs.AgentFrame Proofs.AgentC06 Proofs.AgentC03Sel
  Proofs.AgentRem Proofs.AgentRemOK Proofs.TwoAgentsReach.
Import ListNotations.
Local Open Scope Z_scope.

Definition stats (p : pair) :=
  (p_req_sent p, p_req_recv p, p_resp_sent p, p_resp_recv p, p_pkts_sent p, p_bytes_sent p, p_pkts_recv p, p_bytes_recv p).

Definition kept (c : cand) (p p' : pair) : Prop :=
  p_id p' = p_id p /\ p_loc p' = p_loc p /\ p_ctl p' = p_ctl p /\ p_state p' = p_state p /\
  (p_nominated p = true -> p_nominated p' = true) /\
  p_nom_on_succ p' = p_nom_on_succ p /\ p_nom_value p' = p_nom_value p /\ p_reqcount p' = p_reqcount p /\
  pair_priority p' = pair_priority p /\ stats p' = stats p /\
  (p_rem p' = p_rem p \/
   (p_rem p' = c /\ c_typ (p_rem p) = CandidateTypePeerReflexive /\ cand_taddr_eqb (p_rem p) c = true)).

Lemma kept_refl c p : kept c p p.
Proof. unfold kept. repeat split; auto. Qed.

Lemma kept_nominate c po q : kept c po q -> kept c po (set_p_nominated true q).
Proof. unfold kept. cbn. intros H. decompose [and] H. repeat split; auto. Qed.

Lemma kept_repl c po p0 :
  kept c po p0 ->
  (p_rem p0 = p_rem po -> c_typ (p_rem po) = CandidateTypePeerReflexive /\ cand_taddr_eqb (p_rem po) c = true) ->
  kept c po (set_p_prio_ov (Some (pair_priority p0)) (set_p_rem c p0)).
Proof.
  unfold kept. intros H Hr. decompose [and] H. clear H. cbn.
  repeat split; auto.
  right. split; [reflexivity|].
    match goal with H : _ \/ _ |- _ => destruct H as [E|[_ E]] end; [apply Hr; exact E|exact E].
Qed.

Definition K2 (c : cand) (orig cur : list pair) : Prop := Forall2 (kept c) orig cur.

Lemma K2_map c orig cur (f : pair -> pair) :
  K2 c orig cur -> (forall po q, In po orig -> kept c po q -> kept c po (f q)) -> K2 c orig (map f cur).
Proof.
  unfold K2. induction 1 as [|po q orig cur Hk HF IH]; intros Hf; cbn; constructor.
  - apply Hf; [left; reflexivity|exact Hk].
  - apply IH. intros po' q' Hin Hk'. apply Hf; [right; exact Hin|exact Hk'].
Qed.

Lemma K2_in c orig cur q : K2 c orig cur -> In q cur -> exists po, In po orig /\ kept c po q.
Proof.
  unfold K2. induction 1 as [|po q0 orig cur Hk HF IH]; cbn; intros Hin; [contradiction|].
  destruct Hin as [<-|Hin]; [exists po; auto|]. destruct (IH Hin) as [po' [H1 H2]]. exists po'. auto.
Qed.

(* reselect: the checklist is mapped by "maybe mark nominated", the selection is unchanged *)
Lemma cl_reselect pid s :
  s_selected (fst (reselect pid s)) = s_selected s /\
  exists f, (forall q, f q = q \/ f q = set_p_nominated true q) /\
            s_checklist (fst (reselect pid s)) = map f (s_checklist s).
Proof.
  unfold reselect. rewrite with_state_eq. destruct (s_selected s) as [id|] eqn:Es.
  2: { split; [exact Es|]. exists (fun q => q). split; [auto|]. cbn. rewrite map_id. reflexivity. }
  destruct (id =? pid) eqn:E.
  2: { split; [exact Es|]. exists (fun q => q). split; [auto|]. cbn. rewrite map_id. reflexivity. }
  unfold set_selected. rewrite !seq_fst, upd_pair_fst, modify_fst. unfold emit. cbn [fst]. split.
  - unfold update_conn. cbn. destruct (s_conn s =? ConnectionStateConnected); cbn; reflexivity.
  - exists (fun q => if p_id q =? id then set_p_nominated true q else q). split.
    + intros q. destruct (p_id q =? id); auto.
    + rewrite update_conn_live_checklist by discriminate. reflexivity.
Qed.

(* one superseded candidate: replace_remote_in_pairs *)
Definition repl_of (c : cand) (p : pair) : pair := set_p_prio_ov (Some (pair_priority p)) (set_p_rem c p).

Lemma replace_kept c old orig s :
  K2 c orig (s_checklist s) ->
  (forall p0 po, In p0 (s_checklist s) -> c_h (p_rem p0) = c_h old -> In po orig -> p_id po = p_id p0 -> kept c po (repl_of c p0)) ->
  let s' := fst (replace_remote_in_pairs old c s) in
  K2 c orig (s_checklist s') /\ s_selected s' = s_selected s.
Proof.
  intros HK Hrepl. unfold replace_remote_in_pairs. rewrite with_state_eq.
  set (Lst := filter (fun p => c_h (p_rem p) =? c_h old) (s_checklist s)).
  assert (HL : Forall (fun p0 => forall po, In po orig -> p_id po = p_id p0 -> kept c po (repl_of c p0)) Lst).
  { rewrite Forall_forall. intros p0 Hp po Hpo E. apply filter_In in Hp. destruct Hp as [Hin Eh]. apply Z.eqb_eq in Eh.
    exact (Hrepl p0 po Hin Eh Hpo E). }
  clearbody Lst. clear Hrepl. cbv zeta.
  assert (Hgen : forall s0, K2 c orig (s_checklist s0) ->
     K2 c orig (s_checklist (fst (for_each Lst (fun p =>
                 upd_pair (p_id p) (fun _ => set_p_prio_ov (Some (pair_priority p)) (set_p_rem c p)) ;;
                 modify (fun s => match s_nominated s with
                                  | Some np => if p_id np =? p_id p then set_s_nominated (Some (set_p_prio_ov (Some (pair_priority p)) (set_p_rem c p))) s else s
                                  | None => s end) ;;
                 reselect (p_id p)) s0))) /\
     s_selected (fst (for_each Lst (fun p =>
                 upd_pair (p_id p) (fun _ => set_p_prio_ov (Some (pair_priority p)) (set_p_rem c p)) ;;
                 modify (fun s => match s_nominated s with
                                  | Some np => if p_id np =? p_id p then set_s_nominated (Some (set_p_prio_ov (Some (pair_priority p)) (set_p_rem c p))) s else s
                                  | None => s end) ;;
                 reselect (p_id p)) s0)) = s_selected s0).
  { induction Lst as [|p0 t IH]; intros s0 H0; cbn [for_each]; [split; [exact H0|reflexivity]|].
    rewrite seq_fst.
    match goal with |- context [for_each t ?body (fst (?b0 s0))] => set (s1 := fst (b0 s0)) end.
    assert (H1 : K2 c orig (s_checklist s1) /\ s_selected s1 = s_selected s0).
    { unfold s1. rewrite !seq_fst, upd_pair_fst, modify_fst.
      match goal with |- context [reselect _ ?X] => set (sx := X) end.
      destruct (cl_reselect (p_id p0) sx) as [Es [f [Hf Ef]]]. rewrite Ef, Es.
      assert (Ecl : s_checklist sx = s_checklist (upd (p_id p0) (fun _ => repl_of c p0) s0)) by (unfold sx; cbn; destruct_matches; reflexivity).
      assert (Esel : s_selected sx = s_selected s0) by (unfold sx; cbn; destruct_matches; reflexivity).
      split; [|exact Esel]. rewrite Ecl. unfold upd. cbn [s_checklist set_s_checklist].
      apply K2_map; [apply K2_map; [exact H0|]|].
      - intros po q Hpo Hk. destruct (p_id q =? p_id p0) eqn:E; [|exact Hk]. apply Z.eqb_eq in E.
        apply (Forall_inv HL po Hpo). destruct Hk as [Eid _]. congruence.
      - intros po q _ Hk. destruct (Hf q) as [->| ->]; [exact Hk|apply kept_nominate; exact Hk]. }
    destruct H1 as [H1 E1]. destruct (IH (Forall_inv_tail HL) s1 H1) as [H2 E2]. split; [exact H2|congruence]. }
  exact (Hgen s HK).
Qed.

(* the whole supersession loop *)
Lemma cl_frame_M {A} (g : state -> A) (f : M) : sat (frame g) f -> forall s, g (fst (f s)) = g s.
Proof. intros H s. exact (H s). Qed.

Lemma loop_kept c orig : forall red s,
  NoDup (map p_id orig) ->
  K2 c orig (s_checklist s) ->
  (forall po old, In po orig -> In old red -> c_h (p_rem po) = c_h old ->
                  c_typ (p_rem po) = CandidateTypePeerReflexive /\ cand_taddr_eqb (p_rem po) c = true) ->
  let s' := fst (for_each red (fun old => copy_activity old c ;; replace_remote_in_pairs old c ;; retarget_cache old c) s) in
  K2 c orig (s_checklist s') /\ s_selected s' = s_selected s.
Proof.
  induction red as [|old t IH]; intros s Hnd HK Hred; cbn [for_each]; [split; [exact HK|reflexivity]|].
  rewrite seq_fst. cbv zeta.
  match goal with |- context [for_each t ?body (fst (?b0 s))] => set (s1 := fst (b0 s)) end.
  assert (H1 : K2 c orig (s_checklist s1) /\ s_selected s1 = s_selected s).
  { unfold s1. rewrite !seq_fst. unfold copy_activity, retarget_cache. rewrite !modify_fst.
    match goal with |- context [replace_remote_in_pairs old c ?X] => set (sx := X) end.
    assert (Ecl : s_checklist sx = s_checklist s) by (unfold sx; cbn; destruct_matches; reflexivity).
    assert (Esel : s_selected sx = s_selected s) by (unfold sx; cbn; destruct_matches; reflexivity).
    destruct (replace_kept c old orig sx) as [H2 E2]; [rewrite Ecl; exact HK| |].
    - rewrite Ecl. intros p0 po Hp0 Eh Hpo Eid.
      destruct (K2_in c orig _ p0 HK Hp0) as [po0 [Hpo0 Hk0]].
      assert (po0 = po).
      { destruct Hk0 as [Eid0 _]. clear -Hnd Hpo Hpo0 Eid Eid0. revert Hnd Hpo Hpo0.
        induction orig as [|x l IHl]; cbn; intros Hnd Hpo Hpo0; [contradiction|]. inversion Hnd as [|? ? Hx Hl]; subst.
        destruct Hpo as [<-|Hpo]; destruct Hpo0 as [<-|Hpo0]; try reflexivity.
        - exfalso. apply Hx. apply in_map_iff. exists po0. split; [congruence|exact Hpo0].
        - exfalso. apply Hx. apply in_map_iff. exists po. split; [congruence|exact Hpo].
        - apply IHl; assumption. }
      subst po0. apply kept_repl; [exact Hk0|]. intros Erem. apply (Hred po old Hpo); [left; reflexivity|]. rewrite <- Erem. exact Eh.
    - cbn [s_checklist s_selected set_s_cache]. split; [exact H2|]. rewrite E2. exact Esel. }
  destruct H1 as [H1 E1].
  destruct (IH s1 Hnd H1) as [H2 E2].
  - intros po o Hpo Ho. apply Hred; [exact Hpo|right; exact Ho].
  - split; [exact H2|congruence].
Qed.

(* pairing the new candidate with the local candidates only appends pairs *)
Lemma pairing_appends c : forall locals s,
  let s' := fst (for_each locals (fun l => with_state (find_pair l c) (fun op => match op with Some _ => nop | None => add_pair l c end)) s) in
  s_selected s' = s_selected s /\
  exists new, s_checklist s' = s_checklist s ++ new /\ Forall (fun p => exists id l ctl, p = new_pair id l c ctl) new.
Proof.
  induction locals as [|l t IH]; intros s; cbn [for_each].
  - split; [reflexivity|]. exists []. rewrite app_nil_r. split; [reflexivity|constructor].
  - rewrite seq_fst, with_state_eq. destruct (find_pair l c s) eqn:Ef.
    + exact (IH s).
    + destruct (IH (fst (add_pair l c s))) as [E1 [new [E2 HF]]]. cbv zeta. rewrite E1, E2. split; [reflexivity|].
      unfold add_pair. rewrite modify_fst. cbn [s_checklist set_s_next_pair set_s_checklist].
      exists (new_pair (s_next_pair s + 1) l c (s_ctl s) :: new). rewrite <- app_assoc. split; [reflexivity|].
      constructor; [eexists; eexists; eexists; reflexivity|exact HF].
Qed.

Lemma K2_refl c l : K2 c l l.
Proof. unfold K2. induction l; constructor; [apply kept_refl|assumption]. Qed.

Definition supersede_result (c : cand) (s s' : state) : Prop :=
  s_selected s' = s_selected s /\
  exists keptl new, s_checklist s' = keptl ++ new /\ Forall2 (kept c) (s_checklist s) keptl /\ Forall (fun p => exists id l ctl, p = new_pair id l c ctl) new.

Lemma supersede_result_same c s s' :
  s_selected s' = s_selected s -> s_checklist s' = s_checklist s -> supersede_result c s s'.
Proof.
  intros E1 E2. split; [exact E1|]. exists (s_checklist s), []. rewrite app_nil_r. split; [exact E2|]. split; [apply K2_refl|constructor].
Qed.

Lemma add_remote_body_keeps c set s :
  InvU s -> Rm s -> (forall e, In e set -> In e (s_remotes s)) ->
  supersede_result c s (fst (add_remote_body c set s)).
Proof.
  intros [Hnd _] [[Hh _] HP] Hset. unfold add_remote_body.
  set (red := if c_typ c =? CandidateTypePeerReflexive then [] else filter (fun e => (c_typ e =? CandidateTypePeerReflexive) && cand_taddr_eqb e c) set).
  cbv zeta. rewrite seq_fst, modify_fst. set (s1 := set_s_remotes _ s).
  rewrite seq_fst.
  destruct (loop_kept c (s_checklist s) red s1 Hnd (K2_refl c _)) as [H2 E2].
  { intros po old Hpo Ho Eh.
    assert (Hor : In old (s_remotes s) /\ c_typ old = CandidateTypePeerReflexive /\ cand_taddr_eqb old c = true).
    { unfold red in Ho. destruct (c_typ c =? CandidateTypePeerReflexive); [destruct Ho|]. apply filter_In in Ho. destruct Ho as [Ho1 Ho2].
      apply andb_prop in Ho2. destruct Ho2 as [Ht Ha]. apply Z.eqb_eq in Ht. split; [apply Hset; exact Ho1|split; assumption]. }
    destruct Hor as [Hor [Et Ea]].
    assert (p_rem po = old).
    { apply (unique_handle (s_remotes s)); [exact Hh| |exact Hor|exact Eh]. unfold PR in HP. rewrite Forall_forall in HP. exact (HP po Hpo). }
    subst old. split; assumption. }
  match goal with |- context [for_each red ?body s1] => set (s2 := fst (for_each red body s1)) in * end.
  rewrite seq_fst, modify_fst. set (s3 := set_s_remotes _ s2).
  assert (E3 : s_checklist s3 = s_checklist s2 /\ s_selected s3 = s_selected s2) by (split; reflexivity).
  destruct E3 as [E3c E3s].
  destruct (c_tcp c =? TCPTypePassive).
  - unfold nop. cbn [fst]. split; [rewrite E3s, E2; reflexivity|].
    exists (s_checklist s2), []. rewrite app_nil_r. split; [exact E3c|]. split; [exact H2|constructor].
  - rewrite with_state_eq.
    match goal with |- context [for_each ?locals _ s3] => destruct (pairing_appends c locals s3) as [E4 [new [E5 HF]]] end.
    cbv zeta in E4, E5. split; [rewrite E4, E3s, E2; reflexivity|].
    exists (s_checklist s2), new. rewrite E5, E3c. split; [reflexivity|]. split; [exact H2|exact HF].
Qed.

(* AddRemoteCandidate, from every state that satisfies the bookkeeping invariants (which every reachable state
   of an agent handed fresh candidate objects does: AgentC03Sel.ids_unique_and_selected_listed, AgentRem.step_Rc) *)
Theorem add_remote_keeps_pairs cfg c s :
  InvU s -> Rm s -> supersede_result c s (fst (step cfg s (AddRemote c))).
Proof.
  intros HU HR. unfold step. cbn [step_m]. rewrite with_state_eq.
  destruct (c_tcp c =? TCPTypeActive); [apply supersede_result_same; reflexivity|].
  destruct (s_closed s); [apply supersede_result_same; reflexivity|].
  unfold add_remote. rewrite with_state_eq. cbv beta iota.
  destruct (s_conn s =? ConnectionStateFailed); [apply supersede_result_same; reflexivity|].
  destruct (negb (accepts_remote cfg c)); [apply supersede_result_same; reflexivity|].
  destruct (existsb _ _); [apply supersede_result_same; reflexivity|].
  rewrite seq_fst. unfold emit. cbn [fst].
  apply add_remote_body_keeps; [exact HU|exact HR|]. intros e He. apply filter_In in He. tauto.
Qed.
