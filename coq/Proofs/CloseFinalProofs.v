(* C08, part A: Close is final in the agent core (Model/AgentCore.v), for EVERY state and EVERY
   operation sequence.

   - [closed_step]: in a closed state every operation leaves the state unchanged (Advance only
     moves the virtual clock, which is not agent state) and outputs exactly the result the real API
     reports: the closed error where the result depends on agent state, an argument-validation
     result where the argument is rejected before the state is looked at (empty credentials, an
     active-TCP remote candidate), nothing for inbound traffic and ticks, nil for a repeated Close.
     RenominateCandidate is covered since /repo commit 36290cd (it runs on the task loop).
   - [close_step]: Close from a non-closed state closes; with the lifecycle invariant
     ([Closed] is only notified by Close) it notifies Closed, as the last output before nil.
   - lifted to histories ([run_from]/[run]) by induction on the operation list. *)
From Coq Require Import ZArith Bool List Lia.
From Ice Require Import Model.AgentTypes Model.AgentCore Model.AgentMonitors Gen.Consts Proofs.AgentFrame.
Import ListNotations.
Local Open Scope Z_scope.

(* ---- what a closed agent answers ------------------------------------------------------------- *)
Definition closed_outs (o : op) : list out :=
  match o with
  | AddLocal _ => [ORet RErrClosed]
  | AddRemote c => if c_tcp c =? TCPTypeActive then [ORet RIgnored] else [ORet RErrClosed]
  | Start _ _ _ => [ORet RErrClosed]
  | SetRemoteCreds ru rp => if (ru =? 0) || (rp =? 0) then [ORet RErrEmptyCreds] else [ORet RErrClosed]
  | Advance _ | Tick | InStun _ _ _ | InData _ _ _ => []
  | Write _ | WriteToPair _ _ | Read | Restart _ _ => [ORet RErrClosed]
  | Renominate _ _ _ => [ORet RErrClosed]
  | Close => [ORet ROk]
  end.

(* the only "state" a closed agent's operation moves is the harness clock *)
Definition closed_next (o : op) (s : state) : state :=
  match o with
  | Advance d => set_s_now (s_now s + d) s
  | _ => s
  end.

Lemma closed_step cfg s o :
  s_closed s = true ->
  step cfg s o = (closed_next o s, closed_outs o).
Proof.
  intros Hc. unfold step. destruct o; cbn [step_m closed_next closed_outs].
  - unfold with_state. rewrite Hc. reflexivity.
  - unfold with_state. rewrite Hc. destruct (c_tcp c =? TCPTypeActive); reflexivity.
  - unfold do_start, with_state. rewrite Hc. reflexivity.
  - unfold do_set_remote_creds, with_state. rewrite Hc. destruct ((rufrag =? 0) || (rpwd =? 0)); reflexivity.
  - reflexivity.
  - unfold tick, with_state. rewrite Hc. reflexivity.
  - unfold with_state. rewrite Hc. reflexivity.
  - unfold with_state. rewrite Hc. reflexivity.
  - unfold conn_write, with_state. rewrite Hc. reflexivity.
  - unfold conn_write_to_pair, with_state. rewrite Hc. reflexivity.
  - unfold conn_read, with_state. rewrite Hc. reflexivity.
  - unfold do_restart, with_state. rewrite Hc. reflexivity.
  - unfold renominate_op, with_state. rewrite Hc. reflexivity.
  - unfold do_close, with_state. rewrite Hc. reflexivity.
Qed.

(* everything except the clock *)
Definition agent_view (s : state) :=
  (s_ctl s, s_conn s, s_lufrag s, s_lpwd s, s_rufrag s, s_rpwd s, s_locals s, s_remotes s, s_checklist s,
   s_next_pair s, s_pending s, s_selected s, s_nominated s, s_sel_start s, s_last_nom s, s_lastrecv s,
   s_started s, s_next_tx s, s_next_h s, s_buf s, s_bytes_sent s, s_bytes_recv s, s_tick_last s,
   s_tick_start s, s_tick_timeout s, s_cache s, s_closed s).

Lemma closed_next_view o s : agent_view (closed_next o s) = agent_view s.
Proof. destruct o; reflexivity. Qed.

Lemma closed_next_closed o s : s_closed (closed_next o s) = s_closed s.
Proof. destruct o; reflexivity. Qed.

(* outputs that are API results only *)
Definition is_ret (o : out) : Prop := match o with ORet _ => True | _ => False end.

Lemma closed_outs_rets o : Forall is_ret (closed_outs o).
Proof.
  destruct o; cbn; repeat constructor.
  - destruct (c_tcp c =? TCPTypeActive); repeat constructor.
  - destruct ((rufrag =? 0) || (rpwd =? 0)); repeat constructor.
Qed.

Lemma closed_state_is_final cfg s o :
  s_closed s = true ->
  step cfg s o = (closed_next o s, closed_outs o)
  /\ agent_view (closed_next o s) = agent_view s
  /\ Forall is_ret (closed_outs o).
Proof.
  intros Hc. split; [exact (closed_step cfg s o Hc)|].
  split; [exact (closed_next_view o s)|exact (closed_outs_rets o)].
Qed.

(* ---- no notification, no delivery, no send from a closed agent ------------------------------- *)
Definition quiet_out (o : out) : Prop := match o with ORet _ => True | _ => False end.

Lemma closed_step_quiet cfg s o :
  s_closed s = true ->
  s_closed (fst (step cfg s o)) = true /\
  Forall quiet_out (snd (step cfg s o)) /\
  agent_view (fst (step cfg s o)) = agent_view s.
Proof.
  intros Hc. rewrite (closed_step cfg s o Hc). cbn [fst snd]. split; [|split].
  - rewrite closed_next_closed. exact Hc.
  - eapply Forall_impl; [|apply closed_outs_rets]. intros a Ha. destruct a; cbn in *; auto.
  - apply closed_next_view.
Qed.

(* ---- Close ------------------------------------------------------------------------------------ *)
Definition closed_state (s : state) : state :=
  set_s_conn ConnectionStateClosed (set_s_closed true (set_s_remotes [] (set_s_locals [] s))).

Lemma close_step cfg s :
  s_closed s = false ->
  step cfg s Close =
  (closed_state s,
   if s_conn s =? ConnectionStateClosed then [ORet ROk] else [OState ConnectionStateClosed; ORet ROk]).
Proof.
  intros Hc. unfold step. cbn [step_m]. unfold do_close, with_state. rewrite Hc.
  unfold seq, modify, update_conn, emit, closed_state. cbn.
  destruct (s_conn s =? ConnectionStateClosed) eqn:E; cbn.
  - apply Z.eqb_eq in E. destruct s; cbn in *; subst; reflexivity.
  - reflexivity.
Qed.

Lemma close_step_closed cfg s : s_closed (fst (step cfg s Close)) = true.
Proof.
  destruct (s_closed s) eqn:Hc.
  - rewrite (closed_step cfg s Close Hc). exact Hc.
  - rewrite (close_step cfg s Hc). reflexivity.
Qed.

Lemma close_twice cfg s :
  let s1 := fst (step cfg s Close) in step cfg s1 Close = (s1, [ORet ROk]).
Proof.
  cbv zeta. apply (closed_step cfg _ Close (close_step_closed cfg s)).
Qed.

(* ---- the lifecycle invariant: Closed is notified / entered only by Close ---------------------- *)
Definition InvC (s : state) : Prop := s_conn s = ConnectionStateClosed -> s_closed s = true.

Definition not_closed_state (st : Z) : Prop := st <> ConnectionStateClosed.

(* conn changes only through notifications of non-Closed states, or not at all *)
Definition conn_moves : mprop.
Proof.
  refine (MProp (fun s o s' =>
            (s_conn s' = s_conn s \/ s_conn s' <> ConnectionStateClosed)
            /\ s_closed s' = s_closed s
            /\ Forall not_closed_state (outs_states o)) _ _).
  - intros s. split; [left; reflexivity|split; [reflexivity|constructor]].
  - intros s o1 s1 o2 s2 [H1 [H2 H3]] [H4 [H5 H6]]. split; [|split].
    + destruct H4 as [H4|H4]; [rewrite H4; exact H1|right; exact H4].
    + congruence.
    + unfold outs_states in *. rewrite flat_map_app. apply Forall_app; split; assumption.
Defined.

Lemma conn_moves_update_conn st : st <> ConnectionStateClosed -> sat conn_moves (update_conn st).
Proof.
  intros Hne s. unfold update_conn. cbn.
  destruct (s_conn s =? st) eqn:E; cbn.
  - split; [left; reflexivity|split; [reflexivity|constructor]].
  - split; [right|split].
    + destruct (st =? ConnectionStateFailed); cbn; exact Hne.
    + destruct (st =? ConnectionStateFailed); reflexivity.
    + constructor; [exact Hne|constructor].
Qed.

Lemma silence_state_not_closed td cur d tot :
  Gen.Lifecycle.connectionStateForDisconnection td cur d tot <> ConnectionStateClosed.
Proof.
  unfold Gen.Lifecycle.connectionStateForDisconnection. cbv zeta.
  repeat match goal with |- context [if ?c then _ else _] => destruct c end;
    vm_compute; discriminate.
Qed.

Ltac moves_tac :=
  cbn; destruct_matches;
  (split; [left; reflexivity|split; [reflexivity|repeat constructor]]).

Lemma conn_moves_step cfg o : o <> Close -> sat conn_moves (step_m cfg o).
Proof.
  intros Hne. destruct o; try congruence; sat_decompose;
    try (sat_base moves_tac);
    try (apply conn_moves_update_conn; first [ vm_compute; discriminate | apply silence_state_not_closed ]).
Qed.

Lemma InvC_init lu lp : InvC (init lu lp).
Proof. unfold InvC, init. cbn. vm_compute. discriminate. Qed.

Lemma InvC_step cfg s o : InvC s -> InvC (fst (step cfg s o)).
Proof.
  intros HI. destruct o; try (
    match goal with |- InvC (fst (step ?cfg ?s ?o)) =>
      let H := fresh in
      assert (H : o <> Close) by discriminate;
      destruct (conn_moves_step cfg o H s) as [Hm [Hcl _]]; unfold step;
      unfold InvC in *; intros Hc; destruct Hm as [Hm|Hm]; [rewrite Hcl; apply HI; congruence|contradiction]
    end).
  intros _. apply close_step_closed.
Qed.

Lemma close_notifies_closed cfg s :
  InvC s -> s_closed s = false ->
  step cfg s Close = (closed_state s, [OState ConnectionStateClosed; ORet ROk]).
Proof.
  intros HI Hc. rewrite (close_step cfg s Hc).
  destruct (Z.eqb_spec (s_conn s) ConnectionStateClosed) as [E|NE]; [|reflexivity].
  specialize (HI E). congruence.
Qed.

(* no operation other than Close ever notifies Closed (any state) *)
Lemma only_close_notifies_closed cfg s o :
  o <> Close -> ~ In ConnectionStateClosed (outs_states (snd (step cfg s o))).
Proof.
  intros Hne Hin. destruct (conn_moves_step cfg o Hne s) as [_ [_ Hf]].
  rewrite Forall_forall in Hf. apply (Hf _ Hin). reflexivity.
Qed.

(* ---- histories ---------------------------------------------------------------------------------- *)
Definition hstep (cfg : config) : state * list (list out) -> op -> state * list (list out) :=
  fun '(s, tr) o => let '(s', os) := step cfg s o in (s', tr ++ [os]).

Lemma run_from_fold cfg s ops : run_from cfg s ops = fold_left (hstep cfg) ops (s, []).
Proof. reflexivity. Qed.

Lemma run_from_cons_aux cfg ops : forall s tr0,
  fold_left (hstep cfg) ops (s, tr0) =
  (fst (run_from cfg s ops), tr0 ++ snd (run_from cfg s ops)).
Proof.
  induction ops as [|o ops IH]; intros s tr0.
  - cbn. rewrite app_nil_r. reflexivity.
  - rewrite run_from_fold. cbn [fold_left].
    change (hstep cfg (s, tr0) o) with (let '(s', os) := step cfg s o in (s', tr0 ++ [os])).
    change (hstep cfg (s, []) o) with (let '(s', os) := step cfg s o in (s', [] ++ [os])).
    destruct (step cfg s o) as [s1 os] eqn:E.
    rewrite (IH s1 (tr0 ++ [os])). rewrite (IH s1 ([] ++ [os])). cbn [fst snd].
    rewrite <- app_assoc. reflexivity.
Qed.

Lemma run_from_cons cfg s o ops :
  run_from cfg s (o :: ops) =
  (fst (run_from cfg (fst (step cfg s o)) ops),
   snd (step cfg s o) :: snd (run_from cfg (fst (step cfg s o)) ops)).
Proof.
  rewrite run_from_fold. cbn [fold_left].
  change (hstep cfg (s, []) o) with (let '(s', os) := step cfg s o in (s', [] ++ [os])).
  destruct (step cfg s o) as [s1 os] eqn:E.
  rewrite (run_from_cons_aux cfg ops s1 ([] ++ [os])). reflexivity.
Qed.

Lemma run_from_app cfg s ops1 ops2 :
  run_from cfg s (ops1 ++ ops2) =
  (fst (run_from cfg (fst (run_from cfg s ops1)) ops2),
   snd (run_from cfg s ops1) ++ snd (run_from cfg (fst (run_from cfg s ops1)) ops2)).
Proof.
  rewrite run_from_fold, fold_left_app, <- run_from_fold.
  destruct (run_from cfg s ops1) as [sp trp]. cbn [fst snd]. apply run_from_cons_aux.
Qed.

Lemma run_from_nil cfg s : run_from cfg s [] = (s, []).
Proof. reflexivity. Qed.

Lemma InvC_run_from cfg ops : forall s, InvC s -> InvC (fst (run_from cfg s ops)).
Proof.
  induction ops as [|o ops IH]; intros s HI; [exact HI|].
  rewrite run_from_cons. cbn [fst]. apply IH. apply InvC_step. exact HI.
Qed.

Lemma InvC_run cfg lu lp ops : InvC (fst (run cfg lu lp ops)).
Proof. apply InvC_run_from. apply InvC_init. Qed.

(* once closed, the whole rest of any history is quiet, the agent state is frozen and every output
   is the fixed closed answer *)
Theorem closed_forever cfg ops : forall s,
  s_closed s = true ->
  s_closed (fst (run_from cfg s ops)) = true /\
  Forall (Forall quiet_out) (snd (run_from cfg s ops)) /\
  agent_view (fst (run_from cfg s ops)) = agent_view s /\
  snd (run_from cfg s ops) = map closed_outs ops.
Proof.
  induction ops as [|o ops IH]; intros s Hc.
  - cbn. split; [exact Hc|split; [constructor|split; reflexivity]].
  - rewrite run_from_cons. cbn [fst snd].
    destruct (closed_step_quiet cfg s o Hc) as [Hc1 [Hq Hv]].
    destruct (IH _ Hc1) as [IH1 [IH2 [IH3 IH4]]].
    split; [exact IH1|split; [|split]].
    + constructor; assumption.
    + rewrite IH3. exact Hv.
    + rewrite IH4. rewrite (closed_step cfg s o Hc). reflexivity.
Qed.

(* state notifications of a history, in order *)
Definition trace_states (tr : list (list out)) : list Z := flat_map outs_states tr.

Lemma trace_states_app a b : trace_states (a ++ b) = trace_states a ++ trace_states b.
Proof. apply flat_map_app. Qed.

Lemma quiet_no_states os : Forall quiet_out os -> outs_states os = [].
Proof.
  induction os as [|a os IH]; intros H; [reflexivity|].
  inversion H as [|? ? Ha Hos]; subst. unfold outs_states in *. cbn [flat_map].
  rewrite (IH Hos). destruct a; cbn in *; try contradiction; reflexivity.
Qed.

Lemma quiet_trace_no_states tr : Forall (Forall quiet_out) tr -> trace_states tr = [].
Proof.
  induction tr as [|os tr IH]; intros H; [reflexivity|].
  inversion H as [|? ? Ha Hos]; subst. unfold trace_states in *. cbn [flat_map].
  rewrite (IH Hos), (quiet_no_states _ Ha). reflexivity.
Qed.

(* Close at any position of any history from a reachable (InvC) non-closed state: the state
   notifications of the whole history end with Closed, exactly one Closed is ever notified, and
   every later Close returns nil without effect. *)
Theorem close_is_final cfg pre post s :
  InvC s ->
  let s1 := fst (run_from cfg s pre) in
  s_closed s1 = false ->
  let r := run_from cfg s (pre ++ Close :: post) in
  s_closed (fst r) = true /\
  trace_states (snd r) = trace_states (snd (run_from cfg s pre)) ++ [ConnectionStateClosed] /\
  ~ In ConnectionStateClosed (trace_states (snd (run_from cfg s pre))).
Proof.
  intros HI s1 Hc r.
  subst r. rewrite run_from_app. fold s1. cbn [fst snd]. rewrite run_from_cons. cbn [fst snd].
  assert (HI1 : InvC s1) by (apply InvC_run_from; exact HI).
  rewrite (close_notifies_closed cfg s1 HI1 Hc). cbn [fst snd].
  destruct (closed_forever cfg post (closed_state s1) eq_refl) as [H1 [H2 _]].
  split; [exact H1|split].
  - rewrite trace_states_app. f_equal.
    change ([OState ConnectionStateClosed; ORet ROk] :: snd (run_from cfg (closed_state s1) post))
      with ([[OState ConnectionStateClosed; ORet ROk]] ++ snd (run_from cfg (closed_state s1) post)).
    rewrite trace_states_app, (quiet_trace_no_states _ H2), app_nil_r. reflexivity.
  - (* before the Close nothing notified Closed: s1 is not closed, so no Close ran successfully
       ... a Close in pre would have closed the agent for good *)
    clear H1 H2 HI1. subst s1. revert s HI Hc.
    induction pre as [|o pre IH]; intros s HI Hc; [intros []|].
    rewrite run_from_cons in *. cbn [fst snd] in *.
    unfold trace_states. cbn [flat_map]. intros Hin. apply in_app_or in Hin. destruct Hin as [Hin|Hin].
    + destruct o;
        try (match type of Hin with In _ (outs_states (snd (step _ _ ?o))) =>
               assert (Hne : o <> Close) by discriminate;
               exact (only_close_notifies_closed cfg s o Hne Hin) end).
      (* o = Close: then the agent is closed from here on, contradicting Hc *)
      pose proof (close_step_closed cfg s) as Hcl.
      destruct (closed_forever cfg pre _ Hcl) as [Hcl2 _]. congruence.
    + apply (IH (fst (step cfg s o))); [apply InvC_step; exact HI|exact Hc|exact Hin].
Qed.

Corollary close_is_final_run cfg lu lp pre post :
  let s1 := fst (run cfg lu lp pre) in
  s_closed s1 = false ->
  let r := run cfg lu lp (pre ++ Close :: post) in
  s_closed (fst r) = true /\
  trace_states (snd r) = trace_states (snd (run cfg lu lp pre)) ++ [ConnectionStateClosed] /\
  ~ In ConnectionStateClosed (trace_states (snd (run cfg lu lp pre))).
Proof. apply close_is_final. apply InvC_init. Qed.

(* after any history containing a Close, every API result that depends on agent state is the
   closed error -- stated per later operation *)
Theorem after_close_results cfg lu lp pre post o :
  In Close pre ->
  let s := fst (run cfg lu lp (pre ++ post)) in
  s_closed s = true /\ step cfg s o = (closed_next o s, closed_outs o).
Proof.
  intros Hin s.
  assert (Hc : s_closed s = true).
  { subst s. unfold run.
    assert (G : forall ops s0, (s_closed s0 = true \/ In Close ops) -> s_closed (fst (run_from cfg s0 ops)) = true).
    { induction ops as [|x ops IH]; intros s0 [H|H]; try (cbn; auto; fail); try contradiction.
      - destruct (closed_forever cfg (x :: ops) s0 H) as [G _]. exact G.
      - rewrite run_from_cons. cbn [fst]. destruct H as [H|H].
        + subst x. destruct (closed_forever cfg ops _ (close_step_closed cfg s0)) as [G _]. exact G.
        + apply IH. right. exact H. }
    apply G. right. apply in_or_app. left. exact Hin. }
  split; [exact Hc|apply closed_step; assumption].
Qed.

(* non-vacuity: a concrete history *)
Definition demo_cfg : config :=
  mkConfig false 1 7 5000000000 false 25000000000 2000000000 0 0 0 0 [] true false 1.
Definition demo_cL : cand := mkCand 1 CandidateTypeHost 1 (mkAddr false 3232235777 5000) 0 2130706431 1 None.
Definition demo_cR : cand := mkCand 2 CandidateTypeHost 1 (mkAddr false 3232235778 6000) 0 2130706431 1 None.
