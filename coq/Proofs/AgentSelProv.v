(* C03: where a selection comes from.  While the agent handles a success response, the selection can only move to a
   pair for which that response is transaction-matched and symmetric AND either answers a request that carried
   USE-CANDIDATE or finds a deferred nomination on the pair; while it handles a Binding request, only if the request
   is authentic and carries USE-CANDIDATE or a nomination value, and only to the pair of the receiving candidate and
   the request's source; no other operation ever selects a pair. *)
From Coq Require Import ZArith Bool List Lia.
From Ice Require Import Model.AgentTypes Model.AgentCore Gen.Consts Gen.Lifecycle Proofs.AgentFrame Proofs.AgentC02 Proofs.AgentC03Sel
  Proofs.TwoAgentsProofs Proofs.AgentC06 Proofs.AgentRem Proofs.AgentSupersede Proofs.AgentEnds.
Import ListNotations.
Local Open Scope Z_scope.

(* ---- the step relation ----------------------------------------------------------------------------------- *)
Definition sel_rel (C : Z -> Prop) (s s' : state) : Prop :=
  s_selected s' = s_selected s \/ s_selected s' = None \/ exists id, s_selected s' = Some id /\ C id.

Definition sel_prov (C : Z -> Prop) : mprop.
Proof.
  refine (MProp (fun s _ s' => sel_rel C s s') _ _).
  - intros s. left. reflexivity.
  - intros s o1 s1 o2 s2 H1 H2. unfold sel_rel in *.
    destruct H2 as [E|[E|[id [E HC]]]].
    + rewrite E. exact H1.
    + right. left. exact E.
    + right. right. exists id. auto.
Defined.

Lemma sel_same C s s' : s_selected s' = s_selected s -> sel_rel C s s'.
Proof. intros E. left. exact E. Qed.

Lemma sel_update_conn C st : sat (sel_prov C) (update_conn st).
Proof.
  intros s. cbn. unfold update_conn. destruct (s_conn s =? st); cbn; [left; reflexivity|].
  destruct (st =? ConnectionStateFailed); cbn; [right; left; reflexivity|left; reflexivity].
Qed.

(* ---- success responses ------------------------------------------------------------------------------------- *)
Definition keepR (p0 p : pair) : Prop :=
  p_id p = p_id p0 /\ p_loc p = p_loc p0 /\ p_rem p = p_rem p0 /\ (p_nom_on_succ p = true -> p_nom_on_succ p0 = true).

Definition creds (s : state) := (s_lufrag s, s_lpwd s, s_rufrag s, s_rpwd s).

Definition GS (s0 s : state) : Prop :=
  creds s = creds s0 /\ s_remotes s = s_remotes s0 /\ incl (s_pending s) (s_pending s0) /\
  Forall2 keepR (s_checklist s0) (s_checklist s).

Lemma keepR_refl p : keepR p p.
Proof. unfold keepR. auto. Qed.

Lemma GS_refl s : GS s s.
Proof.
  unfold GS. repeat split; try apply incl_refl. induction (s_checklist s); constructor; [apply keepR_refl|assumption].
Qed.

Lemma GS_view s0 s s' :
  creds s' = creds s -> s_remotes s' = s_remotes s -> s_pending s' = s_pending s -> s_checklist s' = s_checklist s ->
  GS s0 s -> GS s0 s'.
Proof. unfold GS. intros E1 E2 E3 E4. rewrite E1, E2, E3, E4. auto. Qed.

Lemma GS_pending s0 s s' :
  creds s' = creds s -> s_remotes s' = s_remotes s -> s_checklist s' = s_checklist s -> incl (s_pending s') (s_pending s) ->
  GS s0 s -> GS s0 s'.
Proof.
  unfold GS. intros E1 E2 E3 Hi [A [B [C D]]]. rewrite E1, E2, E3. repeat split; auto.
  intros q Hq. apply C. apply Hi. exact Hq.
Qed.

Lemma GS_upd s0 id f s :
  (forall q, p_id (f q) = p_id q /\ p_loc (f q) = p_loc q /\ p_rem (f q) = p_rem q /\ (p_nom_on_succ (f q) = true -> p_nom_on_succ q = true)) ->
  GS s0 s -> GS s0 (upd id f s).
Proof.
  intros Hf [A [B [C D]]]. unfold GS, upd. cbn [s_checklist set_s_checklist]. repeat split; auto.
  clear -Hf D. induction D as [|p0 p l0 l Hk HF IH]; cbn; constructor; [|exact IH].
  destruct (p_id p =? id); [|exact Hk]. destruct (Hf p) as [E1 [E2 [E3 E4]]]. destruct Hk as [K1 [K2 [K3 K4]]].
  unfold keepR. rewrite E1, E2, E3. repeat split; auto.
Qed.

Lemma find_pair_GS s0 s l r p :
  GS s0 s -> find_pair l r s = Some p -> exists p0, find_pair l r s0 = Some p0 /\ keepR p0 p.
Proof.
  intros [_ [_ [_ D]]]. unfold find_pair. induction D as [|p0 p1 l0 l1 Hk HF IH]; cbn; [discriminate|].
  destruct Hk as [K1 [K2 [K3 K4]]]. rewrite K2, K3.
  destruct (cand_equal (p_loc p0) l && cand_equal (p_rem p0) r).
  - intros E. injection E as <-. exists p0. split; [reflexivity|]. unfold keepR. auto.
  - exact IH.
Qed.

Lemma pair_by_id_GS s0 s id p :
  GS s0 s -> pair_by_id id s = Some p -> exists p0, In p0 (s_checklist s0) /\ keepR p0 p.
Proof.
  intros [_ [_ [_ D]]] H. apply pair_by_id_in in H. destruct H as [Hin _].
  clear -D Hin. induction D as [|p0 p1 l0 l1 Hk HF IH]; cbn in *; [contradiction|].
  destruct Hin as [<-|Hin]; [exists p0; auto|]. destruct (IH Hin) as [q [H1 H2]]. exists q. auto.
Qed.

Lemma take_pending_in tx l q rest : take_pending tx l = Some (q, rest) -> In q l /\ q_tx q = tx /\ incl rest l.
Proof.
  revert q rest. induction l as [|x t IH]; cbn; intros q rest H; [discriminate|].
  destruct (q_tx x =? tx) eqn:E.
  - injection H as <- <-. apply Z.eqb_eq in E. split; [left; reflexivity|]. split; [exact E|]. intros y Hy. right. exact Hy.
  - destruct (take_pending tx t) as [[f r]|] eqn:Et; [|discriminate]. injection H as <- <-.
    destruct (IH f r eq_refl) as [H1 [H2 H3]]. split; [right; exact H1|]. split; [exact H2|].
    intros y [<-|Hy]; [left; reflexivity|right; apply H3; exact Hy].
Qed.

(* what licenses a selection while a success response from [src] on local candidate [l] is handled *)
Definition C_succ (s0 : state) (l : cand) (src : addr) (m : msg) (id : Z) : Prop :=
  exists q p0 r, In q (s_pending s0) /\ q_tx q = m_tx m /\ response_symmetric q l src = true /\
                 find_pair l r s0 = Some p0 /\ p_id p0 = id /\ (q_use q = true \/ p_nom_on_succ p0 = true).

Lemma GS_update_conn_live s0 C st : st <> ConnectionStateFailed -> satG (GS s0) (sel_prov C) (update_conn st).
Proof.
  intros Hst s Hg. split; [exact (sel_update_conn C st s)|].
  unfold update_conn. destruct (s_conn s =? st); [exact Hg|]. apply Z.eqb_neq in Hst. rewrite Hst. cbn [fst].
  eapply GS_view; [| | | |exact Hg]; reflexivity.
Qed.

Ltac gs_G :=
  first [ eapply GS_view; [| | | |eassumption]; cbn; destruct_matches; reflexivity
        | apply GS_upd; [intros ?q; cbn; repeat split; auto; intros; discriminate|assumption] ].

Ltac gs_leaf :=
  match goal with
  | |- satG (GS _) (sel_prov _) (update_conn _) => apply GS_update_conn_live; discriminate
  | |- satG (GS _) (sel_prov _) (emit _) => apply satG_emit; intros ?s ?Hg; cbn; left; reflexivity
  | |- satG (GS _) (sel_prov _) (upd_pair _ _) =>
    apply satG_upd_pair; intros ?s ?Hg; cbn zeta; split; [cbn; left; reflexivity|];
    apply GS_upd; [intros ?q; cbn; repeat split; auto; intros; discriminate|assumption]
  | |- satG (GS _) (sel_prov _) (modify _) =>
    apply satG_modify; intros ?s ?Hg; split; [cbn; left; destruct_matches; reflexivity|gs_G]
  end.

Lemma succ_ctl s0 cfg m l r src :
  satG (GS s0) (sel_prov (C_succ s0 l src m)) (handle_success_controlling cfg m l r src).
Proof.
  unfold handle_success_controlling, invalidate_pending, set_selected. satG_split_eq.
  all: try gs_leaf.
  1: { apply satG_modify. intros s Hg. split; [cbn; left; reflexivity|].
    apply (GS_pending s0 s); [reflexivity|reflexivity|reflexivity| |exact Hg]. cbn. apply incl_filter. }
  1: { apply satG_modify. intros s Hg. split; [cbn; left; reflexivity|].
    destruct (take_pending_in _ _ _ _ Heqo) as [_ [_ Hsub]]. destruct Hg as [A [B [C D]]]. destruct Hg0 as [_ [_ [C1 _]]].
    unfold GS. cbn. repeat split; auto. intros q Hq. apply C1. apply Hsub. exact Hq. }
  all: apply satG_modify; intros s Hg; (split; [|apply (GS_view s0 s); [reflexivity|reflexivity|reflexivity|reflexivity|exact Hg]]).
  all: cbn; right; right; exists (p_id p1); (split; [reflexivity|]).
  all: destruct (take_pending_in _ _ _ _ Heqo) as [Hin [Etx _]]; destruct (find_pair_GS _ _ _ _ _ Hg1 Heqo0) as [pp [Hfp [Eid _]]].
  all: exists p0, pp, r.
  all: split; [destruct Hg0 as [_ [_ [C1 _]]]; apply C1; exact Hin|].
  all: split; [exact Etx|]. all: split; [apply negb_false_iff in Heqb; exact Heqb|].
  all: split; [exact Hfp|]. all: split; [symmetry; exact Eid|]. all: left; exact Heqb0.
Qed.

Lemma succ_cld s0 cfg m l r src :
  satG (GS s0) (sel_prov (C_succ s0 l src m)) (handle_success_controlled cfg m l r src).
Proof.
  unfold handle_success_controlled, invalidate_pending, set_selected. satG_split_eq.
  all: try gs_leaf.
  1: { apply satG_modify. intros s Hg. split; [cbn; left; reflexivity|].
    apply (GS_pending s0 s); [reflexivity|reflexivity|reflexivity| |exact Hg]. cbn. apply incl_filter. }
  1: { apply satG_modify. intros s Hg. split; [cbn; left; reflexivity|].
    destruct (take_pending_in _ _ _ _ Heqo) as [_ [_ Hsub]]. destruct Hg as [A [B [C D]]]. destruct Hg0 as [_ [_ [C1 _]]].
    unfold GS. cbn. repeat split; auto. intros q Hq. apply C1. apply Hsub. exact Hq. }
  all: apply satG_modify; intros s Hg; (split; [|apply (GS_view s0 s); [reflexivity|reflexivity|reflexivity|reflexivity|exact Hg]]).
  all: cbn; right; right; exists (p_id p2); (split; [reflexivity|]).
  all: destruct (take_pending_in _ _ _ _ Heqo) as [Hin [Etx _]]; destruct (find_pair_GS _ _ _ _ _ Hg1 Heqo0) as [pp [Hfp [Eid [_ [_ Hn]]]]].
  all: apply pair_by_id_in in Heqo1; destruct Heqo1 as [_ Eid2].
  all: exists p0, pp, r.
  all: split; [destruct Hg0 as [_ [_ [C1 _]]]; apply C1; exact Hin|].
  all: split; [exact Etx|]. all: split; [apply negb_false_iff in Heqb; exact Heqb|].
  all: split; [exact Hfp|]. all: split; [congruence|]. all: right; apply Hn; exact Heqb0.
Qed.

(* ---- Binding requests ---------------------------------------------------------------------------------------- *)
(* what licenses a selection while a Binding request from [src] on local candidate [l] is handled *)
Definition C_req (l : cand) (src : addr) (m : msg) (id : Z) : Prop :=
  (m_use m = true \/ m_nom m <> None) /\
  exists p r, p_id p = id /\ cand_equal (p_loc p) l = true /\ cand_equal (p_rem p) r = true /\ addr_eqb (c_addr r) src = true.


Lemma sel_weaken (C C' : Z -> Prop) s s' : (forall id, C id -> C' id) -> sel_rel C s s' -> sel_rel C' s s'.
Proof. intros H [E|[E|[id [E HC]]]]; [left; exact E|right; left; exact E|right; right; exists id; auto]. Qed.

Create HintDb agentcore_sp.
#[export] Hint Unfold seen fresh_tx invalidate_pending send_binding_request ping_candidate
  nominate_pair send_binding_success add_pair retarget_cache copy_activity
  set_selector handle_request_controlling accept_nomination handle_request_controlled handle_role_conflict
  set_selected dispatch_request : agentcore_sp.

Ltac sp_leaf :=
  match goal with
  | |- sat (sel_prov _) (update_conn _) => apply sel_update_conn
  | |- sat (sel_prov _) (emit _) => apply sat_emit; intros ?s; cbn; left; reflexivity
  | |- sat (sel_prov _) (upd_pair _ _) => apply sat_upd_pair; intros ?s; cbn; left; reflexivity
  | |- sat (sel_prov _) (modify _) => apply sat_modify; intros ?s; cbn; left; destruct_matches; reflexivity
  end.

Lemma find_pair_equal l r s p : find_pair l r s = Some p -> cand_equal (p_loc p) l = true /\ cand_equal (p_rem p) r = true.
Proof. unfold find_pair. intros H. apply find_some in H. destruct H as [_ H]. apply andb_prop in H. exact H. Qed.

(* the request handlers of both roles, for a remote candidate whose address is the request's source *)
Lemma req_dispatch cfg m l rc src :
  addr_eqb (c_addr rc) src = true -> sat (sel_prov (C_req l src m)) (dispatch_request cfg m l rc).
Proof.
  intros Ha. autounfold with agentcore_sp. sat_split_eq.
  all: try sp_leaf.
  all: apply sat_modify; intros s; cbn; right; right; exists (p_id p); (split; [reflexivity|]).
  all: destruct (find_pair_equal _ _ _ _ Heqo) as [El Er].
  all: split; [|exists p, rc; repeat split; assumption].
  all: first [ right; congruence
             | destruct (m_use m); [left; reflexivity|]; cbn in *; first [discriminate | right; congruence] ].
Qed.

Lemma req_role_conflict C cfg m l rc tb : sat (sel_prov C) (handle_role_conflict cfg m l rc tb).
Proof. autounfold with agentcore_sp. sat_split_eq. all: sp_leaf. Qed.

(* learning a peer-reflexive candidate: nothing is superseded, nothing selected *)
Lemma sp_add_remote_prflx C cfg c k :
  c_typ c = CandidateTypePeerReflexive -> (forall ok, sat (sel_prov C) (k ok)) -> sat (sel_prov C) (add_remote cfg c k).
Proof.
  intros Hc Hk. unfold add_remote, add_remote_body. rewrite Hc. change (CandidateTypePeerReflexive =? CandidateTypePeerReflexive) with true.
  cbv iota. cbn [for_each]. unfold add_pair. sat_split; try apply Hk; try sp_leaf.
Qed.


(* ---- handleInbound ------------------------------------------------------------------------------------------- *)
Definition C_in (s0 : state) (l : cand) (src : addr) (m : msg) (id : Z) : Prop :=
  (m_class m = 2 /\ response_authentic s0 m = true /\ C_succ s0 l src m id) \/
  (m_class m = 0 /\ request_authentic s0 m = true /\ C_req l src m id).

Lemma seen_GS s0 C h : satG (GS s0) (sel_prov C) (seen h).
Proof. unfold seen. gs_leaf. Qed.

Lemma continue_req cfg m l rc src (k : option cand -> M) :
  addr_eqb (c_addr rc) src = true -> (forall x, sat (sel_prov (C_req l src m)) (k x)) ->
  sat (sel_prov (C_req l src m))
    (with_state s_ctl (fun ctl =>
        match m_ctl m with
        | Some (their_ctl, tb) =>
          if Bool.eqb their_ctl ctl then handle_role_conflict cfg m l rc tb ;; k None
          else dispatch_request cfg m l rc ;; k (Some rc)
        | None => dispatch_request cfg m l rc ;; k (Some rc)
        end)).
Proof.
  intros Ha Hk. sat_split; try apply Hk; try apply req_role_conflict; try (apply req_dispatch; exact Ha).
Qed.

Lemma seen_sp C h : sat (sel_prov C) (seen h).
Proof. unfold seen. sp_leaf. Qed.

Theorem handle_inbound_selection cfg l src m s0 :
  sel_rel (C_in s0 l src m) s0 (fst (handle_inbound cfg l src m s0)).
Proof.
  unfold handle_inbound. destruct (negb (canHandleInbound (m_method m) (m_class m))); [left; reflexivity|].
  rewrite with_state_eq. cbv beta iota.
  destruct (m_class m =? 2) eqn:E2.
  { (* success response *)
    apply Z.eqb_eq in E2.
    destruct (negb match m_key m with Some kx => kx =? s_rpwd s0 | None => false end) eqn:Ek; [left; reflexivity|].
    destruct (find_remote (c_net l) src s0) as [rc|] eqn:Er; [|left; reflexivity].
    apply (sel_weaken (C_succ s0 l src m)).
    - intros id H. left. split; [exact E2|]. split; [|exact H]. unfold response_authentic. apply negb_false_iff in Ek. exact Ek.
    - assert (H : satG (GS s0) (sel_prov (C_succ s0 l src m)) (dispatch_success cfg m l rc src ;; seen (c_h rc))).
      { apply satG_seq; [|apply seen_GS]. unfold dispatch_success. apply satG_with_state. intros s1 _.
        destruct (s_ctl s1); [apply succ_ctl|apply succ_cld]. }
      exact (proj1 (H s0 (GS_refl s0))). }
  destruct (m_class m =? 0) eqn:E0.
  2: { (* indication *)
    assert (H : sat (sel_prov (C_in s0 l src m)) (match find_remote (c_net l) src s0 with Some rc => seen (c_h rc) | None => nop end)).
    { destruct (find_remote (c_net l) src s0); [apply seen_sp|apply sat_nop]. }
    exact (H s0). }
  (* Binding request *)
  apply Z.eqb_eq in E0.
  unfold handle_inbound_request. rewrite with_state_eq. cbv beta iota zeta.
  destruct (negb match m_user m with Some (a, b) => (a =? s_lufrag s0) && (b =? s_rufrag s0) | None => false end) eqn:Eu; [left; reflexivity|].
  destruct (negb match m_key m with Some kx => kx =? s_lpwd s0 | None => false end) eqn:Ek; [left; reflexivity|].
  apply (sel_weaken (C_req l src m)).
  { intros id H. right. split; [exact E0|]. split; [|exact H]. unfold request_authentic.
    apply negb_false_iff in Eu. apply negb_false_iff in Ek. rewrite Eu, Ek. reflexivity. }
  assert (Hk : forall x : option cand, sat (sel_prov (C_req l src m)) (match x with Some rc => seen (c_h rc) | None => nop end)).
  { intros [rc|]; [apply seen_sp|apply sat_nop]. }
  destruct (find_remote (c_net l) src s0) as [rc|] eqn:Er.
  - exact (continue_req cfg m l rc src _ (find_remote_addr _ _ _ _ Er) Hk s0).
  - match goal with |- sel_rel _ s0 (fst (?f s0)) => assert (H : sat (sel_prov (C_req l src m)) f); [|exact (H s0)] end.
    apply sat_with_state. intros h. apply sat_seq; [sp_leaf|].
    apply sp_add_remote_prflx; [reflexivity|]. intros ok. destruct ok; [|apply (Hk None)].
    apply (continue_req cfg m l _ src (fun x => match x with Some rc => seen (c_h rc) | None => nop end)); [cbn; apply addr_eqb_refl|exact Hk].
Qed.

(* ---- every operation ----------------------------------------------------------------------------------------- *)
Lemma sel_reselect C pid : sat (sel_prov C) (reselect pid).
Proof.
  intros s. cbn. left. unfold reselect. rewrite with_state_eq. destruct (s_selected s) as [id|] eqn:Es; [|exact Es].
  destruct (id =? pid) eqn:E; [|exact Es]. unfold set_selected. rewrite !seq_fst, upd_pair_fst, modify_fst. unfold emit. cbn [fst].
  unfold update_conn. cbn. destruct (s_conn s =? ConnectionStateConnected); cbn; reflexivity.
Qed.

Create HintDb agentcore_sq.
#[export] Hint Unfold seen fresh_tx invalidate_pending send_binding_request ping_candidate
  nominate_pair send_binding_success add_pair replace_remote_in_pairs retarget_cache copy_activity
  add_remote_body add_remote add_local set_selector ping_all check_keepalive contact_controlling
  contact_controlled contact_candidates tick accept_data inbound_data do_write conn_write
  conn_write_to_pair conn_read do_start do_set_remote_creds do_restart do_renominate renominate_op do_close step_m
  validate_selected : agentcore_sq.

Ltac sq_leaf :=
  match goal with
  | |- sat (sel_prov _) (update_conn _) => apply sel_update_conn
  | |- sat (sel_prov _) (reselect _) => apply sel_reselect
  | |- sat (sel_prov _) (emit _) => apply sat_emit; intros ?s; cbn; left; reflexivity
  | |- sat (sel_prov _) (upd_pair _ _) => apply sat_upd_pair; intros ?s; cbn; left; reflexivity
  | |- sat (sel_prov _) (modify _) =>
    apply sat_modify; intros ?s; cbn;
    first [ left; destruct_matches; reflexivity | right; left; destruct_matches; reflexivity ]
  end.

Lemma other_ops_never_select cfg o :
  (match o with InStun _ _ _ => False | _ => True end) -> sat (sel_prov (fun _ => False)) (step_m cfg o).
Proof.
  intros Ho. destruct o; try contradiction; cbn [step_m]; autounfold with agentcore_sq; sat_split; try sq_leaf.
Qed.

(* what licenses a change of the selection to [Some id] by one operation from state [s] *)
Definition C_step (s : state) (o : op) (id : Z) : Prop :=
  match o with
  | InStun lh src m => s_closed s = false /\ exists l, find_local lh s = Some l /\ C_in s l src m id
  | _ => False
  end.

(* C03: after any operation the selection is what it was, or empty, or a pair licensed by the STUN message the
   operation delivered *)
Theorem step_selection cfg s o : sel_rel (C_step s o) s (fst (step cfg s o)).
Proof.
  destruct (match o with InStun _ _ _ => true | _ => false end) eqn:Ei.
  - destruct o; try discriminate Ei. unfold step. cbn [step_m]. rewrite with_state_eq.
    destruct (s_closed s) eqn:Ec; [left; reflexivity|]. destruct (find_local lh s) as [l|] eqn:El; [|left; reflexivity].
    apply (sel_weaken (C_in s l src m)); [|apply handle_inbound_selection].
    intros id H. cbn. split; [exact Ec|]. exists l. split; [exact El|exact H].
  - apply (sel_weaken (fun _ => False)); [intros id []|].
    unfold step. apply (other_ops_never_select cfg o). destruct o; try exact I. discriminate Ei.
Qed.

(* ---- where a deferred nomination comes from ------------------------------------------------------------------ *)
Definition flag_rel (C : Z -> Prop) (s s' : state) : Prop :=
  forall p', In p' (s_checklist s') -> p_nom_on_succ p' = true ->
    (exists p, In p (s_checklist s) /\ p_id p = p_id p' /\ p_nom_on_succ p = true) \/ C (p_id p').

Definition flag_prov (C : Z -> Prop) : mprop.
Proof.
  refine (MProp (fun s _ s' => flag_rel C s s') _ _).
  - intros s p' Hp Hf. left. exists p'. auto.
  - intros s o1 s1 o2 s2 H1 H2 p'' Hp Hf.
    destruct (H2 p'' Hp Hf) as [[p' [Hp' [E' F']]]|HC]; [|right; exact HC].
    destruct (H1 p' Hp' F') as [[p [Hp0 [E0 F0]]]|HC]; [left; exists p; repeat split; auto; congruence|right; rewrite <- E'; exact HC].
Defined.

Lemma fl_same C s s' : s_checklist s' = s_checklist s -> flag_rel C s s'.
Proof. intros E p' Hp Hf. rewrite E in Hp. left. exists p'. auto. Qed.
Lemma fl_empty C s s' : s_checklist s' = [] -> flag_rel C s s'.
Proof. intros E p' Hp. rewrite E in Hp. destruct Hp. Qed.
Lemma fl_upd C id f s :
  (forall q, p_id (f q) = p_id q /\ (p_nom_on_succ (f q) = true -> p_nom_on_succ q = true)) -> flag_rel C s (upd id f s).
Proof.
  intros Hf p' Hp Hfl. unfold upd in Hp. cbn [s_checklist set_s_checklist] in Hp. apply in_map_iff in Hp. destruct Hp as [q [E Hq]].
  left. exists q. split; [exact Hq|]. destruct (p_id q =? id); subst p'; [|auto]. destruct (Hf q) as [A B]. auto.
Qed.
Lemma fl_upd_raise (C : Z -> Prop) id f s : (forall q, p_id (f q) = p_id q) -> C id -> flag_rel C s (upd id f s).
Proof.
  intros Hf HC p' Hp Hfl. unfold upd in Hp. cbn [s_checklist set_s_checklist] in Hp. apply in_map_iff in Hp. destruct Hp as [q [E Hq]].
  destruct (p_id q =? id) eqn:Ei; subst p'; [|left; exists q; auto].
  right. rewrite Hf. apply Z.eqb_eq in Ei. rewrite Ei. exact HC.
Qed.
Lemma fl_add_pair C l r : sat (flag_prov C) (add_pair l r).
Proof.
  intros s. cbn. intros p' Hp Hfl. apply in_app_iff in Hp. destruct Hp as [Hp|[<-|[]]]; [left; exists p'; auto|].
  cbn in Hfl. discriminate Hfl.
Qed.
Lemma fl_update_conn C st : sat (flag_prov C) (update_conn st).
Proof.
  intros s. cbn. unfold update_conn. destruct (s_conn s =? st); cbn; [apply fl_same; reflexivity|].
  destruct (st =? ConnectionStateFailed); cbn; [apply fl_empty; reflexivity|apply fl_same; reflexivity].
Qed.

Ltac fl_leaf :=
  match goal with
  | |- sat (flag_prov _) (update_conn _) => apply fl_update_conn
  | |- sat (flag_prov _) (add_pair _ _) => apply fl_add_pair
  | |- sat (flag_prov _) (emit _) => apply sat_emit; intros ?s; cbn; apply fl_same; reflexivity
  | |- sat (flag_prov _) (upd_pair _ _) =>
    apply sat_upd_pair; intros ?s; cbn; apply (fl_upd _ _ _ s); intros ?q; cbn; split; [reflexivity|intros ?H; first [exact H|discriminate H]]
  | |- sat (flag_prov _) (modify _) =>
    apply sat_modify; intros ?s; cbn;
    first [ apply fl_same; cbn; destruct_matches; reflexivity | apply fl_empty; cbn; destruct_matches; reflexivity ]
  end.

Create HintDb agentcore_fl.
#[export] Hint Unfold seen fresh_tx invalidate_pending send_binding_request ping_candidate
  nominate_pair send_binding_success retarget_cache copy_activity
  set_selector handle_request_controlling handle_success_controlling handle_success_controlled
  accept_nomination handle_request_controlled handle_role_conflict
  set_selected dispatch_request dispatch_success : agentcore_fl.

Lemma fl_req_dispatch cfg m l rc src :
  addr_eqb (c_addr rc) src = true -> sat (flag_prov (C_req l src m)) (dispatch_request cfg m l rc).
Proof.
  intros Ha. autounfold with agentcore_fl. sat_split_eq.
  all: try fl_leaf.
  all: apply sat_upd_pair; intros s; cbn; apply (fl_upd_raise _ _ _ s); [intros q; reflexivity|].
  all: destruct (find_pair_equal _ _ _ _ Heqo) as [El Er].
  all: split; [|exists p, rc; repeat split; assumption].
  all: first [ right; congruence
             | destruct (m_use m); [left; reflexivity|]; cbn in *; first [discriminate | right; congruence] ].
Qed.

Lemma fl_role_conflict C cfg m l rc tb : sat (flag_prov C) (handle_role_conflict cfg m l rc tb).
Proof. autounfold with agentcore_fl. sat_split_eq. all: fl_leaf. Qed.

Lemma fl_dispatch_success C cfg m l rc src : sat (flag_prov C) (dispatch_success cfg m l rc src).
Proof. autounfold with agentcore_fl. sat_split_eq. all: fl_leaf. Qed.

Lemma fl_add_remote_prflx C cfg c k :
  c_typ c = CandidateTypePeerReflexive -> (forall ok, sat (flag_prov C) (k ok)) -> sat (flag_prov C) (add_remote cfg c k).
Proof.
  intros Hc Hk. unfold add_remote, add_remote_body. rewrite Hc. change (CandidateTypePeerReflexive =? CandidateTypePeerReflexive) with true.
  cbv iota. cbn [for_each]. sat_split; try apply Hk; try fl_leaf.
Qed.

Lemma fl_seen C h : sat (flag_prov C) (seen h).
Proof. unfold seen. fl_leaf. Qed.

Lemma fl_continue_req cfg m l rc src (k : option cand -> M) :
  addr_eqb (c_addr rc) src = true -> (forall x, sat (flag_prov (C_req l src m)) (k x)) ->
  sat (flag_prov (C_req l src m))
    (with_state s_ctl (fun ctl =>
        match m_ctl m with
        | Some (their_ctl, tb) =>
          if Bool.eqb their_ctl ctl then handle_role_conflict cfg m l rc tb ;; k None
          else dispatch_request cfg m l rc ;; k (Some rc)
        | None => dispatch_request cfg m l rc ;; k (Some rc)
        end)).
Proof.
  intros Ha Hk. sat_split; try apply Hk; try apply fl_role_conflict; try (apply fl_req_dispatch; exact Ha).
Qed.

Definition C_flag (s0 : state) (l : cand) (src : addr) (m : msg) (id : Z) : Prop :=
  m_class m = 0 /\ request_authentic s0 m = true /\ C_req l src m id.

Theorem handle_inbound_deferred_flag cfg l src m s0 :
  flag_rel (C_flag s0 l src m) s0 (fst (handle_inbound cfg l src m s0)).
Proof.
  assert (Hw : forall (C C' : Z -> Prop) s s', (forall id, C id -> C' id) -> flag_rel C s s' -> flag_rel C' s s').
  { intros C C' s s' H HR p' Hp Hf. destruct (HR p' Hp Hf) as [HL|HC]; [left; exact HL|right; apply H; exact HC]. }
  unfold handle_inbound. destruct (negb (canHandleInbound (m_method m) (m_class m))); [apply fl_same; reflexivity|].
  rewrite with_state_eq. cbv beta iota.
  destruct (m_class m =? 2) eqn:E2.
  { match goal with |- flag_rel _ s0 (fst (?f s0)) => assert (H : sat (flag_prov (C_flag s0 l src m)) f); [|exact (H s0)] end.
    sat_split; try apply fl_dispatch_success; try apply fl_seen. }
  destruct (m_class m =? 0) eqn:E0.
  2: { match goal with |- flag_rel _ s0 (fst (?f s0)) => assert (H : sat (flag_prov (C_flag s0 l src m)) f); [|exact (H s0)] end.
       sat_split; try apply fl_seen. }
  apply Z.eqb_eq in E0.
  unfold handle_inbound_request. rewrite with_state_eq. cbv beta iota zeta.
  destruct (negb match m_user m with Some (a, b) => (a =? s_lufrag s0) && (b =? s_rufrag s0) | None => false end) eqn:Eu; [apply fl_same; reflexivity|].
  destruct (negb match m_key m with Some kx => kx =? s_lpwd s0 | None => false end) eqn:Ek; [apply fl_same; reflexivity|].
  apply (Hw (C_req l src m)).
  { intros id H. split; [exact E0|]. split; [|exact H]. unfold request_authentic.
    apply negb_false_iff in Eu. apply negb_false_iff in Ek. rewrite Eu, Ek. reflexivity. }
  assert (Hk : forall x : option cand, sat (flag_prov (C_req l src m)) (match x with Some rc => seen (c_h rc) | None => nop end)).
  { intros [rc|]; [apply fl_seen|apply sat_nop]. }
  destruct (find_remote (c_net l) src s0) as [rc|] eqn:Er.
  - exact (fl_continue_req cfg m l rc src _ (find_remote_addr _ _ _ _ Er) Hk s0).
  - match goal with |- flag_rel _ s0 (fst (?f s0)) => assert (H : sat (flag_prov (C_req l src m)) f); [|exact (H s0)] end.
    apply sat_with_state. intros h. apply sat_seq; [fl_leaf|].
    apply fl_add_remote_prflx; [reflexivity|]. intros ok. destruct ok; [|apply (Hk None)].
    apply (fl_continue_req cfg m l _ src (fun x => match x with Some rc => seen (c_h rc) | None => nop end)); [cbn; apply addr_eqb_refl|exact Hk].
Qed.


(* no other operation sets the flag *)
Create HintDb agentcore_fq.
#[export] Hint Unfold seen fresh_tx invalidate_pending send_binding_request ping_candidate
  nominate_pair send_binding_success retarget_cache copy_activity
  add_local set_selector ping_all check_keepalive contact_controlling
  contact_controlled contact_candidates tick accept_data inbound_data do_write conn_write
  conn_write_to_pair conn_read do_start do_set_remote_creds do_restart do_renominate renominate_op do_close step_m
  validate_selected set_selected reselect : agentcore_fq.

Lemma other_ops_never_defer cfg o :
  (match o with InStun _ _ _ | AddRemote _ => False | _ => True end) -> sat (flag_prov (fun _ => False)) (step_m cfg o).
Proof.
  intros Ho. destruct o; try contradiction; cbn [step_m]; autounfold with agentcore_fq; sat_split; try fl_leaf.
Qed.

Definition C_step_flag (s : state) (o : op) (id : Z) : Prop :=
  match o with
  | InStun lh src m => s_closed s = false /\ exists l, find_local lh s = Some l /\ C_flag s l src m id
  | _ => False
  end.

(* C03: a pair carries a deferred nomination after an operation only if it carried one before, or the operation
   delivered an authentic Binding request with USE-CANDIDATE / a nomination value on that very pair *)
Theorem step_deferred_flag cfg s o :
  InvU s -> (match o with AddRemote _ => Rm s | _ => True end) ->
  flag_rel (C_step_flag s o) s (fst (step cfg s o)).
Proof.
  intros HU HR.
  assert (Hw : forall (C C' : Z -> Prop) s s', (forall id, C id -> C' id) -> flag_rel C s s' -> flag_rel C' s s').
  { intros C C' s1 s2 H HRl p' Hp Hf. destruct (HRl p' Hp Hf) as [HL|HC]; [left; exact HL|right; apply H; exact HC]. }
  destruct o;
    try (apply (Hw (fun _ => False)); [intros ? []|]; match goal with |- flag_rel _ _ (fst (step _ _ ?o)) => exact (other_ops_never_defer cfg o I s) end).
  - (* AddRemote *)
    pose proof (add_remote_keeps_pairs cfg c s HU HR) as [_ [keptl [new [Ecl [HK HN]]]]].
    intros p' Hp' Hf. rewrite Ecl in Hp'. apply in_app_iff in Hp'. destruct Hp' as [Hp'|Hp'].
    + destruct (Forall2_in_r _ _ _ p' HK Hp') as [po [Hpo Hk]]. left. exists po. split; [exact Hpo|].
      unfold kept in Hk. decompose [and] Hk. split; congruence.
    + rewrite Forall_forall in HN. destruct (HN p' Hp') as [id [l [ctl ->]]]. cbn in Hf. discriminate Hf.
  - (* InStun *)
    unfold step. cbn [step_m]. rewrite with_state_eq.
    destruct (s_closed s) eqn:Ec; [apply fl_same; reflexivity|]. destruct (find_local lh s) as [l|] eqn:El; [|apply fl_same; reflexivity].
    apply (Hw (C_flag s l src m)); [|apply handle_inbound_deferred_flag].
    intros id H. cbn. split; [exact Ec|]. exists l. split; [exact El|exact H].
Qed.
