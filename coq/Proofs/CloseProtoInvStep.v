(* C08: the invariant of the close-protocol model is inductive; consequences for reachable states.
   The per-clause preservation lemmas are in CloseProtoInvA..E.v. *)
From Coq Require Import Arith Bool List Lia.
Import ListNotations.
From Ice Require Import Model.PrioSpec Model.CloseProto Proofs.CloseProtoMeasure Proofs.CloseProtoMeasure2
     Proofs.CloseProtoFrames Proofs.CloseProtoInv
     Proofs.CloseProtoInvA Proofs.CloseProtoInvA2 Proofs.CloseProtoInvB Proofs.CloseProtoInvC Proofs.CloseProtoInvD
     Proofs.CloseProtoInvD2 Proofs.CloseProtoInvD3 Proofs.CloseProtoInvE.

Section S.
Variable NC : nat.
Variable wfree : nat -> bool.
Variable fix_reg : bool.
Notation step := (step NC wfree fix_reg).
Notation steps := (steps NC wfree fix_reg).
Notation reach := (reach NC wfree fix_reg).
Notation Inv := (Inv NC fix_reg).

Theorem inv_step s s' : Inv s -> step s s' -> Inv s'.
Proof.
  intros I H. constructor.
  - exact (p_a_task NC wfree fix_reg s s' I H).
  - exact (p_a_write NC wfree fix_reg s s' I H).
  - exact (p_a_host NC wfree fix_reg s s' I H).
  - exact (p_a_del NC wfree fix_reg s s' I H).
  - exact (p_a_wait NC wfree fix_reg s s' I H).
  - exact (p_a_tdone NC wfree fix_reg s s' I H).
  - exact (p_a_sel NC wfree fix_reg s s' I H).
  - exact (p_a_park NC wfree fix_reg s s' I H).
  - exact (p_a_hostok NC wfree fix_reg s s' I H).
  - exact (p_a_wtarget NC wfree fix_reg s s' I H).
  - exact (p_a_wloop NC wfree fix_reg s s' I H).
  - exact (p_a_kindok NC wfree fix_reg s s' I H).
  - exact (p_b_closing NC wfree fix_reg s s' I H).
  - exact (p_b_tld1 NC wfree fix_reg s s' I H).
  - exact (p_b_tld2 NC wfree fix_reg s s' I H).
  - exact (p_b_oncl NC wfree fix_reg s s' I H).
  - exact (p_b_buf NC wfree fix_reg s s' I H).
  - exact (p_b_enq NC wfree fix_reg s s' I H).
  - exact (p_b_join NC wfree fix_reg s s' I H).
  - exact (p_b_hdone NC wfree fix_reg s s' I H).
  - exact (p_b_gcancel NC wfree fix_reg s s' I H).
  - exact (p_c_once_in NC wfree fix_reg s s' I H).
  - exact (p_c_once_run NC wfree fix_reg s s' I H).
  - exact (p_c_once_not NC wfree fix_reg s s' I H).
  - exact (p_c_once1 NC wfree fix_reg s s' I H).
  - exact (p_c_doneby NC wfree fix_reg s s' I H).
  - exact (p_c_past NC wfree fix_reg s s' I H).
  - exact (p_c_odone NC wfree fix_reg s s' I H).
  - exact (p_c_ptld NC wfree fix_reg s s' I H).
  - exact (p_c_hostok NC wfree fix_reg s s' I H).
  - exact (p_c_grace NC wfree fix_reg s s' I H).
  - exact (p_c_abound NC wfree fix_reg s s' I H).
  - exact (p_d_reg NC wfree fix_reg s s' I H).
  - exact (p_d_bound NC wfree fix_reg s s' I H).
  - exact (p_d_exit NC wfree fix_reg s s' I H).
  - exact (p_d_unreg NC wfree fix_reg s s' I H).
  - exact (p_d_ioab NC wfree fix_reg s s' I H).
  - exact (p_d_wait NC wfree fix_reg s s' I H).
  - exact (p_d_del NC wfree fix_reg s s' I H).
  - exact (p_d_delb NC wfree fix_reg s s' I H).
  - exact (p_d_alldel NC wfree fix_reg s s' I H).
  - exact (p_d_cover NC wfree fix_reg s s' I H).
  - exact (p_d_abort NC wfree fix_reg s s' I H).
  - exact (p_d_snap NC wfree fix_reg s s' I H).
  - exact (p_d_late NC wfree fix_reg s s' I H).
  - exact (p_d_fix NC wfree fix_reg s s' I H).
  - exact (p_e_rbusy NC wfree fix_reg s s' I H).
  - exact (p_e_rhost NC wfree fix_reg s s' I H).
  - exact (p_e_gbusy NC wfree fix_reg s s' I H).
  - exact (p_e_ghost NC wfree fix_reg s s' I H).
  - exact (p_e_dbusy_a NC wfree fix_reg s s' I H).
  - exact (p_e_dbusy_c NC wfree fix_reg s s' I H).
  - exact (p_e_dhost_a NC wfree fix_reg s s' I H).
  - exact (p_e_dhost_c NC wfree fix_reg s s' I H).
  - exact (p_e_lbusy NC wfree fix_reg s s' I H).
  - exact (p_e_lhost NC wfree fix_reg s s' I H).
  - exact (p_e_nq NC wfree fix_reg s s' I H).
Qed.

Theorem inv_steps s s' : Inv s -> steps s s' -> Inv s'.
Proof.
  intros I H. induction H as [|s s1 s2 H1 IH H2]; [exact I|].
  eapply inv_step; [apply IH; exact I|exact H2].
Qed.

Theorem inv_reach g0 s : reach g0 s -> Inv s.
Proof. intros H. apply (inv_steps (init g0) s); [exact (inv_init NC wfree fix_reg g0) | exact H]. Qed.

End S.
