(* C07 over histories: every application datagram the agent ever writes goes from the local socket of a listed,
   VALIDATED pair to that pair's remote address. *)
From Coq Require Import ZArith Bool List.
From Ice Require Import Model.AgentTypes Model.AgentCore Gen.Consts Proofs.AgentFrame Proofs.AgentC06 Proofs.AgentC03Sel
  Proofs.AgentC07 Proofs.TwoAgentsDataProofs.
Import ListNotations.
Local Open Scope Z_scope.

Definition on_valid_pair (s : state) (lh : Z) (dst : addr) : Prop :=
  exists pr, In pr (s_checklist s) /\ p_state pr = CandidatePairStateSucceeded /\
             lh = c_h (p_loc pr) /\ dst = c_addr (p_rem pr).

Lemma write_result_data pr p cc s lh dst q :
  In (OData lh dst q) (snd (write_result pr p cc s)) -> lh = c_h (p_loc pr) /\ dst = c_addr (p_rem pr) /\ q = p.
Proof.
  unfold write_result. destruct (pl_refused p); cbn; [intros [H|[]]; discriminate H|].
  intros [H|[H|[]]]; [injection H as <- <- <-; auto|discriminate H].
Qed.

(* one operation from a state satisfying the selection invariant *)
Theorem step_data_on_valid_pair cfg s o lh dst q :
  G s -> In (OData lh dst q) (snd (step cfg s o)) -> on_valid_pair s lh dst.
Proof.
  intros [Hsv HU] Hin.
  pose proof (writes_are_unmodified cfg o s) as Hw. cbn in Hw. rewrite Forall_forall in Hw.
  specialize (Hw _ Hin). cbn in Hw.
  destruct o; cbn in Hw; try discriminate Hw; injection Hw as Hq; subst p.
  - (* Write *)
    unfold step in Hin. cbn [step_m] in Hin. rewrite conn_write_spec in Hin.
    destruct (s_closed s); [destruct Hin as [H|[]]; discriminate H|].
    destruct (pl_stun q); [destruct Hin as [H|[]]; discriminate H|].
    unfold write_target in Hin. destruct (selected_pair s) as [pr|] eqn:Esp.
    + destruct (write_result_data _ _ _ _ _ _ _ Hin) as [E1 [E2 _]].
      unfold selected_pair in Esp. destruct (s_selected s) as [id|] eqn:Es; [|discriminate Esp].
      pose proof (pair_by_id_in _ _ _ Esp) as [Hpr Eid].
      unfold InvSV in Hsv. rewrite Es in Hsv. destruct Hsv as [p0 [Hp0 [Eid0 [Hs0 _]]]].
      assert (p0 = pr) by (apply (unique_id s pr p0 HU Hpr Hp0); congruence). subst p0.
      exists pr. auto.
    + destruct (best_valid s) as [pr|] eqn:Eb; [|destruct Hin as [H|[]]; discriminate H].
      destruct (write_result_data _ _ _ _ _ _ _ Hin) as [E1 [E2 _]].
      destruct (best_valid_spec s pr Eb) as [Hpr [Hs _]]. exists pr. auto.
  - (* WriteToPair *)
    unfold step in Hin. cbn [step_m] in Hin. rewrite conn_write_to_pair_spec in Hin.
    destruct (s_closed s); [destruct Hin as [H|[]]; discriminate H|].
    destruct (pl_stun q); [destruct Hin as [H|[]]; discriminate H|].
    destruct (pair_by_id id s) as [pr|] eqn:Ep; [|destruct Hin as [H|[]]; discriminate H].
    destruct (p_state pr =? CandidatePairStateSucceeded) eqn:Es; [|destruct Hin as [H|[]]; discriminate H].
    destruct (write_result_data _ _ _ _ _ _ _ Hin) as [E1 [E2 _]].
    exists pr. split; [exact (proj1 (pair_by_id_in _ _ _ Ep))|]. split; [apply Z.eqb_eq; exact Es|auto].
Qed.

(* every history: whatever the next operation writes goes over a validated pair *)
Theorem data_only_over_validated_pairs cfg lu lp ops o lh dst q :
  let s := fst (run cfg lu lp ops) in
  In (OData lh dst q) (snd (step cfg s o)) -> on_valid_pair s lh dst.
Proof. intros s. apply step_data_on_valid_pair. exact (run_G cfg lu lp ops). Qed.
