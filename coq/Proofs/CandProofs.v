(* C16: the round-trip law of the candidate text codec (Model/Cand.v). *)
From Coq Require Import ZArith NArith Bool String Ascii List Lia.
From Ice Require Import Model.Wrap Model.PrioSpec Model.Foundation Model.CandVariant Model.Cand
     Gen.Names Gen.Prio Gen.CandEq
     Proofs.PrioProofs Proofs.FoundationProofs Proofs.CandStrings Proofs.CandEqProofs.
Import ListNotations.
Local Open Scope string_scope.
Local Open Scope Z_scope.

(* the proofs must hold for both values of every repair flag (Model/CandVariant.v) *)
Global Opaque fix_deep_equal fix_marshal_rport0 fix_nomination_size fix_ext_empty_key fix_empty_raddr.

(* ---------------------------------------------------------------- well-formed fields
   (weaker than Cand.valid_config: what both constructed and parsed candidates satisfy) *)

Definition wf_found (f : string) : bool :=
  String.eqb f "" || String.eqb f " " || valid_foundation_token f.

Definition wf_config (g : config) : bool :=
  ((g_type g =? 1) || (g_type g =? 2) || (g_type g =? 3) || (g_type g =? 4))
  && (0 <=? g_port g) && (g_port g <=? 65535)
  && (0 <=? g_comp g) && (g_comp g <? 65536)
  && (0 <=? g_prio g) && (g_prio g <? 4294967296)
  && wf_found (g_found g)
  && no_space_no_zone (g_address g)
  && (if g_type g =? 1 then (0 <=? g_tcp g) && (g_tcp g <=? 3)
      else no_space (g_reladdr g) && (0 <=? g_relport g) && (g_relport g <=? 65535)).

Definition wf_ext (e : ext) : bool :=
  valid_bs (fst e) && valid_bs (snd e) && negb (String.eqb (fst e) "tcptype")
  && (negb fix_ext_empty_key || negb (is_empty (fst e))).

Record wf_config_facts (g : config) : Prop := {
  wf_type : g_type g = 1 \/ g_type g = 2 \/ g_type g = 3 \/ g_type g = 4;
  wf_port : 0 <= g_port g <= 65535;
  wf_comp : 0 <= g_comp g < 65536;
  wf_prio : 0 <= g_prio g < 4294967296;
  wf_fnd : wf_found (g_found g) = true;
  wf_addr : no_space_no_zone (g_address g) = true;
  wf_tcp : g_type g = 1 -> 0 <= g_tcp g <= 3;
  wf_rel : g_type g <> 1 -> no_space (g_reladdr g) = true /\ 0 <= g_relport g <= 65535 }.

Ltac split_andb := repeat match goal with
  | H : andb _ _ = true |- _ => apply andb_true_iff in H; destruct H end.
Ltac zify_b := repeat match goal with
  | H : (_ <=? _) = true |- _ => apply Z.leb_le in H
  | H : (_ <? _) = true |- _ => apply Z.ltb_lt in H
  | H : (_ =? _) = true |- _ => apply Z.eqb_eq in H end.

Lemma wf_config_spec g : wf_config g = true -> wf_config_facts g.
Proof.
  unfold wf_config. intros H. split_andb.
  match goal with H : (if _ then _ else _) = true |- _ => rename H into Hif end.
  match goal with H : orb _ _ = true |- _ => rename H into Hty end.
  assert (Ht : g_type g = 1 \/ g_type g = 2 \/ g_type g = 3 \/ g_type g = 4).
  { repeat (apply orb_true_iff in Hty; destruct Hty as [Hty|Hty]); apply Z.eqb_eq in Hty; auto. }
  zify_b.
  constructor; try lia; try assumption.
  - intros E. rewrite E in Hif. cbn [Z.eqb Pos.eqb] in Hif. split_andb. zify_b. lia.
  - intros E. destruct (Z.eqb_spec (g_type g) 1); [contradiction|]. split_andb. zify_b. split; [assumption|lia].
Qed.

Lemma valid_config_wf g : valid_config g = true -> wf_config g = true.
Proof.
  unfold valid_config, wf_config. intros H. split_andb.
  match goal with H : (if _ then _ else _) = true |- _ => rename H into Hif end.
  repeat (apply andb_true_iff; split); try assumption.
  destruct (g_type g =? 1); [assumption|].
  apply orb_true_iff in Hif. destruct Hif as [Hif|Hif]; split_andb.
  - repeat (apply andb_true_iff; split); assumption.
  - match goal with H : is_empty _ = true |- _ => apply is_empty_true in H; rewrite H end.
      zify_b. match goal with H : g_relport g = 0 |- _ => rewrite H end. reflexivity.
Qed.

(* ---------------------------------------------------------------- extension lists *)

Definition sp_or_empty (x : string) : Prop := x = "" \/ exists y, x = String " " y.
Definition after_sp (x : string) : string := match x with EmptyString => "" | String _ y => y end.

Lemma rst_x t x : no_space t = true -> sp_or_empty x -> read_string_token (t ++ x) = (t, after_sp x).
Proof.
  intros Ht [-> | [y ->]]; [rewrite append_nil_r; now apply rst_end | now apply rst_sp].
Qed.

Lemma rdt_x limit t x : all_chars is_digit t = true -> (String.length t <= limit)%nat -> sp_or_empty x ->
  read_digit_token limit 0 0 (t ++ x) = Some (digits_value 0 t, after_sp x).
Proof.
  intros Ht Hl [-> | [y ->]]; [rewrite append_nil_r; now apply rdt_end | now apply rdt_sp].
Qed.

Lemma marshal_ext_cons e r :
  marshal_ext_list (e :: r) = fst e ++ String " " (snd e ++ match r with [] => "" | _ => String " " (marshal_ext_list r) end).
Proof. destruct r; cbn [marshal_ext_list append]; [now rewrite append_nil_r|reflexivity]. Qed.

Lemma marshal_ext_nonempty e r : is_empty (marshal_ext_list (e :: r)) = false.
Proof. rewrite marshal_ext_cons. destruct (fst e); reflexivity. Qed.

Lemma wf_ext_facts e : wf_ext e = true ->
  valid_bs (fst e) = true /\ valid_bs (snd e) = true /\ String.eqb (fst e) "tcptype" = false /\
  (fix_ext_empty_key && is_empty (fst e)) = false.
Proof.
  unfold wf_ext. intros H.
  apply andb_true_iff in H. destruct H as [H H4].
  apply andb_true_iff in H. destruct H as [H H3].
  apply andb_true_iff in H. destruct H as [H1 H2].
  split; [exact H1|]. split; [exact H2|]. split; [now apply negb_true_iff|].
  destruct fix_ext_empty_key; [|reflexivity]. cbn [negb orb andb] in *. now apply negb_true_iff.
Qed.

(* one iteration of the extension loop on a marshalled list *)
Lemma parse_exts_step f k v r :
  valid_bs k = true -> valid_bs v = true -> (fix_ext_empty_key && is_empty k) = false ->
  parse_exts (S f) (marshal_ext_list ((k, v) :: r)) =
  match parse_exts f (match r with [] => "" | _ => marshal_ext_list r end) with
  | Err e => Err e
  | Ok (l, t) => if String.eqb k "tcptype" then Ok (l, match t with Some x => Some x | None => Some v end)
                 else Ok ((k, v) :: l, t)
  end.
Proof.
  intros Hk Hv He. rewrite marshal_ext_cons. cbn [fst snd parse_exts].
  match goal with |- context [is_empty ?x] =>
    assert (Hne : is_empty x = false) by (destruct k; reflexivity); rewrite Hne end.
  rewrite (rbs_sp k _ Hk), He.
  destruct r as [|e r].
  - rewrite append_nil_r. destruct v as [|a v]; [reflexivity|].
    cbn [is_empty]. rewrite (rbs_end _ Hv). reflexivity.
  - match goal with |- context [is_empty ?x] =>
      assert (Hne2 : is_empty x = false) by (destruct v; reflexivity); rewrite Hne2 end.
    rewrite (rbs_sp v _ Hv). reflexivity.
Qed.

Lemma parse_exts_empty f : parse_exts f "" = Ok ([], None).
Proof. destruct f; reflexivity. Qed.

Lemma parse_marshal_exts l : Forall (fun e => wf_ext e = true) l ->
  forall f, (List.length l <= f)%nat ->
  parse_exts f (match l with [] => "" | _ => marshal_ext_list l end) = Ok (l, None).
Proof.
  induction 1 as [|[k v] r He Hr IH]; intros f Hf.
  - apply parse_exts_empty.
  - destruct f as [|f]; [simpl in Hf; lia|].
    destruct (wf_ext_facts _ He) as [Hk [Hv [Ht Hz]]]. cbn [fst snd] in *.
    rewrite parse_exts_step by assumption.
    rewrite IH by (simpl in Hf; lia). now rewrite Ht.
Qed.

Lemma marshal_ext_length l : (List.length l <= String.length (marshal_ext_list l))%nat.
Proof.
  induction l as [|e r IH]; [simpl; lia|].
  rewrite marshal_ext_cons, !length_app. cbn [String.length]. rewrite length_app.
  destruct r; [simpl; lia|]. cbn [String.length]. simpl List.length in *. lia.
Qed.

Lemma first_not_sp k rest : valid_bs k = true -> is_empty k = false ->
  exists a s, k ++ rest = String a s /\ is_sp a = false.
Proof.
  intros Hk Hne. destruct k as [|a k]; [discriminate|]. exists a. eexists. split; [reflexivity|].
  pose proof (valid_bs_no_space _ Hk) as Hs. unfold no_space in Hs. simpl in Hs.
  apply andb_true_iff in Hs. destruct Hs as [Hs _]. now apply negb_true_iff in Hs.
Qed.

Lemma unmarshal_extensions_unfold s a r : s = String a r -> is_sp a = false ->
  unmarshal_extensions s =
  match parse_exts (S (String.length s)) s with
  | Err e => Err e
  | Ok (l, t) => Ok (l, match t with Some v => v | None => "" end)
  end.
Proof. intros -> Ha. unfold unmarshal_extensions. now rewrite Ha. Qed.

(* the extension text of a candidate parses back to its list and TCP type name *)
Lemma unmarshal_extensions_notcp (e : ext) (r : list ext) :
  Forall (fun e => wf_ext e = true) (e :: r) -> is_empty (fst e) = false ->
  unmarshal_extensions (marshal_ext_list (e :: r)) = Ok (e :: r, "").
Proof.
  intros Hl Hne. inversion Hl as [|? ? He Hr]; subst.
  destruct (wf_ext_facts _ He) as [Hk _].
  pose proof (marshal_ext_cons e r) as Ec.
  destruct (first_not_sp (fst e) (String " " (snd e ++ match r with [] => "" | _ => String " " (marshal_ext_list r) end)) Hk Hne)
    as [a [s [E Ha]]].
  rewrite (unmarshal_extensions_unfold _ a s (eq_trans Ec E) Ha).
  pose proof (parse_marshal_exts (e :: r) Hl (S (String.length (marshal_ext_list (e :: r))))) as P.
  cbv beta iota in P. rewrite P; [reflexivity|].
  pose proof (marshal_ext_length (e :: r)). lia.
Qed.

Lemma unmarshal_extensions_tcp tcpname (l : list ext) :
  Forall (fun e => wf_ext e = true) l -> valid_bs tcpname = true ->
  unmarshal_extensions (marshal_ext_list ((("tcptype", tcpname) : ext) :: l)) = Ok (l, tcpname).
Proof.
  intros Hl Ht.
  pose proof (marshal_ext_cons (("tcptype", tcpname) : ext) l) as Ec. cbn [fst snd] in Ec.
  destruct (first_not_sp "tcptype" (String " " (tcpname ++ match l with [] => "" | _ => String " " (marshal_ext_list l) end)) eq_refl eq_refl)
    as [a [s [E Ha]]].
  rewrite (unmarshal_extensions_unfold _ a s (eq_trans Ec E) Ha).
  rewrite parse_exts_step; [|reflexivity|exact Ht|now rewrite andb_false_r].
  rewrite parse_marshal_exts; [reflexivity|exact Hl|].
  pose proof (marshal_ext_length ((("tcptype", tcpname) : ext) :: l)). simpl List.length in *. lia.
Qed.

(* what the extension loop returns is well-formed *)
Lemma parse_exts_wf f : forall s l t, parse_exts f s = Ok (l, t) ->
  Forall (fun e => wf_ext e = true) l /\ match t with Some v => valid_bs v = true | None => True end.
Proof.
  induction f as [|f IH]; intros s l t H.
  - simpl in H. injection H as <- <-. auto.
  - cbn [parse_exts] in H. destruct (is_empty s); [injection H as <- <-; auto|].
    destruct (read_byte_string s) as [[k r]|] eqn:Ek; [|discriminate].
    destruct (fix_ext_empty_key && is_empty k) eqn:Ez; [discriminate|].
    destruct (if is_empty r then Some ("", "") else read_byte_string r) as [[v r']|] eqn:Ev; [|discriminate].
    destruct (parse_exts f r') as [[l' t']|] eqn:Er; [|discriminate].
    destruct (IH _ _ _ Er) as [Hl Ht].
    destruct (rbs_inv _ _ _ Ek) as [Hk _].
    assert (Hv : valid_bs v = true).
    { destruct (is_empty r); [injection Ev as <- _; reflexivity|]. now destruct (rbs_inv _ _ _ Ev). }
    destruct (String.eqb k "tcptype") eqn:Et; injection H as <- <-.
    + split; [exact Hl|]. destruct t'; assumption.
    + split; [|exact Ht]. constructor; [|exact Hl].
      unfold wf_ext. cbn [fst snd]. rewrite Hk, Hv, Et. cbn [negb andb].
      destruct fix_ext_empty_key; [|reflexivity]. cbn [andb negb orb] in *. now rewrite Ez.
Qed.

Lemma unmarshal_extensions_wf s l t : unmarshal_extensions s = Ok (l, t) ->
  Forall (fun e => wf_ext e = true) l /\ valid_bs t = true.
Proof.
  unfold unmarshal_extensions. destruct s as [|a s]; [intros H; injection H as <- <-; auto|].
  destruct (is_sp a); [discriminate|].
  destruct (parse_exts _ _) as [[l' t']|] eqn:E; [|discriminate]. intros H. injection H as <- <-.
  destruct (parse_exts_wf _ _ _ _ E) as [Hl Ht]. split; [exact Hl|]. destruct t'; [exact Ht|reflexivity].
Qed.

(* ---------------------------------------------------------------- the tail of a candidate line *)

Definition ext_text (L : list ext) : string :=
  match L with [] => "" | _ => String " " (marshal_ext_list L) end.

(* [ raddr A rport P][ extensions] *)
Definition tail_text (o : option (string * Z)) (L : list ext) : string :=
  match o with
  | Some r => String " " ("raddr" ++ String " " (fst r ++ String " " ("rport" ++ String " " (print_int (snd r) ++ ext_text L))))
  | None => ext_text L
  end.

Lemma sp_or_empty_ext L : sp_or_empty (ext_text L).
Proof. destruct L; [left; reflexivity|right; eexists; reflexivity]. Qed.

Lemma sp_or_empty_tail o L : sp_or_empty (tail_text o L).
Proof. destruct o; [right; eexists; reflexivity|apply sp_or_empty_ext]. Qed.

Lemma is_empty_app_sp a c b : is_empty (a ++ String c b) = false.
Proof. destruct a; reflexivity. Qed.

Lemma try_read_rel_none z :
  (forall k r, read_string_token z = (k, r) -> k <> "raddr") -> try_read_rel z = Some ("", 0, z).
Proof.
  intros H. unfold try_read_rel. destruct (read_string_token z) as [k r] eqn:E.
  specialize (H k r eq_refl). apply String.eqb_neq in H. now rewrite H.
Qed.

Lemma try_read_rel_some A P x :
  no_space A = true -> is_empty A = false -> 0 <= P <= 65535 -> sp_or_empty x ->
  try_read_rel ("raddr" ++ String " " (A ++ String " " ("rport" ++ String " " (print_int P ++ x)))) =
  Some (A, P, after_sp x).
Proof.
  intros HA HAne HP Hx. unfold try_read_rel.
  rewrite (rst_sp "raddr") by reflexivity. cbn [String.eqb Ascii.eqb Bool.eqb negb].
  rewrite is_empty_app_sp. rewrite (rst_sp A) by exact HA. rewrite HAne, andb_false_r.
  change (is_empty ("rport" ++ String " " (print_int P ++ x))) with false. cbv iota.
  rewrite (rst_sp "rport") by reflexivity. cbn [String.eqb Ascii.eqb Bool.eqb negb].
  destruct (print_int_props P 5 ltac:(change (10 ^ Z.of_nat 5) with 100000; lia) ltac:(lia)) as [Hd [Hl [Hv Hne]]].
  rewrite (is_empty_app_l _ _ Hne).
  unfold read_port. rewrite (rdt_x 5 _ _ Hd Hl Hx), Hv.
  destruct (Z.ltb_spec 65535 P); [lia|reflexivity].
Qed.

Lemma tcp_name_valid tcp : 1 <= tcp <= 3 -> valid_bs (TCPType_String tcp) = true /\
  String.eqb (TCPType_String tcp) "" = false /\ NewTCPType_lowered (lower_string (TCPType_String tcp)) = tcp.
Proof.
  intros H. assert (E : tcp = 1 \/ tcp = 2 \/ tcp = 3) by lia.
  destruct E as [-> | [-> | ->]]; repeat split; vm_compute; reflexivity.
Qed.

Lemma type_name_props ty : ty = 1 \/ ty = 2 \/ ty = 3 \/ ty = 4 ->
  no_space (CandidateType_String ty) = true /\ is_empty (CandidateType_String ty) = false /\
  (let typ := CandidateType_String ty in
   if String.eqb typ "host" then 1 else if String.eqb typ "srflx" then 2
   else if String.eqb typ "prflx" then 3 else if String.eqb typ "relay" then 4 else 0) = ty.
Proof. intros [-> | [-> | [-> | ->]]]; repeat split; vm_compute; reflexivity. Qed.

Section RT.
Variable parse_addr : string -> option ipinfo.
Variable checksum : string -> N.

Lemma unmarshal_tail_marshal found comp proto prio address port ty o tcp (l : list ext) :
  ty = 1 \/ ty = 2 \/ ty = 3 \/ ty = 4 -> 0 <= tcp <= 3 ->
  Forall (fun e => wf_ext e = true) l ->
  (forall r, o = Some r -> no_space (fst r) = true /\ is_empty (fst r) = false /\ 0 <= snd r <= 65535) ->
  let L := if tcp =? 0 then l else (("tcptype", TCPType_String tcp) : ext) :: l in
  match L with [] => True | e :: _ => is_empty (fst e) = false /\ (o = None -> fst e <> "raddr") end ->
  unmarshal_tail parse_addr found comp proto prio address port (CandidateType_String ty ++ tail_text o L) =
  match new_candidate parse_addr
          {| g_type := ty; g_network := proto; g_address := address; g_port := port;
             g_comp := wrap 16 comp; g_prio := wrap 32 prio; g_found := found; g_tcp := tcp;
             g_reladdr := match o with Some r => fst r | None => "" end;
             g_relport := match o with Some r => snd r | None => 0 end; g_relayproto := "" |} with
  | Err e => Err e
  | Ok c => Ok (set_exts c l)
  end.
Proof.
  intros Hty Htcp Hl Ho L Hfirst.
  destruct (type_name_props ty Hty) as [Hns [Hne Hdec]].
  unfold unmarshal_tail.
  rewrite (is_empty_app_l _ _ Hne).
  rewrite (rst_x _ _ Hns (sp_or_empty_tail o L)).
  (* related address *)
  assert (Hrel : try_read_rel (after_sp (tail_text o L)) =
                 Some (match o with Some r => fst r | None => "" end,
                       match o with Some r => snd r | None => 0 end, after_sp (ext_text L))).
  { destruct o as [r|].
    - destruct (Ho r eq_refl) as [H1 [H1' H2]]. cbn [tail_text after_sp].
      apply try_read_rel_some; [exact H1|exact H1'|exact H2|apply sp_or_empty_ext].
    - cbn [tail_text]. apply try_read_rel_none. intros k r E.
      subst L. destruct (Z.eqb_spec tcp 0) as [->|Hn].
      + destruct l as [|e l']; [simpl in E; injection E as <- _; discriminate|].
        cbn [ext_text after_sp] in E. rewrite marshal_ext_cons in E.
        destruct Hfirst as [_ Hk]. specialize (Hk eq_refl).
        inversion Hl as [|? ? He Hr]; subst.
        destruct (wf_ext_facts _ He) as [Hv _].
        rewrite (rst_sp _ _ (valid_bs_no_space _ Hv)) in E. injection E as <- _. exact Hk.
      + cbn [ext_text after_sp] in E. rewrite marshal_ext_cons in E. cbn [fst snd] in E.
        rewrite (rst_sp "tcptype") in E by reflexivity. injection E as <- _. discriminate. }
  rewrite Hrel.
  (* extensions *)
  assert (Hext : (if is_empty (after_sp (ext_text L)) then Ok ([], "") else unmarshal_extensions (after_sp (ext_text L))) =
                 Ok (l, if tcp =? 0 then "" else TCPType_String tcp)).
  { subst L. destruct (Z.eqb_spec tcp 0) as [->|Hn].
    - destruct l as [|e r]; [reflexivity|].
      cbn [ext_text after_sp]. rewrite marshal_ext_nonempty.
      apply unmarshal_extensions_notcp; [exact Hl|]. now destruct Hfirst.
    - cbn [ext_text after_sp]. rewrite marshal_ext_nonempty.
      apply unmarshal_extensions_tcp; [exact Hl|]. apply tcp_name_valid. lia. }
  rewrite Hext.
  (* TCP type and candidate type *)
  assert (Htd : (let tcpraw := if tcp =? 0 then "" else TCPType_String tcp in
                 if String.eqb tcpraw "" then 0 else new_tcp_type tcpraw) = tcp).
  { destruct (Z.eqb_spec tcp 0) as [->|Hn]; [reflexivity|].
    destruct (tcp_name_valid tcp ltac:(lia)) as [_ [H2 H3]]. cbv zeta. rewrite H2. exact H3. }
  cbv zeta in Htd. rewrite Htd.
  assert (Hte : (negb (String.eqb (if tcp =? 0 then "" else TCPType_String tcp) "") && (tcp =? 0)) = false).
  { destruct (tcp =? 0); [reflexivity|]. apply andb_false_r. }
  rewrite Hte. cbv zeta in Hdec. rewrite Hdec.
  destruct (Z.eqb_spec ty 0); [lia|]. reflexivity.
Qed.

(* ---------------------------------------------------------------- re-running the constructor *)

Lemma dnt_short network is4 nt :
  determine_network_type network is4 = Ok nt ->
  determine_network_type (NetworkType_NetworkShort nt) is4 = Ok nt.
Proof.
  unfold determine_network_type at 1.
  destruct (String.prefix "udp" (lower_string network)).
  - intros H. injection H as <-. destruct is4; reflexivity.
  - destruct (String.prefix "tcp" (lower_string network)); [|discriminate].
    intros H. injection H as <-. destruct is4; reflexivity.
Qed.

Lemma dnt_range network is4 nt : determine_network_type network is4 = Ok nt -> nt = 1 \/ nt = 2 \/ nt = 3 \/ nt = 4.
Proof.
  unfold determine_network_type.
  destruct (String.prefix "udp" (lower_string network)).
  - intros H. injection H as <-. destruct is4; auto.
  - destruct (String.prefix "tcp" (lower_string network)); [|discriminate].
    intros H. injection H as <-. destruct is4; auto.
Qed.

(* the candidate a constructor builds from the printed fields of c0 is c0 up to the overrides *)
Lemma rebuild g c0 found' prio' ra' rp' :
  new_candidate parse_addr g = Ok c0 ->
  new_candidate parse_addr
    {| g_type := g_type g; g_network := NetworkType_NetworkShort (c_net c0); g_address := g_address g;
       g_port := g_port g; g_comp := g_comp g; g_prio := prio'; g_found := found'; g_tcp := c_tcp c0;
       g_reladdr := ra'; g_relport := rp'; g_relayproto := "" |} =
  Ok {| c_type := c_type c0; c_net := c_net c0; c_comp := c_comp c0; c_addr := c_addr c0; c_port := c_port c0;
        c_rel := if g_type g =? 1 then None else Some (ra', rp'); c_tcp := c_tcp c0;
        c_resolved := c_resolved c0; c_found_ov := found'; c_prio_ov := prio';
        c_relay_pref := if g_type g =? 4 then 3 else 0; c_exts := [] |}.
Proof.
  unfold new_candidate. cbn [g_type g_network g_address g_port g_comp g_prio g_found g_tcp g_reladdr g_relport g_relayproto].
  destruct (g_type g =? 1) eqn:E1.
  - destruct (is_mdns (g_address g)).
    + intros H. injection H as <-. unfold mk_cand. cbn. apply Z.eqb_eq in E1. rewrite E1. reflexivity.
    + destruct (parse_addr (g_address g)) as [ip|]; [|discriminate].
      destruct (determine_network_type (g_network g) (ip_is4 ip)) as [nt|] eqn:En; [|discriminate].
      intros H. injection H as <-. unfold mk_cand. cbn.
      rewrite (dnt_short _ _ _ En). apply Z.eqb_eq in E1. rewrite E1. reflexivity.
  - destruct ((g_type g =? 2) || (g_type g =? 3) || (g_type g =? 4)) eqn:E2; [|discriminate].
    destruct (parse_addr (g_address g)) as [ip|]; [|discriminate].
    destruct (determine_network_type (g_network g) (ip_is4 ip)) as [nt|] eqn:En; [|discriminate].
    intros H. injection H as <-. unfold mk_cand. cbn.
    rewrite (dnt_short _ _ _ En).
    destruct (g_type g =? 4) eqn:E4; [|reflexivity].
    apply Z.eqb_eq in E4. rewrite E4. reflexivity.
Qed.

Lemma new_candidate_fields g c0 : new_candidate parse_addr g = Ok c0 ->
  c_type c0 = g_type g /\ c_comp c0 = g_comp g /\ c_addr c0 = g_address g /\ c_port c0 = g_port g /\
  c_found_ov c0 = g_found g /\ c_prio_ov c0 = g_prio g /\ c_exts c0 = [] /\
  (c_net c0 = 1 \/ c_net c0 = 2 \/ c_net c0 = 3 \/ c_net c0 = 4) /\
  (if g_type g =? 1 then c_rel c0 = None /\ c_tcp c0 = g_tcp g
   else c_rel c0 = Some (g_reladdr g, g_relport g) /\ c_tcp c0 = 0).
Proof.
  unfold new_candidate.
  destruct (g_type g =? 1) eqn:E1.
  - destruct (is_mdns (g_address g)).
    + intros H. injection H as <-. cbn. repeat split; auto.
    + destruct (parse_addr (g_address g)) as [ip|]; [|discriminate].
      destruct (determine_network_type (g_network g) (ip_is4 ip)) as [nt|] eqn:En; [|discriminate].
      intros H. injection H as <-. cbn. repeat split; auto. exact (dnt_range _ _ _ En).
  - destruct ((g_type g =? 2) || (g_type g =? 3) || (g_type g =? 4)) eqn:E2; [|discriminate].
    destruct (parse_addr (g_address g)) as [ip|]; [|discriminate].
    destruct (determine_network_type (g_network g) (ip_is4 ip)) as [nt|] eqn:En; [|discriminate].
    intros H. injection H as <-. cbn. repeat split; auto. exact (dnt_range _ _ _ En).
Qed.

(* ---------------------------------------------------------------- the head of a candidate line *)

Definition line (f comp proto prio addr port rest : string) : string :=
  f ++ String " " (comp ++ String " " (proto ++ String " " (prio ++ String " " (addr ++ String " "
    (port ++ String " " ("typ" ++ String " " rest)))))).

Lemma unmarshal_line f compS comp proto prioS prio addr portS port rest :
  all_chars is_ice_char f = true -> (String.length f <= 32)%nat ->
  all_chars is_digit compS = true -> (String.length compS <= 5)%nat -> digits_value 0 compS = comp -> is_empty compS = false ->
  no_space proto = true ->
  all_chars is_digit prioS = true -> (String.length prioS <= 10)%nat -> digits_value 0 prioS = prio -> is_empty prioS = false ->
  no_space addr = true ->
  all_chars is_digit portS = true -> (String.length portS <= 5)%nat -> digits_value 0 portS = port -> is_empty portS = false ->
  port <= 65535 ->
  unmarshal parse_addr (line f compS proto prioS addr portS rest) =
  unmarshal_tail parse_addr (if String.eqb f "" then " " else f) comp proto prio (strip_zone addr) port rest.
Proof.
  intros Hf Hfl Hc Hcl Hcv Hcn Hp Hr Hrl Hrv Hrn Ha Ho Hol Hov Hon Hport.
  unfold unmarshal, line, trim_prefix_or_same.
  rewrite (trim_prefix_ice _ _ Hf).
  rewrite (rct_sp 32 0 f _ Hf) by (simpl; lia).
  rewrite (is_empty_app_l _ _ Hcn).
  rewrite (rdt_sp 5 0 0 compS _ Hc) by (simpl; lia). rewrite Hcv.
  rewrite is_empty_app_sp.
  rewrite (rst_sp proto _ Hp).
  rewrite (is_empty_app_l _ _ Hrn).
  rewrite (rdt_sp 10 0 0 prioS _ Hr) by (simpl; lia). rewrite Hrv.
  rewrite is_empty_app_sp.
  rewrite (rst_sp addr _ Ha).
  rewrite (is_empty_app_l _ _ Hon).
  unfold read_port.
  rewrite (rdt_sp 5 0 0 portS _ Ho) by (simpl; lia). rewrite Hov.
  destruct (Z.ltb_spec 65535 port); [lia|].
  rewrite (rst_sp "typ") by reflexivity.
  reflexivity.
Qed.

(* ---------------------------------------------------------------- Marshal, written as a line *)

Definition printed_rel (c : cand) : option (string * Z) :=
  match c_rel c with Some r => if emits_raddr r then Some r else None | None => None end.

Definition printed_foundation (c : cand) : string :=
  let f := foundation checksum c in if String.eqb f " " then "" else f.

Lemma eqb_empty_false s : is_empty s = false -> String.eqb s "" = false.
Proof. destruct s; [discriminate|reflexivity]. Qed.

Lemma marshal_eq c :
  marshal checksum c =
  line (printed_foundation c) (print_int (c_comp c)) (NetworkType_NetworkShort (c_net c))
       (print_int (priority c)) (strip_zone (c_addr c)) (print_int (c_port c))
       (CandidateType_String (c_type c) ++ tail_text (printed_rel c) (extensions c)).
Proof.
  unfold marshal, line, printed_rel, printed_foundation, tail_text, ext_text.
  destruct (extensions c) as [|e r] eqn:Ex.
  - cbn [marshal_ext_list String.eqb].
    destruct (c_rel c) as [rl|]; [destruct (emits_raddr rl)|];
      rewrite ?append_assoc; cbn [append]; rewrite ?append_assoc; cbn [append]; rewrite ?append_nil_r; reflexivity.
  - rewrite (eqb_empty_false _ (marshal_ext_nonempty e r)).
    destruct (c_rel c) as [rl|]; [destruct (emits_raddr rl)|];
      rewrite ?append_assoc; cbn [append]; rewrite ?append_assoc; cbn [append]; reflexivity.
Qed.

(* ---------------------------------------------------------------- priorities and foundations of the result *)

Lemma priority_range32 c : 0 <= c_prio_ov c < 4294967296 -> 0 <= priority c < 4294967296.
Proof.
  intros H. unfold priority, Priority.
  destruct (negb (c_prio_ov c =? 0)); [exact H|].
  change 4294967296 with (2 ^ 32). apply wrap_range. lia.
Qed.

Lemma priority_self c : c_prio_ov c <> 0 -> priority c = c_prio_ov c.
Proof. intros H. unfold priority. now apply priority_override. Qed.

Definition foundation_ok (f : string) : Prop := f = " " \/ valid_foundation_token f = true.

Lemma foundation_ok_of_wf c :
  (forall s, (checksum s < 2 ^ 32)%N) -> wf_found (c_found_ov c) = true -> foundation_ok (foundation checksum c).
Proof.
  intros Hck H. unfold foundation, foundation_with. unfold wf_found in H.
  destruct (String.eqb_spec (c_found_ov c) "") as [E|E].
  - right. unfold valid_foundation_token.
    set (n := checksum _).
    rewrite N_to_decimal_nonempty. cbn [negb andb].
    assert (Hl : (String.length (N_to_decimal n) <= 10)%nat).
    { apply N_to_decimal_length; [|lia]. specialize (Hck (foundation_input (c_type c) (c_addr c) (c_net c))).
      fold n in Hck. change (10 ^ N.of_nat 10)%N with 10000000000%N. change (2 ^ 32)%N with 4294967296%N in Hck. lia. }
    apply andb_true_iff. split.
    + apply Nat.leb_le. lia.
    + eapply all_chars_impl; [exact digit_is_ice|apply N_to_decimal_digits].
  - cbn [orb] in H. apply orb_true_iff in H. destruct H as [H|H].
    + left. now apply String.eqb_eq in H.
    + right. exact H.
Qed.

Lemma foundation_ok_printed f : foundation_ok f ->
  let f' := if String.eqb f " " then "" else f in
  all_chars is_ice_char f' = true /\ (String.length f' <= 32)%nat /\ (if String.eqb f' "" then " " else f') = f /\
  String.eqb f "" = false.
Proof.
  intros [-> | H]; cbv zeta.
  - repeat split; simpl; lia.
  - unfold valid_foundation_token in H. split_andb.
    match goal with H : negb (is_empty f) = true |- _ => apply negb_true_iff in H; rename H into Hne end.
    match goal with H : Nat.leb _ _ = true |- _ => apply Nat.leb_le in H; rename H into Hle end.
    match goal with H : all_chars _ _ = true |- _ => rename H into Hice end.
    assert (Hsp : String.eqb f " " = false).
    { apply String.eqb_neq. intros ->. discriminate. }
    rewrite Hsp, (eqb_empty_false _ Hne). repeat split; assumption.
Qed.

(* ---------------------------------------------------------------- the round trip *)

Definition rel_ok (c : cand) : Prop :=
  match c_rel c with None => True | Some r => emits_raddr r = true \/ r = ("", 0) end.

Definition first_ok (c : cand) : Prop :=
  match extensions c with
  | [] => True
  | e :: _ => is_empty (fst e) = false /\ (printed_rel c = None -> fst e <> "raddr")
  end.

(* c' is c with the printed foundation and priority as overrides *)
Definition same_candidate (c c' : cand) : Prop :=
  c_type c' = c_type c /\ c_net c' = c_net c /\ c_comp c' = c_comp c /\ c_addr c' = c_addr c /\
  c_port c' = c_port c /\ c_rel c' = c_rel c /\ c_tcp c' = c_tcp c /\ c_resolved c' = c_resolved c /\
  c_exts c' = c_exts c /\ c_found_ov c' = foundation checksum c /\ c_prio_ov c' = priority c.

Lemma emits_raddr_nonempty r : emits_raddr r = true -> is_empty (fst r) = false.
Proof.
  unfold emits_raddr. intros H.
  assert (Hn : negb (String.eqb (fst r) "") = true).
  { destruct fix_marshal_rport0; [exact H|]. apply andb_true_iff in H. tauto. }
  apply negb_true_iff in Hn. destruct (fst r); [discriminate|reflexivity].
Qed.

Lemma network_short_no_space nt : nt = 1 \/ nt = 2 \/ nt = 3 \/ nt = 4 ->
  no_space (NetworkType_NetworkShort nt) = true.
Proof. intros [-> | [-> | [-> | ->]]]; reflexivity. Qed.

Lemma roundtrip_core g c0 (l : list ext) :
  wf_config g = true -> new_candidate parse_addr g = Ok c0 ->
  Forall (fun e => wf_ext e = true) l ->
  let c := set_exts c0 l in
  foundation_ok (foundation checksum c) -> priority c <> 0 -> rel_ok c -> first_ok c ->
  exists c', unmarshal parse_addr (marshal checksum c) = Ok c' /\ same_candidate c c'.
Proof.
  intros Hwf Hnew Hl c Hf Hp Hrel Hfirst.
  pose proof (wf_config_spec g Hwf) as W.
  destruct (new_candidate_fields g c0 Hnew) as [Fty [Fcomp [Faddr [Fport [Ffound [Fprio [_ [Fnet Frel]]]]]]]].
  assert (Cty : c_type c = g_type g) by exact Fty.
  assert (Ccomp : c_comp c = g_comp g) by exact Fcomp.
  assert (Caddr : c_addr c = g_address g) by exact Faddr.
  assert (Cport : c_port c = g_port g) by exact Fport.
  assert (Cnet : c_net c = c_net c0) by reflexivity.
  assert (Ctcp : c_tcp c = c_tcp c0) by reflexivity.
  assert (Crel : c_rel c = c_rel c0) by reflexivity.
  assert (Cprio : c_prio_ov c = g_prio g) by exact Fprio.
  (* tcp range, related-address validity *)
  assert (Htcp : 0 <= c_tcp c0 <= 3).
  { destruct (Z.eqb_spec (g_type g) 1) as [E|E].
    - destruct Frel as [_ ->]. exact (wf_tcp g W E).
    - destruct Frel as [_ ->]. lia. }
  assert (Hprel : forall r, printed_rel c = Some r ->
            no_space (fst r) = true /\ is_empty (fst r) = false /\ 0 <= snd r <= 65535).
  { intros r. unfold printed_rel. rewrite Crel.
    destruct (Z.eqb_spec (g_type g) 1) as [E|E].
    - destruct Frel as [-> _]. discriminate.
    - destruct Frel as [-> _]. destruct (emits_raddr _) eqn:Em; [|discriminate].
      intros H. injection H as <-. destruct (wf_rel g W E) as [R1 R2].
      split; [exact R1|]. split; [|exact R2]. exact (emits_raddr_nonempty _ Em). }
  (* the head tokens *)
  destruct (foundation_ok_printed _ Hf) as [Hf1 [Hf2 [Hf3 Hf4]]]. cbv zeta in Hf1, Hf2, Hf3.
  destruct (print_int_props (c_comp c) 5) as [Hc1 [Hc2 [Hc3 Hc4]]];
    [rewrite Ccomp; pose proof (wf_comp g W); change (10 ^ Z.of_nat 5) with 100000; lia|lia|].
  pose proof (priority_range32 c ltac:(rewrite Cprio; exact (wf_prio g W))) as Hpr.
  destruct (print_int_props (priority c) 10) as [Hr1 [Hr2 [Hr3 Hr4]]];
    [change (10 ^ Z.of_nat 10) with 10000000000; lia|lia|].
  destruct (print_int_props (c_port c) 5) as [Ho1 [Ho2 [Ho3 Ho4]]];
    [rewrite Cport; pose proof (wf_port g W); change (10 ^ Z.of_nat 5) with 100000; lia|lia|].
  assert (Hza : strip_zone (c_addr c) = c_addr c) by (apply strip_zone_id; rewrite Caddr; exact (wf_addr g W)).
  assert (Hna : no_space (c_addr c) = true) by (apply nsnz_no_space; rewrite Caddr; exact (wf_addr g W)).
  rewrite marshal_eq. unfold printed_foundation.
  rewrite (unmarshal_line _ _ (c_comp c) _ _ (priority c) _ _ (c_port c)); try assumption.
  2: { apply network_short_no_space. rewrite Cnet. exact Fnet. }
  2: { now rewrite Hza. }
  2: { rewrite Cport. pose proof (wf_port g W). lia. }
  rewrite Hf3, !Hza.
  (* the tail *)
  unfold extensions in *. fold c in Hfirst.
  rewrite (unmarshal_tail_marshal _ _ _ _ _ _ (c_type c) (printed_rel c) (c_tcp c) l);
    [ | rewrite Cty; exact (wf_type g W) | rewrite Ctcp; exact Htcp | exact Hl | exact Hprel | ].
  2: { unfold first_ok, extensions in Hfirst. exact Hfirst. }
  assert (Hcr : 0 <= c_comp c < 65536) by (rewrite Ccomp; exact (wf_comp g W)).
  rewrite (wrap_small 16) by (change (2 ^ 16) with 65536; lia).
  rewrite (wrap_small 32) by (change (2 ^ 32) with 4294967296; lia).
  rewrite Cty, Caddr, Cport, Ccomp, Cnet, Ctcp.
  rewrite (rebuild g c0 _ _ _ _ Hnew).
  eexists. split; [reflexivity|].
  unfold same_candidate. cbn [set_exts c_type c_net c_comp c_addr c_port c_rel c_tcp c_resolved c_exts c_found_ov c_prio_ov].
  repeat split; try reflexivity.
  (* related address *)
  unfold rel_ok in Hrel. unfold printed_rel. rewrite Crel in *.
  destruct (Z.eqb_spec (g_type g) 1) as [E|E].
  - destruct Frel as [-> _]. reflexivity.
  - destruct Frel as [Er _]. rewrite Er in *.
    destruct Hrel as [Hr | Hr].
    + rewrite Hr. reflexivity.
    + rewrite Hr. destruct (emits_raddr ("", 0)); reflexivity.
Qed.

(* ---------------------------------------------------------------- consequences for getters and equality *)

Lemma same_candidate_results c c' :
  same_candidate c c' -> foundation_ok (foundation checksum c) -> priority c <> 0 ->
  observe checksum c' = observe checksum c /\ equal c c' = true /\ equal c' c = true /\
  (fix_deep_equal = true \/ c_tcp c = 0 -> deep_equal c c' = true /\ deep_equal c' c = true).
Proof.
  intros [S1 [S2 [S3 [S4 [S5 [S6 [S7 [S8 [S9 [S10 S11]]]]]]]]]] Hf Hp.
  destruct (foundation_ok_printed _ Hf) as [_ [_ [_ Hne]]].
  assert (Ef : foundation checksum c' = foundation checksum c).
  { unfold foundation at 1. unfold foundation_with. rewrite S10, Hne. reflexivity. }
  assert (Ep : priority c' = priority c).
  { rewrite priority_self; rewrite S11; [reflexivity|exact Hp]. }
  assert (Ex : extensions c' = extensions c) by (unfold extensions; now rewrite S7, S9).
  assert (Eq1 : equal c c' = true) by (apply equal_of_fields; congruence).
  assert (Eq2 : equal c' c = true) by (rewrite equal_sym; exact Eq1).
  split.
  - unfold observe. rewrite Ef, Ep, Ex, S1, S2, S3, S4, S5, S6, S7. reflexivity.
  - split; [exact Eq1|]. split; [exact Eq2|].
    intros Hd.
    assert (Hd' : fix_deep_equal = true \/ c_tcp c' = 0) by (destruct Hd as [Hd|Hd]; [left; exact Hd|right; congruence]).
    split; apply deep_equal_of_fields; try assumption; congruence.
Qed.

(* ---------------------------------------------------------------- when the computed priority is zero *)

Lemma local_pref_pos ty nt tcp rp :
  ty = 1 \/ ty = 2 \/ ty = 3 \/ ty = 4 -> nt = 1 \/ nt = 2 \/ nt = 3 \/ nt = 4 -> 0 <= tcp <= 3 ->
  0 <= rp <= 65535 -> (ty = 4 -> 1 <= rp) -> 1 <= LocalPreference ty nt tcp rp <= 65535.
Proof.
  intros Hty Hnt Htcp Hrp Hrel.
  assert (Et : tcp = 0 \/ tcp = 1 \/ tcp = 2 \/ tcp = 3) by lia.
  destruct Hty as [-> | [-> | [-> | ->]]]; destruct Hnt as [-> | [-> | [-> | ->]]];
    destruct Et as [-> | [-> | [-> | ->]]]; try (vm_compute; split; discriminate);
    cbv [LocalPreference Z.eqb Pos.eqb]; lia.
Qed.

Lemma type_pref_range4 ty nt : ty = 1 \/ ty = 2 \/ ty = 3 \/ ty = 4 -> nt = 1 \/ nt = 2 \/ nt = 3 \/ nt = 4 ->
  0 <= TypePreference ty nt false 0 <= 126.
Proof.
  intros Hty Hnt. destruct Hty as [-> | [-> | [-> | ->]]]; destruct Hnt as [-> | [-> | [-> | ->]]];
    vm_compute; split; discriminate.
Qed.

Lemma priority_computed tp lp comp : 0 <= tp <= 126 -> 0 <= lp <= 65535 ->
  Priority 0 tp lp comp = 16777216 * tp + 256 * lp + wrap 16 (256 - comp).
Proof.
  intros Htp Hlp. unfold Priority. cbn [Z.eqb negb]. cbv zeta.
  pose proof (wrap_range 16 (256 - comp) ltac:(lia)) as Hw. change (2 ^ 16) with 65536 in Hw.
  set (w := wrap 16 (256 - comp)) in *. clearbody w.
  (* whatever the shape of the translated expression: the remaining (32-bit) wraps do not wrap *)
  unwrap_goal. lia.
Qed.

(* the only candidate whose Priority() is 0: a relay over TLS (local preference 0) with
   component 256 and no priority override *)
Lemma priority_nonzero c :
  (c_type c = 1 \/ c_type c = 2 \/ c_type c = 3 \/ c_type c = 4) ->
  (c_net c = 1 \/ c_net c = 2 \/ c_net c = 3 \/ c_net c = 4) -> 0 <= c_tcp c <= 3 ->
  0 <= c_relay_pref c <= 65535 -> 0 <= c_comp c < 65536 ->
  ~ (c_type c = 4 /\ c_relay_pref c = 0 /\ c_comp c = 256 /\ c_prio_ov c = 0) ->
  priority c <> 0.
Proof.
  intros Hty Hnt Htcp Hrp Hcomp Hex. unfold priority.
  destruct (Z.eq_dec (c_prio_ov c) 0) as [E0|E0]; [|rewrite priority_override by exact E0; exact E0].
  rewrite E0.
  pose proof (type_pref_range4 _ _ Hty Hnt) as Htp.
  destruct (Z.eq_dec (c_type c) 4) as [E4|E4].
  - destruct (Z.eq_dec (c_relay_pref c) 0) as [Er|Er].
    + assert (Hl : LocalPreference (c_type c) (c_net c) (c_tcp c) (c_relay_pref c) = 0)
        by (rewrite E4, Er; reflexivity).
      rewrite Hl, priority_computed by lia.
      assert (Hc : c_comp c <> 256) by (intros Hc; apply Hex; auto).
      unfold wrap. change (2 ^ 16) with 65536.
      intros H. assert (Hm : (256 - c_comp c) mod 65536 = 0) by lia.
      apply Z.mod_divide in Hm; [|lia]. destruct Hm as [k Hk]. lia.
    + pose proof (local_pref_pos _ _ _ _ Hty Hnt Htcp Hrp ltac:(lia)) as Hlp.
      rewrite priority_computed by lia.
      pose proof (wrap_range 16 (256 - c_comp c) ltac:(lia)). lia.
  - pose proof (local_pref_pos _ _ _ _ Hty Hnt Htcp Hrp ltac:(lia)) as Hlp.
    rewrite priority_computed by lia.
    pose proof (wrap_range 16 (256 - c_comp c) ltac:(lia)). lia.
Qed.

(* ---------------------------------------------------------------- candidates built by the public API *)

Lemma new_candidate_relay_pref g c0 : new_candidate parse_addr g = Ok c0 ->
  0 <= c_relay_pref c0 <= 3 /\ (g_relayproto g = "" -> c_type c0 = 4 -> c_relay_pref c0 = 3).
Proof.
  unfold new_candidate.
  destruct (g_type g =? 1) eqn:E1.
  - apply Z.eqb_eq in E1.
    destruct (is_mdns (g_address g)).
    + intros H. injection H as <-. cbn. split; [lia|]. intros _ E. rewrite E1 in E. discriminate.
    + destruct (parse_addr (g_address g)) as [ip|]; [|discriminate].
      destruct (determine_network_type (g_network g) (ip_is4 ip)) as [nt|]; [|discriminate].
      intros H. injection H as <-. cbn. split; [lia|]. intros _ E. rewrite E1 in E. discriminate.
  - destruct ((g_type g =? 2) || (g_type g =? 3) || (g_type g =? 4)); [|discriminate].
    destruct (parse_addr (g_address g)) as [ip|]; [|discriminate].
    destruct (determine_network_type (g_network g) (ip_is4 ip)) as [nt|]; [|discriminate].
    intros H. injection H as <-. cbn.
    destruct (g_type g =? 4) eqn:E4.
    + split; [apply relay_pref_range|]. intros -> _. reflexivity.
    + split; [lia|]. intros _ E. apply Z.eqb_neq in E4. contradiction.
Qed.

Lemma set_exts_twice c a b : set_exts (set_exts c a) b = set_exts c b.
Proof. reflexivity. Qed.

Lemma replace_ext_forall (Q : ext -> Prop) e : forall l l',
  replace_ext e l = Some l' -> Forall Q l -> Q e -> Forall Q l'.
Proof.
  induction l as [|x r IH]; intros l' H Hl He; [discriminate|].
  cbn [replace_ext] in H. inversion Hl as [|? ? Hx Hr]; subst.
  destruct (String.eqb (fst x) (fst e)).
  - injection H as <-. constructor; assumption.
  - destruct (replace_ext e r) as [r'|] eqn:E; [|discriminate]. injection H as <-.
    constructor; [assumption|]. eapply IH; eauto.
Qed.

Definition valid_added (e : ext) : Prop := valid_added_ext e = true.

Lemma add_extension_valid c e : valid_added e -> Forall valid_added (c_exts c) ->
  exists l', add_extension c e = Ok (set_exts c l') /\ Forall valid_added l'.
Proof.
  intros He Hc. unfold valid_added, valid_added_ext in He. split_andb.
  repeat match goal with H : negb _ = true |- _ => apply negb_true_iff in H end.
  unfold add_extension.
  match goal with H : String.eqb (fst e) "tcptype" = false |- _ => rewrite H end.
  assert (Hk : String.eqb (fst e) "" = false) by (apply eqb_empty_false; assumption).
  rewrite Hk.
  assert (Hv : valid_added e).
  { unfold valid_added, valid_added_ext.
    repeat (apply andb_true_iff; split); try assumption; apply negb_true_iff; assumption. }
  destruct (replace_ext e (c_exts c)) as [l'|] eqn:E.
  - exists l'. split; [reflexivity|]. eapply replace_ext_forall; eauto.
  - eexists. split; [reflexivity|]. apply Forall_app. split; [exact Hc|]. constructor; [exact Hv|constructor].
Qed.

Lemma add_extensions_valid adds : Forall valid_added adds -> forall c c',
  Forall valid_added (c_exts c) -> add_extensions c adds = Ok c' ->
  exists l', c' = set_exts c l' /\ Forall valid_added l'.
Proof.
  induction 1 as [|e r He Hr IH]; intros c c' Hc H.
  - simpl in H. injection H as <-. exists (c_exts c). split; [destruct c; reflexivity|exact Hc].
  - cbn [add_extensions] in H.
    destruct (add_extension_valid c e He Hc) as [l1 [E1 H1]]. rewrite E1 in H.
    destruct (IH (set_exts c l1) c' H1 H) as [l2 [E2 H2]].
    exists l2. split; [rewrite E2; apply set_exts_twice|exact H2].
Qed.

Lemma valid_added_wf e : valid_added e -> wf_ext e = true.
Proof.
  unfold valid_added, valid_added_ext, wf_ext. intros H. split_andb.
  repeat (apply andb_true_iff; split); try assumption.
  all: try (match goal with H : negb (is_empty _) = true |- _ => rewrite H end; apply orb_true_r).
Qed.

Lemma valid_added_first e : valid_added e -> is_empty (fst e) = false /\ fst e <> "raddr".
Proof.
  unfold valid_added, valid_added_ext. intros H. split_andb.
  repeat match goal with H : negb _ = true |- _ => apply negb_true_iff in H end.
  split; [assumption|]. now apply String.eqb_neq.
Qed.

Definition prio_zero_class (c : cand) : Prop :=
  c_type c = 4 /\ c_relay_pref c = 0 /\ c_comp c = 256 /\ c_prio_ov c = 0.

Lemma ctor_roundtrip g adds c :
  (forall s, (checksum s < 2 ^ 32)%N) ->
  in_domain (SrcCtor g adds) = true -> build parse_addr (SrcCtor g adds) = Ok c ->
  rel_ok c -> ~ prio_zero_class c ->
  exists c', unmarshal parse_addr (marshal checksum c) = Ok c' /\
    observe checksum c' = observe checksum c /\ equal c c' = true /\ equal c' c = true /\
    (fix_deep_equal = true \/ c_tcp c = 0 -> deep_equal c c' = true /\ deep_equal c' c = true).
Proof.
  intros Hck Hdom Hb Hrel Hpz.
  cbn [in_domain] in Hdom. apply andb_true_iff in Hdom. destruct Hdom as [Hvc Hadds].
  pose proof (valid_config_wf g Hvc) as Hwf.
  pose proof (wf_config_spec g Hwf) as W.
  cbn [build] in Hb. destruct (new_candidate parse_addr g) as [c0|] eqn:Hnew; [|discriminate].
  destruct (new_candidate_fields g c0 Hnew) as [Fty [Fcomp [Faddr [Fport [Ffound [Fprio [Fex [Fnet Frel]]]]]]]].
  assert (Hadds' : Forall valid_added adds) by (apply Forall_forall; rewrite forallb_forall in Hadds; exact Hadds).
  destruct (add_extensions_valid adds Hadds' c0 c ltac:(rewrite Fex; constructor) Hb) as [l [Ec Hl]].
  assert (Hlw : Forall (fun e => wf_ext e = true) l)
    by (eapply Forall_impl; [|exact Hl]; intros e He; now apply valid_added_wf).
  assert (Htcp : 0 <= c_tcp c0 <= 3).
  { destruct (Z.eqb_spec (g_type g) 1) as [E|E]; destruct Frel as [_ ->]; [exact (wf_tcp g W E)|lia]. }
  destruct (new_candidate_relay_pref g c0 Hnew) as [Hrp _].
  subst c.
  assert (Hf : foundation_ok (foundation checksum (set_exts c0 l))).
  { apply foundation_ok_of_wf; [exact Hck|]. cbn [set_exts c_found_ov]. rewrite Ffound. exact (wf_fnd g W). }
  assert (Hp : priority (set_exts c0 l) <> 0).
  { apply priority_nonzero; cbn [set_exts c_type c_net c_tcp c_relay_pref c_comp]; try assumption.
    - rewrite Fty. exact (wf_type g W).
    - lia.
    - rewrite Fcomp. exact (wf_comp g W). }
  assert (Hfirst : first_ok (set_exts c0 l)).
  { unfold first_ok, extensions. cbn [set_exts c_tcp c_exts].
    destruct (c_tcp c0 =? 0).
    - destruct l as [|e r]; [exact I|]. inversion Hl as [|? ? Hve Hvr]; subst.
      destruct (valid_added_first e Hve) as [Hk1 Hk2]. split; [exact Hk1|]. intros _. exact Hk2.
    - cbn [fst]. split; [reflexivity|]. intros _. discriminate. }
  destruct (roundtrip_core g c0 l Hwf Hnew Hlw Hf Hp Hrel Hfirst) as [c' [Hu Hs]].
  exists c'. split; [exact Hu|]. exact (same_candidate_results _ _ Hs Hf Hp).
Qed.

(* ---------------------------------------------------------------- what UnmarshalCandidate accepts *)

Lemma read_port_inv s p r : read_port s = Some (p, r) -> 0 <= p <= 65535.
Proof.
  unfold read_port. destruct (read_digit_token 5 0 0 s) as [[v r']|] eqn:E; [|discriminate].
  destruct (Z.ltb_spec 65535 v) as [Hgt|Hle]; [discriminate|]. intros Hi. injection Hi as <- <-.
  destruct (rdt_inv _ _ _ _ _ _ E ltac:(lia)) as [t [Hd [_ [Hv _]]]].
  pose proof (digits_value_lower 0 t Hd ltac:(lia)). lia.
Qed.

Lemma rdt_nonneg limit s v r : read_digit_token limit 0 0 s = Some (v, r) -> 0 <= v.
Proof.
  intros E. destruct (rdt_inv _ _ _ _ _ _ E ltac:(lia)) as [t [Hd [_ [Hv _]]]].
  pose proof (digits_value_lower 0 t Hd ltac:(lia)). lia.
Qed.

Lemma try_read_rel_inv s ra rp r : try_read_rel s = Some (ra, rp, r) ->
  no_space ra = true /\ 0 <= rp <= 65535.
Proof.
  unfold try_read_rel. destruct (read_string_token s) as [k r1].
  destruct (negb (String.eqb k "raddr")); [intros H; injection H as <- <- _; split; [reflexivity|lia]|].
  destruct (is_empty r1); [discriminate|].
  destruct (read_string_token r1) as [a r2] eqn:Ea.
  destruct (fix_empty_raddr && is_empty a); [discriminate|].
  destruct (is_empty r2); [discriminate|].
  destruct (read_string_token r2) as [k2 r3].
  destruct (negb (String.eqb k2 "rport")); [discriminate|].
  destruct (is_empty r3); [discriminate|].
  destruct (read_port r3) as [[p r4]|] eqn:Ep; [|discriminate].
  intros H. injection H as <- <- _. split; [now destruct (rst_inv _ _ _ Ea)|exact (read_port_inv _ _ _ Ep)].
Qed.

Lemma new_tcp_type_range v : 0 <= new_tcp_type v <= 3.
Proof.
  unfold new_tcp_type, NewTCPType_lowered.
  repeat match goal with |- context [String.eqb ?a ?b] => destruct (String.eqb a b) end; lia.
Qed.

Lemma wf_config_intro g :
  (g_type g = 1 \/ g_type g = 2 \/ g_type g = 3 \/ g_type g = 4) ->
  0 <= g_port g <= 65535 -> 0 <= g_comp g < 65536 -> 0 <= g_prio g < 4294967296 ->
  wf_found (g_found g) = true -> no_space_no_zone (g_address g) = true ->
  0 <= g_tcp g <= 3 -> no_space (g_reladdr g) = true -> 0 <= g_relport g <= 65535 ->
  wf_config g = true.
Proof.
  intros Hty Hport Hcomp Hprio Hf Ha Htcp Hra Hrp. unfold wf_config.
  repeat (apply andb_true_iff; split); try assumption;
    try (apply Z.leb_le; lia); try (apply Z.ltb_lt; lia).
  - destruct Hty as [-> | [-> | [-> | ->]]]; reflexivity.
  - destruct (g_type g =? 1); repeat (apply andb_true_iff; split); try assumption; apply Z.leb_le; lia.
Qed.

Lemma unmarshal_tail_inv found comp proto prio addr port r c :
  unmarshal_tail parse_addr found comp proto prio addr port r = Ok c ->
  exists ty tcp ra rp (l : list ext) c0,
    (ty = 1 \/ ty = 2 \/ ty = 3 \/ ty = 4) /\ 0 <= tcp <= 3 /\ no_space ra = true /\ 0 <= rp <= 65535 /\
    Forall (fun e => wf_ext e = true) l /\
    new_candidate parse_addr
      {| g_type := ty; g_network := proto; g_address := addr; g_port := port; g_comp := wrap 16 comp;
         g_prio := wrap 32 prio; g_found := found; g_tcp := tcp; g_reladdr := ra; g_relport := rp;
         g_relayproto := "" |} = Ok c0 /\ c = set_exts c0 l.
Proof.
  unfold unmarshal_tail. destruct (is_empty r); [discriminate|].
  destruct (read_string_token r) as [typ r1].
  destruct (try_read_rel r1) as [[[ra rp] r2]|] eqn:Er; [|discriminate].
  destruct (try_read_rel_inv _ _ _ _ Er) as [Hra Hrp].
  destruct (if is_empty r2 then Ok ([], "") else unmarshal_extensions r2) as [[l tcpraw]|] eqn:Ee; [|discriminate].
  assert (Hl : Forall (fun e => wf_ext e = true) l).
  { destruct (is_empty r2); [injection Ee as <- _; constructor|]. now destruct (unmarshal_extensions_wf _ _ _ Ee). }
  set (tcp := if String.eqb tcpraw "" then 0 else new_tcp_type tcpraw).
  assert (Htcp : 0 <= tcp <= 3).
  { subst tcp. destruct (String.eqb tcpraw ""); [lia|apply new_tcp_type_range]. }
  destruct (negb (String.eqb tcpraw "") && (tcp =? 0)); [discriminate|].
  set (ty := if String.eqb typ "host" then 1 else if String.eqb typ "srflx" then 2
             else if String.eqb typ "prflx" then 3 else if String.eqb typ "relay" then 4 else 0).
  assert (Hty : ty = 0 \/ ty = 1 \/ ty = 2 \/ ty = 3 \/ ty = 4).
  { subst ty. repeat match goal with |- context [String.eqb ?a ?b] => destruct (String.eqb a b) end; auto. }
  destruct (Z.eqb_spec ty 0) as [|Hn]; [discriminate|].
  destruct (new_candidate parse_addr _) as [c0|] eqn:En; [|discriminate].
  intros H. injection H as <-.
  exists ty, tcp, ra, rp, l, c0. repeat split; try assumption; try lia.
Qed.

Lemma unmarshal_inv raw c : unmarshal parse_addr raw = Ok c ->
  exists g c0 (l : list ext), wf_config g = true /\ g_relayproto g = "" /\
    new_candidate parse_addr g = Ok c0 /\ c = set_exts c0 l /\ Forall (fun e => wf_ext e = true) l.
Proof.
  unfold unmarshal.
  destruct (read_char_token 32 0 _) as [[found r1]|] eqn:Ef; [|discriminate].
  destruct (is_empty r1); [discriminate|].
  destruct (read_digit_token 5 0 0 r1) as [[comp r2]|] eqn:Ec; [|discriminate].
  destruct (is_empty r2); [discriminate|].
  destruct (read_string_token r2) as [proto r3].
  destruct (is_empty r3); [discriminate|].
  destruct (read_digit_token 10 0 0 r3) as [[prio r4]|] eqn:Ep; [|discriminate].
  destruct (is_empty r4); [discriminate|].
  destruct (read_string_token r4) as [addr r5] eqn:Ea.
  destruct (is_empty r5); [discriminate|].
  destruct (read_port r5) as [[port r6]|] eqn:Eo; [|discriminate].
  destruct (read_string_token r6) as [tk r7].
  destruct (negb (String.eqb tk "typ")); [discriminate|].
  intros H. destruct (unmarshal_tail_inv _ _ _ _ _ _ _ _ H) as [ty [tcp [ra [rp [l [c0 [Hty [Htcp [Hra [Hrp [Hl [Hn Hc]]]]]]]]]]]].
  eexists. exists c0, l. split; [|split; [|split; [exact Hn|split; [exact Hc|exact Hl]]]]; [|reflexivity].
  apply wf_config_intro; cbn [g_type g_port g_comp g_prio g_found g_address g_tcp g_reladdr g_relport];
    try assumption.
  - exact (read_port_inv _ _ _ Eo).
  - change 65536 with (2 ^ 16). apply wrap_range. lia.
  - change 4294967296 with (2 ^ 32). apply wrap_range. lia.
  - destruct (rct_inv _ _ _ _ _ Ef) as [Hi [Hlen _]]. specialize (Hlen ltac:(lia)). simpl in Hlen.
    unfold wf_found. destruct (String.eqb_spec found "") as [->|Hne]; [reflexivity|].
    apply orb_true_iff. right. unfold valid_foundation_token.
    destruct found; [contradiction|]. cbn [is_empty negb andb].
    apply andb_true_iff. split; [apply Nat.leb_le; exact Hlen|exact Hi].
  - apply strip_zone_valid. now destruct (rst_inv _ _ _ Ea).
Qed.

Lemma text_roundtrip raw c :
  (forall s, (checksum s < 2 ^ 32)%N) ->
  unmarshal parse_addr raw = Ok c -> rel_ok c -> first_ok c ->
  exists c', unmarshal parse_addr (marshal checksum c) = Ok c' /\
    observe checksum c' = observe checksum c /\ equal c c' = true /\ equal c' c = true /\
    (fix_deep_equal = true \/ c_tcp c = 0 -> deep_equal c c' = true /\ deep_equal c' c = true).
Proof.
  intros Hck Hu Hrel Hfirst.
  destruct (unmarshal_inv raw c Hu) as [g [c0 [l [Hwf [Hproto [Hnew [Ec Hl]]]]]]].
  pose proof (wf_config_spec g Hwf) as W.
  destruct (new_candidate_fields g c0 Hnew) as [Fty [Fcomp [Faddr [Fport [Ffound [Fprio [Fex [Fnet Frel]]]]]]]].
  destruct (new_candidate_relay_pref g c0 Hnew) as [Hrp Hrp3].
  assert (Htcp : 0 <= c_tcp c0 <= 3).
  { destruct (Z.eqb_spec (g_type g) 1) as [E|E]; destruct Frel as [_ ->]; [exact (wf_tcp g W E)|lia]. }
  subst c.
  assert (Hf : foundation_ok (foundation checksum (set_exts c0 l))).
  { apply foundation_ok_of_wf; [exact Hck|]. cbn [set_exts c_found_ov]. rewrite Ffound. exact (wf_fnd g W). }
  assert (Hp : priority (set_exts c0 l) <> 0).
  { apply priority_nonzero; cbn [set_exts c_type c_net c_tcp c_relay_pref c_comp]; try assumption.
    - rewrite Fty. exact (wf_type g W).
    - lia.
    - rewrite Fcomp. exact (wf_comp g W).
    - intros [E4 [E0 _]]. rewrite (Hrp3 Hproto E4) in E0. discriminate. }
  destruct (roundtrip_core g c0 l Hwf Hnew Hl Hf Hp Hrel Hfirst) as [c' [Hu' Hs]].
  exists c'. split; [exact Hu'|]. exact (same_candidate_results _ _ Hs Hf Hp).
Qed.

End RT.
