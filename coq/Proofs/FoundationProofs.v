From Coq Require Import ZArith NArith String Ascii List Lia DecimalString DecimalN DecimalFacts.
From Ice Require Import Model.Crc32 Model.Foundation Model.PrioSpec Gen.Names Proofs.PrioProofs.
Import ListNotations.
Local Open Scope string_scope.

Lemma append_assoc (a b c : string) : (a ++ b) ++ c = a ++ (b ++ c).
Proof. induction a as [|x a IH]; simpl; [reflexivity|now rewrite IH]. Qed.

Lemma append_length (a b : string) : String.length (a ++ b) = (String.length a + String.length b)%nat.
Proof. induction a as [|x a IH]; simpl; [reflexivity|now rewrite IH]. Qed.

Lemma append_inj_l (a b c : string) : a ++ b = a ++ c -> b = c.
Proof. induction a as [|x a IH]; simpl; intros H; [exact H|]. injection H as H. auto. Qed.

(* equal-length suffixes can be cancelled *)
Lemma append_inj_r (a b c d : string) :
  String.length c = String.length d -> a ++ c = b ++ d -> a = b /\ c = d.
Proof.
  revert b. induction a as [|x a IH]; intros b Hl H.
  - destruct b as [|y b]; simpl in *; [auto|].
    exfalso. apply (f_equal String.length) in H. simpl in H. rewrite append_length in H. lia.
  - destruct b as [|y b]; simpl in *.
    + exfalso. apply (f_equal String.length) in H. simpl in H. rewrite append_length in H. lia.
    + injection H as Hx H. destruct (IH b Hl H) as [-> ->]. subst. auto.
Qed.

Lemma net_name_length nt : In nt net_types -> String.length (NetworkType_String nt) = 4%nat.
Proof. intros H. unfold net_types in H. simpl in H. enum H; reflexivity. Qed.

Lemma net_name_inj a b : In a net_types -> In b net_types ->
  NetworkType_String a = NetworkType_String b -> a = b.
Proof.
  intros Ha Hb. unfold net_types in *. simpl in Ha, Hb. enum Ha; enum Hb; vm_compute; intros H; congruence.
Qed.

(* the five type names are pairwise not prefixes of each other *)
Lemma type_name_prefix_free a b x y : In a cand_types -> In b cand_types ->
  CandidateType_String a ++ x = CandidateType_String b ++ y ->
  CandidateType_String a = CandidateType_String b /\ x = y.
Proof.
  intros Ha Hb. unfold cand_types in *. simpl in Ha, Hb.
  enum Ha; enum Hb; cbv [CandidateType_String Z.eqb Pos.eqb]; simpl; intros H;
    try (split; [reflexivity|]); try congruence;
    repeat match goal with H : String _ _ = String _ _ |- _ => injection H as ? H end; try congruence.
Qed.

Lemma type_name_inj a b : In a cand_types -> In b cand_types -> a <> 0%Z -> b <> 0%Z ->
  CandidateType_String a = CandidateType_String b -> a = b.
Proof.
  intros Ha Hb Ha0 Hb0. unfold cand_types in *. simpl in Ha, Hb.
  enum Ha; enum Hb; vm_compute; intros H; congruence.
Qed.

Lemma foundation_input_injective ty ty' addr addr' nt nt' :
  In ty cand_types -> In ty' cand_types -> ty <> 0%Z -> ty' <> 0%Z ->
  In nt net_types -> In nt' net_types ->
  foundation_input ty addr nt = foundation_input ty' addr' nt' ->
  ty = ty' /\ addr = addr' /\ nt = nt'.
Proof.
  intros Hty Hty' H0 H0' Hnt Hnt' H. unfold foundation_input in H.
  destruct (type_name_prefix_free _ _ _ _ Hty Hty' H) as [Ht Hrest].
  assert (Hlen : String.length (NetworkType_String nt) = String.length (NetworkType_String nt'))
    by (rewrite !net_name_length by assumption; reflexivity).
  destruct (append_inj_r _ _ _ _ Hlen Hrest) as [Ha Hn].
  repeat split; [exact (type_name_inj ty ty' Hty Hty' H0 H0' Ht) | exact Ha | exact (net_name_inj nt nt' Hnt Hnt' Hn)].
Qed.

Lemma N_to_uint_nonnil n : N.to_uint n <> Decimal.Nil.
Proof. destruct n; simpl; [discriminate|apply DecimalPos.Unsigned.to_uint_nonnil]. Qed.

Lemma N_to_decimal_inj a b : N_to_decimal a = N_to_decimal b -> a = b.
Proof.
  unfold N_to_decimal. intros H.
  apply (f_equal NilZero.uint_of_string) in H.
  rewrite !NilZero.usu in H by apply N_to_uint_nonnil.
  injection H as H. now apply DecimalN.Unsigned.to_uint_inj.
Qed.

Section Foundation.
  Variable checksum : string -> N.

  (* equal (type, address, network type) => equal foundation *)
  Lemma foundation_congr ty addr nt :
    foundation_with checksum "" ty addr nt = foundation_with checksum "" ty addr nt.
  Proof. reflexivity. Qed.

  (* equal foundations => equal triple, or a checksum collision *)
  Lemma foundation_eq_inv ty ty' addr addr' nt nt' :
    In ty cand_types -> In ty' cand_types -> ty <> 0%Z -> ty' <> 0%Z ->
    In nt net_types -> In nt' net_types ->
    foundation_with checksum "" ty addr nt = foundation_with checksum "" ty' addr' nt' ->
    (ty = ty' /\ addr = addr' /\ nt = nt') \/
    (foundation_input ty addr nt <> foundation_input ty' addr' nt' /\
     checksum (foundation_input ty addr nt) = checksum (foundation_input ty' addr' nt')).
  Proof.
    intros Hty Hty' H0 H0' Hnt Hnt' H. unfold foundation_with in H. simpl in H.
    apply N_to_decimal_inj in H.
    destruct (string_dec (foundation_input ty addr nt) (foundation_input ty' addr' nt')) as [E|NE].
    - left. eapply foundation_input_injective; eassumption.
    - right. split; assumption.
  Qed.
End Foundation.
