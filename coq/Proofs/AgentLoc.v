(* Local candidates are pairwise different (as candidates) and every pair's local candidate is one of them:
   an invariant of every operation while the agent is open.  Needed to identify the socket a pair uses. *)
From Coq Require Import ZArith Bool List Lia.
From Ice Require Import Model.AgentTypes Model.AgentCore Gen.Consts Gen.Lifecycle Proofs.AgentFrame Proofs.AgentC03Sel.
Import ListNotations.
Local Open Scope Z_scope.

Definition LocU (s : state) : Prop :=
  forall a b, In a (s_locals s) -> In b (s_locals s) -> cand_equal a b = true -> a = b.
Definition PairsLoc (s : state) : Prop := Forall (fun p => In (p_loc p) (s_locals s)) (s_checklist s).
Definition L (s : state) : Prop := LocU s /\ PairsLoc s.

Definition l_view (s : state) := (s_locals s, map p_loc (s_checklist s)).
Lemma L_view s s' : l_view s' = l_view s -> L s -> L s'.
Proof.
  unfold l_view, L, LocU, PairsLoc. intros E. injection E as E1 E2. rewrite E1. intros [H1 H2]. split; [exact H1|].
  rewrite Forall_forall in *. intros p Hp.
  assert (Hin : In (p_loc p) (map p_loc (s_checklist s'))) by (apply in_map; exact Hp).
  rewrite E2 in Hin. apply in_map_iff in Hin. destruct Hin as [q [Eq Hq]]. rewrite <- Eq. apply H2. exact Hq.
Qed.

Lemma L_empty s : s_locals s = [] -> s_checklist s = [] -> L s.
Proof. intros E1 E2. split; [unfold LocU; rewrite E1; intros a b []|unfold PairsLoc; rewrite E2; constructor]. Qed.

Lemma L_upd id f s : (forall q, p_loc (f q) = p_loc q) -> L s -> L (upd id f s).
Proof.
  intros Hf H. eapply L_view; [|exact H]. unfold l_view, upd. cbn. f_equal. rewrite map_map. apply map_ext.
  intros q. destruct (p_id q =? id); [apply Hf|reflexivity].
Qed.

Lemma L_add_pair l r s : In l (s_locals s) -> L s -> L (fst (add_pair l r s)).
Proof.
  intros Hl [H1 H2]. split; [exact H1|]. unfold PairsLoc in *. cbn. apply Forall_app. split; [exact H2|].
  constructor; [exact Hl|constructor].
Qed.

Lemma L_update_conn st s : L s -> L (fst (update_conn st s)).
Proof.
  intros H. unfold update_conn. destruct (s_conn s =? st); [exact H|].
  destruct (st =? ConnectionStateFailed); cbn [fst]; [apply L_empty; reflexivity|eapply L_view; [|exact H]; reflexivity].
Qed.

Lemma locals_update_conn_live st s : st <> ConnectionStateFailed -> s_locals (fst (update_conn st s)) = s_locals s.
Proof.
  intros H. unfold update_conn. destruct (s_conn s =? st); [reflexivity|]. apply Z.eqb_neq in H. rewrite H. reflexivity.
Qed.

Definition Ll (l : cand) (s : state) : Prop := s_closed s = true \/ (L s /\ In l (s_locals s)).
Definition Lc (s : state) : Prop := s_closed s = true \/ L s.

Lemma closed_update_conn st s : s_closed (fst (update_conn st s)) = s_closed s.
Proof. unfold update_conn. destruct (s_conn s =? st); [reflexivity|]. destruct (st =? ConnectionStateFailed); reflexivity. Qed.

Lemma Ll_update_conn_live l st : st <> ConnectionStateFailed -> satG (Ll l) mp_true (update_conn st).
Proof.
  intros Hst s [Hc|[HL Hin]]; (split; [exact I|]).
  - left. rewrite closed_update_conn. exact Hc.
  - right. split; [apply L_update_conn; exact HL|rewrite locals_update_conn_live by exact Hst; exact Hin].
Qed.

Ltac ll_leaf :=
  match goal with
  | |- satG (Ll _) mp_true (update_conn ConnectionStateConnected) => apply Ll_update_conn_live; discriminate
  | |- satG (Ll _) mp_true (emit _) => apply satG_emit; intros ?s ?Hg; exact I
  | |- satG (Ll ?l) mp_true (add_pair ?l _) =>
    apply satG_modify; intros ?s [?Hc|[?HL ?Hin]]; (split; [exact I|]);
    [left; cbn; assumption|right; split; [apply (L_add_pair l _ _ Hin HL)|cbn; assumption]]
  | |- satG (Ll _) mp_true (upd_pair _ _) =>
    apply satG_upd_pair; intros ?s [?Hc|[?HL ?Hin]]; (split; [exact I|]);
    [left; cbn; assumption|right; split; [apply L_upd; [cbn; intros; reflexivity|assumption]|cbn; assumption]]
  | |- satG (Ll _) mp_true (modify _) =>
    apply satG_modify; intros ?s [?Hc|[?HL ?Hin]]; (split; [exact I|]);
    [left; cbn; destruct_matches; first [assumption|reflexivity]
    |right; split; [eapply L_view; [|eassumption]; cbn; destruct_matches; reflexivity|cbn; destruct_matches; assumption]]
  end.

Create HintDb agentcore_ll.
#[export] Hint Unfold seen fresh_tx invalidate_pending send_binding_request ping_candidate
  nominate_pair send_binding_success retarget_cache copy_activity
  set_selector check_keepalive handle_request_controlling handle_success_controlling
  handle_success_controlled accept_nomination handle_request_controlled handle_role_conflict
  handle_inbound_request handle_inbound dispatch_request dispatch_success set_selected reselect : agentcore_ll.

(* closed is sticky inside every block that does not reopen (only init opens) *)
Definition Closed (s : state) : Prop := s_closed s = true.
Ltac closed_tac := cbn; let H := fresh in intros H; cbn; destruct_matches; first [exact H|reflexivity].
Lemma closed_update_conn_p st : sat (preserves Closed) (update_conn st).
Proof. intros s. cbn. unfold Closed. rewrite closed_update_conn. auto. Qed.
Ltac closed_auto := sat_decompose; try apply closed_update_conn_p; try (sat_base closed_tac).

Lemma closed_replace old new : sat (preserves Closed) (replace_remote_in_pairs old new).
Proof. closed_auto. Qed.

Lemma locals_reselect pid s : s_locals (fst (reselect pid s)) = s_locals s.
Proof.
  unfold reselect. rewrite with_state_eq. destruct (s_selected s) as [id|]; [|reflexivity].
  destruct (id =? pid); [|reflexivity]. unfold set_selected. rewrite !seq_fst, upd_pair_fst, modify_fst. unfold emit. cbn [fst].
  rewrite locals_update_conn_live by discriminate. reflexivity.
Qed.

Lemma L_reselect pid s : L s -> L (fst (reselect pid s)).
Proof.
  intros H. unfold reselect. rewrite with_state_eq. destruct (s_selected s) as [id|]; [|exact H].
  destruct (id =? pid); [|exact H]. unfold set_selected. rewrite !seq_fst, upd_pair_fst, modify_fst. unfold emit. cbn [fst].
  apply L_update_conn. eapply L_view; [|apply (L_upd id (set_p_nominated true) s); [reflexivity|exact H]]. reflexivity.
Qed.

Lemma L_upd_const id repl s : In (p_loc repl) (s_locals s) -> L s -> L (upd id (fun _ => repl) s).
Proof.
  intros Hr [H1 H2]. split; [exact H1|]. unfold PairsLoc, upd in *. cbn. rewrite Forall_forall in *. intros q Hq.
  apply in_map_iff in Hq. destruct Hq as [q0 [E Hq0]]. destruct (p_id q0 =? id); subst q; [exact Hr|apply H2; exact Hq0].
Qed.

Lemma L_replace_remote old new s : L s -> L (fst (replace_remote_in_pairs old new s)) /\ s_locals (fst (replace_remote_in_pairs old new s)) = s_locals s.
Proof.
  intros H. unfold replace_remote_in_pairs. rewrite with_state_eq.
  set (Lst := filter (fun p => c_h (p_rem p) =? c_h old) (s_checklist s)).
  assert (HL : Forall (fun p => In (p_loc p) (s_locals s)) Lst).
  { destruct H as [_ H2]. unfold PairsLoc in H2. rewrite Forall_forall in *. intros p Hp. apply filter_In in Hp. apply H2. tauto. }
  clearbody Lst.
  assert (Hgen : forall locs s0, L s0 -> s_locals s0 = locs -> Forall (fun p => In (p_loc p) locs) Lst ->
            L (fst (for_each Lst (fun p => let repl := set_p_prio_ov (Some (pair_priority p)) (set_p_rem new p) in
                 upd_pair (p_id p) (fun _ => repl) ;;
                 modify (fun s => match s_nominated s with
                                  | Some np => if p_id np =? p_id p then set_s_nominated (Some repl) s else s
                                  | None => s end) ;;
                 reselect (p_id p)) s0)) /\
            s_locals (fst (for_each Lst (fun p => let repl := set_p_prio_ov (Some (pair_priority p)) (set_p_rem new p) in
                 upd_pair (p_id p) (fun _ => repl) ;;
                 modify (fun s => match s_nominated s with
                                  | Some np => if p_id np =? p_id p then set_s_nominated (Some repl) s else s
                                  | None => s end) ;;
                 reselect (p_id p)) s0)) = locs).
  2: { destruct (Hgen (s_locals s) s H eq_refl HL) as [A B]. split; [exact A|exact B]. }
  clear s H HL. induction Lst as [|p t IH]; intros locs s H Eloc HL; cbn [for_each]; [split; [exact H|exact Eloc]|].
  pose proof (Forall_inv HL) as Hp. pose proof (Forall_inv_tail HL) as Ht. cbn beta in Hp.
  rewrite seq_fst.
  set (s1 := fst ((upd_pair (p_id p) (fun _ => set_p_prio_ov (Some (pair_priority p)) (set_p_rem new p));;
                   modify (fun s0 => match s_nominated s0 with
                                     | Some np => if p_id np =? p_id p then set_s_nominated (Some (set_p_prio_ov (Some (pair_priority p)) (set_p_rem new p))) s0 else s0
                                     | None => s0 end);; reselect (p_id p)) s)).
  assert (H1 : L s1 /\ s_locals s1 = s_locals s).
  { unfold s1. rewrite !seq_fst, upd_pair_fst, modify_fst. split.
    - apply L_reselect. eapply L_view; [|apply (L_upd_const (p_id p) (set_p_prio_ov (Some (pair_priority p)) (set_p_rem new p)) s); [rewrite Eloc; exact Hp|exact H]].
      cbn. destruct_matches; reflexivity.
    - rewrite locals_reselect. cbn. destruct_matches; reflexivity. }
  destruct H1 as [H1 E1]. apply (IH locs s1 H1); [rewrite E1; exact Eloc|exact Ht].
Qed.

(* the pairing loop of addRemoteCandidate: each local of the candidate's network type gets a pair *)
Lemma L_pairing c locs0 s :
  L s -> Forall (fun l' => In l' (s_locals s)) locs0 ->
  let f := for_each locs0 (fun l' => with_state (find_pair l' c) (fun op => match op with Some _ => nop | None => add_pair l' c end)) in
  L (fst (f s)) /\ s_locals (fst (f s)) = s_locals s.
Proof.
  revert s. induction locs0 as [|l' t IH]; intros s H HL; cbn [for_each]; [split; [exact H|reflexivity]|].
  pose proof (Forall_inv HL) as Hl. pose proof (Forall_inv_tail HL) as Ht. cbn beta in Hl.
  rewrite seq_fst. rewrite with_state_eq.
  set (s1 := fst (match find_pair l' c s with Some _ => nop | None => add_pair l' c end s)).
  assert (H1 : L s1 /\ s_locals s1 = s_locals s).
  { unfold s1. destruct (find_pair l' c s); [split; [exact H|reflexivity]|]. split; [apply L_add_pair; assumption|reflexivity]. }
  destruct H1 as [H1 E1]. destruct (IH s1 H1) as [H2 E2]; [rewrite E1; exact Ht|].
  split; [exact H2|]. rewrite E2. exact E1.
Qed.

Lemma L_add_remote_body c set s :
  L s -> L (fst (add_remote_body c set s)) /\ s_locals (fst (add_remote_body c set s)) = s_locals s.
Proof.
  intros H. unfold add_remote_body. rewrite seq_fst, modify_fst.
  set (s1 := set_s_remotes _ s). assert (H1 : L s1 /\ s_locals s1 = s_locals s) by (split; [eapply L_view; [|exact H]; reflexivity|reflexivity]).
  destruct H1 as [H1 E1]. rewrite seq_fst.
  (* superseding loop *)
  assert (Hloop : forall reds s0, L s0 ->
            L (fst (for_each reds (fun old => copy_activity old c ;; replace_remote_in_pairs old c ;; retarget_cache old c) s0)) /\
            s_locals (fst (for_each reds (fun old => copy_activity old c ;; replace_remote_in_pairs old c ;; retarget_cache old c) s0)) = s_locals s0).
  { induction reds as [|old t IH]; intros s0 H0; cbn [for_each]; [split; [exact H0|reflexivity]|].
    rewrite seq_fst.
    set (s2 := fst ((copy_activity old c ;; replace_remote_in_pairs old c ;; retarget_cache old c) s0)).
    assert (H2 : L s2 /\ s_locals s2 = s_locals s0).
    { unfold s2. rewrite !seq_fst. unfold copy_activity at 1, retarget_cache. rewrite !modify_fst.
      set (s3 := match assoc_get (c_h old) (s_lastrecv s0), assoc_get (c_h c) (s_lastrecv s0) with
                 | Some t0, None => set_s_lastrecv (assoc_set (c_h c) t0 (s_lastrecv s0)) s0 | _, _ => s0 end).
      assert (H3 : L s3 /\ s_locals s3 = s_locals s0).
      { unfold s3. destruct (assoc_get (c_h old) (s_lastrecv s0)); [destruct (assoc_get (c_h c) (s_lastrecv s0))|];
          (split; [first [exact H0|eapply L_view; [|exact H0]; reflexivity]|reflexivity]). }
      destruct H3 as [H3 E3]. destruct (L_replace_remote old c s3 H3) as [H4 E4].
      split; [eapply L_view; [|exact H4]; reflexivity|].
      transitivity (s_locals (fst (replace_remote_in_pairs old c s3))); [reflexivity|]. rewrite E4. exact E3. }
    destruct H2 as [H2 E2]. destruct (IH s2 H2) as [H5 E5]. split; [exact H5|]. rewrite E5. exact E2. }
  match goal with |- context [for_each ?reds ?body] =>
    destruct (Hloop reds s1 H1) as [H2 E2]; set (s2 := fst (for_each reds body s1)) in * end.
  rewrite seq_fst, modify_fst.
  set (s3 := set_s_remotes (s_remotes s2 ++ [c]) s2).
  assert (H3 : L s3 /\ s_locals s3 = s_locals s2) by (split; [eapply L_view; [|exact H2]; reflexivity|reflexivity]).
  destruct H3 as [H3 E3].
  destruct (c_tcp c =? TCPTypePassive); [unfold nop; cbn [fst]; split; [exact H3|rewrite E3, E2; exact E1]|].
  rewrite with_state_eq.
  destruct (L_pairing c (filter (fun l0 => c_net l0 =? c_net c) (s_locals s3)) s3 H3) as [H4 E4].
  { rewrite Forall_forall. intros x Hx. apply filter_In in Hx. tauto. }
  split; [exact H4|]. rewrite E4, E3, E2. exact E1.
Qed.
Lemma closed_add_remote_body c set : sat (preserves Closed) (add_remote_body c set).
Proof. closed_auto. Qed.

Lemma Ll_add_remote l cfg c k : (forall ok, satG (Ll l) mp_true (k ok)) -> satG (Ll l) mp_true (add_remote cfg c k).
Proof.
  intros Hk. unfold add_remote. apply satG_with_state. intros s0 _. cbv beta iota.
  set (set := filter (fun e => c_net e =? c_net c) (s_remotes s0)). clearbody set.
  destruct (s_conn s0 =? ConnectionStateFailed); [apply Hk|].
  destruct (negb (accepts_remote cfg c)); [apply Hk|].
  destruct (existsb (fun e => cand_equal e c) set); [apply Hk|].
  apply satG_seq; [|apply Hk].
  intros s [Hc|[HL Hin]]; (split; [exact I|]).
  - left. exact (closed_add_remote_body c set s Hc).
  - right. destruct (L_add_remote_body c set s HL) as [H1 E1]. split; [exact H1|rewrite E1; exact Hin].
Qed.

Theorem Ll_handle_inbound cfg l src m : satG (Ll l) mp_true (handle_inbound cfg l src m).
Proof.
  autounfold with agentcore_ll. satG_split_eq. all: try ll_leaf.
  all: apply Ll_add_remote; intros ok; satG_split_eq; ll_leaf.
Qed.

(* ---- every operation ---------------------------------------------------------------------------------- *)
Lemma Lc_update_conn st : satG Lc mp_true (update_conn st).
Proof.
  intros s [Hc|HL]; (split; [exact I|]); [left; rewrite closed_update_conn; exact Hc|right; apply L_update_conn; exact HL].
Qed.

Ltac lc_leaf :=
  match goal with
  | |- satG Lc mp_true (update_conn _) => apply Lc_update_conn
  | |- satG Lc mp_true (emit _) => apply satG_emit; intros ?s ?Hg; exact I
  | |- satG Lc mp_true (upd_pair _ _) =>
    apply satG_upd_pair; intros ?s [?Hc|?HL]; (split; [exact I|]);
    [left; cbn; assumption|right; apply L_upd; [cbn; intros; reflexivity|assumption]]
  | |- satG Lc mp_true (modify _) =>
    apply satG_modify; intros ?s [?Hc|?HL]; (split; [exact I|]);
    [left; cbn; destruct_matches; first [assumption|reflexivity]
    |first [ right; eapply L_view; [|eassumption]; cbn; destruct_matches; reflexivity
           | right; apply L_empty; cbn; destruct_matches; reflexivity
           | left; cbn; destruct_matches; reflexivity ]]
  end.

Lemma Lc_add_remote cfg c k : (forall ok, satG Lc mp_true (k ok)) -> satG Lc mp_true (add_remote cfg c k).
Proof.
  intros Hk. unfold add_remote. apply satG_with_state. intros s0 _. cbv beta iota.
  set (set := filter (fun e => c_net e =? c_net c) (s_remotes s0)). clearbody set.
  destruct (s_conn s0 =? ConnectionStateFailed); [apply Hk|].
  destruct (negb (accepts_remote cfg c)); [apply Hk|].
  destruct (existsb (fun e => cand_equal e c) set); [apply Hk|].
  apply satG_seq; [|apply Hk].
  intros s [Hc|HL]; (split; [exact I|]).
  - left. exact (closed_add_remote_body c set s Hc).
  - right. exact (proj1 (L_add_remote_body c set s HL)).
Qed.

Lemma cand_equal_sym a b : cand_equal a b = cand_equal b a.
Proof.
  unfold cand_equal, cand_taddr_eqb, addr_eqb, rel_eqb.
  assert (Eb : forall x y : bool, Bool.eqb x y = Bool.eqb y x) by (intros [] []; reflexivity).
  rewrite (Z.eqb_sym (c_net a)), (Z.eqb_sym (c_tcp a)), (Z.eqb_sym (c_typ a)), (Eb (a_v6 (c_addr a))),
          (Z.eqb_sym (a_ip (c_addr a))), (Z.eqb_sym (a_port (c_addr a))).
  destruct (c_rel a) as [[x y]|], (c_rel b) as [[u v]|]; try reflexivity.
  rewrite (Z.eqb_sym x), (Z.eqb_sym y). reflexivity.
Qed.

(* addCandidate (local): a duplicate is refused, so the new candidate differs from every existing one *)
Lemma closed_add_local c : sat (preserves Closed) (add_local c).
Proof. closed_auto. Qed.

Lemma L_pair_new c rems s :
  L s -> In c (s_locals s) -> L (fst (for_each rems (fun r => add_pair c r) s)) .
Proof.
  revert s. induction rems as [|r t IH]; intros s H Hc; cbn [for_each]; [exact H|].
  rewrite seq_fst. apply IH; [apply L_add_pair; assumption|exact Hc].
Qed.

Lemma Lc_add_local c : satG Lc mp_true (add_local c).
Proof.
  intros s [Hc|HL]; (split; [exact I|]); [left; exact (closed_add_local c s Hc)|].
  right. unfold add_local. rewrite with_state_eq. cbv beta iota.
  destruct ((s_conn s =? ConnectionStateFailed) || existsb (fun e => cand_equal e c) (filter (fun e => c_net e =? c_net c) (s_locals s))) eqn:Eg.
  - unfold seq, emit. cbn [fst]. exact HL.
  - apply orb_false_iff in Eg. destruct Eg as [_ Ex].
    rewrite !seq_fst, modify_fst. unfold emit. cbn [fst]. rewrite with_state_eq.
    set (s1 := set_s_locals (s_locals s ++ [c]) s).
    assert (H1 : L s1).
    { destruct HL as [HU HP]. split.
      - unfold LocU, s1. cbn. intros a b Ha Hb Eab. apply in_app_or in Ha. apply in_app_or in Hb.
        assert (Hnew : forall e, In e (s_locals s) -> cand_equal e c = false).
        { intros e He. destruct (cand_equal e c) eqn:E; [|reflexivity]. exfalso.
          assert (Hx : existsb (fun e0 => cand_equal e0 c) (filter (fun e0 => c_net e0 =? c_net c) (s_locals s)) = true).
          { apply existsb_exists. exists e. split; [|exact E]. apply filter_In. split; [exact He|].
            unfold cand_equal, cand_taddr_eqb in E. repeat (apply andb_prop in E; destruct E as [E ?]). exact E. }
          rewrite Hx in Ex. discriminate Ex. }
        destruct Ha as [Ha|[<-|[]]]; destruct Hb as [Hb|[<-|[]]].
        + apply HU; assumption.
        + rewrite (Hnew a Ha) in Eab. discriminate.
        + rewrite cand_equal_sym, (Hnew b Hb) in Eab. discriminate.
        + reflexivity.
      - unfold PairsLoc, s1 in *. cbn. eapply Forall_impl; [|exact HP]. cbn. intros p Hp. apply in_or_app. left. exact Hp. }
    apply L_pair_new; [exact H1|]. unfold s1. cbn. apply in_or_app. right. left. reflexivity.
Qed.

Lemma find_local_in h s l : find_local h s = Some l -> In l (s_locals s).
Proof. unfold find_local. intros H. apply find_some in H. tauto. Qed.

Create HintDb agentcore_lc.
#[export] Hint Unfold seen fresh_tx invalidate_pending send_binding_request ping_candidate
  nominate_pair send_binding_success retarget_cache copy_activity
  set_selector ping_all check_keepalive contact_controlling contact_controlled contact_candidates
  tick accept_data inbound_data do_write conn_write conn_write_to_pair conn_read do_start do_set_remote_creds
  do_restart do_renominate renominate_op do_close validate_selected set_selected reselect : agentcore_lc.

Theorem step_preserves_Lc cfg o : satG Lc mp_true (step_m cfg o).
Proof.
  destruct o; cbn [step_m].
  all: try (autounfold with agentcore_lc; satG_split_eq; try lc_leaf; fail).
  - (* AddLocal *) satG_split_eq; [lc_leaf|apply Lc_add_local].
  - (* AddRemote *) satG_split_eq; try lc_leaf. apply Lc_add_remote. intros ok. lc_leaf.
  - (* InStun *)
    intros s Hs. rewrite with_state_eq. destruct (s_closed s) eqn:Ec; [split; [exact I|exact Hs]|].
    destruct (find_local lh s) as [l|] eqn:El; [|split; [exact I|exact Hs]].
    destruct Hs as [Hc|HL]; [rewrite Hc in Ec; discriminate|].
    destruct (Ll_handle_inbound cfg l src m s (or_intror (conj HL (find_local_in _ _ _ El)))) as [_ [H|[H _]]].
    + split; [exact I|left; exact H].
    + split; [exact I|right; exact H].
Qed.

Corollary step_Lc cfg s o : Lc s -> Lc (fst (step cfg s o)).
Proof. intros H. exact (proj2 (step_preserves_Lc cfg o s H)). Qed.

Lemma Lc_init lu lp : Lc (init lu lp).
Proof. right. apply L_empty; reflexivity. Qed.

Lemma fold_Lc cfg ops : forall s (tr : list (list out)), Lc s ->
  Lc (fst (fold_left (fun '(s0, tr1) o0 => let '(s'0, os0) := step cfg s0 o0 in (s'0, tr1 ++ [os0])) ops (s, tr))).
Proof.
  induction ops as [|o ops IH]; intros s tr H; cbn [fold_left]; [exact H|].
  pose proof (step_Lc cfg s o H) as H1. destruct (step cfg s o) as [s' os]. cbn [fst] in H1. apply IH. exact H1.
Qed.

(* C06: while the agent is open, in every reachable state the local candidates are pairwise different and
   every listed pair's local candidate is one of them *)
Theorem locals_distinct_and_pairs_from_locals cfg lu lp ops :
  let s := fst (run cfg lu lp ops) in
  s_closed s = false ->
  (forall a b, In a (s_locals s) -> In b (s_locals s) -> cand_equal a b = true -> a = b) /\
  Forall (fun p => In (p_loc p) (s_locals s)) (s_checklist s).
Proof.
  intros s Hc. assert (H : Lc s) by (unfold s, run, run_from; apply fold_Lc; apply Lc_init).
  destruct H as [H|[H1 H2]]; [rewrite H in Hc; discriminate|]. split; assumption.
Qed.
