(* What the translated decision functions used by the agent-core model compute.  The model calls the functions that
   gentrans regenerates from /repo on every run (responseSymmetric, CandidatePair.equal): these lemmas pin their
   meaning, so an edit of the Go function that changes the rule breaks a proof instead of silently moving the model. *)
From Coq Require Import ZArith Bool List Lia.
From Ice Require Import Model.AgentTypes Model.AgentCore Gen.Consts Gen.Lifecycle Proofs.TwoAgentsProofs.
Import ListNotations.
Local Open Scope Z_scope.

(* RFC 8445 7.2.5.2.1: a response is symmetric iff it comes from the address the request was sent to and the local
   candidate has the network type the request was sent over *)
Theorem response_symmetry_rule q l src :
  response_symmetric q l src = true <-> (q_net q = c_net l /\ q_dst q = src).
Proof.
  unfold response_symmetric, responseSymmetric.
  destruct (Z.eqb_spec (q_net q) (c_net l)) as [En|En], (addr_eqb (q_dst q) src) eqn:Ea; cbn; split; intros H;
    try discriminate H; try reflexivity.
  - split; [exact En|apply addr_eqb_eq; exact Ea].
  - destruct H as [_ H]. subst src. rewrite addr_eqb_refl in Ea. discriminate Ea.
  - destruct H as [H _]. contradiction.
  - destruct H as [H _]. contradiction.
Qed.

(* two listed pairs are the same pair iff their local candidates are Equal and their remote candidates are Equal *)
Theorem pair_equal_rule a b :
  pair_equal a b = cand_equal (p_loc a) (p_loc b) && cand_equal (p_rem a) (p_rem b).
Proof. unfold pair_equal, CandidatePair_equal. destruct (cand_equal (p_loc a) (p_loc b)), (cand_equal (p_rem a) (p_rem b)); reflexivity. Qed.

(* controllingSelector.isNominatable: a candidate may be nominated once the selector has run for the acceptance
   wait configured for its type (host / srflx / prflx / relay); a candidate of no known type never *)
Theorem nominatable_rule cfg s c :
  is_nominatable cfg s c =
  match acceptance_wait cfg c with
  | Some w => w <=? since cfg s (s_sel_start s)
  | None => false
  end.
Proof.
  unfold is_nominatable, isNominatable, acceptance_wait.
  unfold CandidateTypeHost, CandidateTypeServerReflexive, CandidateTypePeerReflexive, CandidateTypeRelay.
  destruct (Z.eqb_spec (c_typ c) 1), (Z.eqb_spec (c_typ c) 2), (Z.eqb_spec (c_typ c) 3), (Z.eqb_spec (c_typ c) 4);
    try reflexivity; exfalso; lia.
Qed.

(* Agent.needsToCheckPriorityOnNominated and the controlled selector's switch rule *)
Theorem priority_check_rule lite flag : needsToCheckPriorityOnNominated lite flag = negb lite || flag.
Proof. unfold needsToCheckPriorityOnNominated. destruct lite, flag; reflexivity. Qed.

Theorem switch_rule has_sel same has_nom check sel_prio prio :
  shouldSwitchSelectedPair has_sel same has_nom check sel_prio prio =
  if negb has_sel then true            (* nothing selected yet *)
  else if same then false              (* already on that pair *)
  else if has_nom then true            (* a renomination value decides, not the priority *)
  else negb check || (sel_prio <? prio).
Proof.
  unfold shouldSwitchSelectedPair. destruct has_sel, same, has_nom, check, (sel_prio <? prio); reflexivity.
Qed.

(* Agent.handleInbound's method/class filter: Binding requests, success responses and indications only *)
Theorem inbound_filter_rule method class :
  canHandleInbound method class = (method =? 1) && ((class =? 2) || (class =? 0) || (class =? 1)).
Proof.
  unfold canHandleInbound.
  destruct (Z.eqb_spec method 1), (Z.eqb_spec class 2), (Z.eqb_spec class 0), (Z.eqb_spec class 1); try reflexivity; exfalso; lia.
Qed.
