(* C10: the generated loop-discipline table (coq/Gen/LoopDiscipline.v, written by gotools/looptable
   from /repo's source on every run) is finite; the statements are proved by computation and lifted
   with forallb_forall. *)
From Coq Require Import String List Bool.
Import ListNotations.
From Ice Require Import Gen.LoopDiscipline.
Local Open Scope string_scope.

Definition is_nil {A} (l : list A) : bool := match l with [] => true | _ => false end.

(* the one public method that touches loop-owned state outside the loop *)
Definition api_exception (r : api_row) : bool :=
  String.eqb (r_recv r) "Agent" && String.eqb (r_name r) "RenominateCandidate".

Definition api_row_ok (r : api_row) : bool := is_nil (r_outside r) || api_exception r.

Lemma api_table_ok : forallb api_row_ok api_table = true.
Proof. vm_compute. reflexivity. Qed.

Lemma api_goes_through_loop : forall r, In r api_table ->
  r_outside r = [] \/ (r_recv r = "Agent" /\ r_name r = "RenominateCandidate").
Proof.
  intros r H. pose proof (proj1 (forallb_forall _ _) api_table_ok r H) as K.
  unfold api_row_ok in K. apply orb_prop in K. destruct K as [K|K].
  - left. destruct (r_outside r); [reflexivity|discriminate].
  - right. unfold api_exception in K. apply andb_prop in K. destruct K as [K1 K2].
    apply String.eqb_eq in K1, K2. auto.
Qed.

Lemma loop_owned_all_present : loop_owned_missing = [].
Proof. reflexivity. Qed.

(* goroutines started by the package: the only loop-owned field read off the loop is localUfrag
   (gather goroutines; a read that races with Restart's write) *)
Definition go_row_ok (r : api_row) : bool := forallb (String.eqb "localUfrag") (r_outside r).

Lemma goroutine_table_ok : forallb go_row_ok goroutine_table = true.
Proof. vm_compute. reflexivity. Qed.

Lemma goroutines_go_through_loop : forall r f, In r goroutine_table -> In f (r_outside r) -> f = "localUfrag".
Proof.
  intros r f H F. pose proof (proj1 (forallb_forall _ _) goroutine_table_ok r H) as K.
  unfold go_row_ok in K. pose proof (proj1 (forallb_forall _ _) K f F) as E.
  apply String.eqb_eq in E. auto.
Qed.

(* the table is not empty and contains the methods the property names *)
Lemma api_table_nonvacuous :
  In (mk_row "Agent" "Restart" [] true) api_table /\
  In (mk_row "Agent" "GetLocalCandidates" [] true) api_table /\
  In (mk_row "Conn" "Write" [] true) api_table /\
  api_table <> [].
Proof. vm_compute. repeat split; auto 60; discriminate. Qed.
