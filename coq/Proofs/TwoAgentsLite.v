(* C01, two-agent safety, for lite agents too: without a bidirectionally reachable pair no agent -- full or lite --
   ever validates a pair, selects one or reports Connected, under every schedule.  A lite agent selects on a
   nomination alone, so the invariant also says that nobody nominates: no agent has a nomination under way and no
   Binding request in flight carries USE-CANDIDATE or a nomination value (a nomination is only ever sent for a valid
   pair -- since afd0894 also through RenominateCandidate). *)
From Coq Require Import ZArith Bool List Lia.
From Ice Require Import Model.AgentTypes Model.AgentCore Model.PairMonitor Model.TwoAgents Gen.Consts Gen.Lifecycle
     Proofs.AgentFrame Proofs.AgentC02 Proofs.AgentC04 Proofs.AgentC07 Proofs.AgentC03Sel Proofs.TwoAgentsProofs.
Import ListNotations.
Local Open Scope Z_scope.

Definition QS2 (s : state) : Prop := QS s /\ s_nominated s = None.

Definition no_use (m : msg) : Prop := m_class m = 0 -> m_use m = false /\ m_nom m = None.
Definition out_plain (o : out) : Prop :=
  match o with OSend _ _ m => m_class m <> 2 /\ no_use m | _ => True end.
Definition out_reply (lh : Z) (src : addr) (o : out) : Prop :=
  match o with OSend h dst m => (m_class m = 2 -> h = lh /\ addr_eqb dst src = true) /\ no_use m | _ => True end.

Definition qs2_view (s : state) := (s_checklist s, s_selected s, s_nominated s).
Lemma QS2_view s s' : qs2_view s' = qs2_view s -> QS2 s -> QS2 s'.
Proof. unfold qs2_view, QS2, QS. intros E. injection E as E1 E2 E3. rewrite E1, E2, E3. auto. Qed.

Lemma QS2_upd id f s :
  (forall q, p_state q <> CandidatePairStateSucceeded -> p_state (f q) <> CandidatePairStateSucceeded) ->
  QS2 s -> QS2 (set_s_checklist (map (fun p => if p_id p =? id then f p else p) (s_checklist s)) s).
Proof. intros Hf [H1 H2]. split; [apply QS_upd; assumption|exact H2]. Qed.

Lemma QS2_update_conn st s : QS2 s -> QS2 (fst (update_conn st s)).
Proof.
  intros [H N]. split; [apply QS_update_conn; exact H|]. unfold update_conn. destruct (s_conn s =? st); [exact N|].
  destruct (st =? ConnectionStateFailed); cbn; exact N.
Qed.

Lemma QS2_selected_pair s : QS2 s -> selected_pair s = None.
Proof. intros [[_ H] _]. unfold selected_pair. rewrite H. reflexivity. Qed.

Lemma QS2_no_valid s p : QS2 s -> In p (s_checklist s) -> (p_state p =? CandidatePairStateSucceeded) = false.
Proof. intros [[H _] _] Hin. rewrite Forall_forall in H. apply Z.eqb_neq. exact (H p Hin). Qed.

Lemma QS2_best_valid s : QS2 s -> best_valid s = None.
Proof.
  intros H. destruct (best_valid s) as [r|] eqn:E; [|reflexivity]. exfalso.
  destruct (best_valid_spec s r E) as [Hin [Hs _]]. pose proof (QS2_no_valid s r H Hin) as Hn.
  apply Z.eqb_neq in Hn. contradiction.
Qed.

(* leaves that cannot be reached from a state without valid pair, selection or nomination *)
Ltac qs2_dead :=
  exfalso; inj_pairs;
  first
  [ match goal with Hg : QS2 ?s, E : selected_pair ?s = Some _ |- _ => rewrite (QS2_selected_pair s Hg) in E; discriminate E end
  | match goal with Hg : QS2 ?s, E : s_nominated ?s = Some _ |- _ => rewrite (proj2 Hg) in E; discriminate E end
  | match goal with Hg : QS2 ?s, E : best_valid ?s = Some _ |- _ => rewrite (QS2_best_valid s Hg) in E; discriminate E end
  | match goal with Hg : QS2 ?s, Hp : pair_by_id ?id ?s = Some ?p, E : context [p_state ?p =? CandidatePairStateSucceeded] |- _ =>
      rewrite (QS2_no_valid s p Hg (proj1 (pair_by_id_in id s p Hp))) in E; cbn in E; discriminate E end
  | match goal with Hg : QS2 ?s, Hp : find_pair ?l ?r ?s = Some ?p, E : context [p_state ?p =? CandidatePairStateSucceeded] |- _ =>
      rewrite (QS2_no_valid s p Hg (find_pair_in l r s p Hp)) in E; cbn in E; discriminate E end ].

Ltac qs2_state :=
  first [ eapply QS2_view; [|eassumption]; cbn; destruct_matches; reflexivity
        | apply QS2_upd; [cbn; intros; (assumption || discriminate)|assumption]
        | match goal with Hg : QS2 _ |- _ => destruct Hg as [[? ?] ?] end; cbn; destruct_matches;
          (split; [split; [first [assumption|constructor]|first [assumption|reflexivity]]|first [assumption|reflexivity]]) ].

Ltac qs2_out Q :=
  cbn; repeat constructor; cbn; try (intros; discriminate); try (split; [discriminate|intros _; split; reflexivity]).

Ltac qs2_leaf :=
  match goal with
  | |- satG QS2 _ (update_conn _) =>
    intros ?s ?Hg; split; [apply update_conn_outs_all; exact I|apply QS2_update_conn; assumption]
  | |- satG QS2 _ (reselect _) =>
    intros ?s ?Hg; split; [|unfold reselect, with_state; rewrite (proj2 (proj1 Hg)); exact Hg];
    unfold reselect, with_state; rewrite (proj2 (proj1 Hg)); constructor
  | |- satG QS2 _ (modify (fun s => set_s_next_pair _ (set_s_checklist (s_checklist s ++ _) s))) =>
    apply satG_modify; intros ?s ?Hg; split; [constructor|]; split; [apply (QS_add_pair _ _ _ (proj1 Hg))|exact (proj2 Hg)]
  | |- satG QS2 _ (upd_pair _ _) =>
    apply satG_upd_pair; intros ?s ?Hg; split; [constructor|]; apply QS2_upd; [cbn; intros; (assumption || discriminate)|assumption]
  | |- satG QS2 _ (modify _) =>
    apply satG_modify; intros ?s ?Hg; split; [constructor|];
    first [ qs2_state
          | cbn; match goal with Hg : QS2 ?s |- _ => rewrite ?(proj2 Hg) end; first [assumption|qs2_state] ]
  | |- satG QS2 _ (emit _) =>
    apply satG_emit; intros ?s ?Hg; cbn; (constructor; [|constructor]); cbn;
    first [exact I | split; [let H := fresh in intros H; discriminate H|intros _; split; reflexivity]]
  end.

Lemma QS2_api cfg o : is_inbound o = false -> satG QS2 (outs_all out_plain) (step_m cfg o).
Proof.
  intros Hi. destruct o; try discriminate Hi; cbn [step_m];
    autounfold with agentcore_sel; satG_split_eq.
  all: try qs2_leaf.
  all: try qs2_dead.
  all: apply satG_upd_pair; intros s Hg; (split; [constructor|]); apply QS2_upd; [|assumption]; intros q _; cbn;
    match goal with Hin : In ?a (filter _ (s_checklist ?s0)), Hg0 : QS2 ?s0 |- _ =>
      apply filter_In in Hin; destruct Hin as [Hin _]; pose proof (QS2_no_valid s0 a Hg0 Hin) as Hn; apply Z.eqb_neq in Hn; exact Hn end.
Qed.

Lemma QS2_handle_inbound cfg l src m :
  m_class m <> 2 -> no_use m -> satG QS2 (outs_all (out_reply (c_h l) src)) (handle_inbound cfg l src m).
Proof.
  intros Hc Hu. apply Z.eqb_neq in Hc. unfold handle_inbound. rewrite Hc.
  autounfold with agentcore_sel. satG_split_eq.
  all: try qs2_leaf.
  all: try qs2_dead.
  (* what is written: requests without nomination, replies to the source on the receiving socket *)
  all: try (apply satG_emit; intros ?s ?Hg; cbn; (constructor; [|constructor]); cbn;
            first [ exact I
                  | split; [let H := fresh in intros H; discriminate H|intros _; split; reflexivity]
                  | split; [intros _; split; [reflexivity|]|let H := fresh in intros H; discriminate H];
                    first [ apply addr_eqb_refl
                          | inj_pairs; match goal with H : find_remote _ _ _ = Some _ |- _ => exact (find_remote_addr _ _ _ _ H) end ]
                  | split; let H := fresh in intros H; discriminate H ]).
  (* the lite agent's shortcut "valid on nomination" needs a nominating request *)
  all: try (exfalso; match goal with Hu' : no_use ?mm |- _ =>
              assert (Hc0 : m_class mm = 0) by (apply Z.eqb_eq; assumption); destruct (Hu' Hc0) as [Eu En];
              match goal with H : m_use mm || _ = true |- _ => rewrite Eu, En in H; discriminate H end end).
  all: try (exfalso; match goal with Hu' : no_use ?mm |- _ =>
              assert (Hc0 : m_class mm = 0) by (apply Z.eqb_eq; assumption); destruct (Hu' Hc0) as [Eu En]; congruence end).
  all: try (exfalso; match goal with Hu' : no_use ?mm |- _ =>
              assert (Hc0 : m_class mm = 0) by (apply Z.eqb_eq; assumption); destruct (Hu' Hc0) as [Eu En];
              match goal with H : m_use mm || false = true |- _ => rewrite Eu in H; discriminate H end end).
  all: apply satG_upd_pair; intros s Hg; (split; [constructor|]); apply QS2_upd; [|assumption]; intros q _; cbn;
    match goal with Hin : In ?a (filter _ (s_checklist ?s0)), Hg0 : QS2 ?s0 |- _ =>
      apply filter_In in Hin; destruct Hin as [Hin _]; pose proof (QS2_no_valid s0 a Hg0 Hin) as Hn; apply Z.eqb_neq in Hn; exact Hn end.
Qed.

(* ---- the system ------------------------------------------------------------------------------------------ *)
Definition flight_ok (t : topology) (f : flight) : Prop :=
  routed t f /\ m_class (f_msg f) <> 2 /\ no_use (f_msg f).

Definition InvSys2 (t : topology) (sy : sys) : Prop :=
  QS2 (sy_a sy) /\ QS2 (sy_b sy) /\ Forall (flight_ok t) (sy_net sy).

Lemma route_plain t from_a outs : Forall out_plain outs -> Forall (flight_ok t) (route t from_a outs).
Proof.
  intros H. unfold route. rewrite Forall_forall. intros f Hf.
  apply in_flat_map in Hf. destruct Hf as [o [Ho Hf]].
  rewrite Forall_forall in H. specialize (H o Ho). destruct o; try contradiction.
  apply route_one_routed in Hf. destruct Hf as [Hr [Em _]]. cbn in H. destruct H as [H1 H2].
  split; [exact Hr|]. rewrite Em. split; assumption.
Qed.

Lemma route_replies t f outs :
  topo_wf t -> topo_bidirectional t = false -> routed t f ->
  Forall (out_reply (f_lh f) (f_src f)) outs -> Forall (flight_ok t) (route t (f_to_a f) outs).
Proof.
  intros Hw Hnb Hr H. unfold route. rewrite Forall_forall. intros g Hg.
  apply in_flat_map in Hg. destruct Hg as [o [Ho Hg]].
  rewrite Forall_forall in H. specialize (H o Ho). destruct o as [h a m|? ? ?|?|?|?|?|?|?]; try contradiction.
  cbn in H. destruct H as [H1 H2]. destruct (Z.eq_dec (m_class m) 2) as [E|NE].
  - destruct (H1 E) as [E1 E2]. rewrite (response_not_routed t f h a m Hw Hnb Hr E1 E2) in Hg. contradiction.
  - apply route_one_routed in Hg. destruct Hg as [Hr' [Em _]]. split; [exact Hr'|]. rewrite Em. split; assumption.
Qed.

Lemma deliver_step2 cfg s lh src m :
  m_class m <> 2 -> no_use m -> QS2 s ->
  QS2 (fst (step cfg s (InStun lh src m))) /\ Forall (out_reply lh src) (snd (step cfg s (InStun lh src m))).
Proof.
  intros Hm Hu HQ. unfold step. cbn [step_m]. unfold with_state.
  destruct (s_closed s); [split; [exact HQ|constructor]|].
  destruct (find_local lh s) as [l|] eqn:El; [|split; [exact HQ|constructor]].
  destruct (QS2_handle_inbound cfg l src m Hm Hu s HQ) as [H1 H2]. split; [exact H2|].
  cbn in H1. rewrite (find_local_h _ _ _ El) in H1. exact H1.
Qed.

Lemma api_step2 cfg s o :
  is_inbound o = false -> QS2 s -> QS2 (fst (step cfg s o)) /\ Forall out_plain (snd (step cfg s o)).
Proof. intros Hi HQ. unfold step. destruct (QS2_api cfg o Hi s HQ) as [H1 H2]. split; [exact H2|exact H1]. Qed.

Theorem sys_step_preserves_InvSys2 cfga cfgb t sy o :
  topo_wf t -> topo_bidirectional t = false -> InvSys2 t sy -> InvSys2 t (sys_step cfga cfgb t sy o).
Proof.
  intros Hw Hnb [Ha [Hb Hn]]. pose proof (conj Ha (conj Hb Hn) : InvSys2 t sy) as Hkeep.
  destruct o as [on_a o|n|n|n]; cbn [sys_step].
  - destruct (is_inbound o) eqn:Hi; [exact Hkeep|].
    unfold agent_step. destruct on_a.
    + destruct (api_step2 cfga (sy_a sy) o Hi Ha) as [H1 H2].
      destruct (step cfga (sy_a sy) o) as [s' outs]. cbn [fst snd] in H1, H2.
      split; [exact H1|split; [exact Hb|]]. cbn [sy_net]. apply Forall_app. split; [exact Hn|apply route_plain; exact H2].
    + destruct (api_step2 cfgb (sy_b sy) o Hi Hb) as [H1 H2].
      destruct (step cfgb (sy_b sy) o) as [s' outs]. cbn [fst snd] in H1, H2.
      split; [exact Ha|split; [exact H1|]]. cbn [sy_net]. apply Forall_app. split; [exact Hn|apply route_plain; exact H2].
  - destruct (nth_error (sy_net sy) n) as [f|] eqn:En; [|exact Hkeep].
    pose proof (nth_error_In _ _ En) as Hin.
    assert (Hf : flight_ok t f) by (rewrite Forall_forall in Hn; exact (Hn f Hin)).
    destruct Hf as [Hr [Hc Hu]].
    pose proof (Forall_remove_nth _ n _ Hn) as Hn'.
    unfold agent_step. destruct (f_to_a f) eqn:Eto; cbn [sy_a sy_b sy_net].
    + destruct (deliver_step2 cfga (sy_a sy) (f_lh f) (f_src f) (f_msg f) Hc Hu Ha) as [H1 H2].
      destruct (step cfga (sy_a sy) _) as [s' outs]. cbn [fst snd] in H1, H2.
      split; [exact H1|split; [exact Hb|]]. cbn [sy_net]. apply Forall_app. split; [exact Hn'|].
      pose proof (route_replies t f outs Hw Hnb Hr H2) as H3. rewrite Eto in H3. exact H3.
    + destruct (deliver_step2 cfgb (sy_b sy) (f_lh f) (f_src f) (f_msg f) Hc Hu Hb) as [H1 H2].
      destruct (step cfgb (sy_b sy) _) as [s' outs]. cbn [fst snd] in H1, H2.
      split; [exact Ha|split; [exact H1|]]. cbn [sy_net]. apply Forall_app. split; [exact Hn'|].
      pose proof (route_replies t f outs Hw Hnb Hr H2) as H3. rewrite Eto in H3. exact H3.
  - split; [exact Ha|split; [exact Hb|]]. cbn [sy_net]. apply Forall_remove_nth. exact Hn.
  - destruct (nth_error (sy_net sy) n) as [f|] eqn:En; [|exact Hkeep].
    split; [exact Ha|split; [exact Hb|]]. cbn [sy_net]. apply Forall_app. split; [exact Hn|].
    constructor; [|constructor]. rewrite Forall_forall in Hn. apply Hn. exact (nth_error_In _ _ En).
Qed.

Lemma InvSys2_init t lua lpa lub lpb : InvSys2 t (sys_init lua lpa lub lpb).
Proof. unfold InvSys2, sys_init, QS2. cbn. repeat split; try apply QS_init; constructor. Qed.

Theorem sys_run_InvSys2 cfga cfgb t ops sy :
  topo_wf t -> topo_bidirectional t = false -> InvSys2 t sy -> InvSys2 t (sys_run cfga cfgb t sy ops).
Proof.
  intros Hw Hnb. revert sy. unfold sys_run. induction ops as [|o ops IH]; cbn [fold_left]; intros sy H; [exact H|].
  apply IH. apply sys_step_preserves_InvSys2; assumption.
Qed.

(* C01, safety half, full and lite agents alike *)
Theorem never_connected_without_bidirectional_path_any cfga cfgb t lua lpa lub lpb ops :
  topo_wf t -> topo_bidirectional t = false ->
  let sy := sys_run cfga cfgb t (sys_init lua lpa lub lpb) ops in
  (s_selected (sy_a sy) = None /\ s_selected (sy_b sy) = None) /\
  (Forall (fun p => p_state p <> CandidatePairStateSucceeded) (s_checklist (sy_a sy)) /\
   Forall (fun p => p_state p <> CandidatePairStateSucceeded) (s_checklist (sy_b sy))) /\
  (s_closed (sy_a sy) = false -> s_conn (sy_a sy) <> ConnectionStateConnected /\ s_conn (sy_a sy) <> ConnectionStateDisconnected) /\
  (s_closed (sy_b sy) = false -> s_conn (sy_b sy) <> ConnectionStateConnected /\ s_conn (sy_b sy) <> ConnectionStateDisconnected).
Proof.
  intros Hw Hnb sy.
  pose proof (sys_run_InvSys2 cfga cfgb t ops _ Hw Hnb (InvSys2_init t lua lpa lub lpb)) as [[[Qa Sa] _] [[[Qb Sb] _] _]].
  pose proof (sys_run_SelSys cfga cfgb t ops (sys_init lua lpa lub lpb) (conj (InvSel_init lua lpa) (InvSel_init lub lpb))) as HS. fold sy in HS.
  destruct HS as [Ia Ib]. fold sy in Qa, Sa, Qb, Sb.
  repeat split; try assumption.
  - intros E. exact (Ia H (or_introl E) Sa).
  - intros E. exact (Ia H (or_intror E) Sa).
  - intros E. exact (Ib H (or_introl E) Sb).
  - intros E. exact (Ib H (or_intror E) Sb).
Qed.
