(* C10, pairs of concurrent public calls: facts about the sequential semantics Model/ApiSeq.v
   that the monitor C10_api2_checks decides with. *)
From Coq Require Import Arith Bool List.
Import ListNotations.
From Ice Require Import Model.PrioSpec Model.ApiSeq.

(* two overlapping starts (any mix of StartDial/Dial/StartAccept/Accept, any credentials): the
   monitor accepts exactly the outcomes "one succeeded, the other got ErrMultipleStart" *)
Lemma starts_one_wins : forall ctl1 c1 ctl2 c2 r1 r2,
  results_of_some_order (AStart ctl1 c1) (AStart ctl2 c2) r1 r2 = true <->
  (r1 = AOk /\ r2 = AMulti) \/ (r1 = AMulti /\ r2 = AOk).
Proof.
  intros. unfold results_of_some_order. simpl.
  destruct r1, r2; simpl; split; intros H; try discriminate; auto;
    try (destruct H as [[? ?]|[? ?]]; discriminate).
Qed.

(* in every serial order of two starts the second one is refused and the first one's role and
   credentials stay *)
Lemma serial_starts : forall ctl1 c1 ctl2 c2,
  aserial (AStart ctl1 c1) (AStart ctl2 c2) = (mk_a true false ctl1 c1 0 2, AOk, AMulti).
Proof. reflexivity. Qed.

(* a getter overlapping a mutator returns one of the two whole credential pairs, never a mix *)
Lemma getter_sees_whole_state : forall c r1 r2,
  results_of_some_order AGetRemote (ASetRemote c) r1 r2 = true ->
  r2 = AOk /\ (r1 = ACred 0 \/ r1 = ACred c).
Proof.
  intros c r1 r2. unfold results_of_some_order. simpl.
  destruct r1 as [| | |x|], r2; cbn [ares_eqb norm_res is_close is_start_op orb andb];
    intros H; try discriminate;
    rewrite ?andb_true_r, ?andb_false_r, ?orb_false_r in H; try discriminate.
  apply orb_prop in H. split; auto.
  destruct H as [H|H]; [destruct x; [auto|discriminate]|apply Nat.eqb_eq in H; subst; auto].
Qed.

(* after Close every start is refused, every loop-based call reports closed *)
Lemma close_first : forall ctl c,
  snd (aserial AClose (AStart ctl c)) = AMulti /\
  snd (aserial AClose (ARestart c)) = AClosed /\
  snd (aserial AClose (ASetRemote c)) = AClosed /\
  snd (aserial AClose AGetRemote) = AClosed.
Proof. intros; repeat split; reflexivity. Qed.
