(* C14: the framing is uniquely decodable -- two packet lists (every packet at most 65535 bytes)
   whose frames concatenate to the same byte stream are the same list.  Corollary of the
   round-trip theorem (read the common stream as one chunk with a buffer that holds every packet). *)
From Coq Require Import ZArith NArith Bool String Ascii List Arith Lia.
From Ice Require Import Model.PrioSpec Model.Framing Proofs.FramingProofs.
Import ListNotations.

Lemma frames_uniquely_decodable (cap : nat) (ps qs : list bytes) :
  Forall (fits_in cap) ps -> Forall (fits_in cap) qs ->
  concat (map frame_raw ps) = concat (map frame_raw qs) -> ps = qs.
Proof.
  intros Hp Hq E.
  destruct (concat (map frame_raw ps)) as [|b bs] eqn:Ec.
  - (* empty stream: no packets on either side, since every frame has a header *)
    assert (N : forall l : list bytes, concat (map frame_raw l) = [] -> l = []).
    { intros [|x l]; [reflexivity|]. cbn [map concat]. unfold frame_raw, put_uint16. cbn. discriminate. }
    rewrite (N ps Ec). symmetry. apply N. symmetry. exact E.
  - assert (Hwf : Forall (fun c : bytes => c <> []) [b :: bs]) by (constructor; [discriminate|constructor]).
    assert (Hc : concat [b :: bs] = b :: bs) by (cbn [concat]; apply app_nil_r).
    destruct (roundtrip ps cap [b :: bs] 0%Z Hp Hwf ltac:(rewrite Hc; symmetry; exact Ec)) as [s1 [R1 _]].
    destruct (roundtrip qs cap [b :: bs] 0%Z Hq Hwf ltac:(rewrite Hc; exact E)) as [s2 [R2 _]].
    rewrite R1 in R2. congruence.
Qed.
