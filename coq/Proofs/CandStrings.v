(* C16: lemmas about strings, the tokenizers and decimal printing of Model/Cand.v *)
From Coq Require Import ZArith NArith Bool String Ascii List Lia Wf_nat DecimalString DecimalN DecimalPos DecimalFacts.
From Ice Require Import Model.Wrap Model.Foundation Model.CandVariant Model.Cand Proofs.FoundationProofs.
Import ListNotations.
Local Open Scope string_scope.
Local Open Scope Z_scope.

(* the proofs must hold for both values of every repair flag (Model/CandVariant.v) *)
Global Opaque fix_deep_equal fix_marshal_rport0 fix_nomination_size fix_ext_empty_key fix_empty_raddr.

(* ---------------------------------------------------------------- generic *)

Lemma string_eqb_neq a b : String.eqb a b = false <-> a <> b.
Proof. apply String.eqb_neq. Qed.

Lemma is_empty_true s : is_empty s = true <-> s = "".
Proof. destruct s; simpl; split; congruence. Qed.

Lemma is_empty_app_r a b : is_empty b = false -> is_empty (a ++ b) = false.
Proof. destruct a; simpl; auto. Qed.

Lemma is_empty_app_l a b : is_empty a = false -> is_empty (a ++ b) = false.
Proof. destruct a; simpl; [discriminate|reflexivity]. Qed.

Lemma all_chars_app p a b : all_chars p (a ++ b) = all_chars p a && all_chars p b.
Proof. induction a as [|x a IH]; simpl; [reflexivity|]. rewrite IH. now rewrite andb_assoc. Qed.

Lemma all_chars_impl (p q : ascii -> bool) s :
  (forall a, p a = true -> q a = true) -> all_chars p s = true -> all_chars q s = true.
Proof.
  intros H. induction s as [|a s IH]; simpl; [reflexivity|].
  intros E. apply andb_true_iff in E. destruct E as [E1 E2]. rewrite (H _ E1), (IH E2). reflexivity.
Qed.

Lemma append_nil_r (s : string) : s ++ "" = s.
Proof. induction s as [|a s IH]; simpl; [reflexivity|now rewrite IH]. Qed.

Lemma length_app (a b : string) : String.length (a ++ b) = (String.length a + String.length b)%nat.
Proof. apply append_length. Qed.

(* ---------------------------------------------------------------- character classes *)

Lemma code_lt_256 a : (code a < 256)%N.
Proof. unfold code. apply N_ascii_bounded. Qed.

Lemma is_sp_code a : is_sp a = (code a =? 32)%N.
Proof.
  unfold is_sp, code. destruct (Ascii.eqb_spec a " "%char) as [->|Hn]; [reflexivity|].
  symmetry. apply N.eqb_neq. intros H. apply Hn.
  rewrite <- (ascii_N_embedding a), H. reflexivity.
Qed.

Lemma in_range_spec lo hi n : in_range lo hi n = true <-> (lo <= n <= hi)%N.
Proof. unfold in_range. rewrite andb_true_iff, N.leb_le, N.leb_le. tauto. Qed.

Lemma digit_not_sp a : is_digit a = true -> is_sp a = false.
Proof.
  unfold is_digit. rewrite in_range_spec, is_sp_code. intros H. apply N.eqb_neq. lia.
Qed.

Lemma ice_not_sp a : is_ice_char a = true -> is_sp a = false.
Proof.
  unfold is_ice_char. rewrite is_sp_code. intros H. apply N.eqb_neq. intros E. rewrite E in H.
  vm_compute in H. discriminate.
Qed.

Lemma digit_is_ice a : is_digit a = true -> is_ice_char a = true.
Proof.
  unfold is_digit, is_ice_char. intros H. rewrite H. now rewrite !orb_true_r.
Qed.

(* ---------------------------------------------------------------- read_string_token *)

Lemma rst_sp t rest : no_space t = true -> read_string_token (t ++ String " " rest) = (t, rest).
Proof.
  unfold no_space. induction t as [|a t IH]; simpl; intros H; [reflexivity|].
  apply andb_true_iff in H. destruct H as [H1 H2]. apply negb_true_iff in H1. rewrite H1.
  now rewrite (IH H2).
Qed.

Lemma rst_end t : no_space t = true -> read_string_token t = (t, "").
Proof.
  unfold no_space. induction t as [|a t IH]; simpl; intros H; [reflexivity|].
  apply andb_true_iff in H. destruct H as [H1 H2]. apply negb_true_iff in H1. rewrite H1.
  now rewrite (IH H2).
Qed.

(* what a string token is: the text up to the first space *)
Lemma rst_inv s t r : read_string_token s = (t, r) -> no_space t = true /\ (s = t \/ s = t ++ String " " r).
Proof.
  unfold no_space. revert t r. induction s as [|a s IH]; simpl; intros t r H.
  - injection H as <- <-. simpl. auto.
  - destruct (is_sp a) eqn:Ea.
    + injection H as <- <-. simpl. split; [reflexivity|]. right.
      unfold is_sp in Ea. apply Ascii.eqb_eq in Ea. now subst.
    + destruct (read_string_token s) as [t' r'] eqn:E. injection H as <- <-.
      destruct (IH _ _ eq_refl) as [H1 H2]. simpl. rewrite Ea, H1. split; [reflexivity|].
      destruct H2 as [-> | ->]; [left|right]; reflexivity.
Qed.

Lemma rst_rest_empty s t : read_string_token s = (t, "") -> no_space t = true /\ (s = t \/ s = t ++ " ").
Proof. intros H. apply rst_inv in H. exact H. Qed.

(* ---------------------------------------------------------------- read_char_token *)

Lemma rct_sp limit i t rest :
  all_chars is_ice_char t = true -> (i + String.length t <= limit)%nat ->
  read_char_token limit i (t ++ String " " rest) = Some (t, rest).
Proof.
  revert i. induction t as [|a t IH]; simpl; intros i H Hl; [reflexivity|].
  apply andb_true_iff in H. destruct H as [H1 H2].
  rewrite (ice_not_sp _ H1), H1. cbn [negb].
  destruct (Nat.eqb_spec i limit); [lia|].
  rewrite (IH (S i) H2) by lia. reflexivity.
Qed.

Lemma rct_inv limit i s t r :
  read_char_token limit i s = Some (t, r) ->
  all_chars is_ice_char t = true /\ ((i <= limit)%nat -> (i + String.length t <= limit)%nat) /\ (s = t \/ s = t ++ String " " r).
Proof.
  revert i t r. induction s as [|a s IH]; simpl; intros i t r H.
  - injection H as <- <-. simpl. repeat split; [lia|auto].
  - destruct (is_sp a) eqn:Ea.
    + injection H as <- <-. simpl. repeat split; [lia|]. right.
      unfold is_sp in Ea. apply Ascii.eqb_eq in Ea. now subst.
    + destruct (Nat.eqb_spec i limit); [discriminate|].
      destruct (is_ice_char a) eqn:Ei; [|discriminate]. cbn [negb] in H.
      destruct (read_char_token limit (S i) s) as [[t' r']|] eqn:E; [|discriminate].
      injection H as <- <-. destruct (IH _ _ _ E) as [H1 [H2 H3]].
      simpl. rewrite Ei, H1. repeat split; [lia|].
      destruct H3 as [-> | ->]; [left|right]; reflexivity.
Qed.

(* ---------------------------------------------------------------- read_digit_token *)

Fixpoint digits_value (acc : Z) (s : string) : Z :=
  match s with EmptyString => acc | String a r => digits_value (acc * 10 + digit_val a) r end.

Lemma rdt_sp limit i acc t rest :
  all_chars is_digit t = true -> (i + String.length t <= limit)%nat ->
  read_digit_token limit i acc (t ++ String " " rest) = Some (digits_value acc t, rest).
Proof.
  revert i acc. induction t as [|a t IH]; simpl; intros i acc H Hl; [reflexivity|].
  apply andb_true_iff in H. destruct H as [H1 H2].
  rewrite (digit_not_sp _ H1), H1. cbn [negb].
  destruct (Nat.eqb_spec i limit); [lia|].
  apply IH; [exact H2|lia].
Qed.

Lemma rdt_end limit i acc t :
  all_chars is_digit t = true -> (i + String.length t <= limit)%nat ->
  read_digit_token limit i acc t = Some (digits_value acc t, "").
Proof.
  revert i acc. induction t as [|a t IH]; simpl; intros i acc H Hl; [reflexivity|].
  apply andb_true_iff in H. destruct H as [H1 H2].
  rewrite (digit_not_sp _ H1), H1. cbn [negb].
  destruct (Nat.eqb_spec i limit); [lia|].
  apply IH; [exact H2|lia].
Qed.

Lemma digit_val_range a : is_digit a = true -> 0 <= digit_val a <= 9.
Proof. unfold is_digit, digit_val. rewrite in_range_spec. lia. Qed.

Lemma digits_value_lower acc t : all_chars is_digit t = true -> 0 <= acc ->
  acc * 10 ^ Z.of_nat (String.length t) <= digits_value acc t.
Proof.
  revert acc. induction t as [|a t IH]; intros acc H Ha.
  - simpl. lia.
  - simpl in H. apply andb_true_iff in H. destruct H as [H1 H2].
    pose proof (digit_val_range _ H1) as Hd.
    cbn [digits_value String.length]. rewrite Nat2Z.inj_succ, Z.pow_succ_r by lia.
    specialize (IH (acc * 10 + digit_val a) H2 ltac:(lia)).
    assert (0 < 10 ^ Z.of_nat (String.length t)) by (apply Z.pow_pos_nonneg; lia). nia.
Qed.

Lemma digits_value_upper acc t : all_chars is_digit t = true -> 0 <= acc ->
  digits_value acc t < (acc + 1) * 10 ^ Z.of_nat (String.length t).
Proof.
  revert acc. induction t as [|a t IH]; intros acc H Ha.
  - simpl. lia.
  - simpl in H. apply andb_true_iff in H. destruct H as [H1 H2].
    pose proof (digit_val_range _ H1) as Hd.
    cbn [digits_value String.length]. rewrite Nat2Z.inj_succ, Z.pow_succ_r by lia.
    specialize (IH (acc * 10 + digit_val a) H2 ltac:(lia)).
    assert (0 < 10 ^ Z.of_nat (String.length t)) by (apply Z.pow_pos_nonneg; lia). nia.
Qed.

(* a digit token is a non-negative number below 10^limit *)
Lemma rdt_inv limit i acc s v r :
  read_digit_token limit i acc s = Some (v, r) -> 0 <= acc ->
  exists t, all_chars is_digit t = true /\ ((i <= limit)%nat -> (i + String.length t <= limit)%nat) /\
            v = digits_value acc t /\ (s = t \/ s = t ++ String " " r).
Proof.
  revert i acc v r. induction s as [|a s IH]; simpl; intros i acc v r H Ha.
  - injection H as <- <-. exists "". simpl. repeat split; [lia|auto].
  - destruct (is_sp a) eqn:Ea.
    + injection H as <- <-. exists "". simpl. repeat split; [lia|]. right.
      unfold is_sp in Ea. apply Ascii.eqb_eq in Ea. now subst.
    + destruct (Nat.eqb_spec i limit); [discriminate|].
      destruct (is_digit a) eqn:Ei; [|discriminate]. cbn [negb] in H.
      pose proof (digit_val_range _ Ei) as Hd.
      destruct (IH _ _ _ _ H ltac:(lia)) as [t [H1 [H2 [H3 H4]]]].
      exists (String a t). simpl. rewrite Ei, H1. repeat split; [lia|exact H3|].
      destruct H4 as [-> | ->]; [left|right]; reflexivity.
Qed.

(* ---------------------------------------------------------------- read_byte_string *)

Lemma string_len_ind (P : string -> Prop) :
  (forall s, (forall t, (String.length t < String.length s)%nat -> P t) -> P s) -> forall s, P s.
Proof.
  intros H s. apply (well_founded_induction (Wf_nat.well_founded_ltof _ String.length)).
  intros x Hx. apply H. exact Hx.
Qed.

Lemma rbs_sp t rest : valid_bs t = true -> read_byte_string (t ++ String " " rest) = Some (t, rest).
Proof.
  revert rest. induction t as [t IH] using string_len_ind; intros rest H.
  destruct t as [|a t]; [reflexivity|].
  cbn [valid_bs] in H. cbn [append read_byte_string].
  destruct (is_sp a); [discriminate|].
  destruct (code a <? 128)%N.
  - apply andb_true_iff in H. destruct H as [H1 H2]. rewrite H1.
    rewrite (IH t); [reflexivity|simpl; lia|exact H2].
  - destruct ((code a =? 194) || (code a =? 195))%N; [|discriminate].
    destruct t as [|b t]; [discriminate|].
    apply andb_true_iff in H. destruct H as [H1 H2]. cbn [append]. rewrite H1.
    rewrite (IH t); [reflexivity|simpl; lia|exact H2].
Qed.

Lemma rbs_end t : valid_bs t = true -> read_byte_string t = Some (t, "").
Proof.
  induction t as [t IH] using string_len_ind; intros H.
  destruct t as [|a t]; [reflexivity|].
  cbn [valid_bs] in H. cbn [read_byte_string].
  destruct (is_sp a); [discriminate|].
  destruct (code a <? 128)%N.
  - apply andb_true_iff in H. destruct H as [H1 H2]. rewrite H1.
    rewrite (IH t); [reflexivity|simpl; lia|exact H2].
  - destruct ((code a =? 194) || (code a =? 195))%N; [|discriminate].
    destruct t as [|b t]; [discriminate|].
    apply andb_true_iff in H. destruct H as [H1 H2]. rewrite H1.
    rewrite (IH t); [reflexivity|simpl; lia|exact H2].
Qed.

Lemma rbs_inv s t r : read_byte_string s = Some (t, r) ->
  valid_bs t = true /\ (s = t \/ s = t ++ String " " r) /\ (String.length r <= String.length s)%nat.
Proof.
  revert t r. induction s as [s IH] using string_len_ind; intros t r H.
  destruct s as [|a s].
  - simpl in H. injection H as <- <-. simpl. auto.
  - cbn [read_byte_string] in H. destruct (is_sp a) eqn:Ea.
    + injection H as <- <-. simpl. repeat split; [|lia]. right.
      unfold is_sp in Ea. apply Ascii.eqb_eq in Ea. now subst.
    + destruct (code a <? 128)%N eqn:E128.
      * destruct (bs_ascii_ok (code a)) eqn:Eok; [|discriminate].
        destruct (read_byte_string s) as [[t' r']|] eqn:E; [|discriminate]. injection H as <- <-.
        destruct (IH s ltac:(simpl; lia) _ _ E) as [H1 [H2 H3]].
        cbn [valid_bs]. rewrite Ea, E128, Eok, H1. repeat split; [|simpl; lia].
        destruct H2 as [-> | ->]; [left|right]; reflexivity.
      * destruct ((code a =? 194) || (code a =? 195))%N eqn:Ec; [|discriminate].
        destruct s as [|b s]; [discriminate|].
        destruct (is_cont b) eqn:Eb; [|discriminate].
        destruct (read_byte_string s) as [[t' r']|] eqn:E; [|discriminate]. injection H as <- <-.
        destruct (IH s ltac:(simpl; lia) _ _ E) as [H1 [H2 H3]].
        cbn [valid_bs]. rewrite Ea, E128, Ec, Eb, H1. repeat split; [|simpl; lia].
        destruct H2 as [-> | ->]; [left|right]; reflexivity.
Qed.

Lemma valid_bs_no_space t : valid_bs t = true -> no_space t = true.
Proof.
  unfold no_space.
  induction t as [t IH] using string_len_ind; intros H.
  destruct t as [|a t]; [reflexivity|].
  cbn [valid_bs] in H. cbn [all_chars].
  destruct (is_sp a); [discriminate|]. cbn [negb andb].
  destruct (code a <? 128)%N.
  - apply andb_true_iff in H. destruct H as [_ H2]. apply IH; [simpl; lia|exact H2].
  - destruct ((code a =? 194) || (code a =? 195))%N; [|discriminate].
    destruct t as [|b t]; [discriminate|].
    apply andb_true_iff in H. destruct H as [H1 H2]. cbn [all_chars].
    assert (Hb : is_sp b = false).
    { rewrite is_sp_code. unfold is_cont in H1. rewrite in_range_spec in H1. apply N.eqb_neq. lia. }
    rewrite Hb. cbn [negb andb]. apply IH; [simpl; lia|exact H2].
Qed.

(* ---------------------------------------------------------------- strip_zone, prefixes *)

Lemma strip_zone_id s : no_space_no_zone s = true -> strip_zone s = s.
Proof.
  unfold no_space_no_zone. induction s as [|a s IH]; simpl; intros H; [reflexivity|].
  apply andb_true_iff in H. destruct H as [H1 H2]. apply andb_true_iff in H1. destruct H1 as [_ H1].
  apply negb_true_iff in H1. rewrite H1. now rewrite (IH H2).
Qed.

Lemma strip_zone_valid s : no_space s = true -> no_space_no_zone (strip_zone s) = true.
Proof.
  unfold no_space, no_space_no_zone. induction s as [|a s IH]; simpl; intros H; [reflexivity|].
  apply andb_true_iff in H. destruct H as [H1 H2].
  destruct (Ascii.eqb a "%") eqn:E; [reflexivity|].
  simpl. rewrite H1, E, (IH H2). reflexivity.
Qed.

Lemma nsnz_no_space s : no_space_no_zone s = true -> no_space s = true.
Proof.
  unfold no_space, no_space_no_zone. apply all_chars_impl. intros a H.
  apply andb_true_iff in H. tauto.
Qed.

(* a line starting with ice-chars and a space does not start with "candidate:" *)
Lemma trim_prefix_ice f rest :
  all_chars is_ice_char f = true -> trim_prefix "candidate:" (f ++ String " " rest) = None.
Proof.
  intros H.
  do 9 (destruct f as [|? f]; [reflexivity|];
        cbn [append trim_prefix];
        match goal with |- context [Ascii.eqb ?x ?y] => destruct (Ascii.eqb x y) end; [|reflexivity];
        simpl in H; apply andb_true_iff in H; destruct H as [_ H]).
  destruct f as [|z f]; [reflexivity|].
  cbn [append trim_prefix].
  destruct (Ascii.eqb_spec ":"%char z) as [<-|]; [|reflexivity].
  simpl in H. discriminate.
Qed.

(* ---------------------------------------------------------------- decimal printing *)

Lemma nz_ne d : d <> Decimal.Nil -> NilZero.string_of_uint d = NilEmpty.string_of_uint d.
Proof. destruct d; intros H; try reflexivity. congruence. Qed.

Lemma uint_digits_ne d : all_chars is_digit (NilEmpty.string_of_uint d) = true.
Proof. induction d; simpl; try reflexivity; exact IHd. Qed.

Lemma uint_digits d : all_chars is_digit (NilZero.string_of_uint d) = true.
Proof. destruct d; try apply uint_digits_ne. reflexivity. Qed.

Lemma N_to_decimal_digits n : all_chars is_digit (N_to_decimal n) = true.
Proof. apply uint_digits. Qed.

Lemma N_to_decimal_nonempty n : is_empty (N_to_decimal n) = false.
Proof.
  unfold N_to_decimal. pose proof (N_to_uint_nonnil n) as H.
  destruct (N.to_uint n); simpl; congruence.
Qed.

(* the accumulator loop of readCandidateDigitToken computes the number the digits denote *)
Lemma digits_value_pos_acc d acc :
  digits_value (Z.pos acc) (NilEmpty.string_of_uint d) = Z.pos (Pos.of_uint_acc d acc).
Proof.
  revert acc. induction d; intros acc; cbn [NilEmpty.string_of_uint digits_value Pos.of_uint_acc];
    try reflexivity; rewrite <- IHd; f_equal;
    match goal with |- context [digit_val ?c] =>
      let v := eval vm_compute in (digit_val c) in change (digit_val c) with v end; lia.
Qed.

Lemma digits_value_of_uint d : digits_value 0 (NilEmpty.string_of_uint d) = Z.of_N (Pos.of_uint d).
Proof.
  induction d; cbn [NilEmpty.string_of_uint digits_value Pos.of_uint]; try reflexivity;
    try (change (0 * 10 + digit_val _) with 0; exact IHd);
    match goal with |- digits_value ?a _ = _ =>
      let v := eval vm_compute in a in change a with v end;
    rewrite digits_value_pos_acc; reflexivity.
Qed.

Lemma digits_value_dec n : digits_value 0 (N_to_decimal n) = Z.of_N n.
Proof.
  unfold N_to_decimal. rewrite nz_ne by apply N_to_uint_nonnil. rewrite digits_value_of_uint.
  f_equal. change (Pos.of_uint (N.to_uint n)) with (N.of_uint (N.to_uint n)).
  apply DecimalN.Unsigned.of_to.
Qed.

(* no leading zero: the first digit of a number >= 1 is not 0, so the length bounds the value *)
Lemma unorm_D0 d d' : Decimal.unorm d = Decimal.D0 d' -> d' = Decimal.Nil.
Proof.
  induction d; simpl; intros H; try discriminate.
  - injection H as <-. reflexivity.
  - exact (IHd H).
Qed.

Lemma first_digit_nonzero n : (0 < n)%N ->
  exists a t, N_to_decimal n = String a t /\ 1 <= digit_val a.
Proof.
  intros Hn. unfold N_to_decimal.
  assert (Hu : Decimal.unorm (N.to_uint n) = N.to_uint n).
  { rewrite <- (DecimalN.Unsigned.of_to n) at 2. symmetry. apply DecimalN.Unsigned.to_of. }
  assert (Hz : N.to_uint n <> Decimal.zero).
  { intros E. apply (f_equal N.of_uint) in E. rewrite DecimalN.Unsigned.of_to in E. simpl in E. lia. }
  destruct (N.to_uint n) as [|d|d|d|d|d|d|d|d|d|d] eqn:E;
    try (eexists; eexists; split; [reflexivity|vm_compute; discriminate]).
  exfalso. apply unorm_D0 in Hu. subst d. apply Hz. reflexivity.
Qed.

Lemma N_to_decimal_length n k : (n < 10 ^ N.of_nat k)%N -> (1 <= k)%nat ->
  (String.length (N_to_decimal n) <= k)%nat.
Proof.
  intros Hn Hk.
  destruct (N.eq_dec n 0) as [->|Hz]; [simpl; lia|].
  destruct (first_digit_nonzero n ltac:(lia)) as [a [t [E Ha]]].
  pose proof (digits_value_dec n) as Hv. pose proof (N_to_decimal_digits n) as Hd.
  rewrite E in Hv, Hd |- *. cbn [digits_value] in Hv. simpl in Hd.
  apply andb_true_iff in Hd. destruct Hd as [Hd1 Hd2].
  pose proof (digits_value_lower (0 * 10 + digit_val a) t Hd2 ltac:(lia)) as Hl.
  rewrite Hv in Hl. cbn [String.length].
  destruct (Nat.le_gt_cases (S (String.length t)) k) as [|Hgt]; [assumption|exfalso].
  assert (10 ^ Z.of_nat k <= 10 ^ Z.of_nat (String.length t)) by (apply Z.pow_le_mono_r; lia).
  assert (Z.of_N n < 10 ^ Z.of_nat k).
  { replace (10 ^ Z.of_nat k) with (Z.of_N (10 ^ N.of_nat k)); [lia|].
    rewrite N2Z.inj_pow, nat_N_Z. reflexivity. }
  assert (0 < 10 ^ Z.of_nat (String.length t)) by (apply Z.pow_pos_nonneg; lia). nia.
Qed.

Lemma print_int_nonneg z : 0 <= z -> print_int z = N_to_decimal (Z.to_N z).
Proof. intros H. unfold print_int. destruct (Z.ltb_spec z 0); [lia|reflexivity]. Qed.

(* a non-negative number below 10^k prints as at most k digits and reads back *)
Lemma print_int_props z k : 0 <= z < 10 ^ Z.of_nat k -> (1 <= k)%nat ->
  all_chars is_digit (print_int z) = true /\ (String.length (print_int z) <= k)%nat /\
  digits_value 0 (print_int z) = z /\ is_empty (print_int z) = false.
Proof.
  intros Hz Hk. rewrite print_int_nonneg by lia.
  repeat split.
  - apply N_to_decimal_digits.
  - apply N_to_decimal_length; [|exact Hk].
    apply N2Z.inj_lt. rewrite Z2N.id by lia. rewrite N2Z.inj_pow, nat_N_Z. simpl (Z.of_N 10). lia.
  - rewrite digits_value_dec. apply Z2N.id. lia.
  - apply N_to_decimal_nonempty.
Qed.

Lemma digits_no_space t : all_chars is_digit t = true -> no_space t = true.
Proof. unfold no_space. apply all_chars_impl. intros a H. now rewrite (digit_not_sp _ H). Qed.

Lemma ice_no_space t : all_chars is_ice_char t = true -> no_space t = true.
Proof. unfold no_space. apply all_chars_impl. intros a H. now rewrite (ice_not_sp _ H). Qed.
