(* Projection: in the two-agent system (with application data), each agent's state after any schedule is the state of
   the single-agent machine after that agent's own operations, in order (its API calls and ticks, and the STUN / data
   datagrams delivered to it).  Every single-agent history theorem therefore holds for each agent of the composed
   system; two of them are restated below. *)
From Coq Require Import ZArith Bool List Lia.
From Ice Require Import Model.AgentTypes Model.AgentCore Model.PairMonitor Model.TwoAgents Model.TwoAgentsData Gen.Consts
  Proofs.AgentFrame Proofs.AgentC06 Proofs.AgentC03Sel Proofs.AgentRem Proofs.AgentEnds Proofs.TwoAgentsProofs Proofs.TwoAgentsDataProofs
  Proofs.AgentC20 Proofs.AgentC20Hist Proofs.AgentSingleNom Proofs.AgentNomInv.
Import ListNotations.
Local Open Scope Z_scope.

Section Projection.
Variables (cfga cfgb : config) (t : topology).

(* the operations agent [a] performs while the system performs [o] from [d] *)
Definition own_ops (a : bool) (d : dsys) (o : dsys_op) : list op :=
  match o with
  | DSys (SApi on_a op) => if Bool.eqb on_a a && negb (is_inbound op) then [op] else []
  | DSys (SDeliver n) =>
    match nth_error (sy_net (d_sys d)) n with
    | Some f => if Bool.eqb (f_to_a f) a then [InStun (f_lh f) (f_src f) (f_msg f)] else []
    | None => []
    end
  | DDeliver n =>
    match nth_error (d_net d) n with
    | Some f => if Bool.eqb (d_to_a f) a then [InData (d_lh f) (d_src f) (d_pl f)] else []
    | None => []
    end
  | _ => []
  end.

Fixpoint history_of (a : bool) (d : dsys) (ops : list dsys_op) : list op :=
  match ops with
  | [] => []
  | o :: r => own_ops a d o ++ history_of a (dsys_step cfga cfgb t d o) r
  end.

Lemma runs_app cfg s x y : runs cfg s (x ++ y) = runs cfg (runs cfg s x) y.
Proof. unfold runs. apply fold_left_app. Qed.

Lemma own_step a d o :
  agent_of a (d_sys (dsys_step cfga cfgb t d o)) = runs (cfg_of cfga cfgb a) (agent_of a (d_sys d)) (own_ops a d o).
Proof.
  destruct o as [so|n|n|n]; cbn [dsys_step own_ops d_sys].
  - destruct so as [on_a op|n|n|n]; cbn [sys_step].
    + destruct (is_inbound op); [rewrite andb_false_r; reflexivity|]. rewrite andb_true_r.
      destruct (Bool.eqb on_a a) eqn:E.
      * apply eqb_prop in E. subst on_a. cbn [runs fold_left]. apply agent_step_self.
      * assert (a = negb on_a) by (destruct a, on_a; try reflexivity; discriminate E). subst a. apply agent_step_peer.
    + destruct (nth_error (sy_net (d_sys d)) n) as [f|]; [|reflexivity].
      destruct (Bool.eqb (f_to_a f) a) eqn:E.
      * apply eqb_prop in E. subst a. cbn [runs fold_left]. rewrite agent_step_self. destruct (f_to_a f); reflexivity.
      * assert (a = negb (f_to_a f)) by (destruct a, (f_to_a f); try reflexivity; discriminate E). subst a.
        rewrite agent_step_peer. destruct (f_to_a f); reflexivity.
    + destruct a; reflexivity.
    + destruct (nth_error (sy_net (d_sys d)) n); destruct a; reflexivity.
  - destruct (nth_error (d_net d) n) as [f|]; [|reflexivity]. cbn [d_sys].
    destruct (d_to_a f) eqn:Eto; destruct a; cbn [Bool.eqb agent_of sy_a sy_b cfg_of runs fold_left]; reflexivity.
  - reflexivity.
  - destruct (nth_error (d_net d) n); reflexivity.
Qed.

Theorem agent_state_is_own_history a ops : forall d,
  agent_of a (d_sys (dsys_run cfga cfgb t d ops)) =
  runs (cfg_of cfga cfgb a) (agent_of a (d_sys d)) (history_of a d ops).
Proof.
  unfold dsys_run. induction ops as [|o r IH]; intros d; cbn [fold_left history_of]; [reflexivity|].
  rewrite IH, runs_app, own_step. reflexivity.
Qed.

End Projection.

(* every state an agent reaches inside the composed system is a state the single-agent machine reaches on some history *)
Theorem system_states_are_single_agent_states cfga cfgb t a lua lpa lub lpb ops :
  let d0 := dsys_init lua lpa lub lpb in
  agent_of a (d_sys (dsys_run cfga cfgb t d0 ops)) =
  fst (run (cfg_of cfga cfgb a) (if a then lua else lub) (if a then lpa else lpb) (history_of cfga cfgb t a d0 ops)).
Proof.
  intros d0. rewrite agent_state_is_own_history. unfold run, run_from. rewrite run_runs. destruct a; reflexivity.
Qed.

(* two single-agent history theorems, carried over to both agents of the system: the selected pair is listed, valid and
   nominated (C03), and the recorded nominated pair agrees with the checklist *)
Corollary system_selected_is_validated_and_nominated cfga cfgb t a lua lpa lub lpb ops id :
  let s := agent_of a (d_sys (dsys_run cfga cfgb t (dsys_init lua lpa lub lpb) ops)) in
  s_selected s = Some id ->
  exists p, In p (s_checklist s) /\ p_id p = id /\ p_state p = CandidatePairStateSucceeded /\ p_nominated p = true.
Proof.
  intros s. unfold s. rewrite system_states_are_single_agent_states. apply selected_is_validated_and_nominated.
Qed.

Corollary system_nominated_record_agrees cfga cfgb t a lua lpa lub lpb ops :
  NomInv (agent_of a (d_sys (dsys_run cfga cfgb t (dsys_init lua lpa lub lpb) ops))).
Proof.
  rewrite agent_state_is_own_history. destruct a; apply nominated_record_agrees_with_checklist.
Qed.
