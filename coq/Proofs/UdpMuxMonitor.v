(* C12: the extracted monitor (reference routing table, Model/UdpMux.v r_step / C12_checks) accepts
   every run of the model - under the repaired semantics always, under the pinned semantics as long
   as no removed-but-open connection is written through or closed ([clean]). *)
From Coq Require Import ZArith NArith Bool String Ascii List Lia Arith.
From Ice Require Import Model.PrioSpec Model.UdpMux Proofs.UdpMuxProofs.
Import ListNotations.

(* ---------- lists ---------- *)
Lemma fold_add l : forall a, fold_left Nat.add l a = a + fold_left Nat.add l 0.
Proof.
  induction l as [|y l IH]; simpl; intros a; [lia|]. rewrite IH. rewrite (IH y). lia.
Qed.

Lemma total_cons x l : total (x :: l) = x + total l.
Proof. unfold total. simpl. apply fold_add. Qed.

Lemma total_map_le (f g : nat -> nat) l : (forall i, In i l -> g i <= f i) -> total (map g l) <= total (map f l).
Proof.
  induction l as [|x l IH]; simpl; intros H; [unfold total; simpl; lia|].
  rewrite !total_cons. specialize (IH (fun i Hi => H i (or_intror Hi))). specialize (H x (or_introl eq_refl)). lia.
Qed.

Lemma total_map_bump (f g : nat -> nat) c l :
  NoDup l -> (forall i, In i l -> g i = f i + (if Nat.eqb i c then 1 else 0)) ->
  total (map g l) <= S (total (map f l)).
Proof.
  induction l as [|x l IH]; simpl; intros Hn H; [unfold total; simpl; lia|].
  rewrite !total_cons. inversion Hn; subst.
  pose proof (H x (or_introl eq_refl)) as Hx. destruct (Nat.eqb_spec x c).
  - subst x. assert (total (map g l) <= total (map f l)).
    { apply total_map_le. intros i Hi. rewrite (H i (or_intror Hi)).
      destruct (Nat.eqb_spec i c); [subst; contradiction | lia]. }
    lia.
  - specialize (IH H3 (fun i Hi => H i (or_intror Hi))). lia.
Qed.

Lemma filter_nil {A} (P : A -> bool) l : (forall x, In x l -> P x = false) -> filter P l = [].
Proof.
  induction l as [|x l IH]; simpl; intros H; auto.
  rewrite (H x (or_introl eq_refl)). apply IH. intros y Hy. apply H. auto.
Qed.

Lemma nodup_single (l : list nat) c : NoDup l -> (forall x, In x l -> x = c) -> length l <= 1.
Proof.
  intros Hn H. destruct l as [|x [|y l]]; simpl; try lia. exfalso.
  inversion Hn; subst. apply H2. rewrite (H x), (H y); simpl; auto.
Qed.

Lemma all_ok_app a b : all_ok (a ++ b) = all_ok a && all_ok b.
Proof. unfold all_ok. apply forallb_app. Qed.

(* ---------- snapshots ---------- *)
Definition qlen (s : state) (c : nat) : nat := length (c_queue (conns s c)).

Lemma qlens_snap s : qlens (snap_of s) = map (qlen s) (seq 0 (nconns s)).
Proof. unfold qlens, snap_of; simpl. rewrite map_map. reflexivity. Qed.

Lemma qlens_nth s c : InvCore s -> nth c (qlens (snap_of s)) 0 = qlen s c.
Proof.
  intros I. rewrite qlens_snap. destruct (Nat.lt_ge_cases c (nconns s)).
  - rewrite (nth_indep _ 0 (qlen s 0)) by (rewrite map_length, seq_length; auto).
    rewrite map_nth. rewrite seq_nth by auto. reflexivity.
  - rewrite nth_overflow by (rewrite map_length, seq_length; auto).
    unfold qlen. rewrite (inv_fresh s I c H). reflexivity.
Qed.

Lemma qlens_length s : length (qlens (snap_of s)) = nconns s.
Proof. rewrite qlens_snap, map_length, seq_length. reflexivity. Qed.

Lemma grown_In s s' g :
  InvCore s -> InvCore s' ->
  In g (grown_of (qlens (snap_of s)) (qlens (snap_of s'))) <-> g < nconns s' /\ qlen s g < qlen s' g.
Proof.
  intros I I'. unfold grown_of. rewrite filter_In, in_seq, qlens_length, !qlens_nth by auto.
  rewrite Nat.ltb_lt. lia.
Qed.

Lemma bindings_In {K} (keys : list K) (f : K -> option nat) k c : In (k, c) (bindings keys f) -> f k = Some c.
Proof.
  unfold bindings. rewrite in_flat_map. intros [x [_ H]]. destruct (f x) eqn:E; simpl in H; [|contradiction].
  destruct H as [H|[]]. inversion H; subst. exact E.
Qed.

(* ---------- the simulation between the code-level state and the reference ---------- *)
Record Sim (s : state) (r : rstate) : Prop := {
  sim_n : r_n r = nconns s;
  sim_nh : r_nh r = nhandles s;
  sim_h : forall h, h < nhandles s -> r_handles r h = handles s h;
  sim_mc : r_mclosed r = mclosed s;
  sim_m4 : forall u, r_reg4 r u = m4 s u;
  sim_m6 : forall u, r_reg6 r u = m6 s u;
  sim_owner : mclosed s = false -> forall a, r_owner r a = amap s a;
  sim_key : forall c, c < nconns s -> rc_key (r_conns r c) = c_key (conns s c);
  sim_refs : forall c, c < nconns s -> rc_refs (r_conns r c) = c_refs (conns s c);
  sim_live : forall c, c < nconns s -> (rc_status (r_conns r c) = Live <-> is_reg s c);
  sim_removed : forall c, c < nconns s -> rc_status (r_conns r c) = Removed ->
      Dead s c /\ (c_closed (conns s c) = false -> rc_exp (r_conns r c) = c_queue (conns s c));
  sim_closed : forall c, c < nconns s -> rc_status (r_conns r c) = Closed ->
      c_closed (conns s c) = true /\ (mclosed s = false -> unbound s c);
  sim_exp : forall c, c < nconns s -> rc_status (r_conns r c) = Live -> rc_exp (r_conns r c) = c_queue (conns s c) }.

Lemma sim_bound_live s r a c : Inv s -> Sim s r -> mclosed s = false -> amap s a = Some c -> rc_status (r_conns r c) = Live.
Proof.
  intros [I R] S M E. destruct (inv_bind s I a c E) as [Hc _].
  destruct (rc_status (r_conns r c)) eqn:Es; auto.
  - destruct (sim_removed s r S c Hc Es) as [(_ & U & _) _]. exfalso. apply (U a E).
  - destruct (sim_closed s r S c Hc Es) as [_ U]. exfalso. apply (U M a E).
Qed.

Lemma sim_reg_live s r u c : Inv s -> Sim s r -> reg_under s u c -> rc_status (r_conns r c) = Live /\ c < nconns s.
Proof.
  intros [I R] S H. destruct (inv_key s I u c H) as [Hc K]. split; auto.
  apply (sim_live s r S c Hc). unfold is_reg. rewrite K. exact H.
Qed.

(* the pinned semantics can leave a connection open but unregistered; the reference calls it
   Removed.  An operation is clean if it is not a write to an address / a Close through an open
   handle of such a connection. *)
Definition clean_op (s : state) (o : op) : Prop :=
  match o with
  | OWrite h (WAddr _) _ | OCloseH h =>
    h < nhandles s -> h_closed (handles s h) = false ->
    c_closed (conns s (h_conn (handles s h))) = false -> is_reg s (h_conn (handles s h))
  | _ => True
  end.

Fixpoint clean (cf : cfg) (s : state) (ops : list op) : Prop :=
  match ops with
  | [] => True
  | o :: r => clean_op s o /\ clean cf (fst (step cf s o)) r
  end.

Lemma clean_fixed cf ops : forall s, remove_closes cf = true -> reach cf s -> clean cf s ops.
Proof.
  induction ops as [|o ops IH]; simpl; intros s Hrc Hr; auto. split.
  - pose proof (reach_invfix cf s Hrc Hr) as F. pose proof (reach_inv cf s Hr) as [I _].
    destruct o; simpl; auto.
    + destruct d; auto. intros Hh _ Hc. apply (fix_open_reg s F); auto. apply (inv_hconn s I h Hh).
    + intros Hh _ Hc. apply (fix_open_reg s F); auto. apply (inv_hconn s I h Hh).
  - apply IH; auto. apply reach_step. exact Hr.
Qed.

(* ---------- checks that hold in every simulated state ---------- *)
Lemma bind_checks_ok s r : Inv s -> Sim s r -> bind_checks r (snap_of s) = [].
Proof.
  intros Hi S. unfold bind_checks. simpl. destruct (mclosed s) eqn:M; auto.
  assert (X : forall l, (forall p, In p l -> amap s (fst p) = Some (snd p)) ->
             flat_map (fun p : addr * nat =>
                if is_removed r (snd p) then [("after_remove_no_binding"%string, false)]
                else if is_closed_r r (snd p) then [("after_close_no_binding"%string, false)] else []) l = []).
  { induction l as [|p l IH]; simpl; intros H; auto.
    pose proof (sim_bound_live s r (fst p) (snd p) Hi S M (H p (or_introl eq_refl))) as L.
    unfold is_removed, is_closed_r. rewrite L. simpl. apply IH. intros q Hq. apply H. auto. }
  apply X. intros [a c] H. simpl. apply (bindings_In _ _ _ _ H).
Qed.

Lemma set_last_sim s r l : Sim s r -> Sim s (r_set_last r l).
Proof. intros S. destruct S. constructor; simpl; auto. Qed.

Lemma grow_checks_ok cf s o :
  Inv s -> (forall src k b, o <> OInbound src k b) ->
  grown_of (qlens (snap_of s)) (qlens (snap_of (fst (step cf s o)))) = [].
Proof.
  intros Hi Hn. apply filter_nil. intros g Hg. apply Nat.ltb_ge.
  pose proof (inv_step cf s o Hi) as Hi'. rewrite !qlens_nth by (apply Hi || apply Hi').
  pose proof (step_queue cf s o g Hi) as Q.
  assert (D : dlv s o g = []) by (destruct o; simpl; auto; exfalso; eapply Hn; eauto).
  rewrite D, app_nil_r in Q. unfold qlen. rewrite Q, app_length. lia.
Qed.

(* ---------- frame helpers ---------- *)
Lemma is_reg_frame s s' c :
  m4 s' = m4 s -> m6 s' = m6 s -> c_key (conns s' c) = c_key (conns s c) -> (is_reg s' c <-> is_reg s c).
Proof. intros A B K. unfold is_reg, reg_under. rewrite A, B, K. tauto. Qed.

Lemma dead_frame s s' c :
  nconns s' = nconns s -> amap s' = amap s -> m4 s' = m4 s -> m6 s' = m6 s -> (Dead s' c <-> Dead s c).
Proof. intros A B C D. unfold Dead, unbound, unreg, reg_under. rewrite A, B, C, D. tauto. Qed.

Lemma unbound_frame s s' c : amap s' = amap s -> (unbound s' c <-> unbound s c).
Proof. intros A. unfold unbound. rewrite A. tauto. Qed.

Lemma designated_route s r src k :
  Sim s r -> r_designated r src k = if mclosed s then None else route s src k.
Proof.
  intros S. unfold r_designated. rewrite (sim_mc s r S). destruct (mclosed s) eqn:M; auto.
  unfold route. rewrite (sim_owner s r S M). destruct (amap s (canon src)); auto.
  destruct k; auto. unfold mfam. destruct (a_is6 (canon src)); [apply (sim_m6 s r S) | apply (sim_m4 s r S)].
Qed.

Lemma route_recipient s r src k c :
  Inv s -> Sim s r -> mclosed s = false -> route s src k = Some c ->
  recipient s src k c = true /\ rc_status (r_conns r c) = Live /\ c < nconns s.
Proof.
  intros Hi S M E. assert (L : rc_status (r_conns r c) = Live /\ c < nconns s).
  { apply route_spec in E. destruct E as [E | [_ [un [_ E]]]].
    - split; [eapply sim_bound_live; eauto|]. apply (inv_bind s (proj1 Hi) _ _ E).
    - apply (sim_reg_live s r (ufrag_of un) c Hi S). unfold reg_under, mfam in *. destruct (a_is6 (canon src)); auto. }
  destruct L as [L Hc]. split; auto. apply recipient_true. split; auto. split; auto.
  apply (sim_live s r S c Hc) in L. destruct Hi as [I R]. apply (R _ _ L).
Qed.

(* a step that only touches queues (model) / expected sequences (reference) *)
Lemma sim_queue_change s s' r r' :
  Sim s r ->
  nconns s' = nconns s -> handles s' = handles s -> nhandles s' = nhandles s ->
  m4 s' = m4 s -> m6 s' = m6 s -> amap s' = amap s -> mclosed s' = mclosed s ->
  (forall c, c_key (conns s' c) = c_key (conns s c) /\ c_closed (conns s' c) = c_closed (conns s c) /\ c_refs (conns s' c) = c_refs (conns s c)) ->
  r_n r' = r_n r -> r_handles r' = r_handles r -> r_nh r' = r_nh r -> r_reg4 r' = r_reg4 r ->
  r_reg6 r' = r_reg6 r -> r_owner r' = r_owner r -> r_mclosed r' = r_mclosed r ->
  (forall c, rc_key (r_conns r' c) = rc_key (r_conns r c) /\ rc_status (r_conns r' c) = rc_status (r_conns r c) /\ rc_refs (r_conns r' c) = rc_refs (r_conns r c)) ->
  (forall c, c < nconns s ->
             rc_status (r_conns r c) = Live \/ (rc_status (r_conns r c) = Removed /\ c_closed (conns s c) = false) ->
             rc_exp (r_conns r' c) = c_queue (conns s' c)) ->
  Sim s' r'.
Proof.
  intros S F1 F2 F3 F4 F5 F7 F9 FC G1 G2 G3 G4 G5 G6 G7 GC E.
  destruct S. constructor.
  - congruence.
  - congruence.
  - intros h H. rewrite G2, F2. apply sim_h0. congruence.
  - congruence.
  - intros u. rewrite G4, F4. auto.
  - intros u. rewrite G5, F5. auto.
  - intros M a. rewrite G6, F7. apply sim_owner0. congruence.
  - intros c H. destruct (GC c) as (A & _). destruct (FC c) as (B & _). rewrite A, B. apply sim_key0. congruence.
  - intros c H. destruct (GC c) as (_ & _ & A). destruct (FC c) as (_ & _ & B). rewrite A, B. apply sim_refs0. congruence.
  - intros c H. destruct (GC c) as (_ & A & _). destruct (FC c) as (B & _). rewrite A.
    rewrite sim_live0 by congruence. symmetry. apply is_reg_frame; auto.
  - intros c H H0. destruct (GC c) as (_ & A & _). destruct (FC c) as (_ & B & _). rewrite A in H0. rewrite F1 in H.
    destruct (sim_removed0 c H H0) as [X Y]. split; [apply (dead_frame s s'); auto|].
    rewrite B. intros Hc. apply E; auto.
  - intros c H H0. destruct (GC c) as (_ & A & _). destruct (FC c) as (_ & B & _). rewrite A in H0. rewrite F1 in H.
    destruct (sim_closed0 c H H0) as [X Y]. rewrite B. split; auto. intros M. apply (unbound_frame s s'); auto.
    apply Y. congruence.
  - intros c H H0. destruct (GC c) as (_ & A & _). rewrite A in H0. rewrite F1 in H. apply E; auto.
Qed.

(* ---------- inbound ---------- *)
Lemma sim_inbound s r src k b :
  Inv s -> Sim s r ->
  let s' := fst (do_inbound s src k b) in
  Sim s' (fst (r_inbound r src k b (qlens (snap_of s)) (qlens (snap_of s')))) /\
  all_ok (snd (r_inbound r src k b (qlens (snap_of s)) (qlens (snap_of s')))) = true.
Proof.
  intros Hi Sm. cbv zeta.
  pose proof (inv_inbound s src k b Hi) as Hi'.
  destruct (routing_thm (mkCfg true true) s src k b) as (Q & F & U & _ & F1 & F2 & F3 & F4 & F5 & F7 & F9).
  simpl in Q, F, F1, F2, F3, F4, F5, F7, F9.
  set (s' := fst (do_inbound s src k b)) in *.
  assert (FC : forall c, c_key (conns s' c) = c_key (conns s c) /\ c_closed (conns s' c) = c_closed (conns s c) /\
                         c_refs (conns s' c) = c_refs (conns s c)).
  { intros c. destruct (F c) as (A & _ & B & C). auto. }
  assert (QL : forall g, qlen s' g = qlen s g + (if recipient s src k g then 1 else 0)).
  { intros g. unfold qlen. rewrite (Q g), app_length. destruct (recipient s src k g); simpl; lia. }
  (* the case where nobody is the recipient *)
  assert (NONE : (forall g, recipient s src k g = false) ->
                 Sim s' r /\ grown_of (qlens (snap_of s)) (qlens (snap_of s')) = [] /\
                 total (qlens (snap_of s')) <= S (total (qlens (snap_of s)))).
  { intros NR. split; [|split].
    - apply (sim_queue_change s s' r r Sm); auto; try congruence.
      intros c Hc [L | [L O]]; rewrite (Q c), NR, app_nil_r.
      + apply (sim_exp s r Sm c Hc L).
      + apply (sim_removed s r Sm c Hc L); auto.
    - apply filter_nil. intros g _. apply Nat.ltb_ge. rewrite !qlens_nth by (apply Hi || apply Hi').
      rewrite QL, NR. lia.
    - rewrite !qlens_snap, F1. etransitivity; [apply total_map_le | apply Nat.le_succ_diag_r].
      intros i _. rewrite QL, NR. lia. }
  pose proof (designated_route s r src k Sm) as D.
  unfold r_inbound. rewrite D.
  destruct (mclosed s) eqn:M.
  - destruct NONE as (A & G & T); [intros g; unfold recipient; rewrite M; reflexivity|].
    rewrite G. simpl. split; auto. rewrite andb_true_r. apply andb_true_iff. split; [|reflexivity].
    apply Nat.leb_le. exact T.
  - destruct (route s src k) as [c|] eqn:Er.
    + destruct (route_recipient s r src k c Hi Sm M Er) as (Rc & Lc & Hc).
      assert (RI : forall g, recipient s src k g = Nat.eqb g c).
      { intros g. destruct (Nat.eqb_spec g c); [subst; auto|].
        destruct (recipient s src k g) eqn:E; auto. exfalso. apply n. apply (U g c E Rc). }
      assert (GI : forall g, In g (grown_of (qlens (snap_of s)) (qlens (snap_of s'))) -> g = c).
      { intros g Hg. apply grown_In in Hg; try (apply Hi || apply Hi'). destruct Hg as [_ Hg].
        rewrite QL, RI in Hg. destruct (Nat.eqb_spec g c); auto. lia. }
      split.
      * apply (sim_queue_change s s' r _ Sm); auto; unfold r_set_conn; simpl; auto; try congruence.
        -- intros c0. upd_cases; simpl; auto.
        -- intros c0 Hc0 St. rewrite (Q c0), RI. upd_cases; simpl.
           ++ rewrite Nat.eqb_refl. f_equal. apply (sim_exp s r Sm c Hc0 Lc).
           ++ destruct (Nat.eqb_spec c0 c); [contradiction|]. rewrite app_nil_r.
              destruct St as [L | [L O]]; [apply (sim_exp s r Sm c0 Hc0 L) | apply (sim_removed s r Sm c0 Hc0 L); auto].
      * simpl. apply andb_true_iff. split; [|apply andb_true_iff; split].
        -- apply andb_true_iff. split; apply Nat.leb_le.
           ++ rewrite !qlens_snap, F1. apply total_map_bump with c; [apply seq_NoDup|].
              intros i _. rewrite QL, RI. reflexivity.
           ++ apply nodup_single with c; auto. unfold grown_of. apply NoDup_filter, seq_NoDup.
        -- apply Nat.eqb_eq. rewrite !qlens_nth by (apply Hi || apply Hi'). rewrite QL, RI, Nat.eqb_refl. lia.
        -- rewrite (filter_nil (fun g => negb (Nat.eqb g c))); [reflexivity|].
           intros g Hg. rewrite (GI g Hg), Nat.eqb_refl. reflexivity.
    + destruct NONE as (A & G & T).
      { intros g. destruct (recipient s src k g) eqn:E; auto. apply recipient_true in E. destruct E as (_ & E & _). congruence. }
      rewrite G. simpl. split; auto. rewrite andb_true_r. apply andb_true_iff. split; [|reflexivity].
      apply Nat.leb_le. exact T.
Qed.

Lemma sim_status_open s r c :
  Sim s r -> c < nconns s -> c_closed (conns s c) = false ->
  rc_status (r_conns r c) = Live \/ (rc_status (r_conns r c) = Removed /\ c_closed (conns s c) = false).
Proof.
  intros Sm Hc O. destruct (rc_status (r_conns r c)) eqn:E; auto.
  destruct (sim_closed s r Sm c Hc E) as [X _]. congruence.
Qed.

Lemma sim_exp_open s r c :
  Sim s r -> c < nconns s -> c_closed (conns s c) = false -> rc_exp (r_conns r c) = c_queue (conns s c).
Proof.
  intros Sm Hc O. destruct (sim_status_open s r c Sm Hc O) as [L | [L _]].
  - apply (sim_exp s r Sm c Hc L).
  - apply (sim_removed s r Sm c Hc L); auto.
Qed.

Lemma pkt_eqb_refl p : pkt_eqb p p = true.
Proof. unfold pkt_eqb. rewrite String.eqb_refl, addr_eqb_refl. reflexivity. Qed.

Lemma read_empty_aux s r c :
  Sim s r -> c < nconns s -> c_queue (conns s c) = [] ->
  Sim s
    (fst
       (if is_live r c && true
        then (r, [("routing_delivers_to_designated"%string,
                   match rc_exp (r_conns r c) with [] => true | _ :: _ => false end)])
        else (r_set_conn r c (mkRconn (rc_key (r_conns r c)) (rc_status (r_conns r c)) [] (rc_refs (r_conns r c))), []))) /\
  all_ok
    (snd
       (if is_live r c && true
        then (r, [("routing_delivers_to_designated"%string,
                   match rc_exp (r_conns r c) with [] => true | _ :: _ => false end)])
        else (r_set_conn r c (mkRconn (rc_key (r_conns r c)) (rc_status (r_conns r c)) [] (rc_refs (r_conns r c))), []))) = true.
Proof.
  intros Sm Hc Eq. unfold is_live. destruct (rc_status (r_conns r c)) eqn:Es; simpl.
  - split; auto. rewrite (sim_exp s r Sm c Hc Es), Eq. reflexivity.
  - split; auto. apply (sim_queue_change s s r _ Sm); auto; unfold r_set_conn; simpl; auto.
    + intros c0. upd_cases; simpl; auto.
    + intros c0 Hc0 St. upd_cases; simpl.
      * rewrite Eq. reflexivity.
      * destruct St as [L | [L O]]; [apply (sim_exp s r Sm c0 Hc0 L) | apply (sim_removed s r Sm c0 Hc0 L); auto].
  - split; auto. apply (sim_queue_change s s r _ Sm); auto; unfold r_set_conn; simpl; auto.
    + intros c0. upd_cases; simpl; auto.
    + intros c0 Hc0 St. upd_cases; simpl.
      * destruct St as [L | [L O]]; congruence.
      * destruct St as [L | [L O]]; [apply (sim_exp s r Sm c0 Hc0 L) | apply (sim_removed s r Sm c0 Hc0 L); auto].
Qed.

(* ---------- Read ---------- *)
Lemma sim_read s r h bl :
  Inv s -> Sim s r ->
  Sim (fst (do_read s h bl)) (fst (r_read r h bl (snd (do_read s h bl)))) /\
  all_ok (snd (r_read r h bl (snd (do_read s h bl)))) = true.
Proof.
  intros Hi Sm. destruct Hi as [I R]. unfold do_read, r_read. rewrite (sim_nh s r Sm).
  destruct (Nat.ltb_spec h (nhandles s)); simpl; [|split; auto].
  rewrite (sim_h s r Sm h H).
  destruct (h_closed (handles s h)) eqn:Eh; simpl; [split; auto|].
  set (c := h_conn (handles s h)). assert (Hc : c < nconns s) by (apply (inv_hconn s I h H)).
  destruct (c_queue (conns s c)) as [|[b src] rest] eqn:Eq.
  - (* empty queue: timeout / EOF *)
    fold c. destruct (c_closed (conns s c)); simpl; apply read_empty_aux; auto.
  - (* a datagram is taken *)
    assert (O : c_closed (conns s c) = false).
    { destruct (c_closed (conns s c)) eqn:E; auto. rewrite (inv_closedq s I c E) in Eq. discriminate. }
    pose proof (sim_exp_open s r c Sm Hc O) as Ex. rewrite Eq in Ex.
    set (s' := set_conn s c _).
    assert (S' : Sim s' (r_set_conn r c (mkRconn (rc_key (r_conns r c)) (rc_status (r_conns r c)) rest (rc_refs (r_conns r c))))).
    { apply (sim_queue_change s s' r _ Sm); auto; unfold r_set_conn; subst s'; simpl; auto.
      + intros c0. upd_cases; simpl; auto.
      + intros c0. upd_cases; simpl; auto.
      + intros c0 Hc0 St. upd_cases; simpl; auto.
        destruct St as [L | [L O']]; [apply (sim_exp s r Sm c0 Hc0 L) | apply (sim_removed s r Sm c0 Hc0 L); auto]. }
    fold c. destruct (N.ltb_spec bl (N.of_nat (String.length b))); simpl; rewrite Ex.
    + split; auto. simpl. apply N.ltb_lt in H0. rewrite H0. reflexivity.
    + rewrite pkt_eqb_refl. simpl. split; auto.
Qed.

(* ---------- WriteTo ---------- *)
Lemma r_write_checks r h d x : snd (r_write r h d x) = [].
Proof. unfold r_write. destruct x; auto. destruct d; auto. destruct (is_live r (h_conn (r_handles r h)) && negb (r_mclosed r)); auto. Qed.

Lemma sim_bind s s' r c ca :
  Sim s r -> mclosed s = false -> c < nconns s -> rc_status (r_conns r c) = Live ->
  nconns s' = nconns s -> handles s' = handles s -> nhandles s' = nhandles s ->
  m4 s' = m4 s -> m6 s' = m6 s -> mclosed s' = mclosed s ->
  (forall a, amap s' a = if addr_eqb a ca then Some c else amap s a) ->
  (forall i, c_key (conns s' i) = c_key (conns s i) /\ c_queue (conns s' i) = c_queue (conns s i) /\
             c_closed (conns s' i) = c_closed (conns s i) /\ c_refs (conns s' i) = c_refs (conns s i)) ->
  Sim s' (mkRstate (r_conns r) (r_n r) (r_handles r) (r_nh r) (r_reg4 r) (r_reg6 r)
                   (upda (r_owner r) ca (Some c)) (r_mclosed r) (r_last r)).
Proof.
  intros Sm M Hc L F1 F2 F3 F4 F5 F9 FA FC.
  assert (NB : forall c0, rc_status (r_conns r c0) <> Live -> unbound s c0 -> unbound s' c0).
  { intros c0 Hn U a E. rewrite FA in E. destruct (addr_eqb a ca).
    - inversion E; subst. contradiction.
    - apply (U a E). }
  destruct Sm. constructor; simpl.
  - congruence.
  - congruence.
  - intros h0 H. rewrite F2. apply sim_h0. congruence.
  - congruence.
  - intros u. rewrite F4. auto.
  - intros u. rewrite F5. auto.
  - intros _ a. rewrite FA. unfold upda. destruct (addr_eqb a ca); auto.
  - intros i H. destruct (FC i) as (K & _). rewrite K. apply sim_key0. congruence.
  - intros i H. destruct (FC i) as (_ & _ & _ & Rf). rewrite Rf. apply sim_refs0. congruence.
  - intros i H. destruct (FC i) as (K & _). rewrite sim_live0 by congruence. symmetry. apply is_reg_frame; auto.
  - intros i H H0. rewrite F1 in H. destruct (sim_removed0 i H H0) as [(D1 & D2 & D3) Q].
    destruct (FC i) as (_ & Qu & Cl & _). split.
    + split; [congruence|]. split; [apply NB; auto; congruence|]. unfold unreg, reg_under in *. rewrite F4, F5. exact D3.
    + rewrite Cl, Qu. exact Q.
  - intros i H H0. rewrite F1 in H. destruct (sim_closed0 i H H0) as [X Y].
    destruct (FC i) as (_ & _ & Cl & _). rewrite Cl. split; auto. intros _. apply NB; auto. congruence.
  - intros i H H0. rewrite F1 in H. destruct (FC i) as (_ & Qu & _). rewrite Qu. auto.
Qed.

Lemma sim_write s r h d len :
  Inv s -> Sim s r -> clean_op s (OWrite h d len) ->
  Sim (fst (do_write s h d len)) (fst (r_write r h d (snd (do_write s h d len)))).
Proof.
  intros [I R] Sm Cl. unfold do_write.
  destruct (Nat.ltb_spec h (nhandles s)); simpl; [|exact Sm].
  destruct (h_closed (handles s h)) eqn:Eh; simpl; [exact Sm|].
  set (c := h_conn (handles s h)) in *. assert (Hc : c < nconns s) by (apply (inv_hconn s I h H)).
  destruct (c_closed (conns s c)) eqn:Ec; simpl; [exact Sm|].
  destruct d; simpl; try exact Sm.
  simpl in Cl. specialize (Cl H Eh Ec). fold c in Cl.
  assert (L : rc_status (r_conns r c) = Live) by (apply (sim_live s r Sm c Hc); exact Cl).
  destruct (mclosed s) eqn:M.
  - (* the mux is closed: only the connection's own address list grows *)
    exfalso. apply (inv_mclosed s I M _ _ Cl).
  - assert (X : is_live r c && negb (r_mclosed r) = true).
    { unfold is_live. rewrite L, (sim_mc s r Sm), M. reflexivity. }
    unfold r_write. rewrite (sim_h s r Sm h H). fold c. simpl. rewrite X.
    destruct (mem_addr (canon a) (c_addrs (conns s c))) eqn:Em.
    + apply (sim_bind s s r c (canon a) Sm M Hc L); auto.
      intros a0. destruct (addr_eqb a0 (canon a)) eqn:E; auto. apply addr_eqb_spec in E. subst a0.
      apply mem_addr_In in Em. apply (inv_own s I _ c (canon a) Cl Em).
    + destruct (register_frame s c (canon a)) as (F1 & F2 & F3 & F4 & F5 & F6 & F7).
      apply (sim_bind s (register s c (canon a)) r c (canon a) Sm M Hc L); auto.
      * intros a0. rewrite register_amap, M. reflexivity.
      * intros i. destruct (register_conn s c (canon a) i) as (A & B & C & D). auto.
Qed.

(* a step that leaves the routing tables alone (handles, reference counts, queues may change) *)
Lemma sim_same_tables s s' r r' :
  Sim s r ->
  nconns s' = nconns s -> r_n r' = r_n r -> r_nh r' = nhandles s' ->
  (forall h, h < nhandles s' -> r_handles r' h = handles s' h) ->
  m4 s' = m4 s -> m6 s' = m6 s -> amap s' = amap s -> mclosed s' = mclosed s ->
  r_reg4 r' = r_reg4 r -> r_reg6 r' = r_reg6 r -> r_owner r' = r_owner r -> r_mclosed r' = r_mclosed r ->
  (forall c, c_key (conns s' c) = c_key (conns s c) /\ c_closed (conns s' c) = c_closed (conns s c)) ->
  (forall c, rc_key (r_conns r' c) = rc_key (r_conns r c) /\ rc_status (r_conns r' c) = rc_status (r_conns r c)) ->
  (forall c, c < nconns s -> rc_refs (r_conns r' c) = c_refs (conns s' c)) ->
  (forall c, c < nconns s ->
             rc_status (r_conns r c) = Live \/ (rc_status (r_conns r c) = Removed /\ c_closed (conns s c) = false) ->
             rc_exp (r_conns r' c) = c_queue (conns s' c)) ->
  Sim s' r'.
Proof.
  intros Sm F1 G1 G3 G2 F4 F5 F7 F9 G4 G5 G6 G7 FC GC RF E.
  destruct Sm. constructor.
  - congruence.
  - exact G3.
  - exact G2.
  - congruence.
  - intros u. rewrite G4, F4. auto.
  - intros u. rewrite G5, F5. auto.
  - intros M a. rewrite G6, F7. apply sim_owner0. congruence.
  - intros c H. destruct (GC c) as (A & _). destruct (FC c) as (B & _). rewrite A, B. apply sim_key0. congruence.
  - intros c H. apply RF. congruence.
  - intros c H. destruct (GC c) as (_ & A). destruct (FC c) as (B & _). rewrite A.
    rewrite sim_live0 by congruence. symmetry. apply is_reg_frame; auto.
  - intros c H H0. destruct (GC c) as (_ & A). destruct (FC c) as (_ & B). rewrite A in H0. rewrite F1 in H.
    destruct (sim_removed0 c H H0) as [X Y]. split; [apply (dead_frame s s'); auto|].
    rewrite B. intros Hc. apply E; auto.
  - intros c H H0. destruct (GC c) as (_ & A). destruct (FC c) as (_ & B). rewrite A in H0. rewrite F1 in H.
    destruct (sim_closed0 c H H0) as [X Y]. rewrite B. split; auto. intros M. apply (unbound_frame s s'); auto.
    apply Y. congruence.
  - intros c H H0. destruct (GC c) as (_ & A). rewrite A in H0. rewrite F1 in H. apply E; auto.
Qed.

(* ---------- GetConn ---------- *)
Lemma sim_getconn cf s r u is6 ok :
  Inv s -> Sim s r ->
  Sim (fst (do_getconn cf s u is6 ok)) (fst (r_getconn r u is6 (snd (do_getconn cf s u is6 ok)))) /\
  all_ok (snd (r_getconn r u is6 (snd (do_getconn cf s u is6 ok)))) = true.
Proof.
  intros [I R] Sm. unfold do_getconn.
  destruct (negb (unspec cf) && negb ok); simpl; [split; auto|].
  destruct (mclosed s) eqn:M; simpl; [split; auto|].
  assert (Ereg : (if is6 then r_reg6 r u else r_reg4 r u) = mfam s is6 u).
  { unfold mfam. destruct is6; [apply (sim_m6 s r Sm) | apply (sim_m4 s r Sm)]. }
  destruct (mfam s is6 u) as [c|] eqn:Ef; unfold r_getconn; simpl; rewrite Ereg.
  - (* an existing connection: one more handle *)
    assert (Hreg : reg_under s u c) by (unfold reg_under, mfam in *; destruct is6; auto).
    destruct (inv_key s I u c Hreg) as [Hc Hk]. simpl. split.
    + apply (sim_same_tables s _ r _ Sm); simpl; auto.
      * intros h H. destruct (Nat.eq_dec h (nhandles s)).
        -- subst h. rewrite !updn_same. reflexivity.
        -- rewrite !updn_other by auto. apply (sim_h s r Sm). lia.
      * intros c0. upd_cases; simpl; auto.
      * intros c0. upd_cases; simpl; auto.
      * intros c0 H0. upd_cases; simpl; [f_equal|]; apply (sim_refs s r Sm); auto.
      * intros c0 H0 St. assert (X : c_queue (conns s c0) = rc_exp (r_conns r c0)).
        { destruct St as [L | [L O]]; symmetry; [apply (sim_exp s r Sm c0 H0 L) | apply (sim_removed s r Sm c0 H0 L); auto]. }
        upd_cases; simpl; auto.
    + rewrite Nat.eqb_refl, (sim_nh s r Sm), Nat.eqb_refl. reflexivity.
  - (* a new connection *)
    simpl. rewrite (sim_n s r Sm), (sim_nh s r Sm), !Nat.eqb_refl. split; [|reflexivity].
    assert (Hnew : forall u0,
               ((if is6 then m4 s else upds (m4 s) u (Some (nconns s))) u0 = if negb is6 && String.eqb u0 u then Some (nconns s) else m4 s u0) /\
               ((if is6 then upds (m6 s) u (Some (nconns s)) else m6 s) u0 = if is6 && String.eqb u0 u then Some (nconns s) else m6 s u0)).
    { intros u0. unfold upds. destruct is6; simpl; auto. }
    assert (Hold : forall c0, c0 < nconns s ->
               ((if is6 then m4 s else upds (m4 s) u (Some (nconns s))) (c_key (conns s c0)) = Some c0 \/
                (if is6 then upds (m6 s) u (Some (nconns s)) else m6 s) (c_key (conns s c0)) = Some c0) <-> is_reg s c0).
    { intros c0 H0. unfold is_reg, reg_under.
      destruct (Hnew (c_key (conns s c0))) as [A B]. rewrite A, B. unfold mfam in Ef.
      destruct is6; simpl; destruct (String.eqb_spec (c_key (conns s c0)) u); try tauto;
        rewrite e in *; rewrite Ef; split; intros [X|X]; auto; try discriminate;
        inversion X; lia. }
    constructor; simpl.
    + reflexivity.
    + reflexivity.
    + intros h H. destruct (Nat.eq_dec h (nhandles s)).
      * subst h. rewrite !updn_same. reflexivity.
      * rewrite !updn_other by auto. apply (sim_h s r Sm). lia.
    + rewrite (sim_mc s r Sm). exact M.
    + intros u0. destruct is6; [apply (sim_m4 s r Sm)|].
      unfold upds. destruct (String.eqb u0 u); auto. apply (sim_m4 s r Sm).
    + intros u0. destruct is6; [|apply (sim_m6 s r Sm)].
      unfold upds. destruct (String.eqb u0 u); auto. apply (sim_m6 s r Sm).
    + intros _ a. apply (sim_owner s r Sm M).
    + intros c0 H. destruct (Nat.eq_dec c0 (nconns s)).
      * subst c0. rewrite !updn_same. reflexivity.
      * rewrite !updn_other by auto. apply (sim_key s r Sm). lia.
    + intros c0 H. destruct (Nat.eq_dec c0 (nconns s)).
      * subst c0. rewrite !updn_same. reflexivity.
      * rewrite !updn_other by auto. apply (sim_refs s r Sm). lia.
    + intros c0 H. destruct (Nat.eq_dec c0 (nconns s)).
      * subst c0. rewrite updn_same. simpl. split; auto. intros _.
        unfold is_reg, reg_under. simpl. rewrite updn_same. simpl.
        destruct (Hnew u) as [A B]. rewrite A, B, String.eqb_refl. destruct is6; simpl; auto.
      * rewrite updn_other by auto. assert (Hlt : c0 < nconns s) by lia.
        rewrite (sim_live s r Sm c0 Hlt). symmetry.
        unfold is_reg at 1. unfold reg_under. simpl. rewrite updn_other by auto. apply Hold. exact Hlt.
    + intros c0 H. destruct (Nat.eq_dec c0 (nconns s)).
      * subst c0. rewrite updn_same. simpl. discriminate.
      * rewrite !updn_other by auto. intros H0. assert (Hlt : c0 < nconns s) by lia.
        destruct (sim_removed s r Sm c0 Hlt H0) as [(D1 & D2 & D3) Q]. split; auto.
        split; [simpl; lia|]. split; [exact D2|].
        intros u0 E. unfold reg_under in E; simpl in E. destruct (Hnew u0) as [A B]. rewrite A, B in E.
        destruct E as [E|E].
        -- destruct (negb is6 && String.eqb u0 u); [inversion E; lia | apply (D3 u0); left; auto].
        -- destruct (is6 && String.eqb u0 u); [inversion E; lia | apply (D3 u0); right; auto].
    + intros c0 H. destruct (Nat.eq_dec c0 (nconns s)).
      * subst c0. rewrite updn_same. simpl. discriminate.
      * rewrite !updn_other by auto. intros H0. assert (Hlt : c0 < nconns s) by lia.
        destruct (sim_closed s r Sm c0 Hlt H0) as [X Y]. split; auto.
    + intros c0 H. destruct (Nat.eq_dec c0 (nconns s)).
      * subst c0. rewrite !updn_same. reflexivity.
      * rewrite !updn_other by auto. intros H0. apply (sim_exp s r Sm); auto. lia.
Qed.

(* ---------- the reference's "kill" folds ---------- *)
Definition killed (rc : rconn) (st : rstatus) (flush : bool) : rconn :=
  mkRconn (rc_key rc) st (if flush then [] else rc_exp rc) (rc_refs rc).

Definition kill_if (P : rstatus -> bool) (st : rstatus) (flush : bool) (rs : rstate) (c : nat) : rstate :=
  if P (rc_status (r_conns rs c)) then r_kill rs c st flush else rs.

Lemma kill_fold (P : rstatus -> bool) st flush :
  P st = false ->
  forall cs r,
    let r1 := fold_left (kill_if P st flush) cs r in
    r_n r1 = r_n r /\ r_handles r1 = r_handles r /\ r_nh r1 = r_nh r /\ r_reg4 r1 = r_reg4 r /\
    r_reg6 r1 = r_reg6 r /\ r_mclosed r1 = r_mclosed r /\ r_last r1 = r_last r /\
    (forall i, r_conns r1 i = if inl i cs && P (rc_status (r_conns r i)) then killed (r_conns r i) st flush else r_conns r i) /\
    (forall a, r_owner r1 a = match r_owner r a with
                              | Some x => if inl x cs && P (rc_status (r_conns r x)) then None else Some x
                              | None => None
                              end).
Proof.
  intros HP. induction cs as [|c cs IH]; intros r; simpl.
  - repeat split; auto. intros a. destruct (r_owner r a); reflexivity.
  - destruct (IH (kill_if P st flush r c)) as (A1 & A2 & A3 & A4 & A5 & A6 & A7 & A8 & A9).
    unfold inl in *. simpl.
    destruct (P (rc_status (r_conns r c))) eqn:Ep.
    + (* c is killed now *)
      assert (KC : kill_if P st flush r c = r_kill r c st flush) by (unfold kill_if; rewrite Ep; reflexivity).
      rewrite KC in *. simpl in A1, A2, A3, A4, A5, A6, A7.
      repeat split; auto.
      * intros i. rewrite A8. simpl. destruct (Nat.eqb_spec i c).
        -- subst i. rewrite updn_same. simpl. rewrite HP, andb_false_r, Ep. reflexivity.
        -- rewrite updn_other by auto. reflexivity.
      * intros a. rewrite A9. simpl. unfold disown. destruct (r_owner r a) as [x|]; auto.
        destruct (Nat.eqb_spec x c).
        -- subst x. simpl. rewrite Ep. reflexivity.
        -- simpl. rewrite updn_other by auto. reflexivity.
    + assert (KC : kill_if P st flush r c = r) by (unfold kill_if; rewrite Ep; reflexivity).
      rewrite KC in *. repeat split; auto.
      * intros i. rewrite A8. destruct (Nat.eqb_spec i c); simpl; auto. subst i. rewrite Ep, !andb_false_r. reflexivity.
      * intros a. rewrite A9. destruct (r_owner r a) as [x|]; auto.
        destruct (Nat.eqb_spec x c); simpl; auto. subst x. rewrite Ep, !andb_false_r. reflexivity.
Qed.

Lemma fold_left_ext {A B} (f g : A -> B -> A) l : (forall a b, f a b = g a b) -> forall a, fold_left f l a = fold_left g l a.
Proof. intros H. induction l as [|x l IH]; simpl; intros a; auto. rewrite H. apply IH. Qed.

Definition isLive (x : rstatus) : bool := match x with Live => true | _ => false end.
Definition notClosed (x : rstatus) : bool := match x with Closed => false | _ => true end.

Lemma r_remove_eq r u :
  r_remove r u =
  let r1 := fold_left (kill_if isLive Removed false) (opt_list (r_reg4 r u) ++ opt_list (r_reg6 r u)) r in
  mkRstate (r_conns r1) (r_n r1) (r_handles r1) (r_nh r1) (upds (r_reg4 r1) u None) (upds (r_reg6 r1) u None)
           (r_owner r1) (r_mclosed r1) (r_last r1).
Proof. reflexivity. Qed.

Lemma r_closemux_eq r :
  r_closemux r =
  if r_mclosed r then r else
  let r1 := fold_left (kill_if notClosed Closed true) (filter (r_registered r) (seq 0 (r_n r))) r in
  mkRstate (r_conns r1) (r_n r1) (r_handles r1) (r_nh r1) (fun _ => None) (fun _ => None) (fun _ => None) true (r_last r1).
Proof.
  unfold r_closemux. destruct (r_mclosed r); auto. cbv zeta.
  rewrite (fold_left_ext (fun st c => if is_closed_r st c then st else r_kill st c Closed true) (kill_if notClosed Closed true)); auto.
  intros a b. unfold kill_if, notClosed, is_closed_r. destruct (rc_status (r_conns a b)); reflexivity.
Qed.

Lemma dead_shrink s s' c : Shrink s s' -> Dead s c -> Dead s' c.
Proof.
  intros Sh (A & B & C). split; [rewrite (sh_n _ _ Sh); auto|]. split.
  - intros a E. apply (B a). apply (sh_amap _ _ Sh a c E).
  - intros u E. apply (C u). apply (sh_reg _ _ Sh u c E).
Qed.

Lemma unbound_shrink s s' c : Shrink s s' -> unbound s c -> unbound s' c.
Proof. intros Sh B a E. apply (B a). apply (sh_amap _ _ Sh a c E). Qed.

(* ---------- unregistering everything under a ufrag (RemoveConnByUfrag, or a connection's close) ---------- *)
Lemma sim_unregister s s' r r' u :
  Inv s -> Sim s r -> Shrink s s' ->
  let cs := removed_by s u in
  (forall u', m4 s' u' = (if String.eqb u' u then None else m4 s u') /\
              m6 s' u' = (if String.eqb u' u then None else m6 s u')) ->
  (forall a, amap s' a = match amap s a with Some x => if inl x cs then None else Some x | None => None end) ->
  (forall i, inl i cs = false -> c_closed (conns s' i) = c_closed (conns s i)) ->
  r_n r' = r_n r -> r_nh r' = r_nh r -> r_handles r' = r_handles r -> r_mclosed r' = r_mclosed r ->
  (forall u', r_reg4 r' u' = (if String.eqb u' u then None else r_reg4 r u') /\
              r_reg6 r' u' = (if String.eqb u' u then None else r_reg6 r u')) ->
  (forall a, r_owner r' a = match r_owner r a with Some x => if inl x cs then None else Some x | None => None end) ->
  (forall i, rc_key (r_conns r' i) = rc_key (r_conns r i) /\ rc_refs (r_conns r' i) = rc_refs (r_conns r i)) ->
  (forall i, inl i cs = false -> r_conns r' i = r_conns r i) ->
  (forall i, inl i cs = true ->
             (rc_status (r_conns r' i) = Removed /\ rc_exp (r_conns r' i) = rc_exp (r_conns r i)) \/
             (rc_status (r_conns r' i) = Closed /\ c_closed (conns s' i) = true)) ->
  Sim s' r'.
Proof.
  intros Hi Sm Sh cs HM HA HC G1 G2 G3 G4 GM GO GK GS GR.
  destruct Hi as [I R].
  assert (CS : forall i, inl i cs = true -> reg_under s u i /\ i < nconns s /\ c_key (conns s i) = u /\ rc_status (r_conns r i) = Live).
  { intros i H. apply inl_In, removed_by_In in H. destruct (inv_key s I u i H) as [A B].
    destruct (sim_reg_live s r u i (conj I R) Sm H). auto. }
  assert (REG : forall u' i, reg_under s' u' i <-> u' <> u /\ reg_under s u' i).
  { intros u' i. unfold reg_under. destruct (HM u') as [A B]. rewrite A, B.
    destruct (String.eqb_spec u' u); split; try tauto; intros [X|X]; discriminate. }
  assert (DEAD : forall i, inl i cs = true -> Dead s' i).
  { intros i H. destruct (CS i H) as (A & B & C & D). split; [rewrite (sh_n _ _ Sh); auto|]. split.
    - intros a E. rewrite HA in E. destruct (amap s a) as [x|]; [|discriminate].
      destruct (inl x cs) eqn:Ex; [discriminate|]. inversion E; subst. congruence.
    - intros u' E. apply REG in E. destruct E as [Hne E]. apply Hne. destruct (inv_key s I u' i E). congruence. }
  assert (QS : forall i, c_closed (conns s' i) = c_closed (conns s i) -> c_queue (conns s' i) = c_queue (conns s i)).
  { intros i E. destruct (sh_conn _ _ Sh i) as (_ & _ & _ & _ & Q). rewrite Q, E.
    destruct (c_closed (conns s i)); reflexivity. }
  constructor.
  - rewrite G1, (sh_n _ _ Sh). apply (sim_n s r Sm).
  - rewrite G2, (sh_nh _ _ Sh). apply (sim_nh s r Sm).
  - intros h H. rewrite G3, (sh_h _ _ Sh). apply (sim_h s r Sm). rewrite <- (sh_nh _ _ Sh). exact H.
  - rewrite G4, (sh_mc _ _ Sh). apply (sim_mc s r Sm).
  - intros u'. destruct (GM u') as [A _]. destruct (HM u') as [B _]. rewrite A, B, (sim_m4 s r Sm). reflexivity.
  - intros u'. destruct (GM u') as [_ A]. destruct (HM u') as [_ B]. rewrite A, B, (sim_m6 s r Sm). reflexivity.
  - intros M a. rewrite (sh_mc _ _ Sh) in M. rewrite GO, HA, (sim_owner s r Sm M). reflexivity.
  - intros i H. rewrite (sh_n _ _ Sh) in H. destruct (GK i) as [A _]. destruct (sh_conn _ _ Sh i) as (B & _).
    rewrite A, B. apply (sim_key s r Sm i H).
  - intros i H. rewrite (sh_n _ _ Sh) in H. destruct (GK i) as [_ A]. destruct (sh_conn _ _ Sh i) as (_ & _ & B & _).
    rewrite A, B. apply (sim_refs s r Sm i H).
  - intros i H. rewrite (sh_n _ _ Sh) in H. destruct (sh_conn _ _ Sh i) as (K & _).
    unfold is_reg. rewrite K, REG. destruct (inl i cs) eqn:Ei.
    + destruct (CS i Ei) as (A & B & C & D). split.
      * intros L. destruct (GR i Ei) as [[X _] | [X _]]; congruence.
      * intros [Hne _]. congruence.
    + rewrite (GS i Ei), (sim_live s r Sm i H). unfold is_reg. split; [|tauto].
      intros X. split; auto. intros E. rewrite E in X. apply removed_by_In, inl_In in X. fold cs in X. congruence.
  - intros i H St. rewrite (sh_n _ _ Sh) in H. destruct (inl i cs) eqn:Ei.
    + split; [apply DEAD; auto|]. intros O. destruct (CS i Ei) as (A & B & C & D).
      destruct (GR i Ei) as [[_ X] | [X _]]; [|congruence]. rewrite X, (sim_exp s r Sm i H D).
      symmetry. apply QS. rewrite O. destruct (c_closed (conns s i)) eqn:E; auto.
      rewrite (shrink_facts_closed s s' i Sh E) in O. discriminate.
    + rewrite (GS i Ei) in *. destruct (sim_removed s r Sm i H St) as [D Q]. split; [apply (dead_shrink s s'); auto|].
      intros O. rewrite (HC i Ei) in O. rewrite (Q O). symmetry. apply QS. apply HC. exact Ei.
  - intros i H St. rewrite (sh_n _ _ Sh) in H. destruct (inl i cs) eqn:Ei.
    + destruct (GR i Ei) as [[X _] | [_ X]]; [congruence|]. split; auto. intros _. apply (DEAD i Ei).
    + rewrite (GS i Ei) in St. destruct (sim_closed s r Sm i H St) as [X Y]. split.
      * apply (shrink_facts_closed s s' i Sh X).
      * intros M. apply (unbound_shrink s s'); auto. apply Y. rewrite <- (sh_mc _ _ Sh). exact M.
  - intros i H St. rewrite (sh_n _ _ Sh) in H. destruct (inl i cs) eqn:Ei.
    + destruct (GR i Ei) as [[X _] | [X _]]; congruence.
    + rewrite (GS i Ei) in *. rewrite (sim_exp s r Sm i H St). symmetry. apply QS. apply HC. exact Ei.
Qed.

Lemma removed_live s r u i :
  Inv s -> Sim s r -> inl i (removed_by s u) = true -> rc_status (r_conns r i) = Live.
Proof.
  intros Hi Sm H. apply inl_In, removed_by_In in H. apply (sim_reg_live s r u i Hi Sm H).
Qed.

Lemma r_reg_removed s r u : Sim s r -> opt_list (r_reg4 r u) ++ opt_list (r_reg6 r u) = removed_by s u.
Proof. intros Sm. unfold removed_by. rewrite (sim_m4 s r Sm), (sim_m6 s r Sm). reflexivity. Qed.

Lemma sim_remove cf s r u : Inv s -> Sim s r -> Sim (do_remove cf s u) (r_remove r u).
Proof.
  intros Hi Sm. pose proof Hi as [I R].
  destruct (do_remove_spec cf s u I) as (_ & Sh & _ & HA & HC).
  rewrite r_remove_eq, (r_reg_removed s r u Sm). cbv zeta.
  destruct (kill_fold isLive Removed false eq_refl (removed_by s u) r) as (K1 & K2 & K3 & K4 & K5 & K6 & K7 & K8 & K9).
  apply (sim_unregister s _ r _ u Hi Sm Sh); simpl; auto.
  - apply do_remove_maps. exact I.
  - intros i Ei. rewrite HC, Ei, andb_false_r, orb_false_r. reflexivity.
  - intros u'. rewrite K4, K5. unfold upds. split; reflexivity.
  - intros a. rewrite K9. destruct (r_owner r a) as [x|]; auto.
    destruct (inl x (removed_by s u)) eqn:Ex; simpl; auto. rewrite (removed_live s r u x Hi Sm Ex). reflexivity.
  - intros i. rewrite K8. destruct (inl i (removed_by s u) && isLive (rc_status (r_conns r i))); simpl; auto.
  - intros i Ei. rewrite K8, Ei. reflexivity.
  - intros i Ei. rewrite K8, Ei, (removed_live s r u i Hi Sm Ei). simpl. left. auto.
Qed.

(* ---------- mux Close ---------- *)
Lemma r_registered_reg s r i : Inv s -> Sim s r -> i < nconns s -> (r_registered r i = true <-> is_reg s i).
Proof.
  intros [I R] Sm H. unfold r_registered, is_reg, reg_under.
  rewrite (sim_key s r Sm i H), (sim_m4 s r Sm), (sim_m6 s r Sm), orb_true_iff.
  destruct (m4 s (c_key (conns s i))) as [x|]; destruct (m6 s (c_key (conns s i))) as [y|];
    rewrite ?Nat.eqb_eq; split; intros [X|X]; try discriminate; try (inversion X; subst); auto.
Qed.

Lemma registered_is_reg s i : InvCore s -> (inl i (registered s) = true <-> is_reg s i).
Proof.
  intros I. rewrite inl_In. split.
  - intros H. apply registered_In in H. destruct H as [u H]. unfold is_reg.
    destruct (inv_key s I u i H) as [_ K]. rewrite K. exact H.
  - intros H. apply (In_registered s _ i I H).
Qed.

Lemma sim_closemux s r : Inv s -> Sim s r -> Sim (do_closemux s) (r_closemux r).
Proof.
  intros Hi Sm. pose proof Hi as [I R]. rewrite r_closemux_eq, (sim_mc s r Sm).
  destruct (mclosed s) eqn:M.
  - unfold do_closemux. rewrite M. exact Sm.
  - destruct (closemux_spec s I) as (_ & _ & X). destruct (X M) as (A & B & C & D & E & F & G & H). cbv zeta.
    destruct (kill_fold notClosed Closed true eq_refl (filter (r_registered r) (seq 0 (r_n r))) r)
      as (K1 & K2 & K3 & K4 & K5 & K6 & K7 & K8 & K9).
    assert (CS : forall i, i < nconns s ->
                 inl i (filter (r_registered r) (seq 0 (r_n r))) = inl i (registered s)).
    { intros i Hi'. destruct (inl i (registered s)) eqn:E1.
      - apply inl_In, filter_In. split; [apply in_seq; rewrite (sim_n s r Sm); lia|].
        apply (r_registered_reg s r i Hi Sm Hi'). apply registered_is_reg; auto.
      - destruct (inl i (filter (r_registered r) (seq 0 (r_n r)))) eqn:E2; auto.
        apply inl_In, filter_In in E2. destruct E2 as [_ E2]. apply (r_registered_reg s r i Hi Sm Hi') in E2.
        apply registered_is_reg in E2; auto. congruence. }
    assert (NOREG : forall u, m4 (do_closemux s) u = None /\ m6 (do_closemux s) u = None).
    { intros u. split.
      - destruct (m4 (do_closemux s) u) as [c|] eqn:E'; auto. exfalso. apply (F u c). left. exact E'.
      - destruct (m6 (do_closemux s) u) as [c|] eqn:E'; auto. exfalso. apply (F u c). right. exact E'. }
    assert (ST : forall i, i < nconns s ->
                 rc_status (r_conns (fold_left (kill_if notClosed Closed true) (filter (r_registered r) (seq 0 (r_n r))) r) i) =
                 if inl i (registered s) then Closed else rc_status (r_conns r i)).
    { intros i Hi'. rewrite K8, (CS i Hi'). destruct (inl i (registered s)) eqn:E1; simpl; auto.
      destruct (rc_status (r_conns r i)) eqn:Es; simpl; auto. }
    constructor; simpl.
    + rewrite K1, B. apply (sim_n s r Sm).
    + rewrite K3, D. apply (sim_nh s r Sm).
    + intros h Hh. rewrite K2, C. apply (sim_h s r Sm). rewrite <- D. exact Hh.
    + auto.
    + intros u. symmetry. apply NOREG.
    + intros u. symmetry. apply NOREG.
    + intros M'. congruence.
    + intros i Hi'. rewrite B in Hi'. rewrite K8. destruct (H i) as (Hk & _).
      rewrite Hk, <- (sim_key s r Sm i Hi').
      destruct (inl i (filter (r_registered r) (seq 0 (r_n r))) && notClosed (rc_status (r_conns r i))); reflexivity.
    + intros i Hi'. rewrite B in Hi'. rewrite K8. destruct (H i) as (_ & _ & Hr & _).
      rewrite Hr, <- (sim_refs s r Sm i Hi').
      destruct (inl i (filter (r_registered r) (seq 0 (r_n r))) && notClosed (rc_status (r_conns r i))); reflexivity.
    + intros i Hi'. rewrite B in Hi'. rewrite (ST i Hi'). split.
      * intros L. exfalso. destruct (inl i (registered s)) eqn:E1; [discriminate|].
        apply (sim_live s r Sm i Hi') in L. apply registered_is_reg in L; auto. congruence.
      * intros L. exfalso. apply (F _ _ L).
    + intros i Hi' St. rewrite B in Hi'. rewrite (ST i Hi') in St.
      destruct (inl i (registered s)) eqn:E1; [discriminate|].
      destruct (sim_removed s r Sm i Hi' St) as [(D1 & D2 & D3) Q]. split.
      * split; [rewrite B; auto|]. split; [unfold unbound; rewrite E; exact D2 | intros u Xr; apply (F u i Xr)].
      * rewrite G, E1, orb_false_r. intros O. rewrite K8, (CS i Hi'), E1. simpl.
        destruct (H i) as (_ & _ & _ & Hq). rewrite Hq, G, E1, orb_false_r, O. simpl. apply Q. exact O.
    + intros i Hi' St. rewrite B in Hi'. split; [|intros; congruence]. rewrite G.
      rewrite (ST i Hi') in St. destruct (inl i (registered s)) eqn:E1; [apply orb_true_r|].
      destruct (sim_closed s r Sm i Hi' St) as [Y _]. rewrite Y. reflexivity.
    + intros i Hi' St. rewrite B in Hi'. rewrite (ST i Hi') in St. exfalso.
      destruct (inl i (registered s)) eqn:E1; [discriminate|].
      apply (sim_live s r Sm i Hi') in St. apply registered_is_reg in St; auto. congruence.
Qed.

(* ---------- handle Close ---------- *)
Definition r_mid (r : rstate) (h : nat) : rstate :=
  let c := h_conn (r_handles r h) in
  let rc := r_conns r c in
  mkRstate (updn (r_conns r) c (mkRconn (rc_key rc) (rc_status rc) (rc_exp rc) (rc_refs rc - 1)%Z)) (r_n r)
           (updn (r_handles r) h (mkHandle c true)) (r_nh r)
           (r_reg4 r) (r_reg6 r) (r_owner r) (r_mclosed r) (r_last r).

Lemma sim_mid s r h : Inv s -> Sim s r -> h < nhandles s -> Sim (closeh_mid s h) (r_mid r h).
Proof.
  intros [I R] Sm H. unfold r_mid. rewrite (sim_h s r Sm h H).
  set (c := h_conn (handles s h)). assert (Hc : c < nconns s) by (apply (inv_hconn s I h H)).
  apply (sim_same_tables s _ r _ Sm); unfold closeh_mid; fold c; simpl; auto.
  - apply (sim_nh s r Sm).
  - intros h0 H0. destruct (Nat.eq_dec h0 h).
    + subst h0. rewrite !updn_same. reflexivity.
    + rewrite !updn_other by auto. apply (sim_h s r Sm h0 H0).
  - intros c0. upd_cases; simpl; auto.
  - intros c0. upd_cases; simpl; auto.
  - intros c0 H0. upd_cases; simpl; [f_equal|]; apply (sim_refs s r Sm); auto.
  - intros c0 H0 St. assert (X : c_queue (conns s c0) = rc_exp (r_conns r c0)).
    { destruct St as [L | [L O]]; symmetry; [apply (sim_exp s r Sm c0 H0 L) | apply (sim_removed s r Sm c0 H0 L); auto]. }
    upd_cases; simpl; auto.
Qed.

(* a Removed connection that is already closed in the code: the reference just marks it Closed *)
Lemma sim_kill_removed s r c :
  Sim s r -> c < nconns s -> rc_status (r_conns r c) = Removed -> c_closed (conns s c) = true ->
  Sim s (r_kill r c Closed true).
Proof.
  intros Sm Hc St Cl. destruct (sim_removed s r Sm c Hc St) as [(D1 & D2 & D3) _].
  destruct Sm. constructor; simpl; auto.
  - intros M a. unfold disown. rewrite (sim_owner0 M a). destruct (amap s a) as [x|] eqn:E; auto.
    destruct (Nat.eqb_spec x c); auto. subst x. exfalso. apply (D2 a E).
  - intros i H. destruct (Nat.eq_dec i c); [subst i; rewrite updn_same; simpl; auto | rewrite updn_other by auto; auto].
  - intros i H. destruct (Nat.eq_dec i c); [subst i; rewrite updn_same; simpl; auto | rewrite updn_other by auto; auto].
  - intros i H. destruct (Nat.eq_dec i c); [subst i; rewrite updn_same; simpl | rewrite updn_other by auto; auto].
    split; [discriminate|]. intros X. exfalso. apply (D3 _ X).
  - intros i H. destruct (Nat.eq_dec i c); [subst i; rewrite updn_same; simpl; discriminate | rewrite updn_other by auto; auto].
  - intros i H. destruct (Nat.eq_dec i c); [subst i; rewrite updn_same; simpl | rewrite updn_other by auto; auto].
    intros _. split; auto.
  - intros i H. destruct (Nat.eq_dec i c); [subst i; rewrite updn_same; simpl; discriminate | rewrite updn_other by auto; auto].
Qed.

Lemma sim_conn_close cf s r c :
  Inv s -> Sim s r -> c < nconns s -> rc_status (r_conns r c) = Live ->
  Sim (conn_close cf s c) (r_remove (r_kill r c Closed true) (rc_key (r_conns r c))).
Proof.
  intros Hi Sm Hc L. pose proof Hi as [I R].
  assert (Hreg : is_reg s c) by (apply (sim_live s r Sm c Hc); exact L).
  assert (O : c_closed (conns s c) = false) by (apply (R _ _ Hreg)).
  rewrite (sim_key s r Sm c Hc). set (u := c_key (conns s c)) in *.
  destruct (conn_close_exact cf s c I Hc O) as (Sh & _ & HA & HC). fold u in HA, HC.
  assert (Cin : inl c (removed_by s u) = true) by (apply inl_In, removed_by_In; exact Hreg).
  rewrite r_remove_eq. cbv zeta.
  assert (RG : opt_list (r_reg4 (r_kill r c Closed true) u) ++ opt_list (r_reg6 (r_kill r c Closed true) u) = removed_by s u).
  { simpl. apply (r_reg_removed s r u Sm). }
  rewrite RG.
  destruct (kill_fold isLive Removed false eq_refl (removed_by s u) (r_kill r c Closed true))
    as (K1 & K2 & K3 & K4 & K5 & K6 & K7 & K8 & K9).
  apply (sim_unregister s _ r _ u Hi Sm Sh); simpl; auto.
  - apply conn_close_maps; auto.
  - intros i Ei. rewrite HC, Ei, andb_false_r, orb_false_r.
    destruct (Nat.eqb_spec i c); [subst; congruence | reflexivity].
  - intros u'. rewrite K4, K5. simpl. unfold upds. split; reflexivity.
  - intros a. rewrite K9. simpl. unfold disown. destruct (r_owner r a) as [x|]; auto.
    destruct (Nat.eqb_spec x c).
    + subst x. rewrite Cin. reflexivity.
    + rewrite updn_other by auto. destruct (inl x (removed_by s u)) eqn:Ex; simpl; auto.
      rewrite (removed_live s r u x Hi Sm Ex). reflexivity.
  - intros i. rewrite K8. simpl.
    destruct (Nat.eq_dec i c).
    + subst i. rewrite updn_same. simpl. rewrite andb_false_r. simpl. auto.
    + rewrite updn_other by auto. destruct (inl i (removed_by s u) && isLive (rc_status (r_conns r i))); simpl; auto.
  - intros i Ei. rewrite K8, Ei. simpl. rewrite updn_other; auto. intros E. subst i. congruence.
  - intros i Ei. rewrite K8, Ei. simpl. destruct (Nat.eq_dec i c).
    + subst i. rewrite updn_same. simpl. right. split; auto. rewrite HC, Nat.eqb_refl. reflexivity.
    + rewrite updn_other by auto. rewrite (removed_live s r u i Hi Sm Ei). simpl. left. auto.
Qed.

Lemma r_closeh_eq r h :
  r_closeh r h =
  if Nat.ltb h (r_nh r) && negb (h_closed (r_handles r h)) then
    let c := h_conn (r_handles r h) in
    if (rc_refs (r_conns r c) - 1 <=? 0)%Z then
      match rc_status (r_conns r c) with
      | Live => (r_remove (r_kill (r_mid r h) c Closed true) (rc_key (r_conns r c)), [])
      | Removed => (r_kill (r_mid r h) c Closed true, [])
      | Closed => (r_mid r h, [])
      end
    else (r_mid r h, [])
  else (r, []).
Proof. reflexivity. Qed.

Lemma r_mid_conn r h :
  let c := h_conn (r_handles r h) in
  rc_status (r_conns (r_mid r h) c) = rc_status (r_conns r c) /\ rc_key (r_conns (r_mid r h) c) = rc_key (r_conns r c).
Proof. unfold r_mid. simpl. rewrite updn_same. simpl. auto. Qed.

Lemma sim_closeh cf s r h :
  Inv s -> Sim s r -> clean_op s (OCloseH h) ->
  Sim (fst (do_closeh cf s h)) (fst (r_closeh r h)) /\ snd (r_closeh r h) = [].
Proof.
  intros Hi Sm Cl. pose proof Hi as [I R]. rewrite do_closeh_eq, r_closeh_eq. rewrite (sim_nh s r Sm).
  destruct (Nat.ltb_spec h (nhandles s)); simpl; [|split; auto].
  pose proof (sim_mid s r h Hi Sm H) as Smid.
  destruct (r_mid_conn r h) as [St1 Ky1].
  rewrite (sim_h s r Sm h H) in *.
  destruct (h_closed (handles s h)) eqn:Eh; simpl; [split; auto|].
  set (c := h_conn (handles s h)) in *. assert (Hc : c < nconns s) by (apply (inv_hconn s I h H)).
  rewrite (sim_refs s r Sm c Hc).
  destruct ((c_refs (conns s c) - 1 <=? 0)%Z); [|split; auto].
  destruct (inv_closeh_mid s h Hi H) as [I1 R1].
  assert (Hcm : c < nconns (closeh_mid s h)) by (simpl; auto).
  destruct (closeh_mid_conn s h c) as (Km & _ & _ & Cm).
  destruct (rc_status (r_conns r c)) eqn:Es.
  - (* Live: the connection is closed and its ufrag leaves the mux *)
    split; auto. rewrite <- Ky1. apply sim_conn_close; auto. split; auto.
  - (* Removed: only a connection that the code has already closed can get here (clean) *)
    split; auto.
    assert (Cc : c_closed (conns s c) = true).
    { destruct (c_closed (conns s c)) eqn:E; auto. exfalso. simpl in Cl. specialize (Cl H Eh E). fold c in Cl.
      apply (sim_live s r Sm c Hc) in Cl. congruence. }
    unfold conn_close. rewrite Cm, Cc. apply sim_kill_removed; auto. rewrite Cm. exact Cc.
  - split; auto.
    destruct (sim_closed s r Sm c Hc Es) as [Cc _]. unfold conn_close. rewrite Cm, Cc. exact Smid.
Qed.

(* ---------- one step, any operation ---------- *)
Lemma sim_init : Sim init rinit /\ r_last rinit = qlens (snap_of init).
Proof.
  split; [|reflexivity]. constructor; simpl; intros; auto; try lia.
Qed.

Lemma sim_step cf s r o :
  Inv s -> Sim s r -> r_last r = qlens (snap_of s) -> clean_op s o ->
  let s' := fst (step cf s o) in
  let rr := r_step r (o, snd (step cf s o), snap_of s') in
  Sim s' (fst rr) /\ r_last (fst rr) = qlens (snap_of s') /\ all_ok (snd rr) = true.
Proof.
  intros Hi Sm Hl Cl. cbv zeta. pose proof (inv_step cf s o Hi) as Hi'.
  unfold r_step. rewrite Hl.
  set (s' := fst (step cf s o)) in *. set (x := snd (step cf s o)).
  assert (CORE : Sim s' (fst (r_op r o x (qlens (snap_of s)) (qlens (snap_of s')))) /\
                 all_ok (snd (r_op r o x (qlens (snap_of s)) (qlens (snap_of s')))) = true).
  { subst s' x. destruct o; simpl.
    - apply sim_getconn; auto.
    - split; [apply sim_write; auto | rewrite r_write_checks; reflexivity].
    - apply sim_inbound; auto.
    - split; [|reflexivity]. unfold do_inerr. destruct (mclosed s) eqn:M.
      + destruct fatal; auto. rewrite r_closemux_eq, (sim_mc s r Sm), M. exact Sm.
      + destruct fatal; auto. apply sim_closemux; auto.
    - split; [apply sim_remove; auto | reflexivity].
    - destruct (sim_closeh cf s r h Hi Sm Cl) as [A B]. rewrite B. split; auto.
    - split; [apply sim_closemux; auto | reflexivity].
    - apply sim_read; auto. }
  destruct (r_op r o x (qlens (snap_of s)) (qlens (snap_of s'))) as [r' cks] eqn:E. simpl in CORE.
  destruct CORE as [S' C']. simpl. split; [apply set_last_sim; exact S'|]. split; [reflexivity|].
  rewrite !all_ok_app, C', (bind_checks_ok s' r' Hi' S'). simpl.
  destruct o; simpl; auto; subst s'; rewrite grow_checks_ok; auto; intros; discriminate.
Qed.

Lemma monitor_run cf ops : forall s r,
  Inv s -> Sim s r -> r_last r = qlens (snap_of s) -> clean cf s ops ->
  all_ok (r_run r (observe cf s ops)) = true.
Proof.
  induction ops as [|o ops IH]; simpl; intros s r Hi Sm Hl C; auto. destruct C as [C1 C2].
  pose proof (sim_step cf s r o Hi Sm Hl C1) as X. cbv zeta in X.
  destruct (step cf s o) as [s' x] eqn:Es. cbn [fst snd] in X. cbn [r_run].
  destruct (r_step r (o, x, snap_of s')) as [r' cks] eqn:Er. cbn [fst snd] in X. destruct X as (S' & L' & A').
  rewrite A', all_ok_app, A'. simpl.
  assert (Hi' : Inv s') by (replace s' with (fst (step cf s o)) by (rewrite Es; reflexivity); apply inv_step; exact Hi).
  apply IH; auto.
Qed.

(* the monitor accepts every clean run of the model, whatever the semantics of RemoveConnByUfrag *)
Theorem monitor_sound_clean_thm cf ops : clean cf init ops -> C12_monitor (observe cf init ops) = true.
Proof.
  intros C. unfold C12_monitor, C12_checks. destruct sim_init as [A B]. apply (monitor_run cf ops init rinit inv_init A B C).
Qed.

(* ... and with the repaired RemoveConnByUfrag every run is clean *)
Theorem monitor_sound_fixed_thm cf ops : remove_closes cf = true -> C12_monitor (observe cf init ops) = true.
Proof. intros H. apply monitor_sound_clean_thm. apply clean_fixed; auto. constructor. Qed.
