(* C16: Model/Crc32.v stays below 2^32, so the computed foundation is at most 10 digits *)
From Coq Require Import NArith String Ascii Lia.
From Ice Require Import Model.Crc32.
Local Open Scope N_scope.

Lemma lt_pow2_log2 a n : a < 2 ^ n <-> a = 0 \/ N.log2 a < n.
Proof.
  destruct (N.eq_dec a 0) as [->|Ha].
  - split; [auto|]. intros _. apply N.neq_0_lt_0. apply N.pow_nonzero. discriminate.
  - rewrite (N.log2_lt_pow2 a n) by lia. split; [auto|]. intros [H|H]; [contradiction|exact H].
Qed.

Lemma lxor_lt_pow2 a b n : a < 2 ^ n -> b < 2 ^ n -> N.lxor a b < 2 ^ n.
Proof.
  intros Ha Hb. apply lt_pow2_log2.
  destruct (N.eq_dec (N.lxor a b) 0) as [E|E]; [left; exact E|right].
  apply lt_pow2_log2 in Ha, Hb.
  pose proof (N.log2_lxor a b) as Hl.
  destruct Ha as [->|Ha]; [rewrite N.lxor_0_l in *; destruct Hb as [->|Hb]; [contradiction|exact Hb]|].
  destruct Hb as [->|Hb]; [rewrite N.lxor_0_r in *; exact Ha|].
  lia.
Qed.

Lemma shiftr1_le c : N.shiftr c 1 <= c.
Proof. rewrite N.shiftr_div_pow2. change (2 ^ 1) with 2. apply N.div_le_upper_bound; lia. Qed.

Lemma crc_bits_bound n c : c < 2 ^ 32 -> crc_bits n c < 2 ^ 32.
Proof.
  revert c. induction n as [|n IH]; intros c Hc; [exact Hc|].
  cbn [crc_bits]. apply IH. pose proof (shiftr1_le c).
  destruct (N.testbit c 0).
  - apply lxor_lt_pow2; [lia|]. unfold crc_poly. vm_compute. reflexivity.
  - lia.
Qed.

Lemma crc_str_bound s : forall c, c < 2 ^ 32 -> crc_str c s < 2 ^ 32.
Proof.
  induction s as [|a s IH]; intros c Hc; [exact Hc|].
  cbn [crc_str]. apply IH. unfold crc_byte. apply crc_bits_bound.
  apply lxor_lt_pow2; [exact Hc|].
  pose proof (N_ascii_bounded a). change (2 ^ 32) with 4294967296. lia.
Qed.

Lemma crc32_bound s : crc32 s < 2 ^ 32.
Proof.
  unfold crc32. apply lxor_lt_pow2; [apply crc_str_bound|]; vm_compute; reflexivity.
Qed.
