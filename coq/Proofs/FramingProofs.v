(* C14: lemmas about the framing model (Model/Framing.v). *)
From Coq Require Import ZArith NArith Bool String Ascii List Arith Lia.
From Ice Require Import Model.PrioSpec Model.Framing Gen.Consts.
Import ListNotations.
Local Open Scope nat_scope.

(* ---------- lists ----------------------------------------------------------------------- *)

Lemma skipn_skipn' {A} (a b : nat) (l : list A) : skipn b (skipn a l) = skipn (a + b) l.
Proof.
  revert l. induction a as [|a IH]; intros l; simpl.
  - reflexivity.
  - destruct l as [|x l]; simpl.
    + now rewrite skipn_nil.
    + apply IH.
Qed.

Lemma firstn_add {A} (a b : nat) (l : list A) : firstn (a + b) l = firstn a l ++ firstn b (skipn a l).
Proof.
  revert l. induction a as [|a IH]; intros l; simpl.
  - reflexivity.
  - destruct l as [|x l]; simpl.
    + now rewrite firstn_nil.
    + now rewrite IH.
Qed.

Lemma skipn_nil_iff {A} (k : nat) (l : list A) : skipn k l = [] <-> length l <= k.
Proof.
  split; intro H.
  - assert (L := skipn_length k l). rewrite H in L. simpl in L. lia.
  - now apply skipn_all2.
Qed.

Lemma firstn_app_le {A} (k : nat) (l1 l2 : list A) : k <= length l1 -> firstn k (l1 ++ l2) = firstn k l1.
Proof.
  intro H. rewrite firstn_app. replace (k - length l1) with 0 by lia. simpl. apply app_nil_r.
Qed.

Lemma skipn_app_le {A} (k : nat) (l1 l2 : list A) : k <= length l1 -> skipn k (l1 ++ l2) = skipn k l1 ++ l2.
Proof.
  intro H. rewrite skipn_app. replace (k - length l1) with 0 by lia. reflexivity.
Qed.

Lemma removelast_length {A} (l : list A) : length (removelast l) = length l - 1.
Proof. rewrite removelast_firstn_len, firstn_length. lia. Qed.

Lemma firstn_removelast_lt {A} (k : nat) (l : list A) : k < length l -> firstn k (removelast l) = firstn k l.
Proof.
  intro H. rewrite removelast_firstn_len, firstn_firstn. f_equal. lia.
Qed.

Lemma removelast_skipn_lt {A} (k : nat) (l : list A) : k < length l -> removelast (skipn k l) = skipn k (removelast l).
Proof.
  intro H. rewrite !removelast_firstn_len, skipn_length.
  rewrite firstn_skipn_comm. f_equal. f_equal. lia.
Qed.

Lemma concat_rev_cons {A} (d : list A) (acc : list (list A)) : concat (rev (d :: acc)) = concat (rev acc) ++ d.
Proof. simpl. rewrite concat_app. simpl. now rewrite app_nil_r. Qed.

(* ---------- 16-bit big endian ------------------------------------------------------------ *)

Lemma put_uint16_length v : length (put_uint16 v) = 2.
Proof. reflexivity. Qed.

Lemma get_put_uint16 v rest : (v < 65536)%N -> get_uint16 (put_uint16 v ++ rest) = v.
Proof.
  intro H. unfold put_uint16, get_uint16. simpl.
  rewrite !N_ascii_embedding.
  - rewrite (N.mod_small (v / 256) 256).
    + rewrite N.mul_comm. symmetry. apply N.div_mod. discriminate.
    + apply N.div_lt_upper_bound; [discriminate | exact H].
  - apply N.mod_lt. discriminate.
  - apply N.mod_lt. discriminate.
Qed.

Lemma put_get_uint16 a b : put_uint16 (get_uint16 [a; b]) = [a; b].
Proof.
  unfold put_uint16, get_uint16.
  assert (Ha := N_ascii_bounded a). assert (Hb := N_ascii_bounded b).
  set (x := N_of_ascii a) in *. set (y := N_of_ascii b) in *.
  assert (E1 : ((x * 256 + y) / 256 = x)%N).
  { rewrite N.div_add_l by discriminate. rewrite (N.div_small y 256) by exact Hb. apply N.add_0_r. }
  assert (E2 : ((x * 256 + y) mod 256 = y)%N).
  { rewrite N.add_comm, N.mod_add by discriminate. now apply N.mod_small. }
  rewrite E1, E2. rewrite (N.mod_small x 256) by exact Ha.
  subst x y. now rewrite !ascii_N_embedding.
Qed.

Lemma get_uint16_bound h : (get_uint16 h < 65536)%N.
Proof.
  unfold get_uint16. destruct h as [|a [|b t]]; try reflexivity.
  assert (Ha := N_ascii_bounded a). assert (Hb := N_ascii_bounded b). lia.
Qed.

Lemma hdr_len_val : hdr_len = 2.
Proof. reflexivity. Qed.

Lemma mtu_val : Z.of_nat mtu = 8192%Z.
Proof. reflexivity. Qed.

(* ---------- conn_read --------------------------------------------------------------------- *)

Definition wf (s : stream) : Prop := Forall (fun c => c <> []) (chunks s).

Definition dead (s : stream) : Prop := chunks s = [] /\ tail s = [].

Lemma dead_content s : dead s -> content s = [].
Proof. intros [H1 H2]. unfold content. now rewrite H1, H2. Qed.

Lemma content_length s : length (content s) = stream_len s - (if is_nil (tail s) then 0 else 1).
Proof.
  unfold content, stream_len. rewrite app_length, removelast_length.
  destruct (tail s); simpl; lia.
Qed.

(* what one Read does, in terms of the deliverable bytes of the stream *)
Lemma conn_read_data k s d s1 :
  wf s -> 1 <= k -> conn_read k s = (RData d, s1) ->
  d <> [] /\ length d <= k /\ firstn (length d) (content s) = d /\
  content s1 = skipn (length d) (content s) /\ wf s1 /\ ferr s1 = ferr s /\
  reqs s1 = k :: reqs s /\ stream_len s1 + length d = stream_len s /\
  is_nil (tail s1) = is_nil (tail s).
Proof.
  intros Hwf Hk. unfold conn_read, wf, content, stream_len in *.
  destruct (chunks s) as [|c cs] eqn:Ec.
  - (* the tail *)
    destruct (skipn k (tail s)) as [|x r] eqn:Es; [discriminate|].
    assert (Hlt : k < length (tail s)).
    { destruct (le_lt_dec (length (tail s)) k) as [Hle|]; [|assumption].
      apply skipn_nil_iff in Hle. congruence. }
    assert (Hnn : is_nil (x :: r) = is_nil (tail s)).
    { destruct (tail s); [simpl in Hlt; lia | reflexivity]. }
    assert (Hsl : length (x :: r) + k = length (tail s)).
    { rewrite <- Es, skipn_length. lia. }
    rewrite <- Es in *.
    intro H. inversion H; subst d s1; clear H. cbn [chunks tail ferr reqs concat app length].
    assert (Hl : length (firstn k (tail s)) = k) by (rewrite firstn_length; lia).
    rewrite Hl. repeat split.
    + intro E. rewrite E in Hl. simpl in Hl. lia.
    + lia.
    + now apply firstn_removelast_lt.
    + now apply removelast_skipn_lt.
    + constructor.
    + lia.
    + exact Hnn.
  - inversion Hwf as [|c' cs' Hc Hcs]; subst.
    assert (Hne : firstn k c <> []).
    { destruct c; [congruence|]. destruct k; [lia|]. discriminate. }
    destruct (skipn k c) as [|x r] eqn:Es.
    + (* the whole chunk *)
      assert (Hle : length c <= k) by (now apply skipn_nil_iff).
      rewrite firstn_all2 in * by exact Hle.
      intro H. inversion H; subst d s1; clear H. cbn [chunks tail ferr reqs concat].
      assert (G1 : firstn (length c) ((c ++ concat cs) ++ removelast (tail s)) = c).
      { rewrite <- app_assoc. rewrite firstn_app_le by lia. apply firstn_all. }
      assert (G2 : concat cs ++ removelast (tail s) = skipn (length c) ((c ++ concat cs) ++ removelast (tail s))).
      { rewrite <- app_assoc. rewrite skipn_app_le by lia. now rewrite skipn_all. }
      assert (G3 : length (concat cs) + length (tail s) + length c = length (c ++ concat cs) + length (tail s)).
      { rewrite app_length. lia. }
      repeat split; assumption.
    + assert (Hlt : k < length c).
      { destruct (le_lt_dec (length c) k) as [Hle|]; [|assumption].
        apply skipn_nil_iff in Hle. congruence. }
      assert (Hl : length (firstn k c) = k) by (rewrite firstn_length; lia).
      assert (Hsl : length (x :: r) + k = length c).
      { rewrite <- Es, skipn_length. lia. }
      rewrite <- Es in *.
      intro H. inversion H; subst d s1; clear H. cbn [chunks tail ferr reqs concat].
      rewrite Hl.
      assert (G1 : firstn k ((c ++ concat cs) ++ removelast (tail s)) = firstn k c).
      { rewrite <- app_assoc. now rewrite firstn_app_le by lia. }
      assert (G2 : (skipn k c ++ concat cs) ++ removelast (tail s) = skipn k ((c ++ concat cs) ++ removelast (tail s))).
      { rewrite <- !app_assoc. now rewrite skipn_app_le by lia. }
      assert (G3 : length (skipn k c ++ concat cs) + length (tail s) + k = length (c ++ concat cs) + length (tail s)).
      { rewrite !app_length. lia. }
      assert (G4 : Forall (fun c0 : list ascii => c0 <> []) (skipn k c :: cs)).
      { constructor; [rewrite Es; discriminate | assumption]. }
      assert (G5 : k <= k) by lia.
      repeat split; assumption.
Qed.

Lemma conn_read_err k s e s1 :
  wf s -> 1 <= k -> conn_read k s = (RErr e, s1) ->
  e = ferr s /\ length (content s) < k /\ dead s1 /\ ferr s1 = ferr s /\ reqs s1 = k :: reqs s.
Proof.
  intros Hwf Hk. unfold conn_read, content, dead.
  destruct (chunks s) as [|c cs] eqn:Ec; [|discriminate].
  destruct (skipn k (tail s)) as [|x r] eqn:Es; [|discriminate].
  intro H. inversion H; subst e s1; clear H. simpl.
  apply skipn_nil_iff in Es. rewrite removelast_length. repeat split; lia.
Qed.

(* ---------- the read loops ------------------------------------------------------------------ *)

(* the Read calls made between s and s': all satisfy P, at most n of them *)
Definition reqs_ext (s s' : stream) (P : nat -> Prop) (n : nat) : Prop :=
  exists new, reqs s' = new ++ reqs s /\ Forall P new /\ length new <= n.

Lemma reqs_ext_weaken s s' (P Q : nat -> Prop) n m :
  reqs_ext s s' P n -> (forall k, P k -> Q k) -> n <= m -> reqs_ext s s' Q m.
Proof.
  intros (new & E & F & L) HPQ Hnm. exists new. repeat split; [assumption | | lia].
  eapply Forall_impl; eauto.
Qed.

Lemma reqs_ext_trans s s1 s2 (P : nat -> Prop) n m :
  reqs_ext s s1 P n -> reqs_ext s1 s2 P m -> reqs_ext s s2 P (n + m).
Proof.
  intros (a & Ea & Fa & La) (b & Eb & Fb & Lb). exists (b ++ a). repeat split.
  - now rewrite Eb, Ea, app_assoc.
  - apply Forall_app. now split.
  - rewrite app_length. lia.
Qed.

Lemma reqs_ext_trans' s s1 s2 (P1 P2 Q : nat -> Prop) n m k :
  reqs_ext s s1 P1 n -> reqs_ext s1 s2 P2 m ->
  (forall x, P1 x -> Q x) -> (forall x, P2 x -> Q x) -> n + m <= k -> reqs_ext s s2 Q k.
Proof.
  intros H1 H2 I1 I2 L.
  eapply reqs_ext_weaken; [eapply reqs_ext_trans | intros x Hx; exact Hx | exact L].
  - eapply reqs_ext_weaken; [exact H1 | exact I1 | apply le_n].
  - eapply reqs_ext_weaken; [exact H2 | exact I2 | apply le_n].
Qed.

Lemma reqs_ext_refl s (P : nat -> Prop) : reqs_ext s s P 0.
Proof. exists []. repeat split; [constructor | simpl; lia]. Qed.

Lemma read_loop_ok fuel : forall need acc s,
  wf s -> need <= fuel -> need <= length (content s) ->
  exists s', read_loop fuel need acc s = (LDone (concat (rev acc) ++ firstn need (content s)), s')
    /\ content s' = skipn need (content s) /\ wf s' /\ ferr s' = ferr s
    /\ stream_len s' + need = stream_len s /\ is_nil (tail s') = is_nil (tail s)
    /\ reqs_ext s s' (fun k => 1 <= k <= need) need.
Proof.
  induction fuel as [|f IH]; intros need acc s Hwf Hfuel Hlen.
  - assert (need = 0) by lia. subst need. exists s. simpl.
    rewrite rev_append_rev, !app_nil_r. repeat split; try assumption; try lia. apply reqs_ext_refl.
  - destruct need as [|n].
    + exists s. simpl. rewrite rev_append_rev, !app_nil_r.
      repeat split; try assumption; try lia. apply reqs_ext_refl.
    + cbn [read_loop]. destruct (conn_read (S n) s) as [[d|e] s1] eqn:Ec.
      * destruct (conn_read_data (S n) s d s1 Hwf ltac:(lia) Ec)
          as (Hne & Hdk & Hd & Hc1 & Hwf1 & He1 & Hr1 & Hl1 & Ht1).
        assert (Hdpos : 1 <= length d) by (destruct d; [congruence | simpl; lia]).
        destruct (IH (S n - length d) (d :: acc) s1 Hwf1) as (s' & Hrun & Hc' & Hwf' & He' & Hl' & Ht' & Hq').
        { lia. }
        { rewrite Hc1, skipn_length. lia. }
        exists s'. rewrite Hrun. repeat split; try congruence; try lia.
        -- f_equal. f_equal. unfold bytes in *. rewrite (concat_rev_cons d acc), <- app_assoc. f_equal.
           rewrite Hc1. rewrite <- Hd at 1.
           replace (S n) with (length d + (S n - length d)) at 2 by lia.
           now rewrite firstn_add.
        -- rewrite Hc', Hc1, skipn_skipn'. f_equal. lia.
        -- destruct Hq' as (new & En & Fn & Ln). exists (new ++ [S n]). repeat split.
           ++ rewrite En, Hr1, <- app_assoc. reflexivity.
           ++ apply Forall_app. split.
              ** eapply Forall_impl; [|exact Fn]. intros a Ha. cbv beta in *. lia.
              ** constructor; [lia | constructor].
           ++ rewrite app_length. simpl. lia.
      * destruct (conn_read_err (S n) s e s1 Hwf ltac:(lia) Ec) as (_ & Hlt & _). lia.
Qed.

Lemma read_loop_err fuel : forall need acc s,
  wf s -> need <= fuel -> length (content s) < need ->
  exists s', read_loop fuel need acc s = (LErr (ferr s), s') /\ dead s' /\ ferr s' = ferr s
    /\ reqs_ext s s' (fun k => 1 <= k <= need) (length (content s) + 1).
Proof.
  induction fuel as [|f IH]; intros need acc s Hwf Hfuel Hlen.
  - lia.
  - destruct need as [|n]; [lia|].
    cbn [read_loop]. destruct (conn_read (S n) s) as [[d|e] s1] eqn:Ec.
    + destruct (conn_read_data (S n) s d s1 Hwf ltac:(lia) Ec)
        as (Hne & Hdk & Hd & Hc1 & Hwf1 & He1 & Hr1 & Hl1 & Ht1).
      assert (Hdpos : 1 <= length d) by (destruct d; [congruence | simpl; lia]).
      assert (Hdc : length d <= length (content s)).
      { rewrite <- Hd at 1. rewrite firstn_length. lia. }
      destruct (IH (S n - length d) (d :: acc) s1 Hwf1) as (s' & Hrun & Hdead & He' & Hq').
      { lia. }
      { rewrite Hc1, skipn_length. lia. }
      exists s'. rewrite Hrun. repeat split; try congruence; try apply Hdead.
      destruct Hq' as (new & En & Fn & Ln). exists (new ++ [S n]). repeat split.
      * rewrite En, Hr1, <- app_assoc. reflexivity.
      * apply Forall_app. split.
        -- eapply Forall_impl; [|exact Fn]. intros a Ha. cbv beta in *. lia.
        -- constructor; [lia | constructor].
      * rewrite app_length. simpl. rewrite Hc1, skipn_length in Ln. lia.
    + destruct (conn_read_err (S n) s e s1 Hwf ltac:(lia) Ec) as (He & Hlt & Hdead & He1 & Hr1).
      exists s1. subst e. repeat split; try assumption; try apply Hdead.
      exists [S n]. repeat split.
      * now rewrite Hr1.
      * constructor; [lia | constructor].
      * simpl. lia.
Qed.

Ltac splits := repeat match goal with |- _ /\ _ => split end.

(* ---------- readStreamingPacket refines the chunk-free parser -------------------------------- *)

Lemma dead_wf s : dead s -> wf s.
Proof. intros [H _]. unfold wf. rewrite H. constructor. Qed.

Lemma dead_len s : dead s -> stream_len s = 0.
Proof. intros [H1 H2]. unfold stream_len. now rewrite H1, H2. Qed.

Lemma content_le_len s : length (content s) <= stream_len s.
Proof. rewrite content_length. lia. Qed.

Definition is_ok (r : pres) : bool := match r with POk _ => true | _ => false end.

Lemma read_packet_refines cap s :
  wf s ->
  exists s',
    read_packet cap s = (fst (parse_one cap (content s) (ferr s)), s')
    /\ content s' = snd (parse_one cap (content s) (ferr s))
    /\ wf s' /\ ferr s' = ferr s
    /\ stream_len s' <= stream_len s
    /\ (match fst (parse_one cap (content s) (ferr s)) with
        | PErr _ => dead s'
        | _ => is_nil (tail s') = is_nil (tail s)
               /\ stream_len s - stream_len s' = length (content s) - length (content s')
        end)
    /\ reqs_ext s s' (fun k => 1 <= k <= Nat.max 2 cap)
         (stream_len s - stream_len s' + (if is_ok (fst (parse_one cap (content s) (ferr s))) then 0 else 1)).
Proof.
  intro Hwf. unfold read_packet, parse_one. rewrite hdr_len_val.
  destruct (Nat.ltb_spec (length (content s)) 2) as [Hshort|Hlong].
  - destruct (read_loop_err 2 2 [] s Hwf ltac:(lia) Hshort) as (s' & Hrun & Hdead & He & Hq).
    exists s'. rewrite Hrun. cbn [fst snd is_ok].
    splits; try assumption; try reflexivity.
    + now apply dead_content.
    + now apply dead_wf.
    + rewrite (dead_len _ Hdead). lia.
    + eapply reqs_ext_weaken; [exact Hq | intros; cbv beta in *; lia |].
      rewrite (dead_len _ Hdead). assert (L := content_le_len s). lia.
  - destruct (read_loop_ok 2 2 [] s Hwf ltac:(lia) Hlong) as (s1 & Hrun & Hc1 & Hwf1 & He1 & Hl1 & Ht1 & Hq1).
    rewrite Hrun. cbn [rev concat app].
    set (len := N.to_nat (get_uint16 (firstn 2 (content s)))).
    assert (Hcl1 : length (content s1) = length (content s) - 2) by (rewrite Hc1, skipn_length; lia).
    destruct (Nat.ltb_spec cap len) as [Hcap|Hcap].
    + exists s1. cbn [fst snd is_ok]. splits; try assumption; try reflexivity; try lia.
      eapply reqs_ext_weaken; [exact Hq1 | intros; cbv beta in *; lia | lia].
    + destruct (Nat.ltb_spec (length (content s) - 2) len) as [Htr|Hfull].
      * destruct (read_loop_err len len [] s1 Hwf1 ltac:(lia) ltac:(lia)) as (s2 & Hrun2 & Hdead & He2 & Hq2).
        exists s2. rewrite Hrun2. cbn [fst snd is_ok].
        splits; try assumption; try reflexivity; try congruence.
        -- now apply dead_content.
        -- now apply dead_wf.
        -- rewrite (dead_len _ Hdead). lia.
        -- rewrite (dead_len _ Hdead).
           eapply reqs_ext_trans'; [exact Hq1 | exact Hq2 | | | ].
           ++ intros; cbv beta in *; lia.
           ++ intros; cbv beta in *; lia.
           ++ assert (L := content_le_len s1). lia.
      * destruct (read_loop_ok len len [] s1 Hwf1 ltac:(lia) ltac:(lia)) as (s2 & Hrun2 & Hc2 & Hwf2 & He2 & Hl2 & Ht2 & Hq2).
        exists s2. rewrite Hrun2. cbn [fst snd is_ok rev concat app].
        assert (Hcl2 : length (content s2) = length (content s1) - len) by (rewrite Hc2, skipn_length; lia).
        splits; try assumption; try reflexivity; try congruence; try lia.
        -- rewrite Hc2, Hc1, skipn_skipn'. reflexivity.
        -- eapply reqs_ext_trans'; [exact Hq1 | exact Hq2 | | | ].
           ++ intros; cbv beta in *; lia.
           ++ intros; cbv beta in *; lia.
           ++ lia.
Qed.

(* ---------- the reader loop refines parse_all ------------------------------------------------- *)

Lemma parse_one_ok_inv cap bs e b rest :
  parse_one cap bs e = (POk b, rest) ->
  2 <= length bs /\ length b = N.to_nat (get_uint16 (firstn 2 bs)) /\ length b <= cap /\
  b = firstn (length b) (skipn 2 bs) /\ rest = skipn (2 + length b) bs /\ length rest + 2 + length b = length bs.
Proof.
  unfold parse_one.
  destruct (Nat.ltb_spec (length bs) 2); [discriminate|].
  remember (N.to_nat (get_uint16 (firstn 2 bs))) as len eqn:Hlen.
  destruct (Nat.ltb_spec cap len); [discriminate|].
  destruct (Nat.ltb_spec (length bs - 2) len); [discriminate|].
  intro E. apply pair_equal_spec in E. destruct E as [E1 E2].
  assert (Eb : b = firstn len (skipn 2 bs)) by congruence. clear E1.
  subst b. subst rest.
  assert (L : length (firstn len (skipn 2 bs)) = len).
  { rewrite firstn_length, skipn_length. lia. }
  rewrite L. splits; try reflexivity; try lia.
  rewrite skipn_length. lia.
Qed.

Lemma parse_one_not_stuck cap bs e rest : parse_one cap bs e <> (PStuck, rest).
Proof.
  unfold parse_one.
  destruct (length bs <? 2); [discriminate|].
  destruct (cap <? _); [discriminate|].
  destruct (_ <? _); discriminate.
Qed.

Lemma read_all_refines fuel : forall cap s,
  wf s -> length (content s) < fuel ->
  exists s',
    read_all fuel cap s = (fst (parse_all fuel cap (content s) (ferr s)), s')
    /\ content s' = snd (parse_all fuel cap (content s) (ferr s))
    /\ wf s' /\ ferr s' = ferr s
    /\ stream_len s' <= stream_len s /\ length (content s') <= length (content s)
    /\ (match snd (fst (parse_all fuel cap (content s) (ferr s))) with
        | PErr _ => dead s'
        | _ => is_nil (tail s') = is_nil (tail s)
               /\ stream_len s - stream_len s' = length (content s) - length (content s')
        end)
    /\ reqs_ext s s' (fun k => 1 <= k <= Nat.max 2 cap) (stream_len s - stream_len s' + 1).
Proof.
  induction fuel as [|f IH]; intros cap s Hwf Hfuel; [lia|].
  cbn [read_all parse_all].
  destruct (read_packet_refines cap s Hwf) as (s1 & Hrun & Hc1 & Hwf1 & He1 & Hl1 & Hfin1 & Hq1).
  rewrite Hrun.
  destruct (parse_one cap (content s) (ferr s)) as [r rest] eqn:Ep. cbn [fst snd] in *.
  destruct r as [b|len|e|].
  - (* a packet: continue *)
    destruct (parse_one_ok_inv _ _ _ _ _ Ep) as (H2 & Hlb & Hbc & Hb & Hrest & Hlen).
    destruct Hfin1 as [Ht1 Hcons1].
    destruct (IH cap s1 Hwf1 ltac:(rewrite Hc1; lia)) as (s2 & Hrun2 & Hc2 & Hwf2 & He2 & Hl2 & Hcl2 & Hfin2 & Hq2).
    rewrite Hrun2. rewrite Hc1, He1 in *.
    destruct (parse_all f cap rest (ferr s)) as [[ps fin] r'] eqn:Ea. cbn [fst snd] in *.
    exists s2. splits; try assumption; try reflexivity; try congruence; try lia.
    + destruct fin; try assumption; destruct Hfin2 as [Ht2 Hcons2]; (split; [congruence | lia]).
    + eapply reqs_ext_trans'; [exact Hq1 | exact Hq2 | | | ]; try (intros x Hx; exact Hx).
      cbn [is_ok]. lia.
  - exists s1. splits; try assumption; try reflexivity; try lia.
    all: try (eapply reqs_ext_weaken; [exact Hq1 | intros x Hx; exact Hx | cbn [is_ok]; lia]).
    all: destruct Hfin1 as [Ht Hcons];
      assert (La := content_length s); assert (Lb := content_length s1);
      rewrite Ht in Lb; destruct (is_nil (tail s)); lia.
  - exists s1. splits; try assumption; try reflexivity; try lia.
    all: try (eapply reqs_ext_weaken; [exact Hq1 | intros x Hx; exact Hx | cbn [is_ok]; lia]).
    all: rewrite (dead_content _ Hfin1); simpl; lia.
  - exfalso. eapply parse_one_not_stuck; eauto.
Qed.

(* ---------- the chunk-free parser ---------------------------------------------------------------- *)

Lemma parse_all_fuel f1 : forall f2 cap bs e,
  length bs < f1 -> length bs < f2 -> parse_all f1 cap bs e = parse_all f2 cap bs e.
Proof.
  induction f1 as [|f1 IH]; intros f2 cap bs e H1 H2; [lia|].
  destruct f2 as [|f2]; [lia|]. cbn [parse_all].
  destruct (parse_one cap bs e) as [r rest] eqn:Ep.
  destruct r; try reflexivity.
  destruct (parse_one_ok_inv _ _ _ _ _ Ep) as (_ & _ & _ & _ & _ & Hlen).
  rewrite (IH f2 cap rest e) by lia. reflexivity.
Qed.

Lemma parse_all_not_stuck fuel : forall cap bs e,
  length bs < fuel -> snd (fst (parse_all fuel cap bs e)) <> PStuck.
Proof.
  induction fuel as [|f IH]; intros cap bs e H; [lia|]. cbn [parse_all].
  destruct (parse_one cap bs e) as [r rest] eqn:Ep.
  destruct r; cbn [fst snd]; try discriminate.
  - destruct (parse_one_ok_inv _ _ _ _ _ Ep) as (_ & _ & _ & _ & _ & Hlen).
    specialize (IH cap rest e ltac:(lia)).
    destruct (parse_all f cap rest e) as [[ps fin] r']. exact IH.
  - exfalso. eapply parse_one_not_stuck; eauto.
Qed.

Lemma frame_raw_length p : length (frame_raw p) = 2 + length p.
Proof. unfold frame_raw. now rewrite app_length, put_uint16_length. Qed.

Lemma frame_some p : (N.of_nat (length p) <= max_uint16)%N -> frame p = Some (frame_raw p).
Proof. intro H. unfold frame. apply N.leb_le in H. now rewrite H. Qed.

Lemma frame_none p : (max_uint16 < N.of_nat (length p))%N -> frame p = None.
Proof. intro H. unfold frame. apply N.leb_gt in H. now rewrite H. Qed.

Lemma parse_one_frame cap p rest e :
  (N.of_nat (length p) <= 65535)%N -> length p <= cap ->
  parse_one cap (frame_raw p ++ rest) e = (POk p, rest).
Proof.
  intros H16 Hcap. unfold parse_one.
  assert (Hl : length (frame_raw p ++ rest) = 2 + length p + length rest).
  { rewrite app_length, frame_raw_length. lia. }
  destruct (Nat.ltb_spec (length (frame_raw p ++ rest)) 2); [lia|].
  assert (Hh : firstn 2 (frame_raw p ++ rest) = put_uint16 (N.of_nat (length p))).
  { unfold frame_raw. rewrite <- app_assoc. rewrite firstn_app_le by (rewrite put_uint16_length; lia).
    now rewrite firstn_all2 by (rewrite put_uint16_length; lia). }
  rewrite Hh.
  replace (put_uint16 (N.of_nat (length p))) with (put_uint16 (N.of_nat (length p)) ++ []) by apply app_nil_r.
  rewrite get_put_uint16 by lia. rewrite Nat2N.id.
  destruct (Nat.ltb_spec cap (length p)); [lia|].
  destruct (Nat.ltb_spec (length (frame_raw p ++ rest) - 2) (length p)); [lia|].
  assert (Hs2 : skipn 2 (frame_raw p ++ rest) = p ++ rest).
  { unfold frame_raw. rewrite <- app_assoc.
    rewrite skipn_app_le by (rewrite put_uint16_length; lia).
    now rewrite skipn_all2 by (rewrite put_uint16_length; lia). }
  f_equal.
  - f_equal. rewrite Hs2. rewrite firstn_app_le by lia. apply firstn_all.
  - rewrite <- skipn_skipn'. rewrite Hs2. rewrite skipn_app_le by lia. now rewrite skipn_all.
Qed.

Definition fits_in (cap : nat) (p : bytes) : Prop := (N.of_nat (length p) <= 65535)%N /\ length p <= cap.

Lemma parse_all_frames ps : forall fuel cap e,
  Forall (fits_in cap) ps ->
  length (concat (map frame_raw ps)) < fuel ->
  parse_all fuel cap (concat (map frame_raw ps)) e = (ps, PErr e, []).
Proof.
  induction ps as [|p ps IH]; intros fuel cap e Hfit Hfuel.
  - destruct fuel; [simpl in Hfuel; lia|]. reflexivity.
  - inversion Hfit as [|p' ps' [H16 Hcap] Hfit']; subst.
    destruct fuel; [lia|]. cbn [map concat parse_all].
    rewrite parse_one_frame by assumption.
    cbn [map concat] in Hfuel. rewrite app_length, frame_raw_length in Hfuel.
    rewrite IH by (assumption || lia). reflexivity.
Qed.

(* what remains of a stream after its last packet, by final result *)
Definition bad_rest (cap : nat) (fin : pres) (e : Z) (rest : bytes) : Prop :=
  match fin with
  | PErr e' => e' = e /\
      (length rest < 2 \/
       (length rest - 2 < N.to_nat (get_uint16 (firstn 2 rest)) /\ N.to_nat (get_uint16 (firstn 2 rest)) <= cap))
  | PShort len => 2 <= length rest /\ len = N.to_nat (get_uint16 (firstn 2 rest)) /\ cap < len
  | _ => False
  end.

Lemma parse_one_final cap bs e r rest :
  parse_one cap bs e = (r, rest) -> is_ok r = false ->
  bad_rest cap r e bs /\ (match r with PShort _ => rest = skipn 2 bs | _ => rest = [] end).
Proof.
  unfold parse_one.
  destruct (Nat.ltb_spec (length bs) 2) as [H2|H2].
  - intro E. apply pair_equal_spec in E. destruct E as [E1 E2]. subst r rest. intros _.
    split; [|reflexivity]. unfold bad_rest. split; [reflexivity | now left].
  - remember (N.to_nat (get_uint16 (firstn 2 bs))) as len eqn:Hlen.
    destruct (Nat.ltb_spec cap len) as [Hc|Hc].
    + intro E. apply pair_equal_spec in E. destruct E as [E1 E2]. subst r rest. intros _.
      split; [|reflexivity]. unfold bad_rest. rewrite <- Hlen. repeat split; assumption.
    + destruct (Nat.ltb_spec (length bs - 2) len) as [Ht|Ht].
      * intro E. apply pair_equal_spec in E. destruct E as [E1 E2]. subst r rest. intros _.
        split; [|reflexivity]. unfold bad_rest. rewrite <- Hlen. split; [reflexivity | right; split; assumption].
      * intro E. apply pair_equal_spec in E. destruct E as [E1 E2]. subst r. discriminate.
Qed.

Lemma frame_raw_of_parse bs b :
  2 <= length bs -> length b = N.to_nat (get_uint16 (firstn 2 bs)) ->
  frame_raw b = firstn 2 bs ++ b.
Proof.
  intros H2 Hl. unfold frame_raw. f_equal.
  destruct bs as [|x [|y t]]; simpl in H2; try lia.
  cbn [firstn] in *. rewrite Hl, N2Nat.id. apply put_get_uint16.
Qed.

(* the byte string is exactly the frames of the returned packets, followed by a remainder that is
   not a frame the reader can return *)
Lemma parse_all_decomp fuel : forall cap bs e ps fin r,
  length bs < fuel -> parse_all fuel cap bs e = (ps, fin, r) ->
  exists rest, bs = concat (map frame_raw ps) ++ rest /\ bad_rest cap fin e rest /\
               Forall (fits_in cap) ps /\
               (match fin with PShort _ => r = skipn 2 rest | _ => r = [] end).
Proof.
  induction fuel as [|f IH]; intros cap bs e ps fin r Hfuel; [lia|]. cbn [parse_all].
  destruct (parse_one cap bs e) as [r0 rest0] eqn:Ep.
  destruct r0 as [b|len|e'|].
  - destruct (parse_one_ok_inv _ _ _ _ _ Ep) as (H2 & Hlb & Hbc & Hb & Hrest & Hlen).
    destruct (parse_all f cap rest0 e) as [[ps' fin'] r'] eqn:Ea.
    intro E. apply pair_equal_spec in E. destruct E as [E E3]. apply pair_equal_spec in E. destruct E as [E1 E2].
    subst ps fin r.
    destruct (IH cap rest0 e ps' fin' r' ltac:(lia) Ea) as (rest & Hbs & Hbad & Hfit & Hr).
    exists rest. splits; try assumption.
    + cbn [map concat]. rewrite <- app_assoc, <- Hbs.
      rewrite (frame_raw_of_parse bs b H2 Hlb), <- app_assoc.
      rewrite Hb at 1. rewrite Hrest.
      rewrite <- skipn_skipn'. rewrite firstn_skipn. now rewrite firstn_skipn.
    + constructor; [|assumption]. split; [|assumption].
      rewrite Hlb. assert (B := get_uint16_bound (firstn 2 bs)). lia.
  - intro E. apply pair_equal_spec in E. destruct E as [E E3]. apply pair_equal_spec in E. destruct E as [E1 E2].
    subst ps fin r.
    destruct (parse_one_final _ _ _ _ _ Ep eq_refl) as [Hbad Hr].
    exists bs. splits; try assumption; try reflexivity. constructor.
  - intro E. apply pair_equal_spec in E. destruct E as [E E3]. apply pair_equal_spec in E. destruct E as [E1 E2].
    subst ps fin r.
    destruct (parse_one_final _ _ _ _ _ Ep eq_refl) as [Hbad Hr].
    exists bs. splits; try assumption; try reflexivity. constructor.
  - exfalso. eapply parse_one_not_stuck; eauto.
Qed.

(* ---------- read side: the statements of C14 ----------------------------------------------------- *)

Lemma read_fuel_enough s : length (content s) < read_fuel s.
Proof. unfold read_fuel. assert (L := content_le_len s). lia. Qed.

(* all packet lists x all chunkings: reading yields exactly the packets, in order, then the final error *)
Lemma roundtrip : forall (ps : list bytes) (cap : nat) (cs : list bytes) (e : Z),
  Forall (fits_in cap) ps ->
  Forall (fun c => c <> []) cs ->
  concat cs = concat (map frame_raw ps) ->
  exists s', read_all (read_fuel (mkStream cs [] e [])) cap (mkStream cs [] e []) = (ps, PErr e, s')
             /\ dead s'.
Proof.
  intros ps cap cs e Hfit Hwf Hcat.
  set (s := mkStream cs [] e []).
  destruct (read_all_refines (read_fuel s) cap s Hwf (read_fuel_enough s))
    as (s' & Hrun & _ & _ & _ & _ & _ & Hfin & _).
  assert (Hc : content s = concat (map frame_raw ps)).
  { unfold content, s. cbn [chunks tail removelast]. now rewrite app_nil_r. }
  rewrite Hc in *. cbn [ferr s] in *.
  rewrite (parse_all_frames ps (read_fuel s) cap e Hfit) in * by (rewrite <- Hc; apply read_fuel_enough).
  cbn [fst snd] in *. exists s'. split; assumption.
Qed.

(* one readStreamingPacket on an arbitrary well-formed stream *)
Lemma read_packet_safe : forall cap s r s',
  wf s -> read_packet cap s = (r, s') ->
  wf s' /\ ferr s' = ferr s /\
  reqs_ext s s' (fun k => 1 <= k <= Nat.max 2 cap) (stream_len s - stream_len s' + 1) /\
  match r with
  | POk d => exists h, length h = 2 /\ content s = h ++ d ++ content s' /\
                       length d = N.to_nat (get_uint16 h) /\ length d <= cap /\
                       frame d = Some (h ++ d) /\ stream_len s - stream_len s' = 2 + length d
  | PShort len => exists h, length h = 2 /\ content s = h ++ content s' /\
                            len = N.to_nat (get_uint16 h) /\ cap < len /\
                            stream_len s - stream_len s' = 2
  | PErr e => e = ferr s /\ dead s' /\
              (length (content s) < 2 \/
               (length (content s) - 2 < N.to_nat (get_uint16 (firstn 2 (content s))) /\
                N.to_nat (get_uint16 (firstn 2 (content s))) <= cap))
  | PStuck => False
  end.
Proof.
  intros cap s r s' Hwf Hrun.
  destruct (read_packet_refines cap s Hwf) as (s1 & Hrun1 & Hc1 & Hwf1 & He1 & Hl1 & Hfin1 & Hq1).
  rewrite Hrun in Hrun1. apply pair_equal_spec in Hrun1. destruct Hrun1 as [Er Es]. subst s1.
  destruct (parse_one cap (content s) (ferr s)) as [r0 rest] eqn:Ep. cbn [fst snd] in *. subst r0.
  splits; try assumption.
  - eapply reqs_ext_weaken; [exact Hq1 | intros x Hx; exact Hx | destruct (is_ok r); lia].
  - destruct r as [d|len|e|].
    + destruct (parse_one_ok_inv _ _ _ _ _ Ep) as (H2 & Hlb & Hbc & Hb & Hrest & Hlen).
      destruct Hfin1 as [Ht Hcons].
      exists (firstn 2 (content s)). splits.
      * rewrite firstn_length. lia.
      * rewrite Hc1, Hrest. rewrite Hb at 1. rewrite <- skipn_skipn'.
        rewrite firstn_skipn. now rewrite firstn_skipn.
      * exact Hlb.
      * exact Hbc.
      * rewrite frame_some.
        -- f_equal. now apply frame_raw_of_parse.
        -- rewrite Hlb. assert (B := get_uint16_bound (firstn 2 (content s))). unfold max_uint16. lia.
      * rewrite Hcons, Hc1. lia.
    + destruct (parse_one_final _ _ _ _ _ Ep eq_refl) as [(H2 & Hlen & Hcap) Hr].
      destruct Hfin1 as [Ht Hcons].
      exists (firstn 2 (content s)). splits; try assumption.
      * rewrite firstn_length. lia.
      * rewrite Hc1, Hr. now rewrite firstn_skipn.
      * rewrite Hcons, Hc1, Hr, skipn_length. lia.
    + destruct (parse_one_final _ _ _ _ _ Ep eq_refl) as [(He & Hbad) Hr].
      splits; assumption.
    + eapply parse_one_not_stuck; eauto.
Qed.

(* a whole reader loop on an arbitrary well-formed stream *)
Lemma read_all_safe : forall cap s ps fin s',
  wf s -> read_all (read_fuel s) cap s = (ps, fin, s') ->
  exists rest,
    content s = concat (map frame_raw ps) ++ rest /\
    bad_rest cap fin (ferr s) rest /\
    Forall (fits_in cap) ps /\
    (match fin with PErr _ => dead s' | _ => content s' = skipn 2 rest end) /\
    reqs_ext s s' (fun k => 1 <= k <= Nat.max 2 cap) (stream_len s - stream_len s' + 1).
Proof.
  intros cap s ps fin s' Hwf Hrun.
  destruct (read_all_refines (read_fuel s) cap s Hwf (read_fuel_enough s))
    as (s1 & Hrun1 & Hc1 & Hwf1 & He1 & Hl1 & Hcl1 & Hfin1 & Hq1).
  rewrite Hrun in Hrun1. apply pair_equal_spec in Hrun1. destruct Hrun1 as [Er Es]. subst s1.
  destruct (parse_all (read_fuel s) cap (content s) (ferr s)) as [[ps0 fin0] r0] eqn:Ea.
  cbn [fst snd] in *. apply pair_equal_spec in Er. destruct Er as [E1 E2]. subst ps0 fin0.
  destruct (parse_all_decomp _ _ _ _ _ _ _ (read_fuel_enough s) Ea) as (rest & Hbs & Hbad & Hfit & Hr).
  exists rest. splits; try assumption.
  destruct fin; try assumption; try (now destruct Hbad).
  now rewrite Hc1.
Qed.

(* the result depends only on the deliverable bytes and the final error, not on the chunking *)
Lemma chunking_irrelevant : forall cap s1 s2,
  wf s1 -> wf s2 -> content s1 = content s2 -> ferr s1 = ferr s2 ->
  fst (read_all (read_fuel s1) cap s1) = fst (read_all (read_fuel s2) cap s2).
Proof.
  intros cap s1 s2 W1 W2 Hc He.
  destruct (read_all_refines (read_fuel s1) cap s1 W1 (read_fuel_enough s1)) as (a & Ha & _).
  destruct (read_all_refines (read_fuel s2) cap s2 W2 (read_fuel_enough s2)) as (b & Hb & _).
  rewrite Ha, Hb. cbn [fst]. rewrite Hc, He.
  f_equal. apply parse_all_fuel; [rewrite <- Hc|]; apply read_fuel_enough.
Qed.

(* the reader never gets stuck (the fuel of read_loop/read_all is never exhausted) on well-formed streams *)
Lemma read_all_not_stuck : forall cap s, wf s -> snd (fst (read_all (read_fuel s) cap s)) <> PStuck.
Proof.
  intros cap s Hwf.
  destruct (read_all_refines (read_fuel s) cap s Hwf (read_fuel_enough s)) as (a & Ha & _).
  rewrite Ha. cbn [fst]. apply parse_all_not_stuck. apply read_fuel_enough.
Qed.

(* ---------- write side ------------------------------------------------------------------------------ *)

Lemma uint16_of_len_small n : (N.of_nat n <= 65535)%N -> uint16_of_len n = N.of_nat n.
Proof. intro H. unfold uint16_of_len. apply N.mod_small. lia. Qed.

Lemma write_ok v p :
  (N.of_nat (length p) <= 65535)%N ->
  write_streaming_packet v None p = ([frame_raw p], length p, None).
Proof.
  intro H. unfold write_streaming_packet.
  assert (E : (max_uint16 <? N.of_nat (length p))%N = false) by (apply N.ltb_ge; exact H).
  rewrite E, andb_false_r. rewrite uint16_of_len_small by exact H.
  fold (frame_raw p). rewrite frame_raw_length, hdr_len_val. repeat f_equal. lia.
Qed.

Lemma write_conn_err v p e :
  (N.of_nat (length p) <= 65535)%N ->
  write_streaming_packet v (Some e) p = ([frame_raw p], 0, Some e).
Proof.
  intro H. unfold write_streaming_packet.
  assert (E : (max_uint16 <? N.of_nat (length p))%N = false) by (apply N.ltb_ge; exact H).
  rewrite E, andb_false_r. rewrite uint16_of_len_small by exact H. reflexivity.
Qed.

Lemma oversize_write v werr p :
  v_reject_oversize v = true -> (65535 < N.of_nat (length p))%N ->
  write_streaming_packet v werr p = ([], 0, Some err_other).
Proof.
  intros Hv H. unfold write_streaming_packet. rewrite Hv.
  assert (E : (max_uint16 <? N.of_nat (length p))%N = true) by (apply N.ltb_lt; exact H).
  now rewrite E.
Qed.

(* what the pinned code does instead (header modulo 65536, everything written, no error) *)
Lemma oversize_write_current p :
  (65535 < N.of_nat (length p))%N ->
  write_streaming_packet current None p =
    ([put_uint16 (N.of_nat (length p) mod 65536) ++ p], length p, None).
Proof.
  intro H. unfold write_streaming_packet, current. cbn [v_reject_oversize andb].
  unfold uint16_of_len. rewrite app_length, put_uint16_length, hdr_len_val.
  repeat f_equal. lia.
Qed.

(* a variant delivers MTU-sized packets: no write buffering, or a writeProcess buffer that holds a
   whole frame of an MTU-sized packet *)
Definition delivers (v : variant) (wbuf : nat) : Prop := wbuf = 0 \/ mtu + 2 <= v_wproc_buf v.

Lemma mtu_fits16 (p : bytes) : length p <= mtu -> (N.of_nat (length p) <= 65535)%N.
Proof. intro H. assert (M := mtu_val). lia. Qed.

Lemma pc_write_to_ok v wbuf p :
  delivers v wbuf -> length p <= mtu ->
  pc_write_to v wbuf p = ([frame_raw p], length p, None).
Proof.
  intros Hd Hp. assert (H16 := mtu_fits16 p Hp). unfold pc_write_to.
  destruct wbuf as [|w].
  - now apply write_ok.
  - destruct Hd as [Hd|Hd]; [discriminate|].
    assert (E : (max_uint16 <? N.of_nat (length p))%N = false) by (apply N.ltb_ge; exact H16).
    rewrite E, andb_false_r. rewrite uint16_of_len_small by exact H16. fold (frame_raw p).
    unfold buffered_write. rewrite frame_raw_length.
    assert (E2 : (65536 <=? N.of_nat (2 + length p))%N = false).
    { apply N.leb_gt. assert (M := mtu_val). lia. }
    rewrite E2.
    assert (E3 : (2 + length p <=? v_wproc_buf v) = true) by (apply Nat.leb_le; lia).
    rewrite E3, hdr_len_val. repeat f_equal. lia.
Qed.

Lemma pc_write_all_ok v wbuf ps :
  delivers v wbuf -> Forall (fun p => length p <= mtu) ps ->
  pc_write_all v wbuf ps = (map frame_raw ps, map (fun p : bytes => (length p, @None Z)) ps).
Proof.
  intros Hd Hps. induction Hps as [|p ps Hp Hps IH]; [reflexivity|].
  cbn [pc_write_all map]. rewrite (pc_write_to_ok v wbuf p Hd Hp), IH. reflexivity.
Qed.

(* write/read composition: what WriteTo writes on one tcpPacketConn is what ReadFrom returns on the
   other, for every packet sequence and every segmentation of the byte stream in transit *)
Lemma write_read_composition : forall v wbuf ps blen bcap cs e,
  delivers v wbuf ->
  Forall (fun p => length p <= mtu /\ length p <= blen) ps -> blen <= bcap ->
  Forall (fun c => c <> []) cs ->
  concat cs = concat (fst (pc_write_all v wbuf ps)) ->
  fst (pc_read_all v blen bcap (mkStream cs [] e [])) = map (fun p : bytes => RFOk (length p) p) ps ++ [RFErr e]
  /\ snd (pc_write_all v wbuf ps) = map (fun p : bytes => (length p, @None Z)) ps.
Proof.
  intros v wbuf ps blen bcap cs e Hd Hps Hb Hwf Hcat.
  assert (Hmtu : Forall (fun p => length p <= mtu) ps).
  { eapply Forall_impl; [|exact Hps]. intros p [H _]. exact H. }
  rewrite (pc_write_all_ok v wbuf ps Hd Hmtu) in *. cbn [fst snd] in *. split; [|reflexivity].
  assert (Hfit : Forall (fits_in mtu) ps).
  { eapply Forall_impl; [|exact Hmtu]. intros p H. split; [now apply mtu_fits16 | exact H]. }
  destruct (roundtrip ps mtu cs e Hfit Hwf Hcat) as (s' & Hrun & _).
  unfold pc_read_all, pc_reader. rewrite Hrun. cbn [fst pres_err].
  rewrite map_app, map_map. cbn [map pc_read_from]. f_equal.
  apply map_ext_in. intros p Hin. rewrite Forall_forall in Hps. destruct (Hps p Hin) as [_ Hpb].
  cbn [pc_read_from].
  assert (E : ((if v_readfrom_len v then blen else bcap) <? length p) = false).
  { apply Nat.ltb_ge. destruct (v_readfrom_len v); lia. }
  rewrite E. rewrite firstn_all2 by exact Hpb.
  replace (length p - blen) with 0 by lia. cbn [repeat]. now rewrite app_nil_r.
Qed.

(* ---------- the monitors accept what the model does --------------------------------------------------- *)

Lemma bytes_eqb_refl a : bytes_eqb a a = true.
Proof. induction a as [|x a IH]; [reflexivity|]. simpl. now rewrite Ascii.eqb_refl, IH. Qed.

Lemma bytes_eqb_eq a : forall b, bytes_eqb a b = true -> a = b.
Proof.
  induction a as [|x a IH]; intros [|y b]; simpl; try discriminate; [reflexivity|].
  intro H. apply andb_prop in H. destruct H as [H1 H2]. apply Ascii.eqb_eq in H1. subst y.
  f_equal. now apply IH.
Qed.

Lemma pkts_eqb_refl a : pkts_eqb a a = true.
Proof. induction a as [|x a IH]; [reflexivity|]. simpl. now rewrite bytes_eqb_refl, IH. Qed.

Lemma pkts_prefix_refl a : pkts_prefix a a = true.
Proof. induction a as [|x a IH]; [reflexivity|]. simpl. now rewrite bytes_eqb_refl, IH. Qed.

Lemma pres_eqb_refl r : pres_eqb r r = true.
Proof. destruct r; simpl; [apply bytes_eqb_refl | apply Nat.eqb_refl | apply Z.eqb_refl | reflexivity]. Qed.

Lemma list_max_bound (l : list nat) (m : nat) : Forall (fun k => k <= m) l -> list_max l <= m.
Proof. induction 1 as [|x l Hx Hl IH]; unfold list_max in *; simpl; lia. Qed.

(* appending bytes to a stream can only add packets at the end *)
Lemma parse_all_extend fuel : forall cap bs x e,
  length (bs ++ x) < fuel ->
  let '(p1, f1, _) := parse_all fuel cap bs e in
  let '(p2, f2, _) := parse_all fuel cap (bs ++ x) e in
  pkts_prefix p1 p2 = true /\ ((pkts_eqb p1 p2 && pres_eqb f1 f2 = true) \/ f1 = PErr e).
Proof.
  induction fuel as [|f IH]; intros cap bs x e Hfuel; [lia|]. cbn [parse_all].
  unfold parse_one at 1.
  destruct (Nat.ltb_spec (length bs) 2) as [H2|H2].
  - destruct (parse_one cap (bs ++ x) e) as [[b| | |] rest2];
      try destruct (parse_all f cap rest2 e) as [[? ?] ?]; (split; [reflexivity | now right]).
  - unfold parse_one. rewrite app_length in *.
    destruct (Nat.ltb_spec (length bs + length x) 2); [lia|].
    rewrite (firstn_app_le 2 bs x) by lia.
    remember (N.to_nat (get_uint16 (firstn 2 bs))) as len eqn:Hlen.
    destruct (Nat.ltb_spec cap len) as [Hc|Hc].
    + split; [reflexivity|]. left. simpl. now rewrite Nat.eqb_refl.
    + destruct (Nat.ltb_spec (length bs - 2) len) as [Ht|Ht].
      * destruct (length bs + length x - 2 <? len);
          try destruct (parse_all f cap _ e) as [[? ?] ?]; (split; [reflexivity | now right]).
      * destruct (Nat.ltb_spec (length bs + length x - 2) len); [lia|].
        rewrite (skipn_app_le 2 bs x) by lia.
        rewrite (firstn_app_le len (skipn 2 bs) x) by (rewrite skipn_length; lia).
        rewrite (skipn_app_le (2 + len) bs x) by lia.
        assert (Hr : length (skipn (2 + len) bs ++ x) < f).
        { rewrite app_length, skipn_length. lia. }
        specialize (IH cap (skipn (2 + len) bs) x e Hr).
        destruct (parse_all f cap (skipn (2 + len) bs) e) as [[p1 f1] r1].
        destruct (parse_all f cap (skipn (2 + len) bs ++ x) e) as [[p2 f2] r2].
        destruct IH as [Hp Hd]. cbn [pkts_prefix pkts_eqb]. rewrite bytes_eqb_refl. cbn [andb].
        split; assumption.
Qed.

Lemma removelast_app_last (l : bytes) : l <> [] -> exists x, l = removelast l ++ [x].
Proof. intro H. exists (last l Ascii.zero). now apply app_removelast_last. Qed.

(* (1) the read monitor accepts every run of the model's reader loop, whatever the chunking, the
   final error and the bytes delivered together with it *)
Lemma read_monitor_sound : forall cap cs tl e,
  Forall (fun c => c <> []) cs ->
  let s := mkStream cs tl e [] in
  let '(pkts, fin, s') := read_all (read_fuel s) cap s in
  all_ok (C14_read_checks cap (concat cs) tl e false pkts fin
            (stream_len s - stream_len s') (length (reqs s')) (list_max (reqs s'))) = true.
Proof.
  intros cap cs tl e Hwf s.
  destruct (read_all_refines (read_fuel s) cap s Hwf (read_fuel_enough s))
    as (s' & Hrun & Hc' & Hwf' & He' & Hl' & Hcl' & Hfin & Hq).
  rewrite Hrun.
  destruct (parse_all (read_fuel s) cap (content s) (ferr s)) as [[pkts fin] r0] eqn:Ea.
  cbn [fst snd] in *.
  (* reads_bounded *)
  assert (Hreads : (list_max (reqs s') <=? Nat.max 2 cap) && (length (reqs s') <=? stream_len s - stream_len s' + 1) = true).
  { destruct Hq as (new & En & Fn & Ln). cbn [reqs s] in En. rewrite app_nil_r in En. rewrite En.
    apply andb_true_intro. split.
    - apply Nat.leb_le. apply list_max_bound. eapply Forall_impl; [|exact Fn]. intros k Hk. cbv beta in Hk. lia.
    - apply Nat.leb_le. exact Ln. }
  assert (Hcons : stream_len s - stream_len s' <= length (concat cs ++ tl)).
  { unfold stream_len at 1. cbn [chunks tail s]. rewrite app_length. lia. }
  unfold C14_read_checks.
  destruct tl as [|t0 tl'].
  - (* clean end of stream: the monitor's parse is the model's *)
    assert (Hcont : content s = concat cs ++ []) by reflexivity.
    rewrite (parse_all_fuel (S (length (concat cs ++ []))) (read_fuel s) cap (concat cs ++ []) e)
      by (rewrite <- Hcont; first [apply read_fuel_enough | lia]).
    rewrite <- Hcont. cbn [ferr s] in Ea. rewrite Ea.
    cbn [is_nil]. rewrite pkts_eqb_refl, pkts_prefix_refl, pres_eqb_refl. cbn [andb orb negb].
    unfold all_ok. cbn [forallb snd andb]. rewrite Hreads.
    assert (Hexact : stream_len s - stream_len s' = length (content s) - length r0).
    { destruct fin.
      - destruct Hfin as [_ H]. now rewrite <- Hc'.
      - destruct Hfin as [_ H]. now rewrite <- Hc'.
      - rewrite (dead_len _ Hfin). rewrite <- Hc', (dead_content _ Hfin).
        rewrite content_length. cbn [tail s is_nil length]. lia.
      - destruct Hfin as [_ H]. now rewrite <- Hc'. }
    rewrite Hexact, Nat.eqb_refl. reflexivity.
  - (* bytes delivered together with the error: the model returns a prefix of the frames *)
    destruct (removelast_app_last (t0 :: tl') ltac:(discriminate)) as [x Hx].
    assert (Hcont : content s = concat cs ++ removelast (t0 :: tl')) by reflexivity.
    assert (Hfull : concat cs ++ t0 :: tl' = content s ++ [x]).
    { rewrite Hcont, <- app_assoc, <- Hx. reflexivity. }
    rewrite Hfull in *.
    assert (Hf2 : length (content s ++ [x]) < S (length (content s ++ [x]))) by lia.
    assert (Hext := parse_all_extend (S (length (content s ++ [x]))) cap (content s) [x] e Hf2).
    rewrite (parse_all_fuel (S (length (content s ++ [x]))) (read_fuel s) cap (content s) e) in Hext
      by (first [apply read_fuel_enough | rewrite app_length; lia]).
    cbn [ferr s] in Ea. rewrite Ea in Hext.
    destruct (parse_all (S (length (content s ++ [x]))) cap (content s ++ [x]) e) as [[spkts sfin] srest].
    destruct Hext as [Hpre Hd].
    cbn [is_nil negb]. rewrite Hpre.
    unfold all_ok. cbn [forallb snd andb orb]. rewrite Hreads.
    assert (Hle : (stream_len s - stream_len s' <=? length (content s ++ [x])) = true) by (now apply Nat.leb_le).
    destruct Hd as [Hd|Hd].
    + rewrite Hd. cbn [orb]. rewrite Hle. reflexivity.
    + subst fin. rewrite pres_eqb_refl, orb_true_r. rewrite Hle.
      destruct (pkts_eqb pkts spkts && pres_eqb (PErr e) sfin); reflexivity.
Qed.

(* (2) the write monitor accepts writeStreamingPacket exactly when oversize packets are rejected *)
Lemma write_monitor_sound : forall v werr p,
  v_reject_oversize v = true ->
  let '(ws, n, err) := write_streaming_packet v werr p in
  all_ok (C14_write_checks p werr false n err ws) = true.
Proof.
  intros v werr p Hv. unfold C14_write_checks.
  destruct (N.leb_spec (N.of_nat (length p)) max_uint16) as [H|H]; unfold max_uint16 in H.
  - rewrite (frame_some p H).
    destruct werr as [e|].
    + rewrite (write_conn_err v p e H). unfold all_ok. cbn [forallb snd negb length Nat.eqb andb].
      unfold frame_raw. rewrite firstn_app_le, firstn_all2 by (rewrite put_uint16_length; lia).
      rewrite skipn_app_le, skipn_all2 by (rewrite put_uint16_length; lia). cbn [app].
      rewrite !bytes_eqb_refl. cbn [opt_z_eqb]. now rewrite Z.eqb_refl.
    + rewrite (write_ok v p H). unfold all_ok. cbn [forallb snd negb length Nat.eqb andb].
      unfold frame_raw. rewrite firstn_app_le, firstn_all2 by (rewrite put_uint16_length; lia).
      rewrite skipn_app_le, skipn_all2 by (rewrite put_uint16_length; lia). cbn [app].
      rewrite !bytes_eqb_refl, Nat.eqb_refl. reflexivity.
  - rewrite (frame_none p H). rewrite (oversize_write v werr p Hv H). reflexivity.
Qed.

(* ... and rejects what the pinned code does with an oversize packet *)
Lemma write_monitor_rejects_current : forall p,
  (65535 < N.of_nat (length p))%N ->
  let '(ws, n, err) := write_streaming_packet current None p in
  failed (C14_write_checks p None false n err ws)
  = ["oversize_is_error"; "oversize_writes_nothing"; "oversize_n_zero"]%string.
Proof.
  intros p H. rewrite (oversize_write_current p H). unfold C14_write_checks.
  rewrite (frame_none p H). unfold failed. cbn [filter map fst snd negb opt_is_none is_nil].
  destruct (length p) eqn:E; [simpl in H; lia|]. reflexivity.
Qed.

(* ---------- what the pinned variant does where the property fails (used by Findings/F_C14.v) ------------ *)

(* with write buffering, a packet of MTU-1 or MTU bytes (any packet whose frame exceeds pktBuf) is
   accepted by WriteTo and never reaches the TCP conn *)
Lemma buffered_drop_current (p : bytes) :
  mtu < 2 + length p -> (N.of_nat (length p) + 2 < 65536)%N ->
  pc_write_to current 1 p = ([], length p, None).
Proof.
  intros Hbig H16. unfold pc_write_to, current. cbn [v_reject_oversize andb v_wproc_buf].
  rewrite uint16_of_len_small by lia. fold (frame_raw p).
  unfold buffered_write. rewrite frame_raw_length. cbn [v_wproc_buf].
  assert (E2 : (65536 <=? N.of_nat (2 + length p))%N = false) by (apply N.leb_gt; lia).
  rewrite E2.
  assert (E3 : (2 + length p <=? mtu) = false) by (apply Nat.leb_gt; lia).
  rewrite E3, hdr_len_val. repeat f_equal. lia.
Qed.

(* ReadFrom with len(b) < len(packet) <= cap(b): n exceeds len(b) and b[:n] is not the packet *)
Lemma readfrom_cap_current (blen bcap : nat) (d : bytes) :
  blen < length d -> length d <= bcap ->
  pc_read_from current blen bcap (EvPkt d) = RFOk (length d) (firstn blen d ++ repeat zero_byte (length d - blen)).
Proof.
  intros H1 H2. unfold pc_read_from, current. cbn [v_readfrom_len].
  assert (E : (bcap <? length d) = false) by (apply Nat.ltb_ge; lia). now rewrite E.
Qed.

(* ---------- packaged statements for Props/C14.v --------------------------------------------------------- *)

Lemma frame_def : forall p : bytes,
  ((N.of_nat (length p) <= max_uint16)%N -> frame p = Some (frame_raw p)) /\
  ((max_uint16 < N.of_nat (length p))%N -> frame p = None).
Proof. intro p. split; [apply frame_some | apply frame_none]. Qed.

Lemma reader_refines_parser : forall cap s,
  wf s ->
  fst (read_all (read_fuel s) cap s) = fst (parse_all (read_fuel s) cap (content s) (ferr s)).
Proof.
  intros cap s Hwf.
  destruct (read_all_refines (read_fuel s) cap s Hwf (read_fuel_enough s)) as (s' & H & _).
  now rewrite H.
Qed.

Lemma write_frames : forall v (p : bytes),
  (N.of_nat (length p) <= 65535)%N ->
  write_streaming_packet v None p = ([frame_raw p], length p, None) /\
  forall e, write_streaming_packet v (Some e) p = ([frame_raw p], 0, Some e).
Proof. intros v p H. split; [now apply write_ok | intro e; now apply write_conn_err]. Qed.

Lemma framing_example :
  let ps := [["A"; "B"]; []; ["C"]]%char in
  let cs := map (fun b => [b]) (concat (map frame_raw ps)) in
  Forall (fits_in 2) ps /\ Forall (fun c : bytes => c <> []) cs /\ concat cs = concat (map frame_raw ps) /\
  fst (read_all (read_fuel (mkStream cs [] 0%Z [])) 2 (mkStream cs [] 0%Z [])) = (ps, PErr 0%Z) /\
  (let v := mkVariant true (mtu + 2) true true in delivers v 1 /\ v_reject_oversize v = true) /\
  fst (read_packet 8 (mkStream [["000"; "005"; "x"]%char] [] 0%Z [])) = PErr 0%Z.
Proof.
  cbv zeta. split; [|split; [|split; [|split; [|split]]]].
  - repeat constructor; simpl; lia.
  - vm_compute. repeat constructor; discriminate.
  - vm_compute. reflexivity.
  - vm_compute. reflexivity.
  - split; [right; apply le_n | reflexivity].
  - vm_compute. reflexivity.
Qed.

(* (5) the composition monitor accepts the model's write/read composition for every sequence of packets
   that fit (<= receiveMTU and <= the caller's buffer), every segmentation, every delivering variant *)
Lemma pkts_subseq_refl a : pkts_subseq a a = true.
Proof. induction a as [|x a IH]; [reflexivity|]. simpl. now rewrite bytes_eqb_refl. Qed.

Lemma accepted_all (ps : list bytes) : accepted ps (map (fun p : bytes => (length p, @None Z)) ps) = ps.
Proof. induction ps as [|p ps IH]; [reflexivity|]. simpl. now rewrite IH. Qed.

Lemma rf_oks_all (ps : list bytes) e : rf_oks (map (fun p : bytes => RFOk (length p) p) ps ++ [RFErr e]) = ps.
Proof. induction ps as [|p ps IH]; [reflexivity|]. simpl. now rewrite IH. Qed.

Lemma pipe_monitor_sound : forall v wbuf ps bcap cs,
  delivers v wbuf ->
  Forall (fun p => length p <= mtu /\ length p <= bcap) ps ->
  Forall (fun c => c <> []) cs ->
  concat cs = concat (fst (pc_write_all v wbuf ps)) ->
  all_ok (C14_pipe_checks bcap ps false (snd (pc_write_all v wbuf ps))
            (fst (pc_read_all v bcap bcap (mkStream cs [] err_eof [])))) = true.
Proof.
  intros v wbuf ps bcap cs Hd Hps Hwf Hcat.
  destruct (write_read_composition v wbuf ps bcap bcap cs err_eof Hd Hps (le_n _) Hwf Hcat) as [Hr Hw].
  rewrite Hr, Hw. unfold C14_pipe_checks. rewrite accepted_all, rf_oks_all.
  rewrite pkts_subseq_refl, pkts_eqb_refl.
  assert (Hover : forallb2 oversize_rejected ps (map (fun p : bytes => (length p, @None Z)) ps) = true).
  { clear - Hps. induction Hps as [|p ps [Hp _] _ IH]; [reflexivity|].
    cbn [map forallb2]. rewrite IH, andb_true_r. unfold oversize_rejected.
    rewrite (frame_some p); [reflexivity | unfold max_uint16; now apply mtu_fits16]. }
  assert (Hfits : forallb (fits bcap) ps = true).
  { apply forallb_forall. intros p Hin. rewrite Forall_forall in Hps. destruct (Hps p Hin) as [H1 H2].
    unfold fits. apply andb_true_intro. split; now apply Nat.leb_le. }
  rewrite Hover, Hfits. rewrite last_last.
  rewrite app_length, map_length. cbn [length]. rewrite Nat.add_1_r, Nat.eqb_refl.
  reflexivity.
Qed.
