(* C03: the selected pair is listed, valid (Succeeded) and nominated -- an invariant of every operation,
   hence of every history. *)
From Coq Require Import ZArith Bool List Lia.
From Ice Require Import Model.AgentTypes Model.AgentCore Gen.Consts Gen.Lifecycle Proofs.AgentFrame Proofs.AgentC06.
Import ListNotations.
Local Open Scope Z_scope.

Definition good (p : pair) : Prop := p_state p = CandidatePairStateSucceeded /\ p_nominated p = true.
Definition InvSV (s : state) : Prop :=
  match s_selected s with
  | None => True
  | Some id => exists p, In p (s_checklist s) /\ p_id p = id /\ good p
  end.
Definition HasSucc (id : Z) (s : state) : Prop :=
  exists p, In p (s_checklist s) /\ p_id p = id /\ p_state p = CandidatePairStateSucceeded.
Definition G (s : state) : Prop := InvSV s /\ InvU s.

Lemma seq_fst (f g : M) s : fst ((f ;; g) s) = fst (g (fst (f s))).
Proof. unfold seq. destruct (f s) as [s1 o1]. cbn. destruct (g s1). reflexivity. Qed.
Lemma with_state_eq A (q : state -> A) (k : A -> M) s : with_state q k s = k (q s) s.
Proof. reflexivity. Qed.
Lemma modify_fst h s : fst (modify h s) = h s.
Proof. reflexivity. Qed.
Definition upd (id : Z) (f : pair -> pair) (s : state) : state :=
  set_s_checklist (map (fun p => if p_id p =? id then f p else p) (s_checklist s)) s.
Lemma upd_pair_fst id f s : fst (upd_pair id f s) = upd id f s.
Proof. reflexivity. Qed.

Definition g_view (s : state) := (s_checklist s, s_selected s, s_next_pair s).
Lemma G_view s s' : g_view s' = g_view s -> G s -> G s'.
Proof.
  unfold g_view, G, InvSV, InvU. intros E. injection E as E1 E2 E3. rewrite E1, E2, E3. auto.
Qed.
Lemma InvSV_view s s' : (s_checklist s', s_selected s') = (s_checklist s, s_selected s) -> InvSV s -> InvSV s'.
Proof. unfold InvSV. intros E. injection E as E1 E2. rewrite E1, E2. auto. Qed.

Lemma InvSV_upd id f s :
  (forall q, p_id q = id -> p_id (f q) = id) -> (forall q, p_id q = id -> good q -> good (f q)) -> InvSV s -> InvSV (upd id f s).
Proof.
  intros Hid Hf H. unfold InvSV, upd in *. cbn. destruct (s_selected s) as [sid|]; [|exact I].
  destruct H as [p [Hin [Hp Hg]]].
  exists (if p_id p =? id then f p else p). split; [apply in_map_iff; exists p; auto|].
  destruct (Z.eqb_spec (p_id p) id) as [E|NE]; [split; [rewrite (Hid p E); congruence|apply Hf; assumption]|split; assumption].
Qed.

Lemma InvU_upd id f s : (forall q, p_id q = id -> p_id (f q) = id) -> InvU s -> InvU (upd id f s).
Proof. intros Hf H. exact (presU_upd_pair id f Hf s H). Qed.

Lemma G_upd id f s :
  (forall q, p_id q = id -> p_id (f q) = id) -> (forall q, p_id q = id -> good q -> good (f q)) -> G s -> G (upd id f s).
Proof. intros H1 H2 [Ha Hb]. split; [apply InvSV_upd; assumption|apply InvU_upd; assumption]. Qed.

Lemma HasSucc_upd id id' f s :
  (forall q, p_id q = id' -> p_id (f q) = id') ->
  (forall q, p_id q = id' -> p_state q = CandidatePairStateSucceeded -> p_state (f q) = CandidatePairStateSucceeded) ->
  HasSucc id s -> HasSucc id (upd id' f s).
Proof.
  intros Hid Hf [p [Hin [Hp Hs]]]. exists (if p_id p =? id' then f p else p).
  split; [unfold upd; cbn; apply in_map_iff; exists p; auto|].
  destruct (Z.eqb_spec (p_id p) id') as [E|NE]; [split; [rewrite (Hid p E); congruence|apply Hf; assumption]|split; assumption].
Qed.

Lemma HasSucc_mark p s : In p (s_checklist s) -> HasSucc (p_id p) (upd (p_id p) (set_p_state CandidatePairStateSucceeded) s).
Proof.
  intros Hin. exists (set_p_state CandidatePairStateSucceeded p). split.
  - unfold upd. cbn. apply in_map_iff. exists p. rewrite Z.eqb_refl. auto.
  - split; reflexivity.
Qed.

Lemma HasSucc_view id s s' : s_checklist s' = s_checklist s -> HasSucc id s -> HasSucc id s'.
Proof. unfold HasSucc. intros ->. auto. Qed.

Lemma update_conn_not_failed st s : st <> ConnectionStateFailed -> g_view (fst (update_conn st s)) = g_view s.
Proof.
  intros H. unfold update_conn. destruct (s_conn s =? st); [reflexivity|].
  apply Z.eqb_neq in H. rewrite H. reflexivity.
Qed.

Lemma G_wiped s s' : G s -> s_checklist s' = [] -> s_selected s' = None -> s_next_pair s' = s_next_pair s -> G s'.
Proof.
  intros [_ [_ [_ H3]]] E1 E2 E3. split.
  - unfold InvSV. rewrite E2. exact I.
  - unfold InvU. rewrite E1, E3. repeat split; try constructor. exact H3.
Qed.

Lemma G_update_conn st s : G s -> G (fst (update_conn st s)).
Proof.
  intros H. unfold update_conn. destruct (s_conn s =? st); [exact H|].
  destruct (st =? ConnectionStateFailed); cbn [fst].
  - eapply G_wiped; [exact H|reflexivity|reflexivity|reflexivity].
  - eapply G_view; [|exact H]. reflexivity.
Qed.

Lemma set_selected_G id s : G s -> HasSucc id s -> G (fst (set_selected id s)).
Proof.
  intros [Hsv Hu] [p [Hin [Hp Hs]]]. unfold set_selected. rewrite !seq_fst, upd_pair_fst, modify_fst.
  unfold emit. cbn [fst].
  set (s1 := set_s_selected (Some id) (upd id (set_p_nominated true) s)).
  assert (H1 : G s1).
  { split.
    - unfold InvSV, s1. cbn. exists (set_p_nominated true p). split.
      + apply in_map_iff. exists p. rewrite Hp, Z.eqb_refl. auto.
      + split; [exact Hp|]. split; [exact Hs|reflexivity].
    - assert (Hu1 : InvU (upd id (set_p_nominated true) s)) by (apply InvU_upd; [intros; assumption|exact Hu]).
      exact Hu1. }
  eapply G_view; [|exact H1]. apply update_conn_not_failed. discriminate.
Qed.

Lemma find_pair_in l r s p : find_pair l r s = Some p -> In p (s_checklist s).
Proof. unfold find_pair. intros H. apply find_some in H. tauto. Qed.
Lemma pair_by_id_in id s p : pair_by_id id s = Some p -> In p (s_checklist s) /\ p_id p = id.
Proof. unfold pair_by_id. intros H. apply find_some in H. destruct H as [H1 H2]. apply Z.eqb_eq in H2. auto. Qed.

(* ---- controlling side: success response ------------------------------------------------------------- *)
Lemma G_success_controlling cfg m l r src s : G s -> G (fst (handle_success_controlling cfg m l r src s)).
Proof.
  intros H. unfold handle_success_controlling. rewrite seq_fst. unfold invalidate_pending at 1. rewrite modify_fst.
  set (s1 := set_s_pending _ s). assert (H1 : G s1) by (eapply G_view; [|exact H]; reflexivity).
  rewrite with_state_eq. destruct (take_pending (m_tx m) (s_pending s1)) as [[q rest]|]; [|exact H1].
  rewrite seq_fst, modify_fst. set (s2 := set_s_pending rest s1).
  assert (H2 : G s2) by (eapply G_view; [|exact H1]; reflexivity).
  destruct (negb (response_symmetric q l src)); [exact H2|].
  rewrite with_state_eq. destruct (find_pair l r s2) as [p|] eqn:Hfp; [|exact H2].
  apply find_pair_in in Hfp.
  rewrite seq_fst, upd_pair_fst. set (s3 := upd (p_id p) (set_p_state CandidatePairStateSucceeded) s2).
  assert (H3 : G s3) by (apply G_upd; [intros q0 Hq0; exact Hq0| |exact H2]; intros q0 _ [Hq1 Hq2]; split; [reflexivity|exact Hq2]).
  assert (K3 : HasSucc (p_id p) s3) by (apply HasSucc_mark; exact Hfp).
  rewrite seq_fst, upd_pair_fst.
  apply G_upd; [intros q0 Hq0; exact Hq0|intros q0 _ Hq0; exact Hq0|].
  destruct (q_use q); [|exact H3].
  destruct (q_nom q); [apply set_selected_G; assumption|].
  rewrite with_state_eq. destruct (selected_pair s3); [exact H3|apply set_selected_G; assumption].
Qed.

(* ---- controlled side: success response ------------------------------------------------------------- *)
Lemma pair_by_id_succ id s p : HasSucc id s -> InvU s -> pair_by_id id s = Some p -> p_state p = CandidatePairStateSucceeded.
Proof.
  intros [q [Hq [Eq Sq]]] [Hnd _] Hp. apply pair_by_id_in in Hp. destruct Hp as [Hp Ep].
  assert (q = p); [|subst; exact Sq].
  clear Sq. revert Hnd Hq Hp. induction (s_checklist s) as [|x t IH]; cbn; intros Hnd Hq Hp; [contradiction|].
  inversion Hnd as [|? ? Hx Ht]; subst.
  destruct Hq as [<-|Hq]; destruct Hp as [<-|Hp]; try reflexivity.
  - exfalso. apply Hx. apply in_map_iff. exists p. split; [congruence|exact Hp].
  - exfalso. apply Hx. apply in_map_iff. exists q. split; [congruence|exact Hq].
  - apply IH; assumption.
Qed.

Lemma G_success_controlled cfg m l r src s : G s -> G (fst (handle_success_controlled cfg m l r src s)).
Proof.
  intros H. unfold handle_success_controlled. rewrite seq_fst. unfold invalidate_pending at 1. rewrite modify_fst.
  set (s1 := set_s_pending _ s). assert (H1 : G s1) by (eapply G_view; [|exact H]; reflexivity).
  rewrite with_state_eq. destruct (take_pending (m_tx m) (s_pending s1)) as [[q rest]|]; [|exact H1].
  rewrite seq_fst, modify_fst. set (s2 := set_s_pending rest s1).
  assert (H2 : G s2) by (eapply G_view; [|exact H1]; reflexivity).
  destruct (negb (response_symmetric q l src)); [exact H2|].
  rewrite with_state_eq. destruct (find_pair l r s2) as [p0|] eqn:Hfp; [|exact H2].
  apply find_pair_in in Hfp.
  rewrite seq_fst, upd_pair_fst. set (s3 := upd (p_id p0) (set_p_state CandidatePairStateSucceeded) s2).
  assert (H3 : G s3) by (apply G_upd; [intros q0 Hq0; exact Hq0| |exact H2]; intros q0 _ [Hq1 Hq2]; split; [reflexivity|exact Hq2]).
  assert (K3 : HasSucc (p_id p0) s3) by (apply HasSucc_mark; exact Hfp).
  rewrite seq_fst, upd_pair_fst.
  apply G_upd; [intros q0 Hq0; exact Hq0|intros q0 _ Hq0; exact Hq0|].
  destruct (p_nom_on_succ p0); [|exact H3].
  rewrite seq_fst, upd_pair_fst.
  apply G_upd; [intros q0 Hq0; exact Hq0|intros q0 _ Hq0; exact Hq0|].
  rewrite with_state_eq.
  destruct (pair_by_id (p_id p0) s3) as [p|] eqn:Hp; [|exact H3].
  destruct (pair_by_id_in _ _ _ Hp) as [_ Epid]. rewrite Epid.
  destruct (p_nom_value p).
  - destruct (_ && _); [apply set_selected_G; assumption|exact H3].
  - destruct (selected_pair s3); [|apply set_selected_G; assumption].
    destruct (_ && _); [apply set_selected_G; assumption|exact H3].
Qed.

(* ---- everything that does not select: leaves --------------------------------------------------------- *)
Lemma satG_unit f : (forall s, G s -> G (fst (f s))) -> satG G mp_true f.
Proof. intros H s Hs. split; [exact I|apply H; exact Hs]. Qed.
Lemma unit_satG f s : satG G mp_true f -> G s -> G (fst (f s)).
Proof. intros H Hs. exact (proj2 (H s Hs)). Qed.

Lemma G_add_pair l r s : G s -> G (fst (add_pair l r s)).
Proof.
  intros [Hsv Hu]. split.
  - unfold InvSV in *. cbn. destruct (s_selected s) as [id|]; [|exact I].
    destruct Hsv as [p [Hin Hp]]. exists p. split; [apply in_or_app; left; exact Hin|exact Hp].
  - exact (presU_add_pair l r s Hu).
Qed.

Ltac g_leaf :=
  match goal with
  | |- satG G mp_true (update_conn _) => apply satG_unit; intros ?s ?Hg; apply G_update_conn; assumption
  | |- satG G mp_true (add_pair _ _) => apply satG_unit; intros ?s ?Hg; apply G_add_pair; assumption
  | |- satG G mp_true (emit _) => apply satG_emit; intros ?s ?Hg; exact I
  | |- satG G mp_true (upd_pair _ _) =>
    apply satG_upd_pair; intros ?s ?Hg; split; [exact I|];
    apply G_upd; [cbn; intros; first [assumption|reflexivity]
                 |cbn; intros ?q ?Hid [?Hq1 ?Hq2]; split; first [assumption|reflexivity]
                 |assumption]
  | |- satG G mp_true (modify _) =>
    apply satG_modify; intros ?s ?Hg; split; [exact I|];
    first [ eapply G_view; [|eassumption]; cbn; destruct_matches; reflexivity
          | eapply G_wiped; [eassumption|cbn; destruct_matches; reflexivity ..] ]
  end.

Lemma G_send_success m l r : satG G mp_true (send_binding_success m l r).
Proof. unfold send_binding_success. satG_split_eq; g_leaf. Qed.

Lemma G_send_request cfg m l r : satG G mp_true (send_binding_request cfg m l r).
Proof. unfold send_binding_request, invalidate_pending. satG_split_eq; g_leaf. Qed.

Lemma G_ping cfg l r : satG G mp_true (ping_candidate cfg l r).
Proof. unfold ping_candidate, fresh_tx. satG_split_eq; try g_leaf; apply G_send_request. Qed.

Lemma G_nominate cfg p : satG G mp_true (nominate_pair cfg p).
Proof. unfold nominate_pair, fresh_tx. satG_split_eq; try g_leaf; apply G_send_request. Qed.

(* ---- controlled side: request carrying a nomination --------------------------------------------------- *)
Lemma G_accept_nomination nv k : (forall ok, satG G mp_true (k ok)) -> satG G mp_true (accept_nomination nv k).
Proof.
  intros Hk. unfold accept_nomination. satG_split_eq; try g_leaf; apply Hk.
Qed.

Lemma G_request_tail cfg id l r :
  satG G mp_true (with_state (fun s => (pair_by_id id s, selected_pair s)) (fun '(op1, osp) =>
           match op1 with
           | None => nop
           | Some p =>
             if negb (cf_lite cfg) &&
                (negb (p_state p =? CandidatePairStateSucceeded)
                 || match osp with None => true | Some _ => false end)
             then ping_candidate cfg l r else nop
           end)).
Proof. satG_split_eq; try g_leaf; apply G_ping. Qed.

Lemma G_request_controlled cfg m l r : satG G mp_true (handle_request_controlled cfg m l r).
Proof.
  unfold handle_request_controlled. apply satG_seq; [satG_split_eq; g_leaf|].
  apply satG_with_state. intros s0 Hg0. destruct (find_pair l r s0) as [p0|]; [|apply satG_nop].
  apply satG_seq; [g_leaf|].
  destruct (m_use m || match m_nom m with Some _ => true | None => false end).
  - apply G_accept_nomination. intros ok. destruct ok; cbn [negb]; [|apply G_send_success].
    apply satG_seq; [destruct (cf_lite cfg); [|apply satG_nop]; g_leaf; cbn; intros; discriminate|].
    apply satG_seq; [|apply satG_seq; [apply G_send_success|apply G_request_tail]].
    (* the selection step: the pair observed is the one in the current state *)
    apply satG_unit. intros s Hs. rewrite with_state_eq.
    destruct (pair_by_id (p_id p0) s) as [p|] eqn:Hp; [|exact Hs].
    destruct (p_state p =? CandidatePairStateSucceeded) eqn:Est.
    + destruct (shouldSwitchSelectedPair _ _ _ _ _ _); [|exact Hs].
      apply set_selected_G; [exact Hs|]. apply pair_by_id_in in Hp. destruct Hp as [Hin Eid].
      exists p. split; [exact Hin|]. split; [exact Eid|]. apply Z.eqb_eq. exact Est.
    + (* deferred: only non-valid pairs with that identifier are touched *)
      rewrite upd_pair_fst. destruct Hs as [Hsv Hu]. split; [|apply InvU_upd; [intros; assumption|exact Hu]].
      unfold InvSV, upd in *. cbn. destruct (s_selected s) as [sid|]; [|exact I].
      destruct Hsv as [q [Hq [Eq Gq]]]. exists q. split; [|split; assumption].
      apply in_map_iff. exists q. split; [|exact Hq].
      destruct (Z.eqb_spec (p_id q) (p_id p0)) as [E|NE]; [|reflexivity].
      exfalso. assert (HS : HasSucc (p_id p0) s) by (exists q; split; [exact Hq|split; [exact E|exact (proj1 Gq)]]).
      rewrite (pair_by_id_succ _ _ _ HS Hu Hp) in Est. discriminate Est.
  - apply satG_seq; [apply G_send_success|apply G_request_tail].
Qed.

(* ---- re-notification of the selected pair; pings; superseding a peer-reflexive remote ------------------ *)
Lemma G_reselect pid : satG G mp_true (reselect pid).
Proof.
  apply satG_unit. intros s Hs. unfold reselect. rewrite with_state_eq.
  destruct (s_selected s) as [id|] eqn:Es; [|exact Hs].
  destruct (id =? pid); [|exact Hs].
  apply set_selected_G; [exact Hs|]. destruct Hs as [Hsv _]. unfold InvSV in Hsv. rewrite Es in Hsv.
  destruct Hsv as [p [Hin [Ep [Gs _]]]]. exists p. auto.
Qed.

(* a pair that is not valid is not the selected one: changing its state keeps the invariant *)
Lemma G_upd_nonvalid id f s p :
  G s -> pair_by_id id s = Some p -> p_state p <> CandidatePairStateSucceeded ->
  (forall q, p_id q = id -> p_id (f q) = id) -> G (upd id f s).
Proof.
  intros [Hsv Hu] Hp Hns Hid. split; [|apply InvU_upd; assumption].
  unfold InvSV, upd in *. cbn. destruct (s_selected s) as [sid|]; [|exact I].
  destruct Hsv as [q [Hq [Eq Gq]]]. exists q. split; [|split; assumption].
  apply in_map_iff. exists q. split; [|exact Hq].
  destruct (Z.eqb_spec (p_id q) id) as [E|NE]; [|reflexivity].
  exfalso. apply Hns. apply (pair_by_id_succ id s p); [|exact Hu|exact Hp].
  exists q. split; [exact Hq|split; [exact E|exact (proj1 Gq)]].
Qed.

Lemma pair_by_id_upd_state id f s p :
  (forall q, p_id (f q) = p_id q) -> pair_by_id id s = Some p -> pair_by_id id (upd id f s) = Some (f p).
Proof.
  intros Hf. unfold pair_by_id, upd. cbn [s_checklist set_s_checklist].
  induction (s_checklist s) as [|q t IH]; cbn [find map]; [discriminate|].
  destruct (Z.eqb_spec (p_id q) id) as [E|NE].
  - intros H. injection H as <-. rewrite Hf, E, Z.eqb_refl. reflexivity.
  - intros H. apply Z.eqb_neq in NE. rewrite NE. exact (IH H).
Qed.

Lemma G_ping_all cfg : satG G mp_true (ping_all cfg).
Proof.
  unfold ping_all. apply satG_with_state. intros s0 _. apply satG_for_each. intros p0.
  apply satG_unit. intros s Hs. rewrite with_state_eq.
  destruct (pair_by_id (p_id p0) s) as [p|] eqn:Hp; [|exact Hs].
  destruct (pair_by_id_in _ _ _ Hp) as [Hin Eid].
  destruct ((p_state p =? CandidatePairStateWaiting) || (p_state p =? CandidatePairStateInProgress)) eqn:Eg; [|exact Hs].
  assert (Hns : p_state p <> CandidatePairStateSucceeded).
  { intros E. rewrite E in Eg. discriminate Eg. }
  rewrite seq_fst.
  (* first step: Waiting -> InProgress *)
  set (s1 := fst ((if p_state p =? CandidatePairStateWaiting
                   then upd_pair (p_id p) (set_p_state CandidatePairStateInProgress) else nop) s)).
  assert (H1 : G s1 /\ exists p', pair_by_id (p_id p) s1 = Some p' /\ p_state p' <> CandidatePairStateSucceeded).
  { unfold s1. destruct (p_state p =? CandidatePairStateWaiting).
    - rewrite upd_pair_fst. split.
      + rewrite <- Eid in Hp. eapply G_upd_nonvalid; [exact Hs|exact Hp|exact Hns|intros; assumption].
      + exists (set_p_state CandidatePairStateInProgress p). split; [|cbn; discriminate].
        rewrite <- Eid in Hp. apply pair_by_id_upd_state; [reflexivity|exact Hp].
    - split; [exact Hs|]. exists p. rewrite Eid. auto. }
  destruct H1 as [H1 [p' [Hp' Hns']]].
  destruct (cf_max_req cfg <? p_reqcount p).
  - rewrite upd_pair_fst. eapply G_upd_nonvalid; [exact H1|exact Hp'|exact Hns'|intros; assumption].
  - rewrite seq_fst, upd_pair_fst. apply G_upd; [intros; assumption|intros q _ Hq; exact Hq|].
    apply unit_satG; [apply G_ping|exact H1].
Qed.

Lemma unique_id s p q : InvU s -> In p (s_checklist s) -> In q (s_checklist s) -> p_id q = p_id p -> q = p.
Proof.
  intros [Hnd _]. revert Hnd. induction (s_checklist s) as [|x t IH]; cbn; intros Hnd Hp Hq E; [contradiction|].
  inversion Hnd as [|? ? Hx Ht]; subst.
  destruct Hq as [<-|Hq]; destruct Hp as [<-|Hp]; try reflexivity.
  - exfalso. apply Hx. apply in_map_iff. exists p. split; [congruence|exact Hp].
  - exfalso. apply Hx. apply in_map_iff. exists q. split; [congruence|exact Hq].
  - apply IH; assumption.
Qed.

Lemma G_upd_in id f s :
  (forall q, p_id q = id -> p_id (f q) = id) ->
  (forall q, In q (s_checklist s) -> p_id q = id -> good q -> good (f q)) -> G s -> G (upd id f s).
Proof.
  intros Hid Hf [Hsv Hu]. split; [|apply InvU_upd; assumption].
  unfold InvSV, upd in *. cbn. destruct (s_selected s) as [sid|]; [|exact I].
  destruct Hsv as [p [Hin [Hp Hg]]].
  exists (if p_id p =? id then f p else p). split; [apply in_map_iff; exists p; auto|].
  destruct (Z.eqb_spec (p_id p) id) as [E|NE]; [split; [rewrite (Hid p E); congruence|apply Hf; assumption]|split; assumption].
Qed.

Lemma upd_keeps_others id f s q : In q (s_checklist s) -> p_id q <> id -> In q (s_checklist (upd id f s)).
Proof.
  intros Hin Hne. unfold upd. cbn. apply in_map_iff. exists q. split; [|exact Hin].
  apply Z.eqb_neq in Hne. rewrite Hne. reflexivity.
Qed.

Lemma update_conn_live_checklist st s : st <> ConnectionStateFailed -> s_checklist (fst (update_conn st s)) = s_checklist s.
Proof.
  intros H. unfold update_conn. destruct (s_conn s =? st); [reflexivity|]. apply Z.eqb_neq in H. rewrite H. reflexivity.
Qed.

Lemma reselect_keeps_others pid s q : In q (s_checklist s) -> p_id q <> pid -> In q (s_checklist (fst (reselect pid s))).
Proof.
  intros Hin Hne. unfold reselect. rewrite with_state_eq. destruct (s_selected s) as [id|]; [|exact Hin].
  destruct (Z.eqb_spec id pid) as [E|NE]; [|exact Hin]. subst id.
  unfold set_selected. rewrite !seq_fst, upd_pair_fst, modify_fst. unfold emit. cbn [fst].
  rewrite update_conn_live_checklist by discriminate. cbn [s_checklist set_s_selected].
  apply upd_keeps_others; assumption.
Qed.

Lemma G_replace_remote old new : satG G mp_true (replace_remote_in_pairs old new).
Proof.
  apply satG_unit. intros s Hs. unfold replace_remote_in_pairs. rewrite with_state_eq.
  set (L := filter (fun p => c_h (p_rem p) =? c_h old) (s_checklist s)).
  assert (HL : Forall (fun p => In p (s_checklist s)) L).
  { rewrite Forall_forall. intros p Hp. apply filter_In in Hp. tauto. }
  assert (HN : NoDup (map p_id L)).
  { destruct Hs as [_ [Hnd _]]. unfold L. clear HL. induction (s_checklist s) as [|x t IH]; cbn; [constructor|].
    inversion Hnd as [|? ? Hx Ht]; subst. destruct (c_h (p_rem x) =? c_h old); cbn; [|apply IH; exact Ht].
    constructor; [|apply IH; exact Ht]. intros Hin. apply Hx. apply in_map_iff in Hin. destruct Hin as [y [Ey Hy]].
    apply filter_In in Hy. apply in_map_iff. exists y. tauto. }
  clearbody L. revert s Hs HL HN. induction L as [|p t IH]; intros s Hs HL HN; cbn [for_each]; [exact Hs|].
  inversion HL as [|? ? Hp Ht]; subst. inversion HN as [|? ? Hnp Hnt]; subst.
  rewrite seq_fst. apply IH; [| |exact Hnt].
  - (* one iteration keeps G *)
    rewrite !seq_fst, upd_pair_fst, modify_fst.
    apply unit_satG; [apply G_reselect|].
    set (repl := set_p_prio_ov (Some (pair_priority p)) (set_p_rem new p)).
    assert (H1 : G (upd (p_id p) (fun _ => repl) s)).
    { apply G_upd_in; [intros; reflexivity| |exact Hs].
      intros q Hq Eq Gq. rewrite (unique_id s p q (proj2 Hs) Hp Hq Eq) in Gq. exact Gq. }
    eapply G_view; [|exact H1]. cbn. destruct_matches; reflexivity.
  - (* the pairs still to be visited are untouched *)
    rewrite Forall_forall in *. intros q Hq.
    assert (Hne : p_id q <> p_id p).
    { intros E. apply Hnp. apply in_map_iff. exists q. auto. }
    rewrite !seq_fst, upd_pair_fst, modify_fst. apply reselect_keeps_others; [|exact Hne].
    match goal with |- In q (s_checklist ?X) =>
      assert (E : s_checklist X = s_checklist (upd (p_id p) (fun _ => set_p_prio_ov (Some (pair_priority p)) (set_p_rem new p)) s))
        by (cbn; destruct_matches; reflexivity); rewrite E end.
    apply upd_keeps_others; [exact (Ht q Hq)|exact Hne].
Qed.

(* ---- every operation ---------------------------------------------------------------------------------- *)
Create HintDb agentcore_sv.
#[export] Hint Unfold seen fresh_tx invalidate_pending retarget_cache copy_activity
  add_remote_body add_remote add_local set_selector check_keepalive contact_controlling
  contact_controlled contact_candidates handle_request_controlling handle_role_conflict
  handle_inbound_request handle_inbound tick accept_data inbound_data do_write conn_write
  conn_write_to_pair conn_read do_start do_set_remote_creds do_restart do_renominate renominate_op do_close step_m
  dispatch_request dispatch_success validate_selected : agentcore_sv.

Lemma G_success_controlling_sat cfg m l r src : satG G mp_true (handle_success_controlling cfg m l r src).
Proof. apply satG_unit. intros s Hs. apply G_success_controlling. exact Hs. Qed.
Lemma G_success_controlled_sat cfg m l r src : satG G mp_true (handle_success_controlled cfg m l r src).
Proof. apply satG_unit. intros s Hs. apply G_success_controlled. exact Hs. Qed.

Ltac g_unit :=
  lazymatch goal with
  | |- satG G mp_true (handle_success_controlling _ _ _ _ _) => apply G_success_controlling_sat
  | |- satG G mp_true (handle_success_controlled _ _ _ _ _) => apply G_success_controlled_sat
  | |- satG G mp_true (handle_request_controlled _ _ _ _) => apply G_request_controlled
  | |- satG G mp_true (reselect _) => apply G_reselect
  | |- satG G mp_true (ping_all _) => apply G_ping_all
  | |- satG G mp_true (replace_remote_in_pairs _ _) => apply G_replace_remote
  | |- satG G mp_true (ping_candidate _ _ _) => apply G_ping
  | |- satG G mp_true (nominate_pair _ _) => apply G_nominate
  | |- satG G mp_true (send_binding_success _ _ _) => apply G_send_success
  | |- satG G mp_true (send_binding_request _ _ _ _) => apply G_send_request
  | |- _ => g_leaf
  end.

Ltac go := autounfold with agentcore_sv; satG_split_eq; try g_unit.
Theorem step_preserves_G cfg o : satG G mp_true (step_m cfg o).
Proof. destruct o; cbn [step_m]; go. Qed.

Corollary step_G cfg s o : G s -> G (fst (step cfg s o)).
Proof. intros H. exact (proj2 (step_preserves_G cfg o s H)). Qed.

Lemma G_init lu lp : G (init lu lp).
Proof. split; [exact I|apply InvU_init]. Qed.

Lemma fold_G cfg ops : forall s (tr : list (list out)), G s ->
  G (fst (fold_left (fun '(s0, tr1) o0 => let '(s'0, os0) := step cfg s0 o0 in (s'0, tr1 ++ [os0])) ops (s, tr))).
Proof.
  induction ops as [|o ops IH]; intros s tr H; cbn [fold_left]; [exact H|].
  pose proof (step_G cfg s o H) as H1. destruct (step cfg s o) as [s' os]. cbn [fst] in H1. apply IH. exact H1.
Qed.

Lemma run_G cfg lu lp ops : G (fst (run cfg lu lp ops)).
Proof. unfold run, run_from. apply fold_G. apply G_init. Qed.

(* C03: in every reachable state the selected pair is listed, valid and nominated *)
Theorem selected_is_validated_and_nominated cfg lu lp ops id :
  s_selected (fst (run cfg lu lp ops)) = Some id ->
  exists p, In p (s_checklist (fst (run cfg lu lp ops))) /\ p_id p = id /\
            p_state p = CandidatePairStateSucceeded /\ p_nominated p = true.
Proof.
  intros Hsel. destruct (run_G cfg lu lp ops) as [Hsv _]. unfold InvSV in Hsv. rewrite Hsel in Hsv. exact Hsv.
Qed.

Lemma ids_unique_and_selected_listed cfg lu lp ops :
  let s := fst (run cfg lu lp ops) in
  InvU s /\ (forall id, s_selected s = Some id -> exists p, In p (s_checklist s) /\ p_id p = id).
Proof.
  intros s. destruct (run_G cfg lu lp ops) as [Hsv Hu]. split; [exact Hu|].
  intros id Hsel. fold s in Hsv. unfold InvSV in Hsv. rewrite Hsel in Hsv. destruct Hsv as [p [Hin [Hid _]]]. exists p. auto.
Qed.
