(* C08, layer C: theorems about the close-protocol model (Model/CloseProto.v) for every reachable
   state, i.e. every schedule, any number of callers, closers and candidates.
   - safety: what holds when a closer has returned; onClose at most once, after the last task;
     no task after the loop observed l.done; Closed is the last notification enqueued;
   - termination: a measure decreases on every step (all runs are finite) and, under the explicit
     environment conditions, some step is always enabled while anything is unfinished (no deadlock):
     every maximal run ends with every called closer returned and every caller released. *)
From Coq Require Import Arith Bool List Lia.
Import ListNotations.
From Ice Require Import Model.PrioSpec Model.CloseProto Proofs.CloseProtoMeasure Proofs.CloseProtoMeasure2
     Proofs.CloseProtoFrames Proofs.CloseProtoInv Proofs.CloseProtoInvStep Proofs.CloseProtoProgress.

Section T.
Variables NA NK NC : nat.
Variable wfree : nat -> bool.
Variable fix_reg : bool.
Notation lstep := (lstep NC wfree fix_reg).
Notation step := (step NC wfree fix_reg).
Notation steps := (steps NC wfree fix_reg).
Notation reach := (reach NC wfree fix_reg).
Notation run := (run NC wfree fix_reg).
Notation Inv := (Inv NC fix_reg).
Notation can_move := (can_move NC wfree fix_reg).
Notation late_ok := (late_ok wfree fix_reg).
Notation measure := (measure NA NK NC).

(* ---- safety ---------------------------------------------------------------------------------- *)

(* what holds once a closer is past <-taskLoopDone (in particular once it has returned) *)
Theorem closer_past_tld s k :
  Inv s -> past_tld (cp s k) = true ->
  tld s = true /\ lp s = LExited /\ done s = true /\ oncloses s = 1 /\
  bufclosed s = true /\ closedq s = true /\ (gp s = GNone \/ gp s = GDone) /\
  (forall c, reg s c = false /\ (rp s c = RNone \/ (rp s c = RExited /\ ioab s c = true))) /\
  (forall i, ap s i = AWait -> tdone s i = true) /\
  (forall i, lp s <> LRun i /\ lp s <> LWrite i).
Proof.
  intros I Hp.
  pose proof (c_ptld _ _ _ I k Hp) as Ht.
  pose proof (b_tld1 _ _ _ I Ht) as Hl.
  assert (Hd : done s = true) by (apply (b_closing _ _ _ I); rewrite Hl; reflexivity).
  split; [exact Ht|]. split; [exact Hl|]. split; [exact Hd|].
  split; [rewrite (b_oncl _ _ _ I), Hl; reflexivity|].
  split; [rewrite (b_buf _ _ _ I), Hl; reflexivity|].
  split; [rewrite (b_enq _ _ _ I), Hl; reflexivity|].
  split; [apply (b_join _ _ _ I); rewrite Hl; reflexivity|].
  split; [|split].
  - intros c.
    assert (Hr : reg s c = false) by (apply (d_alldel _ _ _ I); rewrite Hl; reflexivity).
    split; [exact Hr|]. destruct (rp s c) eqn:Er; [left; reflexivity|right|right|right].
    + assert (Hne : rp s c <> RNone) by congruence. pose proof (d_unreg _ _ _ I c Hne Hr). congruence.
    + assert (Hne : rp s c <> RNone) by congruence. pose proof (d_unreg _ _ _ I c Hne Hr). congruence.
    + split; [reflexivity|]. apply (d_exit _ _ _ I c Er).
  - intros i Hw. destruct (tdone s i) eqn:Etd; [reflexivity|].
    pose proof (a_wait _ _ _ I i Hw Etd) as Hx. rewrite Hl in Hx. discriminate Hx.
  - intros i. rewrite Hl. split; discriminate.
Qed.

Theorem onclose_at_most_once s : Inv s -> oncloses s <= 1.
Proof. intros I. rewrite (b_oncl _ _ _ I). destruct (after_onclose (lp s)); lia. Qed.

(* once the loop has observed l.done no task starts any more, and onClose follows *)
Theorem no_task_after_close_observed s s' :
  Inv s -> step s s' -> closing (lp s) = true -> closing (lp s') = true /\ ntasks s' = ntasks s.
Proof.
  intros I H Hc. step_cases H; simp_goal; open_hosts;
    try (split; [assumption|reflexivity]);
    repeat match goal with
    | H : lp _ = _ |- _ => rewrite H in Hc
    | H : match lp ?s with _ => _ end = true |- _ => destruct (lp s) eqn:?; try discriminate H
    end; try discriminate Hc; cbn [closing] in *; try (split; [assumption|reflexivity]);
    try (split; reflexivity).
  all: try (exfalso; match goal with
       | Ha : ap ?s ?i = _, Hh : khost (akind ?s ?i) = HTask _ |- _ =>
           assert (Hne : ap s i <> AIdle) by congruence;
           pose proof (a_hostok _ _ _ I i Hne) as Hx; rewrite Hh in Hx; discriminate Hx
       | Hk : cp ?s ?k = CDone, Hh : chost ?s ?k = HTask ?i |- _ =>
           destruct (e_lhost _ _ _ I k i) as [Hx _]; [rewrite Hk; reflexivity|exact Hh|];
           rewrite Hx in Hc; discriminate Hc
       | Hf : host_free ?s (HTask ?i) = true |- _ =>
           cbn [host_free] in Hf; destruct (lp s); try discriminate Hf; discriminate Hc
       end).
Qed.

(* Closed is the last notification: once it is enqueued the queue only drains *)
Theorem closed_is_last_enqueued s s' :
  Inv s -> step s s' -> closedq s = true -> nq s' <= nq s /\ closedq s' = true.
Proof.
  intros I H Hq. rewrite (b_enq _ _ _ I) in Hq.
  step_cases H; simp_goal; open_hosts;
    repeat match goal with
    | H : lp _ = _ |- _ => rewrite H in Hq
    | H : match lp ?s with _ => _ end = true |- _ => destruct (lp s) eqn:?; try discriminate H
    end; try discriminate Hq; cbn [after_enq] in *;
    try (split; [lia|rewrite (b_enq _ _ _ I); first [assumption | rewrite_strat (topdown (hints frames)); assumption | idtac]]).
  all: try (split; [lia|]); try (rewrite (b_enq _ _ _ I)); try assumption; try reflexivity;
       repeat match goal with H : lp _ = _ |- _ => rewrite H end; try reflexivity.
Qed.

(* ---- termination ------------------------------------------------------------------------------ *)
Definition bounded2 (s : state) : Prop :=
  (forall i, NA <= i -> ap s i = AIdle) /\ (forall k, NK <= k -> cp s k = CIdle).

Lemma bounded_of s : Inv s -> bounded2 s -> bounded NA NK NC s.
Proof.
  intros I [B1 B2]. split; [exact B1|split; [exact B2|]].
  intros c Hc. destruct (rp s c) eqn:Er; [reflexivity| | |];
    (assert (Hne : rp s c <> RNone) by congruence; pose proof (d_bound _ _ _ I c Hne); lia).
Qed.

Lemma bounded2_init g0 : bounded2 (init g0).
Proof. split; intros; reflexivity. Qed.

Lemma bounded2_step s s' l :
  bounded2 s -> label_ok NA NK l -> lstep l s = Some s' -> bounded2 s'.
Proof.
  intros [B1 B2] Hl H. destruct l.
  all: cbn [CloseProto.lstep] in H; brk H; bool_hyps; try (injection H as <-); subst.
  all: split; intros ?x ?Hx; simp_goal; open_hosts; rewrite ?fr_ap_enqueue, ?fr_cp_enqueue; unfold upd;
       repeat match goal with |- context [Nat.eqb ?a ?b] => destruct (Nat.eqb_spec a b); subst end;
       auto; try (cbn in Hl; lia);
       try (exfalso; match goal with
            | H : ap _ ?i = _ |- _ => rewrite (B1 i) in H by lia; discriminate H
            | H : cp _ ?k = _ |- _ => rewrite (B2 k) in H by lia; discriminate H
            end).
Qed.

Theorem measure_decreases s s' l :
  Inv s -> bounded2 s -> label_ok NA NK l -> lstep l s = Some s' -> measure s' < measure s.
Proof.
  intros I B Hl H. apply (measure_step NA NK NC wfree fix_reg s s' l); [apply bounded_of; assumption| |exact Hl|exact H].
  split.
  - intros i Hf. destruct (a_task _ _ _ I i) as [Ha [Htd _]]; [rewrite Hf; reflexivity|]. split; assumption.
  - intros k i Hc Hh. destruct (e_lhost _ _ _ I k i) as [Hx _]; [rewrite Hc; reflexivity|exact Hh|exact Hx].
Qed.

(* every run is finite: a run of n steps needs a measure of at least n *)
Theorem runs_are_finite ls : forall s s',
  Inv s -> bounded2 s -> Forall (label_ok NA NK) ls -> run ls s = Some s' -> length ls + measure s' <= measure s.
Proof.
  induction ls as [|l ls IH]; intros s s' I B Hall Hr.
  - cbn in Hr. injection Hr as <-. cbn. lia.
  - cbn in Hr. destruct (lstep l s) as [s1|] eqn:E; [|discriminate Hr].
    inversion Hall as [|? ? Hl Hls]; subst.
    pose proof (measure_decreases s s1 l I B Hl E) as Hm.
    assert (I1 : Inv s1) by (eapply inv_step; [exact I|exists l; exact E]).
    pose proof (bounded2_step s s1 l B Hl E) as B1.
    specialize (IH s1 s' I1 B1 Hls Hr). cbn [length]. lia.
Qed.

(* ---- no deadlock ------------------------------------------------------------------------------ *)
Theorem reach_inv g0 s : reach g0 s -> Inv s.
Proof. apply inv_reach. Qed.

Theorem no_deadlock g0 s :
  reach g0 s -> ok_hosts s -> late_ok s ->
  (exists k, cp s k <> CIdle) ->
  (exists k, cactive (cp s k) = true) \/ (exists i, active (ap s i) = true) ->
  can_move s.
Proof. intros H. apply progress. apply (inv_reach _ _ _ _ _ H). Qed.

(* a state in which nothing but new calls can happen is a finished one *)
Corollary stuck_is_finished g0 s :
  reach g0 s -> ok_hosts s -> late_ok s -> (exists k, cp s k <> CIdle) -> ~ can_move s ->
  (forall k, cp s k = CIdle \/ cp s k = CRet) /\ (forall i, active (ap s i) = false).
Proof.
  intros H HH HL Hk Hn. split.
  - intros k. destruct (cactive (cp s k)) eqn:E.
    + elim Hn. apply (no_deadlock g0 s H HH HL Hk). left. exists k. exact E.
    + destruct (cp s k); cbn in E; try discriminate E; auto.
  - intros i. destruct (active (ap s i)) eqn:E; [|reflexivity].
    elim Hn. apply (no_deadlock g0 s H HH HL Hk). right. exists i. exact E.
Qed.

(* ---- the same for reachable states, and runs from the initial state ------------------------------ *)
Lemma steps_trans s1 s2 s3 : steps s1 s2 -> steps s2 s3 -> steps s1 s3.
Proof. intros H1 H2. induction H2; [exact H1|]. eapply steps_step; [apply IHsteps; exact H1|eassumption]. Qed.

Lemma run_steps ls : forall s s', run ls s = Some s' -> steps s s'.
Proof.
  induction ls as [|l ls IH]; intros s s' H; cbn in H.
  - injection H as <-. apply steps_refl.
  - destruct (lstep l s) as [s1|] eqn:E; [|discriminate H].
    eapply steps_trans; [|apply IH; exact H].
    eapply steps_step; [apply steps_refl|exists l; exact E].
Qed.

Theorem run_reach g0 ls s : run ls (init g0) = Some s -> reach g0 s.
Proof. apply run_steps. Qed.

Theorem reach_closer_past_tld g0 s k :
  reach g0 s -> past_tld (cp s k) = true ->
  tld s = true /\ lp s = LExited /\ done s = true /\ oncloses s = 1 /\
  bufclosed s = true /\ closedq s = true /\ (gp s = GNone \/ gp s = GDone) /\
  (forall c, reg s c = false /\ (rp s c = RNone \/ (rp s c = RExited /\ ioab s c = true))) /\
  (forall i, ap s i = AWait -> tdone s i = true) /\
  (forall i, lp s <> LRun i /\ lp s <> LWrite i).
Proof. intros H. apply closer_past_tld. apply (inv_reach _ _ _ _ _ H). Qed.

Theorem reach_onclose_at_most_once g0 s : reach g0 s -> oncloses s <= 1.
Proof. intros H. apply onclose_at_most_once. apply (inv_reach _ _ _ _ _ H). Qed.

Theorem reach_no_task_after_close_observed g0 s s' :
  reach g0 s -> step s s' -> closing (lp s) = true -> closing (lp s') = true /\ ntasks s' = ntasks s.
Proof. intros H. apply no_task_after_close_observed. apply (inv_reach _ _ _ _ _ H). Qed.

Theorem reach_closed_is_last_enqueued g0 s s' :
  reach g0 s -> step s s' -> closedq s = true -> nq s' <= nq s /\ closedq s' = true.
Proof. intros H. apply closed_is_last_enqueued. apply (inv_reach _ _ _ _ _ H). Qed.

(* every run from the initial state that uses callers 0..NA-1 and closers 0..NK-1 has at most
   [measure (init g0)] steps, whatever the schedule *)
Theorem runs_from_init_are_finite g0 ls s :
  Forall (label_ok NA NK) ls -> run ls (init g0) = Some s -> length ls + measure s <= measure (init g0).
Proof.
  intros Hall Hr. apply (runs_are_finite ls (init g0) s); [apply (inv_init NC wfree fix_reg)|apply bounded2_init|exact Hall|exact Hr].
Qed.

End T.
