(* Compositional reasoning about the agent-core monad.  A "step relation" (mprop) relates the
   state before, the outputs and the state after of a computation, holds of doing nothing and is
   closed under sequencing.  [sat P f] says every run of f satisfies P; it is proved by decomposing
   f along the combinators it is built from (all of AgentCore is) down to obligations about the
   primitive updates.  Frame properties, invariants and output predicates are all instances. *)
From Coq Require Import ZArith Bool List Lia.
From Ice Require Import Model.AgentTypes Model.AgentCore Gen.Consts.
Import ListNotations.
Local Open Scope Z_scope.

Record mprop := MProp {
  mp_rel :> state -> list out -> state -> Prop;
  mp_refl : forall s, mp_rel s [] s;
  mp_trans : forall s o1 s1 o2 s2, mp_rel s o1 s1 -> mp_rel s1 o2 s2 -> mp_rel s (o1 ++ o2) s2
}.

Definition sat (P : mprop) (f : M) : Prop := forall s, P s (snd (f s)) (fst (f s)).

Lemma sat_nop P : sat P nop.
Proof. intros s. apply mp_refl. Qed.

Lemma sat_seq P f g : sat P f -> sat P g -> sat P (f ;; g).
Proof.
  intros Hf Hg s. unfold seq. specialize (Hf s). destruct (f s) as [s1 o1].
  specialize (Hg s1). destruct (g s1) as [s2 o2]. cbn [fst snd] in *. eapply mp_trans; eassumption.
Qed.

Lemma sat_with_state P A (q : state -> A) (k : A -> M) : (forall a, sat P (k a)) -> sat P (with_state q k).
Proof. intros H s. apply H. Qed.

(* the value handed to the continuation is the observation of SOME state *)
Lemma sat_with_state_val P A (q : state -> A) (k : A -> M) :
  (forall s0, sat P (k (q s0))) -> sat P (with_state q k).
Proof. intros H s. apply (H s s). Qed.

Lemma sat_for_each P A (l : list A) (k : A -> M) : (forall a, sat P (k a)) -> sat P (for_each l k).
Proof.
  intros H. induction l as [|x t IH]; cbn [for_each]; [apply sat_nop|apply sat_seq; [apply H|exact IH]].
Qed.

Lemma sat_modify (P : mprop) f : (forall s, P s [] (f s)) -> sat P (modify f).
Proof. intros H s. apply H. Qed.

Lemma sat_emit (P : mprop) o : (forall s, P s [o] s) -> sat P (emit o).
Proof. intros H s. apply H. Qed.

Lemma sat_upd_pair (P : mprop) id f :
  (forall s, P s [] (set_s_checklist (map (fun p => if p_id p =? id then f p else p) (s_checklist s)) s)) ->
  sat P (upd_pair id f).
Proof. intros H. unfold upd_pair. apply sat_modify. exact H. Qed.

(* conjunction of step relations *)
Definition mp_and (P Q : mprop) : mprop.
Proof.
  refine (MProp (fun s o s' => P s o s' /\ Q s o s') _ _).
  - intros s. split; apply mp_refl.
  - intros s o1 s1 o2 s2 [H1 H2] [H3 H4]. split; eapply mp_trans; eassumption.
Defined.

Lemma sat_and P Q f : sat P f -> sat Q f -> sat (mp_and P Q) f.
Proof. intros HP HQ s. split; [apply HP|apply HQ]. Qed.

(* ---- instances --------------------------------------------------------------------------- *)

(* frame: an observation of the state is unchanged *)
Definition frame {A} (g : state -> A) : mprop.
Proof.
  refine (MProp (fun s _ s' => g s' = g s) _ _).
  - reflexivity.
  - intros; congruence.
Defined.

(* the outputs all satisfy a predicate *)
Definition outs_all (Q : out -> Prop) : mprop.
Proof.
  refine (MProp (fun _ o _ => Forall Q o) _ _).
  - intros; constructor.
  - intros. apply Forall_app; split; assumption.
Defined.

(* no output *)
Definition silent : mprop.
Proof.
  refine (MProp (fun _ o _ => o = []) _ _).
  - reflexivity.
  - intros; subst; reflexivity.
Defined.

(* an invariant is preserved *)
Definition preserves (I : state -> Prop) : mprop.
Proof.
  refine (MProp (fun s _ s' => I s -> I s') _ _).
  - auto.
  - auto.
Defined.

(* a quantity never decreases *)
Definition monotone (g : state -> Z) : mprop.
Proof.
  refine (MProp (fun s _ s' => g s <= g s') _ _).
  - intros; lia.
  - intros; lia.
Defined.

(* ---- decomposition tactic -------------------------------------------------------------------
   Unfolds every definition of AgentCore down to the combinators and splits [sat] goals. *)
Create HintDb agentcore.
Create HintDb agentcore_sel.
Create HintDb agentcore_val.
#[export] Hint Unfold seen fresh_tx invalidate_pending send_binding_request ping_candidate
  nominate_pair send_binding_success add_pair replace_remote_in_pairs retarget_cache copy_activity
  add_remote_body add_remote add_local set_selector ping_all check_keepalive contact_controlling
  contact_controlled contact_candidates handle_request_controlling handle_success_controlling
  handle_success_controlled accept_nomination handle_request_controlled handle_role_conflict
  handle_inbound_request handle_inbound tick accept_data inbound_data do_write conn_write
  conn_write_to_pair conn_read do_start do_set_remote_creds do_restart do_renominate renominate_op do_close step_m
  : agentcore agentcore_sel agentcore_val agentcore_role.
(* agentcore_role keeps the role dispatchers folded; agentcore_sel keeps set_selected / reselect folded (they are atomic for selection invariants);
   agentcore_val additionally keeps validate_selected folded *)
#[export] Hint Unfold set_selected reselect : agentcore.
#[export] Hint Unfold dispatch_request dispatch_success : agentcore agentcore_sel agentcore_val.
Create HintDb agentcore_role.
#[export] Hint Unfold validate_selected : agentcore agentcore_sel agentcore_role.
#[export] Hint Unfold set_selected reselect : agentcore_role.

Ltac sat_split :=
  repeat match goal with
  | |- sat _ nop => apply sat_nop
  | |- sat _ (seq _ _) => apply sat_seq
  | |- sat _ (with_state _ _) => apply sat_with_state_val; intros ?s0
  | |- sat _ (for_each _ _) => apply sat_for_each; intros
  | |- sat _ (if ?b then _ else _) => destruct b
  | |- sat _ (match ?x with _ => _ end) => destruct x
  | |- sat _ (let '(_, _) := ?x in _) => destruct x
  end.

Ltac sat_decompose := autounfold with agentcore; sat_split.
Ltac sat_decompose_sel := autounfold with agentcore_sel; sat_split.
Ltac sat_decompose_val := autounfold with agentcore_val; sat_split.
Ltac sat_decompose_role := autounfold with agentcore_role; sat_split.

(* closing the base obligations: after decomposition every goal is about one primitive *)
Ltac destruct_matches :=
  repeat match goal with
  | |- context [match ?x with _ => _ end] => destruct x
  | |- context [if ?x then _ else _] => destruct x
  end.

Ltac sat_base tac :=
  match goal with
  | |- sat _ (modify _) => apply sat_modify; intros ?s; tac
  | |- sat _ (emit _) => apply sat_emit; intros ?s; tac
  | |- sat _ (upd_pair _ _) => apply sat_upd_pair; intros ?s; tac
  end.

(* frame obligations are closed by computation *)
Ltac frame_tac := cbn; destruct_matches; reflexivity.

Lemma update_conn_frame {A} (g : state -> A) st :
  (forall s, g (set_s_conn st s) = g s) ->
  (forall s, g (set_s_conn st (wipe_failed s)) = g s) ->
  sat (frame g) (update_conn st).
Proof.
  intros H1 H2 s. unfold update_conn. cbn.
  destruct (s_conn s =? st); [reflexivity|]. destruct (st =? ConnectionStateFailed); cbn; auto.
Qed.

(* ---- reasoning under a state predicate that holds throughout a computation ------------------------
   [satG G P f]: from every state satisfying G, f satisfies P and re-establishes G.  The value handed
   to a with_state continuation is then the observation of a state SATISFYING G, which is what makes
   guards usable ("the role is controlling here"). *)
Definition satG (G : state -> Prop) (P : mprop) (f : M) : Prop :=
  forall s, G s -> P s (snd (f s)) (fst (f s)) /\ G (fst (f s)).

Lemma satG_nop (G : state -> Prop) (P : mprop) : satG G P nop.
Proof. intros s H. split; [apply mp_refl|exact H]. Qed.

Lemma satG_seq (G : state -> Prop) (P : mprop) f g : satG G P f -> satG G P g -> satG G P (f ;; g).
Proof.
  intros Hf Hg s H. unfold seq. destruct (Hf s H) as [H1 H2]. destruct (f s) as [s1 o1].
  cbn [fst snd] in *. destruct (Hg s1 H2) as [H3 H4]. destruct (g s1) as [s2 o2]. cbn [fst snd] in *.
  split; [eapply mp_trans; eassumption|exact H4].
Qed.

Lemma satG_with_state (G : state -> Prop) (P : mprop) A (q : state -> A) (k : A -> M) :
  (forall s0, G s0 -> satG G P (k (q s0))) -> satG G P (with_state q k).
Proof. intros H s Hs. apply (H s Hs s Hs). Qed.

Lemma satG_for_each (G : state -> Prop) (P : mprop) A (l : list A) (k : A -> M) : (forall a, satG G P (k a)) -> satG G P (for_each l k).
Proof.
  intros H. induction l as [|x t IH]; cbn [for_each]; [apply satG_nop|apply satG_seq; [apply H|exact IH]].
Qed.

Lemma satG_modify (G : state -> Prop) (P : mprop) f : (forall s, G s -> P s [] (f s) /\ G (f s)) -> satG G P (modify f).
Proof. intros H s Hs. apply H. exact Hs. Qed.

Lemma satG_emit (G : state -> Prop) (P : mprop) o : (forall s, G s -> P s [o] s) -> satG G P (emit o).
Proof. intros H s Hs. split; [apply H; exact Hs|exact Hs]. Qed.

Lemma satG_upd_pair (G : state -> Prop) (P : mprop) id f :
  (forall s, G s -> let s' := set_s_checklist (map (fun p => if p_id p =? id then f p else p) (s_checklist s)) s in
                    P s [] s' /\ G s') -> satG G P (upd_pair id f).
Proof. intros H. unfold upd_pair. apply satG_modify. exact H. Qed.

Lemma satG_of_sat (G : state -> Prop) (P : mprop) f : sat P f -> sat (preserves G) f -> satG G P f.
Proof. intros H1 H2 s Hs. split; [apply H1|apply (H2 s Hs)]. Qed.

Ltac satG_split :=
  repeat match goal with
  | |- satG _ _ nop => apply satG_nop
  | |- satG _ _ (seq _ _) => apply satG_seq
  | |- satG _ _ (with_state _ _) => apply satG_with_state; intros ?s0 ?Hg0
  | |- satG _ _ (for_each _ _) => apply satG_for_each; intros
  | |- satG _ _ (if ?b then _ else _) => destruct b
  | |- satG _ _ (match ?x with _ => _ end) => destruct x
  | |- satG _ _ (let '(_, _) := ?x in _) => destruct x
  end.

Ltac satG_decompose := autounfold with agentcore; satG_split.

Ltac satG_base tac :=
  match goal with
  | |- satG _ _ (modify _) => apply satG_modify; intros ?s ?Hg; tac
  | |- satG _ _ (emit _) => apply satG_emit; intros ?s ?Hg; tac
  | |- satG _ _ (upd_pair _ _) => apply satG_upd_pair; intros ?s ?Hg; tac
  end.

(* the trivial step relation, and a for_each rule that remembers membership *)
Definition mp_true : mprop.
Proof. refine (MProp (fun _ _ _ => True) _ _); auto. Defined.

Lemma satG_for_each_in (G : state -> Prop) (P : mprop) A (l : list A) (k : A -> M) :
  (forall a, In a l -> satG G P (k a)) -> satG G P (for_each l k).
Proof.
  intros H. induction l as [|x t IH]; cbn [for_each]; [apply satG_nop|].
  apply satG_seq; [apply H; left; reflexivity|apply IH; intros a Ha; apply H; right; exact Ha].
Qed.

Ltac satG_split_eq :=
  repeat match goal with
  | |- satG _ _ nop => apply satG_nop
  | |- satG _ _ (seq _ _) => apply satG_seq
  | |- satG _ _ (with_state _ _) => apply satG_with_state; intros ?s0 ?Hg0
  | |- satG _ _ (for_each _ _) => apply satG_for_each_in; intros ?a ?Hin
  | |- satG _ _ (if ?b then _ else _) => destruct b eqn:?
  | |- satG _ _ (match ?x with _ => _ end) => destruct x eqn:?
  | |- satG _ _ (let '(_, _) := ?x in _) => destruct x eqn:?
  end.

Ltac sat_split_eq :=
  repeat match goal with
  | |- sat _ nop => apply sat_nop
  | |- sat _ (seq _ _) => apply sat_seq
  | |- sat _ (with_state _ _) => apply sat_with_state_val; intros ?s0
  | |- sat _ (for_each _ _) => apply sat_for_each; intros
  | |- sat _ (if ?b then _ else _) => destruct b eqn:?
  | |- sat _ (match ?x with _ => _ end) => destruct x eqn:?
  | |- sat _ (let '(_, _) := ?x in _) => destruct x eqn:?
  end.
