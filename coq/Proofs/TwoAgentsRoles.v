(* C05 at the level of two agents and the network between them: two agents started in the same role
   with distinct tie-breakers end in opposite roles under every message ordering.

   The agent that RFC 8445 7.3.1.1 lets keep its role (the "keeper": the greater tie-breaker when both
   are controlling, the smaller when both are controlled) never changes role, under any schedule of API
   calls, ticks, deliveries, losses and duplications; the other one changes role at most once, never
   back; and the delivery of any authentic check of the keeper to the other while it still has the
   common role switches it.  *)
From Coq Require Import ZArith Bool List Lia.
From Ice Require Import Model.AgentTypes Model.AgentCore Model.PairMonitor Model.TwoAgents Gen.Consts
  Proofs.AgentFrame Proofs.AgentC02 Proofs.AgentC05 Proofs.TwoAgentsProofs.
Import ListNotations.
Local Open Scope Z_scope.

(* the rule of handleRoleConflict, as a function of the common role and the two tie-breakers *)
Definition keeps (r : bool) (own their : Z) : bool :=
  (r && (their <=? own)) || (negb r && negb (their <=? own)).

Lemma keeps_antisym r a b : a <> b -> keeps r a b = negb (keeps r b a).
Proof.
  intros H. unfold keeps. destruct r; cbn [andb orb negb];
    destruct (Z.leb_spec b a), (Z.leb_spec a b); cbn; try reflexivity; lia.
Qed.

Lemma keeps_role_keeps cfg s tb : keeps_role cfg s tb = keeps (s_ctl s) (cf_tiebreaker cfg) tb.
Proof.
  unfold keeps_role, keeps. destruct (s_ctl s); cbn [andb orb negb]; [reflexivity|].
  destruct (Z.leb_spec tb (cf_tiebreaker cfg)), (Z.ltb_spec (cf_tiebreaker cfg) tb); cbn; try reflexivity; lia.
Qed.

(* ---- one agent ---------------------------------------------------------------------------------------- *)
(* what the ICE-CONTROLLING / ICE-CONTROLLED attribute of a written message says *)
Definition msg_carries (r : bool) (tb : Z) (m : msg) : Prop :=
  match m_ctl m with Some (c, t) => c = r /\ t = tb | None => True end.
Definition msg_carries_tb (tb : Z) (m : msg) : Prop :=
  match m_ctl m with Some (_, t) => t = tb | None => True end.
Definition carries (r : bool) (tb : Z) (o : out) : Prop :=
  match o with OSend _ _ m => msg_carries r tb m | _ => True end.
Definition carries_tb (tb : Z) (o : out) : Prop :=
  match o with OSend _ _ m => msg_carries_tb tb m | _ => True end.

(* a started agent in role r *)
Definition GK (r : bool) (s : state) : Prop := s_ctl s = r /\ s_started s = true.

(* the operation is not a request that carries the agent's role r with a tie-breaker that makes it yield *)
Definition in_ok (r : bool) (cfg : config) (o : op) : Prop :=
  match o with
  | InStun _ _ m =>
    match m_ctl m with Some (c, t) => c = r -> keeps r (cf_tiebreaker cfg) t = true | None => True end
  | _ => True
  end.

Lemma update_conn_GK r st : satG (GK r) mp_true (update_conn st).
Proof.
  intros s [H1 H2]. split; [exact I|]. unfold update_conn, GK. cbn.
  destruct (s_conn s =? st); cbn; [auto|]. destruct (st =? ConnectionStateFailed); cbn; auto.
Qed.

Lemma update_conn_GK_outs r (Q : out -> Prop) st :
  Q (OState st) -> satG (GK r) (outs_all Q) (update_conn st).
Proof.
  intros HQ s H. split; [exact (update_conn_outs_all Q st HQ s)|exact (proj2 (update_conn_GK r st s H))].
Qed.

Ltac gk_leaf :=
  cbn; unfold GK in *; cbn;
  repeat match goal with H : _ /\ _ |- _ => destruct H end;
  try (split; [try exact I; repeat constructor|]);
  cbn; destruct_matches; cbn; auto.

(* An agent in role r that is handed only operations [in_ok] keeps role r, and every message it writes
   that has a role attribute says (r, own tie-breaker). *)
Lemma role_stable r cfg o :
  in_ok r cfg o -> satG (GK r) (outs_all (carries r (cf_tiebreaker cfg))) (step_m cfg o).
Proof.
  intros Hok. destruct o; cbn [step_m]; autounfold with agentcore; satG_split_eq.
  all: try (apply update_conn_GK_outs; exact I).
  all: try (apply satG_emit; intros ?s ?Hg; cbn; (constructor; [|constructor]); cbn; unfold msg_carries; cbn; try exact I;
            unfold GK in *; split; [intuition congruence|reflexivity]).
  all: try (apply satG_emit; intros ?s ?Hg; cbn; (constructor; [|constructor]); cbn; unfold msg_carries; cbn;
     exact I).
  all: try (first [apply satG_modify|apply satG_upd_pair]; intros ?s [? ?]; split; [constructor|]; unfold GK; cbn;
            destruct_matches; cbn; split; assumption).
  1: { exfalso. destruct Hg0 as [_ Hg0]. congruence. }
  all: exfalso; cbn [in_ok] in Hok;
    match goal with H : m_ctl _ = Some _ |- _ => rewrite H in Hok end;
    repeat match goal with H : GK _ _ |- _ => destruct H as [? _] end;
    match goal with Hb : eqb ?b (s_ctl ?s3) = true, E3 : s_ctl ?s3 = _ |- _ => apply eqb_prop in Hb; rewrite E3 in Hb; specialize (Hok Hb) end;
    match goal with Hf : s_ctl ?s4 && _ || _ = false, E4 : s_ctl ?s4 = _ |- _ => rewrite E4 in Hf end;
    unfold keeps in Hok; congruence.
Qed.

(* Whatever an agent does, the tie-breaker in its messages is its own, and a started agent stays started. *)
Definition GS (s : state) : Prop := s_started s = true.

Lemma update_conn_GS (Q : out -> Prop) st : Q (OState st) -> satG GS (outs_all Q) (update_conn st).
Proof.
  intros HQ s H. split; [exact (update_conn_outs_all Q st HQ s)|].
  unfold update_conn, GS in *. cbn.
  destruct (s_conn s =? st); cbn; [auto|]. destruct (st =? ConnectionStateFailed); cbn; auto.
Qed.

Lemma own_tiebreaker cfg o : satG GS (outs_all (carries_tb (cf_tiebreaker cfg))) (step_m cfg o).
Proof.
  destruct o; cbn [step_m]; autounfold with agentcore; satG_split_eq.
  all: try (apply update_conn_GS; exact I).
  all: try (apply satG_emit; intros ?s ?Hg; cbn; (constructor; [|constructor]); cbn; unfold msg_carries_tb; cbn;
     first [exact I|reflexivity]).
  all: try (first [apply satG_modify|apply satG_upd_pair]; intros ?s ?Hs; split; [constructor|]; unfold GS in *; cbn;
            destruct_matches; cbn; first [assumption|reflexivity]).
Qed.

(* ---- the two agents ----------------------------------------------------------------------------------- *)
Section System.
Variables (cfga cfgb : config) (t : topology).
Variable r : bool.          (* the role both agents were started in *)

Definition agent_of (a : bool) (sy : sys) : state := if a then sy_a sy else sy_b sy.
Definition cfg_of (a : bool) : config := if a then cfga else cfgb.
Definition tbK (ka : bool) := cf_tiebreaker (cfg_of ka).
Definition tbO (ka : bool) := cf_tiebreaker (cfg_of (negb ka)).

(* a datagram towards the keeper was written by the other agent, and conversely *)
Definition flight_roles (ka : bool) (f : flight) : Prop :=
  if Bool.eqb (f_to_a f) ka then msg_carries_tb (tbO ka) (f_msg f) else msg_carries r (tbK ka) (f_msg f).

Definition RoleInv (ka : bool) (sy : sys) : Prop :=
  GK r (agent_of ka sy) /\ GS (agent_of (negb ka) sy) /\ Forall (flight_roles ka) (sy_net sy).

Lemma route_one_msg from_a lh dst m f : In f (route_one t from_a lh dst m) -> f_msg f = m /\ f_to_a f = negb from_a.
Proof.
  unfold route_one. destruct (index_of _ _ _); [|intros []]. destruct (index_of_pub _ _ _); [|intros []].
  match goal with |- In _ (if ?b then _ else _) -> _ => destruct b end; [|intros []]. intros [E|[]]. subst f. split; reflexivity.
Qed.

Lemma route_roles from_a (Q : msg -> Prop) outs :
  Forall (fun o => match o with OSend _ _ m => Q m | _ => True end) outs ->
  Forall (fun f => Q (f_msg f) /\ f_to_a f = negb from_a) (route t from_a outs).
Proof.
  intros H. apply Forall_forall. intros f Hf. unfold route in Hf. apply in_flat_map in Hf.
  destruct Hf as [o [Ho Hf]]. rewrite Forall_forall in H. specialize (H o Ho).
  destruct o; try contradiction. apply route_one_msg in Hf. destruct Hf as [E1 E2]. rewrite E1. split; assumption.
Qed.

(* the keeper has the tie-breaker that lets it keep the common role *)

Lemma keeper_in_ok ka lh src m : keeps r (tbK ka) (tbO ka) = true -> msg_carries_tb (tbO ka) m -> in_ok r (cfg_of ka) (InStun lh src m).
Proof.
  intros Hk. unfold msg_carries_tb, in_ok. destruct (m_ctl m) as [[c tb]|]; [|auto]. intros E _. subst tb. exact Hk.
Qed.

Lemma api_in_ok r' cfg o : is_inbound o = false -> in_ok r' cfg o.
Proof. destruct o; cbn; intros H; try discriminate H; exact I. Qed.

Lemma indata_in_ok r' cfg lh src p : in_ok r' cfg (InData lh src p).
Proof. exact I. Qed.

(* one step of the keeper *)
Lemma keeper_step ka sy o :
  in_ok r (cfg_of ka) o -> RoleInv ka sy ->
  RoleInv ka (agent_step cfga cfgb t ka o sy).
Proof.
  intros Hok [HK [HO HN]]. pose proof (role_stable r (cfg_of ka) o Hok (agent_of ka sy) HK) as [Hout HK'].
  unfold agent_step. unfold agent_of, cfg_of, step in *.
  destruct ka; cbn [negb] in *.
  - destruct (step_m cfga o (sy_a sy)) as [s' outs]. cbn [fst snd sy_a sy_b sy_net] in *.
    split; [exact HK'|split; [exact HO|]]. apply Forall_app. split; [exact HN|].
    cbn in Hout. pose proof (route_roles true (msg_carries r (tbK true)) outs Hout) as HR.
    eapply Forall_impl; [|exact HR]. intros f [H1 H2]. unfold flight_roles. rewrite H2. exact H1.
  - destruct (step_m cfgb o (sy_b sy)) as [s' outs]. cbn [fst snd sy_a sy_b sy_net] in *.
    split; [exact HK'|split; [exact HO|]]. apply Forall_app. split; [exact HN|].
    cbn in Hout. pose proof (route_roles false (msg_carries r (tbK false)) outs Hout) as HR.
    eapply Forall_impl; [|exact HR]. intros f [H1 H2]. unfold flight_roles. rewrite H2. exact H1.
Qed.

(* one step of the other agent *)
Lemma other_step ka sy o :
  RoleInv ka sy -> RoleInv ka (agent_step cfga cfgb t (negb ka) o sy).
Proof.
  intros [HK [HO HN]]. pose proof (own_tiebreaker (cfg_of (negb ka)) o (agent_of (negb ka) sy) HO) as [Hout HO'].
  unfold agent_step. unfold agent_of, cfg_of, step in *.
  destruct ka; cbn [negb] in *.
  - destruct (step_m cfgb o (sy_b sy)) as [s' outs]. cbn [fst snd sy_a sy_b sy_net] in *.
    split; [exact HK|split; [exact HO'|]]. apply Forall_app. split; [exact HN|].
    cbn in Hout. pose proof (route_roles false (msg_carries_tb (tbO true)) outs Hout) as HR.
    eapply Forall_impl; [|exact HR]. intros f [H1 H2]. unfold flight_roles. rewrite H2. exact H1.
  - destruct (step_m cfga o (sy_a sy)) as [s' outs]. cbn [fst snd sy_a sy_b sy_net] in *.
    split; [exact HK|split; [exact HO'|]]. apply Forall_app. split; [exact HN|].
    cbn in Hout. pose proof (route_roles true (msg_carries_tb (tbO false)) outs Hout) as HR.
    eapply Forall_impl; [|exact HR]. intros f [H1 H2]. unfold flight_roles. rewrite H2. exact H1.
Qed.

Lemma agent_step_cases (ka on_a : bool) :
  (on_a = ka \/ on_a = negb ka).
Proof. destruct on_a, ka; auto. Qed.

Lemma RoleInv_net ka sy net' :
  RoleInv ka sy -> Forall (flight_roles ka) net' -> RoleInv ka (mkSys (sy_a sy) (sy_b sy) net').
Proof. intros [HK [HO _]] H. split; [|split]; [destruct ka; exact HK|destruct ka; exact HO|exact H]. Qed.

Theorem sys_step_preserves_RoleInv ka sy o : keeps r (tbK ka) (tbO ka) = true -> RoleInv ka sy -> RoleInv ka (sys_step cfga cfgb t sy o).
Proof.
  intros Hk H. destruct o as [on_a o|n|n|n]; cbn [sys_step].
  - destruct (is_inbound o) eqn:Hi; [exact H|].
    destruct (agent_step_cases ka on_a) as [E|E]; subst on_a.
    + apply keeper_step; [apply api_in_ok; exact Hi|exact H].
    + apply other_step; exact H.
  - destruct (nth_error (sy_net sy) n) as [f|] eqn:En; [|exact H].
    pose proof (nth_error_In _ _ En) as Hin.
    assert (Hf : flight_roles ka f) by (destruct H as [_ [_ HN]]; rewrite Forall_forall in HN; exact (HN f Hin)).
    assert (H' : RoleInv ka (mkSys (sy_a sy) (sy_b sy) (remove_nth n (sy_net sy)))).
    { apply RoleInv_net; [exact H|]. apply Forall_remove_nth. destruct H as [_ [_ HN]]; exact HN. }
    destruct (agent_step_cases ka (f_to_a f)) as [E|E]; rewrite E.
    + apply keeper_step; [|exact H']. apply keeper_in_ok; [exact Hk|]. unfold flight_roles in Hf. rewrite E, eqb_reflx in Hf. exact Hf.
    + apply other_step; exact H'.
  - apply RoleInv_net; [exact H|]. apply Forall_remove_nth. destruct H as [_ [_ HN]]; exact HN.
  - destruct (nth_error (sy_net sy) n) as [f|] eqn:En; [|exact H].
    apply RoleInv_net; [exact H|]. destruct H as [_ [_ HN]]. apply Forall_app. split; [exact HN|].
    constructor; [|constructor]. rewrite Forall_forall in HN. exact (HN f (nth_error_In _ _ En)).
Qed.

Theorem sys_run_RoleInv ka ops sy : keeps r (tbK ka) (tbO ka) = true -> RoleInv ka sy -> RoleInv ka (sys_run cfga cfgb t sy ops).
Proof.
  intros Hk. revert sy. induction ops as [|o ops IH]; intros sy H; [exact H|].
  cbn [sys_run fold_left]. apply IH. apply sys_step_preserves_RoleInv; assumption.
Qed.

(* ---- once opposite, always opposite ---------------------------------------------------------------- *)
Lemma agent_step_self a o sy :
  agent_of a (agent_step cfga cfgb t a o sy) = fst (step (cfg_of a) (agent_of a sy) o).
Proof.
  unfold agent_step, agent_of, cfg_of. destruct a.
  - destruct (step cfga (sy_a sy) o); reflexivity.
  - destruct (step cfgb (sy_b sy) o); reflexivity.
Qed.

Lemma agent_step_peer a o sy :
  agent_of (negb a) (agent_step cfga cfgb t a o sy) = agent_of (negb a) sy.
Proof.
  unfold agent_step, agent_of. destruct a; cbn [negb].
  - destruct (step cfga (sy_a sy) o); reflexivity.
  - destruct (step cfgb (sy_b sy) o); reflexivity.
Qed.

Lemma agent_of_net a sy net' : agent_of a (mkSys (sy_a sy) (sy_b sy) net') = agent_of a sy.
Proof. destruct a; reflexivity. Qed.

Definition Opposite (ka : bool) (sy : sys) : Prop :=
  RoleInv ka sy /\ s_ctl (agent_of (negb ka) sy) = negb r.

Lemma other_in_ok ka lh src m : msg_carries r (tbK ka) m -> in_ok (negb r) (cfg_of (negb ka)) (InStun lh src m).
Proof.
  unfold msg_carries, in_ok. destruct (m_ctl m) as [[c tb]|]; [|auto]. intros [E _] E'. subst c.
  destruct r; discriminate E'.
Qed.

Lemma other_keeps_opposite ka sy o :
  in_ok (negb r) (cfg_of (negb ka)) o -> Opposite ka sy ->
  s_ctl (agent_of (negb ka) (agent_step cfga cfgb t (negb ka) o sy)) = negb r.
Proof.
  intros Hok [[_ [HS _]] Hc]. rewrite agent_step_self.
  exact (proj1 (proj2 (role_stable (negb r) (cfg_of (negb ka)) o Hok (agent_of (negb ka) sy) (conj Hc HS)))).
Qed.

Theorem sys_step_preserves_Opposite ka sy o :
  keeps r (tbK ka) (tbO ka) = true -> Opposite ka sy -> Opposite ka (sys_step cfga cfgb t sy o).
Proof.
  intros Hk H. split; [apply sys_step_preserves_RoleInv; [exact Hk|exact (proj1 H)]|].
  destruct o as [on_a o|n|n|n]; cbn [sys_step].
  - destruct (is_inbound o) eqn:Hi; [exact (proj2 H)|].
    destruct (agent_step_cases ka on_a) as [E|E]; subst on_a.
    + rewrite agent_step_peer. exact (proj2 H).
    + apply other_keeps_opposite; [apply api_in_ok; exact Hi|exact H].
  - destruct (nth_error (sy_net sy) n) as [f|] eqn:En; [|exact (proj2 H)].
    pose proof (nth_error_In _ _ En) as Hin.
    assert (Hf : flight_roles ka f) by (destruct H as [[_ [_ HN]] _]; rewrite Forall_forall in HN; exact (HN f Hin)).
    assert (H' : Opposite ka (mkSys (sy_a sy) (sy_b sy) (remove_nth n (sy_net sy)))).
    { split; [|rewrite agent_of_net; exact (proj2 H)].
      apply RoleInv_net; [exact (proj1 H)|]. apply Forall_remove_nth. destruct H as [[_ [_ HN]] _]; exact HN. }
    destruct (agent_step_cases ka (f_to_a f)) as [E|E]; rewrite E.
    + rewrite agent_step_peer. exact (proj2 H').
    + apply other_keeps_opposite; [|exact H']. apply other_in_ok. unfold flight_roles in Hf. rewrite E in Hf.
      destruct ka; exact Hf.
  - rewrite agent_of_net. exact (proj2 H).
  - destruct (nth_error (sy_net sy) n) as [f|] eqn:En; [|exact (proj2 H)]. rewrite agent_of_net. exact (proj2 H).
Qed.

Theorem sys_run_Opposite ka ops sy :
  keeps r (tbK ka) (tbO ka) = true -> Opposite ka sy -> Opposite ka (sys_run cfga cfgb t sy ops).
Proof.
  intros Hk. revert sy. induction ops as [|o ops IH]; intros sy H; [exact H|].
  cbn [sys_run fold_left]. apply IH. apply sys_step_preserves_Opposite; assumption.
Qed.

(* ---- the delivery of any authentic check of the keeper switches the other agent -------------------- *)
(* the datagram is a Binding request that passes the receiver's checks and is not refused at the door *)
Definition accepted_check (cfg : config) (s : state) (f : flight) : Prop :=
  s_closed s = false /\ m_class (f_msg f) = 0 /\ m_method (f_msg f) = 1 /\ request_authentic s (f_msg f) = true /\
  m_ctl (f_msg f) <> None /\
  exists l, find_local (f_lh f) s = Some l /\
    (find_remote (c_net l) (f_src f) s <> None \/
     (s_conn s =? ConnectionStateFailed) || negb (accepts_remote cfg (learn_prflx cfg l (f_src f) (f_msg f) s)) = false).

Theorem delivery_switches_other ka sy n f :
  tbK ka <> tbO ka -> keeps r (tbK ka) (tbO ka) = true -> RoleInv ka sy ->
  s_ctl (agent_of (negb ka) sy) = r ->
  nth_error (sy_net sy) n = Some f -> f_to_a f = negb ka ->
  accepted_check (cfg_of (negb ka)) (agent_of (negb ka) sy) f ->
  s_ctl (agent_of (negb ka) (sys_step cfga cfgb t sy (SDeliver n))) = negb r.
Proof.
  intros Hne Hk HI Hr En Eto [Hcl [Hc [Hm [Ha [Hctl [l [El Hrem]]]]]]].
  cbn [sys_step]. rewrite En, Eto, agent_step_self, agent_of_net.
  set (s := agent_of (negb ka) sy) in *. set (cfg := cfg_of (negb ka)) in *.
  assert (Hf : flight_roles ka f).
  { destruct HI as [_ [_ HN]]. rewrite Forall_forall in HN. exact (HN f (nth_error_In _ _ En)). }
  unfold flight_roles in Hf. rewrite Eto in Hf.
  assert (Hf' : msg_carries r (tbK ka) (f_msg f)) by (destruct ka; exact Hf).
  unfold msg_carries in Hf'. destruct (m_ctl (f_msg f)) as [[c tb]|] eqn:Ectl; [|contradiction].
  destruct Hf' as [-> ->].
  assert (Hdec : keeps_role cfg s (tbK ka) = false).
  { rewrite keeps_role_keeps, Hr. change (cf_tiebreaker cfg) with (tbO ka).
    rewrite keeps_antisym by (intros E; apply Hne; symmetry; exact E). rewrite Hk. reflexivity. }
  unfold step. cbn [step_m]. unfold with_state. rewrite Hcl, El.
  rewrite <- Hr in Ectl.
  destruct (find_remote (c_net l) (f_src f) s) as [rc|] eqn:Erc.
  - rewrite (request_with_own_role_known cfg s l (f_src f) (f_msg f) rc (tbK ka) Hc Hm Ha Erc Ectl).
    rewrite Hdec. cbn. rewrite Hr. reflexivity.
  - destruct Hrem as [Hrem|Hrem]; [contradiction Hrem; reflexivity|].
    destruct (request_with_own_role_unknown cfg s l (f_src f) (f_msg f) (tbK ka) Hc Hm Ha Erc Ectl) as [_ H2].
    destruct (H2 Hrem) as [s1 [_ [Hview [_ Heq]]]]. rewrite Heq.
    assert (Hc1 : s_ctl s1 = s_ctl s) by (unfold core_view in Hview; congruence).
    assert (Hd1 : keeps_role cfg s1 (tbK ka) = false).
    { rewrite keeps_role_keeps, Hc1, <- keeps_role_keeps. exact Hdec. }
    rewrite Hd1. cbn. rewrite Hc1, Hr. reflexivity.
Qed.

End System.

(* ---- the statement for two agents started in the same role ----------------------------------------- *)
(* both agents have been started in role r and nothing is in flight yet *)
Definition started_in_same_role (r : bool) (sy : sys) : Prop :=
  s_started (sy_a sy) = true /\ s_started (sy_b sy) = true /\
  s_ctl (sy_a sy) = r /\ s_ctl (sy_b sy) = r /\ sy_net sy = [].

Theorem same_role_conflict_resolves cfga cfgb t r sy0 :
  cf_tiebreaker cfga <> cf_tiebreaker cfgb -> started_in_same_role r sy0 ->
  let ka := keeps r (cf_tiebreaker cfga) (cf_tiebreaker cfgb) in    (* A keeps iff the rule says so *)
  forall ops, let sy := sys_run cfga cfgb t sy0 ops in
  (* the keeper never changes role *)
  s_ctl (agent_of ka sy) = r /\
  (* once the other agent has switched, the roles stay opposite whatever happens next *)
  (s_ctl (agent_of (negb ka) sy) = negb r ->
   forall more, s_ctl (agent_of (negb ka) (sys_run cfga cfgb t sy more)) = negb r /\
                s_ctl (agent_of ka (sys_run cfga cfgb t sy more)) = r) /\
  (* until then, the delivery of any check of the keeper that the other agent accepts switches it *)
  (s_ctl (agent_of (negb ka) sy) = r ->
   forall n f, nth_error (sy_net sy) n = Some f -> f_to_a f = negb ka ->
     accepted_check (cfg_of cfga cfgb (negb ka)) (agent_of (negb ka) sy) f ->
     s_ctl (agent_of (negb ka) (sys_step cfga cfgb t sy (SDeliver n))) = negb r).
Proof.
  intros Hne [Sa [Sb [Ca [Cb Hnet]]]] ka ops sy.
  assert (Hk : keeps r (tbK cfga cfgb ka) (tbO cfga cfgb ka) = true).
  { unfold tbK, tbO, cfg_of. subst ka. destruct (keeps r (cf_tiebreaker cfga) (cf_tiebreaker cfgb)) eqn:E; cbn [negb].
    - exact E.
    - rewrite keeps_antisym by (intros E'; apply Hne; symmetry; exact E'). rewrite E. reflexivity. }
  assert (Hne' : tbK cfga cfgb ka <> tbO cfga cfgb ka).
  { unfold tbK, tbO, cfg_of. destruct ka; cbn [negb]; [exact Hne|intros E; apply Hne; symmetry; exact E]. }
  assert (H0 : RoleInv cfga cfgb r ka sy0).
  { unfold RoleInv, GK, GS, agent_of. rewrite Hnet. destruct ka; cbn [negb]; repeat split; auto. }
  pose proof (sys_run_RoleInv cfga cfgb t r ka ops sy0 Hk H0) as HI. fold sy in HI.
  split; [exact (proj1 (proj1 HI))|]. split.
  - intros Hopp more.
    pose proof (sys_run_Opposite cfga cfgb t r ka more sy Hk (conj HI Hopp)) as [HI' Ho'].
    split; [exact Ho'|exact (proj1 (proj1 HI'))].
  - intros Hsame n f En Eto Hacc.
    exact (delivery_switches_other cfga cfgb t r ka sy n f Hne' Hk HI Hsame En Eto Hacc).
Qed.
