(* C10: consequences of the invariant: the statements of Props/C10.v, and the soundness of the
   extracted acceptor. *)
From Coq Require Import Arith Bool List Lia.
Import ListNotations.
From Ice Require Import Model.PrioSpec Model.TaskLoop Proofs.TaskLoopInv.

Lemma steps_trans : forall a b c, steps a b -> steps b c -> steps a c.
Proof. intros a b c H1 H2; induction H2; eauto using steps_step. Qed.

Lemma reach_steps : forall s s', reach s -> steps s s' -> reach s'.
Proof. unfold reach; eauto using steps_trans. Qed.

Lemma inv_reach : forall s, reach s -> Inv s.
Proof.
  assert (G : forall a s, steps a s -> Inv a -> Inv s).
  { induction 1; eauto using inv_step. }
  unfold reach; intros s H; eapply G; eauto using inv_init.
Qed.

Lemma run_steps : forall ls s s', run ls s = Some s' -> steps s s'.
Proof.
  induction ls as [|l ls IH]; simpl; intros s s' H.
  - inversion H; constructor.
  - destruct (lstep l s) as [s1|] eqn:E; [|discriminate].
    eapply steps_trans; [|eauto]. econstructor; [constructor|]. exists l; exact E.
Qed.

Lemma run_reach : forall ls s, run ls init = Some s -> reach s.
Proof. intros; eapply run_steps; eauto. Qed.

Lemma steps_run : forall s s', steps s s' -> exists ls, run ls s = Some s'.
Proof.
  induction 1 as [s|s s1 s2 H IH [l Hl]].
  - exists []; reflexivity.
  - destruct IH as [ls Hls]. exists (ls ++ [l]).
    revert s Hls H; induction ls as [|x ls IHls]; simpl; intros s Hls H.
    + inversion Hls; subst; rewrite Hl; reflexivity.
    + destruct (lstep x s) as [sx|] eqn:E; [|discriminate].
      apply IHls; auto. eapply run_steps; eauto.
Qed.

(* ---- C10_serial --------------------------------------------------------------------------- *)
Lemma serial : forall s, reach s -> forall i j, ts s i = TRunning -> ts s j = TRunning -> i = j.
Proof.
  intros s R i j Hi Hj. pose proof (inv_reach s R) as I.
  apply (i_running _ I) in Hi; apply (i_running _ I) in Hj; congruence.
Qed.

(* the running task is the one the loop goroutine is inside of, handed over by a submitter that is
   still blocked in Run *)
Lemma running_is_loops : forall s, reach s -> forall i, ts s i = TRunning -> lp s = LRun i /\ sp s i = SWait.
Proof.
  intros s R i Hi. pose proof (inv_reach s R) as I.
  pose proof ((i_running _ I) i Hi) as L. destruct ((i_run _ I) i L) as [? _]. auto.
Qed.

(* ---- C10_ok_iff_ran_once ------------------------------------------------------------------ *)
Definition is_err (p : spc) : Prop := p = SRetCtx \/ p = SRetClosed.

Lemma err_stable_step : forall s s' i, step s s' -> is_err (sp s i) -> sp s' i = sp s i.
Proof.
  intros s s' i H [E|E]; step_cases H; simpl; unfold set_sp, set_cp, set_lp, upd; simpl;
    upd_cases; try reflexivity; congruence.
Qed.

Lemma err_stable : forall s s' i, steps s s' -> is_err (sp s i) -> sp s' i = sp s i.
Proof.
  induction 1; intros E; auto.
  rewrite <- IHsteps by auto. apply err_stable_step; auto. rewrite IHsteps; auto.
Qed.

Lemma ok_stable_step : forall s s' i, step s s' -> sp s i = SRetOk -> sp s' i = SRetOk.
Proof.
  intros s s' i H E; step_cases H; simpl; unfold set_sp, set_cp, set_lp, upd; simpl;
    upd_cases; try assumption; congruence.
Qed.

Lemma ok_iff_ran_once : forall s i, reach s ->
  (sp s i = SRetOk -> runs s i = 1 /\ ts s i = TCompleted) /\
  (is_err (sp s i) ->
     runs s i = 0 /\ ts s i = TNot /\
     forall s', steps s s' -> sp s' i = sp s i /\ runs s' i = 0 /\ ts s' i = TNot) /\
  runs s i <= 1 /\
  (ts s i <> TNot -> sp s i = SWait \/ sp s i = SRetOk).
Proof.
  intros s i R.
  assert (ERR : forall s, reach s -> is_err (sp s i) -> runs s i = 0 /\ ts s i = TNot).
  { intros s0 R0 E. pose proof (inv_reach s0 R0) as I0.
    assert (T : ts s0 i = TNot) by (apply (i_notwait _ I0); destruct E; congruence).
    split; auto. apply (i_runs0 _ I0); auto. }
  pose proof (inv_reach s R) as I.
  split; [|split; [|split]].
  - intros E. pose proof ((i_tdone _ I) i ((i_retok _ I) i E)) as C. split; auto. apply (i_runs1 _ I); congruence.
  - intros E. destruct (ERR s R E). split; [|split]; auto.
    intros s' St. pose proof (err_stable s s' i St E) as P.
    split; auto. apply ERR; [eapply reach_steps; eauto|]. rewrite P; auto.
  - destruct (ts s i) eqn:T.
    + rewrite (i_runs0 _ I); auto.
    + rewrite (i_runs1 _ I); auto; congruence.
    + rewrite (i_runs1 _ I); auto; congruence.
  - intros T.
    destruct (spc_eqb (sp s i) SWait) eqn:A; [left; apply spc_eqb_true; auto|].
    destruct (spc_eqb (sp s i) SRetOk) eqn:B; [right; apply spc_eqb_true; auto|].
    exfalso. apply T. apply (i_notwait _ I); intro X; rewrite X in *; simpl in *; discriminate.
Qed.

(* ---- C10_none_after_close ----------------------------------------------------------------- *)
Lemma quiet_step : forall s s', step s s' -> after_onclose (lp s) \/ lp s = LClosing ->
  (after_onclose (lp s') \/ lp s' = LClosing) /\ (lp s = LExited -> lp s' = LExited) /\
  (after_onclose (lp s) -> after_onclose (lp s')) /\
  forall i, runs s' i = runs s i /\ ts s' i = ts s i.
Proof.
  intros s s' H Q; step_cases H; simpl; unfold set_sp, set_cp, set_lp, upd; simpl;
    repeat match goal with H : lp s = _ |- _ => rewrite H in * end; simpl in *;
    try solve [destruct Q as [[]|Q]; discriminate Q];
    repeat split; intros; auto; try discriminate; try tauto.
Qed.

Lemma quiet_steps : forall s s', steps s s' -> after_onclose (lp s) \/ lp s = LClosing ->
  (after_onclose (lp s') \/ lp s' = LClosing) /\ (lp s = LExited -> lp s' = LExited) /\
  (after_onclose (lp s) -> after_onclose (lp s')) /\
  forall i, runs s' i = runs s i /\ ts s' i = ts s i.
Proof.
  induction 1 as [s|s s1 s2 H IH St]; intros Q.
  - repeat split; auto.
  - destruct (IH Q) as (Q1 & E1 & A1 & F1).
    destruct (quiet_step _ _ St Q1) as (Q2 & E2 & A2 & F2).
    repeat split; auto; destruct (F2 i), (F1 i); congruence.
Qed.

Lemma none_after_close : forall s k, reach s -> cp s k = CRet ->
  lp s = LExited /\ (forall i, ts s i <> TRunning) /\
  forall s', steps s s' -> lp s' = LExited /\ forall i, runs s' i = runs s i /\ ts s' i = ts s i.
Proof.
  intros s k R C. pose proof (inv_reach s R) as I.
  pose proof ((i_tld1 _ I) ((i_cret _ I) k C)) as L.
  split; auto. split.
  - intros i T. apply (i_running _ I) in T. congruence.
  - intros s' St. assert (Q : after_onclose (lp s) \/ lp s = LClosing) by (rewrite L; simpl; auto).
    destruct (quiet_steps _ _ St Q) as (_ & E & _ & F). auto.
Qed.

(* ---- C10_onclose_once_after_last ----------------------------------------------------------- *)
Lemma onclose_once_after_last : forall s, reach s ->
  oncloses s <= 1 /\
  (oncloses s = 1 ->
     (forall i, ts s i <> TRunning) /\
     forall s', steps s s' -> oncloses s' = 1 /\ forall i, runs s' i = runs s i /\ ts s' i = ts s i) /\
  (forall k, cp s k = CRet -> oncloses s = 1 /\ lp s = LExited).
Proof.
  intros s R. pose proof (inv_reach s R) as I.
  assert (D : after_onclose (lp s) \/ ~ after_onclose (lp s)) by (destruct (lp s); simpl; tauto).
  split; [|split].
  - destruct D as [D|D]; [rewrite (i_oncl1 _ I)|rewrite (i_oncl0 _ I)]; auto.
  - intros O. destruct D as [D|D]; [|rewrite (i_oncl0 _ I) in O; auto; discriminate].
    split.
    + intros i T. apply (i_running _ I) in T. rewrite T in D; simpl in D; auto.
    + intros s' St. destruct (quiet_steps _ _ St (or_introl D)) as (_ & _ & A & F).
      split; auto. pose proof (inv_reach s' (reach_steps _ _ R St)) as I'. apply (i_oncl1 _ I'); auto.
  - intros k C. pose proof ((i_tld1 _ I) ((i_cret _ I) k C)) as L. split; auto.
    apply (i_oncl1 _ I). rewrite L; simpl; auto.
Qed.

(* ---- no close of a closed channel (no panic) ------------------------------------------------ *)
Lemma no_double_close : forall s, reach s ->
  (forall k, cp s k = COnce1 -> done s = false) /\
  (forall i, lp s = LFin i -> tdone s i = false) /\
  (lp s = LOnCloseDone -> tld s = false).
Proof.
  intros s R. pose proof (inv_reach s R) as I. split; [|split].
  - intros k L. apply (i_once1 _ I k); auto.
  - intros i L. apply (i_fin _ I); auto.
  - intros L. destruct (tld s) eqn:T; auto. apply (i_tld1 _ I) in T. congruence.
Qed.


(* ---- soundness of the acceptor: an accepted log is the observable projection of a model run ---- *)
Definition Good (evs : list event) (s : state) : Prop :=
  exists ls, run ls init = Some s /\ observe ls = evs.

Lemma run_app : forall l1 l2 s s1, run l1 s = Some s1 -> run (l1 ++ l2) s = run l2 s1.
Proof.
  induction l1 as [|x l1 IH]; simpl; intros l2 s s1 H.
  - inversion H; auto.
  - destruct (lstep x s); [eauto|discriminate].
Qed.

Lemma observe_app : forall l1 l2, observe (l1 ++ l2) = observe l1 ++ observe l2.
Proof.
  induction l1 as [|[e|t] l1 IH]; simpl; intros; auto. rewrite IH; auto.
Qed.

Definition all_tau (ls : list label) : Prop := Forall (fun l => exists t, l = Tau t) ls.

Lemma observe_tau : forall ls, all_tau ls -> observe ls = [].
Proof. induction 1 as [|l ls [t ->] _ IH]; simpl; auto. Qed.

Lemma good_run : forall evs s ls s', Good evs s -> run ls s = Some s' -> Good (evs ++ observe ls) s'.
Proof.
  intros evs s ls s' (l0 & R0 & O0) R. exists (l0 ++ ls). split.
  - rewrite (run_app _ _ _ _ R0); auto.
  - rewrite observe_app; congruence.
Qed.

Lemma good_try_tau : forall evs s t, Good evs s -> Good evs (try (Tau t) s).
Proof.
  intros evs s t G. unfold try. destruct (lstep (Tau t) s) as [s'|] eqn:E; auto.
  replace evs with (evs ++ observe [Tau t]) by (simpl; apply app_nil_r).
  eapply good_run; eauto. cbn [run]. rewrite E; auto.
Qed.

Lemma good_fold_try : forall ls, all_tau ls -> forall evs s, Good evs s ->
  Good evs (fold_left (fun s l => try l s) ls s).
Proof.
  induction 1 as [|l ls [t ->] _ IH]; simpl; intros; auto using good_try_tau.
Qed.

Lemma eager_all_tau : forall sids cids, all_tau (eager_labels sids cids).
Proof.
  intros. unfold eager_labels, all_tau.
  repeat (apply Forall_app; split); try (apply Forall_forall; intros x Hx; apply in_map_iff in Hx;
    destruct Hx as (y & <- & _); eauto).
  repeat constructor; eauto.
Qed.

Lemma good_norm : forall sids cids evs s, Good evs s -> Good evs (norm sids cids s).
Proof.
  intros. unfold norm, norm1. repeat apply good_fold_try; auto using eager_all_tau.
Qed.

Lemma good_close_now : forall sids cids evs s k s', Good evs s -> In s' (close_now sids cids s k) -> Good evs s'.
Proof.
  intros sids cids evs s k s' G H. unfold close_now in H.
  destruct (lstep (Tau (TOnceEnter k)) s) as [s1|] eqn:E1; [|contradiction].
  destruct (lstep (Tau (TCloseDone k)) s1) as [s2|] eqn:E2; [|contradiction].
  destruct H as [<-|[]]. apply good_norm.
  replace evs with (evs ++ observe [Tau (TOnceEnter k); Tau (TCloseDone k)]) by (simpl; apply app_nil_r).
  eapply good_run; eauto. cbn [run]. rewrite E1, E2; auto.
Qed.

Lemma good_branch : forall sids cids evs S,
  (forall s, In s S -> Good evs s) -> forall s, In s (branch sids cids S) -> Good evs s.
Proof.
  intros sids cids evs S G s H. unfold branch in H. apply in_app_or in H. destruct H as [H|H]; auto.
  apply in_flat_map in H. destruct H as (s0 & H0 & H).
  apply in_flat_map in H. destruct H as (k & _ & H). eapply good_close_now; eauto.
Qed.

Lemma pre_labels_tau : forall e, all_tau (pre_labels e).
Proof. destruct e; simpl; repeat constructor; eauto. Qed.

Lemma good_obs_step : forall sids cids evs e s s',
  Good evs s -> In s' (obs_step sids cids e s) -> Good (evs ++ [e]) s'.
Proof.
  intros sids cids evs e s s' G H. unfold obs_step in H.
  destruct (run (pre_labels e ++ [Obs e]) s) as [s1|] eqn:E; [|contradiction].
  destruct H as [<-|[]]. apply good_norm.
  replace [e] with (observe (pre_labels e ++ [Obs e])).
  - eapply good_run; eauto.
  - rewrite observe_app, (observe_tau _ (pre_labels_tau e)); reflexivity.
Qed.

Lemma in_add_state : forall sids cids x y l, In x (add_state sids cids y l) -> x = y \/ In x l.
Proof.
  induction l as [|z l IH]; simpl; intros H.
  - destruct H as [<-|[]]; auto.
  - destruct (state_eqb sids cids y z); auto. destruct H as [<-|H]; auto.
    destruct (IH H); auto.
Qed.

Lemma in_dedupe : forall sids cids l x, In x (dedupe sids cids l) -> In x l.
Proof.
  intros sids cids l x. unfold dedupe.
  assert (G : forall l acc, In x (fold_left (fun acc x => add_state sids cids x acc) l acc) -> In x acc \/ In x l).
  { induction l0 as [|y l0 IH]; simpl; intros acc H; auto.
    destruct (IH _ H) as [H1|H1]; auto. destruct (in_add_state _ _ _ _ _ H1); subst; auto. }
  intros H. destruct (G _ _ H) as [[]|]; auto.
Qed.

Lemma accept_sound : forall sids cids evs S evs0,
  (forall s, In s S -> Good evs0 s) -> accept sids cids evs S = true ->
  exists s, Good (evs0 ++ evs) s.
Proof.
  induction evs as [|e evs IH]; simpl; intros S evs0 G H.
  - destruct S as [|s S]; [discriminate|]. exists s. rewrite app_nil_r. apply G; simpl; auto.
  - remember (dedupe sids cids (flat_map (obs_step sids cids e) (branch sids cids S))) as S2.
    destruct S2 as [|s2 S2]; [discriminate|].
    replace (evs0 ++ e :: evs) with ((evs0 ++ [e]) ++ evs) by (rewrite <- app_assoc; reflexivity).
    eapply IH; [|exact H].
    intros s Hs. rewrite HeqS2 in Hs. apply in_dedupe in Hs. apply in_flat_map in Hs.
    destruct Hs as (s1 & H1 & Hs). eapply good_obs_step; [|exact Hs].
    eapply good_branch; eauto.
Qed.

Theorem explains_sound : forall sids cids evs, explains sids cids evs = true ->
  exists ls s, run ls init = Some s /\ observe ls = evs /\ reach s.
Proof.
  intros sids cids evs H. unfold explains in H.
  destruct (accept_sound sids cids evs [init] [] ) as (s & ls & R & O); auto.
  - intros s [<-|[]]. exists []; split; reflexivity.
  - exists ls, s. repeat split; auto. eapply run_reach; eauto.
Qed.
