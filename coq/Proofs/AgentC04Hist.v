(* C04 + C03 over histories: whenever an open agent is Connected or Disconnected, a listed, validated and nominated
   pair is selected. *)
From Coq Require Import ZArith Bool List.
From Ice Require Import Model.AgentTypes Model.AgentCore Gen.Consts Proofs.AgentFrame Proofs.AgentC04 Proofs.AgentC06 Proofs.AgentC03Sel
  Proofs.TwoAgentsProofs.
Import ListNotations.
Local Open Scope Z_scope.

Lemma fold_InvSel cfg ops : forall s (tr : list (list out)), InvSel s ->
  InvSel (fst (fold_left (fun '(s0, tr1) o0 => let '(s'0, os0) := step cfg s0 o0 in (s'0, tr1 ++ [os0])) ops (s, tr))).
Proof.
  induction ops as [|o ops IH]; intros s tr H; cbn [fold_left]; [exact H|].
  pose proof (step_preserves_InvSel cfg s o H) as H1. destruct (step cfg s o) as [s' os]. cbn [fst] in H1. apply IH. exact H1.
Qed.

Theorem connected_means_validated_nominated_selection cfg lu lp ops :
  let s := fst (run cfg lu lp ops) in
  s_closed s = false ->
  (s_conn s = ConnectionStateConnected \/ s_conn s = ConnectionStateDisconnected) ->
  exists id p, s_selected s = Some id /\ In p (s_checklist s) /\ p_id p = id /\
               p_state p = CandidatePairStateSucceeded /\ p_nominated p = true.
Proof.
  intros s Hc Hst.
  assert (HI : InvSel s) by (unfold s, run, run_from; apply fold_InvSel; apply InvSel_init).
  destruct (s_selected s) as [id|] eqn:Es; [|exfalso; exact (HI Hc Hst Es)].
  destruct (selected_is_validated_and_nominated cfg lu lp ops id Es) as [p [Hp [Eid [Hs Hn]]]].
  exists id, p. auto.
Qed.
