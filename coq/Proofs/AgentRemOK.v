(* C06: the remote candidates an agent holds are always acceptable and deduplicated, for every history:
   none is TCP-active, none has an address the remote IP filter rejects (peer-reflexive discoveries
   included), and no two are Equal (same network type, transport address, type and related address). *)
From Coq Require Import ZArith Bool List Lia.
From Ice Require Import Model.AgentTypes Model.AgentCore Gen.Consts Proofs.AgentFrame Proofs.AgentC03Sel Proofs.AgentRem.
Import ListNotations.
Local Open Scope Z_scope.

Definition okc (cfg : config) (c : cand) : Prop := accepts_remote cfg c = true /\ c_tcp c <> TCPTypeActive.
Definition Dedup (l : list cand) : Prop := ForallOrdPairs (fun a b => cand_equal a b = false) l.
Definition RK (cfg : config) (s : state) : Prop := Forall (okc cfg) (s_remotes s) /\ Dedup (s_remotes s).

Lemma RK_view cfg s s' : s_remotes s' = s_remotes s -> RK cfg s -> RK cfg s'.
Proof. unfold RK. intros ->. auto. Qed.

Lemma RK_empty cfg s : s_remotes s = [] -> RK cfg s.
Proof. unfold RK, Dedup. intros ->. split; constructor. Qed.

Lemma FOP_filter {A} (R : A -> A -> Prop) (g : A -> bool) l : ForallOrdPairs R l -> ForallOrdPairs R (filter g l).
Proof.
  induction 1 as [|a l Ha Hl IH]; cbn; [constructor|]. destruct (g a); [|exact IH].
  constructor; [|exact IH]. rewrite Forall_forall in *. intros x Hx. apply filter_In in Hx. apply Ha. tauto.
Qed.

Lemma FOP_snoc {A} (R : A -> A -> Prop) l c : ForallOrdPairs R l -> Forall (fun e => R e c) l -> ForallOrdPairs R (l ++ [c]).
Proof.
  induction 1 as [|a l Ha Hl IH]; intros Hc; cbn; [constructor; constructor|].
  constructor; [apply Forall_app; split; [exact Ha|constructor; [exact (Forall_inv Hc)|constructor]]|].
  apply IH. exact (Forall_inv_tail Hc).
Qed.

Lemma Forall_filter_in {A} (P : A -> Prop) (g : A -> bool) l : Forall P l -> Forall P (filter g l).
Proof. intros H. rewrite Forall_forall in *. intros x Hx. apply filter_In in Hx. apply H. tauto. Qed.

(* what add_remote_body does to the list of remote candidates *)
Lemma remotes_frame_M (f : M) : sat (frame s_remotes) f -> forall s, s_remotes (fst (f s)) = s_remotes s.
Proof. intros H s. exact (H s). Qed.

Lemma remotes_replace old new : sat (frame s_remotes) (replace_remote_in_pairs old new).
Proof.
  sat_decompose; try (apply update_conn_frame_live; [discriminate|intros; reflexivity]); try (sat_base frame_tac).
Qed.

Lemma remotes_loop c red : sat (frame s_remotes)
  (for_each red (fun old => copy_activity old c ;; replace_remote_in_pairs old c ;; retarget_cache old c)).
Proof.
  apply sat_for_each. intros old. apply sat_seq; [|apply sat_seq; [apply remotes_replace|]].
  - unfold copy_activity. apply sat_modify. intros s. cbn. destruct_matches; reflexivity.
  - unfold retarget_cache. apply sat_modify. intros s. reflexivity.
Qed.

Lemma remotes_pairing c : sat (frame s_remotes)
  (if c_tcp c =? TCPTypePassive then nop else
   with_state (fun s => filter (fun l => c_net l =? c_net c) (s_locals s)) (fun locals =>
     for_each locals (fun l =>
       with_state (find_pair l c) (fun op =>
         match op with Some _ => nop | None => add_pair l c end)))).
Proof. unfold add_pair. sat_split; sat_base frame_tac. Qed.

Lemma remotes_add_remote_body c set s :
  exists g, s_remotes (fst (add_remote_body c set s)) = filter g (s_remotes s) ++ [c].
Proof.
  unfold add_remote_body.
  match goal with |- context [for_each ?red _] => set (redundant := red) end.
  exists (fun e => negb (existsb (fun o => c_h o =? c_h e) redundant)).
  rewrite seq_fst, modify_fst, seq_fst.
  rewrite seq_fst, (remotes_frame_M _ (remotes_pairing c)), modify_fst. cbn [s_remotes set_s_remotes].
  rewrite (remotes_frame_M _ (remotes_loop c redundant)). reflexivity.
Qed.

Lemma RK_add_remote_body cfg c set s :
  okc cfg c -> Forall (fun e => cand_equal e c = false) (s_remotes s) ->
  RK cfg s -> RK cfg (fst (add_remote_body c set s)).
Proof.
  intros Hc Hne [Hok Hd]. destruct (remotes_add_remote_body c set s) as [g Eg]. unfold RK. rewrite Eg. split.
  - apply Forall_app. split; [apply Forall_filter_in; exact Hok|constructor; [exact Hc|constructor]].
  - apply FOP_snoc; [apply FOP_filter; exact Hd|apply Forall_filter_in; exact Hne].
Qed.

(* cand_equal compares the network type *)
Lemma cand_equal_net a b : cand_equal a b = true -> c_net a = c_net b.
Proof.
  unfold cand_equal, cand_taddr_eqb. intros H.
  apply andb_prop in H. destruct H as [H _]. apply andb_prop in H. destruct H as [H _].
  apply andb_prop in H. destruct H as [H _]. apply andb_prop in H. destruct H as [H _]. apply Z.eqb_eq in H. exact H.
Qed.

(* Agent.addRemoteCandidate as a unit *)
Lemma RK_add_remote cfg c k :
  c_tcp c <> TCPTypeActive -> (forall ok, satG (RK cfg) mp_true (k ok)) -> satG (RK cfg) mp_true (add_remote cfg c k).
Proof.
  intros Htcp Hk s Hs. unfold add_remote. rewrite with_state_eq. cbv beta iota.
  destruct (s_conn s =? ConnectionStateFailed); [exact (Hk false s Hs)|].
  destruct (negb (accepts_remote cfg c)) eqn:Ea; [exact (Hk false s Hs)|].
  destruct (existsb _ _) eqn:Ex; [exact (Hk true s Hs)|].
  split; [exact I|]. rewrite seq_fst. apply (Hk true). apply RK_add_remote_body; [split; [|exact Htcp]| |exact Hs].
  - apply negb_false_iff in Ea. exact Ea.
  - rewrite Forall_forall. intros e He. destruct (cand_equal e c) eqn:Ee; [|reflexivity].
    exfalso. pose proof (cand_equal_net _ _ Ee) as En.
    assert (Hin : In e (filter (fun e0 => c_net e0 =? c_net c) (s_remotes s))) by (apply filter_In; split; [exact He|apply Z.eqb_eq; exact En]).
    pose proof (existsb_exists (fun e0 => cand_equal e0 c) (filter (fun e0 => c_net e0 =? c_net c) (s_remotes s))) as [_ Hx].
    rewrite Hx in Ex; [discriminate|]. exists e. split; assumption.
Qed.

Lemma RK_update_conn cfg st : satG (RK cfg) mp_true (update_conn st).
Proof.
  intros s H. split; [exact I|]. unfold update_conn. cbn.
  destruct (s_conn s =? st); cbn; [exact H|]. destruct (st =? ConnectionStateFailed); cbn.
  - apply RK_empty. reflexivity.
  - eapply RK_view; [|exact H]. reflexivity.
Qed.

Create HintDb agentcore_rk.
#[export] Hint Unfold seen fresh_tx invalidate_pending send_binding_request ping_candidate
  nominate_pair send_binding_success add_pair replace_remote_in_pairs retarget_cache copy_activity
  add_local set_selector ping_all check_keepalive contact_controlling
  contact_controlled contact_candidates handle_request_controlling handle_success_controlling
  handle_success_controlled accept_nomination handle_request_controlled handle_role_conflict
  handle_inbound_request handle_inbound tick accept_data inbound_data do_write conn_write
  conn_write_to_pair conn_read do_start do_set_remote_creds do_restart do_renominate renominate_op do_close step_m
  set_selected reselect dispatch_request dispatch_success validate_selected : agentcore_rk.

Ltac rk_leaf :=
  match goal with
  | |- satG (RK _) mp_true (update_conn _) => apply RK_update_conn
  | |- satG (RK _) mp_true (emit _) => apply satG_emit; intros ?s ?Hg; exact I
  | |- satG (RK _) mp_true (upd_pair _ _) =>
    apply satG_upd_pair; intros ?s ?Hg; (split; [exact I|]); eapply RK_view; [|eassumption]; reflexivity
  | |- satG (RK _) mp_true (modify _) =>
    apply satG_modify; intros ?s ?Hg; (split; [exact I|]);
    first [ eapply RK_view; [|eassumption]; cbn; destruct_matches; reflexivity
          | apply RK_empty; cbn; destruct_matches; reflexivity ]
  end.

Ltac rk_go :=
  satG_split_eq;
  try rk_leaf;
  try match goal with
  | |- satG (RK _) mp_true (add_remote _ _ _) =>
    apply RK_add_remote; [first [cbn; discriminate | intros ?E; match goal with H : (_ =? TCPTypeActive) = false |- _ => rewrite E in H; discriminate H end]
                         | intros ?ok; rk_go]
  end.

Theorem step_RK cfg o : satG (RK cfg) mp_true (step_m cfg o).
Proof.
  destruct o; cbn [step_m]; autounfold with agentcore_rk; rk_go.
Qed.

Lemma RK_init cfg lu lp : RK cfg (init lu lp).
Proof. apply RK_empty. reflexivity. Qed.

Lemma fold_RK cfg ops : forall s (tr : list (list out)), RK cfg s ->
  RK cfg (fst (fold_left (fun '(s0, tr1) o0 => let '(s'0, os0) := step cfg s0 o0 in (s'0, tr1 ++ [os0])) ops (s, tr))).
Proof.
  induction ops as [|o ops IH]; intros s tr H; cbn [fold_left]; [exact H|].
  pose proof (proj2 (step_RK cfg o s H)) as H1. unfold step. destruct (step_m cfg o s) as [s' os]. cbn [fst] in H1. apply IH. exact H1.
Qed.

(* for every history: no remote candidate is TCP-active or filtered, and no two are Equal *)
Theorem remotes_acceptable_and_deduplicated cfg lu lp ops :
  let s := fst (run cfg lu lp ops) in
  Forall (fun c => accepts_remote cfg c = true /\ c_tcp c <> TCPTypeActive) (s_remotes s) /\
  ForallOrdPairs (fun a b => cand_equal a b = false) (s_remotes s).
Proof. unfold run, run_from. apply fold_RK. apply RK_init. Qed.
