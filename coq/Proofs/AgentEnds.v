(* C06: a pair ID keeps addressing the same transport-address pair: the local candidate of the pair listed
   under an ID never changes and its remote candidate changes only to one with the same network type and
   address (supersession); IDs of pairs that were dropped are never handed out again. *)
From Coq Require Import ZArith Bool List Lia.
From Ice Require Import Model.AgentTypes Model.AgentCore Gen.Consts Proofs.AgentFrame Proofs.AgentC06 Proofs.AgentC03Sel
  Proofs.AgentRem Proofs.AgentRemOK Proofs.AgentSupersede Proofs.TwoAgentsProofs.
Import ListNotations.
Local Open Scope Z_scope.

Definition same_ends (p p' : pair) : Prop :=
  p_loc p' = p_loc p /\ c_net (p_rem p') = c_net (p_rem p) /\ c_addr (p_rem p') = c_addr (p_rem p).

Lemma same_ends_refl p : same_ends p p.
Proof. unfold same_ends. auto. Qed.
Lemma same_ends_trans p q r : same_ends p q -> same_ends q r -> same_ends p r.
Proof. unfold same_ends. intros [A [B C]] [D [E F]]. repeat split; congruence. Qed.

(* the step relation: the counter only grows; every listed pair is new (ID above the old counter) or is listed
   before under the same ID with the same ends *)
Definition ends_rel (R : pair -> pair -> Prop) (s s' : state) : Prop :=
  s_next_pair s <= s_next_pair s' /\
  forall p', In p' (s_checklist s') ->
    s_next_pair s < p_id p' \/ exists p, In p (s_checklist s) /\ p_id p = p_id p' /\ R p p'.

Lemma ends_rel_refl (R : pair -> pair -> Prop) s : (forall p, R p p) -> ends_rel R s s.
Proof. intros HR. split; [lia|]. intros p' Hp. right. exists p'. auto. Qed.

Lemma ends_rel_trans (R : pair -> pair -> Prop) s s1 s2 :
  (forall p q r, R p q -> R q r -> R p r) -> ends_rel R s s1 -> ends_rel R s1 s2 -> ends_rel R s s2.
Proof.
  intros HT [L1 H1] [L2 H2]. split; [lia|]. intros p'' Hp.
  destruct (H2 p'' Hp) as [Hn|[p' [Hp' [E' R']]]]; [left; lia|].
  destruct (H1 p' Hp') as [Hn|[p [Hp0 [E0 R0]]]]; [left; lia|].
  right. exists p. split; [exact Hp0|]. split; [congruence|]. exact (HT _ _ _ R0 R').
Qed.

Definition strict (p p' : pair) : Prop := p_loc p' = p_loc p /\ p_rem p' = p_rem p.

Definition ends_frame : mprop.
Proof.
  refine (MProp (fun s _ s' => ends_rel strict s s') _ _).
  - intros s. apply ends_rel_refl. intros p. split; reflexivity.
  - intros s o1 s1 o2 s2 H1 H2. eapply ends_rel_trans; [|exact H1|exact H2].
    unfold strict. intros p q r [A B] [C D]. split; congruence.
Defined.

Lemma ef_same s s' : s_checklist s' = s_checklist s -> s_next_pair s' = s_next_pair s -> ends_rel strict s s'.
Proof.
  intros E1 E2. split; [lia|]. rewrite E1. intros p' Hp. right. exists p'. repeat split; auto.
Qed.

Lemma ef_empty s s' : s_checklist s' = [] -> s_next_pair s' = s_next_pair s -> ends_rel strict s s'.
Proof. intros E1 E2. split; [lia|]. rewrite E1. intros p' []. Qed.

Lemma ef_upd id f s : (forall q, p_id (f q) = p_id q /\ p_loc (f q) = p_loc q /\ p_rem (f q) = p_rem q) -> ends_rel strict s (upd id f s).
Proof.
  intros Hf. split; [cbn; lia|]. unfold upd. cbn [s_checklist set_s_checklist]. intros p' Hp. right.
  apply in_map_iff in Hp. destruct Hp as [q [E Hq]]. exists q. split; [exact Hq|].
  destruct (p_id q =? id); subst p'; [|repeat split; reflexivity]. destruct (Hf q) as [A [B C]]. repeat split; auto.
Qed.

Lemma ef_add_pair l r s : ends_rel strict s (fst (add_pair l r s)).
Proof.
  unfold add_pair. rewrite modify_fst. split; [cbn; lia|]. cbn [s_checklist set_s_next_pair set_s_checklist].
  intros p' Hp. apply in_app_iff in Hp. destruct Hp as [Hp|[<-|[]]].
  - right. exists p'. repeat split; auto.
  - left. cbn. lia.
Qed.

Lemma ef_update_conn st : sat ends_frame (update_conn st).
Proof.
  intros s. cbn. unfold update_conn. destruct (s_conn s =? st); cbn; [apply ef_same; reflexivity|].
  destruct (st =? ConnectionStateFailed); cbn; [apply ef_empty; reflexivity|apply ef_same; reflexivity].
Qed.

Ltac ef_leaf :=
  match goal with
  | |- sat ends_frame (update_conn _) => apply ef_update_conn
  | |- sat ends_frame (emit _) => apply sat_emit; intros ?s; cbn; apply ef_same; reflexivity
  | |- sat ends_frame (upd_pair _ _) =>
    apply sat_upd_pair; intros ?s; cbn; apply (ef_upd _ _ s); intros ?q; cbn; repeat split; reflexivity
  | |- sat ends_frame (modify _) =>
    apply sat_modify; intros ?s; cbn;
    first [ apply ef_same; cbn; destruct_matches; reflexivity
          | apply ef_empty; cbn; destruct_matches; reflexivity
          | apply (ef_add_pair _ _ s) ]
  end.

Create HintDb agentcore_ef.
#[export] Hint Unfold seen fresh_tx invalidate_pending send_binding_request ping_candidate
  nominate_pair send_binding_success retarget_cache copy_activity
  add_local set_selector ping_all check_keepalive contact_controlling
  contact_controlled contact_candidates handle_request_controlling handle_success_controlling
  handle_success_controlled accept_nomination handle_request_controlled handle_role_conflict
  handle_inbound_request handle_inbound tick accept_data inbound_data do_write conn_write
  conn_write_to_pair conn_read do_start do_set_remote_creds do_restart do_renominate renominate_op do_close step_m
  set_selected reselect dispatch_request dispatch_success validate_selected : agentcore_ef.

Lemma ef_add_pair_sat l r : sat ends_frame (add_pair l r).
Proof. intros s. exact (ef_add_pair l r s). Qed.

(* learning a peer-reflexive candidate supersedes nothing *)
Lemma ef_add_remote_prflx cfg c k :
  c_typ c = CandidateTypePeerReflexive -> (forall ok, sat ends_frame (k ok)) -> sat ends_frame (add_remote cfg c k).
Proof.
  intros Hc Hk. unfold add_remote, add_remote_body. rewrite Hc. change (CandidateTypePeerReflexive =? CandidateTypePeerReflexive) with true.
  cbv iota. cbn [for_each]. sat_split; try apply Hk; try apply ef_add_pair_sat; try ef_leaf.
Qed.

Ltac ef_go :=
  sat_split;
  try apply ef_add_pair_sat;
  try ef_leaf;
  try match goal with
  | |- sat ends_frame (add_remote _ _ _) => apply ef_add_remote_prflx; [reflexivity|intros ?ok; ef_go]
  end.

Lemma ef_step cfg o : (match o with AddRemote _ => False | _ => True end) -> sat ends_frame (step_m cfg o).
Proof.
  intros Ho. destruct o; try contradiction; cbn [step_m]; autounfold with agentcore_ef; ef_go.
Qed.

(* ---- every operation ------------------------------------------------------------------------------------ *)
Definition E (s s' : state) : Prop := ends_rel same_ends s s'.

Lemma strict_same p q : strict p q -> same_ends p q.
Proof. unfold strict, same_ends. intros [A B]. rewrite A, B. auto. Qed.

Lemma ends_rel_weaken (R R' : pair -> pair -> Prop) s s' : (forall p q, R p q -> R' p q) -> ends_rel R s s' -> ends_rel R' s s'.
Proof.
  intros HR [L H]. split; [exact L|]. intros p' Hp. destruct (H p' Hp) as [Hn|[p [A [B C]]]]; [left; exact Hn|].
  right. exists p. auto.
Qed.

Lemma kept_same_ends c po q : kept c po q -> same_ends po q.
Proof.
  unfold kept, same_ends. intros H. decompose [and] H. clear H. split; [assumption|].
  match goal with H : _ \/ _ |- _ => destruct H as [Er|[Er [_ Et]]] end; [rewrite Er; auto|].
  rewrite Er. unfold cand_taddr_eqb in Et. apply andb_prop in Et. destruct Et as [Et _]. apply andb_prop in Et. destruct Et as [En Ea].
  apply Z.eqb_eq in En. apply addr_eqb_eq in Ea. split; congruence.
Qed.

Lemma Forall2_in_r {A B} (R : A -> B -> Prop) l l' y : Forall2 R l l' -> In y l' -> exists x, In x l /\ R x y.
Proof.
  induction 1 as [|a b l l' Hab HF IH]; cbn; intros Hin; [contradiction|].
  destruct Hin as [<-|Hin]; [exists a; auto|]. destruct (IH Hin) as [x [H1 H2]]. exists x. auto.
Qed.
Lemma Forall2_in_l {A B} (R : A -> B -> Prop) l l' x : Forall2 R l l' -> In x l -> exists y, In y l' /\ R x y.
Proof.
  induction 1 as [|a b l l' Hab HF IH]; cbn; intros Hin; [contradiction|].
  destruct Hin as [<-|Hin]; [exists b; auto|]. destruct (IH Hin) as [y [H1 H2]]. exists y. auto.
Qed.

Lemma ef_step_rel cfg o s : (match o with AddRemote _ => False | _ => True end) -> ends_rel strict s (fst (step cfg s o)).
Proof. intros H. exact (ef_step cfg o H s). Qed.

Theorem step_E cfg s o :
  InvU s -> (match o with AddRemote _ => Rm s | _ => True end) -> E s (fst (step cfg s o)).
Proof.
  intros HU HR. destruct o; try (apply (ends_rel_weaken strict same_ends); [exact strict_same|]; apply ef_step_rel; exact I).
  (* AddRemote *)
  pose proof (add_remote_keeps_pairs cfg c s HU HR) as [_ [keptl [new [Ecl [HK _]]]]].
  pose proof (pair_ids_never_reused cfg (AddRemote c) s) as [Hmono Hfresh].
  pose proof (step_preserves_InvU cfg (AddRemote c) s HU) as HU'.
  unfold step in *. set (s' := fst (step_m cfg (AddRemote c) s)) in *.
  split; [exact Hmono|]. intros p' Hp'.
  destruct (Hfresh p' Hp') as [[q [Hq Eq]]|Hn]; [|left; exact Hn].
  right. destruct (Forall2_in_l _ _ _ q HK Hq) as [q' [Hq' Hk]].
  assert (q' = p').
  { apply (unique_id s'); [exact HU'|exact Hp'|rewrite Ecl; apply in_or_app; left; exact Hq'|]. destruct Hk as [Eid _]. congruence. }
  subst q'. exists q. split; [exact Hq|]. split; [exact Eq|]. exact (kept_same_ends c q p' Hk).
Qed.

(* ---- histories -------------------------------------------------------------------------------------------- *)
Definition runs (cfg : config) (s : state) (ops : list op) : state := fold_left (fun s o => fst (step cfg s o)) ops s.

(* every operation hands the agent a fresh candidate object / a datagram of the socket's own family (AgentRem.op_ok) *)
Fixpoint ops_ok (cfg : config) (s : state) (ops : list op) : Prop :=
  match ops with
  | [] => True
  | o :: t => op_ok o s /\ ops_ok cfg (fst (step cfg s o)) t
  end.

Lemma ops_ok_app cfg ops1 : forall s ops2, ops_ok cfg s (ops1 ++ ops2) -> ops_ok cfg s ops1 /\ ops_ok cfg (runs cfg s ops1) ops2.
Proof.
  induction ops1 as [|o t IH]; intros s ops2; cbn; [auto|]. intros [H1 H2]. destruct (IH _ _ H2) as [H3 H4]. auto.
Qed.

Lemma run_runs cfg ops : forall s tr,
  fst (fold_left (fun '(s0, tr1) o0 => let '(s'0, os0) := step cfg s0 o0 in (s'0, tr1 ++ [os0])) ops (s, tr)) = runs cfg s ops.
Proof.
  induction ops as [|o t IH]; intros s tr; cbn [fold_left runs]; [reflexivity|].
  destruct (step cfg s o) as [s' os] eqn:Es. cbn [fst]. rewrite IH. reflexivity.
Qed.

Lemma closed_add_remote_noop cfg c s : s_closed s = true -> fst (step cfg s (AddRemote c)) = s.
Proof.
  intros Hc. unfold step. cbn [step_m]. rewrite with_state_eq, Hc. destruct (c_tcp c =? TCPTypeActive); reflexivity.
Qed.

Lemma step_E_ok cfg s o : InvU s -> Rc s -> E s (fst (step cfg s o)).
Proof.
  intros HU HR. destruct o; try (apply step_E; [exact HU|exact I]).
  destruct HR as [Hc|HR]; [rewrite closed_add_remote_noop by exact Hc; apply ends_rel_refl; exact same_ends_refl|].
  apply step_E; [exact HU|exact HR].
Qed.

Lemma runs_E cfg ops : forall s, InvU s -> Rc s -> ops_ok cfg s ops ->
  E s (runs cfg s ops) /\ InvU (runs cfg s ops) /\ Rc (runs cfg s ops).
Proof.
  induction ops as [|o t IH]; intros s HU HR Hok; cbn [runs fold_left].
  - split; [apply ends_rel_refl; exact same_ends_refl|auto].
  - destruct Hok as [Ho Ht].
    pose proof (step_E_ok cfg s o HU HR) as E1.
    pose proof (step_preserves_InvU cfg o s HU) as HU1. pose proof (step_Rc cfg s o Ho HR) as HR1.
    destruct (IH _ HU1 HR1 Ht) as [E2 [HU2 HR2]]. split; [|auto].
    eapply ends_rel_trans; [exact same_ends_trans|exact E1|exact E2].
Qed.

(* Whatever happens between two points of a history (supersession, Restart, failure, ...), a pair listed under an
   ID at the later point has the same local candidate and the same remote network type and address as the pair that
   was listed under that ID at the earlier point. *)
Theorem pair_id_keeps_its_ends cfg lu lp ops1 ops2 :
  ops_ok cfg (init lu lp) (ops1 ++ ops2) ->
  let s1 := fst (run cfg lu lp ops1) in
  let s2 := fst (run cfg lu lp (ops1 ++ ops2)) in
  forall p p', In p (s_checklist s1) -> In p' (s_checklist s2) -> p_id p' = p_id p -> same_ends p p'.
Proof.
  intros Hok s1 s2. unfold run, run_from in s1, s2. unfold s1, s2. rewrite !run_runs.
  unfold runs at 2. rewrite fold_left_app. fold (runs cfg (init lu lp) ops1). fold (runs cfg (runs cfg (init lu lp) ops1) ops2).
  destruct (ops_ok_app cfg ops1 _ ops2 Hok) as [Hok1 Hok2].
  destruct (runs_E cfg ops1 (init lu lp) (InvU_init lu lp) (Rc_init lu lp) Hok1) as [_ [HU1 HR1]].
  destruct (runs_E cfg ops2 _ HU1 HR1 Hok2) as [[_ HE] _].
  intros p p' Hp Hp' Eid. destruct (HE p' Hp') as [Hn|[p0 [Hp0 [E0 R0]]]].
  - exfalso. destruct HU1 as [_ [Hb _]]. rewrite Forall_forall in Hb. specialize (Hb p Hp). lia.
  - assert (p0 = p) by (apply (unique_id _ p p0 HU1 Hp Hp0); congruence). subst p0. exact R0.
Qed.
