(* C03 / C01 mechanism: single nomination.  Between selector restarts, without application renomination and without
   supersession of a peer-reflexive remote, every USE-CANDIDATE request an agent sends goes from the local socket to the
   remote address of ONE pair: the nominated pair recorded when the first such request was sent; the recorded pair's
   identifier never changes at all until the selector restarts. *)
From Coq Require Import ZArith Bool List Lia.
From Ice Require Import Model.AgentTypes Model.AgentCore Gen.Consts Gen.Lifecycle Proofs.AgentFrame Proofs.AgentC02 Proofs.AgentC20
  Proofs.AgentC03Sel Proofs.AgentEnds Proofs.AgentC20Hist.
Import ListNotations.
Local Open Scope Z_scope.

Definition nom_key (s : state) : option (Z * Z * addr) :=
  match s_nominated s with Some np => Some (p_id np, c_h (p_loc np), c_addr (p_rem np)) | None => None end.

Definition nom_keep (s s' : state) : Prop := s_nominated s = None \/ nom_key s' = nom_key s.

(* a USE-CANDIDATE request goes out on the recorded nominated pair *)
Definition use_ok (s' : state) (o : out) : Prop :=
  match o with
  | OSend lh dst m => m_class m = 0 -> m_use m = true ->
      exists np, s_nominated s' = Some np /\ lh = c_h (p_loc np) /\ dst = c_addr (p_rem np)
  | _ => True
  end.

Definition single_rel (R : Prop) (s : state) (outs : list out) (s' : state) : Prop :=
  R \/ (nom_keep s s' /\ Forall (use_ok s') outs).

Lemma nom_key_some s k : nom_key s = Some k -> s_nominated s <> None.
Proof. unfold nom_key. destruct (s_nominated s); [discriminate|discriminate]. Qed.

Lemma use_ok_key s1 s2 o : nom_key s2 = nom_key s1 -> use_ok s1 o -> use_ok s2 o.
Proof.
  intros E H. destruct o; try exact I. cbn in *. intros Hc Hu. destruct (H Hc Hu) as [np [E1 [-> ->]]].
  unfold nom_key in E. rewrite E1 in E. destruct (s_nominated s2) as [np2|]; [|discriminate E].
  injection E as _ E2 E3. exists np2. auto.
Qed.

Definition single_prov (R : Prop) : mprop.
Proof.
  refine (MProp (single_rel R) _ _).
  - intros s. right. split; [right; reflexivity|constructor].
  - intros s o1 s1 o2 s2 H1 H2. unfold single_rel in *.
    destruct H1 as [HR|[K1 U1]]; [left; exact HR|]. destruct H2 as [HR|[K2 U2]]; [left; exact HR|]. right.
    destruct (s_nominated s1) as [np1|] eqn:E1.
    + assert (E2 : nom_key s2 = nom_key s1) by (destruct K2 as [K2|K2]; [congruence|exact K2]).
      split.
      * destruct K1 as [K1|K1]; [left; exact K1|right; congruence].
      * apply Forall_app. split; [|exact U2]. eapply Forall_impl; [|exact U1]. intros o. apply use_ok_key. exact E2.
    + (* nothing recorded in the middle: nothing was recorded before, and no USE-CANDIDATE was sent before *)
      split.
      * left. destruct K1 as [K1|K1]; [exact K1|]. unfold nom_key in K1. rewrite E1 in K1. destruct (s_nominated s); [discriminate K1|reflexivity].
      * apply Forall_app. split; [|exact U2]. eapply Forall_impl; [|exact U1]. intros o Ho. destruct o; try exact I. cbn in *.
        intros Hc Hu. destruct (Ho Hc Hu) as [np [E _]]. congruence.
Defined.

Lemma single_weaken_nothing R s outs s' :
  s_nominated s' = s_nominated s -> Forall (fun o => match o with OSend _ _ m => m_class m = 0 -> m_use m = true -> False | _ => True end) outs ->
  single_rel R s outs s'.
Proof.
  intros E H. right. split; [right; unfold nom_key; rewrite E; reflexivity|].
  eapply Forall_impl; [|exact H]. intros o Ho. destruct o; try exact I. cbn. intros Hc Hu. destruct (Ho Hc Hu).
Qed.

(* ---- generic leaves: blocks that neither touch the record nor send USE-CANDIDATE ---------------------------- *)
Lemma sn_update_conn c0 R st : satG (Gc c0 R) (single_prov R) (update_conn st).
Proof.
  intros s Hg. unfold update_conn. destruct (s_conn s =? st); cbn [fst snd].
  - split; [apply single_weaken_nothing; [reflexivity|constructor]|exact Hg].
  - destruct (st =? ConnectionStateFailed); cbn; (split; [apply single_weaken_nothing; [reflexivity|repeat constructor]|exact Hg]).
Qed.

Ltac sn_leaf :=
  match goal with
  | |- satG (Gc _ _) (single_prov _) (update_conn _) => apply sn_update_conn
  | |- satG (Gc _ _) (single_prov _) (emit _) =>
    apply satG_emit; intros ?s ?Hg; apply single_weaken_nothing; [reflexivity|];
    constructor; [|constructor]; cbn; try exact I; intros; discriminate
  | |- satG (Gc _ _) (single_prov _) (upd_pair _ _) =>
    apply satG_upd_pair; intros ?s ?Hg; cbn; split; [apply single_weaken_nothing; [reflexivity|constructor]|exact Hg]
  | |- satG (Gc _ _) (single_prov _) (modify _) =>
    apply satG_modify; intros ?s ?Hg;
    first [ split; [apply single_weaken_nothing; [cbn; destruct_matches; reflexivity|constructor]
                   |destruct Hg as [?Hc|?HR]; [left; cbn; destruct_matches; exact Hc|right; exact HR]]
          | match goal with
            | Hm : m_ctl ?m = Some (?tc, ?tb), He : Bool.eqb ?tc (s_ctl ?s1) = true, Hx : Gc ?c0 _ ?s1 |- _ =>
              assert (HR : Rm c0 m) by (destruct Hx as [?Hc|?HR0]; [exists tb; apply eqb_prop in He; congruence|exact HR0]);
              split; [left; exact HR|right; exact HR]
            end ]
  end.

Create HintDb agentcore_sn.
#[export] Hint Unfold seen fresh_tx invalidate_pending send_binding_request ping_candidate
  send_binding_success add_pair retarget_cache copy_activity
  add_local set_selector ping_all check_keepalive
  contact_controlled contact_candidates tick accept_data inbound_data do_write conn_write
  conn_write_to_pair conn_read do_start do_set_remote_creds do_restart renominate_op do_close step_m
  validate_selected set_selected reselect
  handle_inbound handle_inbound_request dispatch_request dispatch_success
  handle_request_controlled handle_success_controlling handle_success_controlled handle_role_conflict accept_nomination : agentcore_sn.

(* ---- the nominating blocks ------------------------------------------------------------------------------------ *)
Lemma nominate_spec cfg p s :
  (exists m, snd (nominate_pair cfg p s) = [OSend (c_h (p_loc p)) (c_addr (p_rem p)) m]) /\
  s_nominated (fst (nominate_pair cfg p s)) = s_nominated s /\ s_ctl (fst (nominate_pair cfg p s)) = s_ctl s.
Proof.
  split.
  - unfold nominate_pair, fresh_tx. rewrite with_state_eq. unfold seq at 1. unfold modify at 1. cbn [fst snd app].
    rewrite with_state_eq.
    match goal with |- context [send_binding_request cfg ?m0 ?l ?r ?st] =>
      pose proof (send_binding_request_out cfg m0 l r st) as Ho; destruct (send_binding_request cfg m0 l r st) as [s2 o2] end.
    cbn [snd] in *. subst o2. eexists. reflexivity.
  - assert (H : sat (frame (fun s => (s_nominated s, s_ctl s))) (nominate_pair cfg p)).
    { unfold nominate_pair. autounfold with agentcore_sn. sat_split; sat_base frame_tac. }
    specialize (H s). cbn in H. injection H as H1 H2. auto.
Qed.

Lemma nominate_recorded c0 R cfg p s np :
  Gc c0 R s -> s_nominated s = Some np -> c_h (p_loc np) = c_h (p_loc p) -> c_addr (p_rem np) = c_addr (p_rem p) ->
  forall s0, (s_nominated s0 = None \/ nom_key s = nom_key s0) ->
  single_rel R s0 (snd (nominate_pair cfg p s)) (fst (nominate_pair cfg p s)) /\ Gc c0 R (fst (nominate_pair cfg p s)).
Proof.
  intros Hg En E1 E2 s0 Hk. destruct (nominate_spec cfg p s) as [[m Ho] [Hn Hc]]. split.
  - right. split.
    + destruct Hk as [Hk|Hk]; [left; exact Hk|right]. unfold nom_key in *. rewrite Hn. exact Hk.
    + rewrite Ho. constructor; [|constructor]. unfold use_ok. intros _ _. exists np. split; [congruence|auto].
  - destruct Hg as [Hg|HR]; [left; congruence|right; exact HR].
Qed.

Lemma sn_generic_tail c0 R cfg :
  satG (Gc c0 R) (single_prov R) (ping_all cfg) /\
  satG (Gc c0 R) (single_prov R) (validate_selected cfg (fun ok => if ok then check_keepalive cfg else nop)).
Proof.
  split; autounfold with agentcore_sn; repeat (satG_split_eq; try sn_leaf).
Qed.

Lemma seq_modify_run h (g : M) s : (modify h ;; g) s = g (h s).
Proof. unfold seq, modify. destruct (g (h s)) as [s2 o2]. reflexivity. Qed.

Lemma sn_contact_controlling c0 R cfg : satG (Gc c0 R) (single_prov R) (contact_controlling cfg).
Proof.
  intros s Hg. unfold contact_controlling. rewrite with_state_eq.
  destruct (selected_pair s) as [sp|] eqn:Esp; [exact (proj2 (sn_generic_tail c0 R cfg) s Hg)|].
  destruct (s_nominated s) as [np|] eqn:En.
  - apply (nominate_recorded c0 R cfg np s np Hg En eq_refl eq_refl s). right. reflexivity.
  - rewrite with_state_eq. destruct (best_valid s) as [p|]; [|exact (proj1 (sn_generic_tail c0 R cfg) s Hg)].
    destruct (is_nominatable cfg s (p_loc p) && is_nominatable cfg s (p_rem p)); [|exact (proj1 (sn_generic_tail c0 R cfg) s Hg)].
    unfold upd_pair. rewrite !seq_modify_run.
    match goal with |- context [nominate_pair cfg p ?st] =>
      apply (nominate_recorded c0 R cfg p st (set_p_nominated true p)); [exact Hg|reflexivity|reflexivity|reflexivity|left; exact En] end.
Qed.

(* controllingSelector.HandleBindingRequest: the other place that records and nominates *)
Lemma sn_request_controlling c0 R cfg m l r : satG (Gc c0 R) (single_prov R) (handle_request_controlling cfg m l r).
Proof.
  unfold handle_request_controlling. apply satG_seq; [autounfold with agentcore_sn; repeat (satG_split_eq; try sn_leaf)|].
  apply satG_with_state. intros s0 _. destruct (find_pair l r s0) as [p0|]; [|autounfold with agentcore_sn; repeat (satG_split_eq; try sn_leaf)].
  apply satG_seq; [sn_leaf|].
  intros s Hg. rewrite with_state_eq. destruct (pair_by_id (p_id p0) s) as [p|]; [|exact (satG_nop _ _ s Hg)].
  destruct (s_nominated s) as [np|] eqn:En; [rewrite andb_false_r; exact (satG_nop _ _ s Hg)|].
  destruct ((p_state p =? CandidatePairStateSucceeded) && true && match selected_pair s with None => true | Some _ => false end);
    [|exact (satG_nop _ _ s Hg)].
  destruct (best_available s) as [b|]; [|exact (satG_nop _ _ s Hg)].
  destruct (pair_equal b p && is_nominatable cfg s (p_loc p) && is_nominatable cfg s (p_rem p)); [|exact (satG_nop _ _ s Hg)].
  rewrite seq_modify_run.
  match goal with |- context [nominate_pair cfg p ?st] =>
    apply (nominate_recorded c0 R cfg p st p); [exact Hg|reflexivity|reflexivity|reflexivity|left; exact En] end.
Qed.

(* ---- adding a remote candidate that supersedes no peer-reflexive one ----------------------------------------- *)
Definition supersedes_none (c : cand) (set : list cand) : Prop :=
  (if c_typ c =? CandidateTypePeerReflexive then [] else filter (fun e => (c_typ e =? CandidateTypePeerReflexive) && cand_taddr_eqb e c) set) = [].

Lemma sn_add_remote_body c0 R c set : supersedes_none c set -> satG (Gc c0 R) (single_prov R) (add_remote_body c set).
Proof.
  intros Hn. unfold add_remote_body. unfold supersedes_none in Hn. rewrite Hn. cbn [for_each].
  autounfold with agentcore_sn. repeat (satG_split_eq; try sn_leaf).
Qed.

Lemma sn_add_remote_prflx c0 R cfg c k :
  c_typ c = CandidateTypePeerReflexive -> (forall ok, satG (Gc c0 R) (single_prov R) (k ok)) ->
  satG (Gc c0 R) (single_prov R) (add_remote cfg c k).
Proof.
  intros Hc Hk. unfold add_remote. apply satG_with_state. intros s0 _. cbv beta iota.
  destruct (s_conn s0 =? ConnectionStateFailed); [apply Hk|]. destruct (negb (accepts_remote cfg c)); [apply Hk|].
  destruct (existsb _ _); [apply Hk|]. apply satG_seq; [|apply Hk].
  apply sn_add_remote_body. unfold supersedes_none. rewrite Hc. reflexivity.
Qed.

Lemma sn_handle_inbound cfg l src m c0 :
  satG (Gc c0 (Rm c0 m)) (single_prov (Rm c0 m)) (handle_inbound cfg l src m).
Proof.
  autounfold with agentcore_sn.
  repeat (satG_split_eq; try sn_leaf; try apply sn_request_controlling;
          try (apply sn_add_remote_prflx; [reflexivity|intros ?ok])).
Qed.

(* ---- every operation ------------------------------------------------------------------------------------------ *)
Definition renominates_or_restarts (s : state) (o : op) : Prop :=
  match o with
  | Start _ _ _ | Restart _ _ | Renominate _ _ _ => True
  | InStun _ _ m => exists tb, m_ctl m = Some (s_ctl s, tb)
  | AddRemote c => ~ supersedes_none c (filter (fun e => c_net e =? c_net c) (s_remotes s))
  | _ => False
  end.

Lemma sn_other_ops cfg o c0 :
  (match o with InStun _ _ _ | Start _ _ _ | Restart _ _ | Renominate _ _ _ | AddRemote _ => False | _ => True end) ->
  satG (Gc c0 False) (single_prov False) (step_m cfg o).
Proof.
  intros Ho. destruct o; try contradiction; cbn [step_m]; autounfold with agentcore_sn;
    repeat (satG_split_eq; try sn_leaf; try apply sn_contact_controlling).
Qed.

Theorem step_single_nomination cfg s o :
  single_rel (renominates_or_restarts s o) s (snd (step cfg s o)) (fst (step cfg s o)).
Proof.
  destruct o; try (left; exact I);
    try (match goal with |- single_rel _ _ (snd (step _ _ ?o)) _ =>
           destruct (proj1 (sn_other_ops cfg o (s_ctl s) I s (or_introl eq_refl))) as [[]|H]; right; exact H end).
  - (* AddRemote *)
    unfold step. cbn [step_m]. rewrite with_state_eq.
    assert (Hret : forall r, satG (Gc (s_ctl s) (renominates_or_restarts s (AddRemote c))) (single_prov (renominates_or_restarts s (AddRemote c))) (emit (ORet r))).
    { intros r. apply satG_emit. intros s1 _. apply single_weaken_nothing; [reflexivity|repeat constructor]. }
    destruct (c_tcp c =? TCPTypeActive); [exact (proj1 (Hret _ s (or_introl eq_refl)))|].
    destruct (s_closed s); [exact (proj1 (Hret _ s (or_introl eq_refl)))|].
    unfold add_remote. rewrite with_state_eq. cbv beta iota.
    destruct (s_conn s =? ConnectionStateFailed); [exact (proj1 (Hret _ s (or_introl eq_refl)))|].
    destruct (negb (accepts_remote cfg c)); [exact (proj1 (Hret _ s (or_introl eq_refl)))|].
    destruct (existsb _ _); [exact (proj1 (Hret _ s (or_introl eq_refl)))|].
    cbn [renominates_or_restarts] in *.
    set (set0 := filter (fun e => c_net e =? c_net c) (s_remotes s)) in *.
    destruct (if c_typ c =? CandidateTypePeerReflexive then [] else filter (fun e => (c_typ e =? CandidateTypePeerReflexive) && cand_taddr_eqb e c) set0) as [|x t] eqn:E.
    + exact (proj1 (satG_seq _ _ _ _ (sn_add_remote_body (s_ctl s) _ c set0 E) (Hret ROk) s (or_introl eq_refl))).
    + left. unfold supersedes_none. rewrite E. discriminate.
  - (* InStun *)
    unfold step. cbn [step_m]. rewrite with_state_eq.
    destruct (s_closed s); [right; split; [right; reflexivity|constructor]|].
    destruct (find_local lh s) as [l|]; [|right; split; [right; reflexivity|constructor]].
    exact (proj1 (sn_handle_inbound cfg l src m (s_ctl s) s (or_introl eq_refl))).
Qed.

(* ---- histories ---------------------------------------------------------------------------------------------------- *)
Fixpoint quiet (cfg : config) (s : state) (ops : list op) : Prop :=
  match ops with
  | [] => True
  | o :: t => ~ renominates_or_restarts s o /\ quiet cfg (fst (step cfg s o)) t
  end.

Fixpoint trace (cfg : config) (s : state) (ops : list op) : list out :=
  match ops with
  | [] => []
  | o :: t => snd (step cfg s o) ++ trace cfg (fst (step cfg s o)) t
  end.

Theorem history_single_nomination cfg ops : forall s, quiet cfg s ops ->
  nom_keep s (runs cfg s ops) /\ Forall (use_ok (runs cfg s ops)) (trace cfg s ops).
Proof.
  induction ops as [|o t IH]; intros s Hq; cbn [runs fold_left trace].
  - split; [right; reflexivity|constructor].
  - destruct Hq as [Hr Hq]. fold (runs cfg (fst (step cfg s o)) t).
    destruct (step_single_nomination cfg s o) as [HR|H1]; [contradiction|].
    pose proof (IH _ Hq) as H2.
    destruct (mp_trans (single_prov False) s _ _ _ _ (or_intror H1) (or_intror H2)) as [[]|H]. exact H.
Qed.

(* all USE-CANDIDATE requests of the stretch go from one socket to one address *)
Corollary use_candidate_requests_share_one_pair cfg ops s lh1 dst1 m1 lh2 dst2 m2 :
  quiet cfg s ops ->
  In (OSend lh1 dst1 m1) (trace cfg s ops) -> m_class m1 = 0 -> m_use m1 = true ->
  In (OSend lh2 dst2 m2) (trace cfg s ops) -> m_class m2 = 0 -> m_use m2 = true ->
  lh1 = lh2 /\ dst1 = dst2.
Proof.
  intros Hq I1 C1 U1 I2 C2 U2. destruct (history_single_nomination cfg ops s Hq) as [_ HF]. rewrite Forall_forall in HF.
  destruct (HF _ I1 C1 U1) as [np1 [E1 [-> ->]]]. destruct (HF _ I2 C2 U2) as [np2 [E2 [-> ->]]].
  rewrite E1 in E2. injection E2 as <-. auto.
Qed.
