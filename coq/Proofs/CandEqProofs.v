(* C16: Equal / DeepEqual are lawful (Model/Cand.v over the generated predicates of Gen/CandEq.v) *)
From Coq Require Import ZArith NArith Bool String Ascii List Lia Permutation.
From Ice Require Import Model.Wrap Model.CandVariant Model.Cand Gen.Names Gen.CandEq.
Import ListNotations.
Local Open Scope Z_scope.

(* the proofs must hold for both values of every repair flag (Model/CandVariant.v) *)
Global Opaque fix_deep_equal fix_marshal_rport0 fix_nomination_size fix_ext_empty_key fix_empty_raddr.

(* ---------------------------------------------------------------- what the generated predicates say *)

Definition resolved_match (a b : cand) : bool :=
  match c_resolved a, c_resolved b with
  | None, None => true
  | Some x, Some y => addr_equal x y
  | _, _ => false
  end.

Definition fields_equal (a b : cand) : bool :=
  (c_net a =? c_net b) && String.eqb (c_addr a) (c_addr b) && (c_port a =? c_port b) && (c_tcp a =? c_tcp b).

Lemma transport_equal_spec a b : transport_equal a b = resolved_match a b && fields_equal a b.
Proof.
  unfold transport_equal, resolved_match, fields_equal, transportAddressEqual.
  destruct (c_resolved a) as [x|], (c_resolved b) as [y|]; cbn [negb orb andb]; try reflexivity.
  destruct (addr_equal x y); reflexivity.
Qed.

Lemma rel_equal_spec a b : rel_equal a b = opt_rel_eqb a b.
Proof.
  unfold rel_equal, opt_rel_eqb, RelatedAddress_Equal.
  destruct a as [[x p]|], b as [[y q]|]; cbn [negb andb fst snd]; reflexivity.
Qed.

Lemma equal_spec a b :
  equal a b = resolved_match a b && fields_equal a b && (c_type a =? c_type b) && opt_rel_eqb (c_rel a) (c_rel b).
Proof. unfold equal, Candidate_Equal. now rewrite transport_equal_spec, rel_equal_spec. Qed.

Lemma deep_equal_spec a b :
  deep_equal a b = equal a b && extensions_equal (if fix_deep_equal then extensions a else c_exts a) (extensions b).
Proof. reflexivity. Qed.

(* ---------------------------------------------------------------- Equal *)

Lemma addr_equal_refl x : addr_equal x x = true.
Proof. unfold addr_equal. now rewrite !Bool.eqb_reflx, String.eqb_refl, Z.eqb_refl. Qed.

Lemma addr_equal_sym x y : addr_equal x y = addr_equal y x.
Proof.
  unfold addr_equal. rewrite (Z.eqb_sym (rs_port x)), (String.eqb_sym (rs_key x)).
  destruct (rs_tcp x), (rs_tcp y), (rs_is4 x), (rs_is4 y); reflexivity.
Qed.

Lemma opt_rel_eqb_refl a : opt_rel_eqb a a = true.
Proof. destruct a as [[x p]|]; simpl; [|reflexivity]. now rewrite String.eqb_refl, Z.eqb_refl. Qed.

Lemma opt_rel_eqb_sym a b : opt_rel_eqb a b = opt_rel_eqb b a.
Proof.
  destruct a as [[x p]|], b as [[y q]|]; simpl; try reflexivity.
  now rewrite String.eqb_sym, Z.eqb_sym.
Qed.

Lemma opt_rel_eqb_eq a b : opt_rel_eqb a b = true <-> a = b.
Proof.
  destruct a as [[x p]|], b as [[y q]|]; simpl; split; intros H; try congruence; try reflexivity.
  - apply andb_true_iff in H. destruct H as [H1 H2]. apply String.eqb_eq in H1. apply Z.eqb_eq in H2. congruence.
  - injection H as -> ->. now rewrite String.eqb_refl, Z.eqb_refl.
Qed.

Lemma equal_refl c : equal c c = true.
Proof.
  rewrite equal_spec. unfold resolved_match, fields_equal.
  rewrite !Z.eqb_refl, String.eqb_refl, opt_rel_eqb_refl.
  destruct (c_resolved c); [now rewrite addr_equal_refl|reflexivity].
Qed.

Lemma equal_sym a b : equal a b = equal b a.
Proof.
  rewrite !equal_spec. unfold resolved_match, fields_equal.
  rewrite (Z.eqb_sym (c_net a)), (Z.eqb_sym (c_port a)), (Z.eqb_sym (c_tcp a)), (Z.eqb_sym (c_type a)),
          (String.eqb_sym (c_addr a)), (opt_rel_eqb_sym (c_rel a)).
  destruct (c_resolved a), (c_resolved b); try reflexivity. now rewrite addr_equal_sym.
Qed.

Lemma equal_tcp a b : equal a b = true -> c_tcp a = c_tcp b.
Proof.
  rewrite equal_spec. unfold fields_equal. intros H.
  apply andb_true_iff in H. destruct H as [H _].
  apply andb_true_iff in H. destruct H as [H _].
  apply andb_true_iff in H. destruct H as [_ H].
  apply andb_true_iff in H. destruct H as [_ H].
  now apply Z.eqb_eq.
Qed.

(* ---------------------------------------------------------------- extension lists *)

Lemma ext_eqb_spec a b : reflect (a = b) (ext_eqb a b).
Proof.
  destruct a as [k v], b as [k' v']. unfold ext_eqb. cbn [fst snd].
  destruct (String.eqb_spec k k'), (String.eqb_spec v v'); constructor; congruence.
Qed.

Lemma ext_eqb_refl a : ext_eqb a a = true.
Proof. destruct (ext_eqb_spec a a); congruence. Qed.

Lemma count_app k a b : count_ext k (a ++ b) = (count_ext k a + count_ext k b)%nat.
Proof. induction a as [|x a IH]; simpl; [reflexivity|]. rewrite IH. lia. Qed.

Lemma count_pos_in k l : (0 < count_ext k l)%nat -> In k l.
Proof.
  induction l as [|x l IH]; simpl; [lia|]. destruct (ext_eqb_spec k x); [auto|]. intros H. right. apply IH. lia.
Qed.

Lemma count_perm k l1 l2 : Permutation l1 l2 -> count_ext k l1 = count_ext k l2.
Proof. induction 1; simpl; lia. Qed.

Lemma counts_perm l1 : forall l2, List.length l1 = List.length l2 ->
  (forall k, In k l1 -> count_ext k l1 = count_ext k l2) -> Permutation l1 l2.
Proof.
  induction l1 as [|x r IH]; intros l2 Hl Hc.
  - destruct l2; [constructor|discriminate].
  - assert (Hx : In x l2).
    { apply count_pos_in. rewrite <- (Hc x (or_introl eq_refl)). simpl. rewrite ext_eqb_refl. lia. }
    destruct (in_split _ _ Hx) as [a [b ->]].
    apply Permutation_cons_app. apply IH.
    + rewrite app_length in *. simpl in Hl. lia.
    + intros k Hk. specialize (Hc k (or_intror Hk)).
      rewrite count_app in *. simpl in Hc. destruct (ext_eqb k x); lia.
Qed.

Lemma forallb_counts l1 l2 :
  forallb (fun k => Nat.eqb (count_ext k l1) (count_ext k l2)) l1 = true <->
  (forall k, In k l1 -> count_ext k l1 = count_ext k l2).
Proof.
  rewrite forallb_forall. split; intros H k Hk; specialize (H k Hk); now apply Nat.eqb_eq.
Qed.

Lemma extensions_equal_perm l1 l2 : extensions_equal l1 l2 = true <-> Permutation l1 l2.
Proof.
  unfold extensions_equal. destruct (Nat.eqb_spec (List.length l1) (List.length l2)) as [Hl|Hl]; cbn [negb].
  - destruct l1 as [|x [|x' r]].
    + destruct l2; [|discriminate]. split; [constructor|reflexivity].
    + destruct l2 as [|y [|? ?]]; try discriminate.
      destruct (ext_eqb_spec x y) as [->|Hn]; split; intros H; try reflexivity; try discriminate.
      apply Permutation_length_1 in H. contradiction.
    + rewrite forallb_counts. split.
      * intros H. apply counts_perm; assumption.
      * intros H k _. now apply count_perm.
  - split; [discriminate|]. intros H. apply Permutation_length in H. contradiction.
Qed.

Lemma extensions_equal_refl l : extensions_equal l l = true.
Proof. apply extensions_equal_perm. apply Permutation_refl. Qed.

Lemma extensions_equal_sym l1 l2 : extensions_equal l1 l2 = extensions_equal l2 l1.
Proof.
  apply Bool.eq_iff_eq_true. rewrite !extensions_equal_perm. split; apply Permutation_sym.
Qed.

(* ---------------------------------------------------------------- DeepEqual *)

Lemma deep_implies_equal a b : deep_equal a b = true -> equal a b = true.
Proof. rewrite deep_equal_spec. intros H. apply andb_true_iff in H. tauto. Qed.

(* reflexive once extensionsEqual compares like with like; in the pinned code only without a tcptype *)
Lemma deep_equal_refl c : fix_deep_equal = true \/ c_tcp c = 0 -> deep_equal c c = true.
Proof.
  intros H. rewrite deep_equal_spec, equal_refl. cbn [andb].
  destruct H as [H | H].
  - rewrite H. apply extensions_equal_refl.
  - unfold extensions. rewrite H. cbn [Z.eqb]. destruct fix_deep_equal; apply extensions_equal_refl.
Qed.

Lemma deep_equal_sym a b :
  fix_deep_equal = true \/ c_tcp a = 0 \/ c_tcp b = 0 -> deep_equal a b = deep_equal b a.
Proof.
  intros H. rewrite !deep_equal_spec, (equal_sym b a).
  destruct (equal a b) eqn:E; [|reflexivity]. cbn [andb].
  pose proof (equal_tcp _ _ E) as Ht.
  destruct H as [H | H].
  - rewrite H. apply extensions_equal_sym.
  - assert (Ha : c_tcp a = 0) by (destruct H; congruence).
    assert (Hb : c_tcp b = 0) by congruence.
    unfold extensions. rewrite Ha, Hb. cbn [Z.eqb].
    destruct fix_deep_equal; apply extensions_equal_sym.
Qed.

(* same transport address, type, related address and extension list => Equal and DeepEqual *)
Lemma equal_of_fields a b :
  c_resolved a = c_resolved b -> c_net a = c_net b -> c_addr a = c_addr b -> c_port a = c_port b ->
  c_tcp a = c_tcp b -> c_type a = c_type b -> c_rel a = c_rel b -> equal a b = true.
Proof.
  intros H1 H2 H3 H4 H5 H6 H7. rewrite equal_spec. unfold resolved_match, fields_equal.
  rewrite H1, H2, H3, H4, H5, H6, H7, !Z.eqb_refl, String.eqb_refl, opt_rel_eqb_refl.
  destruct (c_resolved b); [now rewrite addr_equal_refl|reflexivity].
Qed.

Lemma deep_equal_of_fields a b :
  equal a b = true -> c_tcp a = c_tcp b -> c_exts a = c_exts b ->
  fix_deep_equal = true \/ c_tcp a = 0 -> deep_equal a b = true.
Proof.
  intros He Ht Hx H. rewrite deep_equal_spec, He. cbn [andb].
  unfold extensions. rewrite <- Ht, <- Hx.
  destruct H as [H | H].
  - rewrite H. apply extensions_equal_refl.
  - rewrite H. cbn [Z.eqb]. destruct fix_deep_equal; apply extensions_equal_refl.
Qed.
