(* C20 inside the two-agent system: along any schedule, over any stretch in which agent a's selector is not restarted,
   the nomination value a remembers never decreases -- whatever the network delivers, drops, duplicates or reorders. *)
From Coq Require Import ZArith Bool List.
From Ice Require Import Model.AgentTypes Model.AgentCore Model.TwoAgents Model.TwoAgentsData Gen.Consts
  Proofs.AgentEnds Proofs.AgentC20 Proofs.AgentC20Hist Proofs.TwoAgentsDataProofs Proofs.TwoAgentsProjection.
Import ListNotations.
Local Open Scope Z_scope.

Lemma dsys_run_app cfga cfgb t d x y : dsys_run cfga cfgb t d (x ++ y) = dsys_run cfga cfgb t (dsys_run cfga cfgb t d x) y.
Proof. unfold dsys_run. apply fold_left_app. Qed.

Theorem system_last_nomination_monotone cfga cfgb t a d ops1 ops2 :
  let d1 := dsys_run cfga cfgb t d ops1 in
  no_restart (cfg_of cfga cfgb a) (agent_of a (d_sys d1)) (history_of cfga cfgb t a d1 ops2) ->
  nom_le (s_last_nom (agent_of a (d_sys d1)))
         (s_last_nom (agent_of a (d_sys (dsys_run cfga cfgb t d (ops1 ++ ops2))))).
Proof.
  intros d1 Hn. rewrite dsys_run_app. fold d1. rewrite agent_state_is_own_history.
  exact (last_nomination_monotone (cfg_of cfga cfgb a) [] (history_of cfga cfgb t a d1 ops2) (agent_of a (d_sys d1)) Hn).
Qed.
