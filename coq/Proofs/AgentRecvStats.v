(* C07, receiving side: while one pair stays selected, the bytes counted as received on that pair move exactly with the
   bytes the connection took in for its reader (already read + still queued): only an accepted application datagram
   moves either, by its length (one packet per non-empty datagram). *)
From Coq Require Import ZArith Bool List Lia.
From Ice Require Import Model.AgentTypes Model.AgentCore Gen.Consts Proofs.AgentFrame Proofs.AgentC06 Proofs.AgentC03Sel
  Proofs.AgentRem Proofs.AgentRemOK Proofs.AgentSupersede Proofs.AgentEnds Proofs.AgentC07 Proofs.AgentSentStats.
Import ListNotations.
Local Open Scope Z_scope.

Fixpoint qbytes (l : list payload) : Z := match l with [] => 0 | p :: t => pl_len p + qbytes t end.

(* application bytes the connection has taken in: handed to Read so far + waiting in the reader's queue *)
Definition taken (s : state) : Z := s_bytes_recv s + qbytes (s_buf s).

Lemma qbytes_app a b : qbytes (a ++ b) = qbytes a + qbytes b.
Proof. induction a as [|x t IH]; cbn; [reflexivity|rewrite IH; lia]. Qed.

Definition rstrict (p p' : pair) : Prop := p_bytes_recv p' = p_bytes_recv p /\ p_pkts_recv p' = p_pkts_recv p.

Definition recv_frame : mprop.
Proof.
  refine (MProp (fun s _ s' => ends_rel rstrict s s') _ _).
  - intros s. apply ends_rel_refl. intros p. split; reflexivity.
  - intros s o1 s1 o2 s2 H1 H2. eapply ends_rel_trans; [|exact H1|exact H2].
    unfold rstrict. intros p q r [A B] [C D]. split; congruence.
Defined.

Lemma rf_same s s' : s_checklist s' = s_checklist s -> s_next_pair s' = s_next_pair s -> ends_rel rstrict s s'.
Proof. intros E1 E2. split; [lia|]. rewrite E1. intros p' Hp. right. exists p'. repeat split; auto. Qed.

Lemma rf_empty s s' : s_checklist s' = [] -> s_next_pair s' = s_next_pair s -> ends_rel rstrict s s'.
Proof. intros E1 E2. split; [lia|]. rewrite E1. intros p' []. Qed.

Lemma rf_upd id f s : (forall q, p_id (f q) = p_id q /\ p_bytes_recv (f q) = p_bytes_recv q /\ p_pkts_recv (f q) = p_pkts_recv q) -> ends_rel rstrict s (upd id f s).
Proof.
  intros Hf. split; [cbn; lia|]. unfold upd. cbn [s_checklist set_s_checklist]. intros p' Hp. right.
  apply in_map_iff in Hp. destruct Hp as [q [E Hq]]. exists q. split; [exact Hq|].
  destruct (p_id q =? id); subst p'; [|repeat split; reflexivity]. destruct (Hf q) as [A [B C]]. repeat split; auto.
Qed.

Lemma rf_add_pair l r s : ends_rel rstrict s (fst (add_pair l r s)).
Proof.
  unfold add_pair. rewrite modify_fst. split; [cbn; lia|]. cbn [s_checklist set_s_next_pair set_s_checklist].
  intros p' Hp. apply in_app_iff in Hp. destruct Hp as [Hp|[<-|[]]].
  - right. exists p'. repeat split; auto.
  - left. cbn. lia.
Qed.

Lemma rf_update_conn st : sat recv_frame (update_conn st).
Proof.
  intros s. cbn. unfold update_conn. destruct (s_conn s =? st); cbn; [apply rf_same; reflexivity|].
  destruct (st =? ConnectionStateFailed); cbn; [apply rf_empty; reflexivity|apply rf_same; reflexivity].
Qed.

Ltac rf_leaf :=
  match goal with
  | |- sat recv_frame (update_conn _) => apply rf_update_conn
  | |- sat recv_frame (emit _) => apply sat_emit; intros ?s; cbn; apply rf_same; reflexivity
  | |- sat recv_frame (upd_pair _ _) =>
    apply sat_upd_pair; intros ?s; cbn; apply (rf_upd _ _ s); intros ?q; cbn; repeat split; reflexivity
  | |- sat recv_frame (modify _) =>
    apply sat_modify; intros ?s; cbn;
    first [ apply rf_same; cbn; destruct_matches; reflexivity
          | apply rf_empty; cbn; destruct_matches; reflexivity
          | apply (rf_add_pair _ _ s) ]
  end.

Create HintDb agentcore_rf.
#[export] Hint Unfold seen fresh_tx invalidate_pending send_binding_request ping_candidate
  nominate_pair send_binding_success retarget_cache copy_activity
  add_local set_selector ping_all check_keepalive contact_controlling
  contact_controlled contact_candidates handle_request_controlling handle_success_controlling
  handle_success_controlled accept_nomination handle_request_controlled handle_role_conflict
  handle_inbound_request handle_inbound tick do_write conn_write
  conn_write_to_pair conn_read do_start do_set_remote_creds do_restart do_renominate renominate_op do_close step_m
  set_selected reselect dispatch_request dispatch_success validate_selected : agentcore_rf.

Lemma rf_add_pair_sat l r : sat recv_frame (add_pair l r).
Proof. intros s. exact (rf_add_pair l r s). Qed.

Lemma rf_add_remote_prflx cfg c k :
  c_typ c = CandidateTypePeerReflexive -> (forall ok, sat recv_frame (k ok)) -> sat recv_frame (add_remote cfg c k).
Proof.
  intros Hc Hk. unfold add_remote, add_remote_body. rewrite Hc. change (CandidateTypePeerReflexive =? CandidateTypePeerReflexive) with true.
  cbv iota. cbn [for_each]. sat_split; try apply Hk; try apply rf_add_pair_sat; try rf_leaf.
Qed.

Ltac rf_go :=
  sat_split;
  try apply rf_add_pair_sat;
  try rf_leaf;
  try match goal with
  | |- sat recv_frame (add_remote _ _ _) => apply rf_add_remote_prflx; [reflexivity|intros ?ok; rf_go]
  end.

Lemma rf_step cfg o : (match o with AddRemote _ | InData _ _ _ => False | _ => True end) -> sat recv_frame (step_m cfg o).
Proof.
  intros Ho. destruct o; try contradiction; cbn [step_m]; autounfold with agentcore_rf; rf_go.
Qed.

(* what the connection has taken in changes only when a datagram arrives *)
Definition intake (s : state) := (s_bytes_recv s, s_buf s).

Lemma intake_update_conn st : sat (frame intake) (update_conn st).
Proof. apply update_conn_frame; intros; reflexivity. Qed.

Lemma intake_frame cfg o :
  (match o with InData _ _ _ | Read => False | _ => True end) -> sat (frame intake) (step_m cfg o).
Proof.
  intros Ho. destruct o; try contradiction; cbn [step_m]; sat_decompose; try (sat_base frame_tac); try apply intake_update_conn.
Qed.

Lemma taken_frame cfg o s :
  (match o with InData _ _ _ => False | _ => True end) -> taken (fst (step cfg s o)) = taken s.
Proof.
  intros Ho. destruct (match o with Read => true | _ => false end) eqn:Er.
  - destruct o; try discriminate Er. unfold step. cbn [step_m]. rewrite conn_read_spec. unfold taken.
    destruct (s_closed s); [reflexivity|]. destruct (s_buf s) as [|q t] eqn:Eb; cbn; [rewrite Eb; reflexivity|lia].
  - assert (H : sat (frame intake) (step_m cfg o)) by (apply intake_frame; destruct o; try exact I; try contradiction; discriminate Er).
    specialize (H s). cbn in H. unfold intake in H. injection H as H1 H2. unfold taken, step. rewrite H1, H2. reflexivity.
Qed.

(* ---- one operation ------------------------------------------------------------------------------------------ *)
Lemma rf_step_rel cfg o s :
  (match o with AddRemote _ | InData _ _ _ => False | _ => True end) -> ends_rel rstrict s (fst (step cfg s o)).
Proof. intros H. exact (rf_step cfg o H s). Qed.

(* accept_data from a state whose selected pair [p] is listed *)
Lemma accept_data_sync q s id p :
  InvU s -> 0 <= pl_len q -> s_selected s = Some id -> In p (s_checklist s) -> p_id p = id ->
  let s' := fst (accept_data q s) in
  s_selected s' = Some id /\
  forall p', In p' (s_checklist s') -> p_id p' = id ->
    taken s' - taken s = p_bytes_recv p' - p_bytes_recv p /\
    p_pkts_recv p' - p_pkts_recv p = (if 0 <? taken s' - taken s then 1 else 0).
Proof.
  intros HU Hq Hsel Hp Eid. unfold accept_data. rewrite seq_fst, modify_fst.
  set (s1 := set_s_buf (s_buf s ++ [q]) s).
  assert (Et : taken s1 = taken s + pl_len q) by (unfold taken, s1; cbn; rewrite qbytes_app; cbn; lia).
  destruct (0 <? pl_len q) eqn:El.
  - rewrite with_state_eq. unfold selected_pair. change (s_selected s1) with (s_selected s). rewrite Hsel.
    change (pair_by_id id s1) with (pair_by_id id s). rewrite (pair_by_id_listed id s p HU Hp Eid).
    rewrite upd_pair_fst. cbv zeta. split; [exact Hsel|]. intros p' Hp' Eid'.
    match goal with |- context [taken ?st - taken s] => assert (E2 : taken st = taken s + pl_len q) by (rewrite <- Et; reflexivity); rewrite E2 end.
    unfold upd in Hp'. cbn [s_checklist set_s_checklist] in Hp'. change (s_checklist s1) with (s_checklist s) in Hp'.
    apply in_map_iff in Hp'. destruct Hp' as [q0 [Eq Hq0]].
    assert (q0 = p).
    { apply (unique_id s p q0 HU Hp Hq0). destruct (p_id q0 =? p_id p) eqn:E; subst p'; cbn in Eid'; congruence. }
    subst q0. rewrite Z.eqb_refl in Eq. subst p'. cbn. apply Z.ltb_lt in El.
    replace (taken s + pl_len q - taken s) with (pl_len q) by lia.
    destruct (0 <? pl_len q) eqn:El'; [|apply Z.ltb_ge in El'; lia]. split; lia.
  - unfold nop. cbn [fst]. cbv zeta. split; [exact Hsel|]. intros p' Hp' Eid'. change (s_checklist s1) with (s_checklist s) in Hp'.
    assert (p' = p) by (apply (unique_id s p p' HU Hp Hp'); congruence). subst p'.
    apply Z.ltb_ge in El. assert (pl_len q = 0) by lia. rewrite Et. replace (taken s + pl_len q - taken s) with 0 by lia.
    cbn. split; lia.
Qed.

Definition payload_ok (o : op) : Prop := match o with InData _ _ q => 0 <= pl_len q | _ => True end.

Lemma plain_recv_sync cfg s o p :
  InvU s -> (match o with AddRemote _ | InData _ _ _ => False | _ => True end) ->
  In p (s_checklist s) ->
  let s' := fst (step cfg s o) in
  forall p', In p' (s_checklist s') -> p_id p' = p_id p ->
    taken s' - taken s = p_bytes_recv p' - p_bytes_recv p /\
    p_pkts_recv p' - p_pkts_recv p = (if 0 <? taken s' - taken s then 1 else 0).
Proof.
  intros HU Ho Hp s' p' Hp' Eid.
  assert (Hc : taken s' = taken s) by (apply taken_frame; destruct o; try contradiction; exact I).
  destruct (not_new cfg s o rstrict p p' HU Hp Hp' Eid (rf_step_rel cfg o s Ho)) as [Eb Ek].
  rewrite Hc, Eb, Ek, !Z.sub_diag. split; reflexivity.
Qed.

(* From a state whose selected pair [p] (ID [id]) is listed, any operation: if a pair is listed under [id] afterwards,
   what the connection has taken in and that pair's received bytes moved by the same amount, and the pair's received
   packets by one exactly when that amount is positive. *)
Theorem step_recv_sync cfg s o id p :
  InvU s -> (match o with AddRemote _ => AgentRem.Rm s | _ => True end) -> payload_ok o ->
  s_selected s = Some id -> In p (s_checklist s) -> p_id p = id ->
  let s' := fst (step cfg s o) in
  forall p', In p' (s_checklist s') -> p_id p' = id ->
    taken s' - taken s = p_bytes_recv p' - p_bytes_recv p /\
    p_pkts_recv p' - p_pkts_recv p = (if 0 <? taken s' - taken s then 1 else 0).
Proof.
  intros HU HR Hpl Hsel Hp Eid s' p' Hp' Eid'.
  destruct o; try (subst id; unfold s' in *; match goal with |- context [step cfg s ?o] => exact (plain_recv_sync cfg s o p HU I Hp p' Hp' Eid') end).
  - (* AddRemote *)
    assert (Hc : taken s' = taken s) by (apply taken_frame; exact I).
    pose proof (add_remote_keeps_pairs cfg c s HU HR) as [_ [keptl [new [Ecl [HK _]]]]].
    pose proof (step_preserves_InvU cfg (AddRemote c) s HU) as HU'.
    destruct (Forall2_in_l _ _ _ p HK Hp) as [q' [Hq' Hk]].
    assert (q' = p').
    { apply (unique_id (fst (step cfg s (AddRemote c))) p' q'); [exact HU'|exact Hp'|unfold step; fold (step cfg s (AddRemote c)); rewrite Ecl; apply in_or_app; left; exact Hq'|].
      destruct Hk as [E1 _]. congruence. }
    subst q'. unfold kept, stats in Hk. decompose [and] Hk.
    match goal with H : (_, _, _, _, _, _, _, _) = _ |- _ => injection H as ? ? ? ? ? ? ? ? end.
    rewrite Hc. replace (p_bytes_recv p') with (p_bytes_recv p) by congruence. replace (p_pkts_recv p') with (p_pkts_recv p) by congruence.
    rewrite !Z.sub_diag. split; reflexivity.
  - (* InData *)
    assert (Hnop : In p' (s_checklist s) -> taken s - taken s = p_bytes_recv p' - p_bytes_recv p /\ p_pkts_recv p' - p_pkts_recv p = (if 0 <? taken s - taken s then 1 else 0)).
    { intros Hin. assert (p' = p) by (apply (unique_id s p p' HU Hp Hin); congruence). subst p'. rewrite !Z.sub_diag. split; reflexivity. }
    unfold s', step in *. cbn [step_m] in *. rewrite with_state_eq in *.
    destruct (s_closed s); [exact (Hnop Hp')|]. destruct (find_local lh s) as [l|]; [|exact (Hnop Hp')].
    unfold inbound_data in *. destruct (pl_stun p0); [exact (Hnop Hp')|]. rewrite with_state_eq in *.
    cbn in Hpl.
    destruct (cache_lookup (c_h l) src s) as [rh|].
    + unfold seen in *. rewrite seq_fst, modify_fst in *.
      match goal with |- context [accept_data p0 ?st] =>
        destruct (accept_data_sync p0 st id p HU Hpl Hsel Hp Eid) as [_ H]; exact (H p' Hp' Eid') end.
    + destruct (find_remote (c_net l) src s) as [rc|]; [|exact (Hnop Hp')].
      unfold seen in *. rewrite !seq_fst, !modify_fst in *.
      match goal with |- context [accept_data p0 ?st] =>
        destruct (accept_data_sync p0 st id p HU Hpl Hsel Hp Eid) as [_ H]; exact (H p' Hp' Eid') end.
Qed.

(* ---- histories ---------------------------------------------------------------------------------------------- *)
Lemma step_recv_sync_Rc cfg s o id p :
  InvU s -> Rc s -> payload_ok o -> s_selected s = Some id -> In p (s_checklist s) -> p_id p = id ->
  forall p', In p' (s_checklist (fst (step cfg s o))) -> p_id p' = id ->
    taken (fst (step cfg s o)) - taken s = p_bytes_recv p' - p_bytes_recv p.
Proof.
  intros HU HR Hpl Hsel Hp Eid p' Hp' Eid'.
  assert (Hcase : (match o with AddRemote _ => AgentRem.Rm s | _ => True end) \/ (exists c, o = AddRemote c /\ s_closed s = true)).
  { destruct o; try (left; exact I). destruct HR as [Hc|HR]; [right; exists c; auto|left; exact HR]. }
  destruct Hcase as [HR'|[c [-> Hc]]].
  - exact (proj1 (step_recv_sync cfg s o id p HU HR' Hpl Hsel Hp Eid p' Hp' Eid')).
  - rewrite closed_add_remote_noop in * by exact Hc.
    assert (p' = p) by (apply (unique_id s p p' HU Hp Hp'); congruence). subst p'. lia.
Qed.

(* While one pair stays selected, the bytes the connection took in for its reader over any stretch of an admissible
   history (read + still queued) are exactly the bytes counted as received on that pair over the same stretch. *)
Theorem selected_pair_recv_bytes_track cfg ops : forall s id p,
  G s -> Rc s -> ops_ok cfg s ops -> Forall payload_ok ops -> sel_always cfg s ops id ->
  In p (s_checklist s) -> p_id p = id ->
  exists p', In p' (s_checklist (runs cfg s ops)) /\ p_id p' = id /\
             taken (runs cfg s ops) - taken s = p_bytes_recv p' - p_bytes_recv p.
Proof.
  induction ops as [|o t IH]; intros s id p HG HR Hok Hpl Hsel Hp Eid; cbn [runs fold_left].
  - exists p. repeat split; auto. lia.
  - destruct Hok as [Ho Ht]. destruct Hsel as [Hsel Hsel']. cbn in Hsel'.
    pose proof (step_G cfg s o HG) as HG1. pose proof (step_Rc cfg s o Ho HR) as HR1.
    assert (Hsel1 : s_selected (fst (step cfg s o)) = Some id) by (destruct t; exact (proj1 Hsel')).
    destruct HG1 as [Hsv1 HU1]. pose proof Hsv1 as Hsv1'. unfold InvSV in Hsv1'. rewrite Hsel1 in Hsv1'.
    destruct Hsv1' as [p1 [Hp1 [Eid1 _]]].
    pose proof (step_recv_sync_Rc cfg s o id p (proj2 HG) HR (Forall_inv Hpl) Hsel Hp Eid p1 Hp1 Eid1) as D1.
    destruct (IH _ id p1 (conj Hsv1 HU1) HR1 Ht (Forall_inv_tail Hpl) Hsel' Hp1 Eid1) as [p' [Hp' [Eid' D2]]].
    exists p'. split; [exact Hp'|]. split; [exact Eid'|]. fold (runs cfg (fst (step cfg s o)) t). lia.
Qed.
