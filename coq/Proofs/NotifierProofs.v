(* C11: consequences of the notifier invariant: the statements of Props/C11.v. *)
From Coq Require Import Arith Bool List Lia.
Import ListNotations.
From Ice Require Import Model.PrioSpec Model.Notifier Proofs.NotifierInv.

Lemma steps_trans : forall a b c, steps a b -> steps b c -> steps a c.
Proof. intros a b c H1 H2; induction H2; eauto using steps_step. Qed.

Lemma reach_steps : forall s s', reach s -> steps s s' -> reach s'.
Proof. unfold reach; eauto using steps_trans. Qed.

Lemma inv_reach : forall s, reach s -> Inv s.
Proof.
  assert (G : forall a s, steps a s -> Inv a -> Inv s).
  { induction 1; eauto using inv_step. }
  unfold reach; intros s H; eapply G; eauto using inv_init.
Qed.

Lemma run_steps : forall ls s s' evs, run ls s = Some (s', evs) -> steps s s'.
Proof.
  induction ls as [|l ls IH]; simpl; intros s s' evs H.
  - inversion H; constructor.
  - destruct (lstep l s) as [[s1 o]|] eqn:E; [|discriminate].
    destruct (run ls s1) as [[s2 ev2]|] eqn:R; [|discriminate]. inversion H; subst.
    eapply steps_trans; [|eauto]. econstructor; [constructor|]. exists l, o; exact E.
Qed.

Lemma run_reach : forall ls s evs, run ls init = Some (s, evs) -> reach s.
Proof. intros; eapply run_steps; eauto. Qed.

Lemma not_alive_cases : forall p, ~ alive p -> p = DNone \/ p = DExited.
Proof. destruct p; simpl; tauto. Qed.

Lemma nodup_app_l : forall (l r : list nat), NoDup (l ++ r) -> NoDup l.
Proof.
  induction l as [|x l IH]; simpl; intros r N; [constructor|].
  inversion N; subst. constructor; eauto. intro H; apply H1; apply in_or_app; auto.
Qed.

(* ---- C11_fifo_exactly_once ------------------------------------------------------------------ *)
Lemma fifo_exactly_once : forall s st, reach s ->
  (exists rest, accepted s st = invoked s st ++ rest) /\
  NoDup (accepted s st) /\ NoDup (invoked s st) /\
  (quiescent s -> invoked s st = accepted s st).
Proof.
  intros s st R. pose proof (inv_reach s R) as I.
  pose proof (n_fifo _ I st) as F.
  split; [eauto|]. split; [apply (n_acc_nodup _ I)|]. split.
  - pose proof (n_acc_nodup _ I st) as N. rewrite F in N. eapply nodup_app_l; eauto.
  - intros [_ Q].
    assert (C : cur s st = None).
    { destruct (cur s st) as [d|] eqn:C; auto.
      destruct (n_cur_active _ I _ _ C) as [A _]. destruct (Q d) as [E|E]; rewrite E in A; destruct A. }
    destruct (n_idle _ I st (n_run0 _ I st C)) as [Q0 H0].
    rewrite F, Q0, H0. simpl. rewrite app_nil_r. reflexivity.
Qed.

(* every invoked value was accepted (nothing is invented, dropped events are never delivered) *)
Lemma invoked_accepted : forall s st v, reach s -> In v (invoked s st) -> In v (accepted s st).
Proof.
  intros s st v R H. rewrite (n_fifo _ (inv_reach s R) st). apply in_or_app; auto.
Qed.

(* ---- C11_no_self_overlap -------------------------------------------------------------------- *)
Lemma no_self_overlap : forall s d d', reach s ->
  active (dp s d) -> active (dp s d') -> dstream s d = dstream s d' -> d = d'.
Proof.
  intros s d d' R A A' E. pose proof (inv_reach s R) as I.
  pose proof (n_active_cur _ I d A) as C. pose proof (n_active_cur _ I d' A') as C'.
  rewrite E in C. congruence.
Qed.

(* ---- C11_after_graceful_close --------------------------------------------------------------- *)
Lemma dead_step : forall s s', step s s' -> (forall d, ~ alive (dp s d)) -> closed s = true ->
  (forall st, invoked s' st = invoked s st) /\ closed s' = true.
Proof.
  intros s s' H D C. step_cases H; simpl; unfold set_dp, set_kp, set_closed; simpl; auto; try congruence;
    try solve [exfalso; match goal with X : dp s ?d = _ |- _ => apply (D d); rewrite X; exact I end].
Qed.

Lemma kret_stable : forall s s' k, step s s' -> kp s k = KRet ->
  kp s' k = KRet /\ kgrace s' k = kgrace s k.
Proof.
  intros s s' k H K. step_cases H; simpl; unfold set_dp, set_kp, set_closed, upd; simpl; auto;
    upd_cases; auto; congruence.
Qed.

Lemma after_graceful_close : forall s k, reach s -> kp s k = KRet -> kgrace s k = true ->
  (forall d, dp s d = DNone \/ dp s d = DExited) /\
  forall s', steps s s' ->
    (forall d, dp s' d = DNone \/ dp s' d = DExited) /\ (forall st, invoked s' st = invoked s st).
Proof.
  assert (DEAD : forall s k, reach s -> kp s k = KRet -> kgrace s k = true -> forall d, ~ alive (dp s d)).
  { intros s k R K G d A. pose proof (inv_reach s R) as I.
    pose proof (n_grace _ I k K G) as W. rewrite (n_wg _ I) in W.
    apply (n_live2 _ I) in A. destruct (live s); [destruct A|discriminate]. }
  intros s k R K G. split.
  - intros d. apply not_alive_cases. eapply DEAD; eauto.
  - intros s' St.
    assert (P : kp s' k = KRet /\ kgrace s' k = true /\ forall st, invoked s' st = invoked s st).
    { induction St as [|s1 s2 s3 St IH H]; [auto|].
      destruct (IH R K G) as (K1 & G1 & V1).
      pose proof (reach_steps _ _ R St) as R1.
      destruct (kret_stable _ _ k H K1) as [K2 G2].
      assert (C1 : closed s2 = true) by (apply (n_closed_k _ (inv_reach _ R1) k); auto).
      destruct (dead_step _ _ H (DEAD _ _ R1 K1 G1) C1) as [V2 _].
      repeat split; auto; try congruence; intros st; rewrite V2; auto. }
    destruct P as (K' & G' & V'). split; auto.
    intros d. apply not_alive_cases. eapply DEAD; eauto using reach_steps.
Qed.

(* ---- a closed notifier drops new events ------------------------------------------------------ *)
Lemma closed_step : forall s s', step s s' -> closed s = true ->
  closed s' = true /\ forall st, accepted s' st = accepted s st.
Proof.
  intros s s' H C. step_cases H; simpl; unfold set_dp, set_kp, set_closed; simpl; auto; congruence.
Qed.

Lemma closed_drops : forall s s', steps s s' -> closed s = true ->
  closed s' = true /\ forall st, accepted s' st = accepted s st.
Proof.
  induction 1 as [|s1 s2 s3 St IH H]; intros C; auto.
  destruct (IH C) as [C2 A2]. destruct (closed_step _ _ H C2) as [C3 A3].
  split; auto. intros; rewrite A3; auto.
Qed.

(* once Close (graceful or not) has returned, the notifier is closed: together with closed_drops,
   no event enqueued afterwards is ever accepted *)
Lemma close_returned_closed : forall s k, reach s -> kp s k = KRet -> closed s = true.
Proof. intros s k R K. apply (n_closed_k _ (inv_reach s R) k); auto. Qed.

(* ---- Close(true) from inside a handler waits for itself --------------------------------------- *)
Lemma grace_inside_handler_blocks : forall s d v, reach s -> dp s d = DInGrace v ->
  wg s <> 0 /\ lstep (LNestedGraceRet d) s = None.
Proof.
  intros s d v R D. pose proof (inv_reach s R) as I.
  assert (A : alive (dp s d)) by (rewrite D; exact Logic.I).
  apply (n_live2 _ I) in A. rewrite (n_wg _ I).
  assert (W : length (live s) <> 0) by (destruct (live s); [destruct A|discriminate]).
  split; auto. simpl. rewrite D. rewrite (n_wg _ I).
  destruct (length (live s)); [congruence|reflexivity].
Qed.

(* ---- soundness of the acceptor ------------------------------------------------------------------ *)
Lemma event_eqb_true : forall a b, event_eqb a b = true -> a = b.
Proof.
  destruct a, b; simpl; intros H; try discriminate;
    repeat match goal with
    | H : _ && _ = true |- _ => apply andb_prop in H; destruct H
    | H : Nat.eqb _ _ = true |- _ => apply Nat.eqb_eq in H
    | H : Bool.eqb _ _ = true |- _ => apply eqb_prop in H
    end; subst; reflexivity.
Qed.

Lemma events_eqb_true : forall a b, events_eqb a b = true -> a = b.
Proof.
  induction a as [|x a IH]; destruct b as [|y b]; simpl; intros H; try discriminate; auto.
  apply andb_prop in H. destruct H as [H1 H2]. apply event_eqb_true in H1. f_equal; auto.
Qed.

Theorem explains_sound : forall evs, explains evs = true ->
  exists ls s, run ls init = Some (s, evs) /\ reach s.
Proof.
  intros evs H. unfold explains in H.
  destruct (candidate evs) as [ls|]; [|discriminate].
  destruct (run ls init) as [[s evs']|] eqn:R; [|discriminate].
  apply events_eqb_true in H. subst. exists ls, s. split; auto. eapply run_reach; eauto.
Qed.
