(* C06 (part): pair identifiers, and what Restart / Failed leave behind.  For every operation from
   every state satisfying the invariant. *)
From Coq Require Import ZArith Bool List Lia.
From Ice Require Import Model.AgentTypes Model.AgentCore Gen.Consts Proofs.AgentFrame.
Import ListNotations.
Local Open Scope Z_scope.

(* pair IDs are unique and were all handed out by the counter *)
Definition InvU (s : state) : Prop :=
  NoDup (map p_id (s_checklist s)) /\
  Forall (fun p => 1 <= p_id p <= s_next_pair s) (s_checklist s) /\ 0 <= s_next_pair s.

Definition ids_view (s : state) := (s_checklist s, s_next_pair s).

Lemma InvU_view s s' : ids_view s' = ids_view s -> InvU s -> InvU s'.
Proof. unfold ids_view, InvU. intros E. injection E as E1 E2. rewrite E1, E2. auto. Qed.

Lemma NoDup_app_intro_single {A} (l : list A) x : NoDup l -> ~ In x l -> NoDup (l ++ [x]).
Proof.
  induction l as [|y t IH]; cbn; intros Hn Hx; [constructor; [intros []|constructor]|].
  inversion Hn as [|? ? Hy Ht]; subst. constructor.
  - rewrite in_app_iff. cbn. intros [H|[H|[]]]; [contradiction|subst; apply Hx; left; reflexivity].
  - apply IH; [exact Ht|]. intros H. apply Hx. right. exact H.
Qed.

Lemma presU_add_pair l r : sat (preserves InvU) (add_pair l r).
Proof.
  intros s. cbn. intros [H1 [H2 H3]]. unfold InvU. cbn.
  rewrite map_app. cbn. repeat split.
  - apply NoDup_app_intro_single. exact H1.
    intros Hin. apply in_map_iff in Hin. destruct Hin as [q [Hq Hin]].
    rewrite Forall_forall in H2. specialize (H2 q Hin). lia.
  - apply Forall_app. split.
    + eapply Forall_impl; [|exact H2]. cbn. intros; lia.
    + constructor; [cbn; lia|constructor].
  - lia.
Qed.

(* an update that keeps the identifier of the pairs it touches *)
Lemma presU_upd_pair id f :
  (forall q, p_id q = id -> p_id (f q) = id) -> sat (preserves InvU) (upd_pair id f).
Proof.
  intros Hf s. cbn. intros [H1 [H2 H3]]. unfold InvU. cbn.
  assert (E : map p_id (map (fun p => if p_id p =? id then f p else p) (s_checklist s)) = map p_id (s_checklist s)).
  { rewrite map_map. apply map_ext. intros q. destruct (Z.eqb_spec (p_id q) id) as [E|NE]; [rewrite (Hf q E); symmetry; exact E|reflexivity]. }
  rewrite E. repeat split; [exact H1| |exact H3].
  rewrite Forall_forall in *. intros p Hp. apply in_map_iff in Hp. destruct Hp as [q [Hq Hin]].
  specialize (H2 q Hin). destruct (Z.eqb_spec (p_id q) id) as [E2|NE]; subst p; [rewrite (Hf q E2); lia|exact H2].
Qed.

Lemma presU_update_conn st : sat (preserves InvU) (update_conn st).
Proof.
  intros s. cbn. intros H. unfold update_conn. destruct (s_conn s =? st); [exact H|].
  destruct (st =? ConnectionStateFailed); cbn; [|exact H].
  destruct H as [_ [_ H3]]. unfold InvU. cbn. repeat split; [constructor|constructor|exact H3].
Qed.

Ltac presU_tac :=
  cbn; let H := fresh "HInv" in intros H;
  first [ eapply InvU_view; [|exact H]; cbn; destruct_matches; reflexivity
        | destruct H as [_ [_ ?H3]]; unfold InvU; cbn; repeat split; [constructor|constructor|assumption] ].

Theorem step_preserves_InvU cfg o : sat (preserves InvU) (step_m cfg o).
Proof.
  destruct o; sat_decompose.
  all: try apply presU_update_conn.
  all: try (apply presU_upd_pair; cbn; intros; (assumption || reflexivity)).
  all: try (sat_base presU_tac).
  all: try apply presU_add_pair.
Qed.

Lemma InvU_init lu lp : InvU (init lu lp).
Proof. unfold InvU, init. cbn. repeat split; try constructor; lia. Qed.

(* the counter never decreases (not even across Restart), so an identifier is never handed out twice *)
Lemma mono_update_conn st : sat (monotone s_next_pair) (update_conn st).
Proof.
  intros s. cbn. unfold update_conn. destruct (s_conn s =? st); cbn; [lia|]. destruct (st =? ConnectionStateFailed); cbn; lia.
Qed.

Theorem next_pair_id_monotone cfg o : sat (monotone s_next_pair) (step_m cfg o).
Proof.
  destruct o; sat_decompose; try apply mono_update_conn;
    try (sat_base ltac:(cbn; destruct_matches; cbn; lia)).
Qed.

(* a new pair gets an identifier above every identifier handed out before *)
Definition fresh_ids : mprop.
Proof.
  refine (MProp (fun s _ s' => (s_next_pair s <= s_next_pair s') /\ (forall p, In p (s_checklist s') ->
                     (exists q, In q (s_checklist s) /\ p_id q = p_id p) \/ s_next_pair s < p_id p)) _ _).
  - intros s. split; [lia|]. intros p Hp. left. exists p. auto.
  - intros s o1 s1 o2 s2 [M1 H1] [M2 H2]. split; [lia|]. intros p Hp.
    destruct (H2 p Hp) as [[q [Hq E]]|Hlt]; [|right; lia].
    destruct (H1 q Hq) as [[q0 [Hq0 E0]]|Hlt]; [left; exists q0; split; [exact Hq0|congruence]|right; lia].
Defined.

Lemma fresh_add_pair l r : sat fresh_ids (add_pair l r).
Proof.
  intros s. cbn. split; [lia|]. intros p Hp. apply in_app_or in Hp. destruct Hp as [Hp|[<-|[]]].
  - left. exists p. auto.
  - right. cbn. lia.
Qed.

Lemma fresh_upd_pair id f : (forall q, p_id q = id -> p_id (f q) = id) -> sat fresh_ids (upd_pair id f).
Proof.
  intros Hf s. cbn. split; [lia|]. intros p Hp. apply in_map_iff in Hp. destruct Hp as [q [Hq Hin]].
  left. exists q. split; [exact Hin|]. destruct (Z.eqb_spec (p_id q) id) as [E|NE]; subst p; [rewrite (Hf q E); exact E|reflexivity].
Qed.

Lemma fresh_update_conn st : sat fresh_ids (update_conn st).
Proof.
  intros s. cbn. unfold update_conn. destruct (s_conn s =? st); cbn.
  - split; [lia|]. intros p Hp. left. exists p. auto.
  - destruct (st =? ConnectionStateFailed); cbn; (split; [lia|]); intros p Hp; [destruct Hp|left; exists p; auto].
Qed.

Ltac fresh_tac :=
  cbn; destruct_matches; cbn; (split; [lia|]);
  let p := fresh "p" in let Hp := fresh "Hp" in intros p Hp;
  first [ left; exists p; split; [exact Hp|reflexivity]
        | cbn in Hp; contradiction ].

Theorem pair_ids_never_reused cfg o : sat fresh_ids (step_m cfg o).
Proof.
  destruct o; sat_decompose.
  all: try apply fresh_update_conn.
  all: try (apply fresh_upd_pair; cbn; intros; (assumption || reflexivity)).
  all: try apply fresh_add_pair.
  all: try (sat_base fresh_tac).
Qed.

(* ---- Restart and Failed leave no residue -------------------------------------------------------- *)
Definition no_residue (s : state) : Prop :=
  s_checklist s = [] /\ s_pending s = [] /\ s_selected s = None /\ s_locals s = [] /\ s_remotes s = [].

Theorem restart_leaves_no_residue cfg lu lp s :
  s_closed s = false -> no_residue (fst (step cfg s (Restart lu lp))).
Proof.
  intros Hc. unfold step, step_m, do_restart, with_state. rewrite Hc.
  unfold seq, modify, set_selector, with_state, update_conn, emit, nop. cbn.
  destruct (s_conn s =? ConnectionStateNew); cbn; [repeat split|].
  destruct (s_conn s =? ConnectionStateChecking); cbn; repeat split.
Qed.

Theorem failed_leaves_no_residue s :
  s_conn s <> ConnectionStateFailed -> no_residue (fst (update_conn ConnectionStateFailed s)).
Proof.
  intros H. unfold update_conn. apply Z.eqb_neq in H. rewrite H. cbn. repeat split.
Qed.

(* the generation's credentials are replaced and the remote ones forgotten *)
Theorem restart_resets_credentials cfg lu lp s :
  s_closed s = false ->
  let s' := fst (step cfg s (Restart lu lp)) in
  s_lufrag s' = lu /\ s_lpwd s' = lp /\ s_rufrag s' = 0 /\ s_rpwd s' = 0.
Proof.
  intros Hc. unfold step, step_m, do_restart, with_state. rewrite Hc.
  unfold seq, modify, set_selector, with_state, update_conn, emit, nop. cbn.
  destruct (s_conn s =? ConnectionStateNew); cbn; [repeat split|].
  destruct (s_conn s =? ConnectionStateChecking); cbn; repeat split.
Qed.
