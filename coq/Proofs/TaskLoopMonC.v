From Coq Require Import Arith Bool List Lia.
Import ListNotations.
From Ice Require Import Model.PrioSpec Model.TaskLoop Proofs.TaskLoopInv Proofs.TaskLoopProofs Proofs.TaskLoopMonA Proofs.TaskLoopMonB.

Ltac has_cases :=
  repeat match goal with
  | |- context [has ?p ?tr] => let E := fresh "E" in destruct (has p tr) eqn:E
  end.

Ltac true_prem :=
  repeat match goal with
  | G : true = true -> _ |- _ => specialize (G eq_refl)
  | X : after_onclose (lp ?s), Y : lp ?s = _ |- _ => rewrite Y in X; simpl in X
  | X : False |- _ => destruct X
  end.

Section Step.
  Variables (l : label) (s s' : state) (tr : list event).
  Hypothesis I : Inv s.
  Hypothesis T : TI s tr.
  Hypothesis H : lstep l s = Some s'.

  Lemma st_sfx_c : count is_any_start (suffix_after is_close_ret (tr ++ ev_of l)) = 0 /\
                   count is_any_end (suffix_after is_close_ret (tr ++ ev_of l)) = 0.
  Proof.
    prelude I T H l; post.
    all: destruct Tsfxc as [S1 S2]; has_cases; true_prem; rewrite ?count_snoc; simpl; rewrite ?S1, ?S2;
         try solve [split; reflexivity | split; (reflexivity || lia) | congruence].
  Qed.

  Lemma st_sfx_o : count is_any_start (suffix_after is_onclose_start (tr ++ ev_of l)) = 0 /\
                   count is_any_end (suffix_after is_onclose_start (tr ++ ev_of l)) = 0.
  Proof.
    prelude I T H l; post.
    all: destruct Tsfxo as [S1 S2]; has_cases; true_prem; rewrite ?count_snoc; simpl; rewrite ?S1, ?S2;
         try solve [split; reflexivity | split; (reflexivity || lia) | congruence].
  Qed.

  Lemma st_crets : count is_close_ret (tr ++ ev_of l) =
                   count is_close_ret (suffix_after is_onclose_end (tr ++ ev_of l)).
  Proof.
    pose proof (t_oce _ _ T) as OCE. pose proof (t_cret _ _ T) as CR.
    assert (CR0 : lp s <> LExited -> count is_close_ret tr = 0).
    { intros N. apply has_false_count. destruct (has is_close_ret tr) eqn:E; auto. elim N; auto. }
    assert (OE1 : has is_onclose_end tr = true -> oce (lp s) <> 0).
    { intros E. apply has_count in E. congruence. }
    assert (OE0 : has is_onclose_end tr = false -> oce (lp s) = 0).
    { intros E. apply has_false_count in E. congruence. }
    prelude I T H l; post.
    all: has_cases; rewrite ?count_snoc; simpl; rewrite ?Nat.add_0_r; try assumption;
         try solve [ rewrite Tcrets; reflexivity | lia | congruence
                   | unfold count at 2; simpl; apply CR0; congruence ].
    all: try (specialize (OE0 eq_refl)).
    all: try solve [ unfold count at 2; simpl; apply CR0; intro X; rewrite X in OE0; discriminate ].
    all: try solve [ exfalso; match goal with X : tld s = true |- _ => rewrite (Itld1 X) in OE0; discriminate end ].
  Qed.
End Step.

Lemma ti_step : forall l s s' tr, Inv s -> TI s tr -> lstep l s = Some s' -> TI s' (tr ++ ev_of l).
Proof.
  intros l s s' tr I T H. constructor.
  - eapply st_scan; eauto.
  - eapply st_starts; eauto.
  - eapply st_ends; eauto.
  - eapply st_rets; eauto.
  - eapply st_called; eauto.
  - eapply st_ret; eauto.
  - eapply st_dur_s; eauto.
  - eapply st_dur_e; eauto.
  - eapply st_cret; eauto.
  - eapply st_sfx_c; eauto.
  - eapply st_ocs; eauto.
  - eapply st_oce; eauto.
  - eapply st_has_ocs; eauto.
  - eapply st_sfx_o; eauto.
  - eapply st_crets; eauto.
  - eapply st_pre; eauto.
Qed.

Lemma run_snoc : forall ls l s0, run (ls ++ [l]) s0 = match run ls s0 with Some s => lstep l s | None => None end.
Proof.
  induction ls as [|x ls IH]; simpl; intros l s0.
  - destruct (lstep l s0); reflexivity.
  - destruct (lstep x s0); auto.
Qed.

Lemma observe_snoc : forall ls l, observe (ls ++ [l]) = observe ls ++ ev_of l.
Proof. intros. rewrite observe_app. simpl. destruct l; simpl; rewrite ?app_nil_r; reflexivity. Qed.

Lemma run_ti : forall ls s, run ls init = Some s -> TI s (observe ls) /\ Inv s.
Proof.
  induction ls as [|l ls IH] using rev_ind; intros s R.
  - simpl in R. inversion R; subst. split; [apply ti_init|apply inv_init].
  - rewrite run_snoc in R. destruct (run ls init) as [s0|] eqn:R0; [|discriminate].
    destruct (IH s0 eq_refl) as [T I]. rewrite observe_snoc. split.
    + eapply ti_step; eauto.
    + eapply inv_step; eauto. exists l; auto.
Qed.

(* a complete run: every Run that was called has returned *)
Definition complete (s : state) : Prop := forall i, sp s i = SIdle \/ returned (sp s i) = true.

Theorem monitor_holds : forall ls s, run ls init = Some s -> complete s -> C10_monitor (observe ls) = true.
Proof.
  intros ls s R C. destruct (run_ti ls s R) as [T I]. set (tr := observe ls) in *.
  destruct T as [Tscan Tstarts Tends Trets Tcalled Tret Tdurs Tdure Tcret Tsfxc Tocs Toce Thasocs Tsfxo Tcrets Tpre].
  assert (K1 : serial_from None tr = true) by (rewrite serial_scan, Tscan; reflexivity).
  assert (K2 : ok_ran_once tr = true).
  { apply forallb_forall. intros [i r] IN. simpl. destruct r; auto.
    apply Trets in IN. simpl in IN.
    pose proof (i_tdone _ I i (i_retok _ I i IN)) as TC.
    assert (RU : runs s i = 1) by (apply (i_runs1 _ I); congruence).
    rewrite Tstarts, Tends, Tdurs, Tdure, RU, TC. reflexivity. }
  assert (K3 : err_never_ran tr = true).
  { apply forallb_forall. intros [i r] IN. simpl. destruct r; auto;
      apply Trets in IN; simpl in IN; rewrite Tstarts;
      destruct (nowait_facts s i I) as (_ & RU & _); try congruence; rewrite RU; reflexivity. }
  assert (ST : forall i, In i (started_ids tr) -> runs s i = 1 /\ sp s i = SRetOk).
  { intros i IN. apply in_started_count in IN. rewrite Tstarts in IN.
    assert (TN : ts s i <> TNot) by (intro X; apply IN; apply (i_runs0 _ I); auto).
    split; [apply (i_runs1 _ I); auto|].
    destruct (C i) as [E|E].
    - destruct (nowait_facts s i I) as (X & _ & _); congruence.
    - destruct (sp s i) eqn:SP; try discriminate; auto;
        destruct (nowait_facts s i I) as (X & _ & _); congruence. }
  assert (K4 : ran_implies_ok tr = true).
  { apply forallb_forall. intros i IN. destruct (ST i IN) as [_ SP].
    apply existsb_exists. exists (i, ROk). split; [apply Trets; auto|]. simpl. rewrite Nat.eqb_refl. reflexivity. }
  assert (K5 : at_most_once tr = true).
  { apply forallb_forall. intros i IN. destruct (ST i IN) as [RU _]. rewrite Tstarts, RU. reflexivity. }
  assert (K6 : TaskLoop.none_after_close tr = true).
  { unfold TaskLoop.none_after_close. destruct Tsfxc as [A B]. rewrite A, B. reflexivity. }
  assert (K7 : onclose_once tr = true).
  { unfold onclose_once. rewrite Tocs, Toce.
    assert (LE : oncloses s <= 1).
    { assert (D : after_onclose (lp s) \/ ~ after_onclose (lp s)) by (destruct (lp s); simpl; tauto).
      destruct D as [D|D]; [rewrite (i_oncl1 _ I D)|rewrite (i_oncl0 _ I D)]; auto. }
    apply andb_true_intro. split; [apply Nat.leb_le; auto|].
    destruct (Nat.eqb (count is_close_ret tr) 0) eqn:E; auto.
    apply Nat.eqb_neq in E. apply count_has in E. pose proof (Tcret E) as L.
    rewrite L. simpl. rewrite (i_oncl1 _ I); [reflexivity|rewrite L; exact Logic.I]. }
  assert (K8 : onclose_after_last tr = true).
  { unfold onclose_after_last. destruct Tsfxo as [A B]. rewrite A, B. reflexivity. }
  assert (K9 : close_ret_after_onclose tr = true).
  { unfold close_ret_after_onclose. rewrite <- Tcrets. apply Nat.eqb_refl. }
  assert (K10 : prestop_at_most_once tr = true).
  { unfold prestop_at_most_once. rewrite Tpre. apply Nat.leb_le. apply (i_pre1 _ I). }
  unfold C10_monitor, C10_checks, all_ok. cbn [forallb snd].
  rewrite K1, K2, K3, K4, K5, K6, K7, K8, K9, K10. reflexivity.
Qed.
