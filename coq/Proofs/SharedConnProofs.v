(* Proofs about the reference-counted handle model (Model/SharedConn.v).  C13. *)
From Coq Require Import ZArith Bool List Arith Lia.
From Ice Require Import Model.PrioSpec Model.SharedConn.
Import ListNotations.
Local Open Scope Z_scope.

Lemma In_remove_nat i k l : In k (remove_nat i l) <-> In k l /\ k <> i.
Proof.
  unfold remove_nat. rewrite filter_In. destruct (Nat.eqb_spec k i); simpl; intuition congruence.
Qed.
Lemma NoDup_remove_nat i l : NoDup l -> NoDup (remove_nat i l).
Proof. intros H. unfold remove_nat. apply NoDup_filter. exact H. Qed.
Lemma remove_nat_notin i l : ~ In i l -> remove_nat i l = l.
Proof.
  induction l as [|a l IH]; simpl; intros H; [reflexivity|].
  destruct (Nat.eqb_spec a i); simpl.
  - subst. exfalso. apply H. now left.
  - f_equal. apply IH. intros Hin. apply H. now right.
Qed.
Lemma length_remove_nat i l : NoDup l -> In i l -> S (length (remove_nat i l)) = length l.
Proof.
  induction l as [|a l IH]; simpl; intros Hnd Hin; [contradiction|].
  inversion Hnd as [|? ? Hna Hnd']; subst.
  destruct (Nat.eqb_spec a i); simpl.
  - subst. rewrite remove_nat_notin by assumption. reflexivity.
  - destruct Hin as [Hin|Hin]; [congruence|]. f_equal. apply IH; assumption.
Qed.
Lemma upd_same {A} (f : nat -> A) i v : upd f i v i = v.
Proof. unfold upd. rewrite Nat.eqb_refl. reflexivity. Qed.
Lemma upd_other {A} (f : nat -> A) i v k : k <> i -> upd f i v k = f k.
Proof. unfold upd. intros H. destruct (Nat.eqb_spec k i); congruence. Qed.

Definition pend_ok (p : hpc) : Prop := match p with HDecd v => v <= 0 | _ => False end.

Record Inv (s : state) : Prop := {
  j_refs : refs s = Z.of_nat (length (live s));
  j_nodup : NoDup (live s);
  j_live : forall h, In h (live s) <-> holds_ref (hpcs s h) = true;
  j_canc : forall h, cancelled s h = past_cancel (hpcs s h);
  j_pend1 : forall h, pend s = Some h -> pend_ok (hpcs s h);
  j_pend2 : forall h v, hpcs s h = HDecd v -> v <= 0 -> pend s = Some h;
  j_pend3 : pend s <> None -> live s = [] /\ ucloses s = O;
  j_uc : (ucloses s <= 1)%nat;
  j_uc1 : ucloses s = 1%nat -> live s = [] /\ pend s = None;
  j_created0 : created s = O -> (forall h, hpcs s h = HNone) /\ ucloses s = O /\ pend s = None;
  j_created : created s <> O -> live s = [] ->
              (ucloses s = 1%nat /\ pend s = None) \/ (ucloses s = O /\ pend s <> None);
  j_rd_cp : forall k h, rds s k = RRet h RClosedPipe -> cancelled s h = true;
  j_rd_eof : forall k h, rds s k = RRet h REOF -> ucloses s = 1%nat
}.

Lemma inv_init : Inv init.
Proof.
  constructor; simpl; try discriminate; try tauto; try (intros; discriminate); auto.
  - constructor.
  - intros h. split; [tauto|discriminate].
Qed.

Ltac split_eqb :=
  repeat match goal with
  | |- context [Nat.eqb ?a ?b] => destruct (Nat.eqb_spec a b); [subst|]
  | H : context [Nat.eqb ?a ?b] |- _ => destruct (Nat.eqb_spec a b); [subst|]
  end.
Ltac rw_pcs :=
  repeat match goal with
  | H : hpcs ?s ?i = _ |- _ => rewrite H in *
  | H : rds ?s ?j = _ |- _ => rewrite H in *
  end.
Ltac fin0 := try solve [intuition (try congruence; try discriminate; try lia; eauto)].
Ltac fin1 := fin0;
  try (intros; repeat match goal with
        | Hq : forall v : Z, ?p = HDecd v -> _, Hx : ?p = HDecd ?w |- _ => pose proof (Hq _ Hx); clear Hq
        end; fin0).
Ltac inst HI k :=
  let a := fresh "Jlive" in let b := fresh "Jcanc" in let c := fresh "Jp1" in let d := fresh "Jp2" in
  pose proof (j_live _ HI k) as a; pose proof (j_canc _ HI k) as b; pose proof (j_pend1 _ HI k) as c;
  pose proof (j_pend2 _ HI k) as d.
Ltac globals HI :=
  let a := fresh "Jrefs" in let b := fresh "Jnodup" in let c := fresh "Jp3" in let d := fresh "Juc" in
  let e := fresh "Juc1" in let f := fresh "Jc0" in let g := fresh "Jc" in
  pose proof (j_refs _ HI) as a; pose proof (j_nodup _ HI) as b; pose proof (j_pend3 _ HI) as c;
  pose proof (j_uc _ HI) as d; pose proof (j_uc1 _ HI) as e; pose proof (j_created0 _ HI) as f;
  pose proof (j_created _ HI) as g.

Ltac intro_inst HI := let x := fresh "x" in intros x; inst HI x.

Lemma length_zero_nil {A} (l : list A) : length l = O -> l = [].
Proof. destruct l; simpl; [reflexivity|discriminate]. Qed.

Ltac auto_inv HI :=
  globals HI;
  try match goal with HI' : Inv ?s0, H : hpcs ?s0 ?h = _ |- _ => inst HI' h;
        (let L := fresh "Jlen" in pose proof (length_remove_nat h _ (j_nodup _ HI')) as L) end;
  constructor; simpl;
       [ | | intro_inst HI | intro_inst HI | intro_inst HI
         | (let x := fresh "x" in let v := fresh "v" in intros x v; inst HI x)
         | | | | |
         | (let x := fresh "x" in let y := fresh "y" in intros x y; pose proof (j_rd_cp _ HI x y); pose proof (j_canc _ HI y))
         | (let x := fresh "x" in let y := fresh "y" in intros x y; pose proof (j_rd_eof _ HI x y)) ];
  unfold upd in *; split_eqb; rw_pcs; unfold pend_ok in *; simpl in *;
  rewrite ?In_remove_nat in *; try (apply NoDup_remove_nat; assumption); fin1.

Lemma inv_step s l s' : Inv s -> step s l s' -> Inv s'.
Proof.
  intros HI Hstep. inversion Hstep; subst.
  - (* h_new *)
    assert (Hnin : ~ In h (live s)).
    { intros Hin. apply (j_live _ HI) in Hin. rewrite H in Hin. discriminate. }
    assert (Hfree : pend s = None /\ ucloses s = O).
    { destruct H0 as [Hc|Ho].
      - destruct (j_created0 _ HI Hc) as (_ & Hu & Hp). auto.
      - assert (Hin : In h0 (live s)) by (apply (j_live _ HI); rewrite Ho; reflexivity).
        split.
        + destruct (pend s) eqn:E; [|reflexivity]. destruct (j_pend3 _ HI) as [Hl _]; [congruence|].
          rewrite Hl in Hin. destruct Hin.
        + pose proof (j_uc _ HI). destruct (Nat.eq_dec (ucloses s) 1) as [E|E]; [|lia].
          destruct (j_uc1 _ HI E) as [Hl _]. rewrite Hl in Hin. destruct Hin. }
    destruct Hfree as [Hp Hu].
    auto_inv HI.
    constructor; assumption.
  - auto_inv HI.
  - auto_inv HI.
  - (* h_dec *)
    assert (Hin : In h (live s)) by (apply (j_live _ HI); rewrite H; reflexivity).
    pose proof (length_remove_nat h _ (j_nodup _ HI) Hin) as Hlen.
    assert (Hr : refs s - 1 = Z.of_nat (length (remove_nat h (live s)))).
    { rewrite (j_refs _ HI), <- Hlen, Nat2Z.inj_succ. lia. }
    assert (Hu : ucloses s = O /\ pend s = None).
    { split.
      - pose proof (j_uc _ HI). destruct (Nat.eq_dec (ucloses s) 1) as [E|E]; [|lia].
        destruct (j_uc1 _ HI E) as [Hl _]. rewrite Hl in Hin. destruct Hin.
      - destruct (pend s) eqn:E; [|reflexivity]. destruct (j_pend3 _ HI) as [Hl _]; [congruence|].
        rewrite Hl in Hin. destruct Hin. }
    destruct Hu as [Hu Hp].
    destruct (Z.leb_spec (refs s - 1) 0) as [Hle|Hgt].
    + assert (Hnil : remove_nat h (live s) = []) by (apply length_zero_nil; lia).
      auto_inv HI; rewrite ?Hnil in *; simpl in *; fin1.
    + assert (Hnn : remove_nat h (live s) <> []).
      { intros E. rewrite E in Hr. simpl in Hr. lia. }
      auto_inv HI.
      exfalso. inversion H0. lia.
  - (* h_uclose *)
    pose proof (j_pend2 _ HI h v H H0) as Hp.
    destruct (j_pend3 _ HI) as [Hl Hu]; [congruence|].
    auto_inv HI.
  - auto_inv HI.
  - exact HI.
  - auto_inv HI.
  - auto_inv HI.
  - auto_inv HI.
  - auto_inv HI.
  - auto_inv HI.
  - auto_inv HI.
  - auto_inv HI.
  - auto_inv HI.
  - auto_inv HI.
  - auto_inv HI.
  - auto_inv HI.
Qed.

Lemma reach_inv s : reach s -> Inv s.
Proof. induction 1; [apply inv_init | eapply inv_step; eauto]. Qed.

(* ---- the underlying connection is closed exactly once, by the Close of the last handle --------- *)
Lemma closes_le_1 s : reach s -> (ucloses s <= 1)%nat.
Proof. intros H. apply (j_uc _ (reach_inv _ H)). Qed.

(* not before: while any handle still holds its reference the underlying has not been closed *)
Lemma not_closed_while_held s h : reach s -> holds_ref (hpcs s h) = true -> ucloses s = O.
Proof.
  intros Hr Hh. pose proof (reach_inv _ Hr) as HI.
  apply (j_live _ HI) in Hh. pose proof (j_uc _ HI).
  destruct (Nat.eq_dec (ucloses s) 1) as [E|E]; [|lia].
  destruct (j_uc1 _ HI E) as [Hl _]. rewrite Hl in Hh. destruct Hh.
Qed.

(* the only step that closes the underlying is the underlying.Close() of the handle whose
   decrement reached zero; at that moment no handle holds a reference any more *)
Lemma close_step s l s' : reach s -> step s l s' -> ucloses s' <> ucloses s ->
  exists h, l = LUClose h /\ ucloses s = O /\ ucloses s' = 1%nat /\
            (forall h', holds_ref (hpcs s' h') = false) /\
            (forall h' v, hpcs s h' = HDecd v -> v <= 0 -> h' = h).
Proof.
  intros Hr Hs Hne. pose proof (reach_inv _ Hr) as HI.
  inversion Hs; subst; simpl in Hne; try congruence.
  exists h. pose proof (j_pend2 _ HI h v H H0) as Hp.
  destruct (j_pend3 _ HI) as [Hl Hu]; [congruence|].
  repeat split; auto.
  - simpl. rewrite Hu. reflexivity.
  - intros h'. simpl. unfold upd. destruct (Nat.eqb_spec h' h); [reflexivity|].
    destruct (holds_ref (hpcs s h')) eqn:E; [|reflexivity].
    apply (j_live _ HI) in E. rewrite Hl in E. destruct E.
  - intros h' v' Hd Hv. pose proof (j_pend2 _ HI h' v' Hd Hv). congruence.
Qed.

(* exactly once: when every handed-out handle has finished its Close, the underlying has been closed *)
Lemma closed_when_settled s : reach s -> created s <> O ->
  (forall h, settled (hpcs s h) = true) -> ucloses s = 1%nat.
Proof.
  intros Hr Hc Hall. pose proof (reach_inv _ Hr) as HI.
  assert (Hl : live s = []).
  { destruct (live s) as [|x l] eqn:E; [reflexivity|]. exfalso.
    assert (Hin : In x (live s)) by (rewrite E; now left).
    apply (j_live _ HI) in Hin. specialize (Hall x). destruct (hpcs s x); simpl in *; discriminate. }
  destruct (j_created _ HI Hc Hl) as [[Hu _]|[_ Hp]]; [exact Hu|].
  exfalso. destruct (pend s) as [h|] eqn:E; [|congruence].
  pose proof (j_pend1 _ HI h E) as Hp1. specialize (Hall h).
  destruct (hpcs s h); simpl in *; try discriminate; contradiction.
Qed.

(* ---- a Close touches only its own handle -------------------------------------------------------- *)
Lemma sibling_frame s l s' : step s l s' ->
  forall h', actor l <> Some h' -> hpcs s' h' = hpcs s h' /\ cancelled s' h' = cancelled s h'.
Proof.
  intros Hs h' Ha. inversion Hs; subst; simpl in *; auto;
    split; auto; apply upd_other; congruence.
Qed.

(* an open handle is fully usable in every reachable state: writes pass, reads only ever return data -
   or a timeout, which is the handle's OWN read deadline (see timeout_only_own_deadline) *)
Lemma open_usable s h : reach s -> hpcs s h = HOpen ->
  write_outcome s h = WOk /\ (forall k r, rds s k = RRet h r -> r = ROk \/ r = RTimeout).
Proof.
  intros Hr Ho. pose proof (reach_inv _ Hr) as HI.
  assert (Hc : cancelled s h = false) by (rewrite (j_canc _ HI), Ho; reflexivity).
  assert (Hu : ucloses s = O) by (apply (not_closed_while_held s h Hr); rewrite Ho; reflexivity).
  split.
  - unfold write_outcome. rewrite Hc, Hu. reflexivity.
  - intros k r Hk. destruct r; [left; reflexivity| | |right; reflexivity].
    + pose proof (j_rd_cp _ HI k h Hk). congruence.
    + pose proof (j_rd_eof _ HI k h Hk). lia.
Qed.

(* a read returns a timeout only if it was started while the handle's own deadline was in the past;
   a read started with no deadline or one far in the future parks with (a context derived from) the
   handle's context *)
Lemma timeout_only_own_deadline s l s' k h :
  step s l s' ->
  (l = LReadRet k h RTimeout -> rds s k = RWaitPast h) /\
  (rds s' k = RWaitPast h -> rds s k = RWaitPast h \/ (rds s k = RIdle /\ rdl s h = DPast /\ cancelled s h = false)) /\
  (rds s' k = RWait h -> rds s k = RWait h \/ (rds s k = RIdle /\ rdl s h <> DPast /\ cancelled s h = false)).
Proof.
  intros Hs. inversion Hs; subst; simpl; repeat split; try discriminate; auto;
    try (intros E; inversion E; subst; assumption);
    unfold upd; destruct (Nat.eqb_spec k k0); subst; intros E; try discriminate; auto;
    inversion E; subst; auto.
Qed.

(* the closed handle's own I/O fails: writes return ErrClosedPipe from the cancel step on, a
   blocked read can (and only then can) return ErrClosedPipe, a new read fails at once *)
Lemma cancel_sticky s l s' h : step s l s' -> cancelled s h = true -> cancelled s' h = true.
Proof.
  intros Hs Hc. inversion Hs; subst; simpl; auto.
  unfold upd. destruct (Nat.eqb h h0); auto.
Qed.

Lemma closed_fails s h : reach s -> past_cancel (hpcs s h) = true ->
  write_outcome s h = WClosedPipe /\
  (forall k, rds s k = RWait h -> exists s', step s (LReadRet k h RClosedPipe) s') /\
  (forall k s', rds s k = RIdle -> step s (LRead k h) s' -> rds s' k = RRet h RClosedPipe).
Proof.
  intros Hr Hp. pose proof (reach_inv _ Hr) as HI.
  assert (Hc : cancelled s h = true) by (rewrite (j_canc _ HI); exact Hp).
  repeat split.
  - unfold write_outcome. rewrite Hc. reflexivity.
  - intros k Hk. eexists. apply r_cancel; eauto.
  - intros k s' Hk Hs. inversion Hs; subst; simpl; rewrite ?upd_same; auto; congruence.
Qed.

(* a read on h returns ErrClosedPipe only if h itself was closed *)
Lemma read_fails_only_own s k h : reach s -> rds s k = RRet h RClosedPipe -> past_cancel (hpcs s h) = true.
Proof.
  intros Hr Hk. pose proof (reach_inv _ Hr) as HI.
  rewrite <- (j_canc _ HI). apply (j_rd_cp _ HI k h Hk).
Qed.

(* ---- the statements used by Props/C13.v ------------------------------------------------------- *)
Lemma underlying_closed_once s : reach s ->
  (ucloses s <= 1)%nat /\
  (forall h, holds_ref (hpcs s h) = true -> ucloses s = O) /\
  (created s <> O -> (forall h, settled (hpcs s h) = true) -> ucloses s = 1%nat) /\
  (forall l s', step s l s' -> ucloses s' <> ucloses s ->
     exists h, l = LUClose h /\ ucloses s = O /\ ucloses s' = 1%nat /\
               (forall h', holds_ref (hpcs s' h') = false) /\
               (forall h' v, hpcs s h' = HDecd v -> v <= 0 -> h' = h)).
Proof.
  intros Hr. repeat split.
  - apply closes_le_1; exact Hr.
  - intros h. apply not_closed_while_held; exact Hr.
  - apply closed_when_settled; exact Hr.
  - intros l s'. apply close_step; exact Hr.
Qed.

Lemma sibling_unaffected s : reach s ->
  (forall l s' h', step s l s' -> actor l <> Some h' ->
     hpcs s' h' = hpcs s h' /\ cancelled s' h' = cancelled s h') /\
  (forall h, hpcs s h = HOpen ->
     write_outcome s h = WOk /\ (forall k r, rds s k = RRet h r -> r = ROk \/ r = RTimeout)).
Proof.
  intros Hr. split.
  - intros l s' h' Hs Ha. eapply sibling_frame; eauto.
  - intros h. apply open_usable; exact Hr.
Qed.

Lemma closed_handle_io_fails s h : reach s -> past_cancel (hpcs s h) = true ->
  write_outcome s h = WClosedPipe /\
  (forall k, rds s k = RWait h -> exists s', step s (LReadRet k h RClosedPipe) s') /\
  (forall k s', rds s k = RIdle -> step s (LRead k h) s' -> rds s' k = RRet h RClosedPipe) /\
  (forall l s', step s l s' -> cancelled s' h = true).
Proof.
  intros Hr Hp. destruct (closed_fails s h Hr Hp) as (A & B & C). repeat split; auto.
  intros l s' Hs. eapply cancel_sticky; eauto.
  rewrite (j_canc _ (reach_inv _ Hr)). exact Hp.
Qed.

(* non-vacuity: two handles, the first closed completely (underlying still open), then the second *)
Lemma example_run :
  exists s, reach s /\ hpcs s 0%nat = HClosed /\ hpcs s 1%nat = HClosed /\ ucloses s = 1%nat /\ created s = 2%nat.
Proof.
  pose proof reach_init as R.
  assert (R1 := reach_step _ _ _ R (h_new init 0 0 eq_refl (or_introl eq_refl))). clear R.
  match type of R1 with reach ?s1 =>
    assert (R2 := reach_step _ _ _ R1 (h_new s1 1 0 eq_refl (or_intror eq_refl))) end. clear R1.
  match type of R2 with reach ?s2 => assert (R3 := reach_step _ _ _ R2 (h_close_begin s2 0 eq_refl)) end. clear R2.
  match type of R3 with reach ?s3 => assert (R4 := reach_step _ _ _ R3 (h_cancel s3 0 eq_refl)) end. clear R3.
  match type of R4 with reach ?s4 => assert (R5 := reach_step _ _ _ R4 (h_dec s4 0 eq_refl)) end. clear R4.
  cbn in R5.
  match type of R5 with reach ?s5 => assert (R6 := reach_step _ _ _ R5 (h_no_uclose s5 0 1 eq_refl eq_refl)) end. clear R5.
  match type of R6 with reach ?s6 => assert (R7 := reach_step _ _ _ R6 (h_close_begin s6 1 eq_refl)) end. clear R6.
  match type of R7 with reach ?s7 => assert (R8 := reach_step _ _ _ R7 (h_cancel s7 1 eq_refl)) end. clear R7.
  match type of R8 with reach ?s8 => assert (R9 := reach_step _ _ _ R8 (h_dec s8 1 eq_refl)) end. clear R8.
  cbn in R9.
  match type of R9 with reach ?s9 =>
    assert (R10 := reach_step _ _ _ R9 (h_uclose s9 1 0 eq_refl ltac:(discriminate))) end. clear R9.
  eexists. split; [exact R10|]. repeat split.
Qed.

(* ================================================================================================
   The sequential view (sc_run) and the monitor: the monitor accepts every history of the model,
   malformed and out-of-scope histories included - it cannot raise an alarm on behaviour the model
   has. *)
From Coq Require Import String.
(* ---- list facts -------------------------------------------------------------------------------- *)
Lemma set_nth_length {A} (l : list A) n v : List.length (set_nth l n v) = List.length l.
Proof. revert n; induction l as [|a l IH]; intros [|n]; simpl; auto. Qed.

Lemma nth_set_nth_eq {A} (l : list A) n v x : nth_error l n = Some x -> nth_error (set_nth l n v) n = Some v.
Proof. revert n; induction l as [|a l IH]; intros [|n]; simpl; try discriminate; auto. Qed.

Lemma nth_set_nth_neq {A} (l : list A) n k v : n <> k -> nth_error (set_nth l n v) k = nth_error l k.
Proof.
  revert n k; induction l as [|a l IH]; intros [|n] [|k] H; simpl; auto; try congruence.
Qed.

Lemma nth_set_nth_none {A} (l : list A) n v : nth_error l n = None -> set_nth l n v = l.
Proof. revert n; induction l as [|a l IH]; intros [|n]; simpl; try discriminate; auto. intros H. f_equal. auto. Qed.

Lemma set_nth_same {A} (l : list A) n v : nth_error l n = Some v -> set_nth l n v = l.
Proof.
  revert n; induction l as [|a l IH]; intros [|n]; simpl; try discriminate; auto.
  - intros H. inversion H. reflexivity.
  - intros H. f_equal. auto.
Qed.

Lemma all_closed_spec l : all_closed l = true <-> forall h b, nth_error l h = Some b -> b = true.
Proof.
  unfold all_closed. rewrite forallb_forall. split.
  - intros H h b Hn. apply nth_error_In in Hn. apply H in Hn. exact Hn.
  - intros H b Hin. apply In_nth_error in Hin. destruct Hin as [n Hn]. eapply H; eauto.
Qed.

Lemma all_closed_false_open l h : nth_error l h = Some false -> all_closed l = false.
Proof.
  intros H. destruct (all_closed l) eqn:E; [|reflexivity].
  rewrite all_closed_spec in E. apply E in H. discriminate.
Qed.

Lemma all_closed_app_false l : all_closed (l ++ [false]) = false.
Proof. unfold all_closed. rewrite forallb_app. simpl. apply andb_false_r. Qed.

Lemma nth_error_app_last {A} (l : list A) x h :
  nth_error (l ++ [x]) h = if Nat.ltb h (List.length l) then nth_error l h else if Nat.eqb h (List.length l) then Some x else None.
Proof.
  destruct (Nat.ltb_spec h (List.length l)).
  - apply nth_error_app1; auto.
  - rewrite nth_error_app2 by lia. destruct (Nat.eqb_spec h (List.length l)).
    + subst. rewrite Nat.sub_diag. reflexivity.
    + destruct (h - List.length l)%nat eqn:E; [lia|]. simpl. destruct n0; reflexivity.
Qed.

Lemma nth_error_lt {A} (l : list A) h x : nth_error l h = Some x -> (h < List.length l)%nat.
Proof. intros H. apply nth_error_Some. congruence. Qed.

Lemma first_blocked_spec l n k : first_blocked l n = Some k ->
  (n <= k)%nat /\ nth_error l (k - n) = Some RBlocked.
Proof.
  revert n. induction l as [|a l IH]; simpl; intros n H; [discriminate|].
  destruct a; try (apply IH in H; destruct H as [Hle Hn]; split; [lia|];
                   replace (k - n)%nat with (S (k - S n)) by lia; exact Hn).
  inversion H; subst. split; [lia|]. rewrite Nat.sub_diag. reflexivity.
Qed.

Lemma all_ok_app a b : all_ok (a ++ b) = all_ok a && all_ok b.
Proof. unfold all_ok. apply forallb_app. Qed.

(* ---- the relation between the sequential model and the monitor's bookkeeping --------------------- *)
Definition slot (fs : fstate) (h : nat) := nth_error (fread fs) h.
Definition slot_open_ok (v : rslot) : Prop :=
  v = RNone \/ v = RBlocked \/ (exists k, v = RData k) \/ v = RGot RTimeout.

Record Rel (fs : fstate) (m : mstate) : Prop := {
  r_cl : mcl m = fclosed fs;
  r_len : List.length (fread fs) = List.length (fclosed fs);
  r_lenl : List.length (mlate m) = List.length (fclosed fs);
  r_lent : List.length (mto m) = List.length (fclosed fs);
  r_dl : mdl m = fdl fs;
  r_closes : mscope m = true -> closes_ok (fclosed fs) (Z.of_nat (fcloses fs)) = true;
  r_open : mscope m = true -> forall h v, nth_error (fclosed fs) h = Some false -> slot fs h = Some v -> slot_open_ok v;
  r_topen : mscope m = true -> forall h, nth_error (fclosed fs) h = Some false ->
            nth_error (mto m) h = Some true -> slot fs h <> Some RBlocked;
  r_to : forall h, slot fs h = Some (RGot RTimeout) -> nth_error (mto m) h = Some true;
  r_closed : forall h, nth_error (fclosed fs) h = Some true ->
             slot fs h <> Some RBlocked /\ forall k, slot fs h <> Some (RData k);
  r_late : forall h, nth_error (fclosed fs) h = Some true -> nth_error (mlate m) h = Some true ->
           slot fs h = Some RNone \/ slot fs h = Some (RGot RClosedPipe);
  r_late_open : forall h, nth_error (fclosed fs) h = Some false -> nth_error (mlate m) h = Some false;
  r_nook : forall h, slot fs h <> Some (RGot ROk)
}.

Lemma rel_init : Rel finit minit.
Proof.
  constructor; simpl; auto; unfold slot; simpl; intros; try (destruct h; discriminate).
Qed.

(* Rel only looks at these components *)
Lemma rel_ext fs m fs' m' : Rel fs m ->
  fclosed fs' = fclosed fs -> fcloses fs' = fcloses fs -> fread fs' = fread fs -> fdl fs' = fdl fs ->
  mcl m' = mcl m -> mlate m' = mlate m -> mscope m' = mscope m -> mdl m' = mdl m -> mto m' = mto m ->
  Rel fs' m'.
Proof.
  intros [A B C D E F G H I J K L M] e1 e2 e3 e4 e5 e6 e7 e8 e9.
  constructor; unfold slot in *; rewrite ?e1, ?e2, ?e3, ?e4, ?e5, ?e6, ?e7, ?e8, ?e9; assumption.
Qed.

Lemma closes_ok_zero cl c : closes_ok cl (Z.of_nat c) = true -> (exists h, nth_error cl h = Some false) -> c = O.
Proof.
  unfold closes_ok. intros H [h Hh]. destruct cl; [destruct h; discriminate|].
  rewrite (all_closed_false_open _ _ Hh) in H. apply Z.eqb_eq in H. lia.
Qed.

(* updating the read slot of one handle (and possibly its late / past-deadline flags) *)
Lemma rel_update_slot fs m fs' m' h v sl :
  Rel fs m -> nth_error (fread fs) h = Some sl ->
  fclosed fs' = fclosed fs -> fcloses fs' = fcloses fs -> fdl fs' = fdl fs -> fread fs' = set_nth (fread fs) h v ->
  mcl m' = mcl m -> mscope m' = mscope m -> mdl m' = mdl m ->
  List.length (mlate m') = List.length (mlate m) -> (forall k, k <> h -> nth_error (mlate m') k = nth_error (mlate m) k) ->
  List.length (mto m') = List.length (mto m) -> (forall k, k <> h -> nth_error (mto m') k = nth_error (mto m) k) ->
  (mscope m = true -> nth_error (fclosed fs) h = Some false -> slot_open_ok v) ->
  (mscope m = true -> nth_error (fclosed fs) h = Some false -> nth_error (mto m') h = Some true -> v <> RBlocked) ->
  (v = RGot RTimeout -> nth_error (mto m') h = Some true) ->
  (nth_error (fclosed fs) h = Some true -> v <> RBlocked /\ forall k, v <> RData k) ->
  (nth_error (fclosed fs) h = Some true -> nth_error (mlate m') h = Some true -> v = RNone \/ v = RGot RClosedPipe) ->
  (nth_error (fclosed fs) h = Some false -> nth_error (mlate m') h = Some false) ->
  v <> RGot ROk ->
  Rel fs' m'.
Proof.
  intros [Hcl Hlen Hlenl Hlent Hdl Hcloses Hopen Htopen Hto Hclosed Hlate Hlo Hnook] Hsl
         e1 e2 e3 e4 e5 e6 e7 Hll Hlk Htl Htk c1 c2 c3 c4 c5 c6 c7.
  constructor; unfold slot in *; rewrite ?e1, ?e2, ?e3, ?e4, ?e5, ?e6, ?e7.
  - exact Hcl.
  - rewrite set_nth_length. exact Hlen.
  - rewrite Hll. exact Hlenl.
  - rewrite Htl. exact Hlent.
  - exact Hdl.
  - exact Hcloses.
  - intros Hs k w Hk Hw. destruct (Nat.eq_dec h k) as [<-|Hne].
    + rewrite (nth_set_nth_eq _ _ _ _ Hsl) in Hw. inversion Hw; subst. apply c1; assumption.
    + rewrite nth_set_nth_neq in Hw by assumption. eapply Hopen; eauto.
  - intros Hs k Hk Ht. destruct (Nat.eq_dec h k) as [<-|Hne].
    + rewrite (nth_set_nth_eq _ _ _ _ Hsl). intros E. inversion E. eapply c2; eauto.
    + rewrite Htk in Ht by congruence. rewrite nth_set_nth_neq by assumption. apply (Htopen Hs k Hk Ht).
  - intros k Hk. destruct (Nat.eq_dec h k) as [<-|Hne].
    + rewrite (nth_set_nth_eq _ _ _ _ Hsl) in Hk. inversion Hk. apply c3. assumption.
    + rewrite nth_set_nth_neq in Hk by assumption. rewrite Htk by congruence. apply (Hto k Hk).
  - intros k Hk. destruct (Nat.eq_dec h k) as [<-|Hne].
    + rewrite (nth_set_nth_eq _ _ _ _ Hsl). destruct (c4 Hk) as [Ha Hb]. split.
      * intros E. inversion E. auto.
      * intros j E. inversion E. eapply Hb; eauto.
    + rewrite nth_set_nth_neq by assumption. apply (Hclosed k Hk).
  - intros k Hk Hl. destruct (Nat.eq_dec h k) as [<-|Hne].
    + rewrite (nth_set_nth_eq _ _ _ _ Hsl). destruct (c5 Hk Hl) as [->| ->]; auto.
    + rewrite Hlk in Hl by congruence. rewrite nth_set_nth_neq by assumption. apply (Hlate k Hk Hl).
  - intros k Hk. destruct (Nat.eq_dec h k) as [<-|Hne]; [apply (c6 Hk)|].
    rewrite Hlk by congruence. apply (Hlo k Hk).
  - intros k. destruct (Nat.eq_dec h k) as [<-|Hne].
    + rewrite (nth_set_nth_eq _ _ _ _ Hsl). intros E. inversion E. auto.
    + rewrite nth_set_nth_neq by assumption. apply Hnook.
Qed.

(* closing one handle *)
Lemma rel_close fs m h : Rel fs m -> Rel (f_close fs h) (mark_close m h).
Proof.
  intros HR. pose proof HR as HR0.
  destruct HR as [Hcl Hlen Hlenl Hlent Hdl Hcloses Hopen Htopen Hto Hclosed Hlate Hlo Hnook].
  unfold f_close, mark_close. rewrite Hcl.
  destruct (nth_error (fclosed fs) h) as [[|]|] eqn:E; try exact HR0.
  assert (Hslot : exists sl, nth_error (fread fs) h = Some sl).
  { destruct (nth_error (fread fs) h) eqn:E2; [eauto|]. apply nth_error_None in E2.
    apply nth_error_lt in E. lia. }
  destruct Hslot as [sl Hsl].
  set (rd := match nth_error (fread fs) h with
             | Some RBlocked => set_nth (fread fs) h (RGot RClosedPipe)
             | Some (RData _) => set_nth (fread fs) h REither
             | _ => fread fs end).
  assert (Hrdlen : List.length rd = List.length (fread fs)).
  { unfold rd. rewrite Hsl. destruct sl; rewrite ?set_nth_length; reflexivity. }
  assert (Hrd_other : forall k, k <> h -> nth_error rd k = nth_error (fread fs) k).
  { intros k Hk. unfold rd. rewrite Hsl. destruct sl; rewrite ?nth_set_nth_neq by congruence; reflexivity. }
  assert (Hrd_h : exists v, nth_error rd h = Some v /\ v <> RBlocked /\ (forall k, v <> RData k) /\ v <> RGot ROk /\
                  (v = RGot RTimeout -> sl = RGot RTimeout)).
  { unfold rd. rewrite Hsl. destruct sl as [| |j|r|].
    - exists RNone. rewrite Hsl. repeat split; congruence.
    - exists (RGot RClosedPipe). rewrite (nth_set_nth_eq _ _ _ _ Hsl). repeat split; congruence.
    - exists REither. rewrite (nth_set_nth_eq _ _ _ _ Hsl). repeat split; congruence.
    - exists (RGot r). rewrite Hsl. repeat split; try congruence.
      intros Hr. apply (Hnook h). unfold slot. rewrite Hsl, Hr. reflexivity.
    - exists REither. rewrite Hsl. repeat split; congruence. }
  destruct Hrd_h as (v & Hv & Hvb & Hvd & Hvo & Hvt).
  constructor; unfold slot; simpl; fold rd.
  - reflexivity.
  - rewrite Hrdlen, set_nth_length. exact Hlen.
  - rewrite set_nth_length. exact Hlenl.
  - rewrite set_nth_length. exact Hlent.
  - exact Hdl.
  - intros Hs. specialize (Hcloses Hs).
    assert (fcloses fs = O) by (eapply closes_ok_zero; eauto). rewrite H.
    unfold closes_ok. destruct (set_nth (fclosed fs) h true) eqn:E3.
    + apply (f_equal (@List.length bool)) in E3. rewrite set_nth_length in E3. apply nth_error_lt in E. simpl in E3. lia.
    + rewrite <- E3. destruct (all_closed (set_nth (fclosed fs) h true)); reflexivity.
  - intros Hs k w Hk Hw. destruct (Nat.eq_dec k h) as [->|Hne].
    + rewrite (nth_set_nth_eq _ _ _ _ E) in Hk. discriminate.
    + rewrite nth_set_nth_neq in Hk by congruence. rewrite Hrd_other in Hw by assumption. eapply Hopen; eauto.
  - intros Hs k Hk Ht. destruct (Nat.eq_dec k h) as [->|Hne].
    + rewrite (nth_set_nth_eq _ _ _ _ E) in Hk. discriminate.
    + rewrite nth_set_nth_neq in Hk by congruence. rewrite Hrd_other by assumption. apply (Htopen Hs k Hk Ht).
  - intros k Hk. destruct (Nat.eq_dec k h) as [->|Hne].
    + rewrite Hv in Hk. inversion Hk. apply Hto. unfold slot. rewrite Hsl, (Hvt H0). reflexivity.
    + rewrite Hrd_other in Hk by assumption. apply (Hto k Hk).
  - intros k Hk. destruct (Nat.eq_dec k h) as [->|Hne].
    + rewrite Hv. split; [intros X; inversion X; auto|intros j X; inversion X; eapply Hvd; eauto].
    + rewrite nth_set_nth_neq in Hk by congruence. rewrite Hrd_other by assumption. apply (Hclosed k Hk).
  - intros k Hk Hl. destruct (Nat.eq_dec k h) as [->|Hne].
    + rewrite (Hlo h E) in Hl. discriminate.
    + rewrite nth_set_nth_neq in Hk by congruence. rewrite Hrd_other by assumption. apply (Hlate k Hk Hl).
  - intros k Hk. destruct (Nat.eq_dec k h) as [->|Hne].
    + rewrite (nth_set_nth_eq _ _ _ _ E) in Hk. discriminate.
    + rewrite nth_set_nth_neq in Hk by congruence. apply (Hlo k Hk).
  - intros k. destruct (Nat.eq_dec k h) as [->|Hne].
    + rewrite Hv. intros X. inversion X. auto.
    + rewrite Hrd_other by assumption. apply Hnook.
Qed.

Lemma rel_closes hs : forall fs m, Rel fs m -> Rel (fold_left f_close hs fs) (fold_left mark_close hs m).
Proof.
  induction hs as [|h hs IH]; intros fs m HR; simpl; [exact HR|].
  apply IH. apply rel_close. exact HR.
Qed.

Lemma closes_check_ok fs m : Rel fs m ->
  all_ok (if mscope m then [("underlying_closed_exactly_when_last_handle_closed"%string, closes_ok (mcl m) (Z.of_nat (fcloses fs)))] else []) = true.
Proof.
  intros HR. destruct (mscope m) eqn:E; [|reflexivity]. unfold all_ok. simpl.
  rewrite (r_cl _ _ HR), (r_closes _ _ HR E). reflexivity.
Qed.

Lemma existing_closed_among cl hs ws : all_closed cl = true -> existing_among cl hs ws = closed_among cl hs ws.
Proof.
  intros H. unfold existing_among, closed_among. f_equal. apply filter_ext. intros w.
  destruct (nth_error cl w) as [b|] eqn:E; [|reflexivity].
  rewrite all_closed_spec in H. rewrite (H _ _ E). reflexivity.
Qed.

Lemma closes_ok_app l c : closes_ok (l ++ [false]) c = (c =? 0).
Proof.
  unfold closes_ok. destruct (l ++ [false]) eqn:E; [destruct l; discriminate|].
  rewrite <- E, all_closed_app_false. reflexivity.
Qed.

Lemma nth_error_in_range {A} (l : list A) h n : List.length l = n -> (h < n)%nat -> exists x, nth_error l h = Some x.
Proof.
  intros Hl Hh. destruct (nth_error l h) eqn:E; [eauto|]. apply nth_error_None in E. lia.
Qed.

(* one operation: the monitor accepts the model's observation and the relation is kept *)
Lemma step_ok fs m o : Rel fs m ->
  let r := sc_apply fs o in
  all_ok (sc_op_checks m (mark m o (snd r)) o (snd r)) = true /\ Rel (fst r) (mark m o (snd r)).
Proof.
  intros HR. destruct o; simpl.
  - (* ONew *)
    match goal with |- _ /\ Rel ?a ?b => assert (HR' : Rel a b) end.
    { destruct HR as [Hcl Hlen Hlenl Hlent Hdl Hcloses Hopen Htopen Hto Hclosed Hlate Hlo Hnook].
      constructor; unfold slot; simpl.
      - rewrite Hcl. reflexivity.
      - rewrite !app_length, Hlen. reflexivity.
      - rewrite !app_length, Hlenl. reflexivity.
      - rewrite !app_length, Hlent. reflexivity.
      - rewrite Hdl. reflexivity.
      - intros Hs. apply andb_true_iff in Hs. destruct Hs as [Hs Hn]. specialize (Hcloses Hs).
        rewrite Hcl in Hn. rewrite closes_ok_app. unfold closes_ok in Hcloses.
        destruct (fclosed fs) as [|b l] eqn:E; [exact Hcloses|].
        apply negb_true_iff in Hn. rewrite Hn in Hcloses. exact Hcloses.
      - intros Hs h v Hh Hv. apply andb_true_iff in Hs. destruct Hs as [Hs _].
        rewrite nth_error_app_last in Hh. rewrite nth_error_app_last in Hv. rewrite Hlen in Hv.
        destruct (Nat.ltb h (List.length (fclosed fs))); [eapply Hopen; eauto|].
        destruct (Nat.eqb h (List.length (fclosed fs))); [inversion Hv; left; reflexivity|discriminate].
      - intros Hs h Hh Ht. apply andb_true_iff in Hs. destruct Hs as [Hs _].
        rewrite nth_error_app_last in Hh. rewrite nth_error_app_last in Ht. rewrite nth_error_app_last, Hlen. rewrite Hlent in Ht.
        destruct (Nat.ltb h (List.length (fclosed fs))); [apply (Htopen Hs h Hh Ht)|].
        destruct (Nat.eqb h (List.length (fclosed fs))); discriminate.
      - intros h Hh. rewrite nth_error_app_last in Hh. rewrite nth_error_app_last, Hlent. rewrite Hlen in Hh.
        destruct (Nat.ltb h (List.length (fclosed fs))); [apply (Hto h Hh)|].
        destruct (Nat.eqb h (List.length (fclosed fs))); discriminate.
      - intros h Hh. rewrite nth_error_app_last in Hh. rewrite nth_error_app_last, Hlen.
        destruct (Nat.ltb h (List.length (fclosed fs))); [apply (Hclosed h Hh)|].
        destruct (Nat.eqb h (List.length (fclosed fs))); discriminate.
      - intros h Hh Hl. rewrite nth_error_app_last in Hh. rewrite nth_error_app_last in Hl. rewrite nth_error_app_last, Hlen.
        rewrite Hlenl in Hl.
        destruct (Nat.ltb h (List.length (fclosed fs))); [apply (Hlate h Hh Hl)|].
        destruct (Nat.eqb h (List.length (fclosed fs))); discriminate.
      - intros h Hh. rewrite nth_error_app_last in Hh. rewrite nth_error_app_last, Hlenl.
        destruct (Nat.ltb h (List.length (fclosed fs))); [apply (Hlo h Hh)|].
        destruct (Nat.eqb h (List.length (fclosed fs))); [reflexivity|discriminate].
      - intros h. rewrite nth_error_app_last, Hlen.
        destruct (Nat.ltb h (List.length (fclosed fs))); [apply Hnook|].
        destruct (Nat.eqb h (List.length (fclosed fs))); discriminate. }
    split; [|exact HR']. apply (closes_check_ok _ _ HR').
  - (* OClose *)
    pose proof (rel_close fs m h HR) as HR'. split; [|exact HR'].
    unfold all_ok at 1. simpl. apply (closes_check_ok _ _ HR').
  - (* OPClose *)
    pose proof (rel_closes hs fs m HR) as HR'. split; [|exact HR'].
    unfold all_ok at 1. simpl. apply (closes_check_ok _ _ HR').
  - (* OPCloseW *)
    pose proof (rel_closes hs fs m HR) as HR'. split; [|exact HR'].
    pose proof (closes_check_ok _ _ HR') as Hcc.
    assert (Hnf : mscope m = true ->
                  Z.of_nat (if Nat.ltb 0 (fcloses fs) then existing_among (fclosed fs) hs ws else closed_among (fclosed fs) hs ws)
                  = Z.of_nat (closed_among (mcl m) hs ws)).
    { intros Hs. f_equal. rewrite (r_cl _ _ HR).
      destruct (Nat.ltb_spec 0 (fcloses fs)) as [Hpos|Hz]; [|reflexivity].
      apply existing_closed_among. pose proof (r_closes _ _ HR Hs) as Hc. unfold closes_ok in Hc.
      destruct (fclosed fs) eqn:E; [apply Z.eqb_eq in Hc; lia|]. rewrite <- E in *.
      destruct (all_closed (fclosed fs)); [reflexivity|apply Z.eqb_eq in Hc; lia]. }
    unfold all_ok in *. simpl. rewrite forallb_app. apply andb_true_intro. split; [exact Hcc|].
    destruct (mscope m) eqn:Hs; [|reflexivity]. simpl.
    rewrite (Hnf eq_refl), Z.eqb_refl. reflexivity.
  - (* OWrite *)
    rewrite (r_cl _ _ HR). destruct (nth_error (fclosed fs) h) as [[|]|] eqn:E; simpl.
    + split; [reflexivity|exact HR].
    + split; [|exact HR]. destruct (mscope m) eqn:Hs; [|reflexivity].
      assert (fcloses fs = O) by (eapply closes_ok_zero; [apply (r_closes _ _ HR Hs)|eauto]).
      rewrite H. reflexivity.
    + split; [reflexivity|exact HR].
  - (* ODeadline *)
    destruct (nth_error (fclosed fs) h) as [[|]|] eqn:E; simpl;
      destruct (nth_error (fread fs) h) as [[| | | |]|] eqn:E2; simpl; (split; [reflexivity|]); try exact HR.
    pose proof HR as [Hcl Hlen Hlenl Hlent Hdl Hcloses Hopen Htopen Hto Hclosed Hlate Hlo Hnook].
    constructor; unfold slot in *; simpl; auto. rewrite Hdl. reflexivity.
  - (* ORStart *)
    pose proof HR as HR0. destruct HR as [Hcl Hlen Hlenl Hlent Hdl Hcloses Hopen Htopen Hto Hclosed Hlate Hlo Hnook].
    destruct (nth_error (fclosed fs) h) as [[|]|] eqn:E; simpl;
      [ | | split; [reflexivity|exact HR0] ].
    + (* closed handle: fails at once *)
      destruct (nth_error (fread fs) h) as [[| | | |]|] eqn:E2; simpl;
        try (split; [reflexivity|exact HR0]).
      split; [reflexivity|]. rewrite Hcl, E.
      eapply (rel_update_slot fs m _ _ h (RGot RClosedPipe) RNone HR0 E2); simpl;
        try reflexivity; try (apply set_nth_length); try (intros k Hk; apply nth_set_nth_neq; congruence);
        try (intros; congruence); try discriminate.
      * intros _. split; [discriminate|intros k; discriminate].
      * intros; auto.
    + (* open handle *)
      destruct (nth_error (fread fs) h) as [[| | | |]|] eqn:E2; simpl;
        try (split; [reflexivity|exact HR0]).
      destruct (nth_error_in_range (mlate m) h _ Hlenl (nth_error_lt _ _ _ E)) as [b0 Hb0].
      destruct (nth_error_in_range (mto m) h _ Hlent (nth_error_lt _ _ _ E)) as [t0 Ht0].
      assert (Hgen : forall v fs',
                fclosed fs' = fclosed fs -> fcloses fs' = fcloses fs -> fdl fs' = fdl fs ->
                fread fs' = set_nth (fread fs) h v ->
                (mscope m = true -> slot_open_ok v) ->
                (v = RBlocked -> nth_error (fdl fs) h <> Some 2%nat) ->
                (v = RGot RTimeout -> nth_error (fdl fs) h = Some 2%nat) ->
                v <> RGot ROk ->
                Rel fs' (mark m (ORStart h) [0])).
      { intros v fs' e1 e2 e3 e4 Hv Hvb Hvt Hvo. simpl. rewrite Hcl, E.
        eapply (rel_update_slot fs m fs' _ h v RNone HR0 E2 e1 e2 e3 e4); simpl;
          try reflexivity; try (apply set_nth_length); try (intros k Hk; apply nth_set_nth_neq; congruence);
          try (symmetry; exact Hcl).
        - intros Hs _. apply Hv. exact Hs.
        - intros Hs _ Ht. rewrite (nth_set_nth_eq _ _ _ _ Ht0) in Ht. intros Hb. apply (Hvb Hb).
          rewrite Hdl in Ht. destruct (nth_error (fdl fs) h) as [[|[|[|n]]]|]; try discriminate. reflexivity.
        - intros Ht. rewrite (nth_set_nth_eq _ _ _ _ Ht0). rewrite Hdl, (Hvt Ht). reflexivity.
        - intros; congruence.
        - intros; congruence.
        - intros _. apply (nth_set_nth_eq _ _ _ _ Hb0).
        - exact Hvo. }
      destruct (Nat.ltb_spec 0 (fcloses fs)) as [Hpos|Hz]; simpl.
      * split; [reflexivity|]. eapply Hgen; try reflexivity; try congruence.
        intros Hs. exfalso.
        assert (fcloses fs = O) by (eapply closes_ok_zero; [apply (Hcloses Hs)|eauto]). lia.
      * destruct (fqueued fs) as [|k q]; simpl.
        -- destruct (nth_error (fdl fs) h) as [[|[|[|n]]]|] eqn:Ed; simpl; (split; [reflexivity|]);
             eapply Hgen; try reflexivity; try congruence; intros; unfold slot_open_ok; auto.
        -- split; [reflexivity|]. eapply Hgen; try reflexivity; try congruence.
           intros _. right. right. left. eauto.
  - (* ORPoll *)
    pose proof HR as HR0. destruct HR as [Hcl Hlen Hlenl Hlent Hdl Hcloses Hopen Htopen Hto Hclosed Hlate Hlo Hnook].
    assert (Hreset : forall sl, nth_error (fread fs) h = Some sl ->
              Rel (set_fread fs (set_nth (fread fs) h RNone)) m).
    { intros sl Hsl.
      eapply (rel_update_slot fs m _ m h RNone sl HR0 Hsl); simpl; try reflexivity; auto;
        try (intros; unfold slot_open_ok; auto; congruence); try discriminate.
      intros _. split; [discriminate|intros k; discriminate]. }
    unfold is_true.
    destruct (nth_error (fread fs) h) as [[| |k|r|]|] eqn:E2; simpl.
    + (* no read *) split; [|exact HR0]. rewrite Hcl.
      destruct (nth_error (fclosed fs) h) as [[|]|]; simpl; [destruct (nth_error (mlate m) h) as [[|]|]| |]; simpl;
        try destruct (mscope m); try destruct (nth_error (mto m) h) as [[|]|]; reflexivity.
    + (* blocked *) split; [|exact HR0]. rewrite Hcl.
      destruct (nth_error (fclosed fs) h) as [[|]|] eqn:E; simpl.
      * exfalso. apply (proj1 (Hclosed h E)). exact E2.
      * destruct (mscope m) eqn:Hs; [|reflexivity].
        destruct (nth_error (mto m) h) as [[|]|] eqn:Et; try reflexivity.
        exfalso. apply (Htopen eq_refl h E Et). exact E2.
      * reflexivity.
    + (* a datagram *)
      split; [|apply (Hreset (RData k) eq_refl)]. rewrite Hcl.
      destruct (nth_error (fclosed fs) h) as [[|]|] eqn:E; simpl.
      * exfalso. apply (proj2 (Hclosed h E) k). exact E2.
      * destruct (mscope m); [|reflexivity]. destruct (nth_error (mto m) h) as [[|]|]; reflexivity.
      * reflexivity.
    + (* a failure *)
      split; [|apply (Hreset (RGot r) eq_refl)]. rewrite Hcl.
      destruct (nth_error (fclosed fs) h) as [[|]|] eqn:E; simpl.
      * destruct (nth_error (mlate m) h) as [[|]|] eqn:El; simpl.
        -- destruct (Hlate h E El) as [H|H]; unfold slot in H; rewrite E2 in H; inversion H. reflexivity.
        -- destruct r; try reflexivity.
           ++ exfalso. apply (Hnook h). exact E2.
           ++ rewrite (Hto h E2). reflexivity.
        -- destruct r; try reflexivity.
           ++ exfalso. apply (Hnook h). exact E2.
           ++ rewrite (Hto h E2). reflexivity.
      * destruct (mscope m) eqn:Hs; [|reflexivity].
        destruct (Hopen eq_refl h _ E E2) as [H|[H|[[j H]|H]]]; inversion H. subst. rewrite (Hto h E2). reflexivity.
      * reflexivity.
    + (* data handed over, then closed *)
      split; [|apply (Hreset REither eq_refl)]. rewrite Hcl.
      destruct (nth_error (fclosed fs) h) as [[|]|] eqn:E; simpl.
      * destruct (nth_error (mlate m) h) as [[|]|] eqn:El; simpl; try reflexivity.
        destruct (Hlate h E El) as [H|H]; unfold slot in H; rewrite E2 in H; inversion H.
      * destruct (mscope m) eqn:Hs; [|reflexivity].
        destruct (Hopen eq_refl h _ E E2) as [H|[H|[[j H]|H]]]; inversion H.
      * reflexivity.
    + split; [|exact HR0]. rewrite Hcl.
      destruct (nth_error (fclosed fs) h) as [[|]|]; simpl; [destruct (nth_error (mlate m) h) as [[|]|]| |]; simpl;
        try destruct (mscope m); try destruct (nth_error (mto m) h) as [[|]|]; reflexivity.
  - (* ODeliver *)
    destruct (match count_blocked (fread fs) with S (S _) => true | _ => false end); simpl; [split; [reflexivity|exact HR]|].
    rewrite (r_cl _ _ HR).
    destruct (match fclosed fs with [] => false | _ :: _ => all_closed (fclosed fs) end) eqn:Eall; simpl;
      [split; [reflexivity|exact HR]|].
    pose proof HR as HR0. destruct HR as [Hcl Hlen Hlenl Hlent Hdl Hcloses Hopen Htopen Hto Hclosed Hlate Hlo Hnook].
    destruct (first_blocked (fread fs) 0) as [k|] eqn:Efb; simpl; (split; [reflexivity|]).
    + apply first_blocked_spec in Efb. destruct Efb as [_ Hk]. rewrite Nat.sub_0_r in Hk.
      assert (Hko : nth_error (fclosed fs) k = Some false).
      { destruct (nth_error (fclosed fs) k) as [[|]|] eqn:E; [exfalso; apply (proj1 (Hclosed k E)); exact Hk|reflexivity|].
        apply nth_error_None in E. apply nth_error_lt in Hk. lia. }
      eapply (rel_update_slot fs m _ _ k (RData (S (fdelivs fs))) RBlocked HR0 Hk); simpl; try reflexivity; auto;
        try (intros; congruence); try discriminate.
      intros _ _. right. right. left. eauto.
    + eapply rel_ext; [exact HR0| | | | | | | | | ]; simpl; try reflexivity; symmetry; exact Hcl.
Qed.

(* the monitor accepts every history of the sequential model *)
Lemma sc_monitor_from ops : forall fs m, Rel fs m ->
  all_ok (C13_sc_checks_from m ops (sc_run fs ops)) = true.
Proof.
  induction ops as [|o ops IH]; intros fs m HR; simpl; [reflexivity|].
  destruct (step_ok fs m o HR) as [Hc HR']. rewrite all_ok_app, Hc. simpl. apply IH. exact HR'.
Qed.

Lemma sc_monitor_sound ops : C13_sc_monitor ops (sc_run finit ops) = true.
Proof. apply sc_monitor_from. apply rel_init. Qed.
