(* Proofs about the reference-counted handle model (Model/SharedConn.v).  C13. *)
From Coq Require Import ZArith Bool List Arith Lia.
From Ice Require Import Model.PrioSpec Model.SharedConn.
Import ListNotations.
Local Open Scope Z_scope.

Lemma In_remove_nat i k l : In k (remove_nat i l) <-> In k l /\ k <> i.
Proof.
  unfold remove_nat. rewrite filter_In. destruct (Nat.eqb_spec k i); simpl; intuition congruence.
Qed.
Lemma NoDup_remove_nat i l : NoDup l -> NoDup (remove_nat i l).
Proof. intros H. unfold remove_nat. apply NoDup_filter. exact H. Qed.
Lemma remove_nat_notin i l : ~ In i l -> remove_nat i l = l.
Proof.
  induction l as [|a l IH]; simpl; intros H; [reflexivity|].
  destruct (Nat.eqb_spec a i); simpl.
  - subst. exfalso. apply H. now left.
  - f_equal. apply IH. intros Hin. apply H. now right.
Qed.
Lemma length_remove_nat i l : NoDup l -> In i l -> S (length (remove_nat i l)) = length l.
Proof.
  induction l as [|a l IH]; simpl; intros Hnd Hin; [contradiction|].
  inversion Hnd as [|? ? Hna Hnd']; subst.
  destruct (Nat.eqb_spec a i); simpl.
  - subst. rewrite remove_nat_notin by assumption. reflexivity.
  - destruct Hin as [Hin|Hin]; [congruence|]. f_equal. apply IH; assumption.
Qed.
Lemma upd_same {A} (f : nat -> A) i v : upd f i v i = v.
Proof. unfold upd. rewrite Nat.eqb_refl. reflexivity. Qed.
Lemma upd_other {A} (f : nat -> A) i v k : k <> i -> upd f i v k = f k.
Proof. unfold upd. intros H. destruct (Nat.eqb_spec k i); congruence. Qed.

Definition pend_ok (p : hpc) : Prop := match p with HDecd v => v <= 0 | _ => False end.

Record Inv (s : state) : Prop := {
  j_refs : refs s = Z.of_nat (length (live s));
  j_nodup : NoDup (live s);
  j_live : forall h, In h (live s) <-> holds_ref (hpcs s h) = true;
  j_canc : forall h, cancelled s h = past_cancel (hpcs s h);
  j_pend1 : forall h, pend s = Some h -> pend_ok (hpcs s h);
  j_pend2 : forall h v, hpcs s h = HDecd v -> v <= 0 -> pend s = Some h;
  j_pend3 : pend s <> None -> live s = [] /\ ucloses s = O;
  j_uc : (ucloses s <= 1)%nat;
  j_uc1 : ucloses s = 1%nat -> live s = [] /\ pend s = None;
  j_created0 : created s = O -> (forall h, hpcs s h = HNone) /\ ucloses s = O /\ pend s = None;
  j_created : created s <> O -> live s = [] ->
              (ucloses s = 1%nat /\ pend s = None) \/ (ucloses s = O /\ pend s <> None);
  j_rd_cp : forall k h, rds s k = RRet h RClosedPipe -> cancelled s h = true;
  j_rd_eof : forall k h, rds s k = RRet h REOF -> ucloses s = 1%nat
}.

Lemma inv_init : Inv init.
Proof.
  constructor; simpl; try discriminate; try tauto; try (intros; discriminate); auto.
  - constructor.
  - intros h. split; [tauto|discriminate].
Qed.

Ltac split_eqb :=
  repeat match goal with
  | |- context [Nat.eqb ?a ?b] => destruct (Nat.eqb_spec a b); [subst|]
  | H : context [Nat.eqb ?a ?b] |- _ => destruct (Nat.eqb_spec a b); [subst|]
  end.
Ltac rw_pcs :=
  repeat match goal with
  | H : hpcs ?s ?i = _ |- _ => rewrite H in *
  | H : rds ?s ?j = _ |- _ => rewrite H in *
  end.
Ltac fin0 := try solve [intuition (try congruence; try discriminate; try lia; eauto)].
Ltac fin1 := fin0;
  try (intros; repeat match goal with
        | Hq : forall v : Z, ?p = HDecd v -> _, Hx : ?p = HDecd ?w |- _ => pose proof (Hq _ Hx); clear Hq
        end; fin0).
Ltac inst HI k :=
  let a := fresh "Jlive" in let b := fresh "Jcanc" in let c := fresh "Jp1" in let d := fresh "Jp2" in
  pose proof (j_live _ HI k) as a; pose proof (j_canc _ HI k) as b; pose proof (j_pend1 _ HI k) as c;
  pose proof (j_pend2 _ HI k) as d.
Ltac globals HI :=
  let a := fresh "Jrefs" in let b := fresh "Jnodup" in let c := fresh "Jp3" in let d := fresh "Juc" in
  let e := fresh "Juc1" in let f := fresh "Jc0" in let g := fresh "Jc" in
  pose proof (j_refs _ HI) as a; pose proof (j_nodup _ HI) as b; pose proof (j_pend3 _ HI) as c;
  pose proof (j_uc _ HI) as d; pose proof (j_uc1 _ HI) as e; pose proof (j_created0 _ HI) as f;
  pose proof (j_created _ HI) as g.

Ltac intro_inst HI := let x := fresh "x" in intros x; inst HI x.

Lemma length_zero_nil {A} (l : list A) : length l = O -> l = [].
Proof. destruct l; simpl; [reflexivity|discriminate]. Qed.

Ltac auto_inv HI :=
  globals HI;
  try match goal with HI' : Inv ?s0, H : hpcs ?s0 ?h = _ |- _ => inst HI' h;
        (let L := fresh "Jlen" in pose proof (length_remove_nat h _ (j_nodup _ HI')) as L) end;
  constructor; simpl;
       [ | | intro_inst HI | intro_inst HI | intro_inst HI
         | (let x := fresh "x" in let v := fresh "v" in intros x v; inst HI x)
         | | | | |
         | (let x := fresh "x" in let y := fresh "y" in intros x y; pose proof (j_rd_cp _ HI x y); pose proof (j_canc _ HI y))
         | (let x := fresh "x" in let y := fresh "y" in intros x y; pose proof (j_rd_eof _ HI x y)) ];
  unfold upd in *; split_eqb; rw_pcs; unfold pend_ok in *; simpl in *;
  rewrite ?In_remove_nat in *; try (apply NoDup_remove_nat; assumption); fin1.

Lemma inv_step s l s' : Inv s -> step s l s' -> Inv s'.
Proof.
  intros HI Hstep. inversion Hstep; subst.
  - (* h_new *)
    assert (Hnin : ~ In h (live s)).
    { intros Hin. apply (j_live _ HI) in Hin. rewrite H in Hin. discriminate. }
    assert (Hfree : pend s = None /\ ucloses s = O).
    { destruct H0 as [Hc|Ho].
      - destruct (j_created0 _ HI Hc) as (_ & Hu & Hp). auto.
      - assert (Hin : In h0 (live s)) by (apply (j_live _ HI); rewrite Ho; reflexivity).
        split.
        + destruct (pend s) eqn:E; [|reflexivity]. destruct (j_pend3 _ HI) as [Hl _]; [congruence|].
          rewrite Hl in Hin. destruct Hin.
        + pose proof (j_uc _ HI). destruct (Nat.eq_dec (ucloses s) 1) as [E|E]; [|lia].
          destruct (j_uc1 _ HI E) as [Hl _]. rewrite Hl in Hin. destruct Hin. }
    destruct Hfree as [Hp Hu].
    auto_inv HI.
    constructor; assumption.
  - auto_inv HI.
  - auto_inv HI.
  - (* h_dec *)
    assert (Hin : In h (live s)) by (apply (j_live _ HI); rewrite H; reflexivity).
    pose proof (length_remove_nat h _ (j_nodup _ HI) Hin) as Hlen.
    assert (Hr : refs s - 1 = Z.of_nat (length (remove_nat h (live s)))).
    { rewrite (j_refs _ HI), <- Hlen, Nat2Z.inj_succ. lia. }
    assert (Hu : ucloses s = O /\ pend s = None).
    { split.
      - pose proof (j_uc _ HI). destruct (Nat.eq_dec (ucloses s) 1) as [E|E]; [|lia].
        destruct (j_uc1 _ HI E) as [Hl _]. rewrite Hl in Hin. destruct Hin.
      - destruct (pend s) eqn:E; [|reflexivity]. destruct (j_pend3 _ HI) as [Hl _]; [congruence|].
        rewrite Hl in Hin. destruct Hin. }
    destruct Hu as [Hu Hp].
    destruct (Z.leb_spec (refs s - 1) 0) as [Hle|Hgt].
    + assert (Hnil : remove_nat h (live s) = []) by (apply length_zero_nil; lia).
      auto_inv HI; rewrite ?Hnil in *; simpl in *; fin1.
    + assert (Hnn : remove_nat h (live s) <> []).
      { intros E. rewrite E in Hr. simpl in Hr. lia. }
      auto_inv HI.
      exfalso. inversion H0. lia.
  - (* h_uclose *)
    pose proof (j_pend2 _ HI h v H H0) as Hp.
    destruct (j_pend3 _ HI) as [Hl Hu]; [congruence|].
    auto_inv HI.
  - auto_inv HI.
  - exact HI.
  - auto_inv HI.
  - auto_inv HI.
  - auto_inv HI.
  - auto_inv HI.
  - auto_inv HI.
  - auto_inv HI.
Qed.

Lemma reach_inv s : reach s -> Inv s.
Proof. induction 1; [apply inv_init | eapply inv_step; eauto]. Qed.

(* ---- the underlying connection is closed exactly once, by the Close of the last handle --------- *)
Lemma closes_le_1 s : reach s -> (ucloses s <= 1)%nat.
Proof. intros H. apply (j_uc _ (reach_inv _ H)). Qed.

(* not before: while any handle still holds its reference the underlying has not been closed *)
Lemma not_closed_while_held s h : reach s -> holds_ref (hpcs s h) = true -> ucloses s = O.
Proof.
  intros Hr Hh. pose proof (reach_inv _ Hr) as HI.
  apply (j_live _ HI) in Hh. pose proof (j_uc _ HI).
  destruct (Nat.eq_dec (ucloses s) 1) as [E|E]; [|lia].
  destruct (j_uc1 _ HI E) as [Hl _]. rewrite Hl in Hh. destruct Hh.
Qed.

(* the only step that closes the underlying is the underlying.Close() of the handle whose
   decrement reached zero; at that moment no handle holds a reference any more *)
Lemma close_step s l s' : reach s -> step s l s' -> ucloses s' <> ucloses s ->
  exists h, l = LUClose h /\ ucloses s = O /\ ucloses s' = 1%nat /\
            (forall h', holds_ref (hpcs s' h') = false) /\
            (forall h' v, hpcs s h' = HDecd v -> v <= 0 -> h' = h).
Proof.
  intros Hr Hs Hne. pose proof (reach_inv _ Hr) as HI.
  inversion Hs; subst; simpl in Hne; try congruence.
  exists h. pose proof (j_pend2 _ HI h v H H0) as Hp.
  destruct (j_pend3 _ HI) as [Hl Hu]; [congruence|].
  repeat split; auto.
  - simpl. rewrite Hu. reflexivity.
  - intros h'. simpl. unfold upd. destruct (Nat.eqb_spec h' h); [reflexivity|].
    destruct (holds_ref (hpcs s h')) eqn:E; [|reflexivity].
    apply (j_live _ HI) in E. rewrite Hl in E. destruct E.
  - intros h' v' Hd Hv. pose proof (j_pend2 _ HI h' v' Hd Hv). congruence.
Qed.

(* exactly once: when every handed-out handle has finished its Close, the underlying has been closed *)
Lemma closed_when_settled s : reach s -> created s <> O ->
  (forall h, settled (hpcs s h) = true) -> ucloses s = 1%nat.
Proof.
  intros Hr Hc Hall. pose proof (reach_inv _ Hr) as HI.
  assert (Hl : live s = []).
  { destruct (live s) as [|x l] eqn:E; [reflexivity|]. exfalso.
    assert (Hin : In x (live s)) by (rewrite E; now left).
    apply (j_live _ HI) in Hin. specialize (Hall x). destruct (hpcs s x); simpl in *; discriminate. }
  destruct (j_created _ HI Hc Hl) as [[Hu _]|[_ Hp]]; [exact Hu|].
  exfalso. destruct (pend s) as [h|] eqn:E; [|congruence].
  pose proof (j_pend1 _ HI h E) as Hp1. specialize (Hall h).
  destruct (hpcs s h); simpl in *; try discriminate; contradiction.
Qed.

(* ---- a Close touches only its own handle -------------------------------------------------------- *)
Lemma sibling_frame s l s' : step s l s' ->
  forall h', actor l <> Some h' -> hpcs s' h' = hpcs s h' /\ cancelled s' h' = cancelled s h'.
Proof.
  intros Hs h' Ha. inversion Hs; subst; simpl in *; auto;
    split; auto; apply upd_other; congruence.
Qed.

(* an open handle is fully usable in every reachable state: writes pass, reads only ever return data *)
Lemma open_usable s h : reach s -> hpcs s h = HOpen ->
  write_outcome s h = WOk /\ (forall k r, rds s k = RRet h r -> r = ROk).
Proof.
  intros Hr Ho. pose proof (reach_inv _ Hr) as HI.
  assert (Hc : cancelled s h = false) by (rewrite (j_canc _ HI), Ho; reflexivity).
  assert (Hu : ucloses s = O) by (apply (not_closed_while_held s h Hr); rewrite Ho; reflexivity).
  split.
  - unfold write_outcome. rewrite Hc, Hu. reflexivity.
  - intros k r Hk. destruct r; [reflexivity| |].
    + pose proof (j_rd_cp _ HI k h Hk). congruence.
    + pose proof (j_rd_eof _ HI k h Hk). lia.
Qed.

(* the closed handle's own I/O fails: writes return ErrClosedPipe from the cancel step on, a
   blocked read can (and only then can) return ErrClosedPipe, a new read fails at once *)
Lemma cancel_sticky s l s' h : step s l s' -> cancelled s h = true -> cancelled s' h = true.
Proof.
  intros Hs Hc. inversion Hs; subst; simpl; auto.
  unfold upd. destruct (Nat.eqb h h0); auto.
Qed.

Lemma closed_fails s h : reach s -> past_cancel (hpcs s h) = true ->
  write_outcome s h = WClosedPipe /\
  (forall k, rds s k = RWait h -> exists s', step s (LReadRet k h RClosedPipe) s') /\
  (forall k s', rds s k = RIdle -> step s (LRead k h) s' -> rds s' k = RRet h RClosedPipe).
Proof.
  intros Hr Hp. pose proof (reach_inv _ Hr) as HI.
  assert (Hc : cancelled s h = true) by (rewrite (j_canc _ HI); exact Hp).
  repeat split.
  - unfold write_outcome. rewrite Hc. reflexivity.
  - intros k Hk. eexists. apply r_cancel; eauto.
  - intros k s' Hk Hs. inversion Hs; subst; simpl; rewrite ?upd_same; auto. congruence.
Qed.

(* a read on h returns ErrClosedPipe only if h itself was closed *)
Lemma read_fails_only_own s k h : reach s -> rds s k = RRet h RClosedPipe -> past_cancel (hpcs s h) = true.
Proof.
  intros Hr Hk. pose proof (reach_inv _ Hr) as HI.
  rewrite <- (j_canc _ HI). apply (j_rd_cp _ HI k h Hk).
Qed.

(* ---- the statements used by Props/C13.v ------------------------------------------------------- *)
Lemma underlying_closed_once s : reach s ->
  (ucloses s <= 1)%nat /\
  (forall h, holds_ref (hpcs s h) = true -> ucloses s = O) /\
  (created s <> O -> (forall h, settled (hpcs s h) = true) -> ucloses s = 1%nat) /\
  (forall l s', step s l s' -> ucloses s' <> ucloses s ->
     exists h, l = LUClose h /\ ucloses s = O /\ ucloses s' = 1%nat /\
               (forall h', holds_ref (hpcs s' h') = false) /\
               (forall h' v, hpcs s h' = HDecd v -> v <= 0 -> h' = h)).
Proof.
  intros Hr. repeat split.
  - apply closes_le_1; exact Hr.
  - intros h. apply not_closed_while_held; exact Hr.
  - apply closed_when_settled; exact Hr.
  - intros l s'. apply close_step; exact Hr.
Qed.

Lemma sibling_unaffected s : reach s ->
  (forall l s' h', step s l s' -> actor l <> Some h' ->
     hpcs s' h' = hpcs s h' /\ cancelled s' h' = cancelled s h') /\
  (forall h, hpcs s h = HOpen ->
     write_outcome s h = WOk /\ (forall k r, rds s k = RRet h r -> r = ROk)).
Proof.
  intros Hr. split.
  - intros l s' h' Hs Ha. eapply sibling_frame; eauto.
  - intros h. apply open_usable; exact Hr.
Qed.

Lemma closed_handle_io_fails s h : reach s -> past_cancel (hpcs s h) = true ->
  write_outcome s h = WClosedPipe /\
  (forall k, rds s k = RWait h -> exists s', step s (LReadRet k h RClosedPipe) s') /\
  (forall k s', rds s k = RIdle -> step s (LRead k h) s' -> rds s' k = RRet h RClosedPipe) /\
  (forall l s', step s l s' -> cancelled s' h = true).
Proof.
  intros Hr Hp. destruct (closed_fails s h Hr Hp) as (A & B & C). repeat split; auto.
  intros l s' Hs. eapply cancel_sticky; eauto.
  rewrite (j_canc _ (reach_inv _ Hr)). exact Hp.
Qed.

(* non-vacuity: two handles, the first closed completely (underlying still open), then the second *)
Lemma example_run :
  exists s, reach s /\ hpcs s 0%nat = HClosed /\ hpcs s 1%nat = HClosed /\ ucloses s = 1%nat /\ created s = 2%nat.
Proof.
  pose proof reach_init as R.
  assert (R1 := reach_step _ _ _ R (h_new init 0 0 eq_refl (or_introl eq_refl))). clear R.
  match type of R1 with reach ?s1 =>
    assert (R2 := reach_step _ _ _ R1 (h_new s1 1 0 eq_refl (or_intror eq_refl))) end. clear R1.
  match type of R2 with reach ?s2 => assert (R3 := reach_step _ _ _ R2 (h_close_begin s2 0 eq_refl)) end. clear R2.
  match type of R3 with reach ?s3 => assert (R4 := reach_step _ _ _ R3 (h_cancel s3 0 eq_refl)) end. clear R3.
  match type of R4 with reach ?s4 => assert (R5 := reach_step _ _ _ R4 (h_dec s4 0 eq_refl)) end. clear R4.
  cbn in R5.
  match type of R5 with reach ?s5 => assert (R6 := reach_step _ _ _ R5 (h_no_uclose s5 0 1 eq_refl eq_refl)) end. clear R5.
  match type of R6 with reach ?s6 => assert (R7 := reach_step _ _ _ R6 (h_close_begin s6 1 eq_refl)) end. clear R6.
  match type of R7 with reach ?s7 => assert (R8 := reach_step _ _ _ R7 (h_cancel s7 1 eq_refl)) end. clear R7.
  match type of R8 with reach ?s8 => assert (R9 := reach_step _ _ _ R8 (h_dec s8 1 eq_refl)) end. clear R8.
  cbn in R9.
  match type of R9 with reach ?s9 =>
    assert (R10 := reach_step _ _ _ R9 (h_uclose s9 1 0 eq_refl ltac:(discriminate))) end. clear R9.
  eexists. split; [exact R10|]. repeat split.
Qed.
