(* Proofs about the reference-counted handle model (Model/SharedConn.v).  C13. *)
From Coq Require Import ZArith Bool List Arith Lia.
From Ice Require Import Model.PrioSpec Model.SharedConn.
Import ListNotations.
Local Open Scope Z_scope.

Lemma In_remove_nat i k l : In k (remove_nat i l) <-> In k l /\ k <> i.
Proof.
  unfold remove_nat. rewrite filter_In. destruct (Nat.eqb_spec k i); simpl; intuition congruence.
Qed.
Lemma NoDup_remove_nat i l : NoDup l -> NoDup (remove_nat i l).
Proof. intros H. unfold remove_nat. apply NoDup_filter. exact H. Qed.
Lemma remove_nat_notin i l : ~ In i l -> remove_nat i l = l.
Proof.
  induction l as [|a l IH]; simpl; intros H; [reflexivity|].
  destruct (Nat.eqb_spec a i); simpl.
  - subst. exfalso. apply H. now left.
  - f_equal. apply IH. intros Hin. apply H. now right.
Qed.
Lemma length_remove_nat i l : NoDup l -> In i l -> S (length (remove_nat i l)) = length l.
Proof.
  induction l as [|a l IH]; simpl; intros Hnd Hin; [contradiction|].
  inversion Hnd as [|? ? Hna Hnd']; subst.
  destruct (Nat.eqb_spec a i); simpl.
  - subst. rewrite remove_nat_notin by assumption. reflexivity.
  - destruct Hin as [Hin|Hin]; [congruence|]. f_equal. apply IH; assumption.
Qed.
Lemma upd_same {A} (f : nat -> A) i v : upd f i v i = v.
Proof. unfold upd. rewrite Nat.eqb_refl. reflexivity. Qed.
Lemma upd_other {A} (f : nat -> A) i v k : k <> i -> upd f i v k = f k.
Proof. unfold upd. intros H. destruct (Nat.eqb_spec k i); congruence. Qed.

Definition pend_ok (p : hpc) : Prop := match p with HDecd v => v <= 0 | _ => False end.

Record Inv (s : state) : Prop := {
  j_refs : refs s = Z.of_nat (length (live s));
  j_nodup : NoDup (live s);
  j_live : forall h, In h (live s) <-> holds_ref (hpcs s h) = true;
  j_canc : forall h, cancelled s h = past_cancel (hpcs s h);
  j_pend1 : forall h, pend s = Some h -> pend_ok (hpcs s h);
  j_pend2 : forall h v, hpcs s h = HDecd v -> v <= 0 -> pend s = Some h;
  j_pend3 : pend s <> None -> live s = [] /\ ucloses s = O;
  j_uc : (ucloses s <= 1)%nat;
  j_uc1 : ucloses s = 1%nat -> live s = [] /\ pend s = None;
  j_created0 : created s = O -> (forall h, hpcs s h = HNone) /\ ucloses s = O /\ pend s = None;
  j_created : created s <> O -> live s = [] ->
              (ucloses s = 1%nat /\ pend s = None) \/ (ucloses s = O /\ pend s <> None);
  j_rd_cp : forall k h, rds s k = RRet h RClosedPipe -> cancelled s h = true;
  j_rd_eof : forall k h, rds s k = RRet h REOF -> ucloses s = 1%nat
}.

Lemma inv_init : Inv init.
Proof.
  constructor; simpl; try discriminate; try tauto; try (intros; discriminate); auto.
  - constructor.
  - intros h. split; [tauto|discriminate].
Qed.

Ltac split_eqb :=
  repeat match goal with
  | |- context [Nat.eqb ?a ?b] => destruct (Nat.eqb_spec a b); [subst|]
  | H : context [Nat.eqb ?a ?b] |- _ => destruct (Nat.eqb_spec a b); [subst|]
  end.
Ltac rw_pcs :=
  repeat match goal with
  | H : hpcs ?s ?i = _ |- _ => rewrite H in *
  | H : rds ?s ?j = _ |- _ => rewrite H in *
  end.
Ltac fin0 := try solve [intuition (try congruence; try discriminate; try lia; eauto)].
Ltac fin1 := fin0;
  try (intros; repeat match goal with
        | Hq : forall v : Z, ?p = HDecd v -> _, Hx : ?p = HDecd ?w |- _ => pose proof (Hq _ Hx); clear Hq
        end; fin0).
Ltac inst HI k :=
  let a := fresh "Jlive" in let b := fresh "Jcanc" in let c := fresh "Jp1" in let d := fresh "Jp2" in
  pose proof (j_live _ HI k) as a; pose proof (j_canc _ HI k) as b; pose proof (j_pend1 _ HI k) as c;
  pose proof (j_pend2 _ HI k) as d.
Ltac globals HI :=
  let a := fresh "Jrefs" in let b := fresh "Jnodup" in let c := fresh "Jp3" in let d := fresh "Juc" in
  let e := fresh "Juc1" in let f := fresh "Jc0" in let g := fresh "Jc" in
  pose proof (j_refs _ HI) as a; pose proof (j_nodup _ HI) as b; pose proof (j_pend3 _ HI) as c;
  pose proof (j_uc _ HI) as d; pose proof (j_uc1 _ HI) as e; pose proof (j_created0 _ HI) as f;
  pose proof (j_created _ HI) as g.

Ltac intro_inst HI := let x := fresh "x" in intros x; inst HI x.

Lemma length_zero_nil {A} (l : list A) : length l = O -> l = [].
Proof. destruct l; simpl; [reflexivity|discriminate]. Qed.

Ltac auto_inv HI :=
  globals HI;
  try match goal with HI' : Inv ?s0, H : hpcs ?s0 ?h = _ |- _ => inst HI' h;
        (let L := fresh "Jlen" in pose proof (length_remove_nat h _ (j_nodup _ HI')) as L) end;
  constructor; simpl;
       [ | | intro_inst HI | intro_inst HI | intro_inst HI
         | (let x := fresh "x" in let v := fresh "v" in intros x v; inst HI x)
         | | | | |
         | (let x := fresh "x" in let y := fresh "y" in intros x y; pose proof (j_rd_cp _ HI x y); pose proof (j_canc _ HI y))
         | (let x := fresh "x" in let y := fresh "y" in intros x y; pose proof (j_rd_eof _ HI x y)) ];
  unfold upd in *; split_eqb; rw_pcs; unfold pend_ok in *; simpl in *;
  rewrite ?In_remove_nat in *; try (apply NoDup_remove_nat; assumption); fin1.

Lemma inv_step s l s' : Inv s -> step s l s' -> Inv s'.
Proof.
  intros HI Hstep. inversion Hstep; subst.
  - (* h_new *)
    assert (Hnin : ~ In h (live s)).
    { intros Hin. apply (j_live _ HI) in Hin. rewrite H in Hin. discriminate. }
    assert (Hfree : pend s = None /\ ucloses s = O).
    { destruct H0 as [Hc|Ho].
      - destruct (j_created0 _ HI Hc) as (_ & Hu & Hp). auto.
      - assert (Hin : In h0 (live s)) by (apply (j_live _ HI); rewrite Ho; reflexivity).
        split.
        + destruct (pend s) eqn:E; [|reflexivity]. destruct (j_pend3 _ HI) as [Hl _]; [congruence|].
          rewrite Hl in Hin. destruct Hin.
        + pose proof (j_uc _ HI). destruct (Nat.eq_dec (ucloses s) 1) as [E|E]; [|lia].
          destruct (j_uc1 _ HI E) as [Hl _]. rewrite Hl in Hin. destruct Hin. }
    destruct Hfree as [Hp Hu].
    auto_inv HI.
    constructor; assumption.
  - auto_inv HI.
  - auto_inv HI.
  - (* h_dec *)
    assert (Hin : In h (live s)) by (apply (j_live _ HI); rewrite H; reflexivity).
    pose proof (length_remove_nat h _ (j_nodup _ HI) Hin) as Hlen.
    assert (Hr : refs s - 1 = Z.of_nat (length (remove_nat h (live s)))).
    { rewrite (j_refs _ HI), <- Hlen, Nat2Z.inj_succ. lia. }
    assert (Hu : ucloses s = O /\ pend s = None).
    { split.
      - pose proof (j_uc _ HI). destruct (Nat.eq_dec (ucloses s) 1) as [E|E]; [|lia].
        destruct (j_uc1 _ HI E) as [Hl _]. rewrite Hl in Hin. destruct Hin.
      - destruct (pend s) eqn:E; [|reflexivity]. destruct (j_pend3 _ HI) as [Hl _]; [congruence|].
        rewrite Hl in Hin. destruct Hin. }
    destruct Hu as [Hu Hp].
    destruct (Z.leb_spec (refs s - 1) 0) as [Hle|Hgt].
    + assert (Hnil : remove_nat h (live s) = []) by (apply length_zero_nil; lia).
      auto_inv HI; rewrite ?Hnil in *; simpl in *; fin1.
    + assert (Hnn : remove_nat h (live s) <> []).
      { intros E. rewrite E in Hr. simpl in Hr. lia. }
      auto_inv HI.
      exfalso. inversion H0. lia.
  - (* h_uclose *)
    pose proof (j_pend2 _ HI h v H H0) as Hp.
    destruct (j_pend3 _ HI) as [Hl Hu]; [congruence|].
    auto_inv HI.
  - auto_inv HI.
  - exact HI.
  - auto_inv HI.
  - auto_inv HI.
  - auto_inv HI.
  - auto_inv HI.
  - auto_inv HI.
  - auto_inv HI.
Qed.

Lemma reach_inv s : reach s -> Inv s.
Proof. induction 1; [apply inv_init | eapply inv_step; eauto]. Qed.

(* ---- the underlying connection is closed exactly once, by the Close of the last handle --------- *)
Lemma closes_le_1 s : reach s -> (ucloses s <= 1)%nat.
Proof. intros H. apply (j_uc _ (reach_inv _ H)). Qed.

(* not before: while any handle still holds its reference the underlying has not been closed *)
Lemma not_closed_while_held s h : reach s -> holds_ref (hpcs s h) = true -> ucloses s = O.
Proof.
  intros Hr Hh. pose proof (reach_inv _ Hr) as HI.
  apply (j_live _ HI) in Hh. pose proof (j_uc _ HI).
  destruct (Nat.eq_dec (ucloses s) 1) as [E|E]; [|lia].
  destruct (j_uc1 _ HI E) as [Hl _]. rewrite Hl in Hh. destruct Hh.
Qed.

(* the only step that closes the underlying is the underlying.Close() of the handle whose
   decrement reached zero; at that moment no handle holds a reference any more *)
Lemma close_step s l s' : reach s -> step s l s' -> ucloses s' <> ucloses s ->
  exists h, l = LUClose h /\ ucloses s = O /\ ucloses s' = 1%nat /\
            (forall h', holds_ref (hpcs s' h') = false) /\
            (forall h' v, hpcs s h' = HDecd v -> v <= 0 -> h' = h).
Proof.
  intros Hr Hs Hne. pose proof (reach_inv _ Hr) as HI.
  inversion Hs; subst; simpl in Hne; try congruence.
  exists h. pose proof (j_pend2 _ HI h v H H0) as Hp.
  destruct (j_pend3 _ HI) as [Hl Hu]; [congruence|].
  repeat split; auto.
  - simpl. rewrite Hu. reflexivity.
  - intros h'. simpl. unfold upd. destruct (Nat.eqb_spec h' h); [reflexivity|].
    destruct (holds_ref (hpcs s h')) eqn:E; [|reflexivity].
    apply (j_live _ HI) in E. rewrite Hl in E. destruct E.
  - intros h' v' Hd Hv. pose proof (j_pend2 _ HI h' v' Hd Hv). congruence.
Qed.

(* exactly once: when every handed-out handle has finished its Close, the underlying has been closed *)
Lemma closed_when_settled s : reach s -> created s <> O ->
  (forall h, settled (hpcs s h) = true) -> ucloses s = 1%nat.
Proof.
  intros Hr Hc Hall. pose proof (reach_inv _ Hr) as HI.
  assert (Hl : live s = []).
  { destruct (live s) as [|x l] eqn:E; [reflexivity|]. exfalso.
    assert (Hin : In x (live s)) by (rewrite E; now left).
    apply (j_live _ HI) in Hin. specialize (Hall x). destruct (hpcs s x); simpl in *; discriminate. }
  destruct (j_created _ HI Hc Hl) as [[Hu _]|[_ Hp]]; [exact Hu|].
  exfalso. destruct (pend s) as [h|] eqn:E; [|congruence].
  pose proof (j_pend1 _ HI h E) as Hp1. specialize (Hall h).
  destruct (hpcs s h); simpl in *; try discriminate; contradiction.
Qed.

(* ---- a Close touches only its own handle -------------------------------------------------------- *)
Lemma sibling_frame s l s' : step s l s' ->
  forall h', actor l <> Some h' -> hpcs s' h' = hpcs s h' /\ cancelled s' h' = cancelled s h'.
Proof.
  intros Hs h' Ha. inversion Hs; subst; simpl in *; auto;
    split; auto; apply upd_other; congruence.
Qed.

(* an open handle is fully usable in every reachable state: writes pass, reads only ever return data *)
Lemma open_usable s h : reach s -> hpcs s h = HOpen ->
  write_outcome s h = WOk /\ (forall k r, rds s k = RRet h r -> r = ROk).
Proof.
  intros Hr Ho. pose proof (reach_inv _ Hr) as HI.
  assert (Hc : cancelled s h = false) by (rewrite (j_canc _ HI), Ho; reflexivity).
  assert (Hu : ucloses s = O) by (apply (not_closed_while_held s h Hr); rewrite Ho; reflexivity).
  split.
  - unfold write_outcome. rewrite Hc, Hu. reflexivity.
  - intros k r Hk. destruct r; [reflexivity| |].
    + pose proof (j_rd_cp _ HI k h Hk). congruence.
    + pose proof (j_rd_eof _ HI k h Hk). lia.
Qed.

(* the closed handle's own I/O fails: writes return ErrClosedPipe from the cancel step on, a
   blocked read can (and only then can) return ErrClosedPipe, a new read fails at once *)
Lemma cancel_sticky s l s' h : step s l s' -> cancelled s h = true -> cancelled s' h = true.
Proof.
  intros Hs Hc. inversion Hs; subst; simpl; auto.
  unfold upd. destruct (Nat.eqb h h0); auto.
Qed.

Lemma closed_fails s h : reach s -> past_cancel (hpcs s h) = true ->
  write_outcome s h = WClosedPipe /\
  (forall k, rds s k = RWait h -> exists s', step s (LReadRet k h RClosedPipe) s') /\
  (forall k s', rds s k = RIdle -> step s (LRead k h) s' -> rds s' k = RRet h RClosedPipe).
Proof.
  intros Hr Hp. pose proof (reach_inv _ Hr) as HI.
  assert (Hc : cancelled s h = true) by (rewrite (j_canc _ HI); exact Hp).
  repeat split.
  - unfold write_outcome. rewrite Hc. reflexivity.
  - intros k Hk. eexists. apply r_cancel; eauto.
  - intros k s' Hk Hs. inversion Hs; subst; simpl; rewrite ?upd_same; auto. congruence.
Qed.

(* a read on h returns ErrClosedPipe only if h itself was closed *)
Lemma read_fails_only_own s k h : reach s -> rds s k = RRet h RClosedPipe -> past_cancel (hpcs s h) = true.
Proof.
  intros Hr Hk. pose proof (reach_inv _ Hr) as HI.
  rewrite <- (j_canc _ HI). apply (j_rd_cp _ HI k h Hk).
Qed.

(* ---- the statements used by Props/C13.v ------------------------------------------------------- *)
Lemma underlying_closed_once s : reach s ->
  (ucloses s <= 1)%nat /\
  (forall h, holds_ref (hpcs s h) = true -> ucloses s = O) /\
  (created s <> O -> (forall h, settled (hpcs s h) = true) -> ucloses s = 1%nat) /\
  (forall l s', step s l s' -> ucloses s' <> ucloses s ->
     exists h, l = LUClose h /\ ucloses s = O /\ ucloses s' = 1%nat /\
               (forall h', holds_ref (hpcs s' h') = false) /\
               (forall h' v, hpcs s h' = HDecd v -> v <= 0 -> h' = h)).
Proof.
  intros Hr. repeat split.
  - apply closes_le_1; exact Hr.
  - intros h. apply not_closed_while_held; exact Hr.
  - apply closed_when_settled; exact Hr.
  - intros l s'. apply close_step; exact Hr.
Qed.

Lemma sibling_unaffected s : reach s ->
  (forall l s' h', step s l s' -> actor l <> Some h' ->
     hpcs s' h' = hpcs s h' /\ cancelled s' h' = cancelled s h') /\
  (forall h, hpcs s h = HOpen ->
     write_outcome s h = WOk /\ (forall k r, rds s k = RRet h r -> r = ROk)).
Proof.
  intros Hr. split.
  - intros l s' h' Hs Ha. eapply sibling_frame; eauto.
  - intros h. apply open_usable; exact Hr.
Qed.

Lemma closed_handle_io_fails s h : reach s -> past_cancel (hpcs s h) = true ->
  write_outcome s h = WClosedPipe /\
  (forall k, rds s k = RWait h -> exists s', step s (LReadRet k h RClosedPipe) s') /\
  (forall k s', rds s k = RIdle -> step s (LRead k h) s' -> rds s' k = RRet h RClosedPipe) /\
  (forall l s', step s l s' -> cancelled s' h = true).
Proof.
  intros Hr Hp. destruct (closed_fails s h Hr Hp) as (A & B & C). repeat split; auto.
  intros l s' Hs. eapply cancel_sticky; eauto.
  rewrite (j_canc _ (reach_inv _ Hr)). exact Hp.
Qed.

(* non-vacuity: two handles, the first closed completely (underlying still open), then the second *)
Lemma example_run :
  exists s, reach s /\ hpcs s 0%nat = HClosed /\ hpcs s 1%nat = HClosed /\ ucloses s = 1%nat /\ created s = 2%nat.
Proof.
  pose proof reach_init as R.
  assert (R1 := reach_step _ _ _ R (h_new init 0 0 eq_refl (or_introl eq_refl))). clear R.
  match type of R1 with reach ?s1 =>
    assert (R2 := reach_step _ _ _ R1 (h_new s1 1 0 eq_refl (or_intror eq_refl))) end. clear R1.
  match type of R2 with reach ?s2 => assert (R3 := reach_step _ _ _ R2 (h_close_begin s2 0 eq_refl)) end. clear R2.
  match type of R3 with reach ?s3 => assert (R4 := reach_step _ _ _ R3 (h_cancel s3 0 eq_refl)) end. clear R3.
  match type of R4 with reach ?s4 => assert (R5 := reach_step _ _ _ R4 (h_dec s4 0 eq_refl)) end. clear R4.
  cbn in R5.
  match type of R5 with reach ?s5 => assert (R6 := reach_step _ _ _ R5 (h_no_uclose s5 0 1 eq_refl eq_refl)) end. clear R5.
  match type of R6 with reach ?s6 => assert (R7 := reach_step _ _ _ R6 (h_close_begin s6 1 eq_refl)) end. clear R6.
  match type of R7 with reach ?s7 => assert (R8 := reach_step _ _ _ R7 (h_cancel s7 1 eq_refl)) end. clear R7.
  match type of R8 with reach ?s8 => assert (R9 := reach_step _ _ _ R8 (h_dec s8 1 eq_refl)) end. clear R8.
  cbn in R9.
  match type of R9 with reach ?s9 =>
    assert (R10 := reach_step _ _ _ R9 (h_uclose s9 1 0 eq_refl ltac:(discriminate))) end. clear R9.
  eexists. split; [exact R10|]. repeat split.
Qed.

(* ================================================================================================
   The sequential view (sc_run) and the monitor: the monitor accepts every history of the model,
   malformed and out-of-scope histories included - it cannot raise an alarm on behaviour the model
   has. *)
From Coq Require Import String.
(* ---- list facts -------------------------------------------------------------------------------- *)
Lemma set_nth_length {A} (l : list A) n v : List.length (set_nth l n v) = List.length l.
Proof. revert n; induction l as [|a l IH]; intros [|n]; simpl; auto. Qed.

Lemma nth_set_nth_eq {A} (l : list A) n v x : nth_error l n = Some x -> nth_error (set_nth l n v) n = Some v.
Proof. revert n; induction l as [|a l IH]; intros [|n]; simpl; try discriminate; auto. Qed.

Lemma nth_set_nth_neq {A} (l : list A) n k v : n <> k -> nth_error (set_nth l n v) k = nth_error l k.
Proof.
  revert n k; induction l as [|a l IH]; intros [|n] [|k] H; simpl; auto; try congruence.
Qed.

Lemma nth_set_nth_none {A} (l : list A) n v : nth_error l n = None -> set_nth l n v = l.
Proof. revert n; induction l as [|a l IH]; intros [|n]; simpl; try discriminate; auto. intros H. f_equal. auto. Qed.

Lemma set_nth_same {A} (l : list A) n v : nth_error l n = Some v -> set_nth l n v = l.
Proof.
  revert n; induction l as [|a l IH]; intros [|n]; simpl; try discriminate; auto.
  - intros H. inversion H. reflexivity.
  - intros H. f_equal. auto.
Qed.

Lemma all_closed_spec l : all_closed l = true <-> forall h b, nth_error l h = Some b -> b = true.
Proof.
  unfold all_closed. rewrite forallb_forall. split.
  - intros H h b Hn. apply nth_error_In in Hn. apply H in Hn. exact Hn.
  - intros H b Hin. apply In_nth_error in Hin. destruct Hin as [n Hn]. eapply H; eauto.
Qed.

Lemma all_closed_false_open l h : nth_error l h = Some false -> all_closed l = false.
Proof.
  intros H. destruct (all_closed l) eqn:E; [|reflexivity].
  rewrite all_closed_spec in E. apply E in H. discriminate.
Qed.

Lemma all_closed_app_false l : all_closed (l ++ [false]) = false.
Proof. unfold all_closed. rewrite forallb_app. simpl. apply andb_false_r. Qed.

Lemma nth_error_app_last {A} (l : list A) x h :
  nth_error (l ++ [x]) h = if Nat.ltb h (List.length l) then nth_error l h else if Nat.eqb h (List.length l) then Some x else None.
Proof.
  destruct (Nat.ltb_spec h (List.length l)).
  - apply nth_error_app1; auto.
  - rewrite nth_error_app2 by lia. destruct (Nat.eqb_spec h (List.length l)).
    + subst. rewrite Nat.sub_diag. reflexivity.
    + destruct (h - List.length l)%nat eqn:E; [lia|]. simpl. destruct n0; reflexivity.
Qed.

Lemma nth_error_lt {A} (l : list A) h x : nth_error l h = Some x -> (h < List.length l)%nat.
Proof. intros H. apply nth_error_Some. congruence. Qed.

Lemma first_blocked_spec l n k : first_blocked l n = Some k ->
  (n <= k)%nat /\ nth_error l (k - n) = Some RBlocked.
Proof.
  revert n. induction l as [|a l IH]; simpl; intros n H; [discriminate|].
  destruct a; try (apply IH in H; destruct H as [Hle Hn]; split; [lia|];
                   replace (k - n)%nat with (S (k - S n)) by lia; exact Hn).
  inversion H; subst. split; [lia|]. rewrite Nat.sub_diag. reflexivity.
Qed.

Lemma all_ok_app a b : all_ok (a ++ b) = all_ok a && all_ok b.
Proof. unfold all_ok. apply forallb_app. Qed.

(* ---- the relation between the sequential model and the monitor's bookkeeping --------------------- *)
Definition slot (fs : fstate) (h : nat) := nth_error (fread fs) h.

Record Rel (fs : fstate) (m : mstate) : Prop := {
  r_cl : mcl m = fclosed fs;
  r_len : List.length (fread fs) = List.length (fclosed fs);
  r_lenl : List.length (mlate m) = List.length (fclosed fs);
  r_closes : mscope m = true -> closes_ok (fclosed fs) (Z.of_nat (fcloses fs)) = true;
  r_open : mscope m = true -> forall h, nth_error (fclosed fs) h = Some false ->
           slot fs h = Some RNone \/ slot fs h = Some RBlocked \/ slot fs h = Some (RGot ROk);
  r_closed : forall h, nth_error (fclosed fs) h = Some true -> slot fs h <> Some RBlocked;
  r_late : forall h, nth_error (fclosed fs) h = Some true -> nth_error (mlate m) h = Some true ->
           slot fs h = Some RNone \/ slot fs h = Some (RGot RClosedPipe);
  r_late_open : forall h, nth_error (fclosed fs) h = Some false -> nth_error (mlate m) h = Some false
}.

Lemma rel_init : Rel finit minit.
Proof. constructor; simpl; auto; intros; destruct h; discriminate. Qed.

Lemma closes_ok_zero cl c : closes_ok cl (Z.of_nat c) = true -> (exists h, nth_error cl h = Some false) -> c = O.
Proof.
  unfold closes_ok. intros H [h Hh]. destruct cl; [destruct h; discriminate|].
  rewrite (all_closed_false_open _ _ Hh) in H. apply Z.eqb_eq in H. lia.
Qed.

(* closing one handle *)
Lemma rel_close fs m h : Rel fs m ->
  Rel (f_close fs h) {| mcl := mark_one (mcl m) h; mlate := mlate m; mscope := mscope m |}.
Proof.
  intros HR. destruct HR as [Hcl Hlen Hlenl Hcloses Hopen Hclosed Hlate Hlo].
  unfold f_close, mark_one. rewrite Hcl.
  destruct (nth_error (fclosed fs) h) as [[|]|] eqn:E.
  - (* already closed *)
    rewrite (set_nth_same _ _ _ E). constructor; simpl; auto.
  - (* open: close it *)
    assert (Hslot : exists sl, nth_error (fread fs) h = Some sl).
    { destruct (nth_error (fread fs) h) eqn:E2; [eauto|]. apply nth_error_None in E2.
      apply nth_error_lt in E. lia. }
    destruct Hslot as [sl Hsl].
    set (rd := match nth_error (fread fs) h with
               | Some RBlocked => set_nth (fread fs) h (RGot RClosedPipe)
               | Some (RGot ROk) => set_nth (fread fs) h REither
               | _ => fread fs end).
    assert (Hrdlen : List.length rd = List.length (fread fs)).
    { unfold rd. rewrite Hsl. destruct sl as [| |[| |]|]; rewrite ?set_nth_length; reflexivity. }
    assert (Hrd_other : forall k, k <> h -> nth_error rd k = nth_error (fread fs) k).
    { intros k Hk. unfold rd. rewrite Hsl. destruct sl as [| |[| |]|]; rewrite ?nth_set_nth_neq by congruence; reflexivity. }
    assert (Hrd_h : nth_error rd h <> Some RBlocked /\
                    (mscope m = true -> nth_error rd h = Some RNone \/ nth_error rd h = Some (RGot RClosedPipe) \/ nth_error rd h = Some REither)).
    { unfold rd. rewrite Hsl. split.
      - destruct sl as [| |[| |]|]; rewrite ?(nth_set_nth_eq _ _ _ _ Hsl), ?Hsl; congruence.
      - intros Hs. destruct (Hopen Hs h E) as [H|[H|H]]; unfold slot in H; rewrite Hsl in H; inversion H; subst;
          rewrite ?(nth_set_nth_eq _ _ _ _ Hsl), ?Hsl; auto. }
    constructor; simpl; fold rd.
    + reflexivity.
    + rewrite Hrdlen, set_nth_length. exact Hlen.
    + rewrite set_nth_length. exact Hlenl.
    + intros Hs. specialize (Hcloses Hs).
      assert (fcloses fs = O) by (eapply closes_ok_zero; eauto). rewrite H.
      unfold closes_ok. destruct (set_nth (fclosed fs) h true) eqn:E3.
      * apply (f_equal (@List.length bool)) in E3. rewrite set_nth_length in E3. apply nth_error_lt in E. simpl in E3. lia.
      * rewrite <- E3. destruct (all_closed (set_nth (fclosed fs) h true)); reflexivity.
    + intros Hs k Hk. unfold slot; simpl. fold rd.
      destruct (Nat.eq_dec k h) as [->|Hne].
      * rewrite (nth_set_nth_eq _ _ _ _ E) in Hk. discriminate.
      * rewrite nth_set_nth_neq in Hk by congruence. rewrite Hrd_other by assumption. apply (Hopen Hs k Hk).
    + intros k Hk. unfold slot; simpl. fold rd.
      destruct (Nat.eq_dec k h) as [->|Hne]; [apply Hrd_h|].
      rewrite nth_set_nth_neq in Hk by congruence. rewrite Hrd_other by assumption. apply (Hclosed k Hk).
    + intros k Hk Hl. unfold slot; simpl. fold rd.
      destruct (Nat.eq_dec k h) as [->|Hne].
      * (* the read in progress on h was started while h was open: mlate h = false, unless no read *)
        rewrite (Hlo h E) in Hl. discriminate.
      * rewrite nth_set_nth_neq in Hk by congruence. rewrite Hrd_other by assumption. apply (Hlate k Hk Hl).
    + intros k Hk. destruct (Nat.eq_dec k h) as [->|Hne].
      * rewrite (nth_set_nth_eq _ _ _ _ E) in Hk. discriminate.
      * rewrite nth_set_nth_neq in Hk by congruence. apply (Hlo k Hk).
  - constructor; simpl; auto.
Qed.

Lemma rel_closes hs : forall fs m, Rel fs m ->
  Rel (fold_left f_close hs fs) {| mcl := fold_left mark_one hs (mcl m); mlate := mlate m; mscope := mscope m |}.
Proof.
  induction hs as [|h hs IH]; intros fs m HR; simpl.
  - destruct m; exact HR.
  - apply (IH (f_close fs h) {| mcl := mark_one (mcl m) h; mlate := mlate m; mscope := mscope m |}).
    apply rel_close. exact HR.
Qed.

Lemma closes_check_ok fs m : Rel fs m ->
  all_ok (if mscope m then [("underlying_closed_exactly_when_last_handle_closed"%string, closes_ok (mcl m) (Z.of_nat (fcloses fs)))] else []) = true.
Proof.
  intros HR. destruct (mscope m) eqn:E; [|reflexivity]. unfold all_ok. simpl.
  rewrite (r_cl _ _ HR), (r_closes _ _ HR E). reflexivity.
Qed.

Lemma existing_closed_among cl hs ws : all_closed cl = true -> existing_among cl hs ws = closed_among cl hs ws.
Proof.
  intros H. unfold existing_among, closed_among. f_equal. apply filter_ext. intros w.
  destruct (nth_error cl w) as [b|] eqn:E; [|reflexivity].
  rewrite all_closed_spec in H. rewrite (H _ _ E). reflexivity.
Qed.

Lemma closes_ok_app l c : closes_ok (l ++ [false]) c = (c =? 0).
Proof.
  unfold closes_ok. destruct (l ++ [false]) eqn:E; [destruct l; discriminate|].
  rewrite <- E, all_closed_app_false. reflexivity.
Qed.

(* updating the read slot of one handle (and possibly its late flag) *)
Lemma rel_update_slot fs m h v q ml sl c :
  c = fclosed fs ->
  Rel fs m -> nth_error (fread fs) h = Some sl ->
  (mscope m = true -> nth_error (fclosed fs) h = Some false -> v = RNone \/ v = RBlocked \/ v = RGot ROk) ->
  (nth_error (fclosed fs) h = Some true -> v <> RBlocked) ->
  (nth_error (fclosed fs) h = Some true -> nth_error ml h = Some true -> v = RNone \/ v = RGot RClosedPipe) ->
  (forall k, k <> h -> nth_error ml k = nth_error (mlate m) k) -> List.length ml = List.length (mlate m) ->
  (nth_error (fclosed fs) h = Some false -> nth_error ml h = Some false) ->
  Rel {| fclosed := fclosed fs; fcloses := fcloses fs; fread := set_nth (fread fs) h v; fqueued := q |}
      {| mcl := c; mlate := ml; mscope := mscope m |}.
Proof.
  intros Hc [Hcl Hlen Hlenl Hcloses Hopen Hclosed Hlate Hlo] Hsl Hvo Hvc Hvl Hmlk Hmll Hmlo.
  constructor; simpl.
  - exact Hc.
  - rewrite set_nth_length. exact Hlen.
  - rewrite Hmll. exact Hlenl.
  - exact Hcloses.
  - intros Hs k Hk. unfold slot; simpl. destruct (Nat.eq_dec h k) as [<-|Hne].
    + rewrite (nth_set_nth_eq _ _ _ _ Hsl). destruct (Hvo Hs Hk) as [->|[->| ->]]; auto.
    + rewrite nth_set_nth_neq by assumption. apply (Hopen Hs k Hk).
  - intros k Hk. unfold slot; simpl. destruct (Nat.eq_dec h k) as [<-|Hne].
    + rewrite (nth_set_nth_eq _ _ _ _ Hsl). intros H. inversion H. apply (Hvc Hk). assumption.
    + rewrite nth_set_nth_neq by assumption. apply (Hclosed k Hk).
  - intros k Hk Hl. unfold slot; simpl. destruct (Nat.eq_dec h k) as [<-|Hne].
    + rewrite (nth_set_nth_eq _ _ _ _ Hsl). destruct (Hvl Hk Hl) as [->| ->]; auto.
    + rewrite Hmlk in Hl by congruence. rewrite nth_set_nth_neq by assumption. apply (Hlate k Hk Hl).
  - intros k Hk. destruct (Nat.eq_dec h k) as [<-|Hne]; [apply (Hmlo Hk)|].
    rewrite Hmlk by congruence. apply (Hlo k Hk).
Qed.

Lemma rel_same fs m : Rel fs m -> Rel fs {| mcl := mcl m; mlate := mlate m; mscope := mscope m |}.
Proof. destruct m; auto. Qed.

(* one operation: the monitor accepts the model's observation and the relation is kept *)
Lemma step_ok fs m o : Rel fs m ->
  let r := sc_apply fs o in
  all_ok (sc_op_checks m (mark m o (snd r)) o (snd r)) = true /\ Rel (fst r) (mark m o (snd r)).
Proof.
  intros HR. destruct o; simpl.
  - (* ONew *)
    assert (HR' : Rel {| fclosed := fclosed fs ++ [false]; fcloses := fcloses fs; fread := fread fs ++ [RNone]; fqueued := fqueued fs |}
                      {| mcl := mcl m ++ [false]; mlate := mlate m ++ [false];
                         mscope := mscope m && match mcl m with [] => true | _ => negb (all_closed (mcl m)) end |}).
    { destruct HR as [Hcl Hlen Hlenl Hcloses Hopen Hclosed Hlate Hlo].
      constructor; simpl.
      - rewrite Hcl. reflexivity.
      - rewrite !app_length, Hlen. reflexivity.
      - rewrite !app_length, Hlenl. reflexivity.
      - intros Hs. apply andb_true_iff in Hs. destruct Hs as [Hs Hn]. specialize (Hcloses Hs).
        rewrite Hcl in Hn. rewrite closes_ok_app. unfold closes_ok in Hcloses.
        destruct (fclosed fs) as [|b l] eqn:E; [exact Hcloses|].
        apply negb_true_iff in Hn. rewrite Hn in Hcloses. exact Hcloses.
      - intros Hs h Hh. apply andb_true_iff in Hs. destruct Hs as [Hs _]. unfold slot; simpl.
        rewrite nth_error_app_last in Hh. rewrite nth_error_app_last, Hlen.
        destruct (Nat.ltb h (List.length (fclosed fs))); [apply (Hopen Hs h Hh)|].
        destruct (Nat.eqb h (List.length (fclosed fs))); [auto|discriminate].
      - intros h Hh. unfold slot; simpl. rewrite nth_error_app_last in Hh. rewrite nth_error_app_last, Hlen.
        destruct (Nat.ltb h (List.length (fclosed fs))); [apply (Hclosed h Hh)|].
        destruct (Nat.eqb h (List.length (fclosed fs))); discriminate.
      - intros h Hh Hl. unfold slot; simpl. rewrite nth_error_app_last in Hh, Hl. rewrite nth_error_app_last, Hlen.
        rewrite Hlenl in Hl.
        destruct (Nat.ltb h (List.length (fclosed fs))); [apply (Hlate h Hh Hl)|].
        destruct (Nat.eqb h (List.length (fclosed fs))); discriminate.
      - intros h Hh. rewrite nth_error_app_last in Hh. rewrite nth_error_app_last, Hlenl.
        destruct (Nat.ltb h (List.length (fclosed fs))); [apply (Hlo h Hh)|].
        destruct (Nat.eqb h (List.length (fclosed fs))); [reflexivity|discriminate]. }
    split; [|exact HR'].
    apply (closes_check_ok _ _ HR').
  - (* OClose *)
    pose proof (rel_close fs m h HR) as HR'. split; [|exact HR'].
    unfold all_ok at 1. simpl. apply (closes_check_ok _ _ HR').
  - (* OPClose *)
    pose proof (rel_closes hs fs m HR) as HR'. split; [|exact HR'].
    unfold all_ok at 1. simpl. apply (closes_check_ok _ _ HR').
  - (* OPCloseW *)
    pose proof (rel_closes hs fs m HR) as HR'. split; [|exact HR'].
    pose proof (closes_check_ok _ _ HR') as Hcc. simpl in Hcc.
    assert (Hnf : mscope m = true ->
                  Z.of_nat (if Nat.ltb 0 (fcloses fs) then existing_among (fclosed fs) hs ws else closed_among (fclosed fs) hs ws)
                  = Z.of_nat (closed_among (mcl m) hs ws)).
    { intros Hs. f_equal. rewrite (r_cl _ _ HR).
      destruct (Nat.ltb_spec 0 (fcloses fs)) as [Hpos|Hz]; [|reflexivity].
      apply existing_closed_among. pose proof (r_closes _ _ HR Hs) as Hc. unfold closes_ok in Hc.
      destruct (fclosed fs) eqn:E; [apply Z.eqb_eq in Hc; lia|]. rewrite <- E in *.
      destruct (all_closed (fclosed fs)); [reflexivity|apply Z.eqb_eq in Hc; lia]. }
    destruct (mscope m) eqn:Hs; unfold all_ok in *; simpl in *.
    + rewrite andb_true_r in Hcc. rewrite Hcc. simpl. rewrite (Hnf eq_refl), Z.eqb_refl. reflexivity.
    + reflexivity.
  - (* OWrite *)
    rewrite (r_cl _ _ HR). destruct (nth_error (fclosed fs) h) as [[|]|] eqn:E; simpl.
    + split; [reflexivity|destruct m; exact HR].
    + split; [|destruct m; exact HR]. destruct (mscope m) eqn:Hs; [|reflexivity].
      assert (fcloses fs = O) by (eapply closes_ok_zero; [apply (r_closes _ _ HR Hs)|eauto]).
      rewrite H. reflexivity.
    + split; [reflexivity|destruct m; exact HR].
  - (* ORStart *)
    pose proof HR as HR0. destruct HR as [Hcl Hlen Hlenl Hcloses Hopen Hclosed Hlate Hlo].
    destruct (nth_error (fclosed fs) h) as [[|]|] eqn:E; simpl;
      [ | | split; [reflexivity|exact HR0] ].
    + (* closed handle: fails at once *)
      destruct (nth_error (fread fs) h) as [[| | |]|] eqn:E2; simpl;
        try (split; [reflexivity|exact HR0]).
      split; [reflexivity|]. rewrite Hcl, E.
      eapply (rel_update_slot fs m h (RGot RClosedPipe) (fqueued fs) (set_nth (mlate m) h true) RNone);
        [ reflexivity | exact HR0 | exact E2 | intros; congruence | intros; discriminate | intros; auto
        | intros k Hk; apply nth_set_nth_neq; congruence | apply set_nth_length | intros; congruence ].
    + (* open handle *)
      destruct (nth_error (fread fs) h) as [[| | |]|] eqn:E2; simpl;
        try (split; [reflexivity|exact HR0]).
      assert (Hml : exists b, nth_error (mlate m) h = Some b).
      { destruct (nth_error (mlate m) h) eqn:E3; [eauto|]. apply nth_error_None in E3. apply nth_error_lt in E. lia. }
      destruct Hml as [b0 Hb0].
      assert (Hgen : forall v q, (mscope m = true -> v = RBlocked \/ v = RGot ROk) ->
                Rel {| fclosed := fclosed fs; fcloses := fcloses fs; fread := set_nth (fread fs) h v; fqueued := q |}
                    (mark m (ORStart h) [0])).
      { intros v q Hv. simpl. rewrite Hcl, E.
        eapply (rel_update_slot fs m h v q (set_nth (mlate m) h false) RNone);
          [ reflexivity | exact HR0 | exact E2
          | intros Hs _; destruct (Hv Hs) as [->| ->]; auto
          | intros; congruence | intros; congruence
          | intros k Hk; apply nth_set_nth_neq; congruence | apply set_nth_length
          | intros _; apply (nth_set_nth_eq _ _ _ _ Hb0) ]. }
      destruct (Nat.ltb_spec 0 (fcloses fs)) as [Hpos|Hz]; simpl.
      * split; [reflexivity|]. apply Hgen. intros Hs. exfalso.
        assert (fcloses fs = O) by (eapply closes_ok_zero; [apply (Hcloses Hs)|eauto]). lia.
      * destruct (fqueued fs); simpl; (split; [reflexivity|]); apply Hgen; auto.
  - (* ORPoll *)
    pose proof HR as HR0. destruct HR as [Hcl Hlen Hlenl Hcloses Hopen Hclosed Hlate Hlo].
    assert (Hreset : forall sl, nth_error (fread fs) h = Some sl ->
              Rel {| fclosed := fclosed fs; fcloses := fcloses fs; fread := set_nth (fread fs) h RNone; fqueued := fqueued fs |} m).
    { intros sl Hsl. destruct m as [c l sc]. 
      eapply (rel_update_slot fs {| mcl := c; mlate := l; mscope := sc |} h RNone (fqueued fs) l sl);
        [ exact Hcl | exact HR0 | exact Hsl | intros; auto | intros; discriminate | intros; auto
        | intros; reflexivity | reflexivity | intros Ho; apply (Hlo h Ho) ]. }
    destruct (nth_error (fread fs) h) as [[| |r|]|] eqn:E2; simpl.
    + (* no read *) split; [|exact HR0]. rewrite Hcl.
      destruct (nth_error (fclosed fs) h) as [[|]|]; simpl; [destruct (nth_error (mlate m) h) as [[|]|]| |]; simpl;
        try destruct (mscope m); reflexivity.
    + (* blocked *) split; [|exact HR0]. rewrite Hcl.
      destruct (nth_error (fclosed fs) h) as [[|]|] eqn:E; simpl.
      * exfalso. apply (Hclosed h E). exact E2.
      * destruct (mscope m); reflexivity.
      * reflexivity.
    + (* a result *)
      split; [|apply (Hreset (RGot r) eq_refl)]. rewrite Hcl.
      destruct (nth_error (fclosed fs) h) as [[|]|] eqn:E; simpl.
      * destruct (nth_error (mlate m) h) as [[|]|] eqn:El; simpl.
        -- destruct (Hlate h E El) as [H|H]; unfold slot in H; rewrite E2 in H; inversion H. reflexivity.
        -- destruct r; reflexivity.
        -- destruct r; reflexivity.
      * destruct (mscope m) eqn:Hs; [|reflexivity].
        destruct (Hopen eq_refl h E) as [H|[H|H]]; unfold slot in H; rewrite E2 in H; inversion H. reflexivity.
      * reflexivity.
    + (* data handed over, then closed *)
      split; [|apply (Hreset REither eq_refl)]. rewrite Hcl.
      destruct (nth_error (fclosed fs) h) as [[|]|] eqn:E; simpl.
      * destruct (nth_error (mlate m) h) as [[|]|] eqn:El; simpl; try reflexivity.
        destruct (Hlate h E El) as [H|H]; unfold slot in H; rewrite E2 in H; inversion H.
      * destruct (mscope m) eqn:Hs; [|reflexivity].
        destruct (Hopen eq_refl h E) as [H|[H|H]]; unfold slot in H; rewrite E2 in H; inversion H.
      * reflexivity.
    + split; [|exact HR0]. rewrite Hcl.
      destruct (nth_error (fclosed fs) h) as [[|]|]; simpl; [destruct (nth_error (mlate m) h) as [[|]|]| |]; simpl;
        try destruct (mscope m); reflexivity.
  - (* ODeliver *)
    destruct (match count_blocked (fread fs) with S (S _) => true | _ => false end); simpl; [split; [reflexivity|exact HR]|].
    destruct (match fclosed fs with [] => false | _ :: _ => all_closed (fclosed fs) end); simpl;
      [split; [reflexivity|exact HR]|].
    pose proof HR as HR0. destruct HR as [Hcl Hlen Hlenl Hcloses Hopen Hclosed Hlate Hlo].
    destruct (first_blocked (fread fs) 0) as [k|] eqn:Efb; simpl; (split; [reflexivity|]).
    + apply first_blocked_spec in Efb. destruct Efb as [_ Hk]. rewrite Nat.sub_0_r in Hk.
      assert (Hko : nth_error (fclosed fs) k = Some false).
      { destruct (nth_error (fclosed fs) k) as [[|]|] eqn:E; [exfalso; apply (Hclosed k E); exact Hk|reflexivity|].
        apply nth_error_None in E. apply nth_error_lt in Hk. lia. }
      destruct m as [c l sc].
      eapply (rel_update_slot fs {| mcl := c; mlate := l; mscope := sc |} k (RGot ROk) (fqueued fs) l RBlocked);
        [ exact Hcl | exact HR0 | exact Hk | intros; auto | intros; discriminate | intros; congruence
        | intros; reflexivity | reflexivity | intros Ho; apply (Hlo k Ho) ].
    + constructor; simpl; auto.
Qed.

(* the monitor accepts every history of the sequential model *)
Lemma sc_monitor_from ops : forall fs m, Rel fs m ->
  all_ok (C13_sc_checks_from m ops (sc_run fs ops)) = true.
Proof.
  induction ops as [|o ops IH]; intros fs m HR; simpl; [reflexivity|].
  destruct (step_ok fs m o HR) as [Hc HR']. rewrite all_ok_app, Hc. simpl. apply IH. exact HR'.
Qed.

Lemma sc_monitor_sound ops : C13_sc_monitor ops (sc_run finit ops) = true.
Proof. apply sc_monitor_from. apply rel_init. Qed.
