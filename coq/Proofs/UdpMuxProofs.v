(* C12: invariants of the sequential UDP mux core (Model/UdpMux.v) and the lemmas behind Props/C12.v *)
From Coq Require Import ZArith NArith Bool String Ascii List Lia Arith.
From Ice Require Import Model.PrioSpec Model.UdpMux.
Import ListNotations.

(* ------------------------------------------------------------------------------------------ *)
(* equalities                                                                                  *)
(* ------------------------------------------------------------------------------------------ *)
Lemma addr_eqb_spec x y : addr_eqb x y = true <-> x = y.
Proof.
  destruct x as [x6 xi xz xp], y as [y6 yi yz yp]. unfold addr_eqb; simpl.
  rewrite !andb_true_iff, Bool.eqb_true_iff, !N.eqb_eq. split.
  - intros [[[-> ->] ->] ->]. reflexivity.
  - intros H. inversion H. auto.
Qed.

Lemma addr_eqb_refl x : addr_eqb x x = true.
Proof. apply addr_eqb_spec. reflexivity. Qed.

Lemma addr_eqb_neq x y : addr_eqb x y = false <-> x <> y.
Proof.
  split.
  - intros H E. subst. rewrite addr_eqb_refl in H. discriminate.
  - intros H. destruct (addr_eqb x y) eqn:E; auto. apply addr_eqb_spec in E. contradiction.
Qed.

Lemma addr_eq_dec (x y : addr) : {x = y} + {x <> y}.
Proof.
  destruct (addr_eqb x y) eqn:E.
  - left. apply addr_eqb_spec. exact E.
  - right. apply addr_eqb_neq. exact E.
Qed.

Lemma updn_same {A} (f : nat -> A) k v : updn f k v k = v.
Proof. unfold updn. rewrite Nat.eqb_refl. reflexivity. Qed.
Lemma updn_other {A} (f : nat -> A) k v i : i <> k -> updn f k v i = f i.
Proof. intros H. unfold updn. destruct (Nat.eqb_spec i k); congruence. Qed.
Lemma upds_same {A} (f : string -> A) k v : upds f k v k = v.
Proof. unfold upds. rewrite String.eqb_refl. reflexivity. Qed.
Lemma upds_other {A} (f : string -> A) k v i : i <> k -> upds f k v i = f i.
Proof. intros H. unfold upds. destruct (String.eqb_spec i k); congruence. Qed.
Lemma upda_same {A} (f : addr -> A) k v : upda f k v k = v.
Proof. unfold upda. rewrite addr_eqb_refl. reflexivity. Qed.
Lemma upda_other {A} (f : addr -> A) k v i : i <> k -> upda f k v i = f i.
Proof. intros H. unfold upda. apply addr_eqb_neq in H. rewrite H. reflexivity. Qed.

(* case split on every map update in the goal / hypotheses *)
Ltac upd_cases :=
  repeat match goal with
  | |- context [updn _ ?k _ ?i] =>
    destruct (Nat.eq_dec i k); [subst; rewrite ?updn_same in * | rewrite ?(updn_other _ k _ i) in * by assumption]
  | H : context [updn _ ?k _ ?i] |- _ =>
    destruct (Nat.eq_dec i k); [subst; rewrite ?updn_same in * | rewrite ?(updn_other _ k _ i) in * by assumption]
  | |- context [upds _ ?k _ ?i] =>
    destruct (string_dec i k); [subst; rewrite ?upds_same in * | rewrite ?(upds_other _ k _ i) in * by assumption]
  | H : context [upds _ ?k _ ?i] |- _ =>
    destruct (string_dec i k); [subst; rewrite ?upds_same in * | rewrite ?(upds_other _ k _ i) in * by assumption]
  | |- context [upda _ ?k _ ?i] =>
    destruct (addr_eq_dec i k); [subst; rewrite ?upda_same in * | rewrite ?(upda_other _ k _ i) in * by assumption]
  | H : context [upda _ ?k _ ?i] |- _ =>
    destruct (addr_eq_dec i k); [subst; rewrite ?upda_same in * | rewrite ?(upda_other _ k _ i) in * by assumption]
  end.

Lemma mem_addr_In a l : mem_addr a l = true <-> In a l.
Proof.
  unfold mem_addr. rewrite existsb_exists. split.
  - intros [x [Hin He]]. apply addr_eqb_spec in He. subst. exact Hin.
  - intros H. exists a. split; auto. apply addr_eqb_refl.
Qed.

Lemma mem_addr_false a l : mem_addr a l = false <-> ~ In a l.
Proof.
  split.
  - intros H Hin. apply mem_addr_In in Hin. congruence.
  - intros H. destruct (mem_addr a l) eqn:E; auto. apply mem_addr_In in E. contradiction.
Qed.

Lemma remove_addr_In a x l : In x (remove_addr a l) <-> In x l /\ x <> a.
Proof.
  unfold remove_addr. rewrite filter_In. rewrite negb_true_iff, addr_eqb_neq. tauto.
Qed.

(* ------------------------------------------------------------------------------------------ *)
(* canonicalisation                                                                            *)
(* ------------------------------------------------------------------------------------------ *)
Ltac fields := cbn [a_is6 a_ip a_zone a_port].

Lemma canon_idem a : canon (canon a) = canon a.
Proof.
  destruct a as [i6 ip z p]. unfold canon; fields. destruct i6; fields.
  - destruct (mapped_prefix ip) eqn:Em; fields; [reflexivity|].
    destruct (ll6 ip) eqn:El; fields.
    + rewrite Em, El. reflexivity.
    + rewrite Em, El. reflexivity.
  - reflexivity.
Qed.

(* an IPv4 address and its IPv4-mapped IPv6 form (any zone) have the same canonical form *)
Lemma canon_mapped_alias v zone port :
  (v < 2 ^ 32)%N ->
  canon (mkAddr true (N.lor (N.shiftl 65535 32) v) zone port) = canon (mkAddr false v 0 port).
Proof.
  intros Hv. unfold canon; fields.
  assert (Hs : N.shiftr (N.lor (N.shiftl 65535 32) v) 32 = 65535%N).
  { rewrite N.shiftr_lor. rewrite N.shiftr_shiftl_l by reflexivity. rewrite N.sub_diag, N.shiftl_0_r.
    rewrite (N.shiftr_div_pow2 v 32). rewrite N.div_small by exact Hv. apply N.lor_0_r. }
  unfold mapped_prefix. rewrite Hs. rewrite N.eqb_refl. f_equal.
  change 4294967295%N with (N.ones 32). rewrite N.land_ones.
  rewrite <- N.land_ones. rewrite N.land_lor_distr_l.
  assert (Hz : N.land (N.shiftl 65535 32) (N.ones 32) = 0%N).
  { rewrite N.land_ones. rewrite N.shiftl_mul_pow2. apply N.mod_mul. apply N.pow_nonzero. discriminate. }
  rewrite Hz, N.lor_0_l. rewrite N.land_ones. apply N.mod_small. exact Hv.
Qed.

(* a zone on a non-link-local IPv6 address does not distinguish addresses *)
Lemma canon_zone_alias ip z1 z2 port :
  mapped_prefix ip = false -> ll6 ip = false ->
  canon (mkAddr true ip z1 port) = canon (mkAddr true ip z2 port).
Proof. intros Hm Hl. unfold canon; fields. rewrite Hm, Hl. reflexivity. Qed.

(* ... but does on a link-local one *)
Lemma canon_zone_linklocal ip z1 z2 port :
  mapped_prefix ip = false -> ll6 ip = true -> z1 <> z2 ->
  canon (mkAddr true ip z1 port) <> canon (mkAddr true ip z2 port).
Proof. intros Hm Hl Hz. unfold canon; fields. rewrite Hm, Hl. intros E. inversion E. contradiction. Qed.

(* a canonical address is IPv6 only if it is a genuine (unmapped) IPv6 address *)
Lemma canon_family a : a_is6 (canon a) = a_is6 a && negb (mapped_prefix (a_ip a)).
Proof.
  destruct a as [i6 ip z p]. unfold canon; fields. destruct i6; fields; auto.
  destruct (mapped_prefix ip); fields; auto. destruct (ll6 ip); fields; auto.
Qed.

(* ------------------------------------------------------------------------------------------ *)
(* reachability                                                                                *)
(* ------------------------------------------------------------------------------------------ *)
Definition run_from (cf : cfg) (s : state) (ops : list op) : state :=
  fold_left (fun s o => fst (step cf s o)) ops s.

Inductive reach (cf : cfg) : state -> Prop :=
| reach_init : reach cf init
| reach_step s o : reach cf s -> reach cf (fst (step cf s o)).

Lemma reach_run_from cf s ops : reach cf s -> reach cf (run_from cf s ops).
Proof.
  revert s. induction ops as [|o ops IH]; simpl; intros s H; auto.
  apply IH. apply reach_step. exact H.
Qed.

Lemma reach_run cf ops : reach cf (run cf ops).
Proof. apply (reach_run_from cf init ops). constructor. Qed.

Lemma reach_is_run cf s : reach cf s -> exists ops, s = run cf ops.
Proof.
  induction 1 as [|s o H [ops IH]].
  - exists []. reflexivity.
  - exists (ops ++ [o]). unfold run. rewrite fold_left_app. simpl. unfold run in IH. rewrite <- IH. reflexivity.
Qed.

(* ------------------------------------------------------------------------------------------ *)
(* the invariant (both semantics of RemoveConnByUfrag)                                         *)
(* ------------------------------------------------------------------------------------------ *)
Definition reg_under (s : state) (u : string) (c : nat) : Prop := m4 s u = Some c \/ m6 s u = Some c.
Definition is_reg (s : state) (c : nat) : Prop := reg_under s (c_key (conns s c)) c.

Record InvCore (s : state) : Prop := {
  inv_bind : forall a c, amap s a = Some c -> c < nconns s /\ In a (c_addrs (conns s c));
  inv_key : forall u c, reg_under s u c -> c < nconns s /\ c_key (conns s c) = u;
  inv_fam : forall u u' c, m4 s u = Some c -> m6 s u' = Some c -> False;
  inv_hconn : forall h, h < nhandles s -> h_conn (handles s h) < nconns s;
  inv_closedq : forall c, c_closed (conns s c) = true -> c_queue (conns s c) = [];
  inv_own : forall u c a, reg_under s u c -> In a (c_addrs (conns s c)) -> amap s a = Some c;
  inv_mclosed : mclosed s = true -> forall u c, ~ reg_under s u c;
  inv_fresh : forall c, nconns s <= c -> conns s c = dummy_conn;
  inv_udom : forall u c, reg_under s u c -> In u (udom s) }.

Definition RegOpen (s : state) : Prop := forall u c, reg_under s u c -> c_closed (conns s c) = false.

Definition Inv (s : state) : Prop := InvCore s /\ RegOpen s.

Lemma inv_init : Inv init.
Proof.
  split; [constructor|]; unfold reg_under, RegOpen; simpl; intros; try discriminate; try tauto; try lia; auto;
    try (destruct H; discriminate).
Qed.

(* ---------- primitive: data-only change of one connection (queue / refs) ---------- *)
Lemma core_set_data s c v :
  InvCore s -> c < nconns s ->
  c_key v = c_key (conns s c) -> c_addrs v = c_addrs (conns s c) -> c_closed v = c_closed (conns s c) ->
  (c_closed v = true -> c_queue v = []) ->
  InvCore (set_conn s c v).
Proof.
  intros I Hc Hk Ha Hcl Hq. destruct I.
  constructor; unfold reg_under, set_conn, set_conns in *; simpl in *; intros.
  - specialize (inv_bind0 _ _ H). upd_cases; rewrite ?Ha; tauto.
  - specialize (inv_key0 _ _ H). upd_cases; rewrite ?Hk; tauto.
  - eauto.
  - eauto.
  - upd_cases; auto.
  - apply (inv_own0 u c0 a H). upd_cases; rewrite <- ?Ha; auto.
  - eauto.
  - upd_cases; [lia | auto].
  - eauto.
Qed.

Lemma regopen_set_data s c v :
  RegOpen s -> c_closed v = c_closed (conns s c) -> RegOpen (set_conn s c v).
Proof.
  intros R Hcl u c0 H. unfold reg_under, set_conn, set_conns in *; simpl in *.
  specialize (R u c0 H). upd_cases; congruence.
Qed.

(* ---------- primitive: mark_closed ---------- *)
Lemma mark_closed_conns s c i :
  conns (mark_closed s c) i =
  if Nat.eqb i c then (if c_closed (conns s c) then conns s c
                       else mkConn (c_key (conns s c)) (c_addrs (conns s c)) [] true (c_refs (conns s c)))
  else conns s i.
Proof.
  unfold mark_closed. destruct (c_closed (conns s c)) eqn:E; simpl.
  - destruct (Nat.eqb_spec i c); subst; auto.
  - unfold updn. reflexivity.
Qed.

Lemma mark_closed_frame s c :
  nconns (mark_closed s c) = nconns s /\ handles (mark_closed s c) = handles s /\
  nhandles (mark_closed s c) = nhandles s /\ m4 (mark_closed s c) = m4 s /\ m6 (mark_closed s c) = m6 s /\
  udom (mark_closed s c) = udom s /\ amap (mark_closed s c) = amap s /\ adom (mark_closed s c) = adom s /\
  mclosed (mark_closed s c) = mclosed s.
Proof. unfold mark_closed. destruct (c_closed (conns s c)); simpl; repeat split; reflexivity. Qed.

Lemma mark_closed_key s c i : c_key (conns (mark_closed s c) i) = c_key (conns s i).
Proof. rewrite mark_closed_conns. destruct (Nat.eqb_spec i c); subst; auto. destruct (c_closed (conns s c)); auto. Qed.
Lemma mark_closed_addrs s c i : c_addrs (conns (mark_closed s c) i) = c_addrs (conns s i).
Proof. rewrite mark_closed_conns. destruct (Nat.eqb_spec i c); subst; auto. destruct (c_closed (conns s c)); auto. Qed.
Lemma mark_closed_closed s c i :
  c_closed (conns (mark_closed s c) i) = if Nat.eqb i c then true else c_closed (conns s i).
Proof. rewrite mark_closed_conns. destruct (Nat.eqb_spec i c); subst; auto. destruct (c_closed (conns s c)) eqn:E; auto. Qed.
Lemma mark_closed_queue s c i :
  c_queue (conns (mark_closed s c) i) = if Nat.eqb i c then (if c_closed (conns s c) then c_queue (conns s c) else []) else c_queue (conns s i).
Proof. rewrite mark_closed_conns. destruct (Nat.eqb_spec i c); subst; auto. destruct (c_closed (conns s c)) eqn:E; auto. Qed.
Lemma mark_closed_refs s c i : c_refs (conns (mark_closed s c) i) = c_refs (conns s i).
Proof. rewrite mark_closed_conns. destruct (Nat.eqb_spec i c); subst; auto. destruct (c_closed (conns s c)); auto. Qed.

Lemma core_mark_closed s c : InvCore s -> c < nconns s -> InvCore (mark_closed s c).
Proof.
  intros I Hc. destruct (mark_closed_frame s c) as (F1 & F2 & F3 & F4 & F5 & F6 & F7 & F8 & F9).
  destruct I. constructor; unfold reg_under in *; intros; rewrite ?F1, ?F2, ?F3, ?F4, ?F5, ?F6, ?F7, ?F9 in *;
    rewrite ?mark_closed_key, ?mark_closed_addrs in *; eauto.
  - rewrite mark_closed_closed in H. rewrite mark_closed_queue.
    destruct (Nat.eqb_spec c0 c); subst; auto.
    destruct (c_closed (conns s c)) eqn:E; auto.
  - rewrite mark_closed_conns. destruct (Nat.eqb_spec c0 c); subst; [lia | auto].
Qed.

(* ---------- primitive: remove_core ---------- *)
Lemma del_addrs_spec l f a : del_addrs f l a = if mem_addr a l then None else f a.
Proof.
  unfold del_addrs. revert f. induction l as [|x l IH]; simpl; intros f; auto.
  rewrite IH. destruct (mem_addr a l) eqn:E.
  - rewrite orb_true_r. reflexivity.
  - rewrite orb_false_r. unfold upda. destruct (addr_eqb a x); reflexivity.
Qed.

Lemma del_conns_spec (g : nat -> list addr) l f a :
  fold_left (fun h c => del_addrs h (g c)) l f a = if existsb (fun c => mem_addr a (g c)) l then None else f a.
Proof.
  revert f. induction l as [|x l IH]; simpl; intros f; auto.
  rewrite IH. destruct (existsb (fun c => mem_addr a (g c)) l) eqn:E.
  - rewrite orb_true_r. reflexivity.
  - rewrite orb_false_r. apply del_addrs_spec.
Qed.

Definition removed_by (s : state) (u : string) : list nat := opt_list (m4 s u) ++ opt_list (m6 s u).

Lemma removed_by_In s u c : In c (removed_by s u) <-> reg_under s u c.
Proof.
  unfold removed_by, reg_under. rewrite in_app_iff.
  destruct (m4 s u), (m6 s u); simpl; split; intros H; repeat destruct H as [H|H]; try tauto; try discriminate;
    try (inversion H; subst; tauto); subst; auto.
Qed.

Lemma remove_core_snd s u : snd (remove_core s u) = removed_by s u.
Proof. reflexivity. Qed.

Lemma remove_core_amap s u a :
  amap (fst (remove_core s u)) a =
  if existsb (fun c => mem_addr a (c_addrs (conns s c))) (removed_by s u) then None else amap s a.
Proof. unfold remove_core; simpl. apply del_conns_spec. Qed.

Lemma remove_core_frame s u :
  let s' := fst (remove_core s u) in
  conns s' = conns s /\ nconns s' = nconns s /\ handles s' = handles s /\ nhandles s' = nhandles s /\
  m4 s' = upds (m4 s) u None /\ m6 s' = upds (m6 s) u None /\ udom s' = udom s /\ adom s' = adom s /\
  mclosed s' = mclosed s.
Proof. simpl. repeat split; reflexivity. Qed.

Lemma reg_under_remove s u u' c :
  reg_under (fst (remove_core s u)) u' c <-> u' <> u /\ reg_under s u' c.
Proof.
  unfold reg_under; simpl. unfold upds. destruct (String.eqb_spec u' u); subst.
  - split; [intros [H|H]; discriminate | tauto].
  - tauto.
Qed.

(* with the invariant, RemoveConnByUfrag deletes exactly the bindings owned by what it removes *)
Lemma remove_core_amap_inv s u a :
  InvCore s ->
  amap (fst (remove_core s u)) a =
  match amap s a with
  | Some c => if existsb (Nat.eqb c) (removed_by s u) then None else Some c
  | None => None
  end.
Proof.
  intros I. rewrite remove_core_amap.
  destruct (existsb (fun c => mem_addr a (c_addrs (conns s c))) (removed_by s u)) eqn:E.
  - apply existsb_exists in E. destruct E as [c [Hin Hm]]. apply mem_addr_In in Hm.
    apply removed_by_In in Hin. rewrite (inv_own s I u c a Hin Hm).
    assert (X : existsb (Nat.eqb c) (removed_by s u) = true).
    { apply existsb_exists. exists c. split; [apply removed_by_In; auto | apply Nat.eqb_refl]. }
    rewrite X. reflexivity.
  - destruct (amap s a) as [c|] eqn:Ea; auto.
    destruct (existsb (Nat.eqb c) (removed_by s u)) eqn:X; auto.
    apply existsb_exists in X. destruct X as [c' [Hin He]]. apply Nat.eqb_eq in He. subst c'.
    assert (Y : existsb (fun c => mem_addr a (c_addrs (conns s c))) (removed_by s u) = true).
    { apply existsb_exists. exists c. split; auto. apply mem_addr_In. apply (inv_bind s I a c Ea). }
    congruence.
Qed.

Lemma core_remove s u : InvCore s -> InvCore (fst (remove_core s u)).
Proof.
  intros I. pose proof (remove_core_amap_inv s u) as HA.
  constructor; intros.
  - rewrite HA in H by auto. destruct (amap s a) as [c'|] eqn:E; try discriminate.
    destruct (existsb (Nat.eqb c') (removed_by s u)); inversion H; subst.
    simpl. apply (inv_bind s I a c E).
  - apply reg_under_remove in H. destruct H as [_ H]. simpl. apply (inv_key s I u0 c H).
  - simpl in H, H0. unfold upds in *. destruct (String.eqb u0 u); try discriminate.
    destruct (String.eqb u' u); try discriminate. apply (inv_fam s I u0 u' c H H0).
  - simpl. apply (inv_hconn s I h H).
  - simpl. apply (inv_closedq s I c H).
  - apply reg_under_remove in H. destruct H as [Hne H]. simpl in H0.
    rewrite HA by auto. rewrite (inv_own s I u0 c a H H0).
    destruct (existsb (Nat.eqb c) (removed_by s u)) eqn:X; auto.
    apply existsb_exists in X. destruct X as [c' [Hin He]]. apply Nat.eqb_eq in He. subst c'.
    apply removed_by_In in Hin.
    destruct (inv_key s I u0 c H) as [_ K1]. destruct (inv_key s I u c Hin) as [_ K2]. congruence.
  - intros R. apply reg_under_remove in R. destruct R as [_ R]. simpl in H. apply (inv_mclosed s I H u0 c R).
  - simpl. apply (inv_fresh s I c H).
  - apply reg_under_remove in H. destruct H as [_ H]. simpl. apply (inv_udom s I u0 c H).
Qed.

Lemma regopen_remove s u : RegOpen s -> RegOpen (fst (remove_core s u)).
Proof. intros R u' c H. apply reg_under_remove in H. destruct H as [_ H]. simpl. apply (R u' c H). Qed.

(* ---------- primitive: register (addAddress + registerConnForAddress) ---------- *)
Lemma register_frame s c ca :
  nconns (register s c ca) = nconns s /\ handles (register s c ca) = handles s /\
  nhandles (register s c ca) = nhandles s /\ m4 (register s c ca) = m4 s /\ m6 (register s c ca) = m6 s /\
  udom (register s c ca) = udom s /\ mclosed (register s c ca) = mclosed s.
Proof.
  unfold register, set_conn, set_conns; simpl. destruct (mclosed s); simpl; [repeat split; reflexivity|].
  destruct (amap s ca); simpl; repeat split; reflexivity.
Qed.

Lemma register_conn s c ca i :
  c_key (conns (register s c ca) i) = c_key (conns s i) /\
  c_queue (conns (register s c ca) i) = c_queue (conns s i) /\
  c_closed (conns (register s c ca) i) = c_closed (conns s i) /\
  c_refs (conns (register s c ca) i) = c_refs (conns s i).
Proof.
  unfold register, set_conn, set_conns, set_addrs; simpl. destruct (mclosed s); simpl.
  - upd_cases; simpl; auto.
  - destruct (amap s ca); simpl; upd_cases; simpl; auto.
Qed.

Lemma register_amap s c ca a :
  amap (register s c ca) a = if mclosed s then amap s a else if addr_eqb a ca then Some c else amap s a.
Proof.
  unfold register, set_conn, set_conns; simpl. destruct (mclosed s); simpl; auto.
  destruct (amap s ca); simpl; reflexivity.
Qed.

Lemma register_addrs s c ca i x :
  In x (c_addrs (conns (register s c ca) i)) <->
  (if Nat.eqb i c then In x (c_addrs (conns s c)) \/ x = ca else In x (c_addrs (conns s i)))
  /\ (mclosed s = false -> ~ (amap s ca = Some i /\ x = ca)).
Proof.
  unfold register, set_conn, set_conns, set_addrs; simpl. destruct (mclosed s) eqn:Em; simpl.
  - destruct (Nat.eqb_spec i c); subst; rewrite ?updn_same, ?updn_other by auto; simpl.
    + rewrite in_app_iff; simpl. intuition congruence.
    + intuition congruence.
  - destruct (amap s ca) as [e|] eqn:Ee; simpl.
    + destruct (Nat.eq_dec i e); subst; rewrite ?updn_same; simpl.
      * rewrite remove_addr_In.
        destruct (Nat.eqb_spec e c); subst; rewrite ?updn_same, ?updn_other by auto; simpl.
        -- rewrite in_app_iff; simpl. intuition congruence.
        -- intuition congruence.
      * rewrite (updn_other _ e _ i) by auto.
        destruct (Nat.eqb_spec i c); subst; rewrite ?updn_same, ?updn_other by auto; simpl.
        -- rewrite in_app_iff; simpl. intuition congruence.
        -- intuition congruence.
    + destruct (Nat.eqb_spec i c); subst; rewrite ?updn_same, ?updn_other by auto; simpl.
      * rewrite in_app_iff; simpl. intuition congruence.
      * intuition congruence.
Qed.

Lemma register_fresh s c ca i :
  InvCore s -> c < nconns s -> nconns s <= i -> conns (register s c ca) i = conns s i.
Proof.
  intros I Hc Hi. unfold register, set_conn, set_conns, set_addrs; simpl. destruct (mclosed s); simpl.
  - rewrite updn_other by lia. reflexivity.
  - destruct (amap s ca) as [e|] eqn:Ee; simpl.
    + destruct (inv_bind s I ca e Ee) as [He _]. rewrite !updn_other by lia. reflexivity.
    + rewrite updn_other by lia. reflexivity.
Qed.

Lemma core_register s c ca :
  InvCore s -> c < nconns s -> ~ In ca (c_addrs (conns s c)) -> InvCore (register s c ca).
Proof.
  intros I Hc Hn.
  destruct (register_frame s c ca) as (F1 & F2 & F3 & F4 & F5 & F6 & F7).
  assert (Hnc : amap s ca <> Some c).
  { intros E. apply Hn. apply (inv_bind s I ca c E). }
  constructor; unfold reg_under in *; intros; rewrite ?F1, ?F2, ?F3, ?F4, ?F5, ?F6, ?F7 in *.
  - rewrite register_amap in H. rewrite register_addrs. destruct (mclosed s) eqn:Em.
    + destruct (inv_bind s I a c0 H) as [A B]. split; auto. split; [|intros; discriminate].
      destruct (Nat.eqb_spec c0 c); subst; auto.
    + destruct (addr_eqb a ca) eqn:Ea.
      * apply addr_eqb_spec in Ea. inversion H; subst. split; auto. rewrite Nat.eqb_refl.
        split; auto. intros _ [E _]. contradiction.
      * apply addr_eqb_neq in Ea. destruct (inv_bind s I a c0 H) as [A B]. split; auto. split.
        -- destruct (Nat.eqb_spec c0 c); subst; auto.
        -- intros _ [_ E]. contradiction.
  - destruct (register_conn s c ca c0) as (K & _). rewrite K. apply (inv_key s I u c0 H).
  - apply (inv_fam s I u u' c0 H H0).
  - apply (inv_hconn s I h H).
  - destruct (register_conn s c ca c0) as (_ & Q & C & _). rewrite C in H. rewrite Q. apply (inv_closedq s I c0 H).
  - rewrite register_amap. rewrite register_addrs in H0. destruct H0 as [A B].
    destruct (mclosed s) eqn:Em.
    + exfalso. apply (inv_mclosed s I Em u c0 H).
    + specialize (B eq_refl). destruct (addr_eqb a ca) eqn:Ea.
      * apply addr_eqb_spec in Ea. subst a. destruct (Nat.eqb_spec c0 c); subst; auto.
        exfalso. apply B. split; auto. apply (inv_own s I u c0 ca H A).
      * apply addr_eqb_neq in Ea. apply (inv_own s I u c0 a H).
        destruct (Nat.eqb_spec c0 c); subst; auto. destruct A; auto. contradiction.
  - apply (inv_mclosed s I H u c0).
  - rewrite register_fresh by auto. apply (inv_fresh s I c0 H).
  - apply (inv_udom s I u c0 H).
Qed.

Lemma regopen_register s c ca : RegOpen s -> RegOpen (register s c ca).
Proof.
  intros R u c0 H. destruct (register_frame s c ca) as (F1 & F2 & F3 & F4 & F5 & F6 & F7).
  unfold reg_under in H. rewrite F4, F5 in H. destruct (register_conn s c ca c0) as (_ & _ & C & _).
  rewrite C. apply (R u c0 H).
Qed.

(* ------------------------------------------------------------------------------------------ *)
(* "closing" transformations: mark_closed, remove_core and what is built from them             *)
(* ------------------------------------------------------------------------------------------ *)
Record Shrink (s s' : state) : Prop := {
  sh_n : nconns s' = nconns s;
  sh_h : handles s' = handles s;
  sh_nh : nhandles s' = nhandles s;
  sh_udom : udom s' = udom s;
  sh_adom : adom s' = adom s;
  sh_mc : mclosed s' = mclosed s;
  sh_reg : forall u c, reg_under s' u c -> reg_under s u c;
  sh_amap : forall a c, amap s' a = Some c -> amap s a = Some c;
  sh_conn : forall i,
      c_key (conns s' i) = c_key (conns s i) /\ c_addrs (conns s' i) = c_addrs (conns s i) /\
      c_refs (conns s' i) = c_refs (conns s i) /\
      (c_closed (conns s i) = true -> c_closed (conns s' i) = true) /\
      c_queue (conns s' i) = (if negb (c_closed (conns s i)) && c_closed (conns s' i) then [] else c_queue (conns s i)) }.

Lemma shrink_refl s : Shrink s s.
Proof.
  constructor; auto. intros i. repeat split; auto.
  destruct (c_closed (conns s i)); reflexivity.
Qed.

Lemma shrink_trans s1 s2 s3 : Shrink s1 s2 -> Shrink s2 s3 -> Shrink s1 s3.
Proof.
  intros A B. destruct A, B. constructor; try congruence; auto.
  intros i. destruct (sh_conn0 i) as (K1 & A1 & R1 & C1 & Q1). destruct (sh_conn1 i) as (K2 & A2 & R2 & C2 & Q2).
  repeat split; try congruence; auto.
  rewrite Q2, Q1.
  destruct (c_closed (conns s1 i)) eqn:E1; simpl.
  - rewrite (C1 eq_refl). simpl. reflexivity.
  - destruct (c_closed (conns s2 i)) eqn:E2; simpl.
    + rewrite (C2 eq_refl). reflexivity.
    + destruct (c_closed (conns s3 i)); reflexivity.
Qed.

Lemma shrink_mark_closed s c : Shrink s (mark_closed s c).
Proof.
  destruct (mark_closed_frame s c) as (F1 & F2 & F3 & F4 & F5 & F6 & F7 & F8 & F9).
  constructor; auto; unfold reg_under; try rewrite F4, F5; try rewrite F7; auto.
  intros i. rewrite mark_closed_key, mark_closed_addrs, mark_closed_refs, mark_closed_closed, mark_closed_queue.
  destruct (Nat.eqb_spec i c); subst; repeat split; auto.
  - destruct (c_closed (conns s c)); reflexivity.
  - destruct (c_closed (conns s i)); reflexivity.
Qed.

Lemma shrink_remove_core s u : Shrink s (fst (remove_core s u)).
Proof.
  constructor; auto.
  - intros u' c H. apply reg_under_remove in H. tauto.
  - intros a c H. rewrite remove_core_amap in H.
    destruct (existsb (fun c0 => mem_addr a (c_addrs (conns s c0))) (removed_by s u)); [discriminate | auto].
  - intros i. simpl. repeat split; auto. destruct (c_closed (conns s i)); reflexivity.
Qed.

Definition close_removed (st : state) (c : nat) : state :=
  if c_closed (conns st c) then st else fst (remove_core (mark_closed st c) (c_key (conns st c))).

Lemma do_remove_eq cf s u :
  do_remove cf s u =
  if remove_closes cf then fold_left close_removed (removed_by s u) (fst (remove_core s u)) else fst (remove_core s u).
Proof. reflexivity. Qed.

Definition inl (i : nat) (l : list nat) : bool := existsb (Nat.eqb i) l.

Lemma inl_In i l : inl i l = true <-> In i l.
Proof.
  unfold inl. rewrite existsb_exists. split.
  - intros [x [H E]]. apply Nat.eqb_eq in E. subst. auto.
  - intros H. exists i. split; auto. apply Nat.eqb_refl.
Qed.

(* one step of the repaired RemoveConnByUfrag's closing loop, on a state where u is already gone *)
Lemma close_removed_step st u c :
  InvCore st -> c < nconns st -> c_key (conns st c) = u -> (forall c', ~ reg_under st u c') ->
  let st' := close_removed st c in
  InvCore st' /\ Shrink st st' /\
  (forall u' c', reg_under st' u' c' <-> reg_under st u' c') /\
  (forall a, amap st' a = amap st a) /\
  (forall i, c_closed (conns st' i) = c_closed (conns st i) || Nat.eqb i c).
Proof.
  intros I Hc Hk Hu. unfold close_removed. destruct (c_closed (conns st c)) eqn:Ec; cbv zeta.
  - split; auto. split; [apply shrink_refl|]. split; [tauto|]. split; auto.
    intros i. destruct (Nat.eqb_spec i c); subst; rewrite ?Ec, ?orb_false_r; auto.
  - rewrite Hk. set (m := mark_closed st c).
    assert (Im : InvCore m) by (apply core_mark_closed; auto).
    assert (Hrm : removed_by m u = []).
    { destruct (removed_by m u) as [|x l] eqn:E; auto. exfalso.
      assert (X : In x (removed_by m u)) by (rewrite E; left; auto).
      apply removed_by_In in X. apply (Hu x). destruct (mark_closed_frame st c) as (_ & _ & _ & F4 & F5 & _).
      unfold reg_under in *. subst m. rewrite F4, F5 in X. exact X. }
    split; [apply core_remove; auto|].
    split; [eapply shrink_trans; [apply shrink_mark_closed | apply shrink_remove_core]|].
    split; [|split].
    + intros u' c'. rewrite reg_under_remove. destruct (mark_closed_frame st c) as (_ & _ & _ & F4 & F5 & _).
      unfold reg_under. subst m. rewrite F4, F5. split; [tauto|]. intros H. split; auto.
      intros E. subst u'. apply (Hu c'). exact H.
    + intros a. rewrite remove_core_amap. rewrite Hrm. simpl.
      destruct (mark_closed_frame st c) as (_ & _ & _ & _ & _ & _ & F7 & _). subst m. rewrite F7. reflexivity.
    + intros i. change (conns (fst (remove_core m u)) i) with (conns m i). subst m. rewrite mark_closed_closed. destruct (Nat.eqb_spec i c); subst.
      * rewrite orb_true_r. reflexivity.
      * rewrite orb_false_r. reflexivity.
Qed.

Lemma close_removed_fold u l : forall st,
  InvCore st -> (forall c, In c l -> c < nconns st /\ c_key (conns st c) = u) -> (forall c', ~ reg_under st u c') ->
  let st' := fold_left close_removed l st in
  InvCore st' /\ Shrink st st' /\
  (forall u' c', reg_under st' u' c' <-> reg_under st u' c') /\
  (forall a, amap st' a = amap st a) /\
  (forall i, c_closed (conns st' i) = c_closed (conns st i) || inl i l).
Proof.
  induction l as [|c l IH]; simpl; intros st I Hl Hu.
  - split; auto. split; [apply shrink_refl|]. split; [tauto|]. split; auto. intros i. rewrite orb_false_r. reflexivity.
  - destruct (Hl c (or_introl eq_refl)) as [Hc Hk].
    destruct (close_removed_step st u c I Hc Hk Hu) as (I1 & S1 & R1 & A1 & C1).
    assert (Hl' : forall c0, In c0 l -> c0 < nconns (close_removed st c) /\ c_key (conns (close_removed st c) c0) = u).
    { intros c0 H0. destruct (Hl c0 (or_intror H0)) as [X Y]. rewrite (sh_n _ _ S1).
      destruct (sh_conn _ _ S1 c0) as (K & _). rewrite K. auto. }
    assert (Hu' : forall c', ~ reg_under (close_removed st c) u c').
    { intros c' H. apply R1 in H. apply (Hu c' H). }
    destruct (IH (close_removed st c) I1 Hl' Hu') as (I2 & S2 & R2 & A2 & C2).
    split; auto. split; [eapply shrink_trans; eauto|]. split; [|split].
    + intros u' c'. rewrite R2. apply R1.
    + intros a. rewrite A2. apply A1.
    + intros i. rewrite C2, C1. unfold inl. simpl. rewrite orb_assoc. reflexivity.
Qed.

(* RemoveConnByUfrag under either semantics *)
Lemma do_remove_spec cf s u :
  InvCore s ->
  let s' := do_remove cf s u in
  InvCore s' /\ Shrink s s' /\
  (forall u' c, reg_under s' u' c <-> u' <> u /\ reg_under s u' c) /\
  (forall a, amap s' a = match amap s a with
                         | Some c => if inl c (removed_by s u) then None else Some c
                         | None => None
                         end) /\
  (forall i, c_closed (conns s' i) = c_closed (conns s i) || (remove_closes cf && inl i (removed_by s u))).
Proof.
  intros I. rewrite do_remove_eq. destruct (remove_closes cf); cbv zeta.
  - set (s1 := fst (remove_core s u)).
    assert (I1 : InvCore s1) by (apply core_remove; auto).
    assert (Hl : forall c, In c (removed_by s u) -> c < nconns s1 /\ c_key (conns s1 c) = u).
    { intros c H. apply removed_by_In in H. simpl. apply (inv_key s I u c H). }
    assert (Hu : forall c', ~ reg_under s1 u c').
    { intros c' H. apply reg_under_remove in H. destruct H as [H _]. apply H. reflexivity. }
    destruct (close_removed_fold u (removed_by s u) s1 I1 Hl Hu) as (I2 & S2 & R2 & A2 & C2).
    split; auto. split; [eapply shrink_trans; [apply shrink_remove_core | exact S2]|]. split; [|split].
    + intros u' c. rewrite R2. apply reg_under_remove.
    + intros a. rewrite A2. apply remove_core_amap_inv. exact I.
    + intros i. rewrite C2. rewrite andb_true_l. reflexivity.
  - split; [apply core_remove; auto|]. split; [apply shrink_remove_core|]. split; [|split].
    + intros u' c. apply reg_under_remove.
    + intros a. apply remove_core_amap_inv. exact I.
    + intros i. rewrite andb_false_l, orb_false_r. reflexivity.
Qed.

Lemma regopen_do_remove cf s u :
  InvCore s -> (forall u' c, u' <> u -> reg_under s u' c -> c_closed (conns s c) = false) ->
  RegOpen (do_remove cf s u).
Proof.
  intros I R u' c H. destruct (do_remove_spec cf s u I) as (_ & _ & HR & _ & HC).
  apply HR in H. destruct H as [Hne H]. rewrite HC, (R u' c Hne H). simpl.
  destruct (remove_closes cf); simpl; auto.
  destruct (inl c (removed_by s u)) eqn:E; auto. apply inl_In in E. apply removed_by_In in E.
  destruct (inv_key s I u' c H) as [_ K1]. destruct (inv_key s I u c E) as [_ K2]. congruence.
Qed.

(* udpMuxedConn.Close + watcher *)
Lemma conn_close_spec cf s c :
  InvCore s -> RegOpen s -> c < nconns s ->
  let s' := conn_close cf s c in
  InvCore s' /\ RegOpen s' /\ Shrink s s'.
Proof.
  intros I R Hc. unfold conn_close. destruct (c_closed (conns s c)) eqn:Ec; simpl.
  - split; auto. split; auto. apply shrink_refl.
  - set (m := mark_closed s c).
    assert (Im : InvCore m) by (apply core_mark_closed; auto).
    destruct (mark_closed_frame s c) as (_ & _ & _ & F4 & F5 & _).
    destruct (do_remove_spec cf m (c_key (conns s c)) Im) as (I2 & S2 & _).
    split; auto. split.
    + apply regopen_do_remove; auto. intros u' c' Hne H. unfold reg_under in H. subst m. rewrite F4, F5 in H.
      rewrite mark_closed_closed. destruct (Nat.eqb_spec c' c); subst.
      * exfalso. apply Hne. symmetry. apply (inv_key s I u' c H).
      * apply (R u' c' H).
    + eapply shrink_trans; [apply shrink_mark_closed | exact S2].
Qed.

(* mux Close *)
Lemma fold_mark_closed l : forall s,
  let s' := fold_left mark_closed l s in
  Shrink s s' /\ m4 s' = m4 s /\ m6 s' = m6 s /\ amap s' = amap s /\
  (forall i, c_closed (conns s' i) = c_closed (conns s i) || inl i l) /\
  ((forall c, In c l -> c < nconns s) -> InvCore s -> InvCore s').
Proof.
  induction l as [|c l IH]; simpl; intros s.
  - split; [apply shrink_refl|]. split; auto. split; auto. split; auto.
    split; [intros i; rewrite orb_false_r; reflexivity | auto].
  - destruct (IH (mark_closed s c)) as (S & M4 & M6 & A & C & I).
    destruct (mark_closed_frame s c) as (F1 & _ & _ & F4 & F5 & _ & F7 & _).
    split; [eapply shrink_trans; [apply shrink_mark_closed | exact S]|].
    split; [congruence|]. split; [congruence|]. split; [congruence|]. split.
    + intros i. rewrite C, mark_closed_closed. unfold inl. simpl.
      destruct (Nat.eqb i c); simpl; auto. rewrite orb_true_r. reflexivity.
    + intros Hl Is. apply I.
      * intros c0 H0. rewrite F1. apply Hl. auto.
      * apply core_mark_closed; auto.
Qed.

Lemma registered_In s c : In c (registered s) -> exists u, reg_under s u c.
Proof.
  unfold registered. rewrite in_app_iff, !in_flat_map. intros [[u [_ H]] | [u [_ H]]]; exists u; unfold reg_under.
  - destruct (m4 s u); simpl in H; [destruct H as [H|[]]; subst; auto | contradiction].
  - destruct (m6 s u); simpl in H; [destruct H as [H|[]]; subst; auto | contradiction].
Qed.

Lemma In_registered s u c : InvCore s -> reg_under s u c -> In c (registered s).
Proof.
  intros I H. pose proof (inv_udom s I u c H) as Hu. unfold registered. rewrite in_app_iff, !in_flat_map.
  destruct H as [H|H]; [left|right]; exists u; split; auto; rewrite H; left; reflexivity.
Qed.

Lemma closemux_spec s :
  InvCore s ->
  let s' := do_closemux s in
  InvCore s' /\ RegOpen s' /\
  (mclosed s = false ->
     mclosed s' = true /\ nconns s' = nconns s /\ handles s' = handles s /\ nhandles s' = nhandles s /\
     amap s' = amap s /\ (forall u c, ~ reg_under s' u c) /\
     (forall i, c_closed (conns s' i) = c_closed (conns s i) || inl i (registered s)) /\
     (forall i, c_key (conns s' i) = c_key (conns s i) /\ c_addrs (conns s' i) = c_addrs (conns s i) /\
                c_refs (conns s' i) = c_refs (conns s i) /\
                c_queue (conns s' i) = (if negb (c_closed (conns s i)) && c_closed (conns s' i) then [] else c_queue (conns s i)))).
Proof.
  intros I. unfold do_closemux. destruct (mclosed s) eqn:Em.
  - split; auto. split; [|intros; discriminate]. intros u c H. exfalso. apply (inv_mclosed s I Em u c H).
  - destruct (fold_mark_closed (registered s) s) as (S & M4 & M6 & A & C & I1).
    set (s1 := fold_left mark_closed (registered s) s) in *.
    assert (Hl : forall c, In c (registered s) -> c < nconns s).
    { intros c H. apply registered_In in H. destruct H as [u H]. apply (inv_key s I u c H). }
    specialize (I1 Hl I). simpl.
    split; [|split].
    + destruct I1. constructor; unfold reg_under in *; simpl in *; intros; eauto; try tauto;
        try (destruct H; discriminate); try discriminate.
      intros [X|X]; discriminate.
    + intros u c [H|H]; simpl in H; discriminate.
    + intros _. simpl. split; auto. split; [apply (sh_n _ _ S)|]. split; [apply (sh_h _ _ S)|].
      split; [apply (sh_nh _ _ S)|]. split; auto. split.
      * intros u c [H|H]; simpl in H; discriminate.
      * split; auto. intros i. destruct (sh_conn _ _ S i) as (K & Ad & Rf & _ & Q). auto.
Qed.

(* ------------------------------------------------------------------------------------------ *)
(* every operation preserves the invariant                                                     *)
(* ------------------------------------------------------------------------------------------ *)
Lemma inv_getconn cf s u is6 ok : Inv s -> Inv (fst (do_getconn cf s u is6 ok)).
Proof.
  intros [I R]. unfold do_getconn.
  destruct (negb (unspec cf) && negb ok); [split; auto|].
  destruct (mclosed s) eqn:Em; [split; auto|].
  destruct (mfam s is6 u) as [c|] eqn:Ef; simpl.
  - assert (Hreg : reg_under s u c) by (unfold reg_under, mfam in *; destruct is6; auto).
    destruct (inv_key s I u c Hreg) as [Hc Hk].
    split.
    + destruct I. constructor; unfold reg_under in *; simpl; intros.
      * specialize (inv_bind0 _ _ H). upd_cases; simpl; tauto.
      * specialize (inv_key0 _ _ H). upd_cases; simpl; tauto.
      * eauto.
      * upd_cases; simpl; auto. apply inv_hconn0. lia.
      * upd_cases; simpl in *; auto.
      * apply (inv_own0 u0 c0 a H). upd_cases; simpl in *; auto.
      * discriminate.
      * upd_cases; [lia | auto].
      * eauto.
    + intros u0 c0 H. unfold reg_under in H; simpl in H. specialize (R u0 c0 H). simpl. upd_cases; simpl; auto.
  - assert (Hfresh : forall u0 c0, reg_under s u0 c0 -> c0 <> nconns s).
    { intros u0 c0 H. destruct (inv_key s I u0 c0 H). lia. }
    assert (Hreg' : forall u0 c0,
               (if is6 then m4 s else upds (m4 s) u (Some (nconns s))) u0 = Some c0 \/
               (if is6 then upds (m6 s) u (Some (nconns s)) else m6 s) u0 = Some c0 ->
               (u0 = u /\ c0 = nconns s) \/ (c0 <> nconns s /\ reg_under s u0 c0)).
    { intros u0 c0 H. unfold reg_under. unfold mfam in Ef. destruct is6; destruct H as [H|H]; upd_cases;
        try (inversion H; subst; auto; fail); try congruence;
        right; (split; [eapply Hfresh; unfold reg_under; eauto | auto]). }
    split.
    + constructor; unfold reg_under; simpl; intros.
      * destruct (inv_bind s I a c H) as [A B]. split; [lia|]. rewrite updn_other by lia. exact B.
      * apply Hreg' in H. destruct H as [[-> ->] | [Hne H]].
        -- rewrite updn_same. simpl. split; [lia | reflexivity].
        -- rewrite updn_other by auto. destruct (inv_key s I u0 c H). split; [lia | auto].
      * assert (A : c <> nconns s /\ m4 s u0 = Some c /\ m6 s u' = Some c \/ c = nconns s).
        { destruct (Nat.eq_dec c (nconns s)); auto. left. split; auto.
          unfold mfam in Ef. destruct is6; upd_cases; try congruence; auto. }
        destruct A as [(_ & A & B) | A].
        -- apply (inv_fam s I u0 u' c A B).
        -- subst c. destruct is6.
           ++ eapply (Hfresh u0 (nconns s)); unfold reg_under; eauto.
           ++ eapply (Hfresh u' (nconns s)); unfold reg_under; eauto.
      * upd_cases; simpl; [lia|]. assert (h < nhandles s) by lia. pose proof (inv_hconn s I h H0). lia.
      * upd_cases; simpl in *; [discriminate | apply (inv_closedq s I c H)].
      * apply Hreg' in H. destruct H as [[-> ->] | [Hne H]].
        -- rewrite updn_same in H0. simpl in H0. contradiction.
        -- rewrite updn_other in H0 by auto. apply (inv_own s I u0 c a H H0).
      * discriminate.
      * rewrite updn_other by lia. apply (inv_fresh s I c). lia.
      * apply Hreg' in H. destruct H as [[-> ->] | [Hne H]]; [left; auto | right; apply (inv_udom s I u0 c H)].
    + intros u0 c0 H. unfold reg_under in H; simpl in H. apply Hreg' in H. simpl.
      destruct H as [[-> ->] | [Hne H]].
      * rewrite updn_same. reflexivity.
      * rewrite updn_other by auto. apply (R u0 c0 H).
Qed.

Lemma inv_write s h d len : Inv s -> Inv (fst (do_write s h d len)).
Proof.
  intros [I R]. unfold do_write.
  destruct (Nat.ltb_spec h (nhandles s)); simpl; [|split; auto].
  destruct (h_closed (handles s h)); [split; auto|].
  destruct (c_closed (conns s (h_conn (handles s h)))); [split; auto|].
  destruct d; try (split; auto; fail). simpl.
  destruct (mem_addr (canon a) (c_addrs (conns s (h_conn (handles s h))))) eqn:Em; [split; auto|].
  apply mem_addr_false in Em. split.
  - apply core_register; auto. apply (inv_hconn s I h H).
  - apply regopen_register; auto.
Qed.

Lemma inv_inbound s src k b : Inv s -> Inv (fst (do_inbound s src k b)).
Proof.
  intros [I R]. unfold do_inbound. destruct (mclosed s) eqn:Em; [split; auto|].
  destruct (route s src k) as [c|] eqn:Er; [|split; auto].
  destruct (c_closed (conns s c)) eqn:Ec; [split; auto|]. simpl.
  assert (Hc : c < nconns s).
  { destruct (Nat.lt_ge_cases c (nconns s)); auto. rewrite (inv_fresh s I c H) in Ec. discriminate. }
  split.
  - apply core_set_data; auto. simpl. intros; congruence.
  - apply regopen_set_data; auto.
Qed.

Lemma inv_read s h bl : Inv s -> Inv (fst (do_read s h bl)).
Proof.
  intros [I R]. unfold do_read.
  destruct (Nat.ltb_spec h (nhandles s)); simpl; [|split; auto].
  destruct (h_closed (handles s h)); [split; auto|].
  set (c := h_conn (handles s h)). assert (Hc : c < nconns s) by (apply (inv_hconn s I h H)).
  destruct (c_queue (conns s c)) as [|[b src] rest] eqn:Eq; [split; auto|].
  assert (X : Inv (set_conn s c (mkConn (c_key (conns s c)) (c_addrs (conns s c)) rest (c_closed (conns s c)) (c_refs (conns s c))))).
  { split.
    - apply core_set_data; auto. simpl. intros Hcl. rewrite (inv_closedq s I c Hcl) in Eq. discriminate.
    - apply regopen_set_data; auto. }
  destruct (bl <? N.of_nat (String.length b))%N; exact X.
Qed.

Lemma inv_remove cf s u : Inv s -> Inv (do_remove cf s u).
Proof.
  intros [I R]. destruct (do_remove_spec cf s u I) as (I2 & _). split; auto.
  apply regopen_do_remove; auto. intros u' c _ H. apply (R u' c H).
Qed.

Lemma inv_closeh cf s h : Inv s -> Inv (fst (do_closeh cf s h)).
Proof.
  intros [I R]. unfold do_closeh.
  destruct (Nat.ltb_spec h (nhandles s)); simpl; [|split; auto].
  destruct (h_closed (handles s h)) eqn:Eh; [split; auto|]. simpl.
  set (c := h_conn (handles s h)). assert (Hc : c < nconns s) by (apply (inv_hconn s I h H)).
  set (s1 := mkState _ _ _ _ _ _ _ _ _ _).
  assert (I1 : Inv s1).
  { subst s1. split.
    - destruct I. constructor; unfold reg_under in *; simpl; intros.
      + specialize (inv_bind0 _ _ H0). upd_cases; simpl; tauto.
      + specialize (inv_key0 _ _ H0). upd_cases; simpl; tauto.
      + eauto.
      + upd_cases; simpl; auto.
      + upd_cases; simpl in *; auto.
      + apply (inv_own0 u c0 a H0). upd_cases; simpl in *; auto.
      + eauto.
      + upd_cases; [lia | auto].
      + eauto.
    - intros u0 c0 H0. unfold reg_under in H0; simpl in H0. specialize (R u0 c0 H0). simpl. upd_cases; simpl; auto. }
  destruct ((c_refs (conns s c) - 1 <=? 0)%Z); auto.
  destruct I1 as [I1 R1]. destruct (conn_close_spec cf s1 c I1 R1 Hc) as (A & B & _). split; auto.
Qed.

Lemma inv_closemux s : Inv s -> Inv (do_closemux s).
Proof. intros [I R]. destruct (closemux_spec s I) as (A & B & _). split; auto. Qed.

Lemma inv_inerr s f : Inv s -> Inv (do_inerr s f).
Proof. intros H. unfold do_inerr. destruct (mclosed s); auto. destruct f; auto. apply inv_closemux; auto. Qed.

Lemma inv_step cf s o : Inv s -> Inv (fst (step cf s o)).
Proof.
  intros H. destruct o; simpl.
  - apply inv_getconn; auto.
  - apply inv_write; auto.
  - apply inv_inbound; auto.
  - apply inv_inerr; auto.
  - apply inv_remove; auto.
  - apply inv_closeh; auto.
  - apply inv_closemux; auto.
  - apply inv_read; auto.
Qed.

Lemma reach_inv cf s : reach cf s -> Inv s.
Proof. induction 1; [apply inv_init | apply inv_step; auto]. Qed.

(* ------------------------------------------------------------------------------------------ *)
(* C12_routing / C12_no_foreign_ufrag                                                          *)
(* ------------------------------------------------------------------------------------------ *)
(* connection c gets the datagram (src, k) in state s *)
Definition recipient (s : state) (src : addr) (k : pkind) (c : nat) : bool :=
  negb (mclosed s) && (match route s src k with Some d => Nat.eqb d c | None => false end)
  && negb (c_closed (conns s c)).

Lemma recipient_true s src k c :
  recipient s src k c = true <-> mclosed s = false /\ route s src k = Some c /\ c_closed (conns s c) = false.
Proof.
  unfold recipient. rewrite !andb_true_iff, !negb_true_iff.
  destruct (route s src k) as [d|]; split.
  - intros [[A B] C]. apply Nat.eqb_eq in B. subst. auto.
  - intros (A & B & C). inversion B; subst. rewrite Nat.eqb_refl. auto.
  - intros [[_ B] _]. discriminate.
  - intros (_ & B & _). discriminate.
Qed.

Lemma inbound_conns s src k b c :
  conns (fst (do_inbound s src k b)) c = if recipient s src k c then enqueue (conns s c) b src else conns s c.
Proof.
  unfold do_inbound, recipient. destruct (mclosed s); simpl; auto.
  destruct (route s src k) as [d|]; simpl; auto.
  destruct (c_closed (conns s d)) eqn:Ed; simpl.
  - destruct (Nat.eqb_spec d c); subst; simpl; auto. rewrite Ed. reflexivity.
  - unfold updn. rewrite (Nat.eqb_sym c d). destruct (Nat.eqb_spec d c); subst; simpl; auto.
    rewrite Ed. reflexivity.
Qed.

Lemma inbound_frame s src k b :
  let s' := fst (do_inbound s src k b) in
  nconns s' = nconns s /\ handles s' = handles s /\ nhandles s' = nhandles s /\ m4 s' = m4 s /\ m6 s' = m6 s /\
  udom s' = udom s /\ amap s' = amap s /\ adom s' = adom s /\ mclosed s' = mclosed s.
Proof.
  unfold do_inbound. destruct (mclosed s) eqn:E; simpl; [repeat split; auto|].
  destruct (route s src k); simpl; [|repeat split; auto].
  destruct (c_closed (conns s n)); simpl; repeat split; auto.
Qed.

(* which connection the code designates: the address map first, the ufrag maps otherwise *)
Lemma route_spec s src k c :
  route s src k = Some c <->
  amap s (canon src) = Some c \/
  (amap s (canon src) = None /\ exists un, k = KStunUser un /\ mfam s (a_is6 (canon src)) (ufrag_of un) = Some c).
Proof.
  unfold route. destruct (amap s (canon src)) as [d|]; split.
  - intros H. left. exact H.
  - intros [H | [H _]]; [exact H | discriminate].
  - intros H. right. split; auto. destruct k; try discriminate. exists un. auto.
  - intros [H | [_ [un [-> H]]]]; [discriminate | exact H].
Qed.

Theorem routing_thm cf s src k b :
  let s' := fst (step cf s (OInbound src k b)) in
  (forall c, c_queue (conns s' c) = c_queue (conns s c) ++ (if recipient s src k c then [(b, src)] else [])) /\
  (forall c, c_key (conns s' c) = c_key (conns s c) /\ c_addrs (conns s' c) = c_addrs (conns s c) /\
             c_closed (conns s' c) = c_closed (conns s c) /\ c_refs (conns s' c) = c_refs (conns s c)) /\
  (forall c1 c2, recipient s src k c1 = true -> recipient s src k c2 = true -> c1 = c2) /\
  (forall c, recipient s src k c = true <->
             mclosed s = false /\ c_closed (conns s c) = false /\
             (amap s (canon src) = Some c \/
              (amap s (canon src) = None /\
               exists un, k = KStunUser un /\ mfam s (a_is6 (canon src)) (ufrag_of un) = Some c))) /\
  nconns s' = nconns s /\ handles s' = handles s /\ nhandles s' = nhandles s /\
  m4 s' = m4 s /\ m6 s' = m6 s /\ amap s' = amap s /\ mclosed s' = mclosed s.
Proof.
  simpl. destruct (inbound_frame s src k b) as (F1 & F2 & F3 & F4 & F5 & F6 & F7 & F8 & F9).
  split; [|split; [|split; [|split]]].
  - intros c. rewrite inbound_conns. destruct (recipient s src k c); simpl; auto. rewrite app_nil_r. reflexivity.
  - intros c. rewrite inbound_conns. destruct (recipient s src k c); simpl; auto.
  - intros c1 c2 H1 H2. apply recipient_true in H1, H2. destruct H1 as (_ & A & _), H2 as (_ & B & _). congruence.
  - intros c. rewrite recipient_true, route_spec. tauto.
  - repeat split; auto.
Qed.

Theorem no_foreign_ufrag_thm cf s src k c :
  reach cf s -> recipient s src k c = true -> amap s (canon src) = None ->
  exists un, k = KStunUser un /\ c_key (conns s c) = ufrag_of un /\
             mfam s (a_is6 (canon src)) (ufrag_of un) = Some c.
Proof.
  intros Hr H Ha. apply reach_inv in Hr. destruct Hr as [I _].
  apply recipient_true in H. destruct H as (_ & H & _). apply route_spec in H.
  destruct H as [H | [_ [un [-> H]]]]; [congruence|].
  exists un. split; auto. split; auto.
  assert (R : reg_under s (ufrag_of un) c) by (unfold reg_under, mfam in *; destruct (a_is6 (canon src)); auto).
  apply (inv_key s I _ _ R).
Qed.

Lemma recipient_lt cf s src k c : reach cf s -> recipient s src k c = true -> c < nconns s.
Proof.
  intros Hr H. apply reach_inv in Hr. destruct Hr as [I _]. apply recipient_true in H. destruct H as (_ & _ & H).
  destruct (Nat.lt_ge_cases c (nconns s)); auto. rewrite (inv_fresh s I c H0) in H. discriminate.
Qed.

(* ------------------------------------------------------------------------------------------ *)
(* what one operation can change (frame lemmas)                                                *)
(* ------------------------------------------------------------------------------------------ *)
Definition writer_ok (s : state) (h c : nat) : Prop :=
  h < nhandles s /\ h_closed (handles s h) = false /\ h_conn (handles s h) = c /\ c_closed (conns s c) = false.

(* the state between "handle marked closed, refs decremented" and the possible conn_close *)
Definition closeh_mid (s : state) (h : nat) : state :=
  let c := h_conn (handles s h) in
  let cn := conns s c in
  mkState (updn (conns s) c (mkConn (c_key cn) (c_addrs cn) (c_queue cn) (c_closed cn) (c_refs cn - 1)%Z))
          (nconns s) (updn (handles s) h (mkHandle c true)) (nhandles s)
          (m4 s) (m6 s) (udom s) (amap s) (adom s) (mclosed s).

Lemma closeh_mid_conn s h i :
  c_key (conns (closeh_mid s h) i) = c_key (conns s i) /\ c_addrs (conns (closeh_mid s h) i) = c_addrs (conns s i) /\
  c_queue (conns (closeh_mid s h) i) = c_queue (conns s i) /\ c_closed (conns (closeh_mid s h) i) = c_closed (conns s i).
Proof. unfold closeh_mid; simpl. upd_cases; simpl; auto. Qed.

Lemma do_closeh_eq cf s h :
  fst (do_closeh cf s h) =
  if negb (Nat.ltb h (nhandles s)) then s
  else if h_closed (handles s h) then s
  else if (c_refs (conns s (h_conn (handles s h))) - 1 <=? 0)%Z
       then conn_close cf (closeh_mid s h) (h_conn (handles s h)) else closeh_mid s h.
Proof.
  unfold do_closeh. destruct (negb (Nat.ltb h (nhandles s))); auto.
  destruct (h_closed (handles s h)); auto.
Qed.

Lemma inv_closeh_mid s h : Inv s -> h < nhandles s -> Inv (closeh_mid s h).
Proof.
  intros [I R] H. set (c := h_conn (handles s h)). assert (Hc : c < nconns s) by (apply (inv_hconn s I h H)).
  unfold closeh_mid. fold c. split.
  - destruct I. constructor; unfold reg_under in *; simpl; intros.
    + specialize (inv_bind0 _ _ H0). upd_cases; simpl; tauto.
    + specialize (inv_key0 _ _ H0). upd_cases; simpl; tauto.
    + eauto.
    + upd_cases; simpl; auto.
    + upd_cases; simpl in *; auto.
    + apply (inv_own0 u c0 a H0). upd_cases; simpl in *; auto.
    + eauto.
    + upd_cases; [lia | auto].
    + eauto.
  - intros u0 c0 H0. unfold reg_under in H0; simpl in H0. specialize (R u0 c0 H0). simpl. upd_cases; simpl; auto.
Qed.

(* a summary of every operation, connection by connection *)
Record StepFacts (s : state) (o : op) (s' : state) : Prop := {
  sf_n : nconns s <= nconns s';
  sf_closed : forall i, i < nconns s -> c_closed (conns s i) = true -> c_closed (conns s' i) = true;
  sf_key : forall i, i < nconns s -> c_key (conns s' i) = c_key (conns s i);
  sf_amap : forall a i, amap s' a = Some i ->
      amap s a = Some i \/
      (exists h x len, o = OWrite h (WAddr x) len /\ writer_ok s h i /\ a = canon x /\ mclosed s = false);
  sf_reg : forall u i, reg_under s' u i ->
      reg_under s u i \/ (i = nconns s /\ exists is6 ok, o = OGetConn u is6 ok);
  sf_mclosed : mclosed s = true -> mclosed s' = true;
  sf_hconn : forall h, h < nhandles s -> h_conn (handles s' h) = h_conn (handles s h) }.

Lemma shrink_facts_closed s s' i : Shrink s s' -> c_closed (conns s i) = true -> c_closed (conns s' i) = true.
Proof. intros S. apply (sh_conn _ _ S i). Qed.

Lemma step_facts cf s o : Inv s -> StepFacts s o (fst (step cf s o)).
Proof.
  intros [I R]. destruct o; simpl.
  - (* GetConn *)
    unfold do_getconn.
    destruct (negb (unspec cf) && negb addr_ok); [constructor; simpl; intros; auto|].
    destruct (mclosed s) eqn:Em; [constructor; simpl; intros; auto|].
    destruct (mfam s is6 u) as [c|] eqn:Ef.
    + constructor; simpl; intros; auto; try discriminate.
      all: upd_cases; simpl; auto; try lia; try congruence.
    + constructor; simpl; intros; auto; try discriminate.
      all: try (rewrite updn_other by lia; auto; fail); try congruence.
      unfold reg_under in *; simpl in *. destruct is6; destruct H as [H|H]; upd_cases;
        try (inversion H; subst; right; split; eauto; fail); auto.
  - (* WriteTo *)
    unfold do_write. destruct (Nat.ltb_spec h (nhandles s)); simpl; [|constructor; simpl; intros; auto].
    destruct (h_closed (handles s h)) eqn:Eh; [constructor; simpl; intros; auto|].
    destruct (c_closed (conns s (h_conn (handles s h)))) eqn:Ec; [constructor; simpl; intros; auto|].
    destruct d; try (constructor; simpl; intros; auto; fail). simpl.
    destruct (mem_addr (canon a) (c_addrs (conns s (h_conn (handles s h))))) eqn:Em; [constructor; simpl; intros; auto|].
    destruct (register_frame s (h_conn (handles s h)) (canon a)) as (F1 & F2 & F3 & F4 & F5 & F6 & F7).
    constructor; intros; rewrite ?F1, ?F2, ?F7; auto.
    + destruct (register_conn s (h_conn (handles s h)) (canon a) i) as (_ & _ & C & _). congruence.
    + destruct (register_conn s (h_conn (handles s h)) (canon a) i) as (K & _). auto.
    + rewrite register_amap in H0. destruct (mclosed s) eqn:Emc; auto.
      destruct (addr_eqb a0 (canon a)) eqn:Ea; auto. apply addr_eqb_spec in Ea. inversion H0; subst.
      right. exists h, a, len. unfold writer_ok. auto 10.
    + left. unfold reg_under in *. rewrite F4, F5 in H0. exact H0.
  - (* inbound *)
    destruct (inbound_frame s src k b) as (F1 & F2 & F3 & F4 & F5 & F6 & F7 & F8 & F9).
    constructor; intros; rewrite ?F1, ?F2, ?F9; auto.
    + rewrite inbound_conns. destruct (recipient s src k i); simpl; auto.
    + rewrite inbound_conns. destruct (recipient s src k i); simpl; auto.
    + left. rewrite F7 in H. exact H.
    + left. unfold reg_under in *. rewrite F4, F5 in H. exact H.
  - (* read error *)
    unfold do_inerr. destruct (mclosed s) eqn:Em; [constructor; simpl; intros; auto|].
    destruct fatal; [|constructor; simpl; intros; auto].
    destruct (closemux_spec s I) as (_ & _ & X). destruct (X Em) as (A & B & C & D & E & F & G & H).
    constructor; intros; rewrite ?B, ?C; auto; try lia.
    + rewrite G, H1. reflexivity.
    + apply (H i).
    + left. rewrite E in H0. exact H0.
    + exfalso. apply (F u i H0).
  - (* RemoveConnByUfrag *)
    destruct (do_remove_spec cf s u I) as (_ & S & HR & _ & _).
    constructor; intros; rewrite ?(sh_n _ _ S), ?(sh_h _ _ S), ?(sh_mc _ _ S); auto.
    + apply (shrink_facts_closed _ _ i S H0).
    + apply (sh_conn _ _ S i).
    + left. apply (sh_amap _ _ S a i H).
    + left. apply (sh_reg _ _ S u0 i H).
  - (* handle Close *)
    rewrite do_closeh_eq. destruct (Nat.ltb_spec h (nhandles s)); simpl; [|constructor; simpl; intros; auto].
    destruct (h_closed (handles s h)) eqn:Eh; [constructor; simpl; intros; auto|].
    assert (M : forall i, c_closed (conns (closeh_mid s h) i) = c_closed (conns s i)) by (intros; apply closeh_mid_conn).
    assert (K : forall i, c_key (conns (closeh_mid s h) i) = c_key (conns s i)) by (intros; apply closeh_mid_conn).
    assert (Hh : forall h0, h_conn (handles (closeh_mid s h) h0) = h_conn (handles s h0)).
    { intros h0. unfold closeh_mid; simpl. upd_cases; simpl; auto. }
    destruct ((c_refs (conns s (h_conn (handles s h))) - 1 <=? 0)%Z).
    + destruct (inv_closeh_mid s h (conj I R) H) as [I1 R1].
      assert (Hc : h_conn (handles s h) < nconns (closeh_mid s h)) by (simpl; apply (inv_hconn s I h H)).
      destruct (conn_close_spec cf (closeh_mid s h) (h_conn (handles s h)) I1 R1 Hc) as (_ & _ & S).
      constructor; intros; rewrite ?(sh_n _ _ S), ?(sh_h _ _ S), ?(sh_mc _ _ S); auto.
      * apply (shrink_facts_closed _ _ i S). rewrite M. exact H1.
      * destruct (sh_conn _ _ S i) as (X & _). rewrite X. apply K.
      * left. apply (sh_amap _ _ S a i H0).
      * left. apply (sh_reg _ _ S u i H0).
    + constructor; intros; auto.
      rewrite M. auto.
  - (* mux Close *)
    destruct (mclosed s) eqn:Em.
    + unfold do_closemux. rewrite Em. constructor; simpl; intros; auto.
    + destruct (closemux_spec s I) as (_ & _ & X). destruct (X Em) as (A & B & C & D & E & F & G & H).
      constructor; intros; rewrite ?B, ?C; auto; try lia.
      * rewrite G, H1. reflexivity.
      * apply (H i).
      * left. rewrite E in H0. exact H0.
      * exfalso. apply (F u i H0).
  - (* Read *)
    unfold do_read. destruct (Nat.ltb_spec h (nhandles s)); simpl; [|constructor; simpl; intros; auto].
    destruct (h_closed (handles s h)) eqn:Eh; [constructor; simpl; intros; auto|].
    destruct (c_queue (conns s (h_conn (handles s h)))) as [|[b src] rest] eqn:Eq; [constructor; simpl; intros; auto|].
    destruct (buflen <? N.of_nat (String.length b))%N; constructor; simpl; intros; auto; upd_cases; simpl; auto.
Qed.

(* ------------------------------------------------------------------------------------------ *)
(* C12_identity_order: per connection, what is taken out of the queue (by Read, or flushed by   *)
(* a close) is exactly what was routed to it, in arrival order, bytes and source unchanged      *)
(* ------------------------------------------------------------------------------------------ *)
Definition dlv (s : state) (o : op) (c : nat) : list (string * addr) :=
  match o with
  | OInbound src k b => if recipient s src k c then [(b, src)] else []
  | _ => []
  end.

Definition tkn (cf : cfg) (s : state) (o : op) (c : nat) : list (string * addr) :=
  match o with
  | ORead h _ =>
    if Nat.ltb h (nhandles s) && negb (h_closed (handles s h)) && Nat.eqb (h_conn (handles s h)) c
    then firstn 1 (c_queue (conns s c)) else []
  | _ => if negb (c_closed (conns s c)) && c_closed (conns (fst (step cf s o)) c) then c_queue (conns s c) else []
  end.

Lemma cq_same (q q' : list (string * addr)) (cl cl' : bool) :
  cl' = cl -> q' = q -> q ++ [] = (if negb cl && cl' then q else []) ++ q'.
Proof. intros -> ->. rewrite app_nil_r. destruct cl; reflexivity. Qed.

Lemma cq_shrink (q q' : list (string * addr)) (cl cl' : bool) :
  q' = (if negb cl && cl' then [] else q) -> q ++ [] = (if negb cl && cl' then q else []) ++ q'.
Proof. intros ->. rewrite app_nil_r. destruct (negb cl && cl'); simpl; rewrite ?app_nil_r; reflexivity. Qed.

Lemma step_queue cf s o c :
  Inv s -> c_queue (conns s c) ++ dlv s o c = tkn cf s o c ++ c_queue (conns (fst (step cf s o)) c).
Proof.
  intros [I R]. destruct o; unfold dlv, tkn.
  - (* GetConn *)
    simpl. unfold do_getconn.
    destruct (negb (unspec cf) && negb addr_ok); [apply cq_same; auto|].
    destruct (mclosed s) eqn:Em; [apply cq_same; auto|].
    destruct (mfam s is6 u) as [d|] eqn:Ef; simpl.
    + apply cq_same; upd_cases; simpl; auto.
    + destruct (Nat.eq_dec c (nconns s)).
      * subst c. rewrite updn_same. simpl. rewrite (inv_fresh s I (nconns s)) by lia. reflexivity.
      * rewrite updn_other by auto. apply cq_same; auto.
  - (* WriteTo *)
    simpl. unfold do_write. destruct (Nat.ltb h (nhandles s)); simpl; [|apply cq_same; auto].
    destruct (h_closed (handles s h)); [apply cq_same; auto|].
    destruct (c_closed (conns s (h_conn (handles s h)))); [apply cq_same; auto|].
    destruct d; try (apply cq_same; auto; fail). simpl.
    destruct (mem_addr (canon a) (c_addrs (conns s (h_conn (handles s h))))); [apply cq_same; auto|].
    destruct (register_conn s (h_conn (handles s h)) (canon a) c) as (_ & Q & C & _). apply cq_same; auto.
  - (* inbound *)
    destruct (routing_thm cf s src k b) as (Q & F & _). rewrite (Q c). destruct (F c) as (_ & _ & C & _).
    rewrite C. destruct (c_closed (conns s c)); reflexivity.
  - (* read error *)
    simpl. unfold do_inerr. destruct (mclosed s) eqn:Em; [apply cq_same; auto|].
    destruct fatal; [|apply cq_same; auto].
    destruct (closemux_spec s I) as (_ & _ & X). destruct (X Em) as (_ & _ & _ & _ & _ & _ & _ & H).
    apply cq_shrink. apply (H c).
  - (* RemoveConnByUfrag *)
    simpl. destruct (do_remove_spec cf s u I) as (_ & S & _). apply cq_shrink. apply (sh_conn _ _ S c).
  - (* handle Close *)
    change (fst (step cf s (OCloseH h))) with (fst (do_closeh cf s h)).
    rewrite do_closeh_eq. destruct (Nat.ltb_spec h (nhandles s)); simpl; [|apply cq_same; auto].
    destruct (h_closed (handles s h)) eqn:Eh; [apply cq_same; auto|].
    destruct (closeh_mid_conn s h c) as (_ & _ & Qm & Cm).
    destruct ((c_refs (conns s (h_conn (handles s h))) - 1 <=? 0)%Z).
    + destruct (inv_closeh_mid s h (conj I R) H) as [I1 R1].
      assert (Hc : h_conn (handles s h) < nconns (closeh_mid s h)) by (simpl; apply (inv_hconn s I h H)).
      destruct (conn_close_spec cf (closeh_mid s h) (h_conn (handles s h)) I1 R1 Hc) as (_ & _ & S).
      apply cq_shrink. destruct (sh_conn _ _ S c) as (_ & _ & _ & _ & Q). rewrite Q, Qm, Cm. reflexivity.
    + apply cq_same; auto.
  - (* mux Close *)
    simpl. destruct (mclosed s) eqn:Em.
    + unfold do_closemux. rewrite Em. apply cq_same; auto.
    + destruct (closemux_spec s I) as (_ & _ & X). destruct (X Em) as (_ & _ & _ & _ & _ & _ & _ & H).
      apply cq_shrink. apply (H c).
  - (* Read *)
    simpl. unfold do_read. destruct (Nat.ltb h (nhandles s)); simpl; [|rewrite app_nil_r; reflexivity].
    destruct (h_closed (handles s h)); simpl; [rewrite app_nil_r; reflexivity|].
    destruct (Nat.eqb_spec (h_conn (handles s h)) c).
    + subst c. destruct (c_queue (conns s (h_conn (handles s h)))) as [|[b src] rest] eqn:Eq; simpl.
      * rewrite Eq. reflexivity.
      * destruct (buflen <? N.of_nat (String.length b))%N; simpl; rewrite updn_same; simpl; rewrite app_nil_r; reflexivity.
    + destruct (c_queue (conns s (h_conn (handles s h)))) as [|[b src] rest] eqn:Eq; simpl.
      * rewrite app_nil_r. reflexivity.
      * destruct (buflen <? N.of_nat (String.length b))%N; simpl; rewrite updn_other by auto; rewrite app_nil_r; reflexivity.
Qed.

Fixpoint delivered (cf : cfg) (s : state) (ops : list op) (c : nat) : list (string * addr) :=
  match ops with
  | [] => []
  | o :: r => dlv s o c ++ delivered cf (fst (step cf s o)) r c
  end.

Fixpoint taken (cf : cfg) (s : state) (ops : list op) (c : nat) : list (string * addr) :=
  match ops with
  | [] => []
  | o :: r => tkn cf s o c ++ taken cf (fst (step cf s o)) r c
  end.

Lemma identity_order_from cf ops : forall s c,
  Inv s ->
  c_queue (conns s c) ++ delivered cf s ops c = taken cf s ops c ++ c_queue (conns (run_from cf s ops) c).
Proof.
  induction ops as [|o ops IH]; simpl; intros s c Hi.
  - rewrite app_nil_r. reflexivity.
  - rewrite app_assoc, (step_queue cf s o c Hi), <- !app_assoc. f_equal.
    apply IH. apply inv_step. exact Hi.
Qed.

Theorem identity_order_thm cf ops c :
  delivered cf init ops c = taken cf init ops c ++ c_queue (conns (run cf ops) c).
Proof. apply (identity_order_from cf ops init c inv_init). Qed.

(* what a Read returns is what it takes from the head of the queue *)
Lemma read_result cf s h bl :
  let c := h_conn (handles s h) in
  match snd (step cf s (ORead h bl)) with
  | RData b src => tkn cf s (ORead h bl) c = [(b, src)] /\ (N.of_nat (String.length b) <= bl)%N
  | RShort => exists b src, tkn cf s (ORead h bl) c = [(b, src)] /\ (bl < N.of_nat (String.length b))%N
  | RTimeout => tkn cf s (ORead h bl) c = [] /\ c_queue (conns s c) = [] /\ c_closed (conns s c) = false
  | REOF => tkn cf s (ORead h bl) c = [] /\ c_queue (conns s c) = [] /\ c_closed (conns s c) = true
  | _ => forall c', tkn cf s (ORead h bl) c' = []
  end.
Proof.
  simpl. unfold do_read. destruct (Nat.ltb h (nhandles s)); simpl; [|reflexivity].
  destruct (h_closed (handles s h)); simpl; [reflexivity|].
  rewrite Nat.eqb_refl.
  destruct (c_queue (conns s (h_conn (handles s h)))) as [|[b src] rest] eqn:Eq; simpl.
  - destruct (c_closed (conns s (h_conn (handles s h)))); simpl; auto.
  - destruct (N.ltb_spec bl (N.of_nat (String.length b))); simpl; eauto.
Qed.

(* ------------------------------------------------------------------------------------------ *)
(* C12_after_close / C12_after_remove                                                          *)
(* ------------------------------------------------------------------------------------------ *)
Definition unbound (s : state) (c : nat) : Prop := forall a, amap s a <> Some c.
Definition unreg (s : state) (c : nat) : Prop := forall u, ~ reg_under s u c.
(* a connection the mux no longer knows: no address binding, not registered under any ufrag *)
Definition Dead (s : state) (c : nat) : Prop := c < nconns s /\ unbound s c /\ unreg s c.

(* the operation is not a write (to a well-formed address) through a handle of c *)
Definition quiet_op (s : state) (o : op) (c : nat) : Prop :=
  match o with
  | OWrite h (WAddr _) _ => h < nhandles s -> h_conn (handles s h) <> c
  | _ => True
  end.

Fixpoint quiet (cf : cfg) (s : state) (ops : list op) (c : nat) : Prop :=
  match ops with
  | [] => True
  | o :: r => quiet_op s o c /\ quiet cf (fst (step cf s o)) r c
  end.

Lemma dead_step cf s o c :
  Inv s -> Dead s c -> c_closed (conns s c) = true \/ quiet_op s o c -> Dead (fst (step cf s o)) c.
Proof.
  intros Hi (Hc & Hb & Hr) Hq. pose proof (step_facts cf s o Hi) as F. split; [|split].
  - pose proof (sf_n _ _ _ F). lia.
  - intros a E. destruct (sf_amap _ _ _ F a c E) as [E' | (h & x & len & -> & (W1 & W2 & W3 & W4) & _ & _)].
    + apply (Hb a E').
    + destruct Hq as [Hq|Hq]; [congruence|]. simpl in Hq. apply (Hq W1 W3).
  - intros u E. destruct (sf_reg _ _ _ F u c E) as [E' | [E' _]].
    + apply (Hr u E').
    + lia.
Qed.

Lemma dead_not_recipient s src k c : Dead s c -> recipient s src k c = false.
Proof.
  intros (_ & Hb & Hr). destruct (recipient s src k c) eqn:E; auto. exfalso.
  apply recipient_true in E. destruct E as (_ & E & _). apply route_spec in E.
  destruct E as [E | [_ [un [_ E]]]].
  - apply (Hb _ E).
  - apply (Hr (ufrag_of un)). unfold reg_under, mfam in *. destruct (a_is6 (canon src)); auto.
Qed.

Lemma dead_dlv s o c : Dead s c -> dlv s o c = [].
Proof. intros D. destruct o; simpl; auto. rewrite (dead_not_recipient s src k c D). reflexivity. Qed.

(* a dead connection that does not write stays dead and is handed nothing *)
Lemma dead_quiet_run cf ops : forall s c,
  Inv s -> Dead s c -> quiet cf s ops c ->
  Dead (run_from cf s ops) c /\ delivered cf s ops c = [].
Proof.
  induction ops as [|o ops IH]; simpl; intros s c Hi D Q; auto.
  destruct Q as [Q1 Q2]. rewrite (dead_dlv s o c D). simpl.
  apply IH; auto. apply inv_step; auto. apply dead_step; auto.
Qed.

(* a dead CLOSED connection stays dead, closed and empty whatever happens *)
Lemma dead_closed_run cf ops : forall s c,
  Inv s -> Dead s c -> c_closed (conns s c) = true ->
  Dead (run_from cf s ops) c /\ delivered cf s ops c = [] /\
  c_closed (conns (run_from cf s ops) c) = true /\ c_queue (conns (run_from cf s ops) c) = [].
Proof.
  induction ops as [|o ops IH]; simpl; intros s c Hi D C.
  - split; auto. split; auto. split; auto. apply (inv_closedq s (proj1 Hi) c C).
  - rewrite (dead_dlv s o c D). simpl. apply IH.
    + apply inv_step; auto.
    + apply dead_step; auto.
    + apply (sf_closed _ _ _ (step_facts cf s o Hi) c (proj1 D) C).
Qed.

(* RemoveConnByUfrag: what it removes is dead right afterwards (both semantics), and closed
   under the repaired semantics *)
Lemma remove_makes_dead cf s u c :
  Inv s -> reg_under s u c ->
  Dead (do_remove cf s u) c /\ (remove_closes cf = true -> c_closed (conns (do_remove cf s u) c) = true).
Proof.
  intros [I R] H. destruct (do_remove_spec cf s u I) as (_ & S & HR & HA & HC).
  assert (Hin : inl c (removed_by s u) = true) by (apply inl_In, removed_by_In; auto).
  split; [split; [|split]|].
  - rewrite (sh_n _ _ S). apply (inv_key s I u c H).
  - intros a E. rewrite HA in E. destruct (amap s a) as [x|] eqn:Ea; [|discriminate].
    destruct (inl x (removed_by s u)) eqn:Ex; [discriminate|]. inversion E; subst. congruence.
  - intros u' E. apply HR in E. destruct E as [Hne E].
    destruct (inv_key s I u' c E) as [_ K1]. destruct (inv_key s I u c H) as [_ K2]. congruence.
  - intros Hrc. rewrite HC, Hrc, Hin. simpl. apply orb_true_r.
Qed.

(* the invariant that only the repaired semantics has *)
Record InvFix (s : state) : Prop := {
  fix_open_reg : forall c, c < nconns s -> c_closed (conns s c) = false -> is_reg s c;
  fix_bind_open : mclosed s = false -> forall a c, amap s a = Some c -> c_closed (conns s c) = false }.

Lemma invfix_init : InvFix init.
Proof. constructor; simpl; intros; try lia; discriminate. Qed.

Lemma conn_close_exact cf s c :
  InvCore s -> c < nconns s -> c_closed (conns s c) = false ->
  let m := mark_closed s c in
  let key := c_key (conns s c) in
  let s' := conn_close cf s c in
  Shrink s s' /\
  (forall u i, reg_under s' u i <-> u <> key /\ reg_under s u i) /\
  (forall a, amap s' a = match amap s a with
                         | Some x => if inl x (removed_by s key) then None else Some x
                         | None => None
                         end) /\
  (forall i, c_closed (conns s' i) = Nat.eqb i c || c_closed (conns s i) || (remove_closes cf && inl i (removed_by s key))).
Proof.
  intros I Hc Ec. cbv zeta. unfold conn_close. rewrite Ec.
  assert (Im : InvCore (mark_closed s c)) by (apply core_mark_closed; auto).
  destruct (mark_closed_frame s c) as (_ & _ & _ & F4 & F5 & _ & F7 & _).
  destruct (do_remove_spec cf (mark_closed s c) (c_key (conns s c)) Im) as (_ & S & HR & HA & HC).
  assert (Hrm : removed_by (mark_closed s c) (c_key (conns s c)) = removed_by s (c_key (conns s c))).
  { unfold removed_by. rewrite F4, F5. reflexivity. }
  split; [eapply shrink_trans; [apply shrink_mark_closed | exact S]|]. split; [|split].
  - intros u i. rewrite HR. unfold reg_under. rewrite F4, F5. tauto.
  - intros a. rewrite HA, F7, Hrm. reflexivity.
  - intros i. rewrite HC, mark_closed_closed, Hrm. destruct (Nat.eqb i c); reflexivity.
Qed.

Lemma invfix_step cf s o :
  remove_closes cf = true -> Inv s -> InvFix s -> InvFix (fst (step cf s o)).
Proof.
  intros Hrc [I R] Fs. pose proof (fix_open_reg s Fs) as FO. pose proof (fix_bind_open s Fs) as FB.
  destruct o; simpl.
  - (* GetConn *)
    unfold do_getconn.
    destruct (negb (unspec cf) && negb addr_ok); [exact Fs|].
    destruct (mclosed s) eqn:Em; [exact Fs|].
    destruct (mfam s is6 u) as [c|] eqn:Ef; constructor; unfold is_reg, reg_under in *; simpl; intros.
    + specialize (FO c0 H). upd_cases; simpl in *; auto.
    + specialize (FB eq_refl a c0 H0). upd_cases; simpl; auto.
    + destruct (Nat.eq_dec c (nconns s)).
      * subst c. rewrite updn_same. simpl. destruct is6; rewrite upds_same; auto.
      * rewrite updn_other in * by auto. assert (Hc : c < nconns s) by lia. specialize (FO c Hc H0).
        destruct is6; upd_cases; auto; destruct FO as [X|X]; auto;
          unfold mfam in Ef; congruence.
    + destruct (inv_bind s I a c H0) as [Hc _]. rewrite updn_other by lia. apply (FB eq_refl a c H0).
  - (* WriteTo *)
    unfold do_write. destruct (Nat.ltb_spec h (nhandles s)); simpl; [|exact Fs].
    destruct (h_closed (handles s h)) eqn:Eh; [exact Fs|].
    destruct (c_closed (conns s (h_conn (handles s h)))) eqn:Ec; [exact Fs|].
    destruct d; try (exact Fs). simpl.
    destruct (mem_addr (canon a) (c_addrs (conns s (h_conn (handles s h))))) eqn:Em; [exact Fs|].
    destruct (register_frame s (h_conn (handles s h)) (canon a)) as (F1 & F2 & F3 & F4 & F5 & F6 & F7).
    constructor; unfold is_reg, reg_under; intros; rewrite ?F1, ?F4, ?F5, ?F7 in *;
      destruct (register_conn s (h_conn (handles s h)) (canon a) c) as (K & _ & C & _); rewrite ?K, ?C in *.
    + apply (FO c H0 H1).
    + rewrite register_amap, H0 in H1. destruct (addr_eqb a0 (canon a)).
      * inversion H1; subst. exact Ec.
      * apply (FB H0 a0 c H1).
  - (* inbound *)
    destruct (routing_thm cf s src k b) as (_ & F & _ & _ & F1 & _ & _ & F4 & F5 & F7 & F9). simpl in *.
    constructor; unfold is_reg, reg_under.
    + intros c Hc Hcl. destruct (F c) as (K & _ & C & _). rewrite K, F4, F5. rewrite C in Hcl. rewrite F1 in Hc.
      apply (FO c Hc Hcl).
    + intros Hm a c Ha. destruct (F c) as (_ & _ & C & _). rewrite C. rewrite F9 in Hm. rewrite F7 in Ha.
      apply (FB Hm a c Ha).
  - (* read error *)
    unfold do_inerr. destruct (mclosed s) eqn:Em; [exact Fs|].
    destruct fatal; [|exact Fs].
    destruct (closemux_spec s I) as (_ & _ & X). destruct (X Em) as (A & B & C & D & E & F & G & H).
    constructor; intros.
    + exfalso. rewrite B in H0. rewrite G in H1. apply orb_false_iff in H1. destruct H1 as [H1 H2].
      specialize (FO c H0 H1). assert (Y : In c (registered s)) by (eapply In_registered; eauto).
      apply inl_In in Y. congruence.
    + congruence.
  - (* RemoveConnByUfrag *)
    destruct (do_remove_spec cf s u I) as (_ & S & HR & HA & HC).
    constructor; unfold is_reg; intros.
    + rewrite (sh_n _ _ S) in H. rewrite HC, Hrc in H0. apply orb_false_iff in H0. destruct H0 as [H0 H1]. rewrite andb_true_l in H1.
      destruct (sh_conn _ _ S c) as (K & _). rewrite K. apply HR. split; [|apply (FO c H H0)].
      intros E. assert (Y : inl c (removed_by s u) = true).
      { apply inl_In, removed_by_In. rewrite <- E. apply (FO c H H0). }
      congruence.
    + rewrite (sh_mc _ _ S) in H. rewrite HA in H0. destruct (amap s a) as [x|] eqn:Ea; [|discriminate].
      destruct (inl x (removed_by s u)) eqn:Ex; [discriminate|]. inversion H0; subst.
      rewrite HC, Ex, (FB H a c Ea). rewrite andb_false_r. reflexivity.
  - (* handle Close *)
    rewrite do_closeh_eq. destruct (Nat.ltb_spec h (nhandles s)); simpl; [|exact Fs].
    destruct (h_closed (handles s h)) eqn:Eh; [exact Fs|].
    set (c0 := h_conn (handles s h)).
    assert (Hc0 : c0 < nconns s) by (apply (inv_hconn s I h H)).
    assert (Fmid : InvFix (closeh_mid s h)).
    { constructor; unfold is_reg, reg_under.
      - intros c Hc Hcl. destruct (closeh_mid_conn s h c) as (K & _ & _ & C). rewrite C in Hcl. rewrite K.
        apply (FO c Hc Hcl).
      - intros Hm a c Ha. destruct (closeh_mid_conn s h c) as (_ & _ & _ & C). rewrite C. apply (FB Hm a c Ha). }
    destruct ((c_refs (conns s c0) - 1 <=? 0)%Z); auto.
    destruct (inv_closeh_mid s h (conj I R) H) as [I1 R1]. destruct Fmid as [FO1 FB1].
    set (m := closeh_mid s h) in *.
    assert (Hc1 : c0 < nconns m) by (simpl; auto).
    destruct (c_closed (conns m c0)) eqn:Ec.
    + unfold conn_close. rewrite Ec. constructor; auto.
    + destruct (conn_close_exact cf m c0 I1 Hc1 Ec) as (S & HR & HA & HC).
      pose proof (FO1 c0 Hc1 Ec) as Hreg0.
      constructor; unfold is_reg; intros.
      * rewrite (sh_n _ _ S) in H0. rewrite HC, Hrc in H1. apply orb_false_iff in H1. destruct H1 as [H1 H2].
        apply orb_false_iff in H1. destruct H1 as [H1 H3]. rewrite andb_true_l in H2.
        destruct (sh_conn _ _ S c) as (K & _). rewrite K. apply HR. split; [|apply (FO1 c H0 H3)].
        intros E. assert (Y : inl c (removed_by m (c_key (conns m c0))) = true).
        { apply inl_In, removed_by_In. rewrite <- E. apply (FO1 c H0 H3). }
        congruence.
      * rewrite (sh_mc _ _ S) in H0. rewrite HA in H1. destruct (amap m a) as [x|] eqn:Ea; [|discriminate].
        destruct (inl x (removed_by m (c_key (conns m c0)))) eqn:Ex; [discriminate|]. inversion H1; subst.
        rewrite HC, Ex, (FB1 H0 a c Ea). rewrite andb_false_r, !orb_false_r.
        apply Nat.eqb_neq. intros E. subst c.
        assert (Y : inl c0 (removed_by m (c_key (conns m c0))) = true) by (apply inl_In, removed_by_In; exact Hreg0).
        congruence.
  - (* mux Close *)
    destruct (mclosed s) eqn:Em.
    + unfold do_closemux. rewrite Em. exact Fs.
    + destruct (closemux_spec s I) as (_ & _ & X). destruct (X Em) as (A & B & C & D & E & F & G & H).
      constructor; intros.
      * exfalso. rewrite B in H0. rewrite G in H1. apply orb_false_iff in H1. destruct H1 as [H1 H2].
        specialize (FO c H0 H1). assert (Y : In c (registered s)) by (eapply In_registered; eauto).
        apply inl_In in Y. congruence.
      * congruence.
  - (* Read *)
    unfold do_read. destruct (Nat.ltb_spec h (nhandles s)); simpl; [|exact Fs].
    destruct (h_closed (handles s h)) eqn:Eh; [exact Fs|].
    destruct (c_queue (conns s (h_conn (handles s h)))) as [|[b src] rest] eqn:Eq; [exact Fs|].
    destruct (buflen <? N.of_nat (String.length b))%N; constructor; unfold is_reg, reg_under in *; simpl.
    all: try (intros c Hc Hcl; specialize (FO c Hc); upd_cases; simpl in *; auto; fail).
    all: intros Hm a c Ha; specialize (FB Hm a c Ha); upd_cases; simpl; auto.
Qed.

Lemma reach_invfix cf s : remove_closes cf = true -> reach cf s -> InvFix s.
Proof.
  intros Hrc. induction 1; [apply invfix_init|]. apply invfix_step; auto. apply reach_inv with cf. exact H.
Qed.

(* ---------- closed connections ---------- *)
Lemma closed_not_recipient s src k c : c_closed (conns s c) = true -> recipient s src k c = false.
Proof. intros H. unfold recipient. rewrite H. apply andb_false_r. Qed.

Lemma closed_run cf ops : forall s c,
  Inv s -> c < nconns s -> c_closed (conns s c) = true ->
  c_closed (conns (run_from cf s ops) c) = true /\ c_queue (conns (run_from cf s ops) c) = [] /\
  delivered cf s ops c = [] /\ c < nconns (run_from cf s ops).
Proof.
  induction ops as [|o ops IH]; simpl; intros s c Hi Hc C.
  - split; auto. split; auto. apply (inv_closedq s (proj1 Hi) c C).
  - assert (D : dlv s o c = []).
    { destruct o; simpl; auto. rewrite closed_not_recipient; auto. }
    rewrite D. simpl. pose proof (step_facts cf s o Hi) as F. apply IH.
    + apply inv_step; auto.
    + pose proof (sf_n _ _ _ F). lia.
    + apply (sf_closed _ _ _ F c Hc C).
Qed.

(* any semantics: a closed connection has an empty queue, gets nothing, is not registered, and
   this stays so *)
Theorem closed_forever_thm cf s c :
  reach cf s -> c < nconns s -> c_closed (conns s c) = true ->
  c_queue (conns s c) = [] /\ (forall src k, recipient s src k c = false) /\ unreg s c /\
  forall ops, c_closed (conns (run_from cf s ops) c) = true /\ c_queue (conns (run_from cf s ops) c) = [] /\
              delivered cf s ops c = [].
Proof.
  intros Hr Hc C. pose proof (reach_inv cf s Hr) as Hi. destruct Hi as [I R].
  split; [apply (inv_closedq s I c C)|]. split; [intros; apply closed_not_recipient; auto|]. split.
  - intros u H. rewrite (R u c H) in C. discriminate.
  - intros ops. destruct (closed_run cf ops s c (conj I R) Hc C) as (A & B & D & _). auto.
Qed.

(* repaired semantics: while the mux is open a closed connection owns no address, and every
   open connection is still registered *)
Theorem after_close_fixed_thm cf s c :
  remove_closes cf = true -> reach cf s -> c < nconns s -> c_closed (conns s c) = true ->
  (mclosed s = false -> unbound s c) /\
  forall ops, mclosed (run_from cf s ops) = false -> unbound (run_from cf s ops) c.
Proof.
  intros Hrc Hr Hc C.
  assert (G : forall s', reach cf s' -> c_closed (conns s' c) = true -> mclosed s' = false -> unbound s' c).
  { intros s' Hr' C' M a E. pose proof (reach_invfix cf s' Hrc Hr') as F.
    rewrite (fix_bind_open s' F M a c E) in C'. discriminate. }
  split; [apply G; auto|]. intros ops M. apply G; auto.
  - apply reach_run_from. exact Hr.
  - apply (closed_run cf ops s c (reach_inv cf s Hr) Hc C).
Qed.

(* any semantics: closing the last handle of a connection that is still registered closes it and
   leaves it dead (no address binding, unregistered) *)
Lemma closeh_registered_dead cf s h :
  Inv s -> h < nhandles s -> h_closed (handles s h) = false ->
  let c := h_conn (handles s h) in
  is_reg s c -> c_closed (conns s c) = false -> (c_refs (conns s c) - 1 <= 0)%Z ->
  let s' := fst (do_closeh cf s h) in
  Dead s' c /\ c_closed (conns s' c) = true.
Proof.
  intros Hi Hh Ho c Hreg Hop Hrefs. cbv zeta. rewrite do_closeh_eq.
  destruct (Nat.ltb_spec h (nhandles s)); [|lia]. simpl. rewrite Ho.
  apply Z.leb_le in Hrefs. fold c. rewrite Hrefs.
  destruct (inv_closeh_mid s h Hi Hh) as [I1 R1]. set (m := closeh_mid s h) in *.
  assert (Hc : c < nconns m) by (simpl; apply (inv_hconn s (proj1 Hi) h Hh)).
  destruct (closeh_mid_conn s h c) as (K & _ & _ & C).
  assert (Ec : c_closed (conns m c) = false) by (subst m; rewrite C; exact Hop).
  destruct (conn_close_exact cf m c I1 Hc Ec) as (S & HR & HA & HC).
  assert (Hregm : reg_under m (c_key (conns m c)) c).
  { unfold is_reg, reg_under in *. subst m. rewrite K. simpl. exact Hreg. }
  split; [split; [|split]|].
  - rewrite (sh_n _ _ S). exact Hc.
  - intros a E. rewrite HA in E. destruct (amap m a) as [x|] eqn:Ea; [|discriminate].
    destruct (inl x (removed_by m (c_key (conns m c)))) eqn:Ex; [discriminate|]. inversion E; subst.
    assert (Y : inl c (removed_by m (c_key (conns m c))) = true) by (apply inl_In, removed_by_In; exact Hregm).
    congruence.
  - intros u E. apply HR in E. destruct E as [Hne E]. apply Hne. symmetry. apply (inv_key m I1 u c E).
  - rewrite HC, Nat.eqb_refl. reflexivity.
Qed.

Theorem after_close_partial_thm cf s h ops :
  reach cf s -> h < nhandles s -> h_closed (handles s h) = false ->
  let c := h_conn (handles s h) in
  is_reg s c -> c_closed (conns s c) = false -> (c_refs (conns s c) - 1 <= 0)%Z ->
  let s' := run_from cf (fst (step cf s (OCloseH h))) ops in
  Dead s' c /\ c_closed (conns s' c) = true /\ c_queue (conns s' c) = [] /\
  delivered cf (fst (step cf s (OCloseH h))) ops c = [].
Proof.
  intros Hr Hh Ho c Hreg Hop Hrefs. cbv zeta. pose proof (reach_inv cf s Hr) as Hi.
  destruct (closeh_registered_dead cf s h Hi Hh Ho Hreg Hop Hrefs) as [D C].
  change (fst (step cf s (OCloseH h))) with (fst (do_closeh cf s h)).
  assert (Hi' : Inv (fst (do_closeh cf s h))) by (apply inv_closeh; auto).
  destruct (dead_closed_run cf ops _ c Hi' D C) as (A & B & E & F). auto.
Qed.

(* ---------- RemoveConnByUfrag ---------- *)
(* repaired semantics: after the removal the connection is closed, empty, unbound, unregistered,
   gets nothing - whatever is done afterwards, writes through its handles included *)
Theorem after_remove_fixed_thm cf s u c ops :
  remove_closes cf = true -> reach cf s -> reg_under s u c ->
  let s1 := fst (step cf s (ORemove u)) in
  let s' := run_from cf s1 ops in
  Dead s' c /\ c_closed (conns s' c) = true /\ c_queue (conns s' c) = [] /\ delivered cf s1 ops c = [] /\
  (forall src k, recipient s' src k c = false).
Proof.
  intros Hrc Hr H. cbv zeta. simpl. pose proof (reach_inv cf s Hr) as Hi.
  destruct (remove_makes_dead cf s u c Hi H) as [D C]. specialize (C Hrc).
  assert (Hi' : Inv (do_remove cf s u)) by (apply inv_remove; auto).
  destruct (dead_closed_run cf ops _ c Hi' D C) as (A & B & E & F).
  split; auto. split; auto. split; auto. split; auto. intros. apply closed_not_recipient. exact E.
Qed.

(* either semantics (in particular the pinned code): the same, UNTIL the removed connection
   writes again; what it still holds in its queue from before the removal can only shrink *)
Theorem after_remove_partial_thm cf s u c ops :
  reach cf s -> reg_under s u c ->
  let s1 := fst (step cf s (ORemove u)) in
  quiet cf s1 ops c ->
  let s' := run_from cf s1 ops in
  Dead s' c /\ delivered cf s1 ops c = [] /\ (forall src k, recipient s' src k c = false) /\
  c_queue (conns s1 c) = taken cf s1 ops c ++ c_queue (conns s' c).
Proof.
  intros Hr H. cbv zeta. simpl. intros Q. pose proof (reach_inv cf s Hr) as Hi.
  destruct (remove_makes_dead cf s u c Hi H) as [D _].
  assert (Hi' : Inv (do_remove cf s u)) by (apply inv_remove; auto).
  destruct (dead_quiet_run cf ops _ c Hi' D Q) as (A & B).
  split; auto. split; auto. split; [intros; apply dead_not_recipient; auto|].
  pose proof (identity_order_from cf ops _ c Hi') as E. rewrite B, app_nil_r in E. exact E.
Qed.

(* ---------- who owns an address: the last writer, until it is unregistered ---------- *)
Theorem write_binds_thm cf s h x len c :
  reach cf s -> writer_ok s h c -> mclosed s = false -> is_reg s c ->
  amap (fst (step cf s (OWrite h (WAddr x) len))) (canon x) = Some c /\
  snd (step cf s (OWrite h (WAddr x) len)) = RWrote len.
Proof.
  intros Hr (W1 & W2 & W3 & W4) M Hreg. pose proof (reach_inv cf s Hr) as [I R]. simpl. unfold do_write.
  destruct (Nat.ltb_spec h (nhandles s)); [|lia]. simpl. rewrite W2, W3, W4, M. simpl. split; auto.
  destruct (mem_addr (canon x) (c_addrs (conns s c))) eqn:E.
  - apply mem_addr_In in E. apply (inv_own s I _ c (canon x) Hreg E).
  - rewrite register_amap, M, addr_eqb_refl. reflexivity.
Qed.

Theorem binding_origin_thm cf s o a c :
  reach cf s -> amap (fst (step cf s o)) a = Some c ->
  amap s a = Some c \/
  (exists h x len, o = OWrite h (WAddr x) len /\ writer_ok s h c /\ a = canon x /\ mclosed s = false).
Proof. intros Hr. apply (sf_amap _ _ _ (step_facts cf s o (reach_inv cf s Hr))). Qed.

Lemma canon_zone_thm ip z1 z2 port :
  mapped_prefix ip = false ->
  (ll6 ip = false -> canon (mkAddr true ip z1 port) = canon (mkAddr true ip z2 port)) /\
  (ll6 ip = true -> z1 <> z2 -> canon (mkAddr true ip z1 port) <> canon (mkAddr true ip z2 port)).
Proof. intros Hm. split; [apply canon_zone_alias | apply canon_zone_linklocal]; auto. Qed.

(* ---------- exact effect of RemoveConnByUfrag / conn_close on the two ufrag maps ---------- *)
Lemma close_removed_maps st u c :
  c_key (conns st c) = u -> (forall c', ~ reg_under st u c') ->
  forall u', m4 (close_removed st c) u' = m4 st u' /\ m6 (close_removed st c) u' = m6 st u'.
Proof.
  intros Hk Hu u'. unfold close_removed. destruct (c_closed (conns st c)); auto.
  destruct (mark_closed_frame st c) as (_ & _ & _ & F4 & F5 & _).
  rewrite Hk. simpl. rewrite F4, F5. unfold upds. destruct (String.eqb_spec u' u); auto. subst u'.
  split.
  - destruct (m4 st u) as [c'|] eqn:E; auto. exfalso. apply (Hu c'). left. exact E.
  - destruct (m6 st u) as [c'|] eqn:E; auto. exfalso. apply (Hu c'). right. exact E.
Qed.

Lemma close_removed_fold_maps u l : forall st,
  InvCore st -> (forall c, In c l -> c < nconns st /\ c_key (conns st c) = u) -> (forall c', ~ reg_under st u c') ->
  forall u', m4 (fold_left close_removed l st) u' = m4 st u' /\ m6 (fold_left close_removed l st) u' = m6 st u'.
Proof.
  induction l as [|c l IH]; simpl; intros st I Hl Hu u'; auto.
  destruct (Hl c (or_introl eq_refl)) as [Hc Hk].
  destruct (close_removed_step st u c I Hc Hk Hu) as (I1 & S1 & R1 & A1 & C1).
  assert (Hl' : forall c0, In c0 l -> c0 < nconns (close_removed st c) /\ c_key (conns (close_removed st c) c0) = u).
  { intros c0 H0. destruct (Hl c0 (or_intror H0)) as [X Y]. rewrite (sh_n _ _ S1).
    destruct (sh_conn _ _ S1 c0) as (K & _). rewrite K. auto. }
  assert (Hu' : forall c', ~ reg_under (close_removed st c) u c').
  { intros c' H. apply R1 in H. apply (Hu c' H). }
  destruct (IH (close_removed st c) I1 Hl' Hu' u') as [A B].
  destruct (close_removed_maps st u c Hk Hu u') as [A' B']. split; congruence.
Qed.

Lemma do_remove_maps cf s u :
  InvCore s ->
  forall u', m4 (do_remove cf s u) u' = (if String.eqb u' u then None else m4 s u') /\
             m6 (do_remove cf s u) u' = (if String.eqb u' u then None else m6 s u').
Proof.
  intros I u'. rewrite do_remove_eq. destruct (remove_closes cf).
  - set (s1 := fst (remove_core s u)).
    assert (I1 : InvCore s1) by (apply core_remove; auto).
    assert (Hl : forall c, In c (removed_by s u) -> c < nconns s1 /\ c_key (conns s1 c) = u).
    { intros c H. apply removed_by_In in H. simpl. apply (inv_key s I u c H). }
    assert (Hu : forall c', ~ reg_under s1 u c').
    { intros c' H. apply reg_under_remove in H. destruct H as [H _]. apply H. reflexivity. }
    destruct (close_removed_fold_maps u (removed_by s u) s1 I1 Hl Hu u') as [A B].
    rewrite A, B. subst s1. simpl. unfold upds. split; reflexivity.
  - simpl. unfold upds. split; reflexivity.
Qed.

Lemma conn_close_maps cf s c :
  InvCore s -> c < nconns s -> c_closed (conns s c) = false ->
  forall u', m4 (conn_close cf s c) u' = (if String.eqb u' (c_key (conns s c)) then None else m4 s u') /\
             m6 (conn_close cf s c) u' = (if String.eqb u' (c_key (conns s c)) then None else m6 s u').
Proof.
  intros I Hc Ec u'. unfold conn_close. rewrite Ec.
  assert (Im : InvCore (mark_closed s c)) by (apply core_mark_closed; auto).
  destruct (mark_closed_frame s c) as (_ & _ & _ & F4 & F5 & _).
  destruct (do_remove_maps cf (mark_closed s c) (c_key (conns s c)) Im u') as [A B].
  rewrite A, B, F4, F5. auto.
Qed.
