(* C01, two-agent safety: without a bidirectionally reachable pair neither (full) agent ever
   validates a pair, selects one, or reports Connected -- for every schedule of ticks, API calls,
   deliveries, drops and duplications. *)
From Coq Require Import ZArith Bool List Lia.
From Ice Require Import Model.AgentTypes Model.AgentCore Model.PairMonitor Model.TwoAgents Gen.Consts Gen.Lifecycle
     Proofs.AgentFrame Proofs.AgentC02 Proofs.AgentC04.
Import ListNotations.
Local Open Scope Z_scope.

(* ---- single agent: no pair is valid, none selected ------------------------------------------------- *)
Definition QS (s : state) : Prop :=
  Forall (fun p => p_state p <> CandidatePairStateSucceeded) (s_checklist s) /\ s_selected s = None.

Definition qs_view (s : state) := (s_checklist s, s_selected s).
Lemma QS_view s s' : qs_view s' = qs_view s -> QS s -> QS s'.
Proof. unfold qs_view, QS. intros E. injection E as E1 E2. rewrite E1, E2. auto. Qed.

Lemma QS_init lu lp : QS (init lu lp).
Proof. split; [constructor|reflexivity]. Qed.

Lemma QS_upd id f s :
  (forall q, p_state q <> CandidatePairStateSucceeded -> p_state (f q) <> CandidatePairStateSucceeded) ->
  QS s -> QS (set_s_checklist (map (fun p => if p_id p =? id then f p else p) (s_checklist s)) s).
Proof.
  intros Hf [H1 H2]. split; [|exact H2]. cbn. rewrite Forall_forall in *. intros p Hp.
  apply in_map_iff in Hp. destruct Hp as [q [Hq Hin]]. specialize (H1 q Hin).
  destruct (p_id q =? id); subst p; [apply Hf; exact H1|exact H1].
Qed.

Lemma QS_add_pair l r s : QS s -> QS (fst (add_pair l r s)).
Proof.
  intros [H1 H2]. split; [|exact H2]. cbn. apply Forall_app. split; [exact H1|].
  constructor; [cbn; discriminate|constructor].
Qed.

Lemma QS_update_conn st s : QS s -> QS (fst (update_conn st s)).
Proof.
  intros H. unfold update_conn. destruct (s_conn s =? st); [exact H|].
  destruct (st =? ConnectionStateFailed); cbn; [split; [constructor|reflexivity]|exact H].
Qed.

Lemma QS_reselect pid : satG QS mp_true (reselect pid).
Proof.
  intros s H. split; [exact I|]. unfold reselect, with_state. destruct H as [H1 H2]. rewrite H2. split; assumption.
Qed.

Ltac qs_modify :=
  satG_base ltac:(split; [exact I|];
    first [ eapply QS_view; [|eassumption]; cbn; destruct_matches; reflexivity
          | cbn; destruct_matches; (assumption || (split; [constructor|reflexivity])) ]).

Ltac qs_upd :=
  apply satG_upd_pair; intros ?s ?Hg; split; [exact I|]; apply QS_upd; [|assumption];
  cbn; intros; (assumption || discriminate).

(* a pair found in a state where no pair is valid is not valid *)
Lemma QS_pair_by_id id s p : QS s -> pair_by_id id s = Some p -> (p_state p =? CandidatePairStateSucceeded) = false.
Proof.
  intros [H _] Hp. unfold pair_by_id in Hp. apply find_some in Hp. destruct Hp as [Hin _].
  rewrite Forall_forall in H. apply Z.eqb_neq. exact (H p Hin).
Qed.

Ltac inj_pairs :=
  repeat match goal with
  | H : (_, _) = (_, _) |- _ => injection H as ? ?
  end; subst.

(* a leaf that selects a pair cannot be reached: the guarding test read a pair of a QS state *)
Ltac qs_dead_select :=
  exfalso; inj_pairs;
  match goal with
  | Hp : pair_by_id ?id ?s = Some ?p, Hg : QS ?s, E : (p_state ?p =? CandidatePairStateSucceeded) = true |- _ =>
    rewrite (QS_pair_by_id id s p Hg Hp) in E; discriminate E
  end.

Ltac qs_leaf :=
  first
  [ apply QS_reselect
  | match goal with |- satG _ _ (update_conn _) => intros ?s ?Hg; split; [exact I|apply QS_update_conn; assumption] end
  | match goal with |- satG _ _ (modify (fun s => set_s_next_pair _ (set_s_checklist (s_checklist s ++ _) s))) =>
      apply satG_modify; intros ?s ?Hg; split; [exact I|]; apply (QS_add_pair _ _ _ Hg) end
  | exfalso; match goal with H : In _ _ |- _ => cbn in H; exact H end
  | qs_upd
  | qs_modify
  | satG_base ltac:(exact I)
  | match goal with |- satG _ _ (set_selected _) => qs_dead_select end ].

Ltac full_cfg cfg Hl :=
  destruct cfg as [lite tb mr dt de ft ka wh ws wp wr bl rn cp eps]; cbn [cf_lite] in Hl; subst lite.

Lemma QS_handle_inbound cfg l src m :
  cf_lite cfg = false -> m_class m <> 2 -> satG QS mp_true (handle_inbound cfg l src m).
Proof.
  intros Hl Hc. full_cfg cfg Hl. apply Z.eqb_neq in Hc.
  unfold handle_inbound. rewrite Hc.
  autounfold with agentcore_sel. cbn [cf_lite negb andb]. satG_split_eq.
  all: try qs_leaf.
Qed.

Ltac qs_upd_repl :=
  apply satG_upd_pair; intros ?s ?Hg; split; [exact I|]; apply QS_upd; [|assumption];
  intros ?q _; cbn;
  match goal with
  | Hin : In ?a (filter _ (s_checklist ?s0)), Hg0 : QS ?s0 |- _ =>
    apply filter_In in Hin; destruct Hin as [Hin _]; destruct Hg0 as [Hall _];
    rewrite Forall_forall in Hall; exact (Hall a Hin)
  end.

Ltac qs_upd2 :=
  apply satG_upd_pair; intros ?s ?Hg; split; [exact I|]; apply QS_upd; [|assumption];
  cbn; intros; first [assumption | (let HH := fresh in intro HH; vm_compute in HH; discriminate HH)].

Ltac qs_leaf2 := first [qs_leaf | qs_upd_repl | qs_upd2].

(* every non-inbound operation of a full agent keeps "no valid pair, nothing selected" *)
Lemma QS_api cfg o :
  cf_lite cfg = false -> is_inbound o = false -> satG QS mp_true (step_m cfg o).
Proof.
  intros Hl Hi. full_cfg cfg Hl. destruct o; try discriminate Hi; cbn [step_m];
    autounfold with agentcore_sel; cbn [cf_lite negb andb]; satG_split_eq; try qs_leaf2.
Qed.

(* ---- single agent: where success responses come from ------------------------------------------------ *)
Definition no_response (o : out) : Prop :=
  match o with OSend _ _ r => m_class r <> 2 | _ => True end.

Definition response_to (lh : Z) (src : addr) (o : out) : Prop :=
  match o with OSend h dst r => m_class r = 2 -> h = lh /\ addr_eqb dst src = true | _ => True end.

Lemma addr_eqb_refl a : addr_eqb a a = true.
Proof. unfold addr_eqb. rewrite Bool.eqb_reflx, !Z.eqb_refl. reflexivity. Qed.

Lemma find_remote_addr net src s c : find_remote net src s = Some c -> addr_eqb (c_addr c) src = true.
Proof.
  unfold find_remote. intros H. apply find_some in H. destruct H as [_ H].
  apply andb_prop in H. destruct H as [_ H]. exact H.
Qed.

Lemma update_conn_outs_all (Q : out -> Prop) st : Q (OState st) -> sat (outs_all Q) (update_conn st).
Proof.
  intros H s. cbn. unfold update_conn. destruct (s_conn s =? st); cbn; [constructor|]. constructor; [exact H|constructor].
Qed.

(* API operations and ticks never emit a success response *)
Lemma api_emits_no_response cfg o : is_inbound o = false -> sat (outs_all no_response) (step_m cfg o).
Proof.
  intros Hi. destruct o; try discriminate Hi; cbn [step_m]; sat_decompose;
    try (apply update_conn_outs_all; exact I);
    try (sat_base ltac:(cbn; destruct_matches; repeat constructor; cbn; discriminate)).
Qed.

(* handling an inbound datagram on local candidate l from src: a success response goes out on that
   same socket, to that same source address *)
Lemma inbound_response_goes_back cfg l src m :
  sat (outs_all (response_to (c_h l) src)) (handle_inbound cfg l src m).
Proof.
  autounfold with agentcore. sat_split_eq.
  all: try (apply update_conn_outs_all; exact I).
  all: try (sat_base ltac:(cbn; destruct_matches; repeat constructor; cbn; intros; try discriminate)).
  all: try (sat_base ltac:(cbn; constructor; [|constructor]; cbn; intros _; split; [reflexivity|];
              first [ apply addr_eqb_refl
                    | inj_pairs; match goal with H : find_remote _ _ _ = Some _ |- _ => exact (find_remote_addr _ _ _ _ H) end ])).
  all: try apply addr_eqb_refl.
  all: try (match goal with H : find_remote _ _ _ = Some ?c |- addr_eqb (c_addr ?c) _ = true => exact (find_remote_addr _ _ _ _ H) end).
Qed.

(* ---- the network ------------------------------------------------------------------------------------- *)
Definition dflt_ep := mkEndpoint 0 (mkAddr false 0 0).

(* handles and public addresses identify endpoints *)
Definition eps_wf (l : list endpoint) : Prop :=
  forall i, (i < length l)%nat ->
    index_of (ep_h (nth i l dflt_ep)) l 0 = Some i /\ index_of_pub (ep_pub (nth i l dflt_ep)) l 0 = Some i.
Definition topo_wf (t : topology) : Prop := eps_wf (t_a t) /\ eps_wf (t_b t).

Lemma index_of_bound h l k i : index_of h l k = Some i -> (k <= i < k + length l)%nat /\ ep_h (nth (i - k) l dflt_ep) = h.
Proof.
  revert k. induction l as [|e t IH]; cbn; intros k H; [discriminate|].
  destruct (Z.eqb_spec (ep_h e) h) as [E|NE].
  - injection H as <-. split; [lia|]. rewrite Nat.sub_diag. exact E.
  - destruct (IH _ H) as [H1 H2]. split; [lia|].
    replace (i - k)%nat with (S (i - S k)) by lia. exact H2.
Qed.

Lemma index_of_pub_bound a l k i :
  index_of_pub a l k = Some i -> (k <= i < k + length l)%nat /\ addr_eqb (ep_pub (nth (i - k) l dflt_ep)) a = true.
Proof.
  revert k. induction l as [|e t IH]; cbn; intros k H; [discriminate|].
  destruct (addr_eqb (ep_pub e) a) eqn:E.
  - injection H as <-. split; [lia|]. rewrite Nat.sub_diag. exact E.
  - destruct (IH _ H) as [H1 H2]. split; [lia|].
    replace (i - k)%nat with (S (i - S k)) by lia. exact H2.
Qed.

Lemma addr_eqb_eq a b : addr_eqb a b = true -> a = b.
Proof.
  unfold addr_eqb. destruct a, b. cbn. intros H.
  apply andb_prop in H. destruct H as [H H3]. apply andb_prop in H. destruct H as [H1 H2].
  apply Bool.eqb_prop in H1. apply Z.eqb_eq in H2, H3. subst. reflexivity.
Qed.

(* a flight was produced by routing: it sits on a link that is up in its direction *)
Definition routed (t : topology) (f : flight) : Prop :=
  if f_to_a f then
    exists i j, (i < length (t_b t))%nat /\ (j < length (t_a t))%nat /\
      f_lh f = ep_h (nth j (t_a t) dflt_ep) /\ f_src f = ep_pub (nth i (t_b t) dflt_ep) /\ snd (t_link t j i) = true
  else
    exists i j, (i < length (t_a t))%nat /\ (j < length (t_b t))%nat /\
      f_lh f = ep_h (nth j (t_b t) dflt_ep) /\ f_src f = ep_pub (nth i (t_a t) dflt_ep) /\ fst (t_link t i j) = true.

Lemma route_one_routed t from_a lh dst m f :
  In f (route_one t from_a lh dst m) -> routed t f /\ f_msg f = m /\ f_to_a f = negb from_a.
Proof.
  unfold route_one. destruct from_a.
  - destruct (index_of lh (t_a t) 0) as [i|] eqn:Ei; [|intros []].
    destruct (index_of_pub dst (t_b t) 0) as [j|] eqn:Ej; [|intros []].
    destruct (fst (t_link t i j)) eqn:Eu; [|intros []]. intros [<-|[]]. cbn.
    apply index_of_bound in Ei. apply index_of_pub_bound in Ej. rewrite Nat.sub_0_r in *.
    split; [|split; reflexivity]. unfold routed. cbn. exists i, j. repeat split; try lia; try reflexivity. exact Eu.
  - destruct (index_of lh (t_b t) 0) as [i|] eqn:Ei; [|intros []].
    destruct (index_of_pub dst (t_a t) 0) as [j|] eqn:Ej; [|intros []].
    destruct (snd (t_link t j i)) eqn:Eu; [|intros []]. intros [<-|[]]. cbn.
    apply index_of_bound in Ei. apply index_of_pub_bound in Ej. rewrite Nat.sub_0_r in *.
    split; [|split; reflexivity]. unfold routed. cbn. exists i, j. repeat split; try lia; try reflexivity. exact Eu.
Qed.

Lemma no_bidir_link t i j : topo_bidirectional t = false -> fst (t_link t i j) && snd (t_link t i j) = false.
Proof.
  unfold topo_bidirectional, t_link. intros H.
  destruct (Nat.lt_ge_cases i (length (t_links t))) as [Hi|Hi].
  - rewrite existsb_forall in H || idtac.
    assert (Hrow : existsb (fun l => fst l && snd l) (nth i (t_links t) []) = false).
    { destruct (existsb (fun l => fst l && snd l) (nth i (t_links t) [])) eqn:E; [|reflexivity].
      assert (existsb (fun row => existsb (fun l => fst l && snd l) row) (t_links t) = true).
      { apply existsb_exists. exists (nth i (t_links t) []). split; [apply nth_In; exact Hi|exact E]. }
      congruence. }
    destruct (Nat.lt_ge_cases j (length (nth i (t_links t) []))) as [Hj|Hj].
    + destruct (fst (nth j (nth i (t_links t) []) (false, false)) && snd (nth j (nth i (t_links t) []) (false, false))) eqn:E; [|reflexivity].
      assert (existsb (fun l => fst l && snd l) (nth i (t_links t) []) = true).
      { apply existsb_exists. exists (nth j (nth i (t_links t) []) (false, false)). split; [apply nth_In; exact Hj|exact E]. }
      congruence.
    + rewrite (nth_overflow _ _ Hj). reflexivity.
  - rewrite (nth_overflow (t_links t) [] Hi). destruct j; reflexivity.
Qed.

(* the response to a delivered datagram cannot be routed when no pair is reachable both ways *)
Lemma response_not_routed t f h dst r :
  topo_wf t -> topo_bidirectional t = false -> routed t f ->
  h = f_lh f -> addr_eqb dst (f_src f) = true ->
  route_one t (f_to_a f) h dst r = [].
Proof.
  intros [Wa Wb] Hnb Hr -> Hd. apply addr_eqb_eq in Hd. subst dst. unfold routed in Hr. unfold route_one.
  destruct (f_to_a f).
  - destruct Hr as [i [j [Hi [Hj [E1 [E2 Hup]]]]]]. rewrite E1, E2.
    destruct (Wa j Hj) as [-> _]. destruct (Wb i Hi) as [_ ->].
    pose proof (no_bidir_link t j i Hnb) as Hb. rewrite Hup, Bool.andb_true_r in Hb. rewrite Hb. reflexivity.
  - destruct Hr as [i [j [Hi [Hj [E1 [E2 Hup]]]]]]. rewrite E1, E2.
    destruct (Wb j Hj) as [-> _]. destruct (Wa i Hi) as [_ ->].
    pose proof (no_bidir_link t i j Hnb) as Hb. rewrite Hup in Hb. cbn in Hb. rewrite Hb. reflexivity.
Qed.

(* ---- the system invariant ---------------------------------------------------------------------------- *)
Definition InvSys (t : topology) (sy : sys) : Prop :=
  QS (sy_a sy) /\ QS (sy_b sy) /\
  Forall (fun f => routed t f /\ m_class (f_msg f) <> 2) (sy_net sy).

Lemma Forall_remove_nth {A} (P : A -> Prop) n l : Forall P l -> Forall P (remove_nth n l).
Proof.
  revert n. induction l as [|x t IH]; intros n H; destruct n; cbn; try constructor; inversion H; subst; auto.
Qed.

Lemma route_no_response t from_a outs :
  Forall no_response outs ->
  Forall (fun f => routed t f /\ m_class (f_msg f) <> 2) (route t from_a outs).
Proof.
  intros H. unfold route. rewrite Forall_forall. intros f Hf.
  apply in_flat_map in Hf. destruct Hf as [o [Ho Hf]].
  rewrite Forall_forall in H. specialize (H o Ho). destruct o; try contradiction.
  apply route_one_routed in Hf. destruct Hf as [Hr [Em _]]. split; [exact Hr|]. rewrite Em. exact H.
Qed.

Lemma route_responses_back t f outs :
  topo_wf t -> topo_bidirectional t = false -> routed t f ->
  Forall (response_to (f_lh f) (f_src f)) outs ->
  Forall (fun g => routed t g /\ m_class (f_msg g) <> 2) (route t (f_to_a f) outs).
Proof.
  intros Hw Hnb Hr H. unfold route. rewrite Forall_forall. intros g Hg.
  apply in_flat_map in Hg. destruct Hg as [o [Ho Hg]].
  rewrite Forall_forall in H. specialize (H o Ho). destruct o as [h a m|? ? ?|?|?|?|?|?|?]; try contradiction.
  cbn in H. destruct (Z.eq_dec (m_class m) 2) as [E|NE].
  - destruct (H E) as [E1 E2]. rewrite (response_not_routed t f h a m Hw Hnb Hr E1 E2) in Hg. contradiction.
  - apply route_one_routed in Hg. destruct Hg as [Hr' [Em _]]. split; [exact Hr'|]. rewrite Em. exact NE.
Qed.

Lemma find_local_h h s l : find_local h s = Some l -> c_h l = h.
Proof. unfold find_local. intros H. apply find_some in H. destruct H as [_ H]. apply Z.eqb_eq in H. exact H. Qed.

(* delivering a non-response datagram to a full agent *)
Lemma deliver_step cfg s lh src m :
  cf_lite cfg = false -> m_class m <> 2 -> QS s ->
  QS (fst (step cfg s (InStun lh src m))) /\ Forall (response_to lh src) (snd (step cfg s (InStun lh src m))).
Proof.
  intros Hl Hm HQ. unfold step. cbn [step_m]. unfold with_state.
  destruct (s_closed s); [split; [exact HQ|constructor]|].
  destruct (find_local lh s) as [l|] eqn:El; [|split; [exact HQ|constructor]].
  split.
  - exact (proj2 (QS_handle_inbound cfg l src m Hl Hm s HQ)).
  - pose proof (inbound_response_goes_back cfg l src m s) as H. cbn in H.
    rewrite (find_local_h _ _ _ El) in H. exact H.
Qed.

Lemma api_step cfg s o :
  cf_lite cfg = false -> is_inbound o = false -> QS s ->
  QS (fst (step cfg s o)) /\ Forall no_response (snd (step cfg s o)).
Proof.
  intros Hl Hi HQ. unfold step. split.
  - exact (proj2 (QS_api cfg o Hl Hi s HQ)).
  - exact (api_emits_no_response cfg o Hi s).
Qed.

Theorem sys_step_preserves_InvSys cfga cfgb t sy o :
  cf_lite cfga = false -> cf_lite cfgb = false -> topo_wf t -> topo_bidirectional t = false ->
  InvSys t sy -> InvSys t (sys_step cfga cfgb t sy o).
Proof.
  intros Hla Hlb Hw Hnb [Ha [Hb Hn]]. pose proof (conj Ha (conj Hb Hn) : InvSys t sy) as Hkeep.
  destruct o as [on_a o|n|n|n]; cbn [sys_step].
  - destruct (is_inbound o) eqn:Hi; [exact Hkeep|].
    unfold agent_step. destruct on_a.
    + destruct (api_step cfga (sy_a sy) o Hla Hi Ha) as [H1 H2].
      destruct (step cfga (sy_a sy) o) as [s' outs]. cbn [fst snd] in H1, H2.
      split; [exact H1|split; [exact Hb|]]. cbn [sy_net].
      apply Forall_app. split; [exact Hn|apply route_no_response; exact H2].
    + destruct (api_step cfgb (sy_b sy) o Hlb Hi Hb) as [H1 H2].
      destruct (step cfgb (sy_b sy) o) as [s' outs]. cbn [fst snd] in H1, H2.
      split; [exact Ha|split; [exact H1|]]. cbn [sy_net].
      apply Forall_app. split; [exact Hn|apply route_no_response; exact H2].
  - destruct (nth_error (sy_net sy) n) as [f|] eqn:En; [|exact Hkeep].
    pose proof (nth_error_In _ _ En) as Hin.
    assert (Hf : routed t f /\ m_class (f_msg f) <> 2) by (rewrite Forall_forall in Hn; exact (Hn f Hin)).
    destruct Hf as [Hr Hc].
    pose proof (Forall_remove_nth _ n _ Hn) as Hn'.
    unfold agent_step. destruct (f_to_a f) eqn:Eto; cbn [sy_a sy_b sy_net].
    + destruct (deliver_step cfga (sy_a sy) (f_lh f) (f_src f) (f_msg f) Hla Hc Ha) as [H1 H2].
      destruct (step cfga (sy_a sy) _) as [s' outs]. cbn [fst snd] in H1, H2.
      split; [exact H1|split; [exact Hb|]]. cbn [sy_net].
      apply Forall_app. split; [exact Hn'|].
      pose proof (route_responses_back t f outs Hw Hnb Hr H2) as H3. rewrite Eto in H3. exact H3.
    + destruct (deliver_step cfgb (sy_b sy) (f_lh f) (f_src f) (f_msg f) Hlb Hc Hb) as [H1 H2].
      destruct (step cfgb (sy_b sy) _) as [s' outs]. cbn [fst snd] in H1, H2.
      split; [exact Ha|split; [exact H1|]]. cbn [sy_net].
      apply Forall_app. split; [exact Hn'|].
      pose proof (route_responses_back t f outs Hw Hnb Hr H2) as H3. rewrite Eto in H3. exact H3.
  - split; [exact Ha|split; [exact Hb|]]. cbn [sy_net]. apply Forall_remove_nth. exact Hn.
  - destruct (nth_error (sy_net sy) n) as [f|] eqn:En; [|exact Hkeep].
    split; [exact Ha|split; [exact Hb|]]. cbn [sy_net]. apply Forall_app. split; [exact Hn|].
    constructor; [|constructor]. rewrite Forall_forall in Hn. apply Hn. exact (nth_error_In _ _ En).
Qed.

Lemma InvSys_init t lua lpa lub lpb : InvSys t (sys_init lua lpa lub lpb).
Proof. unfold InvSys, sys_init. cbn. repeat split; try apply QS_init; constructor. Qed.

Theorem sys_run_InvSys cfga cfgb t ops sy :
  cf_lite cfga = false -> cf_lite cfgb = false -> topo_wf t -> topo_bidirectional t = false ->
  InvSys t sy -> InvSys t (sys_run cfga cfgb t sy ops).
Proof.
  intros Hla Hlb Hw Hnb. revert sy. unfold sys_run. induction ops as [|o ops IH]; cbn [fold_left]; intros sy H; [exact H|].
  apply IH. apply sys_step_preserves_InvSys; assumption.
Qed.

(* the lifecycle side: each agent's InvSel is preserved by every system step *)
Definition SelSys (sy : sys) : Prop := InvSel (sy_a sy) /\ InvSel (sy_b sy).

Lemma sys_step_preserves_SelSys cfga cfgb t sy o : SelSys sy -> SelSys (sys_step cfga cfgb t sy o).
Proof.
  intros [Ha Hb]. unfold SelSys.
  assert (Hag : forall on_a op sy0, InvSel (sy_a sy0) -> InvSel (sy_b sy0) ->
             InvSel (sy_a (agent_step cfga cfgb t on_a op sy0)) /\ InvSel (sy_b (agent_step cfga cfgb t on_a op sy0))).
  { intros on_a op sy0 H1 H2. unfold agent_step. destruct on_a.
    - pose proof (step_preserves_InvSel cfga (sy_a sy0) op H1) as H. destruct (step cfga (sy_a sy0) op). cbn in *. auto.
    - pose proof (step_preserves_InvSel cfgb (sy_b sy0) op H2) as H. destruct (step cfgb (sy_b sy0) op). cbn in *. auto. }
  destruct o as [on_a o|n|n|n]; cbn [sys_step].
  - destruct (is_inbound o); [auto|apply Hag; assumption].
  - destruct (nth_error (sy_net sy) n); [|auto]. apply Hag; assumption.
  - cbn. auto.
  - destruct (nth_error (sy_net sy) n); cbn; auto.
Qed.

Lemma InvSel_init lu lp : InvSel (init lu lp).
Proof. unfold InvSel, init. cbn. intros _ [H|H]; discriminate H. Qed.

Lemma sys_run_SelSys cfga cfgb t ops sy : SelSys sy -> SelSys (sys_run cfga cfgb t sy ops).
Proof.
  revert sy. unfold sys_run. induction ops as [|o ops IH]; cbn [fold_left]; intros sy H; [exact H|].
  apply IH. apply sys_step_preserves_SelSys. exact H.
Qed.

(* C01, safety half: with no pair of endpoints reachable in both directions, after ANY schedule of
   API calls, ticks, deliveries, drops and duplications neither agent holds a Succeeded pair, neither
   has a selected pair, and neither is Connected (or Disconnected, which presupposes a selection) *)
Theorem never_connected_without_bidirectional_path cfga cfgb t lua lpa lub lpb ops :
  cf_lite cfga = false -> cf_lite cfgb = false -> topo_wf t -> topo_bidirectional t = false ->
  let sy := sys_run cfga cfgb t (sys_init lua lpa lub lpb) ops in
  (s_selected (sy_a sy) = None /\ s_selected (sy_b sy) = None) /\
  (Forall (fun p => p_state p <> CandidatePairStateSucceeded) (s_checklist (sy_a sy)) /\
   Forall (fun p => p_state p <> CandidatePairStateSucceeded) (s_checklist (sy_b sy))) /\
  (s_closed (sy_a sy) = false -> s_conn (sy_a sy) <> ConnectionStateConnected /\ s_conn (sy_a sy) <> ConnectionStateDisconnected) /\
  (s_closed (sy_b sy) = false -> s_conn (sy_b sy) <> ConnectionStateConnected /\ s_conn (sy_b sy) <> ConnectionStateDisconnected).
Proof.
  intros Hla Hlb Hw Hnb sy.
  pose proof (sys_run_InvSys cfga cfgb t ops _ Hla Hlb Hw Hnb (InvSys_init t lua lpa lub lpb)) as [[Qa Sa] [[Qb Sb] _]].
  pose proof (sys_run_SelSys cfga cfgb t ops (sys_init lua lpa lub lpb) (conj (InvSel_init lua lpa) (InvSel_init lub lpb))) as HS. fold sy in HS.
  destruct HS as [Ia Ib]. fold sy in Qa, Sa, Qb, Sb.
  repeat split; try assumption.
  - intros E. exact (Ia H (or_introl E) Sa).
  - intros E. exact (Ia H (or_intror E) Sa).
  - intros E. exact (Ib H (or_introl E) Sb).
  - intros E. exact (Ib H (or_intror E) Sb).
Qed.
