(* C11: the inductive invariant of the handlerNotifier interleaving model. *)
From Coq Require Import Arith Bool List Lia.
Import ListNotations.
From Ice Require Import Model.PrioSpec Model.Notifier.

Lemma epc_eqb_true : forall a b, epc_eqb a b = true -> a = b.
Proof. destruct a, b; simpl; congruence. Qed.
Lemma kpc_eqb_true : forall a b, kpc_eqb a b = true -> a = b.
Proof. destruct a, b; simpl; congruence. Qed.
Lemma dpc_eqb_true : forall a b, dpc_eqb a b = true -> a = b.
Proof. destruct a, b; simpl; try congruence; intros H; apply Nat.eqb_eq in H; congruence. Qed.

Definition active (p : dpc) : Prop :=
  match p with DTop | DHold _ | DIn _ | DInGrace _ => True | _ => False end.
Definition alive (p : dpc) : Prop :=
  match p with DTop | DHold _ | DIn _ | DInGrace _ | DExiting => True | _ => False end.

Record Inv (s : state) : Prop := {
  n_cur_active : forall st d, cur s st = Some d -> active (dp s d) /\ dstream s d = st;
  n_active_cur : forall d, active (dp s d) -> cur s (dstream s d) = Some d;
  n_run0 : forall st, cur s st = None -> running s st = false;
  n_run1 : forall st d, cur s st = Some d -> running s st = true;
  n_idle : forall st, running s st = false -> queue s st = [] /\ hold s st = None;
  n_fifo : forall st, accepted s st = invoked s st ++ opt_list (hold s st) ++ queue s st;
  n_hold1 : forall d v, dp s d = DHold v -> hold s (dstream s d) = Some v;
  n_hold2 : forall st v d, hold s st = Some v -> cur s st = Some d -> dp s d = DHold v;
  n_live1 : forall d, In d (live s) -> alive (dp s d);
  n_live2 : forall d, alive (dp s d) -> In d (live s);
  n_wg : wg s = length (live s);
  n_nodup : NoDup (live s);
  n_closed_k : forall k, kp s k = KWait \/ kp s k = KRet -> closed s = true;
  n_grace : forall k, kp s k = KRet -> kgrace s k = true -> wg s = 0;
  n_acc : forall st e, In e (accepted s st) -> ep s e = EReturned /\ estream s e = st;
  n_acc_nodup : forall st, NoDup (accepted s st)
}.

Lemma inv_init : Inv init.
Proof.
  constructor; simpl; intros; try discriminate; try tauto; auto; try constructor.
  destruct H; discriminate.
Qed.

Lemma length_remove_nat : forall d l, NoDup l -> In d l -> length (remove_nat d l) = pred (length l).
Proof.
  induction l as [|x l IH]; simpl; intros N I; [tauto|].
  inversion N; subst. destruct (Nat.eqb x d) eqn:E; simpl.
  - apply Nat.eqb_eq in E; subst. clear IH.
    assert (G : forall l, ~ In d l -> remove_nat d l = l).
    { induction l0 as [|y l0 IH0]; simpl; intros; auto.
      destruct (Nat.eqb y d) eqn:E'; simpl.
      - apply Nat.eqb_eq in E'; subst; tauto.
      - rewrite IH0; auto. }
    rewrite G; auto.
  - destruct I as [->|I]; [rewrite Nat.eqb_refl in E; discriminate|].
    rewrite IH; auto. destruct l; simpl in *; [tauto|reflexivity].
Qed.

Lemma in_remove_nat : forall d x l, In x (remove_nat d l) <-> In x l /\ x <> d.
Proof.
  intros. unfold remove_nat. rewrite filter_In. rewrite negb_true_iff, Nat.eqb_neq. tauto.
Qed.

Lemma nodup_remove_nat : forall d l, NoDup l -> NoDup (remove_nat d l).
Proof. intros; unfold remove_nat; apply NoDup_filter; auto. Qed.

Ltac bool_hyps :=
  repeat match goal with
  | H : _ && _ = true |- _ => apply andb_prop in H; destruct H
  | H : _ || _ = true |- _ => apply orb_prop in H; destruct H
  | H : epc_eqb _ _ = true |- _ => apply epc_eqb_true in H
  | H : kpc_eqb _ _ = true |- _ => apply kpc_eqb_true in H
  | H : dpc_eqb _ _ = true |- _ => apply dpc_eqb_true in H
  | H : negb _ = true |- _ => apply negb_true_iff in H
  | H : Nat.eqb _ _ = true |- _ => apply Nat.eqb_eq in H
  end.

Ltac step_cases H :=
  let l := fresh "l" in let o := fresh "o" in
  destruct H as [l [o H]];
  destruct l; simpl in H; cbv zeta in H;
  repeat match type of H with
  | (if ?c then _ else _) = _ => destruct c eqn:?; try discriminate H
  | match ?x with _ => _ end = _ => destruct x eqn:?; try discriminate H
  end;
  inversion H; subst; clear H; bool_hyps.

Ltac upd_cases :=
  repeat once match goal with
  | H : context [Nat.eqb ?a ?b] |- _ =>
      let E := fresh "E" in destruct (Nat.eqb a b) eqn:E;
      [apply Nat.eqb_eq in E; subst | apply Nat.eqb_neq in E]
  | |- context [Nat.eqb ?a ?b] =>
      let E := fresh "E" in destruct (Nat.eqb a b) eqn:E;
      [apply Nat.eqb_eq in E; subst | apply Nat.eqb_neq in E]
  end.

Ltac use_inv I :=
  destruct I as [Icuract Iactcur Irun0 Irun1 Iidle Ififo Ihold1 Ihold2 Ilive1 Ilive2 Iwg Inodup
                 Iclosedk Igrace Iacc Iaccnd].

Ltac inst1 x :=
  repeat match goal with
  | I : forall i : nat, _ |- _ =>
      lazymatch type of I with
      | forall (i : nat) (j : nat), _ => fail
      | _ => let T := type of (I x) in
             lazymatch goal with
             | _ : T |- _ => fail
             | _ => pose proof (I x)
             end
      end
  end.
Ltac inst2 x y :=
  repeat match goal with
  | I : forall (i : nat) (j : nat), _ |- _ =>
      lazymatch type of I with
      | forall (i : nat) (j : nat) (k : nat), _ => fail
      | _ => let T := type of (I x y) in
             lazymatch goal with
             | _ : T |- _ => fail
             | _ => pose proof (I x y)
             end
      end
  end.
Ltac inst3 x y z :=
  repeat match goal with
  | I : forall (i : nat) (j : nat) (k : nat), _ |- _ =>
      let T := type of (I x y z) in
      lazymatch goal with
      | _ : T |- _ => fail
      | _ => pose proof (I x y z)
      end
  end.
Ltac inst_all :=
  repeat match goal with
  | x : nat |- _ => progress (inst1 x)
  end;
  repeat match goal with
  | x : nat, y : nat |- _ => progress (inst2 x y)
  end;
  repeat match goal with
  | x : nat, y : nat, z : nat |- _ => progress (inst3 x y z)
  end;
  repeat match goal with
  | I : forall i : nat, _ |- _ => clear I
  end.

Ltac prem :=
  first [ assumption | congruence
        | match goal with
          | H : dp ?s ?d = _ |- active (dp ?s ?d) => rewrite H; exact I
          | H : dp ?s ?d = _ |- alive (dp ?s ?d) => rewrite H; exact I
          | |- active _ => exact I
          | |- alive _ => exact I
          | |- _ \/ _ => first [left; congruence | right; congruence]
          end ].

Ltac chain :=
  repeat once match goal with
  | H : ?A /\ ?B |- _ => destruct H
  | H : False |- _ => destruct H
  | H : active ?c |- _ => progress (simpl in H)
  | H : alive ?c |- _ => progress (simpl in H)
  | H : ?A \/ ?B |- _ => destruct H
  | H : ?A -> ?B |- _ =>
      let X := fresh "X" in assert (X : A) by prem; specialize (H X); clear X
  end.

Ltac close :=
  try solve [ congruence | discriminate | lia | exact I
            | repeat split; (congruence || lia)
            | exfalso; congruence
            | match goal with F : False |- _ => destruct F end ].

Ltac finish :=
  simpl in *; unfold set_dp, set_kp, set_closed, upd in *; simpl in *;
  try solve [ assumption | intros; eauto ];
  intros; upd_cases; try solve [ eauto | congruence ];
  inst_all; chain; close.

Ltac prep := simpl in *; unfold set_dp, set_kp, set_closed, upd in *; simpl in *; intros; upd_cases.

Lemma nodup_snoc : forall (l : list nat) x, NoDup l -> ~ In x l -> NoDup (l ++ [x]).
Proof.
  induction l as [|y l IH]; simpl; intros x N I.
  - constructor; auto.
  - inversion N; subst. constructor.
    + intro H. apply in_app_or in H. destruct H as [H|[H|[]]]; auto.
    + apply IH; auto.
Qed.

Section Facts.
  Variable s : state.
  Hypothesis I : Inv s.

  Lemma idle_cur : forall st, running s st = false -> cur s st = None.
  Proof.
    intros st R. destruct (cur s st) as [d|] eqn:C; auto.
    rewrite (n_run1 _ I _ _ C) in R; discriminate.
  Qed.

  Lemma active_running : forall d, active (dp s d) -> running s (dstream s d) = true /\ cur s (dstream s d) = Some d.
  Proof.
    intros d A. pose proof (n_active_cur _ I d A) as C. split; auto. eapply n_run1; eauto.
  Qed.

  Lemma top_hold_none : forall d, dp s d = DTop -> hold s (dstream s d) = None.
  Proof.
    intros d T. destruct (hold s (dstream s d)) as [v|] eqn:H; auto.
    assert (A : active (dp s d)) by (rewrite T; exact Logic.I).
    pose proof (n_hold2 _ I _ _ _ H (n_active_cur _ I d A)). congruence.
  Qed.

  Lemma none_not_live : forall d, dp s d = DNone -> ~ In d (live s).
  Proof. intros d N L. apply (n_live1 _ I) in L. rewrite N in L; exact L. Qed.

  Lemma called_not_accepted : forall e st, ep s e = ECalled -> ~ In e (accepted s st).
  Proof. intros e st C A. destruct (n_acc _ I _ _ A). congruence. Qed.
End Facts.

Lemma inv_step : forall s s', Inv s -> step s s' -> Inv s'.
Proof.
  intros s s' I H. pose proof I as II.
  step_cases H; use_inv I; constructor.
  all: try solve [timeout 20 finish].
  all: prep.
  all: try solve [eauto].
  all: try solve [rewrite Ififo; rewrite <- ?app_assoc; reflexivity].
  all: try solve [congruence | split; [exact Logic.I|congruence]].
  (* accepted: membership / NoDup after an append *)
  all: try solve [match goal with H : In _ (_ ++ [_]) |- _ =>
                    apply in_app_or in H; destruct H as [H|[H|[]]]; [eapply Iacc; eauto | congruence] end].
  all: try solve [match goal with H : In ?e (accepted _ _), C : ep _ ?e = ECalled |- _ =>
                    exfalso; eapply (called_not_accepted _ II); eauto end].
  all: try solve [apply nodup_snoc; auto; eapply (called_not_accepted _ II); eauto].
  (* cur points to a goroutine that does not exist / has exited *)
  all: try solve [match goal with H : cur _ _ = Some ?d, N : dp _ ?d = _ |- _ =>
                    destruct (Icuract _ _ H) as [A _]; rewrite N in A; destruct A end].
  (* an active drainer on an idle stream *)
  all: try solve [match goal with A : active (dp ?s ?d0), R : running ?s _ = false |- _ =>
                    destruct (active_running _ II _ A) as [R' _]; congruence end].
  all: try solve [match goal with N : dp ?s ?d = _, R : running ?s (dstream ?s ?d) = false |- _ =>
                    assert (A : active (dp s d)) by (rewrite N; exact Logic.I);
                    destruct (active_running _ II _ A) as [R' _]; congruence end].
  all: try solve [match goal with H : hold ?s ?st = Some _, R : running ?s ?st = false |- _ =>
                    destruct (Iidle _ R); congruence end].
  all: try solve [constructor; auto; eapply (none_not_live _ II); eauto].
  all: try solve [split; auto; eapply (top_hold_none _ II); eauto].
  all: try solve [match goal with T : dp ?s ?d = DTop, Q : queue ?s _ = _ |- _ =>
                    rewrite Ififo, Q, (top_hold_none _ II _ T); reflexivity end].
  all: try solve [match goal with T : dp ?s ?d = DHold ?v |- _ =>
                    rewrite Ififo, (Ihold1 _ _ T); simpl; rewrite <- app_assoc; reflexivity end].
  (* the WaitGroup ghost list *)
  all: try solve [match goal with H : In _ (remove_nat _ _) |- _ =>
                    apply in_remove_nat in H; destruct H; try congruence; eauto end].
  all: try solve [match goal with H : alive DExited |- _ => destruct H end].
  all: try solve [apply in_remove_nat; split; eauto].
  all: try solve [rewrite Iwg; symmetry; apply length_remove_nat; auto; apply Ilive2;
                  match goal with N : dp _ _ = DExiting |- _ => rewrite N; exact Logic.I end].
  all: try solve [apply nodup_remove_nat; auto].
Qed.
