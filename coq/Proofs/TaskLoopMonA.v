(* C10: the extracted monitor holds on the observable trace of every complete run of the model, part A:
   (the shape "monitor true on every model run" of DESIGN 2.2). *)
From Coq Require Import Arith Bool List Lia.
Import ListNotations.
From Ice Require Import Model.PrioSpec Model.TaskLoop Proofs.TaskLoopInv Proofs.TaskLoopProofs.

(* ---- list lemmas ------------------------------------------------------------------------------ *)
Definition has (p : event -> bool) (l : list event) : bool := existsb p l.

Lemma count_snoc : forall p l e, count p (l ++ [e]) = count p l + (if p e then 1 else 0).
Proof.
  intros. unfold count. rewrite filter_app, app_length. simpl. destruct (p e); reflexivity.
Qed.

Lemma has_snoc : forall p l e, has p (l ++ [e]) = has p l || p e.
Proof. intros. unfold has. rewrite existsb_app. simpl. rewrite orb_false_r. reflexivity. Qed.

Lemma count_has : forall p l, count p l <> 0 -> has p l = true.
Proof.
  unfold count, has. induction l as [|x l IH]; simpl; intros H; [congruence|].
  destruct (p x); simpl in *; auto.
Qed.

Lemma has_count : forall p l, has p l = true -> count p l <> 0.
Proof.
  unfold count, has. induction l as [|x l IH]; simpl; intros H; [discriminate|].
  destruct (p x); simpl in *; auto.
Qed.

Lemma suffix_after_snoc : forall p l e,
  suffix_after p (l ++ [e]) = if has p l then suffix_after p l ++ [e] else [].
Proof.
  unfold has. induction l as [|x l IH]; simpl; intros e.
  - destruct (p e); reflexivity.
  - destruct (p x); simpl; auto.
Qed.

Definition is_call (i : nat) (e : event) : bool := match e with ECall j => Nat.eqb i j | _ => false end.
Definition is_ret (i : nat) (e : event) : bool := match e with ERet j _ => Nat.eqb i j | _ => false end.

Lemma after_call_snoc : forall i l e,
  after_call i (l ++ [e]) = if has (is_call i) l then after_call i l ++ [e] else [].
Proof.
  unfold has. induction l as [|x l IH]; simpl; intros e.
  - destruct e; simpl; auto; destruct (Nat.eqb i i0); reflexivity.
  - destruct x; simpl; auto; destruct (Nat.eqb i i0); simpl; auto.
Qed.

Lemma before_ret_snoc : forall i l e,
  before_ret i (l ++ [e]) =
  if has (is_ret i) l then before_ret i l else before_ret i l ++ (if is_ret i e then [] else [e]).
Proof.
  unfold has. induction l as [|x l IH]; simpl; intros e.
  - destruct e; simpl; auto; destruct (Nat.eqb i i0); reflexivity.
  - destruct x; simpl; try (rewrite IH; destruct (existsb (is_ret i) l); reflexivity).
    destruct (Nat.eqb i i0); simpl; auto.
    rewrite IH; destruct (existsb (is_ret i) l); reflexivity.
Qed.

Lemma during_snoc : forall i l e,
  during i (l ++ [e]) =
  if has (is_call i) l then
    (if has (is_ret i) (after_call i l) then during i l
     else during i l ++ (if is_ret i e then [] else [e]))
  else [].
Proof.
  intros. unfold during. rewrite after_call_snoc.
  destruct (has (is_call i) l); [|reflexivity]. apply before_ret_snoc.
Qed.

Lemma rets_snoc : forall l e,
  rets (l ++ [e]) = rets l ++ match e with ERet i r => [(i, r)] | _ => [] end.
Proof.
  induction l as [|x l IH]; simpl; intros e.
  - destruct e; reflexivity.
  - destruct x; simpl; rewrite ?IH; reflexivity.
Qed.

Lemma started_ids_snoc : forall l e,
  started_ids (l ++ [e]) = started_ids l ++ match e with EStart i => [i] | _ => [] end.
Proof.
  induction l as [|x l IH]; simpl; intros e.
  - destruct e; reflexivity.
  - destruct x; simpl; rewrite ?IH; reflexivity.
Qed.

Lemma in_started_count : forall l i, In i (started_ids l) -> count (is_start i) l <> 0.
Proof.
  unfold count. induction l as [|x l IH]; simpl; intros i H; [tauto|].
  destruct x; simpl in *; auto.
  destruct H as [->|H]; [rewrite Nat.eqb_refl; simpl; congruence|].
  destruct (Nat.eqb i i0); simpl; auto.
Qed.

(* serial_from as a scan that returns the task inside at the end *)
Fixpoint scan (cur : option nat) (l : list event) : option (option nat) :=
  match l with
  | [] => Some cur
  | EStart i :: l' => match cur with None => scan (Some i) l' | Some _ => None end
  | EEnd i :: l' => match cur with
                    | Some j => if Nat.eqb i j then scan None l' else None
                    | None => None
                    end
  | _ :: l' => scan cur l'
  end.

Lemma serial_scan : forall l cur, serial_from cur l = match scan cur l with Some _ => true | None => false end.
Proof.
  induction l as [|x l IH]; simpl; intros cur; auto.
  destruct x; auto.
  - destruct cur; auto.
  - destruct cur as [j|]; auto. destruct (Nat.eqb i j); simpl; auto.
Qed.

Lemma scan_snoc : forall l cur e,
  scan cur (l ++ [e]) = match scan cur l with Some c => scan c [e] | None => None end.
Proof.
  induction l as [|x l IH]; intros cur e; [reflexivity|].
  destruct x; simpl; try apply IH.
  - destruct cur; [reflexivity|apply IH].
  - destruct cur as [j|]; [|reflexivity]. destruct (Nat.eqb i j); [apply IH|reflexivity].
Qed.


(* ---- the trace invariant ---------------------------------------------------------------------- *)
Definition cur_of (p : lpc) : option nat := match p with LRun i => Some i | _ => None end.
Definition endc (t : tstat) : nat := match t with TCompleted => 1 | _ => 0 end.
Definition ret_state (r : retkind) : spc := match r with ROk => SRetOk | RCtx => SRetCtx | RClosed => SRetClosed end.
Definition returned (p : spc) : bool := match p with SRetOk | SRetCtx | SRetClosed => true | _ => false end.
Definition oce (p : lpc) : nat := match p with LOnCloseDone | LExited => 1 | _ => 0 end.

Record TI (s : state) (tr : list event) : Prop := {
  t_scan : scan None tr = Some (cur_of (lp s));
  t_starts : forall i, count (is_start i) tr = runs s i;
  t_ends : forall i, count (is_end i) tr = endc (ts s i);
  t_rets : forall i r, In (i, r) (rets tr) <-> sp s i = ret_state r;
  t_called : forall i, has (is_call i) tr = negb (spc_eqb (sp s i) SIdle);
  t_ret : forall i, has (is_ret i) (after_call i tr) = returned (sp s i);
  t_dur_s : forall i, count (is_start i) (during i tr) = runs s i;
  t_dur_e : forall i, count (is_end i) (during i tr) = endc (ts s i);
  t_cret : has is_close_ret tr = true -> lp s = LExited;
  t_sfx_c : count is_any_start (suffix_after is_close_ret tr) = 0 /\
            count is_any_end (suffix_after is_close_ret tr) = 0;
  t_ocs : count is_onclose_start tr = oncloses s;
  t_oce : count is_onclose_end tr = oce (lp s);
  t_has_ocs : has is_onclose_start tr = true -> after_onclose (lp s);
  t_sfx_o : count is_any_start (suffix_after is_onclose_start tr) = 0 /\
            count is_any_end (suffix_after is_onclose_start tr) = 0;
  t_crets : count is_close_ret tr = count is_close_ret (suffix_after is_onclose_end tr);
  t_pre : count is_pre_start tr = prestops s
}.

Lemma ti_init : TI init [].
Proof.
  constructor; simpl; intros; auto; try discriminate.
  split; [tauto|]. destruct r; discriminate.
Qed.

Definition ev_of (l : label) : list event := match l with Obs e => [e] | Tau _ => [] end.

Ltac lstep_cases H l :=
  destruct l as [[?i|?i [| |]|?i|?i|?i| | |?k ?pre|?k|?k|?k]|[?i|?i|?i| | | |?k|?k|?k|?k|?k]]; simpl in H;
  try match type of H with
      | match lp ?s with _ => _ end = _ => destruct (lp s) eqn:?; try discriminate H
      end;
  try match type of H with
      | (if ?c then _ else _) = _ => destruct c eqn:?; [|discriminate H]
      end;
  inversion H; subst; clear H; bool_hyps.

Lemma spc_eqb_refl : forall a, spc_eqb a a = true.
Proof. destruct a; reflexivity. Qed.

Ltac snoc_rw :=
  repeat first [ rewrite count_snoc in * | rewrite has_snoc in * | rewrite suffix_after_snoc in *
               | rewrite during_snoc in * | rewrite after_call_snoc in * | rewrite rets_snoc in *
               | rewrite scan_snoc in * | rewrite app_nil_r in * ].

Ltac rw_state :=
  repeat match goal with
  | H : lp ?s = _ |- context [lp ?s] => rewrite H
  | H : sp ?s ?i = _ |- context [sp ?s ?i] => rewrite H
  | H : cp ?s ?k = _ |- context [cp ?s ?k] => rewrite H
  end.

Lemma has_false_count : forall p l, has p l = false -> count p l = 0.
Proof.
  intros p l H. destruct (count p l) eqn:C; auto.
  assert (X : count p l <> 0) by lia. apply count_has in X. congruence.
Qed.

(* common preamble: case analysis of the step, the new state explicit, the trace functions
   unfolded over the appended event, the old invariant facts rewritten *)
Ltac prelude I T H l :=
  pose proof I as II; pose proof T as TT;
  destruct T as [Tscan Tstarts Tends Trets Tcalled Tret Tdurs Tdure Tcret Tsfxc Tocs Toce Thasocs Tsfxo Tcrets Tpre];
  lstep_cases H l; simpl ev_of; use_inv I;
  simpl; unfold set_sp, set_cp, set_lp; simpl; intros; snoc_rw;
  simpl in *; rewrite ?orb_false_r, ?Nat.add_0_r, ?app_nil_r in *;
  try solve [ assumption | eauto ];
  rewrite ?Tscan, ?Tstarts, ?Tends, ?Tcalled, ?Tret, ?Tdurs, ?Tdure, ?Tocs, ?Toce, ?Tpre; simpl;
  try solve [ assumption | eauto | rw_state; simpl; (reflexivity || lia || congruence) ].

Ltac lp_facts :=
  try match goal with
  | H : lp ?s = LGot ?i, G : forall i, lp ?s = LGot i -> _ |- _ => destruct (G i H) as (?&?&?)
  | H : lp ?s = LRun ?i, G : forall i, lp ?s = LRun i -> _ |- _ => destruct (G i H) as (?&?&?)
  | H : lp ?s = LFin ?i, G : forall i, lp ?s = LFin i -> _ |- _ => destruct (G i H) as (?&?&?)
  end.

Ltac rw_ts :=
  repeat match goal with
  | H : ts ?s ?i = _ |- context [ts ?s ?i] => rewrite H
  | H : tdone ?s ?i = _ |- context [tdone ?s ?i] => rewrite H
  end.

Ltac use_prem :=
  repeat match goal with
  | X : has is_close_ret ?tr = true, G : has is_close_ret ?tr = true -> _ |- _ => specialize (G X)
  | X : has is_onclose_start ?tr = true, G : has is_onclose_start ?tr = true -> _ |- _ => specialize (G X)
  | X : after_onclose (lp ?s), Y : lp ?s = _ |- _ => rewrite Y in X; simpl in X
  | X : False |- _ => destruct X
  end.

Ltac post :=
  unfold upd; upd_cases; lp_facts; use_prem; rw_state; rw_ts; simpl; rewrite ?Nat.eqb_refl, ?orb_false_r;
  try solve [ assumption | eauto | reflexivity | lia | congruence ].


Section Step.
  Variables (l : label) (s s' : state) (tr : list event).
  Hypothesis I : Inv s.
  Hypothesis T : TI s tr.
  Hypothesis H : lstep l s = Some s'.

  Lemma st_scan : scan None (tr ++ ev_of l) = Some (cur_of (lp s')).
  Proof. prelude I T H l; post. Qed.

  Lemma st_starts : forall i, count (is_start i) (tr ++ ev_of l) = runs s' i.
  Proof. prelude I T H l; post. Qed.

  Lemma st_ends : forall i, count (is_end i) (tr ++ ev_of l) = endc (ts s' i).
  Proof. prelude I T H l; post. Qed.

  Lemma st_called : forall i, has (is_call i) (tr ++ ev_of l) = negb (spc_eqb (sp s' i) SIdle).
  Proof. prelude I T H l; post. Qed.

  Lemma st_ocs : count is_onclose_start (tr ++ ev_of l) = oncloses s'.
  Proof. prelude I T H l; post. Qed.

  Lemma st_oce : count is_onclose_end (tr ++ ev_of l) = oce (lp s').
  Proof. prelude I T H l; post. Qed.

  Lemma st_pre : count is_pre_start (tr ++ ev_of l) = prestops s'.
  Proof. prelude I T H l; post. Qed.
  Lemma st_cret : has is_close_ret (tr ++ ev_of l) = true -> lp s' = LExited.
  Proof. prelude I T H l; post. all: try solve [discriminate | exact Logic.I | tauto]. Qed.

  Lemma st_has_ocs : has is_onclose_start (tr ++ ev_of l) = true -> after_onclose (lp s').
  Proof. prelude I T H l; post. all: try solve [discriminate | exact Logic.I | tauto]. Qed.

  Lemma st_rets : forall i r, In (i, r) (rets (tr ++ ev_of l)) <-> sp s' i = ret_state r.
  Proof.
    prelude I T H l; post.
    all: rewrite ?in_app_iff; simpl; rewrite Trets; rw_state;
         match goal with |- context [ret_state ?r] => destruct r end; simpl;
         intuition (try congruence; try discriminate).
  Qed.
End Step.
