(* C07: application data travels only over validated pairs and only from known peers. *)
From Coq Require Import ZArith Bool List Lia.
From Ice Require Import Model.AgentTypes Model.AgentCore Model.AgentObs Model.AgentMonitors Gen.Consts Proofs.AgentFrame.
Import ListNotations.
Local Open Scope Z_scope.

(* ---- write path ------------------------------------------------------------------------------ *)
Definition write_target (s : state) : option pair :=
  match selected_pair s with
  | Some pr => Some pr
  | None => best_valid s
  end.

Definition wrote (pr : pair) (p : payload) (count_conn : bool) (s : state) : state :=
  if 0 <? pl_len p then
    set_s_checklist (map (fun q => if p_id q =? p_id pr
                                   then set_p_bytes_sent (p_bytes_sent q + pl_len p) (set_p_pkts_sent (p_pkts_sent q + 1) q)
                                   else q) (s_checklist (if count_conn then set_s_bytes_sent (s_bytes_sent s + pl_len p) s else s)))
                    (if count_conn then set_s_bytes_sent (s_bytes_sent s + pl_len p) s else s)
  else s.

(* what a write over pair pr does: the datagram and the counters -- or, when the socket refuses the send
   (pl_refused: a fault injected by the environment), nothing at all; Write reports success either way *)
Definition write_result (pr : pair) (p : payload) (count_conn : bool) (s : state) : state * list out :=
  if pl_refused p then (s, [ORet ROk])
  else (wrote pr p count_conn s, [OData (c_h (p_loc pr)) (c_addr (p_rem pr)) p; ORet ROk]).

Lemma do_write_result pr p cc s : do_write pr p cc s = write_result pr p cc s.
Proof.
  unfold do_write, write_result. destruct (pl_refused p); [reflexivity|].
  unfold wrote, seq, emit, upd_pair, modify, nop. cbn.
  destruct (0 <? pl_len p); destruct cc; cbn; reflexivity.
Qed.

(* Conn.Write: exactly one datagram, on the selected pair's local socket to its remote address (no
   selection: the best validated pair; none: an error and nothing sent); STUN-shaped payloads are
   refused; after Close an error. *)
Theorem conn_write_spec p s :
  conn_write p s =
  if s_closed s then (s, [ORet RErrClosed])
  else if pl_stun p then (s, [ORet RErrStunPayload])
  else match write_target s with
       | Some pr => write_result pr p true s
       | None => (s, [ORet RErrNoPairs])
       end.
Proof.
  unfold conn_write, with_state, write_target.
  destruct (s_closed s); [reflexivity|]. destruct (pl_stun p); [reflexivity|].
  destruct (selected_pair s) as [pr|]; [apply do_write_result|].
  destruct (best_valid s) as [pr|]; [apply do_write_result|reflexivity].
Qed.

Theorem conn_write_to_pair_spec id p s :
  conn_write_to_pair id p s =
  if s_closed s then (s, [ORet RErrClosed])
  else if pl_stun p then (s, [ORet RErrStunPayload])
  else match pair_by_id id s with
       | None => (s, [ORet RErrPairNotFound])
       | Some pr => if p_state pr =? CandidatePairStateSucceeded
                    then write_result pr p false s
                    else (s, [ORet RErrPairNotSucceeded])
       end.
Proof.
  unfold conn_write_to_pair, with_state.
  destruct (s_closed s); [reflexivity|]. destruct (pl_stun p); [reflexivity|].
  destruct (pair_by_id id s) as [pr|]; [|reflexivity].
  destruct (p_state pr =? CandidatePairStateSucceeded); [apply do_write_result|reflexivity].
Qed.

(* the best validated pair: a listed pair in state Succeeded whose priority no other Succeeded pair exceeds *)
Lemma best_of_spec l b0 r :
  best_of l b0 = Some r ->
  (In r l \/ b0 = Some r) /\
  (forall q, In q l -> pair_priority q <= pair_priority r) /\
  (forall b, b0 = Some b -> pair_priority b <= pair_priority r).
Proof.
  revert b0. induction l as [|p t IH]; cbn [best_of]; intros b0 H.
  - subst. split; [right; reflexivity|]. split; [intros q []|]. intros b Hb. injection Hb as <-. lia.
  - destruct b0 as [b|].
    + destruct (Z.ltb_spec (pair_priority b) (pair_priority p)) as [Hlt|Hge].
      * destruct (IH _ H) as [H1 [H2 H3]]. split.
        -- destruct H1 as [H1|H1]; [left; right; exact H1|left; left; injection H1 as <-; reflexivity].
        -- split.
           ++ intros q [<-|Hq]; [apply H3; reflexivity|apply H2; exact Hq].
           ++ intros b' Hb'. injection Hb' as <-. specialize (H3 p eq_refl). lia.
      * destruct (IH _ H) as [H1 [H2 H3]]. split.
        -- destruct H1 as [H1|H1]; [left; right; exact H1|right; exact H1].
        -- split.
           ++ intros q [<-|Hq]; [specialize (H3 b eq_refl); lia|apply H2; exact Hq].
           ++ exact H3.
    + destruct (IH _ H) as [H1 [H2 H3]]. split.
      * destruct H1 as [H1|H1]; [left; right; exact H1|left; left; injection H1 as <-; reflexivity].
      * split.
        -- intros q [<-|Hq]; [apply H3; reflexivity|apply H2; exact Hq].
        -- intros b Hb. discriminate.
Qed.

Theorem best_valid_spec s r :
  best_valid s = Some r ->
  In r (s_checklist s) /\ p_state r = CandidatePairStateSucceeded /\
  forall q, In q (s_checklist s) -> p_state q = CandidatePairStateSucceeded -> pair_priority q <= pair_priority r.
Proof.
  unfold best_valid. intros H. destruct (best_of_spec _ _ _ H) as [[H1|H1] [H2 _]]; [|discriminate].
  apply filter_In in H1. destruct H1 as [Hin Hst]. apply Z.eqb_eq in Hst.
  split; [exact Hin|]. split; [exact Hst|].
  intros q Hq Hs. apply H2. apply filter_In. split; [exact Hq|]. apply Z.eqb_eq. exact Hs.
Qed.

(* ---- read path -------------------------------------------------------------------------------- *)
Definition data_accepted (l : cand) (src : addr) (p : payload) (s : state) : bool :=
  negb (pl_stun p) &&
  (match cache_lookup (c_h l) src s with Some _ => true | None => false end
   || match find_remote (c_net l) src s with Some _ => true | None => false end).

(* a datagram that is STUN-shaped, or whose source is neither a validated source of this local
   candidate nor the address of a remote candidate on the same transport, is discarded without effect *)
Theorem inbound_data_discarded l src p s :
  data_accepted l src p s = false -> inbound_data l src p s = (s, []).
Proof.
  unfold data_accepted, inbound_data. destruct (pl_stun p); [reflexivity|]. cbn [negb andb].
  unfold with_state. destruct (cache_lookup (c_h l) src s); [discriminate|].
  destruct (find_remote (c_net l) src s); [discriminate|reflexivity].
Qed.

(* an accepted datagram is queued once, unmodified, at the tail of the reader queue; nothing is sent *)
Definition queue_grows_by (p : payload) : mprop.
Proof.
  refine (MProp (fun s o s' => True) _ _); auto.
Defined.

Lemma accept_data_buf p s :
  s_buf (fst (accept_data p s)) = s_buf s ++ [p] /\ snd (accept_data p s) = [].
Proof.
  unfold accept_data, seq, modify, with_state, upd_pair, nop. cbn.
  destruct (0 <? pl_len p); cbn; [|split; reflexivity].
  destruct (selected_pair _); cbn; split; reflexivity.
Qed.

Theorem inbound_data_accepted l src p s :
  data_accepted l src p s = true ->
  s_buf (fst (inbound_data l src p s)) = s_buf s ++ [p] /\ snd (inbound_data l src p s) = [].
Proof.
  unfold data_accepted, inbound_data. destruct (pl_stun p); [discriminate|]. cbn [negb andb].
  unfold with_state. intros H.
  destruct (cache_lookup (c_h l) src s) as [rh|].
  - unfold seq, seen, modify. cbn [fst snd].
    pose proof (accept_data_buf p (set_s_lastrecv (assoc_set rh (s_now s) (s_lastrecv s)) s)) as [H1 H2].
    destruct (accept_data p _) as [s2 o2]. cbn [fst snd] in *. subst o2. split; [exact H1|reflexivity].
  - destruct (find_remote (c_net l) src s) as [rc|]; [|discriminate].
    unfold seq, seen, modify. cbn [fst snd].
    match goal with |- context [accept_data p ?x] => pose proof (accept_data_buf p x) as [H1 H2]; destruct (accept_data p x) as [s2 o2] end.
    cbn [fst snd] in *. subst o2. split; [exact H1|reflexivity].
Qed.

(* Conn.Read hands out the head of the queue, once *)
Theorem conn_read_spec s :
  conn_read s =
  if s_closed s then (s, [ORet RErrClosed])
  else match s_buf s with
       | [] => (s, [ORet RWouldBlock])
       | p :: t => (set_s_bytes_recv (s_bytes_recv s + pl_len p) (set_s_buf t s), [ODeliver p])
       end.
Proof.
  unfold conn_read, with_state. destruct (s_closed s); [reflexivity|]. destruct (s_buf s); reflexivity.
Qed.

(* the reader never yields STUN traffic: every queued payload is non-STUN, in every reachable state *)
Definition InvBuf (s : state) : Prop := Forall (fun p => pl_stun p = false) (s_buf s).

Lemma InvBuf_frame s s' : s_buf s' = s_buf s -> InvBuf s -> InvBuf s'.
Proof. unfold InvBuf. intros ->. auto. Qed.

Ltac presBuf_tac := cbn; let H := fresh "HInv" in intros H; eapply InvBuf_frame; [|exact H]; cbn; destruct_matches; reflexivity.

Lemma presBuf_update_conn st : sat (preserves InvBuf) (update_conn st).
Proof.
  intros s. cbn. intros H. unfold update_conn. destruct (s_conn s =? st); [exact H|].
  destruct (st =? ConnectionStateFailed); exact H.
Qed.

Lemma presBuf_inbound_data l src p : sat (preserves InvBuf) (inbound_data l src p).
Proof.
  intros s. change (InvBuf s -> InvBuf (fst (inbound_data l src p s))). intros H.
  destruct (data_accepted l src p s) eqn:E.
  - destruct (inbound_data_accepted l src p s E) as [H1 _]. unfold InvBuf. rewrite H1.
    apply Forall_app. split; [exact H|]. constructor; [|constructor].
    unfold data_accepted in E. destruct (pl_stun p); [discriminate|reflexivity].
  - rewrite (inbound_data_discarded l src p s E). exact H.
Qed.

Lemma presBuf_read : sat (preserves InvBuf) conn_read.
Proof.
  intros s. change (InvBuf s -> InvBuf (fst (conn_read s))). intros H. rewrite conn_read_spec. destruct (s_closed s); [exact H|].
  destruct (s_buf s) as [|p t] eqn:E; [exact H|]. unfold InvBuf in *. cbn. rewrite E in H. inversion H. assumption.
Qed.

Theorem step_preserves_InvBuf cfg o : sat (preserves InvBuf) (step_m cfg o).
Proof.
  destruct o; cbn [step_m].
  all: try (sat_decompose; try (sat_base presBuf_tac); try apply presBuf_update_conn; fail).
  - (* InData *) apply sat_with_state_val. intros s0. cbv beta iota.
    destruct (s_closed s0); [apply sat_nop|]. destruct (find_local lh s0); [apply presBuf_inbound_data|apply sat_nop].
  - apply presBuf_read.
Qed.

Theorem read_never_yields_stun cfg s :
  InvBuf s -> forall p, In (ODeliver p) (snd (step cfg s Read)) -> pl_stun p = false.
Proof.
  intros H p. unfold step, step_m. rewrite conn_read_spec. destruct (s_closed s); [cbn; intuition discriminate|].
  destruct (s_buf s) as [|q t] eqn:E; [cbn; intuition discriminate|].
  cbn. intros [Hq|[]]. injection Hq as <-. unfold InvBuf in H. rewrite E in H. inversion H. assumption.
Qed.

Lemma InvBuf_init lu lp : InvBuf (init lu lp).
Proof. constructor. Qed.

(* ---- counters ---------------------------------------------------------------------------------- *)
(* the connection's byte counters change only by Write (payload bytes accepted) and Read (bytes returned) *)
Definition counters (s : state) := (s_bytes_sent s, s_bytes_recv s).

Lemma counters_update_conn st : sat (frame counters) (update_conn st).
Proof. apply update_conn_frame; intros; reflexivity. Qed.

Theorem counters_only_by_write_and_read cfg o :
  match o with Write _ | Read => True | _ => sat (frame counters) (step_m cfg o) end.
Proof.
  destruct o; try exact I; cbn [step_m]; sat_decompose; try (sat_base frame_tac); try apply counters_update_conn.
Qed.

(* Conn.BytesSent grows by exactly the payload bytes the socket accepted: the datagram that went out on the wire *)
Theorem write_counts_payload_bytes cfg p s :
  let '(s', outs) := step cfg s (Write p) in
  s_bytes_recv s' = s_bytes_recv s /\
  s_bytes_sent s' = s_bytes_sent s + (if existsb (fun o => match o with OData _ _ _ => true | _ => false end) outs
                                       then Z.max 0 (pl_len p) else 0).
Proof.
  unfold step, step_m. rewrite conn_write_spec.
  destruct (s_closed s); [cbn; split; [reflexivity|lia]|]. destruct (pl_stun p); [cbn; split; [reflexivity|lia]|].
  destruct (write_target s) as [pr|]; [|cbn; split; [reflexivity|lia]].
  unfold write_result. destruct (pl_refused p); [cbn; split; [reflexivity|lia]|].
  cbn [existsb orb]. unfold wrote. destruct (Z.ltb_spec 0 (pl_len p)); cbn; split; try reflexivity; lia.
Qed.

Theorem read_counts_returned_bytes cfg s :
  let '(s', outs) := step cfg s Read in
  s_bytes_sent s' = s_bytes_sent s /\
  s_bytes_recv s' = s_bytes_recv s + fold_left (fun a p => a + pl_len p) (outs_delivered outs) 0.
Proof.
  unfold step, step_m. rewrite conn_read_spec. destruct (s_closed s); [cbn; split; [reflexivity|lia]|].
  destruct (s_buf s); cbn; split; try reflexivity; lia.
Qed.
