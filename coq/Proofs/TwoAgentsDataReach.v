(* C07 + C01 across two full agents: every application datagram that is ever in flight -- hence every datagram an
   agent's reader is ever handed -- was sent from a local socket to a remote address that reach each other in
   BOTH directions, for every topology and every admissible schedule of API calls, ticks, STUN and data
   deliveries, drops and duplications. *)
From Coq Require Import ZArith Bool List Lia.
From Ice Require Import Model.AgentTypes Model.AgentCore Model.PairMonitor Model.TwoAgents Model.TwoAgentsData Gen.Consts
  Proofs.AgentFrame Proofs.AgentC06 Proofs.AgentC03Sel Proofs.AgentLoc Proofs.AgentRem Proofs.TwoAgentsProofs
  Proofs.TwoAgentsDataProofs Proofs.AgentC07Valid Proofs.TwoAgentsReach.

Import ListNotations.
Local Open Scope Z_scope.

Section DataReach.
Variables (cfga cfgb : config) (t : topology).
Hypothesis Hla : cf_lite cfga = false.
Hypothesis Hlb : cf_lite cfgb = false.
Hypothesis Hwf : topo_wf t.

(* the key of a data flight, seen from its receiver: (receiving socket, sender's public address) *)
Definition dflight_ok (f : dflight) : Prop :=
  if d_to_a f then KA t (d_lh f) (d_src f) else KB t (d_lh f) (d_src f).

Definition DReach (d : dsys) : Prop :=
  SysInv t (d_sys d) /\ (G (sy_a (d_sys d)) /\ G (sy_b (d_sys d))) /\ Forall dflight_ok (d_net d).

Definition dsys_step_ok (d : dsys) (o : dsys_op) : Prop :=
  match o with DSys so => sys_step_ok (d_sys d) so | _ => True end.

Fixpoint dsys_run_ok (d : dsys) (ops : list dsys_op) : Prop :=
  match ops with
  | [] => True
  | o :: r => dsys_step_ok d o /\ dsys_run_ok (dsys_step cfga cfgb t d o) r
  end.

Lemma agent_indata (K : Z -> addr -> Prop) cfg s lh src p :
  AgentInv K s -> AgentInv K (fst (step cfg s (InData lh src p))).
Proof.
  intros [HU [HL [HR HS]]]. split; [exact (step_preserves_InvU cfg _ s HU)|]. split; [apply step_Lc; exact HL|].
  split; [apply step_Rc; [exact I|exact HR]|]. exact (proj2 (SK_indata K cfg lh src p s HS)).
Qed.

(* a datagram written over a pair whose key is bidirectionally reachable lands, if it is routed at all, on a
   flight whose receiver-side key is bidirectionally reachable too *)
Lemma route_data_one_ok (from_a : bool) lh dst p f :
  (if from_a then KA t lh dst else KB t lh dst) ->
  In f (route_data_one t from_a lh dst p) -> dflight_ok f.
Proof.
  destruct Hwf as [Wa Wb]. intros HK Hf. unfold route_data_one in Hf. destruct from_a.
  - destruct HK as [i [j [Hi [Hj [E1 [E2 [U1 U2]]]]]]]. subst lh dst.
    destruct (Wa i Hi) as [Hx _]. destruct (Wb j Hj) as [_ Hy]. rewrite Hx, Hy in Hf. rewrite U1 in Hf.
    destruct Hf as [<-|[]]. unfold dflight_ok. cbn. exists i, j. repeat split; try assumption; reflexivity.
  - destruct HK as [i [j [Hi [Hj [E1 [E2 [U1 U2]]]]]]]. subst lh dst.
    destruct (Wb j Hj) as [Hx _]. destruct (Wa i Hi) as [_ Hy]. rewrite Hx, Hy in Hf. rewrite U2 in Hf.
    destruct Hf as [<-|[]]. unfold dflight_ok. cbn. exists i, j. repeat split; try assumption; reflexivity.
Qed.

Lemma written_ok (on_a : bool) op sy :
  SysInv t sy -> G (agent_of on_a sy) ->
  Forall dflight_ok (route_data t on_a (snd (step (cfg_of cfga cfgb on_a) (agent_of on_a sy) op))).
Proof.
  intros [[_ [_ [_ HA]]] [[_ [_ [_ HB]]] _]] HG. apply Forall_forall. intros f Hf. unfold route_data in Hf.
  apply in_flat_map in Hf. destruct Hf as [o [Ho Hf]]. destruct o as [| lh dst q | | | | | |]; try destruct Hf.
  destruct (step_data_on_valid_pair _ _ _ _ _ _ HG Ho) as [pr [Hin [Hst [-> ->]]]].
  apply (route_data_one_ok on_a (c_h (p_loc pr)) (c_addr (p_rem pr)) q f); [|exact Hf].
  destruct on_a; cbn [agent_of] in *.
  - unfold SK in HA. rewrite Forall_forall in HA. exact (HA pr Hin Hst).
  - unfold SK in HB. rewrite Forall_forall in HB. exact (HB pr Hin Hst).
Qed.

Lemma remove_nth_Forall {A} (P : A -> Prop) n l : Forall P l -> Forall P (remove_nth n l).
Proof.
  revert n. induction l as [|x l IH]; intros n H; destruct n; cbn; try exact H; inversion H; subst; auto.
Qed.

Theorem dsys_step_DReach d o : dsys_step_ok d o -> DReach d -> DReach (dsys_step cfga cfgb t d o).
Proof.
  intros Hok [HS [HG HN]]. destruct o as [so|n|n|n]; cbn [dsys_step dsys_step_ok] in *.
  - split; [apply sys_step_preserves_SysInv; assumption|]. split; [apply sys_step_G; exact HG|]. cbn [d_net].
    apply Forall_app. split; [exact HN|]. unfold data_written. destruct so as [on_a op|?|?|?]; try constructor.
    destruct (is_inbound op); [constructor|]. apply written_ok; [exact HS|]. destruct on_a; cbn; tauto.
  - destruct (nth_error (d_net d) n) as [f|] eqn:En; [|split; [exact HS|split; assumption]].
    destruct HS as [Ha [Hb Hnet]]. destruct HG as [Ga Gb].
    destruct (d_to_a f); cbn [agent_of cfg_of d_sys d_net sy_a sy_b sy_net].
    + split; [split; [apply agent_indata; exact Ha|split; [exact Hb|exact Hnet]]|].
      split; [split; [apply step_G; exact Ga|exact Gb]|apply remove_nth_Forall; exact HN].
    + split; [split; [exact Ha|split; [apply agent_indata; exact Hb|exact Hnet]]|].
      split; [split; [exact Ga|apply step_G; exact Gb]|apply remove_nth_Forall; exact HN].
  - split; [exact HS|]. split; [exact HG|]. cbn. apply remove_nth_Forall; exact HN.
  - destruct (nth_error (d_net d) n) as [f|] eqn:En; [|split; [exact HS|split; assumption]].
    split; [exact HS|]. split; [exact HG|]. cbn. apply Forall_app. split; [exact HN|]. constructor; [|constructor].
    rewrite Forall_forall in HN. exact (HN f (nth_error_In _ _ En)).
Qed.

Lemma dsys_run_DReach ops : forall d, dsys_run_ok d ops -> DReach d -> DReach (dsys_run cfga cfgb t d ops).
Proof.
  unfold dsys_run. induction ops as [|o ops IH]; intros d Hok H; cbn [fold_left]; [exact H|].
  destruct Hok as [H1 H2]. apply IH; [exact H2|]. apply dsys_step_DReach; assumption.
Qed.

Lemma DReach_init lua lpa lub lpb : DReach (dsys_init lua lpa lub lpb).
Proof.
  split; [apply SysInv_init|]. split; [split; apply G_init|constructor].
Qed.

End DataReach.

(* every application datagram in flight joins endpoints that reach each other in both directions; and whenever one
   is delivered, the agent that receives it is handed a datagram of that kind *)
Theorem data_travels_only_between_bidirectionally_reachable_endpoints cfga cfgb t lua lpa lub lpb ops :
  cf_lite cfga = false -> cf_lite cfgb = false -> topo_wf t ->
  dsys_run_ok cfga cfgb t (dsys_init lua lpa lub lpb) ops ->
  Forall (dflight_ok t) (d_net (dsys_run cfga cfgb t (dsys_init lua lpa lub lpb) ops)).
Proof.
  intros Hla Hlb Hw Hok.
  exact (proj2 (proj2 (dsys_run_DReach cfga cfgb t Hla Hlb Hw ops _ Hok (DReach_init t lua lpa lub lpb)))).
Qed.
