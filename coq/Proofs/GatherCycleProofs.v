(* C11, gathering-cycle part: the monitor C11_gather_checks holds on every run of the spec
   (all histories), provided no stale add wins the select -- which the re-check inside the
   addCandidate task guarantees (recheck = true). *)
From Coq Require Import Arith Bool List Lia.
Import ListNotations.
From Ice Require Import Model.PrioSpec Model.GatherCycle.

(* the trace-accumulating form of grun *)
Fixpoint gfold (recheck : bool) (s : gst) (tr : list gevent) (rs : list gres) (ops : list gop)
  : gst * list gres * list gevent :=
  match ops with
  | [] => (s, rs, tr)
  | o :: ops' => let '(s1, r, ev) := gstep recheck s o in gfold recheck s1 (tr ++ ev) (rs ++ [r]) ops'
  end.

Lemma gfold_grun : forall recheck ops s tr rs,
  gfold recheck s tr rs ops =
  (fst (fst (grun recheck s ops)), rs ++ snd (fst (grun recheck s ops)), tr ++ snd (grun recheck s ops)).
Proof.
  induction ops as [|o ops IH]; intros.
  - simpl. rewrite (app_nil_r rs), (app_nil_r tr). reflexivity.
  - cbn [gfold grun]. destruct (gstep recheck s o) as [[s1 r] ev] eqn:E.
    rewrite IH. destruct (grun recheck s1 ops) as [[s2 rs2] evs2]. simpl.
    rewrite <- !app_assoc. reflexivity.
Qed.

(* the state component does not depend on recheck or on the oracle *)
Lemma gstep_state : forall r1 r2 s o, fst (fst (gstep r1 s o)) = fst (fst (gstep r2 s o)).
Proof.
  intros r1 r2 s o. destruct o; simpl; auto;
    destruct (g_live s); simpl; auto;
    destruct (ok && negb r1), (ok && negb r2); simpl; auto.
Qed.

(* the adds of a cycle precede its finish (gatherCandidatesInternal waits for its goroutines) *)
Fixpoint gordered (s : gst) (ops : list gop) : bool :=
  match ops with
  | [] => true
  | o :: ops' =>
      (match o with
       | GAdd _ | GTrap _ _ => negb (g_live s && gstate_eqb (g_state s) GComplete)
       | _ => true
       end) && gordered (fst (fst (gstep false s o))) ops'
  end.

Definition stale_free (recheck : bool) (ops : list gop) : Prop :=
  recheck = true \/ forall id, ~ In (GTrap id true) ops.

(* ---- counting lemmas ------------------------------------------------------------------------ *)
Lemma gcount_app : forall p l r, gcount p (l ++ r) = gcount p l + gcount p r.
Proof. intros; unfold gcount; rewrite filter_app, app_length; reflexivity. Qed.

Lemma gcount_pos_in : forall p l, 0 < gcount p l -> exists x, In x l /\ p x = true.
Proof.
  unfold gcount; induction l as [|y l IH]; simpl; intros H; [lia|].
  destruct (p y) eqn:E; [exists y; auto|]. destruct (IH H) as (x & ? & ?); eauto.
Qed.

Lemma in_gcount_pos : forall p l x, In x l -> p x = true -> 0 < gcount p l.
Proof.
  unfold gcount; induction l as [|y l IH]; simpl; intros x I P; [tauto|].
  destruct I as [->|I]; [rewrite P; simpl; lia|].
  destruct (p y); simpl; eauto using Nat.lt_lt_succ_r.
Qed.

Lemma gcount_zero_not_in : forall p l, (forall x, In x l -> p x = false) -> gcount p l = 0.
Proof.
  unfold gcount; induction l as [|y l IH]; simpl; intros H; auto.
  rewrite (H y) by auto. apply IH; auto.
Qed.

Lemma after_first_app_none : forall p l r, (forall x, In x l -> p x = false) ->
  after_first p (l ++ r) = after_first p r.
Proof.
  induction l as [|y l IH]; simpl; intros r H; auto.
  rewrite (H y) by auto. apply IH; auto.
Qed.

Lemma after_first_app_some : forall p l r x, In x l -> p x = true ->
  after_first p (l ++ r) = after_first p l ++ r.
Proof.
  induction l as [|y l IH]; simpl; intros r x I P; [tauto|].
  destruct (p y) eqn:E; auto. destruct I as [->|I]; [congruence|]. eapply IH; eauto.
Qed.

Lemma nil_of_true : forall c e, is_nil_of c e = true <-> e = GNil c.
Proof.
  intros c e; destruct e; simpl; split; intros H; try discriminate.
  - apply Nat.eqb_eq in H; subst; auto.
  - inversion H; apply Nat.eqb_refl.
Qed.

(* ---- the invariant ---------------------------------------------------------------------------- *)
Record GI (s : gst) (tr : list gevent) : Prop := {
  gi_cand : forall id c g, In (GCand id c g) tr -> 1 <= c <= g_cyc s /\ g = g_cycgen s c;
  gi_live : g_live s = true -> 1 <= g_cyc s /\ g_cycgen s (g_cyc s) = g_gen s;
  gi_nil : forall c, In (GNil c) tr -> 1 <= c <= g_cyc s;
  gi_once : forall c, gcount (is_nil_of c) tr <= 1;
  gi_complete : g_live s = true -> (g_state s = GComplete <-> In (GNil (g_cyc s)) tr);
  gi_after : forall c, gcount (is_cand_of c) (after_first (is_nil_of c) tr) = 0
}.

Lemma gi_init : GI g_init [].
Proof. constructor; simpl; intros; try tauto; try discriminate; auto. Qed.

Lemma gstate_eqb_true : forall a b, gstate_eqb a b = true <-> a = b.
Proof. destruct a, b; simpl; split; congruence. Qed.

Lemma after_snoc_other : forall c tr e, is_nil_of c e = false -> is_cand_of c e = false ->
  gcount (is_cand_of c) (after_first (is_nil_of c) tr) = 0 ->
  gcount (is_cand_of c) (after_first (is_nil_of c) (tr ++ [e])) = 0.
Proof.
  intros c tr e N C H.
  destruct (gcount (is_nil_of c) tr) eqn:K.
  - rewrite after_first_app_none.
    + simpl. rewrite N. reflexivity.
    + intros x I. destruct (is_nil_of c x) eqn:P; auto.
      pose proof (in_gcount_pos _ _ _ I P). lia.
  - destruct (gcount_pos_in (is_nil_of c) tr) as (x & I & P); [lia|].
    rewrite (after_first_app_some _ _ _ _ I P), gcount_app, H. unfold gcount; simpl. rewrite C. reflexivity.
Qed.

Lemma gi_step : forall recheck s tr o,
  GI s tr ->
  (recheck = true \/ forall id, o <> GTrap id true) ->
  gwf s [o] = true -> gordered s [o] = true ->
  GI (fst (fst (gstep recheck s o))) (tr ++ snd (gstep recheck s o)).
Proof.
  intros recheck s tr o I SF WF OR.
  destruct I as [Icand Ilive Inil Ionce Icomp Iafter].
  simpl in WF, OR. rewrite andb_true_r in WF, OR.
  destruct o as [|id|id ok| |]; simpl.
  - (* GStart *)
    rewrite app_nil_r. constructor; simpl; intros.
    + destruct (Icand _ _ _ H) as [[? ?] ?]. split; [lia|].
      destruct (Nat.eqb c (S (g_cyc s))) eqn:E; auto. apply Nat.eqb_eq in E; lia.
    + rewrite Nat.eqb_refl. split; [lia|auto].
    + destruct (Inil _ H). lia.
    + auto.
    + split; [discriminate|]. intros H0. destruct (Inil _ H0). lia.
    + auto.
  - (* GAdd *)
    destruct (g_live s) eqn:L; simpl; [|rewrite app_nil_r; constructor; auto; intros; congruence].
    destruct (Ilive eq_refl) as [C1 CG].
    assert (NC : g_state s <> GComplete).
    { intro X. rewrite X in OR. simpl in OR. discriminate. }
    assert (NN : ~ In (GNil (g_cyc s)) tr) by (intro X; apply NC; apply Icomp; auto).
    constructor; simpl; intros.
    + apply in_app_or in H; simpl in H. destruct H as [H|[H|[]]]; [eauto|]. inversion H; subst. split; [lia|auto].
    + auto.
    + apply in_app_or in H; simpl in H. destruct H as [H|[H|[]]]; [eauto|discriminate].
    + rewrite gcount_app. unfold gcount at 2; simpl. rewrite Nat.add_0_r. auto.
    + rewrite (Icomp eq_refl). split; intros X; [apply in_or_app; auto|].
      apply in_app_or in X; simpl in X. destruct X as [X|[X|[]]]; [eauto|discriminate].
    + destruct (Nat.eqb c (g_cyc s)) eqn:E.
      * apply Nat.eqb_eq in E; subst c.
        rewrite after_first_app_none; [simpl; reflexivity|].
        intros x Ix. destruct (is_nil_of (g_cyc s) x) eqn:P; auto.
        apply nil_of_true in P; subst; tauto.
      * apply after_snoc_other; simpl; auto.
  - (* GTrap *)
    destruct (g_live s) eqn:L; simpl; [|rewrite app_nil_r; constructor; auto; intros; congruence].
    assert (OK : ok && negb recheck = false).
    { destruct SF as [->|SF]; [apply andb_false_r|]. destruct ok; auto. exfalso; apply (SF id); auto. }
    rewrite OK. simpl. rewrite app_nil_r. constructor; simpl; intros; eauto; try discriminate.
  - (* GRestart *)
    rewrite app_nil_r. constructor; simpl; intros; eauto; try discriminate.
  - (* GFinish *)
    destruct (g_live s) eqn:L; simpl; [|rewrite app_nil_r; constructor; auto; intros; congruence].
    destruct (Ilive eq_refl) as [C1 CG].
    destruct (gstate_eqb (g_state s) GComplete) eqn:E.
    + apply gstate_eqb_true in E. rewrite app_nil_r.
      constructor; simpl; intros; eauto. split; auto. intros _. apply Icomp; auto.
    + assert (NC : g_state s <> GComplete) by (intro X; rewrite X in E; discriminate).
      assert (NN : ~ In (GNil (g_cyc s)) tr) by (intro X; apply NC; apply Icomp; auto).
      constructor; simpl; intros.
      * apply in_app_or in H; simpl in H. destruct H as [H|[H|[]]]; [eauto|discriminate].
      * auto.
      * apply in_app_or in H; simpl in H. destruct H as [H|[H|[]]]; [eauto|]. inversion H; subst. lia.
      * rewrite gcount_app. unfold gcount at 2; simpl.
        destruct (Nat.eqb c (g_cyc s)) eqn:E2; simpl; [|rewrite Nat.add_0_r; auto].
        apply Nat.eqb_eq in E2; subst c.
        rewrite gcount_zero_not_in; [lia|].
        intros x Ix. destruct (is_nil_of (g_cyc s) x) eqn:P; auto. apply nil_of_true in P; subst; tauto.
      * split; auto. intros _. apply in_or_app; right; simpl; auto.
      * destruct (Nat.eqb c (g_cyc s)) eqn:E2.
        -- apply Nat.eqb_eq in E2; subst c.
           rewrite after_first_app_none.
           ++ simpl. rewrite Nat.eqb_refl. reflexivity.
           ++ intros x Ix. destruct (is_nil_of (g_cyc s) x) eqn:P; auto. apply nil_of_true in P; subst; tauto.
        -- apply after_snoc_other; simpl; auto.
Qed.

Lemma in_dedup_nat : forall l c, In c (dedup_nat l) <-> In c l.
Proof.
  induction l as [|x l IH]; simpl; intros c; [tauto|].
  destruct (existsb (Nat.eqb x) (dedup_nat l)) eqn:E.
  - rewrite IH. split; auto. intros [->|H]; auto.
    apply existsb_exists in E. destruct E as (y & Hy & Ey). apply Nat.eqb_eq in Ey; subst. apply IH; auto.
  - simpl. rewrite IH. tauto.
Qed.

Lemma stale_free_tail : forall recheck o ops, stale_free recheck (o :: ops) -> stale_free recheck ops.
Proof. intros recheck o ops [H|H]; [left; auto|right]. intros id I. apply (H id); simpl; auto. Qed.

Lemma run_inv : forall recheck ops s tr comp,
  GI s tr -> (forall c, In (GNil c) tr <-> In c comp) ->
  stale_free recheck ops -> gwf s ops = true -> gordered s ops = true ->
  GI (fst (fst (grun recheck s ops))) (tr ++ snd (grun recheck s ops)) /\
  (forall c, In (GNil c) (tr ++ snd (grun recheck s ops)) <->
             In c (comp ++ completed_cycles s ops (snd (fst (grun recheck s ops))))).
Proof.
  induction ops as [|o ops IH]; intros s tr comp I HC SF WF OR.
  - simpl. rewrite !app_nil_r. auto.
  - cbn [grun].
    pose proof (gstep_state recheck false s o) as ST.
    assert (WF1 : gwf s [o] = true /\ gwf (fst (fst (gstep false s o))) ops = true).
    { simpl in WF. apply andb_prop in WF. destruct WF as [W1 W2]. simpl. rewrite W1, W2. auto. }
    assert (OR1 : gordered s [o] = true /\ gordered (fst (fst (gstep false s o))) ops = true).
    { simpl in OR. apply andb_prop in OR. destruct OR as [W1 W2]. simpl. rewrite W1, W2. auto. }
    destruct WF1 as [WFa WFb]. destruct OR1 as [ORa ORb].
    assert (SF1 : recheck = true \/ (forall id, o <> GTrap id true)).
    { destruct SF as [H|H]; [left; auto|right]. intros id E. apply (H id). rewrite E. simpl; auto. }
    pose proof (gi_step recheck s tr o I SF1 WFa ORa) as I1.
    destruct (gstep recheck s o) as [[s1 r] ev] eqn:E. simpl in ST, I1.
    rewrite <- ST in WFb, ORb.
    (* the completed list after this operation *)
    set (comp1 := comp ++ match o, r with GFinish, RApplied true => [g_cyc s] | _, _ => [] end).
    assert (HC1 : forall c, In (GNil c) (tr ++ ev) <-> In c comp1).
    { intros c. unfold comp1. destruct I as [_ _ _ _ Icomp _].
      destruct o; simpl in E.
      - inversion E; subst. rewrite !app_nil_r. auto.
      - destruct (g_live s); inversion E; subst; rewrite ?app_nil_r; auto.
        rewrite in_app_iff, HC. simpl. split; [intros [H|[H|[]]]; [auto|discriminate]|auto].
      - destruct (g_live s); [|inversion E; subst; rewrite ?app_nil_r; auto].
        destruct (ok && negb recheck); inversion E; subst; rewrite ?app_nil_r; auto.
        rewrite in_app_iff, HC. simpl. split; [intros [H|[H|[]]]; [auto|discriminate]|auto].
      - inversion E; subst. rewrite !app_nil_r. auto.
      - destruct (g_live s) eqn:L; [|inversion E; subst; rewrite ?app_nil_r; auto].
        destruct (gstate_eqb (g_state s) GComplete) eqn:G; inversion E; subst.
        + rewrite app_nil_r. rewrite in_app_iff, <- HC. simpl.
          apply gstate_eqb_true in G. pose proof (proj1 (Icomp eq_refl) G) as N.
          split; auto. intros [H|[H|[]]]; auto. subst; auto.
        + rewrite !in_app_iff, HC. simpl.
          split; intros [H|[H|[]]]; auto; try (inversion H; subst; auto); subst; auto. }
    specialize (IH s1 (tr ++ ev) comp1 I1 HC1 (stale_free_tail _ _ _ SF) WFb ORb).
    destruct (grun recheck s1 ops) as [[s2 rs] evs] eqn:R. simpl in IH |- *.
    rewrite app_assoc. destruct IH as [IH1 IH2]. split; auto.
    intros c. rewrite IH2. unfold comp1. cbn [completed_cycles snd fst]. cbv zeta. rewrite <- ST.
    destruct o, r as [[|]|[|]|]; simpl; rewrite <- ?app_assoc; simpl; rewrite ?app_nil_r; tauto.
Qed.

(* ---- C11_nil_candidate: the monitor holds on every history of the spec ------------------------- *)
Theorem gather_monitor_holds : forall recheck ops,
  stale_free recheck ops -> gwf g_init ops = true -> gordered g_init ops = true ->
  let s := fst (fst (grun recheck g_init ops)) in
  let rs := snd (fst (grun recheck g_init ops)) in
  let tr := snd (grun recheck g_init ops) in
  all_ok (C11_gather_checks (g_cycgen s) (g_cyc s) (dedup_nat (completed_cycles g_init ops rs)) tr) = true.
Proof.
  intros recheck ops SF WF OR s rs tr.
  destruct (run_inv recheck ops g_init [] [] gi_init (fun c => conj (fun H => H) (fun H => H)) SF WF OR)
    as [I HC]. simpl in I, HC. fold s rs tr in I, HC.
  destruct I as [Icand _ Inil Ionce _ Iafter].
  assert (H1 : cand_carries_cycle_ufrag (g_cycgen s) tr = true).
  { apply forallb_forall. intros [id c g|c] H; auto. destruct (Icand _ _ _ H) as [_ ->]. apply Nat.eqb_refl. }
  assert (H2 : one_nil_per_completed_cycle (dedup_nat (completed_cycles g_init ops rs)) tr = true).
  { apply forallb_forall. intros c H. apply (proj1 (in_dedup_nat _ _)) in H. apply (proj2 (HC c)) in H.
    pose proof (in_gcount_pos (is_nil_of c) tr _ H (proj2 (nil_of_true c _) eq_refl)).
    pose proof (Ionce c). apply Nat.eqb_eq. lia. }
  assert (H3 : no_nil_for_other_cycles (g_cyc s) (dedup_nat (completed_cycles g_init ops rs)) tr = true).
  { apply forallb_forall. intros c _.
    destruct (existsb (Nat.eqb c) (dedup_nat (completed_cycles g_init ops rs))) eqn:E; auto.
    apply Nat.eqb_eq. apply gcount_zero_not_in. intros x Hx.
    destruct (is_nil_of c x) eqn:P; auto. apply nil_of_true in P; subst.
    apply (proj1 (HC c)) in Hx.
    assert (F : existsb (Nat.eqb c) (dedup_nat (completed_cycles g_init ops rs)) = true).
    { apply existsb_exists. exists c. split; [apply (proj2 (in_dedup_nat _ _)); auto|apply Nat.eqb_refl]. }
    congruence. }
  assert (H4 : nil_after_cycle_candidates (g_cyc s) tr = true).
  { apply forallb_forall. intros c _. apply Nat.eqb_eq. apply Iafter. }
  unfold C11_gather_checks, all_ok. cbn [forallb snd]. rewrite H1, H2, H3, H4. reflexivity.
Qed.

(* consequences in Prop form, for every history *)
Corollary gather_props : forall recheck ops,
  stale_free recheck ops -> gwf g_init ops = true -> gordered g_init ops = true ->
  let s := fst (fst (grun recheck g_init ops)) in
  let rs := snd (fst (grun recheck g_init ops)) in
  let tr := snd (grun recheck g_init ops) in
  (* every candidate carries the ufrag of the generation its cycle was started in *)
  (forall id c g, In (GCand id c g) tr -> g = g_cycgen s c) /\
  (* a cycle whose Complete was applied emits exactly one nil; any other cycle (cancelled by
     Restart before completing, or never finished) emits none *)
  (forall c, In c (completed_cycles g_init ops rs) -> gcount (is_nil_of c) tr = 1) /\
  (forall c, ~ In c (completed_cycles g_init ops rs) -> gcount (is_nil_of c) tr = 0) /\
  (* the nil comes after all candidates of its cycle *)
  (forall c, gcount (is_cand_of c) (after_first (is_nil_of c) tr) = 0).
Proof.
  intros recheck ops SF WF OR s rs tr.
  destruct (run_inv recheck ops g_init [] [] gi_init (fun c => conj (fun H => H) (fun H => H)) SF WF OR)
    as [I HC]. simpl in I, HC. fold s rs tr in I, HC.
  destruct I as [Icand _ Inil Ionce _ Iafter].
  split; [|split; [|split]]; auto.
  - intros id c g H. destruct (Icand _ _ _ H); auto.
  - intros c H. apply (proj2 (HC c)) in H.
    pose proof (in_gcount_pos (is_nil_of c) tr _ H (proj2 (nil_of_true c _) eq_refl)).
    pose proof (Ionce c). lia.
  - intros c H. apply gcount_zero_not_in. intros x Hx.
    destruct (is_nil_of c x) eqn:P; auto. apply nil_of_true in P; subst. apply (proj1 (HC c)) in Hx. tauto.
Qed.

