(* C16: the extracted monitors accept what the model computes (outside the named finding classes) *)
From Coq Require Import ZArith NArith Bool String Ascii List Lia.
From Ice Require Import Model.Wrap Model.PrioSpec Model.Foundation Model.CandVariant Model.Cand
     Proofs.CandStrings Proofs.CandEqProofs Proofs.CandProofs.
Import ListNotations.
Local Open Scope string_scope.
Local Open Scope Z_scope.

Lemma exts_eqb_refl l : exts_eqb l l = true.
Proof. induction l as [|e l IH]; simpl; [reflexivity|]. now rewrite ext_eqb_refl, IH. Qed.

Lemma law_checks_ok (e0 e1 d0 d1 e4 d5 e6 d7 : bool) :
  e4 = true -> e6 = true -> d5 = true -> d7 = true -> e0 = e1 -> d0 = d1 ->
  (d0 = true -> e0 = true) -> (d1 = true -> e1 = true) ->
  all_ok (law_checks [e0; e1; d0; d1; e4; d5; e6; d7]) = true.
Proof.
  intros -> -> -> -> -> -> H1 H2. unfold all_ok, law_checks, nthb. cbn [forallb snd nth andb].
  rewrite !Bool.eqb_reflx. cbn [andb].
  destruct d1, e1; try reflexivity; exfalso; specialize (H1 eq_refl); discriminate.
Qed.

Lemma all_ok_app (a b : checks) : all_ok (a ++ b)%list = all_ok a && all_ok b.
Proof. unfold all_ok. apply forallb_app. Qed.

Section Mon.
Variable parse_addr : string -> option ipinfo.
Variable checksum : string -> N.
Hypothesis checksum_32 : forall s, (checksum s < 2 ^ 32)%N.

(* the conditions under which the model (= the code it follows) satisfies C16 on a candidate:
   each conjunct names one finding class *)
Definition lawful (c : cand) : Prop :=
  rel_ok c /\ first_ok c /\ ~ prio_zero_class c /\ (fix_deep_equal = true \/ c_tcp c = 0).

Lemma rt_monitor_sound s :
  (in_domain s = true \/ exists raw, s = SrcText raw) ->
  (forall c, build parse_addr s = Ok c -> lawful c) ->
  all_ok (C16_rt_checks s (rt_observe parse_addr checksum s)) = true.
Proof.
  intros Hs Hlaw. unfold rt_observe.
  destruct (build parse_addr s) as [c|e] eqn:Hb; [|reflexivity].
  destruct (Hlaw c eq_refl) as [Hrel [Hfirst [Hpz Hd]]].
  assert (RT : exists c', unmarshal parse_addr (marshal checksum c) = Ok c' /\
            observe checksum c' = observe checksum c /\ equal c c' = true /\ equal c' c = true /\
            (fix_deep_equal = true \/ c_tcp c = 0 -> deep_equal c c' = true /\ deep_equal c' c = true)).
  { destruct Hs as [Hdom | [raw ->]].
    - destruct s as [g adds|raw]; [|discriminate].
      exact (ctor_roundtrip parse_addr checksum g adds c checksum_32 Hdom Hb Hrel Hpz).
    - exact (text_roundtrip parse_addr checksum raw c checksum_32 Hb Hrel Hfirst). }
  destruct RT as [c' [Hu [Ho [E1 [E2 Hdeep]]]]]. destruct (Hdeep Hd) as [D1 D2].
  rewrite Hu.
  assert (Ht : c_tcp c' = c_tcp c) by (apply (f_equal o_tcp) in Ho; exact Ho).
  assert (Hd' : fix_deep_equal = true \/ c_tcp c' = 0) by (destruct Hd; [left|right]; congruence).
  assert (L : all_ok (law_checks [equal c c'; equal c' c; deep_equal c c'; deep_equal c' c;
                                  equal c c; deep_equal c c; equal c' c'; deep_equal c' c']) = true).
  { apply law_checks_ok; try apply equal_refl; try (now apply deep_equal_refl); try congruence. }
  destruct s as [g adds|raw]; cbn [C16_rt_checks].
  - rewrite all_ok_app, L, andb_true_r.
    destruct (in_domain (SrcCtor g adds)); [|reflexivity].
    rewrite Ho. unfold all_ok. cbn [forallb snd nthb nth].
    rewrite !String.eqb_refl, !Z.eqb_refl, exts_eqb_refl, E1, E2, D1, D2.
    destruct (o_rel (observe checksum c)) as [[a p]|]; cbn [opt_rel_eqb fst snd];
      rewrite ?String.eqb_refl, ?Z.eqb_refl; reflexivity.
  - unfold all_ok in *. cbn [forallb snd]. apply andb_true_iff. split; [|exact L].
    unfold nthb. cbn [nth]. now rewrite E1, E2.
Qed.

Lemma pair_monitor_sound sa sb :
  (forall a b, build parse_addr sa = Ok a -> build parse_addr sb = Ok b ->
               fix_deep_equal = true \/ c_tcp a = 0 \/ c_tcp b = 0) ->
  all_ok (C16_pair_checks (pair_observe parse_addr sa sb)) = true.
Proof.
  intros H. unfold pair_observe.
  destruct (build parse_addr sa) as [a|]; [|reflexivity].
  destruct (build parse_addr sb) as [b|]; [|reflexivity].
  specialize (H a b eq_refl eq_refl).
  unfold C16_pair_checks, all_ok, nthb. cbn [forallb snd nth].
  rewrite (equal_sym b a), (deep_equal_sym b a) by tauto.
  rewrite !Bool.eqb_reflx. cbn [andb].
  destruct (deep_equal a b) eqn:D; [|reflexivity].
  rewrite (deep_implies_equal _ _ D). reflexivity.
Qed.

End Mon.
