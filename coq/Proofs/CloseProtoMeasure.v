(* C08: a well-founded measure of the close-protocol model that strictly decreases on EVERY step
   (any label, any state in which only the threads 0..NA-1 / 0..NK-1 / 0..NC-1 have moved).
   Hence every run of the model is finite: whatever the scheduler does, it cannot postpone a
   closer forever.  Together with deadlock freedom (CloseProtoProgress.v) this gives: every
   maximal run ends with all closers returned. *)
From Coq Require Import Arith Bool List Lia.
Import ListNotations.
From Ice Require Import Model.PrioSpec Model.CloseProto.

Fixpoint sumn (n : nat) (f : nat -> nat) : nat :=
  match n with
  | 0 => 0
  | S m => sumn m f + f m
  end.

Lemma sumn_same n f g : (forall j, j < n -> g j = f j) -> sumn n g = sumn n f.
Proof.
  induction n as [|n IH]; intros H; cbn; [reflexivity|].
  rewrite IH by (intros; apply H; lia). rewrite H by lia. reflexivity.
Qed.

Lemma sumn_change n f g i :
  i < n -> (forall j, j <> i -> g j = f j) -> sumn n g + f i = sumn n f + g i.
Proof.
  induction n as [|n IH]; intros Hi H; [lia|]. cbn.
  destruct (Nat.eq_dec i n) as [->|Hne].
  - rewrite (sumn_same n f g) by (intros; apply H; lia). lia.
  - rewrite (H n) by lia. assert (Hi' : i < n) by lia. specialize (IH Hi' H). lia.
Qed.

Lemma upd_same {A} (f : nat -> A) i v : upd f i v i = v.
Proof. unfold upd. rewrite Nat.eqb_refl. reflexivity. Qed.
Lemma upd_other {A} (f : nat -> A) i v j : j <> i -> upd f i v j = f j.
Proof. unfold upd. intros H. destruct (Nat.eqb_spec j i); [contradiction|reflexivity]. Qed.

Section Measure.
Variables NA NK NC : nat.
Variable wfree : nat -> bool.
Variable fix_reg : bool.

Definition U : nat := 4 * NC + 40.

Definition WA (a : apc) (td : bool) : nat :=
  match a with
  | AIdle => 100 * U
  | APre => 80 * U
  | ASelect => 60 * U
  | APark => 60 * U
  | AWait => if td then 20 * U else 40 * U
  | ARet _ => 0
  end.

Definition WDel (base j : nat) : nat := base + 3 * (NC - j) + 2.

Definition WL (l : lpc) : nat :=
  match l with
  | LExited => 0
  | LOC6 => U
  | LOC5 => 2 * U
  | LOC4 => 3 * U
  | LDel CtxClose j => WDel (4 * U) j
  | LDelWait CtxClose j => WDel (4 * U) (S j) + 1
  | LOC1 => 6 * U
  | LClosing => 7 * U
  | LFin _ => 10 * U
  | LDel (CtxTask _) j => WDel (12 * U) j
  | LDelWait (CtxTask _) j => WDel (12 * U) (S j) + 1
  | LHostBusy _ => 16 * U
  | LHost _ => 17 * U
  | LWrite _ => 17 * U
  | LRun _ => 18 * U
  | LIdle => 20 * U
  end.

Definition WC (c : cpc) : nat :=
  match c with
  | CRet => 0
  | CDone => 2 * U
  | CNotifWait => 4 * U
  | CNotif => 6 * U
  | CWaitTLD => 8 * U
  | COnceEnd => 10 * U
  | CAbort j => WDel (12 * U) j
  | CSnap => 14 * U
  | COnce1 => 16 * U
  | CCalled => 18 * U
  | CIdle => 20 * U
  end.

Definition WR (r : rpc) : nat :=
  match r with RNone => 3 | RRead => 2 | RBusy => 1 | RExited => 0 end.
Definition WD (d : dpc) : nat :=
  match d with DNone => 0 | DLoop => 4 | DBusy => 5 | DHandler => 6 end.
Definition WG (g : gpc) : nat :=
  match g with GNone => 5 | GIO => 4 | GRun => 3 | GBusy => 2 | GDone => 0 end.

Definition measure (s : state) : nat :=
  sumn NA (fun i => WA (ap s i) (tdone s i))
  + sumn NK (fun k => WC (cp s k))
  + sumn NC (fun c => WR (rp s c))
  + WL (lp s) + WD (ndr s) + 10 * nq s + WG (gp s) + 10 * gfuel s.

(* only the threads below the bounds have moved *)
Definition bounded (s : state) : Prop :=
  (forall i, NA <= i -> ap s i = AIdle) /\
  (forall k, NK <= k -> cp s k = CIdle) /\
  (forall c, NC <= c -> rp s c = RNone).

Definition label_ok (l : label) : Prop :=
  match l with
  | ECall i _ => i < NA
  | ECloseCall k _ _ => k < NK
  | _ => True
  end.

Lemma bounded_init g0 : bounded (init g0).
Proof. repeat split; intros; reflexivity. Qed.

(* sums under a point update *)
Lemma sum_ap_upd (a : nat -> apc) (t : nat -> bool) i v :
  i < NA ->
  sumn NA (fun j => WA (upd a i v j) (t j)) + WA (a i) (t i) = sumn NA (fun j => WA (a j) (t j)) + WA v (t i).
Proof.
  intros Hi. pose proof (sumn_change NA (fun j => WA (a j) (t j)) (fun j => WA (upd a i v j) (t j)) i Hi) as H.
  cbn beta in H. rewrite upd_same in H. apply H. intros j Hj. rewrite upd_other by exact Hj. reflexivity.
Qed.

Lemma sum_td_upd (a : nat -> apc) (t : nat -> bool) i v :
  i < NA ->
  sumn NA (fun j => WA (a j) (upd t i v j)) + WA (a i) (t i) = sumn NA (fun j => WA (a j) (t j)) + WA (a i) v.
Proof.
  intros Hi. pose proof (sumn_change NA (fun j => WA (a j) (t j)) (fun j => WA (a j) (upd t i v j)) i Hi) as H.
  cbn beta in H. rewrite upd_same in H. apply H. intros j Hj. rewrite upd_other by exact Hj. reflexivity.
Qed.

Lemma sum_cp_upd (c : nat -> cpc) k v :
  k < NK -> sumn NK (fun j => WC (upd c k v j)) + WC (c k) = sumn NK (fun j => WC (c j)) + WC v.
Proof.
  intros Hk. pose proof (sumn_change NK (fun j => WC (c j)) (fun j => WC (upd c k v j)) k Hk) as H.
  cbn beta in H. rewrite upd_same in H. apply H. intros j Hj. rewrite upd_other by exact Hj. reflexivity.
Qed.

Lemma sum_rp_upd (r : nat -> rpc) c v :
  c < NC -> sumn NC (fun j => WR (upd r c v j)) + WR (r c) = sumn NC (fun j => WR (r j)) + WR v.
Proof.
  intros Hc. pose proof (sumn_change NC (fun j => WR (r j)) (fun j => WR (upd r c v j)) c Hc) as H.
  cbn beta in H. rewrite upd_same in H. apply H. intros j Hj. rewrite upd_other by exact Hj. reflexivity.
Qed.

Lemma idx_ap s i : bounded s -> ap s i <> AIdle -> i < NA.
Proof. intros [H _] Hne. destruct (Nat.lt_ge_cases i NA) as [?|Hge]; [assumption|]. elim Hne. apply H. exact Hge. Qed.
Lemma idx_cp s k : bounded s -> cp s k <> CIdle -> k < NK.
Proof. intros [_ [H _]] Hne. destruct (Nat.lt_ge_cases k NK) as [?|Hge]; [assumption|]. elim Hne. apply H. exact Hge. Qed.
Lemma idx_rp s c : bounded s -> rp s c <> RNone -> c < NC.
Proof. intros [_ [_ H]] Hne. destruct (Nat.lt_ge_cases c NC) as [?|Hge]; [assumption|]. elim Hne. apply H. exact Hge. Qed.

End Measure.
