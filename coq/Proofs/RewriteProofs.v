(* C19: lemmas about the address-rewrite model (Model/Rewrite.v). *)
From Coq Require Import ZArith Bool String List Lia.
From Ice Require Import Model.PrioSpec Model.Rewrite Gen.Names Gen.RewriteFns.
Import ListNotations.
Local Open Scope Z_scope.

(* ------------------------------------------------------------------ basics *)

Lemma addr_eqb_refl a : addr_eqb a a = true.
Proof. destruct a as [f n]. unfold addr_eqb. simpl. rewrite eqb_reflx, Z.eqb_refl. reflexivity. Qed.

Lemma addr_eqb_eq a b : addr_eqb a b = true <-> a = b.
Proof.
  destruct a as [f n], b as [g k]. unfold addr_eqb. simpl. rewrite andb_true_iff, eqb_true_iff, Z.eqb_eq.
  split; [intros [-> ->]; reflexivity | intros H; inversion H; auto].
Qed.

Lemma addrs_eqb_refl l : addrs_eqb l l = true.
Proof. induction l as [|a l IH]; simpl; [reflexivity | rewrite addr_eqb_refl, IH; reflexivity]. Qed.

Lemma lres_eqb_refl x : lres_eqb x x = true.
Proof. destruct x as [[i m] o]. simpl. rewrite addrs_eqb_refl, eqb_reflx, Z.eqb_refl. reflexivity. Qed.

Lemma is_v4_gen n : NetworkType_IsIPv4 n = net_is_v4 n.
Proof. unfold NetworkType_IsIPv4, net_is_v4. destruct (n =? 1), (n =? 3), (n =? 2), (n =? 4); reflexivity. Qed.
Lemma is_v6_gen n : NetworkType_IsIPv6 n = net_is_v6 n.
Proof.
  unfold NetworkType_IsIPv6, net_is_v6.
  destruct (Z.eqb_spec n 1), (Z.eqb_spec n 3), (Z.eqb_spec n 2), (Z.eqb_spec n 4); subst; simpl; try reflexivity; lia.
Qed.

Lemma existsb_ext_eq {A} (f g : A -> bool) l : (forall x, f x = g x) -> existsb f l = existsb g l.
Proof. intros H. induction l; simpl; [reflexivity | rewrite H, IHl; reflexivity]. Qed.

(* ------------------------------------------------------------------ the catch-all fold *)

Definition centry := (list addr * Z * Z)%type.

Fixpoint fold_catch (cs : list centry) (acc : option centry) : option centry :=
  match cs with
  | [] => acc
  | c :: rest =>
      match acc with
      | None => fold_catch rest (Some c)
      | Some a => if snd a <? snd c then fold_catch rest (Some c) else fold_catch rest acc
      end
  end.

Definition rank_ok (c : centry) : Prop := 0 <= snd c <= 3.

Lemma rank_cases (c : centry) : rank_ok c -> snd c = 0 \/ snd c = 1 \/ snd c = 2 \/ snd c = 3.
Proof. unfold rank_ok. lia. Qed.

Lemma best_catch_cons2 (a c : centry) cs :
  rank_ok a -> rank_ok c ->
  best_catch (a :: c :: cs) = if snd a <? snd c then best_catch (c :: cs) else best_catch (a :: cs).
Proof.
  intros Ha Hc. unfold best_catch, with_rank. simpl.
  destruct (rank_cases a Ha) as [Ea | [Ea | [Ea | Ea]]], (rank_cases c Hc) as [Ec | [Ec | [Ec | Ec]]];
    rewrite Ea, Ec; simpl;
    repeat match goal with |- context [filter ?f cs] => destruct (filter f cs) end; reflexivity.
Qed.

Lemma fold_catch_some cs : forall a, Forall rank_ok (a :: cs) -> fold_catch cs (Some a) = best_catch (a :: cs).
Proof.
  induction cs as [|c cs IH]; intros a H.
  - simpl. inversion H as [|? ? Ha _]; subst. unfold best_catch, with_rank. simpl.
    destruct (rank_cases a Ha) as [E | [E | [E | E]]]; rewrite E; reflexivity.
  - inversion H as [|? ? Ha H']; subst. inversion H' as [|? ? Hc Hcs]; subst.
    simpl. rewrite best_catch_cons2 by assumption.
    destruct (snd a <? snd c); apply IH; constructor; assumption.
Qed.

Lemma fold_catch_none cs : Forall rank_ok cs -> fold_catch cs None = best_catch cs.
Proof.
  destruct cs as [|c cs]; intros H; [reflexivity|].
  simpl. apply fold_catch_some. exact H.
Qed.

(* ------------------------------------------------------------------ evaluateRewriteRules as views *)

Definition rm_view (loc : addr) (iface : string) (rm : rmap) : view :=
  match mapping_for_lookup rm loc iface with
  | None => VNone
  | Some m =>
      match map_get (m_map m) loc with
      | Some e => VExplicit e (rm_mode rm)
      | None => if m_catchall m then VCatch (m_sole m) (rm_mode rm) (rm_specificity rm iface) else VNone
      end
  end.

Definition finish (o : option centry) : lres :=
  match o with Some (ips, mode, _) => (ips, true, mode) | None => ([], false, 0) end.

Lemma eval_rules_views loc iface rules : forall ca,
  eval_rules rules loc iface ca =
  match first_explicit (map (rm_view loc iface) rules) with
  | Some (ips, mode) => (ips, true, mode)
  | None => finish (fold_catch (catches (map (rm_view loc iface) rules)) ca)
  end.
Proof.
  induction rules as [|r rules IH]; intros ca.
  - simpl. destruct ca as [[[ips mode] b]|]; reflexivity.
  - simpl. unfold rm_view in *. destruct (mapping_for_lookup r loc iface) as [m|]; [|apply IH].
    destruct (map_get (m_map m) loc) as [e|]; [reflexivity|].
    destruct (m_catchall m); [|apply IH].
    simpl. destruct ca as [[[ips mode] b]|]; [|apply IH].
    simpl. destruct (b <? rm_specificity r iface); apply IH.
Qed.

Lemma pick_fold vs : Forall rank_ok (catches vs) ->
  pick vs = match first_explicit vs with
            | Some (ips, mode) => (ips, true, mode)
            | None => finish (fold_catch (catches vs) None)
            end.
Proof.
  intros H. unfold pick. destruct (first_explicit vs) as [[ips mode]|]; [reflexivity|].
  rewrite fold_catch_none by exact H. unfold finish. destruct (best_catch (catches vs)) as [[[i m] k]|]; reflexivity.
Qed.

(* ------------------------------------------------------------------ addExternalMappings in closed form *)

Definition all_good (ext : list xstr) : bool := forallb (fun x => is_good (snd x)) ext.

Definition ipm_app (m : ipmapping) (S : list addr) : ipmapping :=
  if is_nil S then m else mkIpm (m_sole m ++ S) (m_map m) true true.

Definition tgt (c : option cidr) (e : addr) : bool := match c with Some c => cidr_v4 c | None => fst e end.

Lemma ipm_app_add_sole m e S : ipm_app (add_sole m e) S = ipm_app m (e :: S).
Proof.
  unfold ipm_app, add_sole. destruct S as [|s S]; simpl; [reflexivity|].
  rewrite <- app_assoc. reflexivity.
Qed.

Lemma add_externals_catch ext : forall rm added,
  add_externals ext rm None added =
  if all_good ext then
    let S4 := if rm_allow4 rm then filter (fun e => Bool.eqb (tgt (rm_cidr rm) e) true) (good_addrs ext) else [] in
    let S6 := if rm_allow6 rm then filter (fun e => Bool.eqb (tgt (rm_cidr rm) e) false) (good_addrs ext) else [] in
    Some (mkRmap (rm_iface rm) (rm_cidr rm) (rm_mode rm) (ipm_app (rm_v4 rm) S4) (ipm_app (rm_v6 rm) S6)
                 (rm_allow4 rm) (rm_allow6 rm),
          added || negb (is_nil S4) || negb (is_nil S6))
  else None.
Proof.
  unfold all_good.
  induction ext as [|[id s] ext IH]; intros rm added.
  - destruct rm as [ifc c md v4 v6 a4 a6]. simpl. destruct a4, a6; simpl; rewrite !orb_false_r; reflexivity.
  - destruct s as [| | |e]; try reflexivity.
    destruct rm as [ifc c md v4 v6 a4 a6].
    cbn [add_externals forallb is_good snd andb good_addrs].
    unfold family_allowed, isFamilyAllowed. cbn [rm_cidr rm_allow4 rm_allow6].
    fold (tgt c e).
    destruct (tgt c e) eqn:Et; [destruct a4 | destruct a6]; rewrite IH;
      cbn [rm_iface rm_cidr rm_mode rm_v4 rm_v6 rm_allow4 rm_allow6 add_implicit mapping_for_family set_mapping_for_family];
      match goal with |- context [forallb ?f ext] => destruct (forallb f ext) end; try reflexivity;
      cbn [filter]; rewrite ?Et; cbn [Bool.eqb];
      rewrite ?ipm_app_add_sole; cbn [is_nil negb]; rewrite ?orb_true_r; try reflexivity.
Qed.

Lemma map_get_set_same mp l v : map_get (map_set mp l v) l = Some v.
Proof.
  induction mp as [|[k x] mp IH]; simpl.
  - rewrite addr_eqb_refl. reflexivity.
  - destruct (addr_eqb k l) eqn:E; simpl; rewrite E; [reflexivity | exact IH].
Qed.

Lemma map_set_set mp l v w : map_set (map_set mp l v) l w = map_set mp l w.
Proof.
  induction mp as [|[k x] mp IH]; simpl.
  - rewrite addr_eqb_refl. reflexivity.
  - destruct (addr_eqb k l) eqn:E; simpl; rewrite E; [reflexivity | rewrite IH; reflexivity].
Qed.

Definition ipm_mapapp (m : ipmapping) (l : addr) (S : list addr) : ipmapping :=
  if is_nil S then m else
  mkIpm (m_sole m)
        (map_set (m_map m) l ((match map_get (m_map m) l with Some x => x | None => [] end) ++ S))
        true (m_catchall m).

Arguments ipm_mapapp : simpl never.
Arguments ipm_app : simpl never.

Lemma ipm_mapapp_add m l e S : ipm_mapapp (add_ip_mapping m l e) l S = ipm_mapapp m l (e :: S).
Proof.
  unfold ipm_mapapp, add_ip_mapping. destruct S as [|s S]; simpl; [reflexivity|].
  rewrite map_get_set_same, map_set_set, <- app_assoc. reflexivity.
Qed.

Lemma add_externals_local ext : forall rm l added,
  add_externals ext rm (Some l) added =
  if all_good ext then
    if family_allowed rm (fst l) then
      Some (set_mapping_for_family rm (fst l) (ipm_mapapp (mapping_for_family rm (fst l)) l (good_addrs ext)),
            added || negb (is_nil (good_addrs ext)))
    else Some (rm, added)
  else None.
Proof.
  unfold all_good.
  induction ext as [|[id s] ext IH]; intros rm l added.
  - destruct rm as [ifc c md v4 v6 a4 a6]. simpl. unfold family_allowed, isFamilyAllowed. simpl.
    rewrite orb_false_r. destruct (fst l), a4, a6; reflexivity.
  - destruct s as [| | |e]; try reflexivity.
    cbn [add_externals forallb is_good snd andb good_addrs].
    destruct rm as [ifc c md v4 v6 a4 a6]. unfold family_allowed, isFamilyAllowed in *.
    cbn [rm_allow4 rm_allow6] in *.
    destruct (fst l) eqn:El; [destruct a4 | destruct a6]; rewrite IH; rewrite ?El; cbn;
      match goal with |- context [forallb ?f ext] => destruct (forallb f ext) end; try reflexivity;
      rewrite ?ipm_mapapp_add; rewrite ?orb_true_r; reflexivity.
Qed.

(* ------------------------------------------------------------------ one rule, compiled, in closed form *)

Definition rmode (r : rule) : Z := if r_mode r =? 0 then defaultAddressRewriteMode (eff_type r) else r_mode r.

Lemma rmode_eq r : rmode r = eff_mode r.
Proof.
  unfold rmode, eff_mode, defaultAddressRewriteMode, eff_type. cbv zeta.
  destruct (r_mode r =? 0); [|reflexivity].
  (* independent of the shape of the translated expression: decide the comparisons, innermost first *)
  repeat (cbv beta iota;
          match goal with
          | |- context [Z.eqb ?a ?b] =>
            lazymatch a with
            | context [Z.eqb _ _] => fail
            | _ => lazymatch b with context [Z.eqb _ _] => fail | _ => destruct (Z.eqb_spec a b) end
            end
          end);
    cbn [orb andb negb]; first [reflexivity | exfalso; lia].
Qed.

Lemma default_mode_nonzero ty : defaultAddressRewriteMode ty <> 0.
Proof.
  unfold defaultAddressRewriteMode. cbv zeta.
  repeat match goal with |- context [Z.eqb ?a ?b] => destruct (Z.eqb a b) end; cbn [orb andb negb]; discriminate.
Qed.

Definition catch_ipm (r : rule) (f : bool) : ipmapping :=
  if offers_nothing r then (if net_allows r f then mkIpm [] [] true true else new_ipmapping)
  else ipm_app new_ipmapping (offers r f).

Definition rm_start (r : rule) : rmap :=
  mkRmap (r_iface r) (cidr_of r) (rmode r) new_ipmapping new_ipmapping (net_allows r true) (net_allows r false).

Definition final_catch (r : rule) : rmap :=
  mkRmap (r_iface r) (cidr_of r) (rmode r) (catch_ipm r true) (catch_ipm r false)
         (net_allows r true) (net_allows r false).

Definition final_local (r : rule) (l : addr) : rmap :=
  set_mapping_for_family (rm_start r) (fst l) (mkIpm [] [(l, exts r)] true false).

Definition local_in_cidr (r : rule) (l : addr) : bool :=
  match cidr_of r with Some c => cidr_contains c l | None => true end.

Definition compile_rule_cf (r : rule) : crule :=
  if eff_type r =? 3 then CRErr 2 else
  if rule_ignored r then CRSkip else
  match r_cidr r with
  | CBad => CRErr 1
  | _ =>
    match r_local r with
    | SEmpty =>
        if all_good (r_external r)
        then (if has_mappings (final_catch r) then CRRule (eff_type r) (final_catch r) else CRSkip)
        else CRErr 1
    | SGood l =>
        if local_in_cidr r l then
          if all_good (r_external r)
          then (if net_allows r (fst l) then CRRule (eff_type r) (final_local r l) else CRSkip)
          else CRErr 1
        else CRErr 1
    | _ => CRErr 1
    end
  end.

Lemma catch_after_mark r :
  maybe_mark_empty
    (mkRmap (r_iface r) (cidr_of r) (rmode r) (ipm_app new_ipmapping (offers r true))
            (ipm_app new_ipmapping (offers r false)) (net_allows r true) (net_allows r false))
    (false || negb (is_nil (offers r true)) || negb (is_nil (offers r false))) None
  = final_catch r.
Proof.
  unfold final_catch, catch_ipm, offers_nothing, maybe_mark_empty.
  destruct (offers r true) eqn:E4, (offers r false) eqn:E6; cbn; try reflexivity.
  destruct (net_allows r true), (net_allows r false); reflexivity.
Qed.

Lemma catch_part r c : cidr_of r = c ->
  match add_externals (r_external r)
          (mkRmap (r_iface r) c (rmode r) new_ipmapping new_ipmapping (net_allows r true) (net_allows r false))
          None false with
  | Some (rm1, added) =>
      if has_mappings (maybe_mark_empty rm1 added None)
      then CRRule (eff_type r) (maybe_mark_empty rm1 added None) else CRSkip
  | None => CRErr 1
  end =
  if all_good (r_external r)
  then (if has_mappings (final_catch r) then CRRule (eff_type r) (final_catch r) else CRSkip)
  else CRErr 1.
Proof.
  intros <-. rewrite add_externals_catch. destruct (all_good (r_external r)); [|reflexivity].
  cbn [rm_iface rm_cidr rm_mode rm_v4 rm_v6 rm_allow4 rm_allow6].
  change (if net_allows r true then filter (fun e => Bool.eqb (tgt (cidr_of r) e) true) (good_addrs (r_external r)) else [])
    with (offers r true).
  change (if net_allows r false then filter (fun e => Bool.eqb (tgt (cidr_of r) e) false) (good_addrs (r_external r)) else [])
    with (offers r false).
  rewrite catch_after_mark. reflexivity.
Qed.

Lemma local_part r c l : cidr_of r = c ->
  match add_externals (r_external r)
          (mkRmap (r_iface r) c (rmode r) new_ipmapping new_ipmapping (net_allows r true) (net_allows r false))
          (Some l) false with
  | Some (rm1, added) =>
      if has_mappings (maybe_mark_empty rm1 added (Some l))
      then CRRule (eff_type r) (maybe_mark_empty rm1 added (Some l)) else CRSkip
  | None => CRErr 1
  end =
  if all_good (r_external r)
  then (if net_allows r (fst l) then CRRule (eff_type r) (final_local r l) else CRSkip)
  else CRErr 1.
Proof.
  intros <-. rewrite add_externals_local. destruct (all_good (r_external r)); [|reflexivity].
  unfold family_allowed, isFamilyAllowed, final_local, rm_start, exts.
  cbn [rm_allow4 rm_allow6].
  destruct (fst l) eqn:Ef.
  - destruct (net_allows r true) eqn:Ea.
    + unfold maybe_mark_empty, family_allowed, isFamilyAllowed, ipm_mapapp.
      destruct (good_addrs (r_external r)) eqn:Eg; cbn; rewrite ?Ef, ?Ea; cbn; rewrite ?addr_eqb_refl; reflexivity.
    + unfold maybe_mark_empty, family_allowed, isFamilyAllowed. cbn. rewrite ?Ef. cbn. rewrite ?Ea. reflexivity.
  - destruct (net_allows r false) eqn:Ea.
    + unfold maybe_mark_empty, family_allowed, isFamilyAllowed, ipm_mapapp.
      destruct (good_addrs (r_external r)) eqn:Eg; cbn; rewrite ?Ef, ?Ea; cbn; rewrite ?addr_eqb_refl; reflexivity.
    + unfold maybe_mark_empty, family_allowed, isFamilyAllowed. cbn. rewrite ?Ef. cbn. rewrite ?Ea. reflexivity.
Qed.

Lemma compile_rule_closed r : compile_rule r = compile_rule_cf r.
Proof.
  unfold compile_rule, compile_rule_cf.
  change (if r_type r =? 0 then 1 else r_type r) with (eff_type r).
  destruct (eff_type r =? 3); [reflexivity|].
  cbv zeta.
  assert (Hig : (match r_networks r with [] => false | _ :: _ => true end
                 && negb (if match r_networks r with [] => false | _ :: _ => true end
                          then existsb NetworkType_IsIPv4 (r_networks r) else true)
                 && negb (if match r_networks r with [] => false | _ :: _ => true end
                          then existsb NetworkType_IsIPv6 (r_networks r) else true)) = rule_ignored r).
  { unfold rule_ignored, net_allows. destruct (r_networks r) as [|n ns]; [reflexivity|].
    rewrite (existsb_ext_eq _ _ _ is_v4_gen), (existsb_ext_eq _ _ _ is_v6_gen). reflexivity. }
  rewrite Hig. clear Hig. destruct (rule_ignored r); [reflexivity|].
  assert (H4 : (if match r_networks r with [] => false | _ :: _ => true end
                then existsb NetworkType_IsIPv4 (r_networks r) else true) = net_allows r true).
  { unfold net_allows. destruct (r_networks r); [reflexivity|]. apply existsb_ext_eq, is_v4_gen. }
  assert (H6 : (if match r_networks r with [] => false | _ :: _ => true end
                then existsb NetworkType_IsIPv6 (r_networks r) else true) = net_allows r false).
  { unfold net_allows. destruct (r_networks r); [reflexivity|]. apply existsb_ext_eq, is_v6_gen. }
  rewrite H4, H6. clear H4 H6.
  change (if r_mode r =? 0 then defaultAddressRewriteMode (eff_type r) else r_mode r) with (rmode r).
  destruct (r_cidr r) as [| |c] eqn:Ec; try reflexivity;
    (destruct (r_local r) as [| | |l] eqn:El; try reflexivity;
     [ apply catch_part; unfold cidr_of; rewrite Ec; reflexivity
     | unfold local_in_cidr, cidr_of; rewrite Ec;
       try (destruct (cidr_contains c l); [|reflexivity]);
       apply local_part; unfold cidr_of; rewrite Ec; reflexivity ]).
Qed.

(* ------------------------------------------------------------------ what a compiled rule shows to a key *)

Lemma offers_not_allowed r f : net_allows r f = false -> offers r f = [].
Proof. intros H. unfold offers. rewrite H. reflexivity. Qed.

Lemma catch_valid r f :
  m_valid (catch_ipm r f) = net_allows r f && (negb (is_nil (offers r f)) || offers_nothing r).
Proof.
  unfold catch_ipm. destruct (offers_nothing r) eqn:En.
  - rewrite orb_true_r, andb_true_r. destruct (net_allows r f); reflexivity.
  - rewrite orb_false_r. destruct (net_allows r f) eqn:Ea.
    + unfold ipm_app. destruct (offers r f); reflexivity.
    + rewrite (offers_not_allowed _ _ Ea). reflexivity.
Qed.

Lemma catch_catchall r f : m_catchall (catch_ipm r f) = m_valid (catch_ipm r f).
Proof.
  unfold catch_ipm. destruct (offers_nothing r); [destruct (net_allows r f); reflexivity|].
  unfold ipm_app. destruct (offers r f); reflexivity.
Qed.

Lemma offers_nothing_nil r f : offers_nothing r = true -> offers r f = [].
Proof.
  unfold offers_nothing. rewrite andb_true_iff. intros [H4 H6].
  destruct f; [destruct (offers r true) | destruct (offers r false)]; simpl in *; congruence.
Qed.

Lemma catch_sole r f : m_sole (catch_ipm r f) = offers r f.
Proof.
  unfold catch_ipm. destruct (offers_nothing r) eqn:En.
  - rewrite (offers_nothing_nil _ f En). destruct (net_allows r f); reflexivity.
  - unfold ipm_app. destruct (offers r f); reflexivity.
Qed.

Lemma catch_map r f : m_map (catch_ipm r f) = [].
Proof.
  unfold catch_ipm. destruct (offers_nothing r); [destruct (net_allows r f); reflexivity|].
  unfold ipm_app. destruct (offers r f); reflexivity.
Qed.

Lemma iface_cond rif iface :
  negb (String.eqb rif "") && negb (String.eqb rif iface) = negb (String.eqb rif "" || String.eqb rif iface).
Proof. destruct (String.eqb rif ""), (String.eqb rif iface); reflexivity. Qed.

Lemma view_final_catch r loc iface : r_local r = SEmpty ->
  rm_view loc iface (final_catch r) = spec_view (code_rank iface) (eff_type r) loc iface r.
Proof.
  intros Hl.
  unfold rm_view, mapping_for_lookup, spec_view, explicit_match, catchall_match, scope_match, local_of.
  rewrite Hl, Z.eqb_refl, andb_false_r. cbn [rm_iface rm_cidr final_catch andb].
  rewrite iface_cond.
  replace (mapping_for_family (final_catch r) (fst loc)) with (catch_ipm r (fst loc))
    by (unfold final_catch; destruct (fst loc); reflexivity).
  destruct (String.eqb (r_iface r) "" || String.eqb (r_iface r) iface); [|reflexivity].
  cbn [negb andb].
  destruct (cidr_of r) as [c|] eqn:Ec.
  - destruct (cidr_contains c loc); cbn [negb andb]; [|reflexivity].
    rewrite catch_valid. rewrite andb_true_r.
    destruct (net_allows r (fst loc) && (negb (is_nil (offers r (fst loc))) || offers_nothing r)) eqn:Ev; [|reflexivity].
    rewrite catch_map, catch_catchall, catch_valid, Ev, catch_sole. cbn [map_get].
    unfold rm_specificity, code_rank. cbn [rm_iface rm_cidr rm_mode final_catch]. rewrite Ec, rmode_eq. reflexivity.
  - cbn [negb andb].
    rewrite catch_valid. rewrite andb_true_r.
    destruct (net_allows r (fst loc) && (negb (is_nil (offers r (fst loc))) || offers_nothing r)) eqn:Ev; [|reflexivity].
    rewrite catch_map, catch_catchall, catch_valid, Ev, catch_sole. cbn [map_get].
    unfold rm_specificity, code_rank. cbn [rm_iface rm_cidr rm_mode final_catch]. rewrite Ec, rmode_eq. reflexivity.
Qed.

Lemma addr_eqb_fst a b : addr_eqb a b = true -> fst a = fst b.
Proof. intros H. apply addr_eqb_eq in H. subst. reflexivity. Qed.

Lemma view_skip_catch r rank ty loc iface :
  r_local r = SEmpty -> has_mappings (final_catch r) = false -> spec_view rank ty loc iface r = VNone.
Proof.
  intros Hl Hm. unfold has_mappings, hasMappings, final_catch in Hm. cbn [rm_v4 rm_v6] in Hm.
  apply orb_false_iff in Hm. destruct Hm as [H4 H6]. rewrite catch_valid in H4, H6.
  unfold spec_view, explicit_match, catchall_match, scope_match, local_of. rewrite Hl.
  rewrite andb_false_r.
  destruct (fst loc);
    [ destruct (net_allows r true); [|rewrite !andb_false_r; reflexivity]
    | destruct (net_allows r false); [|rewrite !andb_false_r; reflexivity] ];
    cbn [andb] in *; [rewrite H4 | rewrite H6]; rewrite !andb_false_r; reflexivity.
Qed.

Lemma view_final_local r l loc iface : r_local r = SGood l -> net_allows r (fst l) = true ->
  rm_view loc iface (final_local r l) = spec_view (code_rank iface) (eff_type r) loc iface r.
Proof.
  intros Hl Ha.
  unfold rm_view, mapping_for_lookup, spec_view, explicit_match, catchall_match, scope_match, local_of.
  rewrite Hl, Z.eqb_refl. rewrite !andb_false_r.
  replace (rm_iface (final_local r l)) with (r_iface r) by (unfold final_local; destruct (fst l); reflexivity).
  replace (rm_cidr (final_local r l)) with (cidr_of r) by (unfold final_local; destruct (fst l); reflexivity).
  replace (rm_mode (final_local r l)) with (eff_mode r) by (rewrite <- rmode_eq; unfold final_local; destruct (fst l); reflexivity).
  rewrite iface_cond.
  destruct (String.eqb (r_iface r) "" || String.eqb (r_iface r) iface); [|reflexivity].
  cbn [negb andb].
  assert (Hcid : (match cidr_of r with Some c => negb (cidr_contains c loc) | None => false end)
                 = negb (match cidr_of r with Some c => cidr_contains c loc | None => true end))
    by (destruct (cidr_of r); reflexivity).
  rewrite Hcid. clear Hcid.
  destruct (match cidr_of r with Some c => cidr_contains c loc | None => true end); [|reflexivity].
  cbn [negb andb].
  destruct (addr_eqb l loc) eqn:Eq.
  - assert (Hf := addr_eqb_fst _ _ Eq). rewrite <- Hf, Ha. cbn [andb].
    unfold final_local. destruct (fst l); cbn; rewrite Eq; reflexivity.
  - rewrite andb_false_r.
    unfold final_local. destruct (fst l), (fst loc); cbn; rewrite ?Eq; reflexivity.
Qed.

Lemma view_skip_local r l rank ty loc iface :
  r_local r = SGood l -> net_allows r (fst l) = false -> spec_view rank ty loc iface r = VNone.
Proof.
  intros Hl Ha. unfold spec_view, explicit_match, catchall_match, scope_match, local_of. rewrite Hl.
  rewrite !andb_false_r.
  destruct (addr_eqb l loc) eqn:Eq; [|rewrite andb_false_r; reflexivity].
  rewrite <- (addr_eqb_fst _ _ Eq), Ha. rewrite !andb_false_r. reflexivity.
Qed.

Lemma view_ignored r rank ty loc iface : rule_ignored r = true -> spec_view rank ty loc iface r = VNone.
Proof.
  unfold rule_ignored. rewrite !andb_true_iff, !negb_true_iff. intros [[_ H4] H6].
  unfold spec_view, explicit_match, catchall_match, scope_match.
  destruct (fst loc); rewrite ?H4, ?H6, !andb_false_r; reflexivity.
Qed.

Lemma compile_rule_view r :
  match compile_rule r with
  | CRErr _ => True
  | CRSkip => forall rank ty loc iface, spec_view rank ty loc iface r = VNone
  | CRRule ty rm => ty = eff_type r /\
                    forall loc iface, rm_view loc iface rm = spec_view (code_rank iface) (eff_type r) loc iface r
  end.
Proof.
  rewrite compile_rule_closed. unfold compile_rule_cf.
  destruct (eff_type r =? 3); [exact I|].
  destruct (rule_ignored r) eqn:Ei; [intros; apply view_ignored; exact Ei|].
  destruct (r_cidr r); try exact I;
    (destruct (r_local r) as [| | |l] eqn:El; try exact I;
     [ destruct (all_good (r_external r)); [|exact I];
       destruct (has_mappings (final_catch r)) eqn:Hm;
       [ split; [reflexivity | intros; apply view_final_catch; exact El]
       | intros; apply view_skip_catch; assumption ]
     | destruct (local_in_cidr r l); [|exact I];
       destruct (all_good (r_external r)); [|exact I];
       destruct (net_allows r (fst l)) eqn:Ha;
       [ split; [reflexivity | intros; apply view_final_local; assumption]
       | intros; eapply view_skip_local; eassumption ] ]).
Qed.

(* ------------------------------------------------------------------ lookup = the precedence statement *)

Lemma spec_view_other_type rank ty loc iface r : (eff_type r =? ty) = false -> spec_view rank ty loc iface r = VNone.
Proof.
  intros H. unfold spec_view, explicit_match, catchall_match, scope_match. rewrite H. reflexivity.
Qed.

Lemma views_agree rs : forall m, compile rs = COk m -> forall ty loc iface,
  first_explicit (map (rm_view loc iface) (rules_for m ty))
    = first_explicit (map (spec_view (code_rank iface) ty loc iface) rs)
  /\ catches (map (rm_view loc iface) (rules_for m ty))
    = catches (map (spec_view (code_rank iface) ty loc iface) rs).
Proof.
  induction rs as [|r rs IH]; intros m Hc ty loc iface.
  - simpl in Hc. inversion Hc. subst. split; reflexivity.
  - simpl in Hc. pose proof (compile_rule_view r) as Hv.
    destruct (compile_rule r) as [c| |ty' rm]; [discriminate| |].
    + specialize (IH m Hc ty loc iface). simpl. rewrite Hv. exact IH.
    + destruct (compile rs) as [c|m'] eqn:Er; [discriminate|]. inversion Hc; subst m. clear Hc.
      destruct Hv as [-> Hv]. specialize (IH m' eq_refl ty loc iface).
      unfold rules_for in *. simpl. destruct (eff_type r =? ty) eqn:Et.
      * apply Z.eqb_eq in Et. subst ty. simpl. rewrite Hv.
        destruct (spec_view (code_rank iface) (eff_type r) loc iface r); destruct IH as [IH1 IH2];
          simpl; rewrite ?IH1, ?IH2; split; reflexivity.
      * rewrite (spec_view_other_type _ _ _ _ _ Et). exact IH.
Qed.

Lemma code_rank_range iface r : 0 <= code_rank iface r <= 3.
Proof.
  unfold code_rank, catchAllSpecificity.
  destruct (negb (String.eqb (r_iface r) "")), (cidr_of r), (String.eqb iface ""); simpl; lia.
Qed.

Lemma doc_rank_range r : 0 <= doc_rank r <= 3.
Proof. unfold doc_rank. destruct (String.eqb (r_iface r) ""), (cidr_of r); simpl; lia. Qed.

Lemma catches_rank_ok rank ty loc iface rs :
  (forall r, 0 <= rank r <= 3) -> Forall rank_ok (catches (map (spec_view rank ty loc iface) rs)).
Proof.
  intros Hr. induction rs as [|r rs IH]; simpl; [constructor|].
  unfold spec_view at 1. destruct (explicit_match r ty loc iface); [exact IH|].
  destruct (catchall_match r ty loc iface); [|exact IH].
  constructor; [apply Hr | exact IH].
Qed.

Theorem lookup_code_precedence rs m ty loc iface :
  compile rs = COk m -> lookup m ty loc iface = code_precedence_lookup rs ty loc iface.
Proof.
  intros Hc. unfold lookup, code_precedence_lookup.
  rewrite eval_rules_views.
  destruct (views_agree rs m Hc ty loc iface) as [H1 H2]. rewrite H1, H2.
  rewrite pick_fold by (apply catches_rank_ok; apply code_rank_range).
  reflexivity.
Qed.

(* ------------------------------------------------------------------ documented rank vs the rank the code uses *)

Definition demote (iface : string) (k : Z) : Z := if String.eqb iface "" then k else if k =? 1 then 0 else k.
Definition dm (iface : string) (c : centry) : centry := (fst c, demote iface (snd c)).

Lemma code_rank_demote iface r : code_rank iface r = demote iface (doc_rank r).
Proof.
  unfold code_rank, doc_rank, demote, catchAllSpecificity.
  destruct (String.eqb (r_iface r) ""), (cidr_of r), (String.eqb iface ""); reflexivity.
Qed.

Lemma first_explicit_rank_indep rk1 rk2 ty loc iface rs :
  first_explicit (map (spec_view rk1 ty loc iface) rs) = first_explicit (map (spec_view rk2 ty loc iface) rs).
Proof.
  induction rs as [|r rs IH]; [reflexivity|]. simpl. unfold spec_view in *.
  destruct (explicit_match r ty loc iface); [reflexivity|].
  destruct (catchall_match r ty loc iface); exact IH.
Qed.

Lemma catches_demote ty loc iface rs :
  catches (map (spec_view (code_rank iface) ty loc iface) rs)
  = map (dm iface) (catches (map (spec_view doc_rank ty loc iface) rs)).
Proof.
  induction rs as [|r rs IH]; [reflexivity|]. simpl. unfold spec_view in *.
  destruct (explicit_match r ty loc iface); [exact IH|].
  destruct (catchall_match r ty loc iface); [|exact IH].
  simpl. rewrite IH, code_rank_demote. reflexivity.
Qed.

Lemma filter_map_comm {A B} (p : B -> bool) (f : A -> B) l : filter p (map f l) = map f (filter (fun x => p (f x)) l).
Proof. induction l as [|a l IH]; simpl; [reflexivity|]. destruct (p (f a)); simpl; rewrite IH; reflexivity. Qed.

Lemma filter_all {A} (p : A -> bool) l : Forall (fun x => p x = true) l -> filter p l = l.
Proof. induction 1 as [|a l Ha _ IH]; simpl; [reflexivity|]. rewrite Ha, IH. reflexivity. Qed.

Lemma filter_none {A} (p : A -> bool) l : Forall (fun x => p x = false) l -> filter p l = [].
Proof. induction 1 as [|a l Ha _ IH]; simpl; [reflexivity|]. rewrite Ha, IH. reflexivity. Qed.

Definition conflict (cs : list centry) : bool :=
  is_nil (with_rank 3 cs) && is_nil (with_rank 2 cs) && negb (is_nil (with_rank 1 cs))
  && match cs with c :: _ => snd c =? 0 | [] => false end.

Definition dm1 (c : centry) : centry := (fst c, if snd c =? 1 then 0 else snd c).

Definition low (cs : list centry) : list centry := filter (fun c : centry => (snd c =? 0) || (snd c =? 1)) cs.

Lemma low_ranks cs : Forall rank_ok cs -> with_rank 3 cs = [] -> with_rank 2 cs = [] -> low cs = cs.
Proof.
  unfold low.
  induction 1 as [|c cs Hc _ IH]; intros H3 H2; [reflexivity|].
  unfold with_rank in *. simpl in H3, H2. simpl.
  destruct (rank_cases c Hc) as [E | [E | [E | E]]]; rewrite E in *; simpl in *; try discriminate;
    (rewrite IH by assumption; reflexivity).
Qed.

Lemma low_ranks_forall cs : Forall rank_ok cs -> with_rank 3 cs = [] -> with_rank 2 cs = [] ->
  Forall (fun c : centry => (snd c =? 0) || (snd c =? 1) = true) cs.
Proof.
  induction 1 as [|c cs Hc _ IH]; intros H3 H2; [constructor|].
  unfold with_rank in *. simpl in H3, H2.
  destruct (rank_cases c Hc) as [E | [E | [E | E]]]; rewrite E in H3, H2; simpl in H3, H2; try discriminate;
    (constructor; [rewrite E; reflexivity | apply IH; assumption]).
Qed.

Lemma wr3_dm1 cs : with_rank 3 (map dm1 cs) = map dm1 (with_rank 3 cs).
Proof.
  unfold with_rank. rewrite filter_map_comm. f_equal. apply filter_ext. intros c. unfold dm1. simpl.
  destruct (Z.eqb_spec (snd c) 1) as [E|E]; [rewrite E|]; reflexivity.
Qed.
Lemma wr2_dm1 cs : with_rank 2 (map dm1 cs) = map dm1 (with_rank 2 cs).
Proof.
  unfold with_rank. rewrite filter_map_comm. f_equal. apply filter_ext. intros c. unfold dm1. simpl.
  destruct (Z.eqb_spec (snd c) 1) as [E|E]; [rewrite E|]; reflexivity.
Qed.
Lemma wr1_dm1 cs : with_rank 1 (map dm1 cs) = [].
Proof.
  unfold with_rank. rewrite filter_map_comm.
  rewrite filter_none; [reflexivity|]. apply Forall_forall. intros c _. unfold dm1. simpl.
  destruct (Z.eqb_spec (snd c) 1) as [E|E]; [reflexivity|]. apply Z.eqb_neq. assumption.
Qed.
Lemma wr0_dm1 cs : with_rank 0 (map dm1 cs) = map dm1 (low cs).
Proof.
  unfold with_rank, low. rewrite filter_map_comm. f_equal. apply filter_ext. intros c. unfold dm1. simpl.
  destruct (Z.eqb_spec (snd c) 1) as [E|E]; [rewrite E; reflexivity|]. rewrite orb_false_r. reflexivity.
Qed.

Lemma best_catch_demote cs : Forall rank_ok cs -> conflict cs = false ->
  option_map fst (best_catch (map dm1 cs)) = option_map fst (best_catch cs).
Proof.
  intros Hok Hcf. unfold best_catch. rewrite wr3_dm1, wr2_dm1, wr1_dm1, wr0_dm1.
  unfold conflict in Hcf.
  destruct (with_rank 3 cs) as [|c3 w3] eqn:W3; [|reflexivity].
  destruct (with_rank 2 cs) as [|c2 w2] eqn:W2; [|reflexivity].
  simpl. rewrite (low_ranks cs Hok W3 W2). simpl in Hcf.
  destruct cs as [|c cs]; [reflexivity|].
  simpl. inversion Hok as [|? ? Hc Hcs]; subst.
  assert (Hl := low_ranks_forall (c :: cs) Hok W3 W2). inversion Hl as [|? ? Hc01 _]; subst. clear Hl.
  unfold with_rank in *. simpl in *.
  destruct (Z.eqb_spec (snd c) 0) as [E|E].
  - rewrite E in *. simpl in *. rewrite andb_true_r in Hcf. apply negb_false_iff in Hcf.
    destruct (filter (fun c0 : list addr * Z * Z => snd c0 =? 1) cs); [reflexivity | discriminate].
  - apply Z.eqb_eq in Hc01. rewrite Hc01. reflexivity.
Qed.

Lemma pick_via_payload vs :
  pick vs = match first_explicit vs with
            | Some (ips, mode) => (ips, true, mode)
            | None => match option_map fst (best_catch (catches vs)) with
                      | Some (ips, mode) => (ips, true, mode)
                      | None => ([], false, 0)
                      end
            end.
Proof.
  unfold pick. destruct (first_explicit vs) as [[i m]|]; [reflexivity|].
  destruct (best_catch (catches vs)) as [[[i m] k]|]; reflexivity.
Qed.

Theorem code_precedence_is_documented rs ty loc iface :
  cidr_only_vs_global rs ty loc iface = false ->
  code_precedence_lookup rs ty loc iface = spec_lookup rs ty loc iface.
Proof.
  intros Hn. unfold code_precedence_lookup, spec_lookup. rewrite !pick_via_payload.
  rewrite (first_explicit_rank_indep (code_rank iface) doc_rank).
  destruct (first_explicit (map (spec_view doc_rank ty loc iface) rs)) as [[i m]|] eqn:Ef; [reflexivity|].
  rewrite catches_demote.
  unfold cidr_only_vs_global in Hn. rewrite Ef in Hn.
  destruct (String.eqb iface "") eqn:Ei.
  - assert (Hid : map (dm iface) (catches (map (spec_view doc_rank ty loc iface) rs))
                  = catches (map (spec_view doc_rank ty loc iface) rs)).
    { rewrite <- (map_id (catches _)) at 2. apply map_ext. intros [p k]. unfold dm, demote. rewrite Ei. reflexivity. }
    rewrite Hid. reflexivity.
  - assert (Hd : map (dm iface) (catches (map (spec_view doc_rank ty loc iface) rs))
                 = map dm1 (catches (map (spec_view doc_rank ty loc iface) rs))).
    { apply map_ext. intros [p k]. unfold dm, dm1, demote. rewrite Ei. reflexivity. }
    rewrite Hd. rewrite best_catch_demote; [reflexivity | apply catches_rank_ok, doc_rank_range |].
    simpl in Hn. unfold conflict. rewrite <- !andb_assoc in *. exact Hn.
Qed.

Theorem lookup_spec_partial rs m ty loc iface :
  compile rs = COk m -> cidr_only_vs_global rs ty loc iface = false ->
  lookup m ty loc iface = spec_lookup rs ty loc iface.
Proof.
  intros Hc Hn. rewrite (lookup_code_precedence rs m ty loc iface Hc).
  apply code_precedence_is_documented. exact Hn.
Qed.

(* ------------------------------------------------------------------ families *)

Lemma hd_error_in_local {A} (l : list A) a : hd_error l = Some a -> In a l.
Proof. destruct l; simpl; [discriminate|]. intros H. inversion H. left. reflexivity. Qed.

Lemma best_catch_in cs c : best_catch cs = Some c -> In c cs.
Proof.
  unfold best_catch, with_rank. intros H. apply hd_error_in_local in H.
  repeat (apply in_app_or in H; destruct H as [H|H]); apply filter_In in H; tauto.
Qed.

Lemma first_explicit_in vs ips mode : first_explicit vs = Some (ips, mode) -> In (VExplicit ips mode) vs.
Proof.
  induction vs as [|v vs IH]; simpl; [discriminate|].
  destruct v; try (intros H; right; apply IH; exact H).
  intros H. inversion H. left. reflexivity.
Qed.

Lemma catches_in vs ips mode k : In (ips, mode, k) (catches vs) -> In (VCatch ips mode k) vs.
Proof.
  induction vs as [|v vs IH]; simpl; [tauto|].
  destruct v; try (intros H; right; apply IH; exact H).
  simpl. intros [H|H]; [inversion H; left; reflexivity | right; apply IH; exact H].
Qed.

Lemma pick_origin vs ips mode : pick vs = (ips, true, mode) ->
  In (VExplicit ips mode) vs \/ exists k, In (VCatch ips mode k) vs.
Proof.
  unfold pick. destruct (first_explicit vs) as [[i m]|] eqn:Ef.
  - intros H. inversion H; subst. left. apply first_explicit_in. exact Ef.
  - destruct (best_catch (catches vs)) as [[[i m] k]|] eqn:Eb; [|discriminate].
    intros H. inversion H; subst. right. exists k. apply catches_in. apply best_catch_in. exact Eb.
Qed.

Lemma pick_unmatched vs ips mode : pick vs = (ips, false, mode) -> ips = [].
Proof.
  unfold pick. destruct (first_explicit vs) as [[i m]|]; [discriminate|].
  destruct (best_catch (catches vs)) as [[[i m] k]|]; [discriminate|]. intros H. inversion H. reflexivity.
Qed.

Theorem families_partial rs m ty loc iface ips matched mode e :
  compile rs = COk m -> lookup m ty loc iface = (ips, matched, mode) -> In e ips -> fst e <> fst loc ->
  (exists r, In r rs /\ eff_type r = ty /\ r_local r = SGood loc /\ In e (exts r)) \/
  (exists r c, In r rs /\ eff_type r = ty /\ r_local r = SEmpty /\ cidr_of r = Some c /\
               cidr_v4 c = fst loc /\ cidr_contains c loc = true /\ In e (exts r)).
Proof.
  intros Hc Hl He Hf. rewrite (lookup_code_precedence _ _ _ _ _ Hc) in Hl.
  unfold code_precedence_lookup in Hl.
  destruct matched; [|apply pick_unmatched in Hl; subst; contradiction].
  apply pick_origin in Hl. destruct Hl as [Hl | [k Hl]]; apply in_map_iff in Hl; destruct Hl as [r [Hv Hr]];
    unfold spec_view in Hv.
  - left. exists r. destruct (explicit_match r ty loc iface) eqn:Em.
    + inversion Hv; subst. unfold explicit_match, scope_match, local_of in Em.
      rewrite !andb_true_iff in Em. destruct Em as [[[[Et _] _] _] El].
      destruct (r_local r) as [| | |l] eqn:Erl; try discriminate. apply addr_eqb_eq in El. subst l.
      apply Z.eqb_eq in Et. auto.
    + destruct (catchall_match r ty loc iface); discriminate.
  - right. destruct (explicit_match r ty loc iface); [discriminate|].
    destruct (catchall_match r ty loc iface) eqn:Em; [|discriminate].
    inversion Hv; subst. clear Hv.
    unfold catchall_match, scope_match in Em. rewrite !andb_true_iff in Em.
    destruct Em as [[[[[Et _] Hcid] _] El] _].
    unfold offers in He. destruct (net_allows r (fst loc)); [|contradiction].
    apply filter_In in He. destruct He as [He Ht]. apply eqb_prop in Ht.
    unfold target_family in Ht. destruct (cidr_of r) as [c|] eqn:Ec; [|contradiction].
    exists r, c. apply Z.eqb_eq in Et. destruct (r_local r); try discriminate. auto 10.
Qed.

Theorem families_clean rs m ty loc iface ips matched mode e :
  (forall r, In r rs -> cidr_cross_rule r = false) ->
  compile rs = COk m -> lookup m ty loc iface = (ips, matched, mode) -> In e ips -> fst e <> fst loc ->
  exists r, In r rs /\ eff_type r = ty /\ r_local r = SGood loc /\ In e (exts r).
Proof.
  intros Hclean Hc Hl He Hf.
  destruct (families_partial _ _ _ _ _ _ _ _ _ Hc Hl He Hf) as [H | [r [c [Hr [_ [El [Ec [Hv [_ Hin]]]]]]]]]; [exact H|].
  exfalso. specialize (Hclean r Hr). unfold cidr_cross_rule in Hclean. rewrite El, Ec in Hclean. simpl in Hclean.
  assert (Hex : existsb (fun e0 : addr => negb (Bool.eqb (fst e0) (cidr_v4 c))) (exts r) = true).
  { apply existsb_exists. exists e. split; [exact Hin|]. rewrite Hv.
    destruct (fst e), (fst loc); simpl; try reflexivity; exfalso; apply Hf; reflexivity. }
  unfold addr in *. rewrite Hex in Hclean. discriminate.
Qed.

(* ------------------------------------------------------------------ modes *)

(* what "replace" and "append" mean for a function that starts from [orig]; [keep] says whether
   the function itself re-emits [orig] in append mode (host, UDP mux, relay) or only returns the
   additions (srflx: the STUN-derived candidates are gathered by a separate path) *)
Definition mode_sem (keep : bool) (orig : addr) (found : lres) (res : list addr * bool) : Prop :=
  let '(ips, matched, mode) := found in
  (matched = false -> res = ([orig], true)) /\
  (matched = true -> mode = 1 -> ips <> [] -> res = (ips, true)) /\
  (matched = true -> mode = 1 -> ips = [] -> snd res = false) /\
  (matched = true -> mode <> 1 -> ips = [] -> res = ([orig], true)) /\
  (matched = true -> mode <> 1 -> ips <> [] -> res = ((if keep then [orig] else []) ++ ips, true)).

Ltac mode_case :=
  intros; subst; try discriminate; simpl;
  try match goal with H : ?x <> 1 |- _ => destruct (Z.eqb_spec x 1); [contradiction|] end;
  try match goal with H : ?l <> [] |- _ => destruct l; [contradiction|] end;
  simpl; try reflexivity.
Ltac mode_cases := split; [|split; [|split; [|split]]]; mode_case.

Theorem modes_host m self iface :
  mode_sem true self (lookup m 1 self iface) (apply_host m (SGood self) [self] iface).
Proof.
  unfold apply_host, find_external_ips. destruct (lookup m 1 self iface) as [[ips matched] mode].
  unfold mode_sem. destruct matched; mode_cases.
Qed.

Theorem modes_udpmux m self :
  mode_sem true self (lookup m 1 self "") (apply_udpmux m (SGood self) [self]).
Proof.
  unfold apply_udpmux, find_external_ips. destruct (lookup m 1 self "") as [[ips matched] mode].
  unfold mode_sem. destruct matched; mode_cases.
Qed.

Theorem modes_srflx m self iface :
  (has_candidate_type m 2 = false -> resolve_srflx m (SGood self) self iface = ([self], true)) /\
  (has_candidate_type m 2 = true ->
   mode_sem false self (lookup m 2 self iface) (resolve_srflx m (SGood self) self iface)).
Proof.
  unfold resolve_srflx, find_external_ips. split; intros H; rewrite H; simpl; [reflexivity|].
  destruct (lookup m 2 self iface) as [[ips matched] mode].
  unfold mode_sem. destruct matched; mode_cases.
  all: try (destruct (mode =? 1); reflexivity).
Qed.

Theorem modes_relay m rel address iface :
  (has_candidate_type m 4 = false -> resolve_relay m (SGood rel) address iface = ([address], true)) /\
  (has_candidate_type m 4 = true ->
   mode_sem true address (lookup m 4 rel iface) (resolve_relay m (SGood rel) address iface)).
Proof.
  unfold resolve_relay, find_external_ips. split; intros H; rewrite H; simpl; [reflexivity|].
  destruct (lookup m 4 rel iface) as [[ips matched] mode].
  unfold mode_sem. destruct matched; mode_cases.
Qed.

(* an unparseable relay base address: nothing is emitted *)
Lemma relay_bad_address m address iface s :
  has_candidate_type m 4 = true -> is_good s = false -> resolve_relay m s address iface = ([], false).
Proof. intros H Hs. unfold resolve_relay. rewrite H. destruct s; simpl in *; try reflexivity; discriminate. Qed.

(* ------------------------------------------------------------------ validation *)

Lemma exists_bad_all_good ext : existsb (fun x : xstr => negb (is_good (snd x))) ext = negb (all_good ext).
Proof.
  unfold all_good. induction ext as [|x ext IH]; [reflexivity|]. simpl. rewrite IH.
  destruct (is_good (snd x)); reflexivity.
Qed.

Definition is_cerr (c : crule) : bool := match c with CRErr _ => true | _ => false end.

Lemma compile_rule_err r : is_cerr (compile_rule r) = rule_invalid r.
Proof.
  rewrite compile_rule_closed. unfold compile_rule_cf, rule_invalid, local_in_cidr, cidr_of.
  rewrite exists_bad_all_good.
  destruct (eff_type r =? 3); [reflexivity|]. simpl.
  destruct (rule_ignored r); [reflexivity|]. simpl.
  destruct (r_cidr r) as [| |c]; try reflexivity;
    destruct (r_local r) as [| | |l]; try reflexivity; simpl;
    try (destruct (cidr_contains c l); simpl; [|reflexivity]);
    destruct (all_good (r_external r)); simpl; try reflexivity;
    try (destruct (has_mappings (final_catch r)); reflexivity);
    try (destruct (net_allows r (fst l)); reflexivity).
Qed.

Definition is_err (c : cres) : bool := match c with CErr _ => true | COk _ => false end.

Theorem compile_rejects_iff rs : is_err (compile rs) = existsb rule_invalid rs.
Proof.
  induction rs as [|r rs IH]; [reflexivity|]. simpl. rewrite <- compile_rule_err, <- IH.
  destruct (compile_rule r); simpl; try reflexivity.
  destruct (compile rs); reflexivity.
Qed.

(* the individual rejection clauses of the property *)
Corollary rejects_unsupported_type rs r : In r rs -> eff_type r = 3 -> is_err (compile rs) = true.
Proof.
  intros Hin Ht. rewrite compile_rejects_iff. apply existsb_exists. exists r. split; [exact Hin|].
  unfold rule_invalid. rewrite Ht. reflexivity.
Qed.

Corollary rejects_bad_ip rs r x : In r rs -> rule_ignored r = false -> eff_type r <> 3 ->
  (In x (r_external r) /\ is_good (snd x) = false) \/ r_local r = SBad \/ r_local r = SSlash \/ r_cidr r = CBad ->
  is_err (compile rs) = true.
Proof.
  intros Hin Hi Ht H. rewrite compile_rejects_iff. apply existsb_exists. exists r. split; [exact Hin|].
  unfold rule_invalid. rewrite Hi. simpl. apply orb_true_iff. right.
  destruct H as [[Hx Hb] | [H | [H | H]]].
  - rewrite !orb_true_iff. right. apply existsb_exists. exists x. rewrite Hb. auto.
  - rewrite H. rewrite !orb_true_iff. left. left. right. reflexivity.
  - rewrite H. rewrite !orb_true_iff. left. left. right. reflexivity.
  - rewrite H. reflexivity.
Qed.

Corollary rejects_local_outside_cidr rs r l c : In r rs -> rule_ignored r = false ->
  r_local r = SGood l -> r_cidr r = CGood c -> cidr_contains c l = false -> is_err (compile rs) = true.
Proof.
  intros Hin Hi Hl Hc Hn. rewrite compile_rejects_iff. apply existsb_exists. exists r. split; [exact Hin|].
  unfold rule_invalid. rewrite Hi, Hl, Hc, Hn. simpl. rewrite !orb_true_r. reflexivity.
Qed.

(* the nil mapper: no key is matched by the documented lookup *)
Theorem nil_mapper_unmatched rs ty loc iface :
  compile rs = COk [] -> code_precedence_lookup rs ty loc iface = ([], false, 0).
Proof. intros H. rewrite <- (lookup_code_precedence rs [] ty loc iface H). reflexivity. Qed.

(* ------------------------------------------------------------------ legacy NAT1To1IPs *)

Definition b2z (b : bool) : Z := if b then 1 else 0.
Definition count_catch (v4 : bool) (es : list lentry) : Z := Z.of_nat (length (filter (lentry_catchall v4) es)).

Lemma legacy_validate_from_spec es : forall h4 h6,
  legacy_validate_from es h4 h6 =
  forallb lentry_ok es && (count_catch true es + b2z h4 <=? 1) && (count_catch false es + b2z h6 <=? 1).
Proof.
  unfold count_catch.
  induction es as [|e es IH]; intros h4 h6.
  - simpl. destruct h4, h6; reflexivity.
  - destruct e as [| |s|raw tr loc].
    + simpl. apply IH.
    + reflexivity.
    + destruct s as [| | |[f n]]; try reflexivity.
      destruct f.
      * cbn [legacy_validate_from fst forallb lentry_ok is_good andb filter lentry_catchall Bool.eqb length].
        rewrite Nat2Z.inj_succ.
        destruct h4.
        -- replace (Z.succ (Z.of_nat (length (filter (lentry_catchall true) es))) + b2z true <=? 1) with false
             by (symmetry; apply Z.leb_gt; simpl; lia).
           rewrite andb_false_r. reflexivity.
        -- rewrite IH. simpl b2z. f_equal. f_equal. f_equal. lia.
      * cbn [legacy_validate_from fst forallb lentry_ok is_good andb filter lentry_catchall Bool.eqb length].
        rewrite Nat2Z.inj_succ.
        destruct h6.
        -- replace (Z.succ (Z.of_nat (length (filter (lentry_catchall false) es))) + b2z true <=? 1) with false
             by (symmetry; apply Z.leb_gt; simpl; lia).
           rewrite andb_false_r. reflexivity.
        -- rewrite IH. simpl b2z. f_equal. f_equal. lia.
    + destruct raw as [| | |a]; try reflexivity. destruct loc as [| | |b]; try reflexivity.
      simpl. apply IH.
Qed.

Theorem legacy_validate_spec es : legacy_validate es = legacy_valid es.
Proof.
  unfold legacy_validate, legacy_valid. rewrite legacy_validate_from_spec.
  unfold count_catch. simpl. rewrite !Z.add_0_r. reflexivity.
Qed.

(* duplicate catch-alls of one family are rejected *)
Corollary legacy_rejects_duplicates es v4 : 2 <= count_catch v4 es -> legacy_validate es = false.
Proof.
  intros H. rewrite legacy_validate_spec. unfold legacy_valid. unfold count_catch in H.
  destruct v4.
  - replace (Z.of_nat (length (filter (lentry_catchall true) es)) <=? 1) with false by (symmetry; apply Z.leb_gt; lia).
    rewrite andb_false_r. reflexivity.
  - replace (Z.of_nat (length (filter (lentry_catchall false) es)) <=? 1) with false by (symmetry; apply Z.leb_gt; lia).
    rewrite andb_false_r. reflexivity.
Qed.

(* a well-formed legacy list translates to rules that compile (for a supported candidate type) *)
Definition legacy_shape (ty : Z) (r : rule) : Prop :=
  (exists id a, r_external r = [(id, SGood a)]) /\ (r_local r = SEmpty \/ exists l, r_local r = SGood l) /\
  r_cidr r = CNone /\ r_networks r = [] /\ r_type r = ty.

Definition lentry_coherent (e : lentry) : Prop :=
  match e with LTwo raw tr _ => is_good raw = true -> tr = raw | _ => True end.

Lemma legacy_rules_shape es : forall ty idx, forallb lentry_ok es = true -> Forall lentry_coherent es ->
  exists rs, legacy_rules_from es ty idx = Some rs /\ Forall (legacy_shape ty) rs.
Proof.
  induction es as [|e es IH]; intros ty idx Hok Hco.
  - exists []. split; [reflexivity | constructor].
  - simpl in Hok. apply andb_true_iff in Hok. destruct Hok as [He Hes].
    inversion Hco as [|? ? Hce Hces]; subst.
    destruct (IH ty (idx + 1) Hes Hces) as [rs [Hrs Hsh]].
    destruct e as [| |s|raw tr loc]; simpl in *.
    + exists rs. auto.
    + discriminate.
    + destruct s as [| | |a]; try discriminate. rewrite Hrs. eexists. split; [reflexivity|].
      constructor; [|exact Hsh]. unfold legacy_shape. simpl. repeat split; eauto.
    + apply andb_true_iff in He. destruct He as [Hraw Hloc]. rewrite (Hce Hraw), Hraw, Hloc. simpl. rewrite Hrs.
      eexists. split; [reflexivity|]. constructor; [|exact Hsh].
      destruct raw as [| | |a]; try discriminate. destruct loc as [| | |l]; try discriminate.
      unfold legacy_shape. simpl. repeat split; eauto.
Qed.

Lemma legacy_shape_valid ty r : ty <> 3 -> ty <> 0 -> legacy_shape ty r -> rule_invalid r = false.
Proof.
  intros H3 H0 [[id [a He]] [Hl [Hc [Hn Ht]]]].
  unfold rule_invalid, rule_ignored, eff_type. rewrite He, Hc, Hn, Ht. simpl.
  destruct (Z.eqb_spec ty 0); [contradiction|]. destruct (Z.eqb_spec ty 3); [contradiction|]. simpl.
  destruct Hl as [-> | [l ->]]; reflexivity.
Qed.

Theorem legacy_accepted es cfg_ty :
  legacy_validate es = true -> Forall lentry_coherent es -> cfg_ty <> 3 ->
  exists rs m, legacy_config_rules es cfg_ty = Some rs /\ compile rs = COk m.
Proof.
  intros Hv Hco Hty. unfold legacy_config_rules. rewrite Hv.
  rewrite legacy_validate_spec in Hv. unfold legacy_valid in Hv. rewrite !andb_true_iff in Hv.
  destruct Hv as [[Hok _] _].
  set (ty := if cfg_ty =? 0 then 1 else cfg_ty).
  assert (Ht3 : ty <> 3) by (unfold ty; destruct (Z.eqb_spec cfg_ty 0); lia).
  assert (Ht0 : ty <> 0) by (unfold ty; destruct (Z.eqb_spec cfg_ty 0); lia).
  destruct (legacy_rules_shape es ty 0 Hok Hco) as [rs [Hrs Hsh]].
  exists rs. unfold legacy_rules. rewrite Hrs.
  assert (He : is_err (compile rs) = false).
  { rewrite compile_rejects_iff. apply not_true_is_false. intros Hex. apply existsb_exists in Hex.
    destruct Hex as [r [Hin Hinv]]. rewrite Forall_forall in Hsh.
    rewrite (legacy_shape_valid ty r Ht3 Ht0 (Hsh r Hin)) in Hinv. discriminate. }
  destruct (compile rs) as [c|m]; [discriminate|]. exists m. auto.
Qed.

(* ------------------------------------------------------------------ WithAddressRewriteRules validation *)

Lemma sanitize_externals_no_good ext : forall seen, good_addrs ext = [] -> sanitize_externals true ext seen [] = None.
Proof.
  induction ext as [|[id s] ext IH]; intros seen Hg; [reflexivity|].
  destruct s as [| | |a]; simpl in *; try discriminate.
  - apply IH. exact Hg.
  - destruct (existsb (Z.eqb id) seen); [apply IH; exact Hg | reflexivity].
  - destruct (existsb (Z.eqb id) seen); [apply IH; exact Hg | reflexivity].
Qed.

(* the pinned option rejects every rule without a usable External entry -- including the EMPTY list
   that the documentation of AddressRewriteRule.External declares legitimate *)
Theorem sanitize_rejects_no_external r : good_addrs (r_external r) = [] -> sanitize_rule true r = None.
Proof. intros H. unfold sanitize_rule. rewrite (sanitize_externals_no_good _ [] H). reflexivity. Qed.

Lemma sanitize_externals_all_empty ext : forall seen,
  forallb (fun x : xstr => match snd x with SEmpty => true | _ => false end) ext = true ->
  sanitize_externals false ext seen [] = Some [].
Proof.
  induction ext as [|[id s] ext IH]; intros seen H; [reflexivity|].
  simpl in H. destruct s; try discriminate. simpl. apply IH. exact H.
Qed.

(* with the proposed repair a rule whose External list is empty (or blank) passes, with an empty list *)
Theorem sanitize_repaired_accepts_empty r :
  forallb (fun x : xstr => match snd x with SEmpty => true | _ => false end) (r_external r) = true ->
  (r_local r = SEmpty \/ exists l, r_local r = SGood l) -> (r_mode r = 1 \/ r_mode r = 2) ->
  sanitize_rule false r = Some (mkRule [] (r_local r) (r_iface r) (r_cidr r) (r_type r) (r_mode r) (r_networks r)).
Proof.
  intros He Hl Hm. unfold sanitize_rule. rewrite (sanitize_externals_all_empty _ [] He).
  destruct Hl as [-> | [l ->]]; destruct Hm as [-> | ->]; reflexivity.
Qed.

Lemma sanitize_externals_good re ext : forall seen acc out,
  all_good acc = true -> sanitize_externals re ext seen acc = Some out ->
  all_good out = true /\ (re = true -> out <> []).
Proof.
  unfold all_good.
  induction ext as [|[id s] ext IH]; intros seen acc out Hacc H.
  - simpl in H. destruct acc as [|a acc].
    + destruct re; simpl in H; [discriminate|]. inversion H; subst. split; [reflexivity | discriminate].
    + simpl in H. inversion H; subst. split.
      * rewrite forallb_forall in *. intros x Hx. apply Hacc. apply in_rev. exact Hx.
      * intros _. simpl. destruct (rev acc); discriminate.
  - destruct s as [| | |a]; simpl in H.
    + eapply IH; eassumption.
    + destruct (existsb (Z.eqb id) seen); [eapply IH; eassumption | discriminate].
    + destruct (existsb (Z.eqb id) seen); [eapply IH; eassumption | discriminate].
    + destruct (existsb (Z.eqb id) seen); [eapply IH; eassumption|].
      eapply IH; [|exact H]. simpl. exact Hacc.
Qed.

(* what survives the option has only parseable External/Local entries and a definite mode: the
   only errors left for newAddressRewriteMapper are a bad CIDR, Local outside the CIDR, or the
   peer-reflexive type *)
Theorem sanitize_output re r r' : sanitize_rule re r = Some r' ->
  all_good (r_external r') = true /\ (re = true -> r_external r' <> []) /\
  (r_local r' = SEmpty \/ exists l, r_local r' = SGood l) /\ r_mode r' <> 0 /\
  r_iface r' = r_iface r /\ r_cidr r' = r_cidr r /\ r_type r' = r_type r /\ r_networks r' = r_networks r.
Proof.
  unfold sanitize_rule. destruct (sanitize_externals re (r_external r) [] []) as [ext|] eqn:Es; [|discriminate].
  destruct (sanitize_externals_good re (r_external r) [] [] ext (eq_refl : all_good [] = true) Es) as [Hg Hne].
  assert (Hl : forall s, (match s with SEmpty | SGood _ => true | _ => false end) = true ->
                         s = SEmpty \/ exists l, s = SGood l).
  { intros s. destruct s; try discriminate; eauto. }
  destruct (match r_local r with SEmpty | SGood _ => true | _ => false end) eqn:El; [|discriminate].
  simpl. destruct (Z.eqb_spec (r_mode r) 0) as [E0|E0].
  - intros H. inversion H; subst; simpl. repeat split; auto.
    apply default_mode_nonzero.
  - destruct ((r_mode r =? 1) || (r_mode r =? 2)); [|discriminate].
    intros H. inversion H; subst; simpl. repeat split; auto.
Qed.

(* ------------------------------------------------------------------ the monitors accept the model *)

Lemma mem_addr_in e l : In e l -> mem_addr e l = true.
Proof. intros H. unfold mem_addr. apply existsb_exists. exists e. split; [exact H | apply addr_eqb_refl]. Qed.

Theorem lookup_monitor_sound_partial rs m ty loc iface :
  compile rs = COk m -> cidr_only_vs_global rs ty loc iface = false ->
  (forall r, In r rs -> cidr_cross_rule r = false) ->
  all_ok (C19_lookup_checks rs ty loc iface (lookup m ty loc iface)) = true.
Proof.
  intros Hc Hn Hclean. unfold all_ok, C19_lookup_checks. simpl.
  rewrite (lookup_spec_partial rs m ty loc iface Hc Hn), lres_eqb_refl. simpl. rewrite andb_true_r.
  rewrite <- (lookup_spec_partial rs m ty loc iface Hc Hn).
  destruct (lookup m ty loc iface) as [[ips matched] mode] eqn:El. simpl.
  unfold no_cross_family. apply forallb_forall. intros e He.
  destruct (Bool.eqb (fst e) (fst loc)) eqn:Ef; [reflexivity|]. simpl.
  assert (Hf : fst e <> fst loc) by (intros Heq; rewrite Heq, eqb_reflx in Ef; discriminate).
  destruct (families_clean rs m ty loc iface ips matched mode e Hclean Hc El He Hf) as [r [Hr [Ht [Hl Hin]]]].
  apply mem_addr_in. unfold pinned_exts. apply in_flat_map. exists r. split; [exact Hr|].
  unfold local_of. rewrite Hl, Ht, Z.eqb_refl, addr_eqb_refl. exact Hin.
Qed.

Lemma mode_ok_host m self iface :
  mode_ok true self (if has_candidate_type m 1 then lookup m 1 self iface else ([], false, 0))
          (host_addresses m self iface) = true.
Proof.
  unfold host_addresses, apply_host, find_external_ips.
  destruct (has_candidate_type m 1); [|unfold mode_ok; simpl; rewrite addr_eqb_refl; reflexivity].
  destruct (lookup m 1 self iface) as [[ips matched] mode]. unfold mode_ok, mode_expect.
  destruct matched; simpl; [|rewrite addr_eqb_refl; reflexivity].
  destruct (mode =? 1); simpl.
  - destruct ips; simpl; [reflexivity|]. rewrite addr_eqb_refl, addrs_eqb_refl. reflexivity.
  - destruct (mode =? 2); [|reflexivity]. destruct ips; simpl; rewrite ?addr_eqb_refl, ?addrs_eqb_refl; reflexivity.
Qed.

Lemma mode_ok_udpmux m self :
  mode_ok true self (if has_candidate_type m 1 then lookup m 1 self "" else ([], false, 0))
          (udpmux_addresses m self) = true.
Proof.
  unfold udpmux_addresses, apply_udpmux, find_external_ips.
  destruct (has_candidate_type m 1); [|unfold mode_ok; simpl; rewrite addr_eqb_refl; reflexivity].
  destruct (lookup m 1 self "") as [[ips matched] mode]. unfold mode_ok, mode_expect.
  destruct matched; simpl; [|rewrite addr_eqb_refl; reflexivity].
  destruct (mode =? 1); simpl.
  - destruct ips; simpl; [reflexivity|]. rewrite addr_eqb_refl, addrs_eqb_refl. reflexivity.
  - destruct (mode =? 2); [|reflexivity]. destruct ips; simpl; rewrite ?addr_eqb_refl, ?addrs_eqb_refl; reflexivity.
Qed.

Lemma mode_ok_srflx m self iface :
  mode_ok false self (if has_candidate_type m 2 then lookup m 2 self iface else ([], false, 0))
          (resolve_srflx m (SGood self) self iface) = true.
Proof.
  unfold resolve_srflx, find_external_ips.
  destruct (has_candidate_type m 2); simpl; [|unfold mode_ok; simpl; rewrite addr_eqb_refl; reflexivity].
  destruct (lookup m 2 self iface) as [[ips matched] mode]. unfold mode_ok, mode_expect.
  destruct matched; simpl; [|rewrite addr_eqb_refl; reflexivity].
  destruct (mode =? 1); simpl.
  - destruct ips; simpl; [reflexivity|]. rewrite addr_eqb_refl, addrs_eqb_refl. reflexivity.
  - destruct (mode =? 2); [|reflexivity]. destruct ips; simpl; rewrite ?addr_eqb_refl, ?addrs_eqb_refl; reflexivity.
Qed.

Lemma mode_ok_relay m rel orig iface :
  mode_ok true orig (if has_candidate_type m 4 then lookup m 4 rel iface else ([], false, 0))
          (resolve_relay m (SGood rel) orig iface) = true.
Proof.
  unfold resolve_relay, find_external_ips.
  destruct (has_candidate_type m 4); simpl; [|unfold mode_ok; simpl; rewrite addr_eqb_refl; reflexivity].
  destruct (lookup m 4 rel iface) as [[ips matched] mode]. unfold mode_ok, mode_expect.
  destruct matched; simpl; [|rewrite addr_eqb_refl; reflexivity].
  destruct (mode =? 1); simpl.
  - destruct ips; simpl; [reflexivity|]. rewrite addr_eqb_refl, addrs_eqb_refl. reflexivity.
  - destruct (mode =? 2); [|reflexivity]. destruct ips; simpl; rewrite ?addr_eqb_refl, ?addrs_eqb_refl; reflexivity.
Qed.

Theorem apply_monitor_sound m self orig iface :
  all_ok (C19_apply_checks (has_candidate_type m 1) (has_candidate_type m 2) (has_candidate_type m 4) self orig
            (lookup m 1 self iface) (lookup m 1 self "") (lookup m 2 self iface) (lookup m 4 self iface)
            (host_addresses m self iface) (udpmux_addresses m self)
            (resolve_srflx m (SGood self) self iface) (resolve_relay m (SGood self) orig iface)) = true.
Proof.
  unfold all_ok, C19_apply_checks. cbn [forallb snd].
  rewrite mode_ok_host, mode_ok_udpmux, mode_ok_srflx, mode_ok_relay. reflexivity.
Qed.

Theorem validation_monitor_sound rs : all_ok (C19_validation_checks rs (is_err (compile rs))) = true.
Proof.
  unfold all_ok, C19_validation_checks. simpl. rewrite compile_rejects_iff.
  destruct (existsb rule_invalid rs); reflexivity.
Qed.

Theorem legacy_monitor_sound es : all_ok (C19_legacy_checks es (negb (legacy_validate es))) = true.
Proof.
  unfold all_ok, C19_legacy_checks. simpl. rewrite legacy_validate_spec.
  destruct (legacy_valid es); reflexivity.
Qed.

(* ------------------------------------------------------------------ non-vacuity *)

Definition ex_a (n : Z) : addr := (true, n).
Definition ex_rules : list rule :=
  [ mkRule [(1, SGood (ex_a 100))] SEmpty "" CNone 1 0 [];                                   (* global *)
    mkRule [(2, SGood (ex_a 200))] SEmpty "" (CGood (true, 167772160, 24)) 1 0 [];           (* 10.0.0.0/24 *)
    mkRule [(3, SGood (ex_a 300))] SEmpty "eth0" CNone 1 0 [];                               (* eth0 *)
    mkRule [(4, SGood (ex_a 400)); (5, SGood (false, 9))] (SGood (ex_a 167772170)) "" CNone 1 2 [] ].  (* pinned, append *)

Example example_lookups :
  exists m, compile ex_rules = COk m /\
    lookup m 1 (ex_a 167772165) "" = ([ex_a 200], true, 1) /\
    lookup m 1 (ex_a 167772165) "eth0" = ([ex_a 300], true, 1) /\
    lookup m 1 (ex_a 3232235777) "" = ([ex_a 100], true, 1) /\
    lookup m 1 (ex_a 167772170) "eth0" = ([ex_a 400; (false, 9)], true, 2) /\
    cidr_only_vs_global ex_rules 1 (ex_a 167772165) "" = false /\
    cidr_only_vs_global ex_rules 1 (ex_a 167772165) "wlan0" = true /\
    (forall r, In r ex_rules -> cidr_cross_rule r = false).
Proof.
  eexists. split; [vm_compute; reflexivity|]. repeat split; try (vm_compute; reflexivity).
  intros r Hr. simpl in Hr. repeat (destruct Hr as [<- | Hr]; [vm_compute; reflexivity|]). contradiction.
Qed.
